(* C05 proofs, wave 9, second part: on a validated body the eager decoder is a function of the
   lazy slices (decode_by_slices), and from that the exact relation between eager and lazy errors:
   the eager decoder rejects a validated body iff some lazy accessor errs or the body is in one of
   the four eager-only classes (l_read_name = 0, name without NUL terminator, duplicate tag, CG
   resolution failure). *)
From Coq Require Import List NArith ZArith Bool Lia ZifyBool ZifyNat ZifyN.
From NV Require Import Bam.Record Bam.Encode Bam.Decode Bam.Lazy Bam.LazyErr Bam.CodecProofs Bam.AuxProofs
  Bam.LazyProofs Bam.LazyCigarProofs Bam.LazyDataProofs Bam.LazySwitchProofs Bam.LazyErrProofs.
Import ListNotations.
Open Scope N_scope.
Ltac Zify.zify_post_hook ::= Z.div_mod_to_equations.
Arguments N.add : simpl never.
Arguments N.sub : simpl never.
Arguments N.mul : simpl never.
Arguments N.div : simpl never.
Arguments N.modulo : simpl never.
Arguments N.pow : simpl never.

(* ---------- reads that must succeed ---------- *)
Lemma rdW_some : forall w l, N.of_nat w <= lenN l -> exists v r, rdW w l = Some (v, r).
Proof.
  induction w as [|w IH]; intros l H; cbn [rdW]; [eauto|].
  destruct l as [|x l]; cbn [lenN] in H; [lia|].
  destruct (IH l) as (v & r & E); [lia|]. rewrite E. eauto.
Qed.

Lemma takeN_some : forall l n, n <= lenN l -> exists a c, takeN n l = Some (a, c).
Proof.
  induction l as [|x l IH]; intros n H; cbn [takeN]; destruct (n =? 0) eqn:E; eauto.
  - cbn [lenN] in H. lia.
  - destruct (IH (n - 1)) as (a & c & Et); [cbn [lenN] in H; lia|]. rewrite Et. eauto.
Qed.

Lemma rd_ok : forall w off body, off + N.of_nat w <= lenN body ->
  rd w (skipN off body) = Ok (field off w body, skipN (off + N.of_nat w) body).
Proof.
  intros w off body H. destruct (rdW_some w (skipN off body)) as (v & r & E); [rewrite lenN_skipN; lia|].
  assert (H1 : rd w (skipN off body) = Ok (v, r)) by (unfold rd; rewrite E; reflexivity).
  destruct (rd_at _ _ _ _ _ H1) as [Hv Hr]. subst v r. exact H1.
Qed.

Lemma rd_i32_ok : forall off body, off + 4 <= lenN body ->
  rd_i32 (skipN off body) = Ok (to_signed 4 (field off 4 body), skipN (off + 4) body).
Proof.
  intros off body H. unfold rd_i32. rewrite rd_ok by (change (N.of_nat 4) with 4; lia). reflexivity.
Qed.

Lemma take_ok : forall n off body, off + n <= lenN body ->
  take n (skipN off body) = Ok (sliceN off n body, skipN (off + n) body).
Proof.
  intros n off body H. destruct (takeN_some (skipN off body) n) as (a & c & E); [rewrite lenN_skipN; lia|].
  assert (H1 : take n (skipN off body) = Ok (a, c)) by (unfold take; rewrite E; reflexivity).
  destruct (take_at _ _ _ _ _ H1) as (Ha & Hc & _). subst a c. exact H1.
Qed.

(* ---------- the eager decoder as a function of the lazy slices ---------- *)
Definition decode_by_slices (bs : bytes) : res record :=
  let* rid := lz_rid bs in
  let* pos := lz_pos bs in
  if lz_lname bs =? 0 then bad else
  let* mrid := lz_mrid bs in
  let* mpos := lz_mpos bs in
  let* name := dec_name (lz_name_raw bs) in
  let* cig := dec_ops (length (lz_cigar_raw bs)) (lz_nops bs) (lz_cigar_raw bs) in
  let* dt := dec_data (length (lz_data_raw bs)) (lz_data_raw bs) [] in
  let* (cig', dt') := resolve (lz_seq bs) cig dt in
  Ok (mkRecord name (lz_flags bs) rid pos (lz_mapq bs) cig' mrid mpos (lz_tlen bs)
               (lz_seq bs) (lz_qual bs) dt').

Lemma decode_body_slices : forall bs, validate bs = Ok tt -> decode_body bs = decode_by_slices bs.
Proof.
  intros bs Hval. pose proof (validate_ok bs Hval) as Hv.
  unfold decode_body, decode_by_slices. rewrite <- (skipN_0 bs) at 1.
  rewrite rd_i32_ok by lia. cbn [bindr]. change (dec_rid (to_signed 4 (field 0 4 bs))) with (lz_rid bs).
  destruct (lz_rid bs) as [rid|e]; cbn [bindr]; [|reflexivity].
  rewrite rd_i32_ok by lia. cbn [bindr]. change (0 + 4) with 4.
  change (dec_pos (to_signed 4 (field 4 4 bs))) with (lz_pos bs).
  destruct (lz_pos bs) as [pos|e]; cbn [bindr]; [|reflexivity].
  rewrite rd_ok by (change (N.of_nat 1) with 1; lia). cbn [bindr]. change (4 + 4) with 8.
  change (field 8 1 bs) with (lz_lname bs). destruct (lz_lname bs =? 0); [reflexivity|].
  rewrite rd_ok by (change (N.of_nat 1) with 1; lia). cbn [bindr]. change (8 + N.of_nat 1) with 9.
  rewrite rd_ok by (change (N.of_nat 2) with 2; change (N.of_nat 1) with 1; lia). cbn [bindr]. change (9 + N.of_nat 1) with 10.
  rewrite rd_ok by (change (N.of_nat 2) with 2; lia). cbn [bindr]. change (10 + N.of_nat 2) with 12.
  rewrite rd_ok by (change (N.of_nat 2) with 2; lia). cbn [bindr]. change (12 + N.of_nat 2) with 14.
  rewrite rd_ok by (change (N.of_nat 4) with 4; lia). cbn [bindr]. change (14 + N.of_nat 2) with 16.
  change (16 + N.of_nat 4) with 20.
  rewrite rd_i32_ok by lia. cbn [bindr]. change (dec_rid (to_signed 4 (field 20 4 bs))) with (lz_mrid bs).
  destruct (lz_mrid bs) as [mrid|e]; cbn [bindr]; [|reflexivity].
  rewrite rd_i32_ok by lia. cbn [bindr]. change (20 + 4) with 24.
  change (dec_pos (to_signed 4 (field 24 4 bs))) with (lz_mpos bs).
  destruct (lz_mpos bs) as [mpos|e]; cbn [bindr]; [|reflexivity].
  rewrite rd_i32_ok by lia. cbn [bindr]. change (24 + 4) with 28. change (28 + 4) with 32.
  change (field 12 2 bs) with (lz_nops bs). change (field 16 4 bs) with (lz_lseq bs).
  rewrite take_ok by lia. cbn [bindr]. change (sliceN 32 (lz_lname bs) bs) with (lz_name_raw bs).
  destruct (dec_name (lz_name_raw bs)) as [name|e]; cbn [bindr]; [|reflexivity].
  rewrite take_ok by lia. cbn [bindr].
  change (sliceN (32 + lz_lname bs) (4 * lz_nops bs) bs) with (lz_cigar_raw bs).
  destruct (dec_ops (length (lz_cigar_raw bs)) (lz_nops bs) (lz_cigar_raw bs)) as [cig|e]; cbn [bindr]; [|reflexivity].
  rewrite take_ok by lia. cbn [bindr].
  change (sliceN (32 + lz_lname bs + 4 * lz_nops bs) ((lz_lseq bs + 1) / 2) bs) with (lz_seq_raw bs).
  change (firstnN (lz_lseq bs) (unpack_bases (lz_seq_raw bs))) with (lz_seq bs).
  assert (Hq : (if lz_lseq bs =? 0
                then Ok ([], skipN (32 + lz_lname bs + 4 * lz_nops bs + (lz_lseq bs + 1) / 2) bs)
                else take (lz_lseq bs) (skipN (32 + lz_lname bs + 4 * lz_nops bs + (lz_lseq bs + 1) / 2) bs))
               = Ok (lz_qual_raw bs, lz_data_raw bs)).
  { destruct (lz_lseq bs =? 0) eqn:E0.
    - assert (Hz : lz_lseq bs = 0) by lia. unfold lz_qual_raw, lz_data_raw, sliceN. rewrite Hz.
      rewrite firstnN_0. do 2 f_equal. f_equal. lia.
    - rewrite take_ok by lia. reflexivity. }
  rewrite Hq. cbn [bindr]. change (dec_qual (lz_qual_raw bs)) with (lz_qual bs).
  reflexivity.
Qed.

(* ---------- CIGAR: the eager operation loop = the lazy chunk iterator, errors included ---------- *)
Lemma dec_ops_chunk_eq : forall fuel cnt bs, lenN bs = 4 * cnt -> (length bs <= fuel)%nat ->
  dec_ops fuel cnt bs = chunk_ops bs.
Proof.
  induction fuel as [|fuel IH]; intros cnt bs Hl Hf; cbn [dec_ops].
  - destruct bs; [|cbn [length] in Hf; lia]. cbn [lenN] in Hl. destruct (cnt =? 0) eqn:E; [reflexivity|lia].
  - destruct (cnt =? 0) eqn:E.
    + assert (bs = []) by (apply lenN_0_nil; lia). subst bs. reflexivity.
    + destruct bs as [|b0 [|b1 [|b2 [|b3 r]]]]; cbn [lenN] in Hl; try lia.
      unfold rd. cbn [rdW bindr chunk_ops].
      replace (b0 + 256 * (b1 + 256 * (b2 + 256 * (b3 + 256 * 0)))) with (b0 + 256 * (b1 + 256 * (b2 + 256 * b3))) by lia.
      destruct (dec_op (b0 + 256 * (b1 + 256 * (b2 + 256 * b3)))) as [op|e]; cbn [bindr]; [|reflexivity].
      rewrite (IH (cnt - 1) r) by (cbn [length] in Hf; lia). reflexivity.
Qed.

Lemma placeholder_chunk_ok : forall bs src, is_placeholder bs src = true -> exists c, chunk_ops src = Ok c.
Proof.
  intros bs src H. unfold is_placeholder in H.
  apply andb_true_iff in H. destruct H as [H H3]. apply andb_true_iff in H. destruct H as [H H2].
  apply andb_true_iff in H. destruct H as [H0 H1].
  destruct src as [|b0 [|b1 [|b2 [|b3 [|b4 [|b5 [|b6 [|b7 [|b8 r]]]]]]]]]; cbn [lenN] in H0; try lia.
  replace (skipN 4 [b0; b1; b2; b3; b4; b5; b6; b7]) with [b4; b5; b6; b7] in H3 by reflexivity.
  unfold word in H1, H3. cbn [rdW] in H1, H3. cbn [chunk_ops]. unfold dec_op.
  replace (b0 + 256 * (b1 + 256 * (b2 + 256 * (b3 + 256 * 0)))) with (b0 + 256 * (b1 + 256 * (b2 + 256 * b3))) in H1 by lia.
  replace (b4 + 256 * (b5 + 256 * (b6 + 256 * (b7 + 256 * 0)))) with (b4 + 256 * (b5 + 256 * (b6 + 256 * b7))) in H3 by lia.
  apply N.eqb_eq in H1. apply N.eqb_eq in H3. rewrite H1, H3. cbn [N.leb N.compare Pos.compare Pos.compare_cont bindr].
  eauto.
Qed.

(* ---------- data: the lazy value decoder accepts exactly what the eager one accepts ---------- *)
Lemma firstn_skip_N : forall l n, firstnN n l ++ skipN n l = l.
Proof.
  induction l as [|x l IH]; intros n; cbn [firstnN skipN]; destruct (n =? 0) eqn:E; try reflexivity.
  cbn [app]. rewrite IH. reflexivity.
Qed.

Lemma rdW_app_gen : forall w a v r x, rdW w a = Some (v, r) -> rdW w (a ++ x) = Some (v, r ++ x).
Proof.
  induction w as [|w IH]; intros a v r x H; cbn [rdW] in H |- *.
  - injection H as Hv Hr. subst v r. reflexivity.
  - destruct a as [|b a]; [discriminate H|]. cbn [app].
    destruct (rdW w a) as [[v' r']|] eqn:E; [|discriminate H]. injection H as Hv Hr. subst v r'.
    rewrite (IH _ _ _ x E). reflexivity.
Qed.

Lemma elems_app : forall fuel fuel' w sg cnt buf vs rest x, (fuel <= fuel')%nat ->
  dec_elems fuel w sg cnt buf = Ok (vs, rest) ->
  dec_elems fuel' w sg cnt (buf ++ x) = Ok (vs, rest ++ x).
Proof.
  induction fuel as [|fuel IH]; intros fuel' w sg cnt buf vs rest x Hf H; cbn [dec_elems] in H.
  - destruct (cnt =? 0) eqn:E; [|discriminate H]. injection H as Hv Hr. subst vs rest.
    destruct fuel'; cbn [dec_elems]; rewrite E; reflexivity.
  - destruct fuel' as [|fuel']; [lia|]. cbn [dec_elems]. destruct (cnt =? 0) eqn:E.
    + injection H as Hv Hr. subst vs rest. reflexivity.
    + unfold dec_num, rd in H |- *. destruct (rdW w buf) as [[n r]|] eqn:Er; cbn [bindr] in H; [|discriminate H].
      rewrite (rdW_app_gen _ _ _ _ x Er). cbn [bindr].
      destruct (dec_elems fuel w sg (cnt - 1) r) as [[vs' r']|] eqn:Ee; cbn [bindr] in H; [|discriminate H].
      injection H as Hv Hr. subst vs rest.
      rewrite (IH fuel' w sg (cnt - 1) r vs' r' x ltac:(lia) Ee). reflexivity.
Qed.

Lemma lz_value_ok_dec : forall ty bs v r, lz_value ty bs = Ok (v, r) -> dec_value ty bs = Ok (v, r).
Proof.
  intros ty bs v r H. unfold lz_value in H. destruct (ty =? tyB) eqn:Eb.
  - apply N.eqb_eq in Eb. subst ty. unfold dec_value.
    change (num_width tyB) with (@None (nat * bool)). cbv iota.
    change ((tyB =? tyZ) || (tyB =? tyH)) with false. cbv iota. rewrite N.eqb_refl.
    destruct bs as [|sub r0]; [discriminate H|]. rewrite rd1. cbn [bindr].
    destruct (sub_width sub) as [[w sg]|] eqn:Ew; [|discriminate H].
    unfold rd at 1. destruct (rdW 4 r0) as [[cnt r1]|] eqn:Er; [|discriminate H]. cbn [bindr].
    destruct (takeN (cnt * N.of_nat w) r1) as [[buf r2]|] eqn:Et; [|discriminate H].
    destruct (dec_elems (length buf) w sg cnt buf) as [[vs rest]|] eqn:Ee; cbn [bindr] in H; [|discriminate H].
    injection H as Hv Hr. subst v r2.
    destruct (takeN_spec _ _ _ _ Et) as (Hbuf & Hr2 & Hlen).
    destruct (elems_buf _ _ _ _ _ _ _ Ee) as (buf' & Ht' & Hl' & _).
    destruct (takeN_spec _ _ _ _ Ht') as (_ & Hrest & _).
    assert (Hnil : rest = []).
    { apply lenN_0_nil. rewrite Hrest, lenN_skipN. lia. }
    clear Hrest Ht'. subst rest.
    assert (Hr1 : r1 = buf ++ r) by (rewrite Hbuf, Hr2; symmetry; apply firstn_skip_N).
    rewrite Hr1 at 2.
    rewrite (elems_app (length buf) (length r1) w sg cnt buf vs [] r); [reflexivity| |exact Ee].
    rewrite Hr1, app_length. lia.
  - unfold dec_value. destruct (num_width ty) as [[w sg]|]; [exact H|].
    destruct ((ty =? tyZ) || (ty =? tyH)); [exact H|]. discriminate H.
Qed.

Lemma lz_dec_value_iff : forall ty bs p, lz_value ty bs = Ok p <-> dec_value ty bs = Ok p.
Proof. intros ty bs [v r]. split; [apply lz_value_ok_dec|apply lz_value_eq]. Qed.

(* a duplicate tag: some field's tag already occurred before it *)
Definition dup_tag (fs : list (tag * value)) : Prop := ~ fresh_seq [] fs.

(* the eager field loop fails exactly when the lazy iterator yields an error or a tag repeats *)
Lemma dec_data_err_cases : forall f bs acc e, dec_data f bs acc = Err e ->
  snd (lz_fields f bs) = true \/ ~ fresh_seq acc (fst (lz_fields f bs)).
Proof.
  induction f as [|f IH]; intros bs acc e H.
  - destruct bs; cbn [dec_data] in H; [discriminate H|]. left. reflexivity.
  - destruct bs as [|t0 [|t1 [|ty r]]]; [discriminate H|left; reflexivity|left; reflexivity|].
    cbn [dec_data] in H. rewrite rd1 in H. cbn [bindr] in H. rewrite rd1 in H. cbn [bindr] in H.
    rewrite rd1 in H. cbn [bindr] in H. cbn [lz_fields].
    destruct (lz_value ty r) as [[v r']|e0] eqn:Ev; [|left; reflexivity].
    rewrite (lz_value_ok_dec _ _ _ _ Ev) in H. cbn [bindr] in H.
    destruct (lz_fields f r') as [fs er] eqn:Ef. cbn [fst snd].
    destruct (existsb (fun p => tag_eqb (fst p) (t0, t1)) acc) eqn:Ex.
    + right. cbn [fresh_seq]. intros [Hc _]. congruence.
    + destruct (IH _ _ _ H) as [He|Hd]; rewrite Ef in *; cbn [fst snd] in *; [left; exact He|].
      right. cbn [fresh_seq]. intros [_ Hc]. exact (Hd Hc).
Qed.

Lemma dec_data_ok_cases : forall f bs acc dt, dec_data f bs acc = Ok dt ->
  snd (lz_fields f bs) = false /\ fresh_seq acc (fst (lz_fields f bs)) /\ dt = acc ++ fst (lz_fields f bs).
Proof.
  intros f bs acc dt H.
  destruct (lz_fields_eq _ _ _ _ f H (le_n _)) as (more & Hm & Hl).
  destruct (dec_data_fresh _ _ _ _ H) as (more' & Hm' & Hfr).
  assert (more' = more) by (rewrite Hm in Hm'; apply app_inv_head in Hm'; congruence). subst more'.
  rewrite Hl. cbn [fst snd]. auto.
Qed.

(* ---------- the exact relation ---------- *)
(* the four checks only the eager decoder makes *)
Definition eager_only_reject (bs : bytes) : Prop :=
  lz_lname bs = 0 \/
  (exists e, dec_name (lz_name_raw bs) = Err e) \/
  (exists fs, lzp_data_sw false bs = Some (fs, false) /\ dup_tag fs) \/
  (exists fs cig e, lzp_data_sw false bs = Some (fs, false) /\ chunk_ops (lz_cigar_raw bs) = Ok cig /\
                    resolve (lz_seq bs) cig fs = Err e).

Lemma lfe_intro : forall bs,
  (exists e, lz_rid bs = Err e) \/ (exists e, lz_pos bs = Err e) \/ (exists e, lzp_cigar bs = Some (Err e)) \/
  (exists e, lz_mrid bs = Err e) \/ (exists e, lz_mpos bs = Err e) \/
  (exists fs k, lzp_data_k bs = Some (fs, Some k)) ->
  lazy_first_error bs <> None.
Proof.
  intros bs H. unfold lazy_first_error.
  destruct (lz_rid bs) as [?|e1] eqn:E1; [|discriminate].
  destruct (lz_pos bs) as [?|e2] eqn:E2; [|discriminate].
  destruct (lzp_cigar bs) as [[?|e3]|] eqn:E3; try discriminate;
    (destruct (lz_mrid bs) as [?|e4] eqn:E4; [|discriminate];
     destruct (lz_mpos bs) as [?|e5] eqn:E5; [|discriminate];
     destruct (lzp_data_k bs) as [[fs [k|]]|] eqn:E6; [discriminate| |];
     exfalso;
     destruct H as [[e H]|[[e H]|[[e H]|[[e H]|[[e H]|[fs' [k' H]]]]]]]; congruence).
Qed.

Lemma data_err_flag : forall bs raw, lzp_data_raw bs = Some raw -> snd (lz_fields (length raw) raw) = true ->
  exists fs k, lzp_data_k bs = Some (fs, Some k).
Proof.
  intros bs raw Hr He. unfold lzp_data_k. rewrite Hr. cbn [option_map].
  rewrite lz_fields_collapse in He. cbn [snd] in He.
  destruct (lz_fields_k (length raw) raw) as [fs [k|]]; cbn [snd is_some] in He; [|discriminate He].
  destruct (cg_repaired && cg_branch bs); eauto.
Qed.

Lemma data_sw_false : forall bs raw, lzp_data_raw bs = Some raw ->
  lzp_data_sw false bs = Some (lz_fields (length raw) raw).
Proof.
  intros bs raw Hr. unfold lzp_data_sw. rewrite Hr. cbn [option_map andb].
  destruct (lz_fields (length raw) raw). reflexivity.
Qed.

Theorem lazy_error_iff : forall bs, validate bs = Ok tt ->
  (decode_body bs = Err InvalidData <-> (lazy_first_error bs <> None \/ eager_only_reject bs)).
Proof.
  intros bs Hv.
  destruct (lazy_slices_ok bs Hv) as (_ & _ & Hcr & _ & _ & Hdr & Hcl).
  assert (Hops : dec_ops (length (lz_cigar_raw bs)) (lz_nops bs) (lz_cigar_raw bs) = chunk_ops (lz_cigar_raw bs))
    by (apply dec_ops_chunk_eq; [exact Hcl|apply le_n]).
  pose proof (data_sw_false bs _ Hdr) as Hsw.
  split.
  - intros H. rewrite (decode_body_slices bs Hv) in H. unfold decode_by_slices in H. rewrite Hops in H.
    destruct (lz_rid bs) as [rid|e] eqn:E1; cbn [bindr] in H; [|left; apply lfe_intro; left; eauto].
    destruct (lz_pos bs) as [pos|e] eqn:E2; cbn [bindr] in H; [|left; apply lfe_intro; right; left; eauto].
    destruct (lz_lname bs =? 0) eqn:E0; [right; left; lia|].
    destruct (lz_mrid bs) as [mrid|e] eqn:E4; cbn [bindr] in H; [|left; apply lfe_intro; do 3 right; left; eauto].
    destruct (lz_mpos bs) as [mpos|e] eqn:E5; cbn [bindr] in H; [|left; apply lfe_intro; do 4 right; left; eauto].
    destruct (dec_name (lz_name_raw bs)) as [name|e] eqn:E6; cbn [bindr] in H; [|right; right; left; eauto].
    destruct (chunk_ops (lz_cigar_raw bs)) as [cig|e] eqn:E7; cbn [bindr] in H.
    2:{ left. apply lfe_intro. right. right. left. exists e. unfold lzp_cigar. rewrite Hcr.
        destruct (is_placeholder bs (lz_cigar_raw bs)) eqn:Ep.
        - destruct (placeholder_chunk_ok _ _ Ep) as [c Hc]. congruence.
        - rewrite (cigar_iter_words _ _ Hcl). rewrite E7. reflexivity. }
    destruct (dec_data (length (lz_data_raw bs)) (lz_data_raw bs) []) as [dt|e] eqn:E8; cbn [bindr] in H.
    + destruct (dec_data_ok_cases _ _ _ _ E8) as (Hs & _ & Hdt). cbn [app] in Hdt.
      destruct (resolve (lz_seq bs) cig dt) as [[cig' dt']|e] eqn:E9; cbn [bindr] in H; [discriminate H|].
      right. do 3 right. exists dt, cig, e. split; [|split; [exact E7|exact E9]].
      rewrite Hsw. destruct (lz_fields (length (lz_data_raw bs)) (lz_data_raw bs)) as [fs er].
      cbn [fst snd] in *. subst. reflexivity.
    + destruct (dec_data_err_cases _ _ _ _ E8) as [He|Hd].
      * left. apply lfe_intro. do 5 right. apply (data_err_flag bs _ Hdr He).
      * destruct (lz_fields (length (lz_data_raw bs)) (lz_data_raw bs)) as [fs er] eqn:Ef. cbn [fst snd] in *.
        destruct er.
        -- left. apply lfe_intro. do 5 right. apply (data_err_flag bs _ Hdr). rewrite Ef. reflexivity.
        -- right. right. right. left. exists fs. split; [exact Hsw|exact Hd].
  - intros [Hl|Ho].
    + destruct (lazy_first_error bs) as [k|] eqn:Ek; [|congruence].
      apply (lazy_error_implies_eager_error bs k Hv Ek).
    + destruct (decode_body bs) as [r|e] eqn:Hd; [exfalso|rewrite (decode_body_err _ _ Hd); reflexivity].
      rewrite (decode_body_slices bs Hv) in Hd. unfold decode_by_slices in Hd. rewrite Hops in Hd.
      destruct (lz_rid bs) as [rid|e]; cbn [bindr] in Hd; [|discriminate Hd].
      destruct (lz_pos bs) as [pos|e]; cbn [bindr] in Hd; [|discriminate Hd].
      destruct (lz_lname bs =? 0) eqn:E0; [discriminate Hd|].
      destruct (lz_mrid bs) as [mrid|e]; cbn [bindr] in Hd; [|discriminate Hd].
      destruct (lz_mpos bs) as [mpos|e]; cbn [bindr] in Hd; [|discriminate Hd].
      destruct (dec_name (lz_name_raw bs)) as [name|e] eqn:E6; cbn [bindr] in Hd; [|discriminate Hd].
      destruct (chunk_ops (lz_cigar_raw bs)) as [cig|e] eqn:E7; cbn [bindr] in Hd; [|discriminate Hd].
      destruct (dec_data (length (lz_data_raw bs)) (lz_data_raw bs) []) as [dt|e] eqn:E8; cbn [bindr] in Hd; [|discriminate Hd].
      destruct (resolve (lz_seq bs) cig dt) as [[cig' dt']|e] eqn:E9; cbn [bindr] in Hd; [|discriminate Hd].
      destruct (dec_data_ok_cases _ _ _ _ E8) as (Hs & Hfr & Hdt). cbn [app] in Hdt.
      destruct (lz_fields (length (lz_data_raw bs)) (lz_data_raw bs)) as [fs0 er]. cbn [fst snd] in *. subst er dt.
      destruct Ho as [H0|[[e H1]|[[fs [H2 H3]]|[fs [c [e [H4 [H5 H6]]]]]]]].
      * lia.
      * congruence.
      * rewrite Hsw in H2. injection H2 as H2. subst fs. exact (H3 Hfr).
      * rewrite Hsw in H4. injection H4 as H4. subst fs. congruence.
Qed.

(* ---------- RecordBuf::try_from_alignment_record fails exactly with the first lazy error ---------- *)
Lemma lazy_convert_error_iff : forall bs, validate bs = Ok tt ->
  (forall k, lazy_convert_k bs = Some (Err k) <-> lazy_first_error bs = Some k) /\
  ((exists r, lazy_convert_k bs = Some (Ok r)) <-> lazy_first_error bs = None) /\
  lazy_convert_k bs <> None.
Proof.
  intros bs Hv. destruct (lazy_slices_ok bs Hv) as (_ & Hn & _ & Hs & Hq & Hdr & _).
  destruct (lazy_cigar_no_panic bs Hv) as [c Hc].
  unfold lazy_convert_k, lazy_first_error. rewrite Hn, Hs, Hq, Hc.
  assert (Hdk : exists p, lzp_data_k bs = Some p).
  { unfold lzp_data_k. rewrite Hdr. cbn [option_map]. eauto. }
  destruct Hdk as [[fs e] Hdk]. rewrite Hdk.
  destruct (lz_rid bs) as [rid|e1]; [|split; [intros k; split; intros H; injection H as H; subst; reflexivity|split; [split; [intros [r H]; discriminate H|discriminate]|discriminate]]].
  destruct (lz_pos bs) as [pos|e2]; [|split; [intros k; split; intros H; injection H as H; subst; reflexivity|split; [split; [intros [r H]; discriminate H|discriminate]|discriminate]]].
  destruct c as [cig|e3]; [|split; [intros k; split; intros H; injection H as H; subst; reflexivity|split; [split; [intros [r H]; discriminate H|discriminate]|discriminate]]].
  destruct (lz_mrid bs) as [mrid|e4]; [|split; [intros k; split; intros H; injection H as H; subst; reflexivity|split; [split; [intros [r H]; discriminate H|discriminate]|discriminate]]].
  destruct (lz_mpos bs) as [mpos|e5]; [|split; [intros k; split; intros H; injection H as H; subst; reflexivity|split; [split; [intros [r H]; discriminate H|discriminate]|discriminate]]].
  destruct e as [k'|].
  - split; [intros k; split; intros H; injection H as H; subst; reflexivity|split; [split; [intros [r H]; discriminate H|discriminate]|discriminate]].
  - split; [intros k; split; intros H; discriminate H|split; [split; [reflexivity|eauto]|discriminate]].
Qed.
