(* C05 model of the io::ErrorKind of every failure of the lazy accessors of bam::RecordRef
   (deepening wave 9).  Bam/Lazy.v models WHICH accessor fails; here the failing site decides the
   kind, as in the Rust sources:
     record/data/field/tag.rs    decode_tag   fewer than 2 bytes left            UnexpectedEof
     record/data/field/ty.rs     decode_type  no byte left                       UnexpectedEof
                                              not one of AcCsSiIfZHB             InvalidData
     record/data/field/value.rs  read_u8 / read_u16_le / read_u32_le / read_f32_le
                                              fewer bytes than the width         UnexpectedEof
                                 read_string  no NUL terminator                  InvalidData
     value/array/subtype.rs      decode_subtype  no byte left                    UnexpectedEof
                                              not one of cCsSiIf                 InvalidData
     value/array.rs              decode_length (io::reader::num::read_u32_le = read_exact)
                                              fewer than 4 bytes                 UnexpectedEof
                                 decode_raw_array  split_off(..len) = None       UnexpectedEof
     record.rs  try_to_reference_sequence_id / try_to_position                   InvalidData
     record/cigar.rs  Cigar::iter  decode_op error                               InvalidData
   (the last two are already the [bad] = Err InvalidData of Lazy.v / Decode.v).
   Data::iter stops after its first error; Data::get returns that error when the tag was not seen
   before it; RecordBuf::try_from_alignment_record returns the first error of the accessors in
   the order it calls them, unchanged (`?`).  Definitions only. *)
From Coq Require Import List NArith ZArith Bool.
From NV Require Import Bam.Record Bam.Encode Bam.Decode Bam.Lazy.
Import ListNotations.
Open Scope N_scope.

Definition eof {A : Type} : res A := Err UnexpectedEof.

(* decode_value after decode_type returned [ty] (an invalid type code is decode_type's error) *)
Definition lz_value_k (ty : N) (bs : bytes) : res (value * bytes) :=
  if ty =? tyB then
    match bs with
    | [] => eof
    | sub :: r =>
      match sub_width sub with
      | None => bad
      | Some (w, sg) =>
        match rdW 4 r with
        | None => eof
        | Some (cnt, r1) =>
          match takeN (cnt * N.of_nat w) r1 with
          | None => eof
          | Some (buf, r2) =>
              let* (vs, _) := dec_elems (length buf) w sg cnt buf in Ok (VArr sub vs, r2)
          end
        end
      end
    end
  else match num_width ty with
       | Some (w, sg) =>
           match rdW w bs with
           | Some (n, r) => Ok (VNum ty (if sg then to_signed w n else Z.of_N n), r)
           | None => eof
           end
       | None =>
           if (ty =? tyZ) || (ty =? tyH) then
             match split_nul bs with Some (s, r) => Ok (VStr ty s, r) | None => bad end
           else bad
       end.

(* Data::iter: the fields yielded before the first error and the kind of that error *)
Fixpoint lz_fields_k (fuel : nat) (bs : bytes) : list (tag * value) * option err :=
  match bs with
  | [] => ([], None)
  | _ =>
    match fuel with
    | O => ([], Some InvalidData)
    | S f =>
      match bs with
      | t0 :: t1 :: ty :: r =>
          match lz_value_k ty r with
          | Ok (v, r') => let (fs, e) := lz_fields_k f r' in (((t0, t1), v) :: fs, e)
          | Err k => ([], Some k)
          end
      | _ => ([], Some UnexpectedEof)
      end
    end
  end.

Definition is_some {A : Type} (o : option A) : bool := match o with Some _ => true | None => false end.

(* RecordRef::data().iter() (the repaired tree: a CG field that cigar() resolved the CIGAR from is
   skipped, Lazy.cg_repaired) *)
Definition lzp_data_k (bs : bytes) : option (list (tag * value) * option err) :=
  option_map (fun raw => let (fs, e) := lz_fields_k (length raw) raw in
                         if cg_repaired && cg_branch bs then (filter not_cg fs, e) else (fs, e))
             (lzp_data_raw bs).

(* Data::get(tag) *)
Definition data_get_k (fs : list (tag * value) * option err) (t : tag) : option (res value) :=
  match find_tag t (fst fs) with
  | Some v => Some (Ok v)
  | None => match snd fs with Some k => Some (Err k) | None => None end
  end.

(* RecordBuf::try_from_alignment_record(header, &lazy record) with the kind of its error *)
Definition lazy_convert_k (bs : bytes) : option (res record) :=
  match lzp_name bs with
  | None => None
  | Some name =>
    match lz_rid bs with Err e => Some (Err e) | Ok rid =>
    match lz_pos bs with Err e => Some (Err e) | Ok pos =>
    match lzp_cigar bs with
    | None => None
    | Some (Err e) => Some (Err e)
    | Some (Ok cig) =>
      match lz_mrid bs with Err e => Some (Err e) | Ok mrid =>
      match lz_mpos bs with Err e => Some (Err e) | Ok mpos =>
      match lzp_seq bs with
      | None => None
      | Some sq =>
        match lzp_qual bs with
        | None => None
        | Some ql =>
          match lzp_data_k bs with
          | None => None
          | Some (fs, Some k) => Some (Err k)
          | Some (fs, None) =>
              Some (Ok (mkRecord name (lz_flags bs) rid pos (lz_mapq bs) cig mrid mpos (lz_tlen bs)
                                 sq ql (insert_all fs)))
          end
        end
      end end end
    end end end
  end.

(* the kind-blind views of Lazy.v *)
Definition collapse {A : Type} (r : res A) : res A := match r with Ok a => Ok a | Err _ => bad end.

(* "some lazy accessor of the record returns an error", with the kind of the first one in the
   order rid, pos, cigar, mate rid, mate pos, data *)
Definition lazy_first_error (bs : bytes) : option err :=
  match lz_rid bs with Err e => Some e | Ok _ =>
  match lz_pos bs with Err e => Some e | Ok _ =>
  match lzp_cigar bs with Some (Err e) => Some e | _ =>
  match lz_mrid bs with Err e => Some e | Ok _ =>
  match lz_mpos bs with Err e => Some e | Ok _ =>
  match lzp_data_k bs with Some (_, Some k) => Some k | _ => None end
  end end end end end.
