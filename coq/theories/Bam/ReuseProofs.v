(* C05: decoding into a reused RecordBuf does not depend on what the buffer held. *)
From Coq Require Import List NArith ZArith Bool Lia ZifyBool ZifyNat ZifyN.
From NV Require Import Bam.Record Bam.Encode Bam.Decode Bam.File Bam.Reuse.
Import ListNotations.
Open Scope N_scope.

Lemma vresize_length : forall d n, length (vresize d n) = n.
Proof.
  intros d n. unfold vresize. rewrite app_length, firstn_length, repeat_length. lia.
Qed.

Lemma vcopy_all : forall dst src, length dst = length src -> vcopy dst src = src.
Proof.
  unfold vcopy. induction dst as [|d dst IH]; intros [|s src] H; cbn [length] in H; try discriminate H.
  - reflexivity.
  - cbn [combine map snd]. rewrite IH by lia. reflexivity.
Qed.

Lemma vcopy_resize : forall d s, vcopy (vresize d (length s)) s = s.
Proof. intros d s. apply vcopy_all. apply vresize_length. Qed.

Lemma name_into_eq : forall prev buf, name_into prev buf = dec_name buf.
Proof.
  intros prev buf. unfold name_into, dec_name.
  destruct (list_eqb buf [42; 0]); [reflexivity|].
  destruct (split_last buf) as [[s t]|]; [|reflexivity]. rewrite vcopy_resize. reflexivity.
Qed.

Lemma cigar_into_eq : forall prev fuel cnt bs, cigar_into prev fuel cnt bs = dec_ops fuel cnt bs.
Proof.
  intros prev fuel cnt bs. unfold cigar_into, vclear.
  destruct (dec_ops fuel cnt bs); reflexivity.
Qed.

Lemma seq_into_eq : forall prev sbuf lseq, seq_into prev sbuf lseq = firstnN lseq (unpack_bases sbuf).
Proof. reflexivity. Qed.

Lemma qual_into_eq : forall prev b14 lseq,
  qual_into prev b14 lseq =
  (let* (qbuf, b15) := (if lseq =? 0 then Ok ([], b14) else take lseq b14) in Ok (dec_qual qbuf, b15)).
Proof.
  intros prev b14 lseq. unfold qual_into, vclear.
  destruct (lseq =? 0); [reflexivity|].
  destruct (take lseq b14) as [[qbuf b15]|]; cbn [bindr]; [|reflexivity].
  unfold dec_qual. destruct (forallb (fun b => b =? 255) qbuf); [reflexivity|].
  rewrite vcopy_resize. reflexivity.
Qed.

Lemma data_into_eq : forall prev fuel bs, data_into prev fuel bs = dec_data fuel bs [].
Proof. reflexivity. Qed.

Ltac step :=
  match goal with
  | |- bindr ?e _ = bindr ?e _ =>
      let x := fresh "x" in destruct e as [x|]; cbn [bindr]; [try (destruct x as [? ?])|reflexivity]
  | |- (if ?c then _ else _) = (if ?c then _ else _) => destruct c; [reflexivity|]
  end.

Theorem decode_into_eq : forall prev bs, decode_into prev bs = decode_body bs.
Proof.
  intros prev bs. unfold decode_into, decode_body.
  do 17 step.
  rewrite name_into_eq. step.
  step. rewrite cigar_into_eq. step.
  step. rewrite seq_into_eq, qual_into_eq.
  destruct (if _ =? 0 then Ok ([], _) else take _ _) as [[qbuf0 b15']|]; cbn [bindr]; reflexivity.
Qed.

Theorem decode_into_independent : forall p1 p2 bs, decode_into p1 bs = decode_into p2 bs.
Proof. intros p1 p2 bs. rewrite !decode_into_eq. reflexivity. Qed.

Lemma step_into_eq : forall prev bs, read_record_step_into prev bs = read_record_step bs.
Proof.
  intros prev bs. unfold read_record_step_into, read_record_step.
  destruct bs as [|x t]; [reflexivity|].
  destruct (rdW 4 (x :: t)) as [[n rest]|]; [|reflexivity].
  destruct (n =? 0); [reflexivity|].
  destruct (takeN n rest) as [[body rest']|]; [|reflexivity].
  rewrite decode_into_eq. reflexivity.
Qed.

Theorem read_records_reused_eq : forall fuel prev bs, read_records_reused fuel prev bs = read_records fuel bs.
Proof.
  induction fuel as [|f IH]; intros prev bs; [reflexivity|].
  cbn [read_records_reused read_records]. rewrite step_into_eq.
  destruct (read_record_step bs) as [[[r rest]|]|e]; try reflexivity.
  rewrite IH. reflexivity.
Qed.
