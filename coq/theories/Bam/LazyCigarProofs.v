(* C05 proofs, fourth part: cigar() of the lazy view on a kSmN placeholder record.  The lazy walk
   of the raw data block (record/data.rs::get_raw_cigar, model Lazy.raw_cigar) finds the same CG
   array as the eager decoder's data decode + Data::remove (Decode.dec_data, find_tag), so the
   lazily resolved CIGAR is the eager one. *)
From Coq Require Import List NArith ZArith Bool Lia ZifyBool ZifyNat ZifyN.
From NV Require Import Bam.Record Bam.Encode Bam.Decode Bam.Lazy Bam.CodecProofs Bam.AuxProofs Bam.LazyProofs.
Import ListNotations.
Open Scope N_scope.
Ltac Zify.zify_post_hook ::= Z.div_mod_to_equations.
Arguments N.add : simpl never.
Arguments N.sub : simpl never.
Arguments N.mul : simpl never.
Arguments N.div : simpl never.
Arguments N.modulo : simpl never.
Arguments N.pow : simpl never.

Lemma takeN_0 : forall l, takeN 0 l = Some ([], l).
Proof. intros l. destruct l; reflexivity. Qed.

Lemma takeN_add : forall l a b x l1 y l2,
  takeN a l = Some (x, l1) -> takeN b l1 = Some (y, l2) -> takeN (a + b) l = Some (x ++ y, l2).
Proof.
  induction l as [|h l IH]; intros a b x l1 y l2 Ha Hb.
  - cbn [takeN] in Ha. destruct (a =? 0) eqn:E; [|discriminate Ha]. injection Ha as Hx Hl1. subst x l1.
    assert (a = 0) by lia. subst a. replace (0 + b) with b by lia. cbn [app]. exact Hb.
  - cbn [takeN] in Ha. destruct (a =? 0) eqn:E.
    + injection Ha as Hx Hl1. subst x l1. assert (a = 0) by lia. subst a.
      replace (0 + b) with b by lia. exact Hb.
    + destruct (takeN (a - 1) l) as [[x' l1']|] eqn:Et; [|discriminate Ha].
      injection Ha as Hx Hl1. subst x l1.
      cbn [takeN]. destruct (a + b =? 0) eqn:E2; [lia|]. replace (a + b - 1) with (a - 1 + b) by lia.
      rewrite (IH _ _ _ _ _ _ Et Hb). reflexivity.
Qed.

Lemma rdW_take : forall w l v r, rdW w l = Some (v, r) ->
  exists pre, takeN (N.of_nat w) l = Some (pre, r) /\ lenN pre = N.of_nat w /\ rdW w pre = Some (v, []).
Proof.
  induction w as [|w IH]; intros l v r H; cbn [rdW] in H.
  - injection H as Hv Hr. subst v r. exists []. rewrite takeN_0. repeat split.
  - destruct l as [|x l]; [discriminate H|].
    destruct (rdW w l) as [[v' r']|] eqn:E; [|discriminate H]. injection H as Hv Hr. subst v r'.
    destruct (IH _ _ _ E) as (pre & Ht & Hl & Hp). exists (x :: pre).
    cbn [takeN]. destruct (N.of_nat (S w) =? 0) eqn:E0; [lia|].
    replace (N.of_nat (S w) - 1) with (N.of_nat w) by lia. rewrite Ht.
    split; [reflexivity|]. split; [cbn [lenN]; lia|]. cbn [rdW]. rewrite Hp. reflexivity.
Qed.

Lemma elems_take : forall fuel w sg cnt bs vs r,
  dec_elems fuel w sg cnt bs = Ok (vs, r) ->
  exists buf, takeN (cnt * N.of_nat w) bs = Some (buf, r) /\ lenN buf = cnt * N.of_nat w /\
    (w = 4%nat -> sg = false -> chunk_ops buf = dec_u32_ops vs).
Proof.
  induction fuel as [|fuel IH]; intros w sg cnt bs vs r H; cbn [dec_elems] in H.
  - destruct (cnt =? 0) eqn:E; [|discriminate H]. injection H as Hv Hr. subst vs r.
    exists []. replace (cnt * N.of_nat w) with 0 by lia. rewrite takeN_0. repeat split.
  - destruct (cnt =? 0) eqn:E.
    + injection H as Hv Hr. subst vs r.
      exists []. replace (cnt * N.of_nat w) with 0 by lia. rewrite takeN_0. repeat split.
    + unfold dec_num, rd in H. destruct (rdW w bs) as [[n r1]|] eqn:Er; cbn [bindr] in H; [|discriminate H].
      destruct (dec_elems fuel w sg (cnt - 1) r1) as [[vs' r']|] eqn:Ee; cbn [bindr] in H; [|discriminate H].
      injection H as Hv Hr. subst vs r'.
      destruct (IH _ _ _ _ _ _ Ee) as (buf' & Ht' & Hl' & Hc').
      destruct (rdW_take _ _ _ _ Er) as (pre & Htp & Hlp & Hrp).
      exists (pre ++ buf').
      assert (Hmul : cnt * N.of_nat w = N.of_nat w + (cnt - 1) * N.of_nat w).
      { replace cnt with (1 + (cnt - 1)) at 1 by lia. rewrite N.mul_add_distr_r. lia. }
      rewrite Hmul. rewrite (takeN_add _ _ _ _ _ _ _ Htp Ht').
      split; [reflexivity|]. split; [rewrite lenN_app; lia|].
      intros Hw Hs. subst w sg. specialize (Hc' eq_refl eq_refl).
      destruct pre as [|b0 [|b1 [|b2 [|b3 [|b4 pre]]]]]; cbn [lenN] in Hlp; try lia.
      cbn [rdW] in Hrp. injection Hrp as Hn. cbn [app chunk_ops dec_u32_ops]. rewrite N2Z.id.
      replace (b0 + 256 * (b1 + 256 * (b2 + 256 * b3))) with n by lia.
      rewrite Hc'. reflexivity.
Qed.

(* one field of the data block, both decoders *)
Lemma dec_data_step : forall f bs acc dt, bs <> [] -> dec_data (S f) bs acc = Ok dt ->
  exists t0 t1 ty r2 v r3, bs = t0 :: t1 :: ty :: r2 /\ dec_value ty r2 = Ok (v, r3) /\
    existsb (fun p => tag_eqb (fst p) (t0, t1)) acc = false /\
    dec_data f r3 (acc ++ [((t0, t1), v)]) = Ok dt.
Proof.
  intros f bs acc dt Hne H. destruct bs as [|t0 bs]; [congruence|]. cbn [dec_data] in H.
  rewrite rd1 in H. cbn [bindr] in H.
  destruct bs as [|t1 bs]; [unfold rd in H; cbn [rdW bindr] in H; discriminate H|].
  rewrite rd1 in H. cbn [bindr] in H.
  destruct bs as [|ty r2]; [unfold rd in H; cbn [rdW bindr] in H; discriminate H|].
  rewrite rd1 in H. cbn [bindr] in H.
  destruct (dec_value ty r2) as [[v r3]|] eqn:Ev; cbn [bindr] in H; [|discriminate H].
  destruct (existsb (fun p => tag_eqb (fst p) (t0, t1)) acc) eqn:Ex; [discriminate H|].
  exists t0, t1, ty, r2, v, r3. repeat split; assumption.
Qed.

Lemma skip_value : forall ty r2 v r3 f2 t0 t1,
  dec_value ty r2 = Ok (v, r3) -> (ty =? tyB) = false ->
  raw_cigar (S f2) (t0 :: t1 :: ty :: r2) = raw_cigar f2 r3 /\ (forall sub vs, v <> VArr sub vs).
Proof.
  intros ty r2 v r3 f2 t0 t1 H Hb. cbn [raw_cigar]. rewrite Hb. unfold dec_value in H.
  destruct (num_width ty) as [[w sg]|].
  - unfold dec_num, rd in H. destruct (rdW w r2) as [[n r]|]; cbn [bindr] in H; [|discriminate H].
    injection H as Hv Hr. subst v r. split; [reflexivity|]. intros sub vs X. discriminate X.
  - destruct ((ty =? tyZ) || (ty =? tyH)).
    + destruct (split_nul r2) as [[s r]|]; [|discriminate H]. injection H as Hv Hr. subst v r.
      split; [reflexivity|]. intros sub vs X. discriminate X.
    + rewrite Hb in H. discriminate H.
Qed.

Lemma array_value : forall r2 v r3, dec_value tyB r2 = Ok (v, r3) ->
  exists sub r w sg cnt r1 vs buf,
    r2 = sub :: r /\ sub_width sub = Some (w, sg) /\ rdW 4 r = Some (cnt, r1) /\
    takeN (cnt * N.of_nat w) r1 = Some (buf, r3) /\ v = VArr sub vs /\ lenN buf = cnt * N.of_nat w /\
    (w = 4%nat -> sg = false -> chunk_ops buf = dec_u32_ops vs).
Proof.
  intros r2 v r3 H. unfold dec_value in H. change (num_width tyB) with (@None (nat * bool)) in H. cbv iota in H.
  change ((tyB =? tyZ) || (tyB =? tyH)) with false in H. cbv iota in H. rewrite N.eqb_refl in H.
  destruct r2 as [|sub r]; [unfold rd in H; cbn [rdW bindr] in H; discriminate H|].
  rewrite rd1 in H. cbn [bindr] in H.
  destruct (sub_width sub) as [[w sg]|] eqn:Ew; [|discriminate H].
  unfold rd in H at 1. destruct (rdW 4 r) as [[cnt r1]|] eqn:Er; cbn [bindr] in H; [|discriminate H].
  destruct (dec_elems (length r1) w sg cnt r1) as [[vs r']|] eqn:Ee; cbn [bindr] in H; [|discriminate H].
  injection H as Hv Hr. subst v r'.
  destruct (elems_take _ _ _ _ _ _ _ Ee) as (buf & Ht & Hl & Hc).
  exists sub, r, w, sg, cnt, r1, vs, buf. repeat split; try assumption; reflexivity.
Qed.

Lemma skip_array : forall r2 v r3 f2 t0 t1,
  dec_value tyB r2 = Ok (v, r3) -> tag_eqb (t0, t1) CG = false ->
  raw_cigar (S f2) (t0 :: t1 :: tyB :: r2) = raw_cigar f2 r3.
Proof.
  intros r2 v r3 f2 t0 t1 H Ht.
  destruct (array_value _ _ _ H) as (sub & r & w & sg & cnt & r1 & vs & buf & Hr2 & Hw & Hr & Htk & _).
  subst r2. cbn [raw_cigar]. rewrite N.eqb_refl, Hw, Hr, Htk, Ht. reflexivity.
Qed.

Lemma hit_array : forall r2 v r3 f2,
  dec_value tyB r2 = Ok (v, r3) ->
  exists sub vs buf, v = VArr sub vs /\
    raw_cigar (S f2) (fst CG :: snd CG :: tyB :: r2) = (if sub =? tyI then Some buf else None) /\
    (sub = tyI -> chunk_ops buf = dec_u32_ops vs /\ lenN buf mod 4 = 0).
Proof.
  intros r2 v r3 f2 H.
  destruct (array_value _ _ _ H) as (sub & r & w & sg & cnt & r1 & vs & buf & Hr2 & Hw & Hr & Htk & Hv & Hl & Hc).
  subst r2. exists sub, vs, buf. split; [exact Hv|]. split.
  - cbn [raw_cigar]. rewrite N.eqb_refl, Hw, Hr, Htk. reflexivity.
  - intros Hs. subst sub. change (sub_width tyI) with (Some (4%nat, false)) in Hw.
    injection Hw as Hw1 Hw2. subst w sg. split; [apply Hc; reflexivity|]. rewrite Hl. lia.
Qed.

Lemma dec_data_prefix : forall f bs acc dt, dec_data f bs acc = Ok dt -> exists more, dt = acc ++ more.
Proof.
  induction f as [|f IH]; intros bs acc dt H.
  - destruct bs; cbn [dec_data] in H; [|discriminate H]. injection H as H. subst dt. exists []. rewrite app_nil_r. reflexivity.
  - destruct bs as [|b bs].
    + cbn [dec_data] in H. injection H as H. subst dt. exists []. rewrite app_nil_r. reflexivity.
    + destruct (dec_data_step f (b :: bs) acc dt ltac:(discriminate) H) as (t0 & t1 & ty & r2 & v & r3 & _ & _ & _ & Hd).
      destruct (IH _ _ _ Hd) as (more & Hm). exists (((t0, t1), v) :: more). rewrite Hm, <- app_assoc. reflexivity.
Qed.

Lemma find_tag_app : forall a b, find_tag CG (a ++ b) =
  match find_tag CG a with Some v => Some v | None => find_tag CG b end.
Proof.
  induction a as [|[t v] a IH]; intros b; cbn [app find_tag]; [reflexivity|].
  destruct (tag_eqb t CG); [reflexivity|apply IH].
Qed.

Lemma existsb_CG : forall acc t, find_tag CG acc <> None ->
  existsb (fun p : tag * value => tag_eqb (fst p) t) acc = false -> tag_eqb t CG = false.
Proof.
  induction acc as [|[t' v] acc IH]; intros t Hf He; cbn [find_tag existsb fst] in *; [congruence|].
  apply orb_false_iff in He. destruct He as [He1 He2].
  destruct (tag_eqb t' CG) eqn:E.
  - destruct (tag_eqb t CG) eqn:E2; [|reflexivity].
    destruct t as [a b], t' as [a' b']. unfold tag_eqb, CG in *. cbn [fst snd] in *. lia.
  - apply IH; assumption.
Qed.

(* once CG has been seen, the eager duplicate check guarantees the walk finds no second one *)
Lemma walk_noCG : forall f bs acc dt f2, dec_data f bs acc = Ok dt -> find_tag CG acc <> None ->
  raw_cigar f2 bs = None.
Proof.
  induction f as [|f IH]; intros bs acc dt f2 H Hacc.
  - destruct bs; cbn [dec_data] in H; [|discriminate H]. destruct f2; reflexivity.
  - destruct bs as [|b bs]; [destruct f2; reflexivity|].
    destruct (dec_data_step f (b :: bs) acc dt ltac:(discriminate) H) as (t0 & t1 & ty & r2 & v & r3 & Hbs & Hv & Hex & Hd).
    rewrite Hbs. destruct f2 as [|f2]; [reflexivity|].
    pose proof (existsb_CG _ _ Hacc Hex) as Ht.
    assert (Hacc' : find_tag CG (acc ++ [((t0, t1), v)]) <> None).
    { rewrite find_tag_app. destruct (find_tag CG acc); [discriminate|congruence]. }
    destruct (ty =? tyB) eqn:Eb.
    + apply N.eqb_eq in Eb. subst ty. rewrite (skip_array _ _ _ _ _ _ Hv Ht). apply (IH _ _ _ _ Hd Hacc').
    + destruct (skip_value _ _ _ _ f2 t0 t1 Hv Eb) as [Hs _]. rewrite Hs. apply (IH _ _ _ _ Hd Hacc').
Qed.

Lemma walk : forall f bs acc dt f2, dec_data f bs acc = Ok dt -> find_tag CG acc = None ->
  (f <= f2)%nat ->
  match find_tag CG dt with
  | Some (VArr sub vs) =>
      if sub =? tyI
      then exists buf, raw_cigar f2 bs = Some buf /\ chunk_ops buf = dec_u32_ops vs /\ lenN buf mod 4 = 0
      else raw_cigar f2 bs = None
  | _ => raw_cigar f2 bs = None
  end.
Proof.
  induction f as [|f IH]; intros bs acc dt f2 H Hacc Hf.
  - destruct bs; cbn [dec_data] in H; [|discriminate H]. injection H as H. subst dt. rewrite Hacc.
    destruct f2; reflexivity.
  - destruct bs as [|b bs].
    + cbn [dec_data] in H. injection H as H. subst dt. rewrite Hacc. destruct f2; reflexivity.
    + destruct (dec_data_step f (b :: bs) acc dt ltac:(discriminate) H) as (t0 & t1 & ty & r2 & v & r3 & Hbs & Hv & Hex & Hd).
      rewrite Hbs. destruct f2 as [|f2]; [lia|].
      destruct (tag_eqb (t0, t1) CG) eqn:Et.
      * (* the CG field *)
        apply tag_eqb_eq in Et. unfold CG in Et. injection Et as Et0 Et1. subst t0 t1.
        destruct (dec_data_prefix _ _ _ _ Hd) as (more & Hm).
        assert (Hfd : find_tag CG dt = Some v).
        { rewrite Hm, <- app_assoc, find_tag_app, Hacc. reflexivity. }
        rewrite Hfd.
        assert (Hacc' : find_tag CG (acc ++ [((67, 71), v)]) <> None).
        { rewrite find_tag_app, Hacc. cbn [find_tag]. change (tag_eqb (67, 71) CG) with true. discriminate. }
        destruct (ty =? tyB) eqn:Eb.
        -- apply N.eqb_eq in Eb. subst ty.
           destruct (hit_array _ _ _ f2 Hv) as (sub & vs & buf & Hvv & Hrc & Hc). subst v.
           destruct (sub =? tyI) eqn:Es; [|exact Hrc].
           apply N.eqb_eq in Es. destruct (Hc Es) as [Hc1 Hc2]. exists buf. repeat split; assumption.
        -- destruct (skip_value _ _ _ _ f2 67 71 Hv Eb) as [Hs Hna]. rewrite Hs.
           pose proof (walk_noCG _ _ _ _ f2 Hd Hacc') as Hn.
           destruct v as [ty' z|ty' s|sub vs]; [exact Hn|exact Hn|exfalso; exact (Hna sub vs eq_refl)].
      * assert (Hacc' : find_tag CG (acc ++ [((t0, t1), v)]) = None).
        { rewrite find_tag_app, Hacc. cbn [find_tag]. rewrite Et. reflexivity. }
        assert (Hrc : raw_cigar (S f2) (t0 :: t1 :: ty :: r2) = raw_cigar f2 r3).
        { destruct (ty =? tyB) eqn:Eb.
          - apply N.eqb_eq in Eb. subst ty. apply (skip_array _ _ _ _ _ _ Hv Et).
          - apply (skip_value _ _ _ _ f2 t0 t1 Hv Eb). }
        rewrite Hrc. apply (IH _ _ _ f2 Hd Hacc'). lia.
Qed.

(* cigar() of the lazy view = the eager CIGAR, placeholder or not *)
Lemma lazy_cigar_eq : forall body r,
  validate body = Ok tt -> decode_body body = Ok r -> lzp_cigar body = Some (Ok (r_cigar r)).
Proof.
  intros body r Hv Hd.
  destruct (is_placeholder body (lz_cigar_raw body)) eqn:Hp.
  2:{ destruct (lazy_eq_eager_fields body r Hv Hd) as (cig & _ & _ & _ & Hn). apply (Hn Hp). }
  destruct (lazy_slices_ok body Hv) as (_ & _ & Hc & _ & _ & Hdr & Hl).
  destruct (decode_body_fields body r Hd) as
    (_ & _ & _ & _ & _ & _ & _ & _ & _ & _ & cig & dt & G1 & G2 & G3 & G4 & G5 & G6).
  unfold lzp_cigar. rewrite Hc, Hp, Hdr.
  pose proof (walk _ _ [] dt (length (lz_data_raw body)) G3 eq_refl (le_n _)) as W.
  unfold is_placeholder in Hp.
  apply andb_true_iff in Hp. destruct Hp as [Hp H3]. apply andb_true_iff in Hp. destruct Hp as [Hp H2].
  apply andb_true_iff in Hp. destruct Hp as [H0 H1].
  assert (H8 : lenN (lz_cigar_raw body) = 8) by lia.
  pose proof (chunk_ops_two _ _ H8 G2) as Hcig. subst cig.
  unfold resolve in G4. rewrite H1, G5, H2, H3 in G4. cbn [andb] in G4.
  destruct (find_tag CG dt) as [[ty z|ty s|sub vs]|]; try discriminate G4.
  - destruct (sub =? tyI) eqn:Es; [|discriminate G4].
    destruct W as (buf & Hrc & Hco & Hm). rewrite Hrc. unfold cigar_iter. destruct (lenN buf mod 4 =? 0) eqn:E4; [|lia].
    rewrite Hco. destruct (dec_u32_ops vs) as [ops|]; cbn [bindr] in G4; [|discriminate G4].
    injection G4 as Hops _. subst ops. reflexivity.
  - rewrite W. rewrite (cigar_iter_words _ _ Hl). rewrite G2. injection G4 as Hcg _. rewrite <- Hcg. reflexivity.
Qed.
