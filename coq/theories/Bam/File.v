(* C05 file level: a BAM file is  BGZF( magic + header block + framed records ).  This file models the
   UNCOMPRESSED stream as bam::io::Writer / bam::io::Reader see it (they are generic over the inner
   Write / Read; the BGZF layer is NV.Bgzf of C01 and is composed in FileProofs.v):

     writer  io/writer.rs: write_header (C06's NV.Sam.BamHeader.write_bam_header) followed by one
             write_alignment_record (= NV.Bam.Encode.encode: block_size + body) per record; the
             first record the encoder rejects ends the run with its error;
     reader  io/reader.rs: read_header (NV.Sam.BamHeader.read_bam_header, which also hands back the
             rest of the stream) followed by the RecordBufs iterator = read_record_buf until it
             returns Ok(0) or an error.  io/reader/record.rs::read_record: read_exact_or_eof of the
             4-byte block_size (no byte at all = clean EOF, 1..3 bytes = UnexpectedEof), a
             block_size of 0 is ALSO reported as Ok(0) (end of the iteration), take(block_size)
             + read_to_end shorter than block_size = UnexpectedEof, then validate(), then
             record::codec::decode, whose every error read_record_buf maps to InvalidData.
   Definitions only. *)
From Coq Require Import List NArith ZArith Bool.
From NV Require Import Bam.Record Bam.Encode Bam.Decode.
From NV Require Sam.Header Sam.BamHeader.
Import ListNotations.
Open Scope N_scope.

(* ------------------------------------------------------------------ writer *)
Fixpoint write_records (nref : N) (rs : list record) : res bytes :=
  match rs with
  | [] => Ok []
  | r :: rest =>
      let* b := encode nref r in
      let* bs := write_records nref rest in
      Ok (b ++ bs)
  end.

(* write_header then the records; the encoder checks reference ids against the number of
   reference sequences of the header it is given *)
Definition write_file (h : Sam.Header.header) (rs : list record) : res bytes :=
  match Sam.BamHeader.write_bam_header h with
  | None => Err InvalidInput
  | Some hb =>
      let* rb := write_records (lenN (Sam.Header.h_sq h)) rs in
      Ok (hb ++ rb)
  end.

(* ------------------------------------------------------------------ reader *)
(* one read_record_buf call on a stream holding [bs]: Ok None = Ok(0) *)
Definition read_record_step (bs : bytes) : res (option (record * bytes)) :=
  match bs with
  | [] => Ok None
  | _ =>
    match rdW 4 bs with
    | None => Err UnexpectedEof
    | Some (n, rest) =>
        if n =? 0 then Ok None
        else match takeN n rest with
             | None => Err UnexpectedEof
             | Some (body, rest') =>
                 let* _ := validate body in
                 match decode_body body with
                 | Ok r => Ok (Some (r, rest'))
                 | Err _ => Err InvalidData
                 end
             end
    end
  end.

(* how the iteration ended *)
Inductive rd_end := EndEof | EndErr (e : err) | EndNoFuel.

(* RecordBufs iterator collected: the records before the end, and the end.  Every successful step
   consumes at least 4 bytes, so fuel S (length bs) is never exhausted (FileProofs.read_records_fuel) *)
Fixpoint read_records (fuel : nat) (bs : bytes) : list record * rd_end :=
  match fuel with
  | O => ([], EndNoFuel)
  | S f =>
      match read_record_step bs with
      | Err e => ([], EndErr e)
      | Ok None => ([], EndEof)
      | Ok (Some (r, rest)) => let (l, e) := read_records f rest in (r :: l, e)
      end
  end.

(* read_header, then every record *)
Definition read_file (bs : bytes) : res (Sam.Header.header * (list record * rd_end)) :=
  match Sam.BamHeader.read_bam_header bs with
  | Err e => Err e
  | Ok (h, rest) => Ok (h, read_records (S (length rest)) rest)
  end.

(* ---- the record bodies of a stream, without decoding them: what bam::io::Reader::read_record
   (the lazy bam::Record reader) stores per call; used to tie the framing to C12's closed form *)
Fixpoint frame_bodies (fuel : nat) (bs : bytes) : list bytes * rd_end :=
  match fuel with
  | O => ([], EndNoFuel)
  | S f =>
    match bs with
    | [] => ([], EndEof)
    | _ =>
      match rdW 4 bs with
      | None => ([], EndErr UnexpectedEof)
      | Some (n, rest) =>
          if n =? 0 then ([], EndEof)
          else match takeN n rest with
               | None => ([], EndErr UnexpectedEof)
               | Some (body, rest') =>
                   match validate body with
                   | Err e => ([], EndErr e)
                   | Ok _ => let (l, e) := frame_bodies f rest' in (body :: l, e)
                   end
               end
      end
    end
  end.

(* the L2 entry point: header given as SAM header text (parsed by C06's model of the SAM header
   parser), the file written, and read back *)
Definition file_of_text (text : bytes) (rs : list record) : option (res bytes) :=
  match Sam.Header.read_header text with
  | None => None
  | Some h => Some (write_file h rs)
  end.

(* read_header, then bam::io::Reader::read_record until Ok(0) or an error: the block sizes it returns *)
Definition read_file_lazy (bs : bytes) : res (list N * rd_end) :=
  match Sam.BamHeader.read_bam_header bs with
  | Err e => Err e
  | Ok (_, rest) => let (bodies, e) := frame_bodies (S (length rest)) rest in Ok (map (@lenN N) bodies, e)
  end.
