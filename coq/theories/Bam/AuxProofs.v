(* C05 proofs, second part: the auxiliary-data codec (all eleven value types), the data block
   (user CG field dropped, duplicate check of the decoder), the CG:B,I overflow convention for
   CIGARs of more than 65535 operations, and the whole-record round trip without restriction on
   data or CIGAR length.  Model: Bam/Encode.v, Bam/Decode.v (unchanged). *)
From Coq Require Import List NArith ZArith Bool Lia ZifyBool ZifyNat ZifyN.
From NV Require Import Index.Bins Bam.Record Bam.Encode Bam.Decode Bam.CodecProofs.
Import ListNotations.
Open Scope N_scope.
Ltac Zify.zify_post_hook ::= Z.div_mod_to_equations.
Arguments N.add : simpl never.
Arguments N.sub : simpl never.
Arguments N.mul : simpl never.
Arguments N.div : simpl never.
Arguments N.modulo : simpl never.
Arguments N.pow : simpl never.

(* ---------- the Rust type invariants of record_buf::data::field::Value ---------- *)
(* a number lies in the range of its Rust type: iN for the signed codes, uN for the unsigned
   ones (A: u8, f: the 32-bit IEEE pattern) *)
Definition in_range (w : nat) (sg : bool) (z : Z) : Prop :=
  if sg then (- Z.of_N (pow256 w / 2) <= z < Z.of_N (pow256 w / 2))%Z
  else (0 <= z < Z.of_N (pow256 w))%Z.

Definition wf_value (v : value) : Prop :=
  match v with
  | VNum ty z => match num_width ty with Some (w, sg) => in_range w sg z | None => False end
  | VStr ty s => ty = tyZ \/ ty = tyH
  | VArr sub vs => match sub_width sub with Some (w, sg) => Forall (in_range w sg) vs | None => False end
  end.

Definition wf_data (d : list (tag * value)) : Prop := Forall (fun p => wf_value (snd p)) d.

Definition notCG (p : tag * value) : bool := negb (tag_eqb (fst p) CG).

(* ---------- numbers ---------- *)
Lemma num_width_pos : forall ty w sg, num_width ty = Some (w, sg) -> exists w', w = S w'.
Proof.
  intros ty w sg H. unfold num_width in H.
  repeat match type of H with
         | (if ?c then _ else _) = _ => destruct c
         end; try discriminate H; injection H as H _; subst w; eauto.
Qed.

Lemma sub_width_num : forall ty p, sub_width ty = Some p -> num_width ty = Some p /\ (ty =? tyA) = false.
Proof.
  intros ty p H. unfold sub_width in H. destruct (ty =? tyA); [discriminate H|]. split; [exact H|reflexivity].
Qed.

Lemma num_roundtrip : forall w sg z r, in_range (S w) sg z ->
  dec_num (S w) sg (enc_num (S w) z ++ r) = Ok (z, r).
Proof.
  intros w sg z r Hr. unfold dec_num, enc_num.
  rewrite rd_leW by apply to_unsigned_lt. cbn [bindr]. unfold in_range in Hr.
  destruct sg.
  - rewrite to_signed_unsigned by exact Hr. reflexivity.
  - rewrite to_unsigned_nonneg by exact Hr. rewrite Z2N.id by lia. reflexivity.
Qed.

Lemma enc_num_length : forall w z, length (enc_num w z) = w.
Proof.
  intros w z. unfold enc_num. generalize (to_unsigned w z). induction w as [|w IH]; intros n; cbn [leW length]; [reflexivity|].
  rewrite IH. reflexivity.
Qed.

Lemma enc_elems_length : forall w vs, length (enc_elems w vs) = (w * length vs)%nat.
Proof.
  intros w vs. induction vs as [|v vs IH]; cbn [enc_elems length]; [lia|].
  rewrite app_length, enc_num_length, IH. lia.
Qed.

Lemma elems_roundtrip : forall vs w sg r fuel,
  Forall (in_range (S w) sg) vs -> (length vs <= fuel)%nat ->
  dec_elems fuel (S w) sg (lenN vs) (enc_elems (S w) vs ++ r) = Ok (vs, r).
Proof.
  induction vs as [|v vs IH]; intros w sg r fuel Hr Hf.
  - destruct fuel; reflexivity.
  - inversion Hr as [|? ? Hv Hvs]; subst.
    destruct fuel as [|fuel]; [cbn [length] in Hf; lia|].
    cbn [lenN dec_elems enc_elems]. destruct (1 + lenN vs =? 0) eqn:E; [lia|].
    rewrite <- app_assoc. rewrite num_roundtrip by exact Hv. cbn [bindr].
    replace (1 + lenN vs - 1) with (lenN vs) by lia.
    rewrite IH by (try exact Hvs; cbn [length] in Hf; lia). reflexivity.
Qed.

(* ---------- strings ---------- *)
Lemma split_nul_app : forall s r, forallb (fun b => negb (b =? 0)) s = true ->
  split_nul (s ++ 0 :: r) = Some (s, r).
Proof.
  induction s as [|b s IH]; intros r H; cbn [app split_nul].
  - reflexivity.
  - cbn [forallb] in H. apply andb_true_iff in H. destruct H as [Hb Hs].
    destruct (b =? 0); [discriminate Hb|]. rewrite IH by exact Hs. reflexivity.
Qed.

Lemma forallb_impl : forall (f g : N -> bool) s, (forall b, f b = true -> g b = true) ->
  forallb f s = true -> forallb g s = true.
Proof.
  intros f g s Hfg. induction s as [|b s IH]; cbn [forallb]; [auto|].
  intros H. apply andb_true_iff in H. destruct H as [Hb Hs]. rewrite (Hfg b Hb), (IH Hs). reflexivity.
Qed.

Lemma print_nonzero : forall b, is_print b = true -> negb (b =? 0) = true.
Proof. intros b H. unfold is_print in H. lia. Qed.

Lemma hexdigit_nonzero : forall b, is_hexdigit b = true -> negb (b =? 0) = true.
Proof. intros b H. unfold is_hexdigit in H. lia. Qed.

(* ---------- one value: c05_aux_roundtrip ---------- *)
Lemma nw_Z : num_width tyZ = None. Proof. reflexivity. Qed.
Lemma nw_H : num_width tyH = None. Proof. reflexivity. Qed.
Lemma nw_B : num_width tyB = None. Proof. reflexivity. Qed.

Lemma value_roundtrip : forall v bs r, wf_value v -> enc_value v = Ok bs ->
  exists ty p, bs = ty :: p /\ dec_value ty (p ++ r) = Ok (v, r).
Proof.
  intros v bs r Hwf H. destruct v as [ty z|ty s|sub vs]; cbn [wf_value enc_value] in *.
  - destruct (num_width ty) as [[w sg]|] eqn:Ew; [|contradiction].
    destruct (num_width_pos _ _ _ Ew) as [w' Hw']. subst w.
    injection H as H. subst bs. exists ty, (enc_num (S w') z). split; [reflexivity|].
    unfold dec_value. rewrite Ew. rewrite num_roundtrip by exact Hwf. reflexivity.
  - destruct Hwf as [Hty|Hty]; subst ty.
    + rewrite N.eqb_refl in H. destruct (forallb is_print s) eqn:Ep; [|discriminate H].
      injection H as H. subst bs. exists tyZ, (s ++ [0]). split; [reflexivity|].
      unfold dec_value. rewrite nw_Z. rewrite N.eqb_refl. cbn [orb].
      rewrite <- app_assoc. cbn [app].
      rewrite split_nul_app by (apply (forallb_impl is_print); [exact print_nonzero|exact Ep]).
      reflexivity.
    + change (tyH =? tyZ) with false in H. cbv iota in H. rewrite N.eqb_refl in H.
      destruct ((lenN s mod 2 =? 0) && forallb is_hexdigit s) eqn:Ep; [|discriminate H].
      apply andb_true_iff in Ep. destruct Ep as [_ Ep].
      injection H as H. subst bs. exists tyH, (s ++ [0]). split; [reflexivity|].
      unfold dec_value. rewrite nw_H. rewrite N.eqb_refl. rewrite orb_true_r.
      rewrite <- app_assoc. cbn [app].
      rewrite split_nul_app by (apply (forallb_impl is_hexdigit); [exact hexdigit_nonzero|exact Ep]).
      reflexivity.
  - destruct (sub_width sub) as [[w sg]|] eqn:Ew; [|contradiction].
    destruct (sub_width_num _ _ Ew) as [Enw _].
    destruct (num_width_pos _ _ _ Enw) as [w' Hw']. subst w.
    destruct (lenN vs <? 4294967296) eqn:El; [|discriminate H].
    injection H as H. subst bs.
    exists tyB, (sub :: leW 4 (lenN vs) ++ enc_elems (S w') vs). split; [reflexivity|].
    unfold dec_value. rewrite nw_B. change ((tyB =? tyZ) || (tyB =? tyH)) with false. cbv iota.
    rewrite N.eqb_refl. cbn [app]. rewrite rd1. cbn [bindr]. rewrite Ew.
    rewrite <- app_assoc. rewrite rd_leW by (rewrite pow256_4; lia). cbn [bindr].
    rewrite elems_roundtrip; [reflexivity|exact Hwf|].
    rewrite app_length, enc_elems_length. lia.
Qed.

(* ---------- the data block ---------- *)
Lemma tag_eqb_eq : forall a b, tag_eqb a b = true <-> a = b.
Proof.
  intros [a0 a1] [b0 b1]. unfold tag_eqb. cbn [fst snd]. split.
  - intros H. apply andb_true_iff in H. destruct H as [H0 H1].
    apply N.eqb_eq in H0. apply N.eqb_eq in H1. subst. reflexivity.
  - intros H. injection H as H0 H1. subst. rewrite !N.eqb_refl. reflexivity.
Qed.

Lemma existsb_tag_false : forall t (acc : list (tag * value)),
  ~ In t (map fst acc) -> existsb (fun p => tag_eqb (fst p) t) acc = false.
Proof.
  intros t acc. induction acc as [|[t' v] acc IH]; intros H; cbn [existsb map fst] in *; [reflexivity|].
  destruct (tag_eqb t' t) eqn:E.
  - apply tag_eqb_eq in E. subst t'. exfalso. apply H. left. reflexivity.
  - cbn [orb]. apply IH. intros Hin. apply H. right. exact Hin.
Qed.

Lemma enc_value_nonempty : forall v bs, enc_value v = Ok bs -> exists ty p, bs = ty :: p.
Proof.
  intros v bs H. destruct v as [ty z|ty s|sub vs]; cbn [enc_value] in H.
  - destruct (num_width ty) as [[w sg]|]; [|discriminate H]. injection H as H. subst. eauto.
  - destruct (ty =? tyZ).
    + destruct (forallb is_print s); [|discriminate H]. injection H as H. subst. eauto.
    + destruct (ty =? tyH); [|discriminate H].
      destruct ((lenN s mod 2 =? 0) && forallb is_hexdigit s); [|discriminate H]. injection H as H. subst. eauto.
  - destruct (sub_width sub) as [[w sg]|]; [|discriminate H].
    destruct (lenN vs <? 4294967296); [|discriminate H]. injection H as H. subst. eauto.
Qed.

(* decoding the encoder's data bytes followed by any [rest]: the fields come back in order,
   without the user's CG field; the decoder then continues on [rest] *)
Lemma dec_data_enc : forall d bs rest acc fuel,
  wf_data d -> enc_data d = Ok bs ->
  NoDup (map fst (acc ++ filter notCG d)) ->
  (length (bs ++ rest) <= fuel)%nat ->
  exists fuel', (length rest <= fuel')%nat /\
    dec_data fuel (bs ++ rest) acc = dec_data fuel' rest (acc ++ filter notCG d).
Proof.
  induction d as [|[t v] d IH]; intros bs rest acc fuel Hwf Henc Hnd Hf.
  - injection Henc as Henc. subst bs. cbn [app filter] in *. rewrite app_nil_r. exists fuel. split; [exact Hf|reflexivity].
  - inversion Hwf as [|? ? Hv Hd]; subst. cbn [snd] in Hv.
    cbn [enc_data] in Henc. cbn [filter]. unfold notCG at 1 3. cbn [fst].
    unfold notCG at 1 in Hnd. cbn [filter fst] in Hnd.
    destruct (tag_eqb t CG) eqn:Et; cbn [negb] in *.
    + apply (IH bs rest acc fuel Hd Henc Hnd Hf).
    + destruct (enc_value v) as [a|] eqn:Ea; cbn [bindr] in Henc; [|discriminate Henc].
      destruct (enc_data d) as [b|] eqn:Eb; cbn [bindr] in Henc; [|discriminate Henc].
      injection Henc as Henc. subst bs.
      destruct (value_roundtrip v a (b ++ rest) Hv Ea) as (ty & p & Ha & Hdec). subst a.
      destruct t as [t0 t1]. cbn [fst snd app] in *.
      destruct fuel as [|fuel]; [cbn [length] in Hf; lia|].
      cbn [dec_data]. rewrite rd1. cbn [bindr]. rewrite rd1. cbn [bindr]. rewrite rd1. cbn [bindr].
      rewrite <- app_assoc. rewrite Hdec. cbn [bindr].
      rewrite existsb_tag_false.
      2:{ rewrite map_app in Hnd. cbn [map fst] in Hnd. apply NoDup_remove_2 in Hnd.
          intros Hin. apply Hnd. apply in_or_app. left. exact Hin. }
      destruct (IH b rest (acc ++ [((t0, t1), v)]) fuel Hd eq_refl) as (fuel' & Hf' & Heq).
      * rewrite <- app_assoc. cbn [app]. exact Hnd.
      * cbn [length] in Hf. rewrite !app_length in Hf. rewrite app_length. lia.
      * exists fuel'. split; [exact Hf'|]. rewrite Heq. rewrite <- app_assoc. reflexivity.
Qed.

Lemma dec_data_roundtrip : forall d bs,
  wf_data d -> enc_data d = Ok bs -> NoDup (map fst (filter notCG d)) ->
  dec_data (length bs) bs [] = Ok (filter notCG d).
Proof.
  intros d bs Hwf Henc Hnd.
  destruct (dec_data_enc d bs [] [] (length bs) Hwf Henc Hnd) as (fuel' & _ & Heq).
  - rewrite app_nil_r. lia.
  - rewrite app_nil_r in Heq. rewrite Heq. destruct fuel'; reflexivity.
Qed.

Lemma find_tag_notCG : forall d, find_tag CG (filter notCG d) = None.
Proof.
  induction d as [|[t v] d IH]; cbn [filter find_tag]; [reflexivity|].
  unfold notCG at 1. cbn [fst]. destruct (tag_eqb t CG) eqn:E; cbn [negb]; [exact IH|].
  cbn [find_tag]. rewrite E. exact IH.
Qed.

Lemma resolve_noCG : forall s c d, find_tag CG d = None -> resolve s c d = Ok (c, d).
Proof.
  intros s c d H. unfold resolve. destruct c as [|[k0 l0] [|[k1 l1] [|op c]]]; try reflexivity.
  destruct ((k0 =? 4) && (l0 =? lenN s) && (k1 =? 3)); [|reflexivity]. rewrite H. reflexivity.
Qed.

Lemma NoDup_map_filter : forall (d : list (tag * value)) f,
  NoDup (map fst d) -> NoDup (map fst (filter f d)).
Proof.
  intros d f. induction d as [|[t v] d IH]; intros H; cbn [filter map fst] in *; [constructor|].
  inversion H as [|? ? Hn Hd]; subst. destruct (f (t, v)).
  - cbn [map fst]. constructor; [|exact (IH Hd)]. intros Hin. apply Hn.
    apply in_map_iff in Hin. destruct Hin as (x & Hx & Hin). apply filter_In in Hin.
    apply in_map_iff. exists x. split; [exact Hx|apply Hin].
  - exact (IH Hd).
Qed.

(* ---------- the CG:B,I convention ---------- *)
Definition op_word (op : N * N) : Z := Z.of_N (snd op * 16 + fst op).

Lemma cg_elems_roundtrip : forall c ops r fuel,
  Forall op_ok c -> enc_cigar c = Ok ops -> (length c <= fuel)%nat ->
  dec_elems fuel 4 false (lenN c) (ops ++ r) = Ok (map op_word c, r).
Proof.
  induction c as [|[k l] c IH]; intros ops r fuel Hok Henc Hf.
  - injection Henc as Henc. subst ops. destruct fuel; reflexivity.
  - apply enc_cigar_ok_inv in Henc. destruct Henc as (a & b & Ha & Hb & Hops).
    apply enc_op_ok_inv in Ha. destruct Ha as [Hl Ha]. subst a ops.
    inversion Hok as [|? ? Hk Hok']; subst. unfold op_ok in Hk. cbn [fst] in Hk.
    destruct fuel as [|fuel]; [cbn [length] in Hf; lia|].
    cbn [lenN dec_elems]. destruct (1 + lenN c =? 0) eqn:E; [lia|].
    destruct (dec_op_enc k l Hk Hl) as [Hlt _].
    unfold dec_num. rewrite <- app_assoc. rewrite rd_leW by exact Hlt. cbn [bindr].
    replace (1 + lenN c - 1) with (lenN c) by lia.
    rewrite (IH b r fuel Hok' Hb) by (cbn [length] in Hf; lia). reflexivity.
Qed.

Lemma cg_words_roundtrip : forall c, Forall op_ok c -> (forall op, In op c -> snd op <= max_op_len) ->
  dec_u32_ops (map op_word c) = Ok c.
Proof.
  induction c as [|[k l] c IH]; intros Hok Hl; [reflexivity|].
  inversion Hok as [|? ? Hk Hok']; subst. unfold op_ok in Hk. cbn [fst] in Hk.
  cbn [map dec_u32_ops]. unfold op_word at 1. cbn [fst snd]. rewrite N2Z.id.
  assert (Hl0 : l <= max_op_len) by (apply (Hl (k, l)); left; reflexivity).
  destruct (dec_op_enc k l Hk Hl0) as [_ Hd]. rewrite Hd. cbn [bindr].
  rewrite IH; [reflexivity|exact Hok'|]. intros op Hin. apply Hl. right. exact Hin.
Qed.

Lemma enc_cigar_lens : forall c ops, enc_cigar c = Ok ops -> forall op, In op c -> snd op <= max_op_len.
Proof.
  induction c as [|[k l] c IH]; intros ops H op Hin; [destruct Hin|].
  apply enc_cigar_ok_inv in H. destruct H as (a & b & Ha & Hb & _).
  apply enc_op_ok_inv in Ha. destruct Ha as [Hl _].
  destruct Hin as [Hin|Hin]; [subst op; exact Hl|exact (IH b Hb op Hin)].
Qed.

(* the CG field written by the encoder, decoded as a data field *)
Lemma cg_field_roundtrip : forall c cgb,
  Forall op_ok c -> enc_cg c = Ok cgb ->
  exists p, cgb = fst CG :: snd CG :: tyB :: p /\
    dec_value tyB p = Ok (VArr tyI (map op_word c), []).
Proof.
  intros c cgb Hok H. unfold enc_cg in H. destruct (lenN c <? 4294967296) eqn:El; [|discriminate H].
  destruct (enc_cigar c) as [ops|] eqn:Eo; cbn [bindr] in H; [|discriminate H].
  injection H as H. subst cgb. exists (tyI :: leW 4 (lenN c) ++ ops). split; [reflexivity|].
  unfold dec_value. rewrite nw_B. change ((tyB =? tyZ) || (tyB =? tyH)) with false. cbv iota.
  rewrite N.eqb_refl. rewrite rd1. cbn [bindr]. change (sub_width tyI) with (Some (4%nat, false)). cbv iota.
  rewrite rd_leW by (rewrite pow256_4; lia). cbn [bindr].
  rewrite <- (app_nil_r ops) at 2.
  rewrite (cg_elems_roundtrip c ops [] (length ops) Hok Eo).
  - reflexivity.
  - pose proof (enc_cigar_length _ _ Eo) as Hl. rewrite !lenN_length in Hl. lia.
Qed.

Lemma find_tag_app_CG : forall d v, find_tag CG d = None -> find_tag CG (d ++ [(CG, v)]) = Some v.
Proof.
  induction d as [|[t v'] d IH]; intros v H; cbn [app find_tag] in *.
  - reflexivity.
  - destruct (tag_eqb t CG); [discriminate H|]. apply IH. exact H.
Qed.

Lemma swap_remove_app_CG : forall d v, find_tag CG d = None -> swap_remove CG (d ++ [(CG, v)]) = d.
Proof.
  induction d as [|[t v'] d IH]; intros v H; cbn [app swap_remove find_tag] in *.
  - reflexivity.
  - destruct (tag_eqb t CG); [discriminate H|]. f_equal. apply IH. exact H.
Qed.

Lemma In_find_tag_none : forall d, find_tag CG d = None -> ~ In CG (map fst d).
Proof.
  induction d as [|[t v] d IH]; intros H Hin; cbn [find_tag map fst] in *; [exact Hin|].
  destruct (tag_eqb t CG) eqn:E; [discriminate H|]. destruct Hin as [Hin|Hin].
  - subst t. assert (Ht : tag_eqb CG CG = true) by reflexivity. congruence.
  - exact (IH H Hin).
Qed.

(* the data block of an overflowing record: user data (without CG) then the CG:B,I field *)
Lemma dec_data_cg : forall d dtb c cgb,
  wf_data d -> enc_data d = Ok dtb -> NoDup (map fst (filter notCG d)) ->
  Forall op_ok c -> enc_cg c = Ok cgb ->
  dec_data (length (dtb ++ cgb)) (dtb ++ cgb) [] = Ok (filter notCG d ++ [(CG, VArr tyI (map op_word c))]).
Proof.
  intros d dtb c cgb Hwf Henc Hnd Hok Hcg.
  destruct (cg_field_roundtrip c cgb Hok Hcg) as (p & Hcgb & Hdv).
  destruct (dec_data_enc d dtb cgb [] (length (dtb ++ cgb)) Hwf Henc Hnd (le_n _)) as (fuel' & Hf' & Heq).
  rewrite Heq. cbn [app]. subst cgb. destruct fuel' as [|f]; [cbn [length] in Hf'; lia|].
  cbn [dec_data]. rewrite rd1. cbn [bindr]. rewrite rd1. cbn [bindr]. rewrite rd1. cbn [bindr]. rewrite Hdv. cbn [bindr].
  rewrite existsb_tag_false by (apply In_find_tag_none, find_tag_notCG).
  destruct f; reflexivity.
Qed.

(* c05 cg_overflow_roundtrip: the placeholder kSmN and the CG field resolve to the CIGAR *)
Lemma resolve_cg : forall sq c d ops,
  Forall op_ok c -> enc_cigar c = Ok ops -> find_tag CG d = None ->
  resolve sq [(4, lenN sq); (3, ref_span c)] (d ++ [(CG, VArr tyI (map op_word c))]) = Ok (c, d).
Proof.
  intros sq c d ops Hok Henc Hd. unfold resolve.
  rewrite !N.eqb_refl. cbn [andb]. rewrite (find_tag_app_CG d _ Hd). rewrite N.eqb_refl.
  rewrite (cg_words_roundtrip c Hok (enc_cigar_lens c ops Henc)). cbn [bindr].
  rewrite (swap_remove_app_CG d _ Hd). reflexivity.
Qed.

(* ---------- cigar_slot ---------- *)
Lemma cigar_slot_spec : forall bc c n sl ov, cigar_slot bc c = (n, sl, ov) ->
  n = lenN sl /\ n <= 65535 /\
  ((ov = false /\ sl = c) \/ (ov = true /\ 65535 < lenN c /\ sl = [(4, bc); (3, ref_span c)])).
Proof.
  intros bc c n sl ov H. unfold cigar_slot in H. destruct (lenN c <=? 65535) eqn:E.
  - injection H as H1 H2 H3. subst. split; [reflexivity|]. split; [lia|]. left. split; reflexivity.
  - injection H as H1 H2 H3. subst. split; [reflexivity|]. split; [cbn [lenN]; lia|]. right.
    split; [reflexivity|]. split; [lia|reflexivity].
Qed.

Lemma lenN_map : forall (A B : Type) (f : A -> B) l, lenN (map f l) = lenN l.
Proof. intros A B f l. induction l as [|x l IH]; cbn [map lenN]; [reflexivity|]. rewrite IH. reflexivity. Qed.

(* ---------- the whole record, any data, any CIGAR length ---------- *)
Lemma body_roundtrip : forall nref r body,
  wf r -> wf_data (r_data r) -> NoDup (map fst (filter notCG (r_data r))) ->
  encode_body nref r = Ok body ->
  decode_body body = Ok (norm r) /\ validate body = Ok tt.
Proof.
  intros nref r body Hwf Hwd Hnd H.
  destruct r as [name flags rid pos mapq cigar mrid mpos tlen sq ql dt].
  unfold wf in Hwf. cbn [r_name r_flags r_rid r_pos r_mapq r_cigar r_mrid r_mpos r_tlen r_seq r_qual r_data] in *.
  destruct Hwf as (Hfl & Hmq & Hpos & Hmpos & Htl & Hops).
  unfold encode_body in H.
  cbn [r_name r_flags r_rid r_pos r_mapq r_cigar r_mrid r_mpos r_tlen r_seq r_qual r_data] in H.
  bind_ok H ridb Erid. bind_ok H posb Epos. bind_ok H lnb Eln.
  destruct (cigar_slot (lenN sq) cigar) as [[nops slot] ov] eqn:Eslot.
  destruct (cigar_slot_spec _ _ _ _ _ Eslot) as (Hn & Hn16 & Hslot).
  destruct (lenN sq <? 4294967296) eqn:Els; cbn [bindr] in H; [|discriminate H].
  bind_ok H mridb Emrid. bind_ok H mposb Empos. bind_ok H nameb Ename. bind_ok H cigb Ecig.
  bind_ok H sqb Esq. bind_ok H qlb Eql. bind_ok H dtb Edt. bind_ok H cgb Ecg.
  assert (Hbody : body = ridb ++ posb ++ lnb ++ enc_mapq mapq ++ leW 2 (bin_of pos cigar) ++
                         leW 2 nops ++ leW 2 flags ++ leW 4 (lenN sq) ++ mridb ++ mposb ++
                         enc_num 4 tlen ++ nameb ++ cigb ++ sqb ++ qlb ++ dtb ++ cgb)
    by (injection H as H; rewrite <- H; reflexivity).
  clear H.
  (* the slot CIGAR is well formed, and the data block decodes and resolves *)
  assert (Hslok : Forall op_ok slot).
  { destruct Hslot as [[_ ->]|[_ [_ ->]]]; [exact Hops|]. repeat constructor; unfold op_ok; cbn [fst]; lia. }
  assert (Htail : exists dd,
            dec_data (length (dtb ++ cgb)) (dtb ++ cgb) [] = Ok dd /\
            resolve (map norm_base sq) slot dd = Ok (cigar, filter notCG dt)).
  { destruct Hslot as [[Hov Hsl]|[Hov [Hlen Hsl]]]; subst ov slot.
    - injection Ecg as Ecg. subst cgb. exists (filter notCG dt). rewrite app_nil_r. split.
      + apply dec_data_roundtrip; assumption.
      + apply resolve_noCG. apply find_tag_notCG.
    - exists (filter notCG dt ++ [(CG, VArr tyI (map op_word cigar))]). split.
      + apply dec_data_cg; assumption.
      + unfold enc_cg in Ecg. destruct (lenN cigar <? 4294967296); [|discriminate Ecg].
        destruct (enc_cigar cigar) as [ops|] eqn:Eo; [|discriminate Ecg].
        rewrite <- (lenN_map _ _ norm_base sq).
        apply (resolve_cg _ cigar _ ops Hops Eo). apply find_tag_notCG. }
  destruct Htail as (dd & Hdd & Hres). clear Ecg Edt Hslot.
  destruct (rid_roundtrip _ _ _ Erid) as (n1 & -> & Hn1 & Hr1).
  destruct (pos_roundtrip _ _ Hpos Epos) as (n2 & -> & Hn2 & Hr2).
  destruct (rid_roundtrip _ _ _ Emrid) as (n3 & -> & Hn3 & Hr3).
  destruct (pos_roundtrip _ _ Hmpos Empos) as (n4 & -> & Hn4 & Hr4).
  destruct (enc_name_len_ok _ _ Eln) as (ln & -> & Hln & Hln255).
  pose proof (enc_name_length _ _ Ename) as Hnl. rewrite <- Hln in Hnl.
  pose proof (name_roundtrip _ _ Ename) as Hnr.
  pose proof (enc_cigar_length _ _ Ecig) as Hcl. rewrite <- Hn in Hcl.
  apply enc_seq_ok in Esq. subst sqb.
  destruct (qual_roundtrip _ _ _ Eql) as [Hql Hqr].
  pose proof (pack_length sq) as Hpl.
  assert (Htu : to_unsigned 4 tlen < pow256 4) by apply to_unsigned_lt.
  assert (Hts : to_signed 4 (to_unsigned 4 tlen) = tlen).
  { apply to_signed_unsigned. change (pow256 4 / 2) with 2147483648. lia. }
  assert (Hbin : bin_of pos cigar < pow256 2) by apply bin_lt.
  assert (Hnops : nops < pow256 2) by (rewrite pow256_2; lia).
  assert (Hflg : flags < pow256 2) by (rewrite pow256_2; lia).
  assert (Hlsq : lenN sq < pow256 4) by (rewrite pow256_4; lia).
  unfold enc_mapq, enc_num in Hbody. cbn [app] in Hbody.
  remember (dtb ++ cgb) as tail eqn:Etail.
  split.
  - subst body. unfold decode_body, rd_i32.
    rewrite rd_leW by exact Hn1. cbn [bindr]. rewrite Hr1. cbn [bindr].
    rewrite rd_leW by exact Hn2. cbn [bindr]. rewrite Hr2. cbn [bindr].
    rewrite rd1. cbn [bindr]. destruct (ln =? 0) eqn:El0; [lia|].
    rewrite rd1. cbn [bindr].
    rewrite rd_leW by exact Hbin. cbn [bindr].
    rewrite rd_leW by exact Hnops. cbn [bindr].
    rewrite rd_leW by exact Hflg. cbn [bindr].
    rewrite rd_leW by exact Hlsq. cbn [bindr].
    rewrite rd_leW by exact Hn3. cbn [bindr]. rewrite Hr3. cbn [bindr].
    rewrite rd_leW by exact Hn4. cbn [bindr]. rewrite Hr4. cbn [bindr].
    rewrite rd_leW by exact Htu. cbn [bindr].
    rewrite (take_app nameb) by (symmetry; exact Hnl). cbn [bindr]. rewrite Hnr. cbn [bindr].
    rewrite (take_app cigb) by (symmetry; exact Hcl). cbn [bindr].
    rewrite Hn.
    rewrite (cigar_roundtrip slot cigb (length cigb) Hslok Ecig)
      by (rewrite Hn in Hcl; rewrite !lenN_length in Hcl; lia).
    cbn [bindr].
    rewrite (take_app (pack_bases sq)) by (symmetry; exact Hpl). cbn [bindr].
    rewrite seq_roundtrip.
    unfold norm. cbn [r_name r_flags r_rid r_pos r_mapq r_cigar r_mrid r_mpos r_tlen r_seq r_qual r_data].
    assert (Hmq' : (if match mapq with Some q => q | None => 255 end =? 255 then None
                    else Some match mapq with Some q => q | None => 255 end) = mapq).
    { destruct mapq as [q|]; [|reflexivity]. specialize (Hmq q eq_refl).
      destruct (q =? 255) eqn:E; [lia|reflexivity]. }
    destruct (lenN sq =? 0) eqn:E0.
    + cbn [bindr]. assert (qlb = []) by (destruct qlb; [reflexivity|cbn [lenN] in Hql; lia]). subst qlb.
      cbn [app]. rewrite Hdd. cbn [bindr]. rewrite Hres. cbn [bindr].
      rewrite Hmq', Hts. replace (flags mod 4096) with flags by lia.
      rewrite <- Hqr. reflexivity.
    + rewrite (take_app qlb) by (symmetry; exact Hql). cbn [bindr].
      rewrite Hdd. cbn [bindr]. rewrite Hres. cbn [bindr].
      rewrite Hmq', Hts. replace (flags mod 4096) with flags by lia.
      rewrite Hqr. reflexivity.
  - assert (Hlen : lenN body = 32 + ln + 4 * nops + (lenN sq + 1) / 2 + lenN sq + lenN tail).
    { subst body. repeat (rewrite lenN_app || rewrite lenN_cons). rewrite !leW_length, Hnl, Hcl, Hpl, Hql.
      change (lenN (@nil N)) with 0. lia. }
    unfold validate. rewrite Hlen.
    destruct (32 + ln + 4 * nops + (lenN sq + 1) / 2 + lenN sq + lenN tail <? 32) eqn:E32; [lia|].
    subst body. cbn [leW app skipn]. cbn [rdW].
    match goal with |- (if ?c then _ else _) = _ => assert (Hc' : c = false); [|rewrite Hc'; reflexivity] end.
    apply N.ltb_ge. lia.
Qed.

Lemma decode_encode_all : forall nref r block,
  wf r -> wf_data (r_data r) -> NoDup (map fst (filter notCG (r_data r))) ->
  encode nref r = Ok block -> decode block = Ok (norm r).
Proof.
  intros nref r block Hwf Hwd Hnd H. unfold encode in H. bind_ok H body Eb.
  destruct (lenN body <? 4294967296) eqn:El; [|discriminate H].
  assert (Hblock : block = leW 4 (lenN body) ++ body) by (injection H as H; rewrite <- H; reflexivity).
  subst block. destruct (body_roundtrip _ _ _ Hwf Hwd Hnd Eb) as [Hdec Hval].
  unfold decode. rewrite rdW_leW by (rewrite pow256_4; lia).
  rewrite <- (app_nil_r body) at 2. rewrite takeN_app.
  unfold decode_record. rewrite Hval. cbn [bindr]. exact Hdec.
Qed.

Lemma decode_encode : forall nref r block,
  wf r -> wf_data (r_data r) -> NoDup (map fst (r_data r)) ->
  encode nref r = Ok block -> decode block = Ok (norm r).
Proof.
  intros nref r block Hwf Hwd Hnd H.
  apply (decode_encode_all nref r block Hwf Hwd); [|exact H]. apply NoDup_map_filter. exact Hnd.
Qed.

(* the CG convention in isolation: what the writer stores for a CIGAR of more than 65535
   operations, and that the reader's resolve step gives the CIGAR back and leaves the data as
   they were *)
Lemma cg_overflow_roundtrip : forall bc c d cgb sq,
  Forall op_ok c -> 65535 < lenN c -> lenN sq = bc -> find_tag CG d = None ->
  enc_cg c = Ok cgb ->
  cigar_slot bc c = (2, [(4, bc); (3, ref_span c)], true) /\
  (exists p, cgb = fst CG :: snd CG :: tyB :: p /\ dec_value tyB p = Ok (VArr tyI (map op_word c), [])) /\
  resolve sq [(4, bc); (3, ref_span c)] (d ++ [(CG, VArr tyI (map op_word c))]) = Ok (c, d).
Proof.
  intros bc c d cgb sq Hok Hlen Hsq Hd Hcg. split; [|split].
  - unfold cigar_slot. destruct (lenN c <=? 65535) eqn:E; [lia|reflexivity].
  - apply cg_field_roundtrip; assumption.
  - unfold enc_cg in Hcg. destruct (lenN c <? 4294967296); [|discriminate Hcg].
    destruct (enc_cigar c) as [ops|] eqn:Eo; [|discriminate Hcg].
    subst bc. apply (resolve_cg sq c d ops Hok Eo Hd).
Qed.
