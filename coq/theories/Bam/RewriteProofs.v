(* C05 proofs, wave 9: re-writing an eagerly read record reproduces the block byte for byte:
   the encoder does not see the normalisation the decoder applies (case-folded / N-mapped bases,
   dropped user CG field), so encode (norm r) = encode r, hence encode (decode (encode r)) = encode r. *)
From Coq Require Import List NArith ZArith Bool Lia ZifyBool ZifyNat ZifyN.
From NV Require Import Index.Bins Bam.Record Bam.Encode Bam.Decode Bam.CodecProofs Bam.AuxProofs.
Import ListNotations.
Open Scope N_scope.

Lemma encode_base_nth : forall c, c < 16 -> encode_base (nth_base c) = c.
Proof.
  intros c H.
  assert (Hall : forallb (fun c => encode_base (nth_base c) =? c) (map N.of_nat (seq 0 16)) = true)
    by (vm_compute; reflexivity).
  rewrite forallb_forall in Hall. apply N.eqb_eq. apply Hall.
  apply in_map_iff. exists (N.to_nat c). split; [apply N2Nat.id|]. apply in_seq. lia.
Qed.

Lemma encode_base_norm : forall b, encode_base (norm_base b) = encode_base b.
Proof. intros b. unfold norm_base. apply encode_base_nth. apply encode_base_lt. Qed.

Lemma pack_bases_norm : forall s, pack_bases (map norm_base s) = pack_bases s.
Proof.
  apply list_ind2.
  - reflexivity.
  - intros x. cbn [map pack_bases]. rewrite encode_base_norm. reflexivity.
  - intros x y t IH. cbn [map pack_bases]. rewrite !encode_base_norm. rewrite IH. reflexivity.
Qed.

Lemma repeatN_map : forall x (f : N -> N) s, repeatN x (map f s) = repeatN x s.
Proof. intros x f s. induction s as [|a s IH]; cbn [map repeatN]; [reflexivity|]. rewrite IH. reflexivity. Qed.

Lemma enc_seq_norm : forall rl s, enc_seq rl (map norm_base s) = enc_seq rl s.
Proof.
  intros rl s. destruct s as [|b s]; [reflexivity|]. unfold enc_seq.
  rewrite lenN_map, pack_bases_norm. reflexivity.
Qed.

Lemma enc_qual_norm : forall s q, enc_qual (map norm_base s) q = enc_qual s q.
Proof. intros s q. unfold enc_qual. rewrite lenN_map, repeatN_map. reflexivity. Qed.

Lemma enc_data_filter : forall d,
  enc_data (filter (fun p => negb (tag_eqb (fst p) CG)) d) = enc_data d.
Proof.
  induction d as [|[t v] d IH]; [reflexivity|]. cbn [filter fst enc_data].
  destruct (tag_eqb t CG) eqn:E; cbn [negb]; [exact IH|].
  cbn [enc_data]. rewrite E, IH. reflexivity.
Qed.

Lemma encode_body_norm : forall nref r, encode_body nref (norm r) = encode_body nref r.
Proof.
  intros nref r. destruct r as [name flags rid pos mapq cigar mrid mpos tlen sq ql dt].
  unfold encode_body, norm.
  cbn [r_name r_flags r_rid r_pos r_mapq r_cigar r_mrid r_mpos r_tlen r_seq r_qual r_data].
  rewrite lenN_map, enc_seq_norm, enc_qual_norm, enc_data_filter. reflexivity.
Qed.

Lemma encode_norm : forall nref r, encode nref (norm r) = encode nref r.
Proof. intros nref r. unfold encode. rewrite encode_body_norm. reflexivity. Qed.

(* write -> read -> write: the second block is the first *)
Theorem rewrite_eager_identity : forall nref r block,
  wf r -> wf_data (r_data r) -> NoDup (map fst (r_data r)) ->
  encode nref r = Ok block ->
  exists r', decode block = Ok r' /\ encode nref r' = Ok block.
Proof.
  intros nref r block Hwf Hwd Hnd H. exists (norm r).
  split; [apply (decode_encode nref r block Hwf Hwd Hnd H)|]. rewrite encode_norm. exact H.
Qed.
