(* C05 model of noodles-bam/src/record/sequence.rs::Sequence::split_at_checked and of
   record/sequence/subsequence.rs (Subsequence::new / len / is_empty / get / iter) WITH their panics:
   `self.end - self.start` underflows (overflow-checks on) when end < start, `self.src[k]` is a slice
   index.  A Subsequence is (start, end) over the packed buffer of the whole sequence; its iterator
   is Decode.sub_iter (record/sequence/iter.rs).  Definitions only. *)
From Coq Require Import List NArith ZArith Bool.
From NV Require Import Bam.Record Bam.Encode Bam.Decode Bam.Lazy.
Import ListNotations.
Open Scope N_scope.

(* Sequence::split_at_checked(mid) of a sequence of [len] bases *)
Definition split_at_checked (len mid : N) : option ((N * N) * (N * N)) :=
  if mid <=? len then Some ((0, mid), (mid, len)) else None.

(* Subsequence::len: None = arithmetic-overflow panic *)
Definition subseq_len (s : N * N) : option N :=
  if fst s <=? snd s then Some (snd s - fst s) else None.

Definition subseq_is_empty (s : N * N) : option bool := option_map (fun n => n =? 0) (subseq_len s).

(* Subsequence::get(i): None = index-out-of-bounds panic, Some None = no such base *)
Definition subseq_get (packed : bytes) (s : N * N) (i : N) : option (option N) :=
  let j := fst s + i in
  if j <? snd s then
    match nthN (j / 2) packed with
    | Some b => Some (Some (if j mod 2 =? 0 then hi_base b else lo_base b))
    | None => None
    end
  else Some None.

Definition subseq_iter (packed : bytes) (s : N * N) : bytes := sub_iter packed (fst s) (snd s).
