(* C05: the lazy data view through the behaviour switch [cg_repaired] (finding
   lazy-data-retains-cg-after-resolve), Cigar::len / is_empty, and
   RecordBuf::try_from_alignment_record of a lazy record.  All statements are proved for BOTH values
   of the switch, so flipping NV.Bam.Lazy.cg_repaired needs no proof change. *)
From Coq Require Import List NArith ZArith Bool Lia ZifyBool ZifyNat ZifyN.
From NV Require Import Bam.Record Bam.Encode Bam.Decode Bam.CodecProofs Bam.AuxProofs Bam.Lazy
  Bam.LazyProofs Bam.LazyCigarProofs Bam.LazyDataProofs.
Import ListNotations.
Open Scope N_scope.
Ltac Zify.zify_post_hook ::= Z.div_mod_to_equations.

(* ---- lists with CG last *)
Lemma find_tag_split : forall d v, find_tag CG d = Some v ->
  exists a b, d = a ++ (CG, v) :: b /\ find_tag CG a = None.
Proof.
  induction d as [|[t w] d IH]; intros v H; cbn [find_tag] in H; [discriminate H|].
  destruct (tag_eqb t CG) eqn:E.
  - injection H as H. subst w. apply tag_eqb_eq in E. subst t. exists [], d. split; reflexivity.
  - destruct (IH v H) as (a & b & Hd & Ha). exists ((t, w) :: a), b. split.
    + rewrite Hd. reflexivity.
    + cbn [find_tag]. rewrite E. exact Ha.
Qed.

Lemma filter_no_cg : forall a, find_tag CG a = None -> filter not_cg a = a.
Proof.
  induction a as [|[t w] a IH]; intros H; [reflexivity|]. cbn [find_tag] in H. cbn [filter].
  unfold not_cg at 1. cbn [fst]. destruct (tag_eqb t CG); [discriminate H|]. cbn [negb]. rewrite (IH H). reflexivity.
Qed.

Lemma filter_cg_last : forall a v, find_tag CG a = None -> filter not_cg (a ++ [(CG, v)]) = a.
Proof.
  intros a v H. rewrite filter_app, (filter_no_cg a H). cbn [filter]. unfold not_cg. cbn [fst].
  change (tag_eqb CG CG) with true. cbn [negb]. apply app_nil_r.
Qed.

Lemma swap_remove_cg_last : forall a v, find_tag CG a = None -> swap_remove CG (a ++ [(CG, v)]) = a.
Proof.
  induction a as [|[t w] a IH]; intros v H.
  - reflexivity.
  - cbn [find_tag] in H. cbn [app swap_remove]. destruct (tag_eqb t CG); [discriminate H|].
    rewrite (IH v H). reflexivity.
Qed.

(* ---- the data view through the switch.  [dt] = the raw field list (what the unrepaired view
   yields).  If CG, when present, is the last field -- what every writer produces: encoder.rs appends
   it -- then with the repair, or whenever cigar() did not take the CG branch, Data::iter() yields
   exactly the eager record's data. *)
Lemma lazy_data_switch : forall body r dt,
  validate body = Ok tt -> decode_body body = Ok r ->
  lzp_data_sw false body = Some (dt, false) ->
  (forall a v b, dt = a ++ (CG, v) :: b -> b = []) ->
  forall sw, sw = true \/ cg_branch body = false ->
  lzp_data_sw sw body = Some (r_data r, false).
Proof.
  intros body r dt Hv Hd Hraw Hlast sw Hsw.
  destruct (lazy_slices_ok body Hv) as (_ & _ & Hc & _ & _ & Hdr & Hl).
  destruct (decode_body_fields body r Hd) as
    (_ & _ & _ & _ & _ & _ & _ & _ & _ & _ & cig & dt' & G1 & G2 & G3 & G4 & G5 & G6).
  destruct (lz_fields_eq _ _ _ _ (length (lz_data_raw body)) G3 (le_n _)) as (more & Hm & Hlf).
  cbn [app] in Hm. subst more.
  assert (Hdt : dt' = dt).
  { unfold lzp_data_sw in Hraw. rewrite Hdr in Hraw. cbn [option_map andb] in Hraw. rewrite Hlf in Hraw.
    injection Hraw as Hraw. exact Hraw. }
  subst dt'.
  unfold lzp_data_sw. rewrite Hdr. cbn [option_map]. rewrite Hlf.
  unfold cg_branch in *. rewrite Hc, Hdr in *.
  destruct (is_placeholder body (lz_cigar_raw body)) eqn:Hp.
  2:{ cbn [andb]. rewrite andb_false_r.
      rewrite (resolve_not_placeholder body (r_seq r) cig dt G1 G6 G2 G5 Hp) in G4.
      injection G4 as _ Hdt. rewrite Hdt. reflexivity. }
  pose proof (walk _ _ [] dt (length (lz_data_raw body)) G3 eq_refl (le_n _)) as W.
  pose proof Hp as Hp'. unfold is_placeholder in Hp'.
  apply andb_true_iff in Hp'. destruct Hp' as [Hp' H3]. apply andb_true_iff in Hp'. destruct Hp' as [Hp' H2].
  apply andb_true_iff in Hp'. destruct Hp' as [H0 H1].
  assert (H8 : lenN (lz_cigar_raw body) = 8) by lia.
  pose proof (chunk_ops_two _ _ H8 G2) as Hcig. subst cig.
  unfold resolve in G4. rewrite H1, G5, H2, H3 in G4. cbn [andb] in G4.
  destruct (find_tag CG dt) as [[ty z|ty s|sub vs]|] eqn:Ef; try discriminate G4.
  - destruct (sub =? tyI) eqn:Es; [|discriminate G4].
    destruct W as (buf & Hrc & _ & _). rewrite Hrc in *. cbn [andb] in *.
    destruct (dec_u32_ops vs) as [ops|]; cbn [bindr] in G4; [|discriminate G4].
    injection G4 as _ Hdata.
    destruct Hsw as [Hsw|Hsw]; [|discriminate Hsw]. subst sw. cbn [andb].
    destruct (find_tag_split dt _ Ef) as (a & b & Hab & Ha).
    pose proof (Hlast a _ b Hab) as Hb. subst b. subst dt.
    rewrite swap_remove_cg_last in Hdata by exact Ha. rewrite filter_cg_last by exact Ha.
    rewrite Hdata. reflexivity.
  - rewrite W. cbn [andb]. rewrite andb_false_r. injection G4 as _ Hdata. rewrite Hdata. reflexivity.
Qed.

(* ---- Cigar::len / is_empty *)
Lemma lzp_cigar_via_buf : forall bs,
  lzp_cigar bs = match lzp_cigar_buf bs with Some buf => cigar_iter buf | None => None end.
Proof.
  intros bs. unfold lzp_cigar, lzp_cigar_buf.
  destruct (lzp_cigar_raw bs) as [src|]; [|reflexivity].
  destruct (is_placeholder bs src); [|reflexivity].
  destruct (lzp_data_raw bs) as [data|]; [|reflexivity].
  destruct (raw_cigar (length data) data); reflexivity.
Qed.

Lemma chunk_ops_len : forall n buf c, (length buf <= n)%nat ->
  chunk_ops buf = Ok c -> lenN buf mod 4 = 0 -> lenN buf = 4 * lenN c.
Proof.
  induction n as [|n IH]; intros buf c Hn H Hm.
  - destruct buf; [|cbn [length] in Hn; lia]. cbn [chunk_ops] in H. injection H as H. subst c. reflexivity.
  - destruct buf as [|b0 [|b1 [|b2 [|b3 r]]]]; cbn [chunk_ops] in H;
      try (injection H as H; subst c; cbn [lenN] in *; lia).
    destruct (dec_op _) as [op|]; cbn [bindr] in H; [|discriminate H].
    destruct (chunk_ops r) as [ops|] eqn:Er; cbn [bindr] in H; [|discriminate H].
    injection H as H. subst c. cbn [lenN] in *. cbn [length] in Hn.
    rewrite (IH r ops ltac:(lia) Er) by lia. lia.
Qed.

Lemma lazy_cigar_len_eq : forall body r,
  validate body = Ok tt -> decode_body body = Ok r ->
  lzp_cigar_len body = Some (lenN (r_cigar r), lenN (r_cigar r) =? 0).
Proof.
  intros body r Hv Hd. pose proof (lazy_cigar_eq body r Hv Hd) as H.
  rewrite lzp_cigar_via_buf in H. unfold lzp_cigar_len.
  destruct (lzp_cigar_buf body) as [buf|]; [|discriminate H]. cbn [option_map].
  unfold cigar_iter in H. destruct (lenN buf mod 4 =? 0) eqn:E4; [|discriminate H].
  injection H as H.
  pose proof (chunk_ops_len (length buf) buf _ (le_n _) H ltac:(lia)) as HL.
  f_equal. f_equal; [lia|]. destruct (lenN (r_cigar r) =? 0) eqn:E0; lia.
Qed.

Lemma lazy_cigar_len_no_panic : forall body, validate body = Ok tt -> exists x, lzp_cigar_len body = Some x.
Proof.
  intros body Hv. destruct (lazy_cigar_no_panic body Hv) as [c Hc].
  rewrite lzp_cigar_via_buf in Hc. unfold lzp_cigar_len.
  destruct (lzp_cigar_buf body) as [buf|]; [|discriminate Hc]. cbn [option_map]. eauto.
Qed.

(* ---- RecordBuf::try_from_alignment_record *)
Fixpoint fresh_seq (acc fs : list (tag * value)) : Prop :=
  match fs with
  | [] => True
  | (t, v) :: r => existsb (fun p => tag_eqb (fst p) t) acc = false /\ fresh_seq (acc ++ [(t, v)]) r
  end.

Lemma insert_field_fresh : forall d t v,
  existsb (fun p => tag_eqb (fst p) t) d = false -> insert_field d t v = d ++ [(t, v)].
Proof.
  induction d as [|[t' v'] d IH]; intros t v H; [reflexivity|].
  cbn [existsb fst] in H. apply orb_false_iff in H. destruct H as [H1 H2].
  cbn [insert_field app]. rewrite H1. rewrite (IH t v H2). reflexivity.
Qed.

Lemma insert_all_fresh : forall fs acc, fresh_seq acc fs ->
  fold_left (fun d p => insert_field d (fst p) (snd p)) fs acc = acc ++ fs.
Proof.
  induction fs as [|[t v] fs IH]; intros acc H; cbn [fold_left fresh_seq] in *.
  - symmetry. apply app_nil_r.
  - destruct H as [H1 H2]. cbn [fst snd]. rewrite (insert_field_fresh acc t v H1).
    rewrite (IH _ H2). rewrite <- app_assoc. reflexivity.
Qed.

Lemma dec_data_fresh : forall f bs acc dt, dec_data f bs acc = Ok dt ->
  exists more, dt = acc ++ more /\ fresh_seq acc more.
Proof.
  induction f as [|f IH]; intros bs acc dt H.
  - destruct bs; cbn [dec_data] in H; [|discriminate H]. injection H as H. subst dt.
    exists []. split; [symmetry; apply app_nil_r|exact I].
  - destruct bs as [|b bs].
    + cbn [dec_data] in H. injection H as H. subst dt. exists []. split; [symmetry; apply app_nil_r|exact I].
    + destruct (dec_data_step f (b :: bs) acc dt ltac:(discriminate) H) as (t0 & t1 & ty & r2 & v & r3 & _ & _ & Hex & Hd).
      destruct (IH _ _ _ Hd) as (more & Hm & Hf).
      exists (((t0, t1), v) :: more). split; [rewrite Hm, <- app_assoc; reflexivity|].
      cbn [fresh_seq]. split; assumption.
Qed.

Lemma fresh_seq_filter : forall fs acc, fresh_seq acc fs -> fresh_seq (filter not_cg acc) (filter not_cg fs).
Proof.
  induction fs as [|[t v] fs IH]; intros acc H; cbn [fresh_seq filter] in *; [exact I|].
  destruct H as [H1 H2]. specialize (IH _ H2). rewrite filter_app in IH. cbn [filter] in IH.
  assert (Hex : existsb (fun p => tag_eqb (fst p) t) (filter not_cg acc) = false).
  { clear - H1. induction acc as [|[t' v'] acc IHa]; [reflexivity|]. cbn [existsb fst] in H1.
    apply orb_false_iff in H1. destruct H1 as [Ha Hb]. cbn [filter].
    destruct (not_cg (t', v')); [cbn [existsb fst]; rewrite Ha; exact (IHa Hb)|exact (IHa Hb)]. }
  destruct (not_cg (t, v)).
  - cbn [fresh_seq]. split; [exact Hex|exact IH].
  - rewrite app_nil_r in IH. exact IH.
Qed.

(* the conversion of a lazy record succeeds, without a panic, to the eager record with the data
   the (switched) lazy view lists *)
Lemma lazy_convert_eq : forall sw body r,
  validate body = Ok tt -> decode_body body = Ok r ->
  exists d, lzp_data_sw sw body = Some (d, false) /\
    lazy_convert_sw sw body =
      Some (Ok (mkRecord (r_name r) (r_flags r) (r_rid r) (r_pos r) (r_mapq r) (r_cigar r)
                         (r_mrid r) (r_mpos r) (r_tlen r) (r_seq r) (r_qual r) d)).
Proof.
  intros sw body r Hv Hd.
  destruct (lazy_eq_eager_fields body r Hv Hd) as (cig & Hview & _).
  pose proof (lazy_cigar_eq body r Hv Hd) as Hcig.
  unfold lazy_view_of in Hview. destruct (has_head body); [|discriminate Hview].
  injection Hview as Hn Hf Hrid Hpos Hmq Hmrid Hmpos Htl Hsq Hql Hdr.
  destruct (decode_body_fields body r Hd) as
    (_ & _ & _ & _ & _ & _ & _ & _ & _ & _ & cig' & dt & G1 & G2 & G3 & G4 & G5 & G6).
  destruct (lz_fields_eq _ _ _ _ (length (lz_data_raw body)) G3 (le_n _)) as (more & Hm & Hlf).
  cbn [app] in Hm. subst more.
  destruct (dec_data_fresh _ _ _ _ G3) as (more & Hm & Hfresh). cbn [app] in Hm. subst more.
  assert (HD : exists d, lzp_data_sw sw body = Some (d, false) /\ insert_all d = d).
  { unfold lzp_data_sw. rewrite Hdr. cbn [option_map]. rewrite Hlf.
    destruct (sw && cg_branch body).
    - exists (filter not_cg dt). split; [reflexivity|].
      unfold insert_all. rewrite insert_all_fresh; [reflexivity|]. exact (fresh_seq_filter dt [] Hfresh).
    - exists dt. split; [reflexivity|]. unfold insert_all. rewrite insert_all_fresh; [reflexivity|exact Hfresh]. }
  destruct HD as (d & HD1 & HD2). exists d. split; [exact HD1|].
  unfold lazy_convert_sw. rewrite Hn, Hrid, Hpos, Hcig, Hmrid, Hmpos, Hsq, Hql, HD1, Hf, Hmq, Htl, HD2.
  reflexivity.
Qed.
