(* C05 proofs, third part: the lazy accessors (Bam/Lazy.v, the lz_ slices of Bam/Decode.v) agree
   with the eager decoder on every body that validate() accepts, and no modelled accessor panics
   on such a body. *)
From Coq Require Import List NArith ZArith Bool Lia ZifyBool ZifyNat ZifyN.
From NV Require Import Bam.Record Bam.Encode Bam.Decode Bam.Lazy Bam.CodecProofs.
Import ListNotations.
Open Scope N_scope.
Ltac Zify.zify_post_hook ::= Z.div_mod_to_equations.
Arguments N.add : simpl never.
Arguments N.sub : simpl never.
Arguments N.mul : simpl never.
Arguments N.div : simpl never.
Arguments N.modulo : simpl never.
Arguments N.pow : simpl never.

(* ---------- offsets ---------- *)
Lemma skipN_nil : forall n, skipN n [] = [].
Proof. intros n. cbn [skipN]. destruct (n =? 0); reflexivity. Qed.

Lemma skipN_cons : forall n x l, n <> 0 -> skipN n (x :: l) = skipN (n - 1) l.
Proof. intros n x l H. cbn [skipN]. destruct (n =? 0) eqn:E; [lia|reflexivity]. Qed.

Lemma skipN_skipN : forall l a b, skipN a (skipN b l) = skipN (b + a) l.
Proof.
  induction l as [|x l IH]; intros a b.
  - rewrite !skipN_nil. reflexivity.
  - destruct (b =? 0) eqn:Eb.
    + assert (b = 0) by lia. subst b. rewrite skipN_0. replace (0 + a) with a by lia. reflexivity.
    + rewrite (skipN_cons b) by lia. rewrite (skipN_cons (b + a)) by lia. rewrite IH. f_equal. lia.
Qed.

Lemma skipn_skipN : forall l n, skipn (N.to_nat n) l = skipN n l.
Proof.
  induction l as [|x l IH]; intros n.
  - rewrite skipN_nil. destruct (N.to_nat n); reflexivity.
  - destruct (n =? 0) eqn:E.
    + assert (n = 0) by lia. subst n. reflexivity.
    + rewrite skipN_cons by lia. replace (N.to_nat n) with (S (N.to_nat (n - 1))) by lia.
      cbn [skipn]. apply IH.
Qed.

Lemma lenN_skipN : forall l n, lenN (skipN n l) = lenN l - n.
Proof.
  induction l as [|x l IH]; intros n.
  - rewrite skipN_nil. cbn [lenN]. lia.
  - destruct (n =? 0) eqn:E.
    + assert (n = 0) by lia. subst n. rewrite skipN_0. lia.
    + rewrite skipN_cons by lia. rewrite IH. cbn [lenN]. lia.
Qed.

Lemma rdW_rest : forall w l v r, rdW w l = Some (v, r) -> r = skipN (N.of_nat w) l.
Proof.
  induction w as [|w IH]; intros l v r H; cbn [rdW] in H.
  - injection H as _ H. subst r. symmetry. apply skipN_0.
  - destruct l as [|x l]; [discriminate H|]. destruct (rdW w l) as [[v' r']|] eqn:E; [|discriminate H].
    injection H as _ H. subst r'. rewrite skipN_cons by lia.
    replace (N.of_nat (S w) - 1) with (N.of_nat w) by lia. apply (IH _ _ _ E).
Qed.

Lemma takeN_spec : forall l n a c, takeN n l = Some (a, c) ->
  a = firstnN n l /\ c = skipN n l /\ lenN a = n.
Proof.
  induction l as [|x l IH]; intros n a c H; cbn [takeN firstnN] in *.
  - destruct (n =? 0) eqn:E; [|discriminate H]. injection H as H1 H2. subst a c.
    rewrite skipN_nil. repeat split. cbn [lenN]. lia.
  - destruct (n =? 0) eqn:E.
    + injection H as H1 H2. subst a c. assert (n = 0) by lia. subst n. rewrite skipN_0. repeat split.
    + destruct (takeN (n - 1) l) as [[a' c']|] eqn:Et; [|discriminate H].
      injection H as H1 H2. subst a c. destruct (IH _ _ _ Et) as (Ha & Hc & Hl).
      rewrite skipN_cons by lia. subst a' c'. repeat split. cbn [lenN]. rewrite Hl. lia.
Qed.

(* sequential reads of the eager decoder at a known offset of the body *)
Lemma rd_at : forall w off body v r, rd w (skipN off body) = Ok (v, r) ->
  v = field off w body /\ r = skipN (off + N.of_nat w) body.
Proof.
  intros w off body v r H. unfold rd in H. unfold field.
  destruct (rdW w (skipN off body)) as [[v' r']|] eqn:E; [|discriminate H].
  injection H as H1 H2. subst v' r'. split; [reflexivity|].
  rewrite (rdW_rest _ _ _ _ E). apply skipN_skipN.
Qed.

Lemma rd_i32_at : forall off body z r, rd_i32 (skipN off body) = Ok (z, r) ->
  z = to_signed 4 (field off 4 body) /\ r = skipN (off + 4) body.
Proof.
  intros off body z r H. unfold rd_i32 in H.
  destruct (rd 4 (skipN off body)) as [[n r']|] eqn:E; cbn [bindr] in H; [|discriminate H].
  injection H as H1 H2. subst z r'. destruct (rd_at _ _ _ _ _ E) as [Hn Hr]. subst n r. split; reflexivity.
Qed.

Lemma take_at : forall n off body a c, take n (skipN off body) = Ok (a, c) ->
  a = sliceN off n body /\ c = skipN (off + n) body /\ lenN a = n.
Proof.
  intros n off body a c H. unfold take in H.
  destruct (takeN n (skipN off body)) as [[a' c']|] eqn:E; [|discriminate H].
  injection H as H1 H2. subst a' c'. destruct (takeN_spec _ _ _ _ E) as (Ha & Hc & Hl).
  split; [exact Ha|]. split; [|exact Hl]. rewrite Hc. apply skipN_skipN.
Qed.

(* ---------- validate ---------- *)
Lemma validate_ok : forall bs, validate bs = Ok tt ->
  32 + lz_lname bs + 4 * lz_nops bs + (lz_lseq bs + 1) / 2 + lz_lseq bs <= lenN bs.
Proof.
  intros bs H. unfold validate in H. destruct (lenN bs <? 32) eqn:E32; [discriminate H|].
  pose proof (skipn_skipN bs 8) as H8. change (N.to_nat 8) with 8%nat in H8.
  pose proof (skipn_skipN bs 12) as H12. change (N.to_nat 12) with 12%nat in H12.
  pose proof (skipn_skipN bs 16) as H16. change (N.to_nat 16) with 16%nat in H16.
  rewrite H16, H12, H8 in H. clear H8 H12 H16.
  unfold lz_lname, lz_nops, lz_lseq, field.
  destruct (rdW 1 (skipN 8 bs)) as [[lname r1]|]; destruct (rdW 2 (skipN 12 bs)) as [[nops r2]|];
    destruct (rdW 4 (skipN 16 bs)) as [[lseq r3]|]; try discriminate H.
  destruct (lenN bs <? 32 + lname + 4 * nops + (lseq + 1) / 2 + lseq) eqn:E; [discriminate H|]. lia.
Qed.

(* ---------- CIGAR chunks ---------- *)
Lemma dec_ops_chunk : forall fuel cnt bs c, lenN bs = 4 * cnt ->
  dec_ops fuel cnt bs = Ok c -> chunk_ops bs = Ok c.
Proof.
  induction fuel as [|fuel IH]; intros cnt bs c Hl H; cbn [dec_ops] in H.
  - destruct (cnt =? 0) eqn:E; [|discriminate H]. injection H as H. subst c.
    assert (bs = []) by (apply lenN_0_nil; lia). subst bs. reflexivity.
  - destruct (cnt =? 0) eqn:E.
    + injection H as H. subst c. assert (bs = []) by (apply lenN_0_nil; lia). subst bs. reflexivity.
    + destruct bs as [|b0 [|b1 [|b2 [|b3 r]]]]; cbn [lenN] in Hl; try lia.
      unfold rd in H. cbn [rdW] in H. cbn [bindr] in H.
      cbn [chunk_ops].
      replace (b0 + 256 * (b1 + 256 * (b2 + 256 * b3))) with (b0 + 256 * (b1 + 256 * (b2 + 256 * (b3 + 256 * 0)))) by lia.
      destruct (dec_op (b0 + 256 * (b1 + 256 * (b2 + 256 * (b3 + 256 * 0))))) as [op|]; cbn [bindr] in H |- *; [|discriminate H].
      destruct (dec_ops fuel (cnt - 1) r) as [ops|] eqn:Eo; cbn [bindr] in H; [|discriminate H].
      rewrite (IH (cnt - 1) r ops) by (try exact Eo; lia). cbn [bindr]. exact H.
Qed.

Lemma dec_ops_len : forall fuel cnt bs c, dec_ops fuel cnt bs = Ok c -> lenN c = cnt.
Proof.
  induction fuel as [|fuel IH]; intros cnt bs c H; cbn [dec_ops] in H.
  - destruct (cnt =? 0) eqn:E; [|discriminate H]. injection H as H. subst c. cbn [lenN]. lia.
  - destruct (cnt =? 0) eqn:E; [injection H as H; subst c; cbn [lenN]; lia|].
    destruct (rd 4 bs) as [[n r]|]; cbn [bindr] in H; [|discriminate H].
    destruct (dec_op n) as [op|]; cbn [bindr] in H; [|discriminate H].
    destruct (dec_ops fuel (cnt - 1) r) as [ops|] eqn:Eo; cbn [bindr] in H; [|discriminate H].
    injection H as H. subst c. cbn [lenN]. rewrite (IH _ _ _ Eo). lia.
Qed.

Lemma lenN_firstnN : forall l n, n <= lenN l -> lenN (firstnN n l) = n.
Proof.
  induction l as [|x l IH]; intros n H; cbn [firstnN]; destruct (n =? 0) eqn:E; cbn [lenN] in *; try lia.
  rewrite IH by lia. lia.
Qed.

Lemma lenN_sliceN : forall l off len, off + len <= lenN l -> lenN (sliceN off len l) = len.
Proof. intros l off len H. unfold sliceN. apply lenN_firstnN. rewrite lenN_skipN. lia. Qed.

(* a two-operation buffer: the operations are the kind/length halves of its two words *)
Lemma chunk_ops_two : forall src cig, lenN src = 8 -> chunk_ops src = Ok cig ->
  cig = [(word src mod 16, word src / 16); (word (skipN 4 src) mod 16, word (skipN 4 src) / 16)].
Proof.
  intros src cig Hl H.
  destruct src as [|b0 [|b1 [|b2 [|b3 [|b4 [|b5 [|b6 [|b7 [|b8 r]]]]]]]]]; cbn [lenN] in Hl; try lia.
  replace (skipN 4 [b0; b1; b2; b3; b4; b5; b6; b7]) with [b4; b5; b6; b7] by reflexivity.
  unfold word. cbn [rdW]. cbn [chunk_ops] in H.
  replace (b0 + 256 * (b1 + 256 * (b2 + 256 * (b3 + 256 * 0)))) with (b0 + 256 * (b1 + 256 * (b2 + 256 * b3))) by lia.
  replace (b4 + 256 * (b5 + 256 * (b6 + 256 * (b7 + 256 * 0)))) with (b4 + 256 * (b5 + 256 * (b6 + 256 * b7))) by lia.
  unfold dec_op in H.
  destruct ((b0 + 256 * (b1 + 256 * (b2 + 256 * b3))) mod 16 <=? 8); cbn [bindr] in H; [|discriminate H].
  destruct ((b4 + 256 * (b5 + 256 * (b6 + 256 * b7))) mod 16 <=? 8); cbn [bindr] in H; [|discriminate H].
  injection H as H. symmetry. exact H.
Qed.

(* ---------- name ---------- *)
Lemma name_lazy_eager : forall buf o, dec_name buf = Ok o -> name_of_raw buf = o.
Proof.
  intros buf o H. unfold dec_name in H. unfold name_of_raw.
  destruct (list_eqb buf [42; 0]); [injection H as H; exact H|].
  destruct (split_last buf) as [[s t]|]; [|discriminate H].
  destruct (t =? 0); [injection H as H; exact H|discriminate H].
Qed.

Lemma lz_name_raw_eq : forall bs, lz_name bs = name_of_raw (lz_name_raw bs).
Proof. reflexivity. Qed.

(* ---------- the eager decoder read at the lazy offsets ---------- *)
(* everything decode_body computes before the CG resolution, expressed with the lazy slices *)
Lemma decode_body_fields : forall body r,
  decode_body body = Ok r ->
  lz_rid body = Ok (r_rid r) /\ lz_pos body = Ok (r_pos r) /\ lz_mapq body = r_mapq r /\
  lz_flags body = r_flags r /\ lz_mrid body = Ok (r_mrid r) /\ lz_mpos body = Ok (r_mpos r) /\
  lz_tlen body = r_tlen r /\ lz_name body = r_name r /\ lz_seq body = r_seq r /\
  lz_qual body = r_qual r /\
  exists cig dt,
    lenN (lz_cigar_raw body) = 4 * lz_nops body /\
    chunk_ops (lz_cigar_raw body) = Ok cig /\
    dec_data (length (lz_data_raw body)) (lz_data_raw body) [] = Ok dt /\
    resolve (r_seq r) cig dt = Ok (r_cigar r, r_data r) /\
    lenN (r_seq r) = lz_lseq body /\ lenN cig = lz_nops body.
Proof.
  intros body r H. unfold decode_body in H.
  rewrite <- (skipN_0 body) in H at 1.
  bind_ok H x1 E1. destruct x1 as [ridz b1]. destruct (rd_i32_at _ _ _ _ E1) as [Hridz Hb1]. subst b1.
  bind_ok H rid Erid.
  bind_ok H x2 E2. destruct x2 as [posz b2]. destruct (rd_i32_at _ _ _ _ E2) as [Hposz Hb2]. subst b2.
  bind_ok H pos Epos.
  bind_ok H x3 E3. destruct x3 as [lname b3]. destruct (rd_at _ _ _ _ _ E3) as [Hlname Hb3]. subst b3.
  destruct (lname =? 0) eqn:Eln0; [discriminate H|].
  bind_ok H x4 E4. destruct x4 as [mq b4]. destruct (rd_at _ _ _ _ _ E4) as [Hmq Hb4]. subst b4.
  bind_ok H x5 E5. destruct x5 as [bin b5]. destruct (rd_at _ _ _ _ _ E5) as [_ Hb5]. subst b5.
  bind_ok H x6 E6. destruct x6 as [nops b6]. destruct (rd_at _ _ _ _ _ E6) as [Hnops Hb6]. subst b6.
  bind_ok H x7 E7. destruct x7 as [fl b7]. destruct (rd_at _ _ _ _ _ E7) as [Hfl Hb7]. subst b7.
  bind_ok H x8 E8. destruct x8 as [lseq b8]. destruct (rd_at _ _ _ _ _ E8) as [Hlseq Hb8]. subst b8.
  bind_ok H x9 E9. destruct x9 as [mridz b9]. destruct (rd_i32_at _ _ _ _ E9) as [Hmridz Hb9]. subst b9.
  bind_ok H mrid Emrid.
  bind_ok H x10 E10. destruct x10 as [mposz b10]. destruct (rd_i32_at _ _ _ _ E10) as [Hmposz Hb10]. subst b10.
  bind_ok H mpos Empos.
  bind_ok H x11 E11. destruct x11 as [tlen b11]. destruct (rd_i32_at _ _ _ _ E11) as [Htlen Hb11]. subst b11.
  change (0 + 4 + 4 + N.of_nat 1 + N.of_nat 1 + N.of_nat 2 + N.of_nat 2 + N.of_nat 2 + N.of_nat 4 + 4 + 4 + 4) with 32 in H.
  change (0 + 4 + 4) with 8 in *. change (8 + N.of_nat 1) with 9 in *. change (9 + N.of_nat 1) with 10 in *.
  change (10 + N.of_nat 2) with 12 in *. change (12 + N.of_nat 2) with 14 in *.
  change (14 + N.of_nat 2) with 16 in *. change (16 + N.of_nat 4) with 20 in *.
  change (20 + 4) with 24 in *. change (24 + 4) with 28 in *. change (0 + 4) with 4 in *.
  bind_ok H x12 E12. destruct x12 as [nbuf b12]. destruct (take_at _ _ _ _ _ E12) as (Hnbuf & Hb12 & Hnl). subst b12.
  bind_ok H name Ename.
  bind_ok H x13 E13. destruct x13 as [cbuf b13]. destruct (take_at _ _ _ _ _ E13) as (Hcbuf & Hb13 & Hcl). subst b13.
  bind_ok H cig Ecig.
  bind_ok H x14 E14. destruct x14 as [sbuf b14]. destruct (take_at _ _ _ _ _ E14) as (Hsbuf & Hb14 & Hsl). subst b14.
  bind_ok H x15 E15. destruct x15 as [qbuf b15].
  bind_ok H dt Edt. bind_ok H x16 Eres. destruct x16 as [cig' dt'].
  injection H as H. subst r.
  cbn [r_name r_flags r_rid r_pos r_mapq r_cigar r_mrid r_mpos r_tlen r_seq r_qual r_data].
  assert (Hq : qbuf = lz_qual_raw body /\ b15 = lz_data_raw body).
  { unfold lz_qual_raw, lz_data_raw, lz_lname, lz_nops, lz_lseq. rewrite <- Hlname, <- Hnops, <- Hlseq.
    destruct (lseq =? 0) eqn:E0.
    - injection E15 as H1 H2. subst qbuf b15. assert (Hz : lseq = 0) by lia. rewrite Hz.
      unfold sliceN. rewrite firstnN_0. split; [reflexivity|]. f_equal. lia.
    - destruct (take_at _ _ _ _ _ E15) as (Hqbuf & Hb15 & _). split; assumption. }
  destruct Hq as [Hqbuf Hb15]. subst qbuf b15.
  unfold lz_rid, lz_pos, lz_mapq, lz_flags, lz_mrid, lz_mpos, lz_tlen.
  rewrite <- Hridz, <- Hposz, <- Hmq, <- Hfl, <- Hmridz, <- Hmposz, <- Htlen.
  split; [exact Erid|]. split; [exact Epos|]. split; [reflexivity|]. split; [reflexivity|].
  split; [exact Emrid|]. split; [exact Empos|]. split; [reflexivity|].
  split.
  { rewrite lz_name_raw_eq. unfold lz_name_raw, lz_lname. rewrite <- Hlname, <- Hnbuf.
    apply name_lazy_eager. exact Ename. }
  split.
  { unfold lz_seq, lz_seq_raw, lz_lname, lz_nops, lz_lseq. rewrite <- Hlname, <- Hnops, <- Hlseq, <- Hsbuf. reflexivity. }
  split; [reflexivity|].
  exists cig, dt.
  assert (Hcr : cbuf = lz_cigar_raw body).
  { unfold lz_cigar_raw, lz_lname, lz_nops. rewrite <- Hlname, <- Hnops. exact Hcbuf. }
  rewrite <- Hcr. unfold lz_nops, lz_lseq. rewrite <- Hnops, <- Hlseq.
  split; [exact Hcl|]. split; [apply (dec_ops_chunk (length cbuf) nops); assumption|].
  split; [exact Edt|]. split; [exact Eres|].
  split; [|apply (dec_ops_len _ _ _ _ Ecig)].
  apply lenN_firstnN. rewrite unpack_length, Hsl. lia.
Qed.

(* ---------- no panic on a validated body ---------- *)
Lemma lazy_slices_ok : forall bs, validate bs = Ok tt ->
  has_head bs = true /\
  lzp_name bs = Some (lz_name bs) /\ lzp_cigar_raw bs = Some (lz_cigar_raw bs) /\
  lzp_seq bs = Some (lz_seq bs) /\ lzp_qual bs = Some (lz_qual bs) /\
  lzp_data_raw bs = Some (lz_data_raw bs) /\ lenN (lz_cigar_raw bs) = 4 * lz_nops bs.
Proof.
  intros bs H. pose proof (validate_ok bs H) as Hv.
  unfold has_head, lzp_name, lzp_cigar_raw, lzp_seq, lzp_qual, lzp_data_raw, lzp_slice, lzp_from.
  repeat match goal with
         | |- context [?a <=? ?b] => let E := fresh "E" in destruct (a <=? b) eqn:E; [|exfalso; lia]
         end.
  repeat (split; [reflexivity|]). unfold lz_cigar_raw. apply lenN_sliceN. lia.
Qed.

Lemma cigar_iter_words : forall src n, lenN src = 4 * n -> cigar_iter src = Some (chunk_ops src).
Proof. intros src n H. unfold cigar_iter. destruct (lenN src mod 4 =? 0) eqn:E; [reflexivity|lia]. Qed.

(* get_raw_cigar only ever returns a whole number of 32-bit words (a CG array of subtype I) *)
Lemma raw_cigar_words : forall fuel bs buf, raw_cigar fuel bs = Some buf -> lenN buf mod 4 = 0.
Proof.
  induction fuel as [|fuel IH]; intros bs buf H; cbn [raw_cigar] in H; [discriminate H|].
  destruct bs as [|t0 [|t1 [|ty r1]]]; try discriminate H.
  destruct (ty =? tyB).
  - destruct r1 as [|sub r2]; [discriminate H|].
    destruct (sub_width sub) as [[w sg]|] eqn:Ew; [|discriminate H].
    destruct (rdW 4 r2) as [[cnt r3]|]; [|discriminate H].
    destruct (takeN (cnt * N.of_nat w) r3) as [[b r4]|] eqn:Et; [|discriminate H].
    destruct (tag_eqb (t0, t1) CG); [|exact (IH _ _ H)].
    destruct (sub =? tyI) eqn:Es; [|discriminate H]. injection H as H. subst b.
    apply N.eqb_eq in Es. subst sub. change (sub_width tyI) with (Some (4%nat, false)) in Ew.
    injection Ew as Ew _. subst w. destruct (takeN_spec _ _ _ _ Et) as (_ & _ & Hl). lia.
  - destruct (num_width ty) as [[w sg]|].
    + destruct (rdW w r1) as [[n r2]|]; [exact (IH _ _ H)|discriminate H].
    + destruct ((ty =? tyZ) || (ty =? tyH)); [|discriminate H].
      destruct (split_nul r1) as [[s r2]|]; [exact (IH _ _ H)|discriminate H].
Qed.

(* cigar().iter() never reaches a slice panic or the unreachable!() of Cigar::iter *)
Lemma lazy_cigar_no_panic : forall bs, validate bs = Ok tt -> exists c, lzp_cigar bs = Some c.
Proof.
  intros bs H. destruct (lazy_slices_ok bs H) as (_ & _ & Hc & _ & _ & Hd & Hl).
  unfold lzp_cigar. rewrite Hc, Hd. rewrite (cigar_iter_words _ _ Hl).
  destruct (is_placeholder bs (lz_cigar_raw bs)); [|eauto].
  destruct (raw_cigar (length (lz_data_raw bs)) (lz_data_raw bs)) as [buf|] eqn:Er; [|eauto].
  pose proof (raw_cigar_words _ _ _ Er) as Hm. unfold cigar_iter.
  destruct (lenN buf mod 4 =? 0) eqn:E; [eauto|lia].
Qed.

(* ---------- lazy = eager ---------- *)
Lemma resolve_not_placeholder : forall body sq cig dt,
  lenN (lz_cigar_raw body) = 4 * lz_nops body -> lenN cig = lz_nops body ->
  chunk_ops (lz_cigar_raw body) = Ok cig -> lenN sq = lz_lseq body ->
  is_placeholder body (lz_cigar_raw body) = false ->
  resolve sq cig dt = Ok (cig, dt).
Proof.
  intros body sq cig dt Hl Hn Hc Hs Hp. unfold resolve.
  destruct cig as [|[k0 l0] [|[k1 l1] [|op c]]]; try reflexivity.
  cbn [lenN] in Hn. assert (H8 : lenN (lz_cigar_raw body) = 8) by lia.
  pose proof (chunk_ops_two _ _ H8 Hc) as Hw. injection Hw as Hk0 Hl0 Hk1 Hl1.
  unfold is_placeholder in Hp. rewrite H8 in Hp. rewrite <- Hk0, <- Hl0, <- Hk1, <- Hs in Hp.
  change (8 =? 8) with true in Hp. cbn [andb] in Hp. rewrite Hp. reflexivity.
Qed.

Lemma lazy_eq_eager_fields : forall body r,
  validate body = Ok tt -> decode_body body = Ok r ->
  exists cig,
  lazy_view_of body =
    Some (mkLazy (Some (r_name r)) (r_flags r) (Ok (r_rid r)) (Ok (r_pos r)) (r_mapq r)
                 (Ok (r_mrid r)) (Ok (r_mpos r)) (r_tlen r) (lzp_cigar body)
                 (Some (r_seq r)) (Some (r_qual r)) (Some (lz_data_raw body))) /\
  chunk_ops (lz_cigar_raw body) = Ok cig /\
  (exists dt, dec_data (length (lz_data_raw body)) (lz_data_raw body) [] = Ok dt /\
              resolve (r_seq r) cig dt = Ok (r_cigar r, r_data r)) /\
  (is_placeholder body (lz_cigar_raw body) = false ->
     lzp_cigar body = Some (Ok (r_cigar r)) /\
     dec_data (length (lz_data_raw body)) (lz_data_raw body) [] = Ok (r_data r)).
Proof.
  intros body r Hv Hd.
  destruct (lazy_slices_ok body Hv) as (Hh & Hn & Hc & Hs & Hq & Hdr & Hl).
  destruct (decode_body_fields body r Hd) as
    (F1 & F2 & F3 & F4 & F5 & F6 & F7 & F8 & F9 & F10 & cig & dt & G1 & G2 & G3 & G4 & G5 & G6).
  exists cig. split; [|split; [exact G2|split; [exists dt; split; assumption|]]].
  - unfold lazy_view_of. rewrite Hh, Hn, Hs, Hq, Hdr, F1, F2, F3, F4, F5, F6, F7, F8, F9, F10. reflexivity.
  - intros Hp. pose proof (resolve_not_placeholder body (r_seq r) cig dt G1 G6 G2 G5 Hp) as Hr.
    rewrite Hr in G4. injection G4 as Hcg Hdt. subst cig dt. split; [|exact G3].
    unfold lzp_cigar. rewrite Hc, Hp. rewrite (cigar_iter_words _ _ Hl). rewrite G2. reflexivity.
Qed.
