(* C05 proofs, wave 10: the sequence iterator state machine (Bam/SeqIter.v) behaves, for EVERY
   interleaving of next and next_back, like a double-ended queue over the bases of [start, end);
   size_hint is exact at every step. *)
From Coq Require Import List NArith ZArith Bool Lia ZifyBool ZifyNat ZifyN.
From NV Require Import Bam.Record Bam.Encode Bam.Decode Bam.Lazy Bam.SeqIter Bam.CodecProofs Bam.LazyProofs.
Import ListNotations.
Open Scope N_scope.
Ltac Zify.zify_post_hook ::= Z.div_mod_to_equations.
Arguments N.add : simpl never.
Arguments N.sub : simpl never.
Arguments N.mul : simpl never.
Arguments N.div : simpl never.
Arguments N.modulo : simpl never.

Lemma unpack_cons : forall n r, unpack_bases (n :: r) = hi_base n :: lo_base n :: unpack_bases r.
Proof. reflexivity. Qed.

Lemma unpack_snoc : forall a n, unpack_bases (a ++ [n]) = unpack_bases a ++ [hi_base n; lo_base n].
Proof. intros a n. rewrite unpack_app. reflexivity. Qed.

Lemma split_last_inv : forall l a x, split_last l = Some (a, x) -> l = a ++ [x].
Proof.
  intros l a x H. destruct l as [|y l].
  - discriminate H.
  - destruct (split_last_some (y :: l)) as [w [n [Hw Hs]]]; [discriminate|].
    rewrite Hs in H. injection H as Ha Hx. subst a x. exact Hw.
Qed.

Lemma split_last_none : forall l, split_last l = None -> l = [].
Proof.
  intros l H. destruct l as [|y l]; [reflexivity|].
  destruct (split_last_some (y :: l)) as [w [n [Hw Hs]]]; [discriminate|]. rewrite Hs in H. discriminate H.
Qed.

Lemma lenN_unpack2 : forall l, lenN (unpack_bases l) = lenN l * 2.
Proof.
  induction l as [|x l IH]; [reflexivity|]. rewrite unpack_cons. cbn [lenN]. rewrite IH. lia.
Qed.

Lemma lenN_le1 : forall l : bytes, lenN l <= 1 -> l = [] \/ exists x, l = [x].
Proof.
  intros l H. destruct l as [|x [|y l]]; [left; reflexivity|right; exists x; reflexivity|].
  cbn [lenN] in H. lia.
Qed.

(* ---- Iter::new ---- *)
Lemma sit_new_spec : forall packed s e st, sit_new packed s e = Some st ->
  sit_contents st = sub_iter packed s e /\ sit_inv st.
Proof.
  intros packed s e st H. unfold sit_new in H. unfold sub_iter.
  destruct (s <? e) eqn:Ese.
  - destruct ((e + 1) / 2 <=? lenN packed) eqn:Ej; [|discriminate H].
    remember (sliceN (s / 2) ((e + 1) / 2 - s / 2) packed) as w eqn:Ew. clear Ew.
    destruct (e mod 2 =? 0) eqn:Ee.
    + cbn [fst snd] in H |- *. destruct (s mod 2 =? 0) eqn:Es.
      * cbn [fst snd] in H |- *. injection H as Hst. subst st. unfold sit_contents, sit_inv. cbn. split; [reflexivity|lia].
      * destruct w as [|n r]; cbn [fst snd] in H |- *; injection H as Hst; subst st; unfold sit_contents, sit_inv; cbn; (split; [reflexivity|lia]).
    + destruct (split_last w) as [[a n]|] eqn:Esl.
      * cbn [fst snd] in H |- *. destruct (s mod 2 =? 0) eqn:Es.
        -- cbn [fst snd] in H |- *. injection H as Hst. subst st. unfold sit_contents, sit_inv. cbn. split; [reflexivity|lia].
        -- destruct a as [|m r]; cbn [fst snd] in H |- *; injection H as Hst; subst st; unfold sit_contents, sit_inv; cbn; (split; [reflexivity|lia]).
      * cbn [fst snd] in H |- *. destruct (s mod 2 =? 0) eqn:Es.
        -- cbn [fst snd] in H |- *. injection H as Hst. subst st. unfold sit_contents, sit_inv. cbn. split; [reflexivity|lia].
        -- destruct w as [|m r]; cbn [fst snd] in H |- *; injection H as Hst; subst st; unfold sit_contents, sit_inv; cbn; (split; [reflexivity|lia]).
  - destruct (e mod 2 =? 0) eqn:Ee; destruct (s mod 2 =? 0) eqn:Es; cbn in H |- *;
      injection H as Hst; subst st; unfold sit_contents, sit_inv; cbn; (split; [reflexivity|lia]).
Qed.

(* Iter::new panics exactly when the byte window of a non-empty range runs past the buffer *)
Lemma sit_new_panic_iff : forall packed s e,
  sit_new packed s e = None <-> (s < e /\ lenN packed < (e + 1) / 2).
Proof.
  intros packed s e. unfold sit_new. destruct (s <? e) eqn:Ese.
  - destruct ((e + 1) / 2 <=? lenN packed) eqn:Ej.
    + split; [intros H; discriminate H|intros [_ H]; lia].
    + split; [intros _; lia|reflexivity].
  - split; [intros H; discriminate H|intros [H _]; lia].
Qed.

Ltac fin := cbn [opt_bytes lenN] in *; repeat split; lia.

(* ---- one call ---- *)
Lemma sit_next_spec : forall st, sit_inv st ->
  fst (sit_next st) = fst (pop_front (sit_contents st)) /\
  sit_contents (snd (sit_next st)) = snd (pop_front (sit_contents st)) /\
  sit_inv (snd (sit_next st)).
Proof.
  intros [it f b] [Hf Hb]. cbn [si_front si_back] in Hf, Hb. unfold sit_next, sit_contents, sit_inv. cbn [si_iter si_front si_back].
  destruct f as [[|x f]|]; cbn [arr_next opt_bytes app].
  3:{ destruct it as [|n r].
      - cbn [unpack_bases app]. destruct b as [[|y b]|]; cbn [arr_next opt_bytes fst snd pop_front si_iter si_front si_back unpack_bases app lenN].
        + fin.
        + fin.
        + fin.
      - cbn [decoded arr_next fst snd si_iter si_front si_back opt_bytes]. rewrite unpack_cons. cbn [app pop_front fst snd lenN].
        fin. }
  - destruct it as [|n r].
    + cbn [unpack_bases app]. destruct b as [[|y b]|]; cbn [arr_next opt_bytes fst snd pop_front si_iter si_front si_back unpack_bases app lenN].
      * fin.
      * fin.
      * fin.
    + cbn [decoded arr_next fst snd si_iter si_front si_back opt_bytes]. rewrite unpack_cons. cbn [app pop_front fst snd lenN].
      fin.
  - cbn [fst snd pop_front si_iter si_front si_back opt_bytes]. fin.
Qed.

Lemma pop_back_snoc : forall l x, pop_back (l ++ [x]) = (Some x, l).
Proof. intros l x. unfold pop_back. rewrite split_last_snoc. reflexivity. Qed.

Lemma sit_next_back_spec : forall st, sit_inv st ->
  fst (sit_next_back st) = fst (pop_back (sit_contents st)) /\
  sit_contents (snd (sit_next_back st)) = snd (pop_back (sit_contents st)) /\
  sit_inv (snd (sit_next_back st)).
Proof.
  intros [it f b] [Hf Hb]. cbn [si_front si_back] in Hf, Hb. unfold sit_next_back, sit_contents, sit_inv. cbn [si_iter si_front si_back].
  assert (Hb' : arr_next_back b = None \/ exists x, b = Some [x]).
  { destruct b as [l|]; [|left; reflexivity]. cbn [opt_bytes] in Hb. destruct (lenN_le1 l Hb) as [Hl|[x Hl]]; subst l.
    - left. reflexivity.
    - right. exists x. reflexivity. }
  destruct Hb' as [Hnb|[x Hx]].
  2:{ subst b. cbn [arr_next_back split_last fst snd si_iter si_front si_back opt_bytes].
      rewrite !app_assoc. rewrite pop_back_snoc. cbn [fst snd]. rewrite app_nil_r. cbn [lenN]. repeat split; lia. }
  assert (Hob : opt_bytes b = []).
  { destruct b as [l|]; [|reflexivity]. cbn [opt_bytes] in Hb |- *. destruct (lenN_le1 l Hb) as [Hl|[x Hl]]; subst l; [reflexivity|].
    cbn in Hnb. discriminate Hnb. }
  rewrite Hnb. rewrite Hob. rewrite !app_nil_r.
  destruct (split_last it) as [[r n]|] eqn:Esl.
  - apply split_last_inv in Esl. subst it.
    cbn [decoded arr_next_back split_last fst snd si_iter si_front si_back opt_bytes].
    rewrite unpack_snoc.
    replace (opt_bytes f ++ unpack_bases r ++ [hi_base n; lo_base n])
      with ((opt_bytes f ++ unpack_bases r ++ [hi_base n]) ++ [lo_base n])
      by (rewrite <- !app_assoc; reflexivity).
    rewrite pop_back_snoc. cbn [fst snd lenN]. repeat split; lia.
  - apply split_last_none in Esl. subst it. cbn [unpack_bases]. rewrite app_nil_r.
    destruct f as [l|].
    + cbn [opt_bytes] in Hf |- *. destruct (lenN_le1 l Hf) as [Hl|[x Hl]]; subst l.
      * cbn [arr_next fst snd si_iter si_front si_back opt_bytes unpack_bases app]. rewrite Hob.
        cbn. repeat split; lia.
      * cbn [arr_next fst snd si_iter si_front si_back opt_bytes unpack_bases app]. rewrite Hob.
        cbn. repeat split; lia.
    + cbn [arr_next fst snd si_iter si_front si_back opt_bytes unpack_bases app]. rewrite Hob.
      cbn. repeat split; lia.
Qed.

Lemma sit_size_hint_exact : forall st, sit_size_hint st = lenN (sit_contents st).
Proof.
  intros st. unfold sit_size_hint, sit_contents. rewrite !lenN_app. rewrite lenN_unpack2. lia.
Qed.

(* ---- every schedule ---- *)
Theorem sit_run_is_deque : forall sched st, sit_inv st ->
  sit_run sched st = deque_run sched (sit_contents st).
Proof.
  induction sched as [|b r IH]; intros st Hinv; [reflexivity|].
  cbn [sit_run deque_run]. destruct b.
  - destruct (sit_next_back_spec st Hinv) as [H1 [H2 H3]].
    rewrite sit_size_hint_exact. rewrite H1, H2. f_equal. rewrite (IH _ H3). rewrite H2. reflexivity.
  - destruct (sit_next_spec st Hinv) as [H1 [H2 H3]].
    rewrite sit_size_hint_exact. rewrite H1, H2. f_equal. rewrite (IH _ H3). rewrite H2. reflexivity.
Qed.

(* the window [start, end) of the unpacked bases *)
Definition window (packed : bytes) (s e : N) : bytes := firstnN (e - s) (skipN s (unpack_bases packed)).

Theorem seq_iter_any_schedule : forall packed s e sched, s <= e -> e <= 2 * lenN packed ->
  seq_iter_run packed s e sched =
    Some (e - s, deque_run sched (window packed s e)).
Proof.
  intros packed s e sched Hse He. unfold seq_iter_run.
  destruct (sit_new packed s e) as [st|] eqn:En.
  - destruct (sit_new_spec _ _ _ _ En) as [Hc Hi].
    rewrite (subsequence_iter_exact packed s e Hse He) in Hc. fold (window packed s e) in Hc.
    rewrite sit_size_hint_exact. rewrite (sit_run_is_deque sched st Hi). rewrite Hc.
    f_equal. f_equal. unfold window. rewrite lenN_firstnN by (rewrite lenN_skipN, lenN_unpack2; lia). reflexivity.
  - apply sit_new_panic_iff in En. lia.
Qed.

(* all-next_back = the reversed window; all-next = the window *)
Lemma deque_run_all_back : forall l,
  map fst (deque_run (repeat true (length l)) l) = map Some (rev l).
Proof.
  intros l. remember (length l) as k eqn:Ek. revert l Ek.
  induction k as [|k IH]; intros l Ek.
  - destruct l; [reflexivity|discriminate Ek].
  - destruct (split_last l) as [[a x]|] eqn:Esl.
    + pose proof (split_last_inv _ _ _ Esl) as Hl. subst l. rewrite rev_unit.
      cbn [repeat deque_run map]. unfold pop_back. rewrite Esl. cbn [fst snd]. f_equal.
      apply IH. rewrite app_length in Ek. cbn [length] in Ek. lia.
    + apply split_last_none in Esl. subst l. discriminate Ek.
Qed.

Lemma deque_run_all_front : forall l,
  map fst (deque_run (repeat false (length l)) l) = map Some l.
Proof.
  induction l as [|x l IH]; [reflexivity|].
  cbn [length repeat deque_run map pop_front fst snd]. f_equal. exact IH.
Qed.

Lemma skipN_firstnN_comm : forall l s L, s <= L -> skipN s (firstnN L l) = firstnN (L - s) (skipN s l).
Proof.
  induction l as [|x l IH]; intros s L H.
  - cbn [firstnN]. destruct (L =? 0); rewrite !skipN_nil; cbn [firstnN]; destruct (L - s =? 0); reflexivity.
  - destruct (s =? 0) eqn:Es.
    + assert (s = 0) by lia. subst s. rewrite !skipN_0. replace (L - 0) with L by lia. reflexivity.
    + cbn [firstnN]. destruct (L =? 0) eqn:EL; [lia|]. rewrite !skipN_cons by lia.
      replace (L - s) with (L - 1 - (s - 1)) by lia. apply IH. lia.
Qed.

Lemma firstnN_firstnN_le : forall l a L, a <= L -> firstnN a (firstnN L l) = firstnN a l.
Proof.
  induction l as [|x l IH]; intros a L H.
  - cbn [firstnN]. destruct (L =? 0); cbn [firstnN]; destruct (a =? 0); reflexivity.
  - cbn [firstnN]. destruct (a =? 0) eqn:Ea.
    + destruct (L =? 0); cbn [firstnN]; rewrite ?Ea; reflexivity.
    + destruct (L =? 0) eqn:EL; [lia|]. cbn [firstnN]. rewrite Ea. f_equal. apply IH. lia.
Qed.

(* ---- the lazy record: sequence().iter() and both halves of split_at_checked(mid) ---- *)
Theorem lazy_sequence_iter_any_schedule : forall bs, validate bs = Ok tt ->
  (forall sched, seq_iter_run (lz_seq_raw bs) 0 (lz_lseq bs) sched =
                 Some (lz_lseq bs, deque_run sched (lz_seq bs))) /\
  (forall mid sched, mid <= lz_lseq bs ->
     seq_iter_run (lz_seq_raw bs) 0 mid sched = Some (mid, deque_run sched (firstnN mid (lz_seq bs))) /\
     seq_iter_run (lz_seq_raw bs) mid (lz_lseq bs) sched =
       Some (lz_lseq bs - mid, deque_run sched (skipN mid (lz_seq bs)))).
Proof.
  intros bs Hv. pose proof (validate_ok bs Hv) as H.
  assert (Hl : lenN (lz_seq_raw bs) = (lz_lseq bs + 1) / 2) by (unfold lz_seq_raw; apply lenN_sliceN; lia).
  split.
  - intros sched. rewrite seq_iter_any_schedule by lia. unfold window, lz_seq. rewrite skipN_0.
    replace (lz_lseq bs - 0) with (lz_lseq bs) by lia. reflexivity.
  - intros mid sched Hm. split.
    + rewrite seq_iter_any_schedule by lia. unfold window, lz_seq. rewrite skipN_0.
      replace (mid - 0) with mid by lia. rewrite firstnN_firstnN_le by lia. reflexivity.
    + rewrite seq_iter_any_schedule by lia. unfold window, lz_seq. rewrite skipN_firstnN_comm by lia. reflexivity.
Qed.
