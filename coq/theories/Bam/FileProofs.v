(* C05 file level proofs: the written uncompressed BAM stream (header block + framed records) is
   read back as the header, the normalised records in order and a clean EOF; the same through the
   BGZF writer/reader of C01 (level-0 codec: no hypothesis left; any codec: C01's two premises). *)
From Coq Require Import List NArith ZArith Bool Lia ZifyBool ZifyNat ZifyN.
From NV Require Import Bam.Record Bam.Encode Bam.Decode Bam.CodecProofs Bam.AuxProofs Bam.File.
From NV Require Sam.Header Sam.HeaderProofs Sam.BamHeader Sam.BamHeaderProofs.
Import ListNotations.
Open Scope N_scope.

(* the type invariants of one RecordBuf (see props/C05.v) *)
Definition rec_ok (r : record) : Prop :=
  wf r /\ wf_data (r_data r) /\ NoDup (map fst (r_data r)).

Lemma takeN_split : forall l n a c, takeN n l = Some (a, c) -> l = a ++ c.
Proof.
  induction l as [|x l IH]; intros n a c H; cbn [takeN] in H.
  - destruct (n =? 0); [|discriminate H]. injection H as H1 H2. subst a c. reflexivity.
  - destruct (n =? 0).
    + injection H as H1 H2. subst a c. reflexivity.
    + destruct (takeN (n - 1) l) as [[a' c']|] eqn:E; [|discriminate H].
      injection H as H1 H2. subst a c. cbn [app]. f_equal. exact (IH _ _ _ E).
Qed.

Lemma rdW_len : forall w l v r, rdW w l = Some (v, r) -> (length l = w + length r)%nat.
Proof.
  induction w as [|w IH]; intros l v r H; cbn [rdW] in H.
  - injection H as _ H. subst r. reflexivity.
  - destruct l as [|x l]; [discriminate H|].
    destruct (rdW w l) as [[v' r']|] eqn:E; [|discriminate H].
    injection H as _ H. subst r'. cbn [length]. rewrite (IH _ _ _ E). lia.
Qed.

Lemma validate_len : forall body, validate body = Ok tt -> 32 <= lenN body.
Proof.
  intros body H. unfold validate in H. destruct (lenN body <? 32) eqn:E; [discriminate H|lia].
Qed.

(* ---- one record *)
Definition step_body (bs : bytes) : res (option (record * bytes)) :=
  match rdW 4 bs with
  | None => Err UnexpectedEof
  | Some (n, rest) =>
      if n =? 0 then Ok None
      else match takeN n rest with
           | None => Err UnexpectedEof
           | Some (body, rest') =>
               let* _ := validate body in
               match decode_body body with
               | Ok r => Ok (Some (r, rest'))
               | Err _ => Err InvalidData
               end
           end
  end.

Lemma step_nonempty : forall bs, bs <> [] -> read_record_step bs = step_body bs.
Proof. intros [|x t] H; [congruence|reflexivity]. Qed.

Lemma step_body_framed : forall bs n rest body rest',
  rdW 4 bs = Some (n, rest) -> n <> 0 -> takeN n rest = Some (body, rest') ->
  step_body bs = (let* _ := validate body in
                  match decode_body body with Ok r => Ok (Some (r, rest')) | Err _ => Err InvalidData end).
Proof.
  intros bs n rest body rest' H1 H2 H3. unfold step_body. rewrite H1.
  destruct (n =? 0) eqn:E; [lia|]. rewrite H3. reflexivity.
Qed.

Lemma framed_nonempty : forall n (a b : bytes), (leW 4 n ++ a) ++ b <> [].
Proof. intros n a b. cbn [leW app]. discriminate. Qed.
Lemma step_written : forall nref r block rest,
  rec_ok r -> encode nref r = Ok block ->
  read_record_step (block ++ rest) = Ok (Some (norm r, rest)) /\ (36 <= length block)%nat.
Proof.
  intros nref r block rest (Hwf & Hwd & Hnd) H. unfold encode in H. bind_ok H body Eb.
  destruct (lenN body <? 4294967296) eqn:El; [|discriminate H].
  assert (Hblock : block = leW 4 (lenN body) ++ body) by (injection H as H; rewrite <- H; reflexivity).
  clear H. subst block.
  destruct (body_roundtrip _ _ _ Hwf Hwd (NoDup_map_filter _ _ Hnd) Eb) as [Hdec Hval].
  pose proof (validate_len body Hval) as H32.
  split.
  - rewrite step_nonempty by apply framed_nonempty.
    rewrite (step_body_framed _ (lenN body) (body ++ rest) body rest).
    + rewrite Hval. cbn [bindr]. rewrite Hdec. reflexivity.
    + rewrite <- app_assoc. apply rdW_leW. rewrite pow256_4. lia.
    + lia.
    + apply takeN_app.
  - rewrite app_length. pose proof (leW_length 4 (lenN body)) as HL.
    rewrite !lenN_length in *. lia.
Qed.

(* ---- the record part of the stream *)
Lemma records_written : forall nref rs rb,
  Forall rec_ok rs -> write_records nref rs = Ok rb ->
  (36 * length rs <= length rb)%nat /\
  forall fuel, (length rs < fuel)%nat -> read_records fuel rb = (map norm rs, EndEof).
Proof.
  intros nref rs. induction rs as [|r rs IH]; intros rb Hok H; cbn [write_records] in H.
  - injection H as H. subst rb. split; [cbn [length]; lia|].
    intros fuel Hf. destruct fuel as [|f]; [cbn [length] in Hf; lia|]. reflexivity.
  - bind_ok H b Eb. bind_ok H bs Ebs. injection H as H. subst rb.
    inversion Hok as [|? ? Hr Hrs]; subst.
    destruct (IH bs Hrs eq_refl) as [HL HR].
    destruct (step_written nref r b bs Hr Eb) as [Hstep Hb].
    split; [rewrite app_length; cbn [length]; lia|].
    intros fuel Hf. destruct fuel as [|f]; [lia|].
    cbn [read_records]. rewrite Hstep. rewrite (HR f) by (cbn [length] in Hf; lia). reflexivity.
Qed.

(* ---- the whole uncompressed stream *)
Theorem file_roundtrip : forall h rs bs,
  Sam.HeaderProofs.wf_header h -> Forall rec_ok rs ->
  write_file h rs = Ok bs ->
  read_file bs = Ok (h, (map norm rs, EndEof)).
Proof.
  intros h rs bs Hh Hrs H. unfold write_file in H.
  destruct (Sam.BamHeader.write_bam_header h) as [hb|] eqn:Eh; [|discriminate H].
  bind_ok H rb Erb. injection H as H. subst bs.
  unfold read_file. rewrite (Sam.BamHeaderProofs.bam_header_roundtrip h hb rb Hh Eh).
  destruct (records_written _ rs rb Hrs Erb) as [HL HR].
  rewrite HR by lia. reflexivity.
Qed.

(* what the writer rejects: exactly the first record its encoder rejects (nothing is truncated or
   skipped to make a file) *)
Lemma write_records_err : forall nref rs e,
  write_records nref rs = Err e ->
  exists pre r post, rs = pre ++ r :: post /\ encode nref r = Err e /\
                     exists bs, write_records nref pre = Ok bs.
Proof.
  intros nref rs. induction rs as [|r rs IH]; intros e H; cbn [write_records] in H; [discriminate H|].
  destruct (encode nref r) as [b|e'] eqn:Eb; cbn [bindr] in H.
  - destruct (write_records nref rs) as [bs|e''] eqn:Ers; cbn [bindr] in H; [discriminate H|].
    injection H as H. subst e''. destruct (IH e eq_refl) as (pre & r' & post & E1 & E2 & bs & E3).
    exists (r :: pre), r', post. split; [rewrite E1; reflexivity|]. split; [exact E2|].
    exists (b ++ bs). cbn [write_records]. rewrite Eb, E3. reflexivity.
  - injection H as H. subst e'. exists [], r, rs. split; [reflexivity|]. split; [exact Eb|].
    exists []. reflexivity.
Qed.

(* ---- the reader never runs out of the fuel read_file gives it, on any stream *)
Lemma step_consumes : forall bs r rest,
  read_record_step bs = Ok (Some (r, rest)) -> (length rest + 4 <= length bs)%nat.
Proof.
  intros bs r rest H.
  destruct bs as [|x t]; [discriminate H|]. rewrite step_nonempty in H by discriminate.
  remember (x :: t) as bs eqn:Ebs. clear Ebs x t. unfold step_body in H.
  destruct (rdW 4 bs) as [[n r0]|] eqn:E4; [|discriminate H].
  destruct (n =? 0); [discriminate H|].
  destruct (takeN n r0) as [[body rest']|] eqn:Et; [|discriminate H].
  destruct (validate body); cbn [bindr] in H; [|discriminate H].
  destruct (decode_body body); [|discriminate H]. injection H as _ H. subst rest'.
  pose proof (rdW_len _ _ _ _ E4) as H1. pose proof (takeN_split _ _ _ _ Et) as H2.
  rewrite H2 in H1. rewrite app_length in H1. lia.
Qed.

Lemma read_records_fuel : forall fuel bs,
  (length bs < fuel)%nat -> snd (read_records fuel bs) <> EndNoFuel.
Proof.
  induction fuel as [|f IH]; intros bs Hf; [lia|]. cbn [read_records].
  destruct (read_record_step bs) as [[[r rest]|]|e] eqn:E; cbn [snd]; try discriminate.
  pose proof (step_consumes _ _ _ E) as Hc.
  specialize (IH rest ltac:(lia)). destruct (read_records f rest) as [l e]. exact IH.
Qed.

Theorem read_file_fuel : forall bs h l e, read_file bs = Ok (h, (l, e)) -> e <> EndNoFuel.
Proof.
  intros bs h l e H. unfold read_file in H.
  destruct (Sam.BamHeader.read_bam_header bs) as [[h' rest]|] eqn:E; [|discriminate H].
  pose proof (read_records_fuel (S (length rest)) rest ltac:(lia)) as HF.
  remember (read_records (S (length rest)) rest) as rr eqn:Err. clear Err.
  injection H as _ H. subst rr. exact HF.
Qed.

(* ---- the lazy reader's framing (bodies only): the same stream gives the encoded bodies *)
Lemma bodies_written : forall nref rs rb,
  Forall rec_ok rs -> write_records nref rs = Ok rb ->
  exists bodies,
    Forall2 (fun r b => encode_body nref r = Ok b /\ decode_body b = Ok (norm r) /\ validate b = Ok tt) rs bodies /\
    rb = concat (map (fun b => leW 4 (lenN b) ++ b) bodies) /\
    Forall (fun b => 32 <= lenN b < 4294967296) bodies /\
    forall fuel, (length rs < fuel)%nat -> frame_bodies fuel rb = (bodies, EndEof).
Proof.
  intros nref rs. induction rs as [|r rs IH]; intros rb Hok H; cbn [write_records] in H.
  - injection H as H. subst rb. exists []. split; [constructor|]. split; [reflexivity|].
    split; [constructor|].
    intros fuel Hf. destruct fuel; [cbn [length] in Hf; lia|reflexivity].
  - bind_ok H b Eb. bind_ok H bs Ebs. injection H as H. subst rb.
    inversion Hok as [|? ? Hr Hrs]; subst.
    destruct (IH bs Hrs eq_refl) as (bodies & HF & Hcat & Hlen & HR).
    destruct Hr as (Hwf & Hwd & Hnd).
    unfold encode in Eb. bind_ok Eb body Ebody.
    destruct (lenN body <? 4294967296) eqn:El; [|discriminate Eb].
    assert (Hblock : b = leW 4 (lenN body) ++ body) by (injection Eb as Eb; rewrite <- Eb; reflexivity).
    clear Eb. subst b.
    destruct (body_roundtrip _ _ _ Hwf Hwd (NoDup_map_filter _ _ Hnd) Ebody) as [Hdec Hval].
    pose proof (validate_len body Hval) as H32.
    exists (body :: bodies). split; [constructor; [repeat split; assumption|exact HF]|].
    split; [cbn [map concat]; rewrite Hcat; reflexivity|].
    split; [constructor; [lia|exact Hlen]|].
    intros fuel Hf. destruct fuel as [|f]; [lia|]. cbn [frame_bodies].
    assert (Hne : exists x t, (leW 4 (lenN body) ++ body) ++ bs = x :: t).
    { cbn [leW app]. eexists. eexists. reflexivity. }
    destruct Hne as (x & t & Hne). rewrite Hne. rewrite <- Hne. clear x t Hne.
    rewrite <- app_assoc. rewrite rdW_leW by (rewrite pow256_4; lia).
    destruct (lenN body =? 0) eqn:E0; [lia|].
    rewrite takeN_app. rewrite Hval. rewrite (HR f) by (cbn [length] in Hf; lia). reflexivity.
Qed.
