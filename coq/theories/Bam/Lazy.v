(* C05 model of the lazy accessors of bam::RecordRef / bam::Record (record_ref.rs, record/cigar.rs,
   record/data.rs::get_raw_cigar, record/data/field/ files) WITH their panics: a Rust slice index
   `&rest[a..b]` out of range and the `unreachable!()` of Cigar::iter are the result [None]
   (the theorems show that neither happens on a validated body).
   The values are the [lz_] slices of Bam/Decode.v.  Definitions only. *)
From Coq Require Import List NArith ZArith Bool.
From NV Require Import Bam.Record Bam.Encode Bam.Decode.
Import ListNotations.
Open Scope N_scope.

(* RecordRef::new: at least the 32-byte head, otherwise no view at all *)
Definition has_head (bs : bytes) : bool := 32 <=? lenN bs.

(* &self.rest[off-32 .. off-32+len], offsets counted from the start of the record *)
Definition lzp_slice (off len : N) (bs : bytes) : option bytes :=
  if off + len <=? lenN bs then Some (sliceN off len bs) else None.

(* &self.rest[off-32 ..] *)
Definition lzp_from (off : N) (bs : bytes) : option bytes :=
  if off <=? lenN bs then Some (skipN off bs) else None.

(* name(): "*\0" is missing; strip_suffix NUL, unwrap_or the whole buffer *)
Definition name_of_raw (buf : bytes) : option bytes :=
  if list_eqb buf [42; 0] then None
  else match split_last buf with
       | Some (s, t) => if t =? 0 then Some s else Some buf
       | None => Some buf
       end.

Definition lzp_name (bs : bytes) : option (option bytes) :=
  option_map name_of_raw (lzp_slice 32 (lz_lname bs) bs).

Definition lzp_cigar_raw (bs : bytes) : option bytes :=
  lzp_slice (32 + lz_lname bs) (4 * lz_nops bs) bs.

Definition lzp_seq (bs : bytes) : option bytes :=
  option_map (fun raw => firstnN (lz_lseq bs) (unpack_bases raw))
    (lzp_slice (32 + lz_lname bs + 4 * lz_nops bs) ((lz_lseq bs + 1) / 2) bs).

Definition lzp_qual (bs : bytes) : option bytes :=
  option_map dec_qual
    (lzp_slice (32 + lz_lname bs + 4 * lz_nops bs + (lz_lseq bs + 1) / 2) (lz_lseq bs) bs).

Definition lzp_data_raw (bs : bytes) : option bytes :=
  lzp_from (32 + lz_lname bs + 4 * lz_nops bs + (lz_lseq bs + 1) / 2 + lz_lseq bs) bs.

(* record/cigar.rs::Cigar::iter collected into io::Result<Vec<Op>>: as_chunks::<4>() with a
   non-empty remainder is `unreachable!()` (None); every whole chunk goes through decode_op *)
Fixpoint chunk_ops (bs : bytes) : res (list (N * N)) :=
  match bs with
  | b0 :: b1 :: b2 :: b3 :: r =>
      let* op := dec_op (b0 + 256 * (b1 + 256 * (b2 + 256 * b3))) in
      let* ops := chunk_ops r in
      Ok (op :: ops)
  | _ => Ok []
  end.

Definition cigar_iter (buf : bytes) : option (res (list (N * N))) :=
  if lenN buf mod 4 =? 0 then Some (chunk_ops buf) else None.

(* record/data.rs::get_raw_cigar (as repaired in /repo 3808bd7): walk the raw data fields with the
   lazy field decoders (record/data/field/{tag,ty,value,value/array}.rs); the first field with tag
   CG and type B yields its raw element bytes if its subtype is I, and is an error otherwise.
   [None] = Ok(None) or Err (both make cigar() fall back to the stored operations). *)
Fixpoint raw_cigar (fuel : nat) (bs : bytes) : option bytes :=
  match fuel with
  | O => None
  | S f =>
    match bs with
    | t0 :: t1 :: ty :: r1 =>
        if ty =? tyB then
          match r1 with
          | [] => None
          | sub :: r2 =>
            match sub_width sub with
            | None => None
            | Some (w, _) =>
              match rdW 4 r2 with
              | None => None
              | Some (cnt, r3) =>
                match takeN (cnt * N.of_nat w) r3 with
                | None => None
                | Some (buf, r4) =>
                    if tag_eqb (t0, t1) CG then (if sub =? tyI then Some buf else None)
                    else raw_cigar f r4
                end
              end
            end
          end
        else match num_width ty with
             | Some (w, _) =>
                 match rdW w r1 with Some (_, r2) => raw_cigar f r2 | None => None end
             | None =>
                 if (ty =? tyZ) || (ty =? tyH) then
                   match split_nul r1 with Some (_, r2) => raw_cigar f r2 | None => None end
                 else None
             end
    | _ => None
    end
  end.

(* record_ref.rs::cigar() followed by Cigar::iter().collect() *)
Definition word (bs : bytes) : N := match rdW 4 bs with Some (n, _) => n | None => 0 end.

Definition is_placeholder (bs : bytes) (src : bytes) : bool :=
  (lenN src =? 8) &&
  (word src mod 16 =? 4) && (word src / 16 =? lz_lseq bs) && (word (skipN 4 src) mod 16 =? 3).

Definition lzp_cigar (bs : bytes) : option (res (list (N * N))) :=
  match lzp_cigar_raw bs with
  | None => None
  | Some src =>
      if is_placeholder bs src then
        match lzp_data_raw bs with
        | None => None
        | Some data =>
            match raw_cigar (length data) data with
            | Some buf => cigar_iter buf
            | None => cigar_iter src
            end
        end
      else cigar_iter src
  end.

(* ---- record/sequence.rs: Sequence::len and Sequence::get(i) (src[i / 2] is a slice index) ---- *)
Fixpoint nthN (n : N) (l : bytes) : option N :=
  match l with
  | [] => None
  | x :: r => if n =? 0 then Some x else nthN (n - 1) r
  end.

Definition lzp_seq_len (bs : bytes) : option N :=
  option_map (fun _ => lz_lseq bs)
    (lzp_slice (32 + lz_lname bs + 4 * lz_nops bs) ((lz_lseq bs + 1) / 2) bs).

Definition lzp_seq_get (bs : bytes) (i : N) : option (option N) :=
  match lzp_slice (32 + lz_lname bs + 4 * lz_nops bs) ((lz_lseq bs + 1) / 2) bs with
  | None => None
  | Some raw =>
      if i <? lz_lseq bs then
        match nthN (i / 2) raw with
        | Some b => Some (Some (if i mod 2 =? 0 then hi_base b else lo_base b))
        | None => None
        end
      else Some None
  end.

(* ---- record/data/field/value.rs::decode_value and value/array.rs of the LAZY data view: scalars
   and strings are read as in the eager decoder; an array first takes its cnt * width raw bytes
   (decode_raw_array), its Values then decode that buffer element by element ---- *)
Definition lz_value (ty : N) (bs : bytes) : res (value * bytes) :=
  if ty =? tyB then
    match bs with
    | [] => bad
    | sub :: r =>
      match sub_width sub with
      | None => bad
      | Some (w, sg) =>
        match rdW 4 r with
        | None => bad
        | Some (cnt, r1) =>
          match takeN (cnt * N.of_nat w) r1 with
          | None => bad
          | Some (buf, r2) =>
              let* (vs, _) := dec_elems (length buf) w sg cnt buf in Ok (VArr sub vs, r2)
          end
        end
      end
    end
  else match num_width ty with
       | Some (w, sg) => let* (v, r) := dec_num w sg bs in Ok (VNum ty v, r)
       | None =>
           if (ty =? tyZ) || (ty =? tyH) then
             match split_nul bs with Some (s, r) => Ok (VStr ty s, r) | None => bad end
           else bad
       end.

(* record/data.rs::Data::iter: the fields yielded before the first error, and whether an error
   was yielded (no duplicate check, no CG removal) *)
Fixpoint lz_fields (fuel : nat) (bs : bytes) : list (tag * value) * bool :=
  match bs with
  | [] => ([], false)
  | _ =>
    match fuel with
    | O => ([], true)
    | S f =>
      match bs with
      | t0 :: t1 :: ty :: r =>
          match lz_value ty r with
          | Ok (v, r') => let (fs, e) := lz_fields f r' in (((t0, t1), v) :: fs, e)
          | Err _ => ([], true)
          end
      | _ => ([], true)
      end
    end
  end.

(* ---- BEHAVIOUR SWITCH: which of the two the tree under /repo currently is; the ONLY line to
   change when the repair of the recorded finding lazy-data-retains-cg-after-resolve is committed.
     false: bam::Record::data() lists every field of the raw data block, also the CG:B,I field that
            cigar() resolved the CIGAR from (the eager decoder removes it: decoder/cigar.rs::resolve);
     true:  when cigar() took the CG branch, Data::iter()/get() skip the CG field (the repair
            proposed in the known-finding entry; if the committed repair has another shape, e.g.
            strips the field in raw_data(), only [lzp_data_sw]'s [sw] branch has to follow it). ---- *)
Definition cg_repaired : bool := true.

(* record_ref.rs::cigar() took the CG branch: the stored operations are the kSmN placeholder and
   get_raw_cigar found a CG:B,I array *)
Definition cg_branch (bs : bytes) : bool :=
  match lzp_cigar_raw bs, lzp_data_raw bs with
  | Some src, Some data =>
      is_placeholder bs src && (match raw_cigar (length data) data with Some _ => true | None => false end)
  | _, _ => false
  end.

Definition not_cg (p : tag * value) : bool := negb (tag_eqb (fst p) CG).

Definition lzp_data_sw (sw : bool) (bs : bytes) : option (list (tag * value) * bool) :=
  option_map (fun raw => let (fs, e) := lz_fields (length raw) raw in
                         if sw && cg_branch bs then (filter not_cg fs, e) else (fs, e))
             (lzp_data_raw bs).

Definition lzp_data (bs : bytes) : option (list (tag * value) * bool) := lzp_data_sw cg_repaired bs.

(* ---- record/cigar.rs::Cigar::len / is_empty of cigar(): buffer length / 4 (no panic of their own;
   cigar() itself slices) ---- *)
Definition lzp_cigar_buf (bs : bytes) : option bytes :=
  match lzp_cigar_raw bs with
  | None => None
  | Some src =>
      if is_placeholder bs src then
        match lzp_data_raw bs with
        | None => None
        | Some data => match raw_cigar (length data) data with Some buf => Some buf | None => Some src end
        end
      else Some src
  end.

Definition lzp_cigar_len (bs : bytes) : option (N * bool) :=
  option_map (fun buf => (lenN buf / 4, lenN buf =? 0)) (lzp_cigar_buf bs).

(* ---- sam RecordBuf::try_from_alignment_record(header, &lazy record) (record_buf/convert.rs): the
   accessors in the order the conversion calls them; None = a panic, Err = the first error (all
   io::ErrorKind::InvalidData except those of the lazy data fields, whose kind is not modelled);
   Data::insert replaces the value of a tag already present, in place ---- *)
Fixpoint insert_field (d : list (tag * value)) (t : tag) (v : value) : list (tag * value) :=
  match d with
  | [] => [(t, v)]
  | (t', v') :: r => if tag_eqb t' t then (t', v) :: r else (t', v') :: insert_field r t v
  end.

Definition insert_all (fs : list (tag * value)) : list (tag * value) :=
  fold_left (fun d p => insert_field d (fst p) (snd p)) fs [].

Definition lazy_convert_sw (sw : bool) (bs : bytes) : option (res record) :=
  match lzp_name bs with
  | None => None
  | Some name =>
    match lz_rid bs with Err e => Some (Err e) | Ok rid =>
    match lz_pos bs with Err e => Some (Err e) | Ok pos =>
    match lzp_cigar bs with
    | None => None
    | Some (Err e) => Some (Err e)
    | Some (Ok cig) =>
      match lz_mrid bs with Err e => Some (Err e) | Ok mrid =>
      match lz_mpos bs with Err e => Some (Err e) | Ok mpos =>
      match lzp_seq bs with
      | None => None
      | Some sq =>
        match lzp_qual bs with
        | None => None
        | Some ql =>
          match lzp_data_sw sw bs with
          | None => None
          | Some (fs, e) =>
              if e then Some bad
              else Some (Ok (mkRecord name (lz_flags bs) rid pos (lz_mapq bs) cig mrid mpos (lz_tlen bs)
                                      sq ql (insert_all fs)))
          end
        end
      end end end
    end end end
  end.

Definition lazy_convert (bs : bytes) : option (res record) := lazy_convert_sw cg_repaired bs.

(* Data::get(tag): the first field with that tag, or the first error met before it *)
Definition data_get (fs : list (tag * value) * bool) (t : tag) : option (res value) :=
  match find_tag t (fst fs) with
  | Some v => Some (Ok v)
  | None => if snd fs then Some bad else None
  end.

(* the head fields never panic once the view exists *)
Record lazy_view := mkLazy {
  v_name : option (option bytes);
  v_flags : N;
  v_rid : res (option N);
  v_pos : res (option N);
  v_mapq : option N;
  v_mrid : res (option N);
  v_mpos : res (option N);
  v_tlen : Z;
  v_cigar : option (res (list (N * N)));
  v_seq : option bytes;
  v_qual : option bytes;
  v_data_raw : option bytes
}.

(* RecordRef::new(body) and every accessor; None = RecordRef::new returned None *)
Definition lazy_view_of (bs : bytes) : option lazy_view :=
  if has_head bs then
    Some (mkLazy (lzp_name bs) (lz_flags bs) (lz_rid bs) (lz_pos bs) (lz_mapq bs) (lz_mrid bs)
                 (lz_mpos bs) (lz_tlen bs) (lzp_cigar bs) (lzp_seq bs) (lzp_qual bs) (lzp_data_raw bs))
  else None.
