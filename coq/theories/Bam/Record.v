(* C05 data model: the SAM/BAM alignment record as held by sam::alignment::RecordBuf, byte
   strings as [list N], results with the io::ErrorKind classes the BAM codec produces, and
   little-endian fixed-width helpers (leW w = to_le_bytes of a w-byte unsigned integer,
   rdW w = split_first_chunk + from_le_bytes).  Definitions only. *)
From Coq Require Import List NArith ZArith.
Import ListNotations.
Open Scope N_scope.

Definition bytes := list N.

Inductive err := InvalidInput | InvalidData | UnexpectedEof.
Inductive res (A : Type) : Type := Ok (a : A) | Err (e : err).
Arguments Ok {A} a.
Arguments Err {A} e.

Definition bindr {A B : Type} (r : res A) (f : A -> res B) : res B :=
  match r with Ok a => f a | Err e => Err e end.
Notation "'let*' x ':=' r 'in' k" := (bindr r (fun x => k))
  (at level 200, x pattern, r at level 100, k at level 200, right associativity).

(* auxiliary field value.  The type is the BAM type character code; numbers are mathematical
   integers (floats: their IEEE bit pattern); the Rust enum's variants are recovered from the
   code.  vnum: A c C s S i I f ; vstr: Z H ; varr: B with subtype c C s S i I f *)
Inductive value :=
| VNum (ty : N) (v : Z)
| VStr (ty : N) (s : bytes)
| VArr (sub : N) (vs : list Z).

Definition tag := (N * N)%type.

Record record := mkRecord {
  r_name : option bytes;
  r_flags : N;
  r_rid : option N;
  r_pos : option N;            (* 1-based, noodles_core::Position *)
  r_mapq : option N;
  r_cigar : list (N * N);      (* (kind code 0..8, length) *)
  r_mrid : option N;
  r_mpos : option N;
  r_tlen : Z;
  r_seq : bytes;
  r_qual : bytes;
  r_data : list (tag * value)
}.

(* ---- little endian ---- *)
Fixpoint leW (w : nat) (n : N) : bytes :=
  match w with O => [] | S w' => (n mod 256) :: leW w' (n / 256) end.

Fixpoint rdW (w : nat) (bs : bytes) : option (N * bytes) :=
  match w with
  | O => Some (0, bs)
  | S w' => match bs with
            | [] => None
            | b :: r => match rdW w' r with
                        | Some (v, r') => Some (b + 256 * v, r')
                        | None => None
                        end
            end
  end.

Definition pow256 (w : nat) : N := 256 ^ N.of_nat w.

(* two's complement of width w bytes *)
Definition to_unsigned (w : nat) (z : Z) : N := Z.to_N (z mod Z.of_N (pow256 w)).
Definition to_signed (w : nat) (n : N) : Z :=
  if n <? pow256 w / 2 then Z.of_N n else (Z.of_N n - Z.of_N (pow256 w))%Z.

(* split off the first n elements, n a binary number (never converted to unary) *)
Fixpoint takeN (n : N) (bs : bytes) : option (bytes * bytes) :=
  if n =? 0 then Some ([], bs)
  else match bs with
       | [] => None
       | b :: r => match takeN (n - 1) r with
                   | Some (a, c) => Some (b :: a, c)
                   | None => None
                   end
       end.

Fixpoint firstnN (n : N) (bs : bytes) : bytes :=
  if n =? 0 then []
  else match bs with [] => [] | b :: r => b :: firstnN (n - 1) r end.

Fixpoint lenN {A : Type} (l : list A) : N :=
  match l with [] => 0 | _ :: r => 1 + lenN r end.

Fixpoint repeatN (x : N) (fuel : bytes) : bytes :=
  match fuel with [] => [] | _ :: r => x :: repeatN x r end.

Definition tag_eqb (a b : tag) : bool := (fst a =? fst b) && (snd a =? snd b).
Definition CG : tag := (67, 71).

(* type codes *)
Definition tyA := 65. Definition tyc := 99. Definition tyC := 67. Definition tys := 115.
Definition tyS := 83. Definition tyi := 105. Definition tyI := 73. Definition tyf := 102.
Definition tyZ := 90. Definition tyH := 72. Definition tyB := 66.

(* width in bytes and signedness of a numeric type code; None = not a numeric type *)
Definition num_width (ty : N) : option (nat * bool) :=
  if ty =? tyA then Some (1%nat, false) else
  if ty =? tyc then Some (1%nat, true) else
  if ty =? tyC then Some (1%nat, false) else
  if ty =? tys then Some (2%nat, true) else
  if ty =? tyS then Some (2%nat, false) else
  if ty =? tyi then Some (4%nat, true) else
  if ty =? tyI then Some (4%nat, false) else
  if ty =? tyf then Some (4%nat, false) else None.

(* array subtypes: the same codes without A *)
Definition sub_width (ty : N) : option (nat * bool) :=
  if ty =? tyA then None else num_width ty.

(* CIGAR kinds *)
Definition consumes_read (k : N) : bool :=
  (k =? 0) || (k =? 1) || (k =? 4) || (k =? 7) || (k =? 8).
Definition consumes_ref (k : N) : bool :=
  (k =? 0) || (k =? 2) || (k =? 3) || (k =? 7) || (k =? 8).

Fixpoint read_length (c : list (N * N)) : N :=
  match c with [] => 0 | (k, l) :: r => (if consumes_read k then l else 0) + read_length r end.
Fixpoint ref_span (c : list (N * N)) : N :=
  match c with [] => 0 | (k, l) :: r => (if consumes_ref k then l else 0) + ref_span r end.
