(* C05 proofs, wave 9: the shape of Sequence::split_at_checked (Bam/Subseq.v). *)
From Coq Require Import List NArith ZArith Bool Lia ZifyBool ZifyNat ZifyN.
From NV Require Import Bam.Record Bam.Encode Bam.Decode Bam.Lazy Bam.Subseq Bam.CodecProofs Bam.LazyProofs
  Bam.LazyDataProofs.
Import ListNotations.
Open Scope N_scope.
Ltac Zify.zify_post_hook ::= Z.div_mod_to_equations.
Arguments N.add : simpl never.
Arguments N.sub : simpl never.
Arguments N.mul : simpl never.
Arguments N.div : simpl never.
Arguments N.modulo : simpl never.
Arguments N.pow : simpl never.

Lemma firstnN_split : forall (l : bytes) mid len, mid <= len ->
  firstnN mid l ++ firstnN (len - mid) (skipN mid l) = firstnN len l.
Proof.
  induction l as [|x l IH]; intros mid len H.
  - rewrite skipN_nil. cbn [firstnN]. destruct (mid =? 0); destruct (len - mid =? 0); destruct (len =? 0); reflexivity.
  - cbn [firstnN]. destruct (mid =? 0) eqn:Em.
    + assert (mid = 0) by lia. subst mid. rewrite skipN_0. replace (len - 0) with len by lia. reflexivity.
    + destruct (len =? 0) eqn:El; [lia|]. rewrite skipN_cons by lia. cbn [app]. f_equal.
      replace (len - mid) with (len - 1 - (mid - 1)) by lia. apply IH. lia.
Qed.

Definition whole (packed : bytes) (len : N) : bytes := firstnN len (unpack_bases packed).

Lemma subseq_get_spec : forall packed len s e i, lenN packed = (len + 1) / 2 -> e <= len ->
  subseq_get packed (s, e) i = Some (if s + i <? e then nthN (s + i) (whole packed len) else None).
Proof.
  intros packed len s e i Hp He. unfold subseq_get. cbn [fst snd]. destruct (s + i <? e) eqn:E; [|reflexivity].
  unfold whole. rewrite nthN_firstnN. destruct (s + i <? len) eqn:E2; [|lia].
  rewrite nthN_unpack. destruct (nthN_some packed ((s + i) / 2)) as [b Hb]; [lia|]. rewrite Hb. reflexivity.
Qed.

Theorem split_at_checked_shape : forall packed len mid, lenN packed = (len + 1) / 2 ->
  (split_at_checked len mid = None <-> len < mid) /\
  forall l r, split_at_checked len mid = Some (l, r) ->
    l = (0, mid) /\ r = (mid, len) /\
    subseq_len l = Some mid /\ subseq_len r = Some (len - mid) /\
    subseq_is_empty l = Some (mid =? 0) /\ subseq_is_empty r = Some (len - mid =? 0) /\
    subseq_iter packed l ++ subseq_iter packed r = whole packed len /\
    (forall i, subseq_get packed l i = Some (if i <? mid then nthN i (whole packed len) else None)) /\
    (forall i, subseq_get packed r i = Some (if mid + i <? len then nthN (mid + i) (whole packed len) else None)).
Proof.
  intros packed len mid Hp. unfold split_at_checked. destruct (mid <=? len) eqn:E.
  - split; [split; [discriminate|lia]|]. intros l r H. injection H as Hl Hr. subst l r.
    split; [reflexivity|]. split; [reflexivity|].
    unfold subseq_is_empty, subseq_len, subseq_iter. cbn [fst snd].
    destruct (0 <=? mid) eqn:E0; [|lia]. rewrite E. cbn [option_map]. replace (mid - 0) with mid by lia.
    repeat split.
    + rewrite !subsequence_iter_exact by lia. rewrite skipN_0. replace (mid - 0) with mid by lia.
      unfold whole. apply firstnN_split. lia.
    + intros i. rewrite (subseq_get_spec packed len 0 mid i Hp) by lia. replace (0 + i) with i by lia. reflexivity.
    + intros i. apply (subseq_get_spec packed len mid len i Hp). lia.
  - split; [split; [lia|reflexivity]|]. intros l r H. discriminate H.
Qed.
