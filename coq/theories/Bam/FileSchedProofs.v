(* C05 file level, composition with C12 (NV.Io.*, read-only): C12 proves that noodles-bam's
   io/reader/record.rs::read_record, run on ANY scripted source (any chunking of the reads, any
   number of ErrorKind::Interrupted results), equals a closed form on the data.  Here: on the record
   part of a written file that closed form yields exactly the block sizes of the encoded bodies
   followed by Ok(0); hence the framing of a written file does not depend on the delivery schedule. *)
From Coq Require Import List NArith ZArith Arith Bool Lia ZifyBool ZifyNat ZifyN.
From NV Require Import Bam.Record Bam.Encode Bam.Decode Bam.CodecProofs Bam.AuxProofs Bam.File Bam.FileProofs.
From NV Require Io.Source Io.ReadExact Io.ReadExactProofs Io.Run Io.RunProofs.
Import ListNotations.
Open Scope N_scope.

Module R := Io.Run.
Module RP := Io.RunProofs.

Lemma rdW_le_val : forall w l v r, rdW w l = Some (v, r) -> R.le_val (firstn w l) = v.
Proof.
  induction w as [|w IH]; intros l v r H; cbn [rdW] in H.
  - injection H as H _. subst v. reflexivity.
  - destruct l as [|b l]; [discriminate H|].
    destruct (rdW w l) as [[v' r']|] eqn:E; [|discriminate H].
    injection H as H _. subst v. cbn [firstn R.le_val]. rewrite (IH _ _ _ E). reflexivity.
Qed.

Lemma nth_skipn_hd : forall (n : nat) (l : list N) x t d, skipn n l = x :: t -> nth n l d = x.
Proof.
  induction n as [|n IH]; intros l x t d H.
  - cbn [skipn] in H. subst l. reflexivity.
  - destruct l as [|y l]; [discriminate H|]. cbn [skipn] in H. cbn [nth]. exact (IH _ _ _ _ H).
Qed.

(* the two statements of io/reader/record.rs::validate agree *)
Lemma validate_bam_validate : forall b, validate b = Ok tt -> R.bam_validate b = true.
Proof.
  intros b H. unfold validate in H. unfold R.bam_validate.
  rewrite <- lenN_length.
  destruct (lenN b <? 32) eqn:E32; [discriminate H|].
  destruct (rdW 1 (skipn 8 b)) as [[lname r1]|] eqn:E1; [|discriminate H].
  destruct (rdW 2 (skipn 12 b)) as [[nops r2]|] eqn:E2; [|discriminate H].
  destruct (rdW 4 (skipn 16 b)) as [[lseq r3]|] eqn:E3; [|discriminate H].
  destruct (lenN b <? 32 + lname + 4 * nops + (lseq + 1) / 2 + lseq) eqn:EL; [discriminate H|].
  rewrite (rdW_le_val _ _ _ _ E2), (rdW_le_val _ _ _ _ E3).
  assert (Hn : nth 8 b 0 = lname).
  { destruct (skipn 8 b) as [|x t] eqn:Es; [discriminate E1|].
    rewrite (nth_skipn_hd 8 b x t 0 Es). cbn [rdW] in E1. injection E1 as E1 _. lia. }
  rewrite Hn. apply negb_true_iff. apply N.ltb_ge. apply N.ltb_ge in EL. lia.
Qed.

Lemma le_val_leW : forall w n, n < pow256 w -> R.le_val (leW w n) = n.
Proof.
  intros w n Hn. pose proof (rdW_leW w n [] Hn) as H. rewrite app_nil_r in H.
  pose proof (rdW_le_val _ _ _ _ H) as H2.
  rewrite firstn_all2 in H2; [exact H2|].
  pose proof (leW_length w n) as HL. rewrite lenN_length in HL. lia.
Qed.

Lemma firstn_len_app : forall (A : Type) (l r : list A), firstn (length l) (l ++ r) = l.
Proof. induction l as [|x l IH]; intros r; cbn [length firstn app]; [reflexivity|]. rewrite IH. reflexivity. Qed.

Lemma skipn_len_app : forall (A : Type) (l r : list A), skipn (length l) (l ++ r) = r.
Proof. induction l as [|x l IH]; intros r; cbn [length skipn app]; [reflexivity|]. apply IH. Qed.

Lemma leW_len4 : forall n, length (leW 4 n) = 4%nat.
Proof. intros n. reflexivity. Qed.

Lemma closed_one : forall b rest,
  validate b = Ok tt -> 32 <= lenN b < 4294967296 ->
  RP.bam_record_closed ((leW 4 (lenN b) ++ b) ++ rest) = (R.RecOk (lenN b), rest).
Proof.
  intros b rest Hv Hl. unfold RP.bam_record_closed, Io.ReadExactProofs.eof_class.
  rewrite <- app_assoc.
  assert (H4 : (4 <=? length (leW 4 (lenN b) ++ b ++ rest))%nat = true).
  { apply Nat.leb_le. rewrite app_length, leW_len4. lia. }
  rewrite H4.
  assert (Hf : firstn 4 (leW 4 (lenN b) ++ b ++ rest) = leW 4 (lenN b)) by reflexivity.
  assert (Hs : skipn 4 (leW 4 (lenN b) ++ b ++ rest) = b ++ rest) by reflexivity.
  rewrite Hf, Hs. rewrite le_val_leW by (rewrite pow256_4; lia).
  destruct (lenN b =? 0) eqn:E0; [lia|].
  assert (Hk : N.to_nat (lenN b) = length b) by (rewrite lenN_length; lia).
  rewrite Hk.
  assert (Hle : (length b <=? length (b ++ rest))%nat = true).
  { apply Nat.leb_le. rewrite app_length. lia. }
  rewrite Hle.
  rewrite firstn_len_app, skipn_len_app.
  rewrite (validate_bam_validate b Hv). reflexivity.
Qed.

Lemma closed_all : forall bodies,
  Forall (fun b => validate b = Ok tt /\ 32 <= lenN b < 4294967296) bodies ->
  forall k, (length bodies < k)%nat ->
  RP.bam_records_closed k (concat (map (fun b => leW 4 (lenN b) ++ b) bodies))
  = (map (fun b => R.RecOk (lenN b)) bodies ++ [R.RecOk 0], []).
Proof.
  induction bodies as [|b bs IH]; intros HF k Hk.
  - destruct k as [|k]; [cbn [length] in Hk; lia|]. reflexivity.
  - destruct k as [|k]; [lia|]. inversion HF as [|? ? [Hv Hl] HF']; subst.
    cbn [map concat RP.bam_records_closed].
    rewrite (closed_one b _ Hv Hl).
    destruct (lenN b =? 0) eqn:E0; [lia|].
    rewrite (IH HF' k) by (cbn [length] in Hk; lia). reflexivity.
Qed.

(* read_record on the record part of a written file, under every delivery schedule *)
Theorem file_framing_any_schedule : forall nref rs rb,
  Forall rec_ok rs -> write_records nref rs = Ok rb ->
  exists bodies,
    Forall2 (fun r b => encode_body nref r = Ok b /\ decode_body b = Ok (norm r) /\ validate b = Ok tt) rs bodies /\
    forall s m, Io.ReadExactProofs.rep_src s rb m ->
      exists s' m',
        R.bam_read_records (S (length rs)) s = (map (fun b => R.RecOk (lenN b)) bodies ++ [R.RecOk 0], s') /\
        Io.ReadExactProofs.rep_src s' [] m'.
Proof.
  intros nref rs rb Hok Hw.
  destruct (bodies_written nref rs rb Hok Hw) as (bodies & HF2 & Hcat & Hlen & _).
  exists bodies. split; [exact HF2|].
  intros s m Hrep.
  destruct (RP.bam_read_records_spec (S (length rs)) s rb m Hrep) as (s' & m' & E & Hrep').
  assert (HFv : Forall (fun b => validate b = Ok tt /\ 32 <= lenN b < 4294967296) bodies).
  { clear - HF2 Hlen. induction HF2 as [|r b rs bodies (_ & _ & Hv) HF2 IH]; [constructor|].
    inversion Hlen as [|? ? Hl Hlen']; subst. constructor; [split; assumption|exact (IH Hlen')]. }
  assert (Hn : length bodies = length rs).
  { clear - HF2. induction HF2; [reflexivity|cbn [length]; lia]. }
  rewrite Hcat in E, Hrep'. rewrite (closed_all bodies HFv (S (length rs))) in E, Hrep' by lia.
  cbn [fst snd] in E, Hrep'. exists s', m'. split; assumption.
Qed.
