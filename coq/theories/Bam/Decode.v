(* C05 model of the BAM record readers:
   io/reader/record.rs (block_size framing, validate), record/codec/decoder.rs and decoder/**
   (eager decode into a RecordBuf, CG resolution), and the slice arithmetic of the lazy
   accessors of record_ref.rs / record.rs.  Definitions only. *)
From Coq Require Import List NArith ZArith Bool.
From NV Require Import Bam.Record Bam.Encode.
Import ListNotations.
Open Scope N_scope.

Definition bad {A : Type} : res A := Err InvalidData.

Definition rd (w : nat) (bs : bytes) : res (N * bytes) :=
  match rdW w bs with Some p => Ok p | None => bad end.

Definition rd_i32 (bs : bytes) : res (Z * bytes) :=
  let* (n, r) := rd 4 bs in Ok (to_signed 4 n, r).

Definition take (n : N) (bs : bytes) : res (bytes * bytes) :=
  match takeN n bs with Some p => Ok p | None => bad end.

(* decoder/reference_sequence_id.rs *)
Definition dec_rid (z : Z) : res (option N) :=
  if (z =? -1)%Z then Ok None else if (z <? 0)%Z then bad else Ok (Some (Z.to_N z)).
(* decoder/position.rs *)
Definition dec_pos (z : Z) : res (option N) :=
  if (z =? -1)%Z then Ok None else if (z <? 0)%Z then bad else Ok (Some (Z.to_N z + 1)).

(* decoder/name.rs::read_name *)
Fixpoint split_last (bs : bytes) : option (bytes * N) :=
  match bs with
  | [] => None
  | [x] => Some ([], x)
  | b :: r => match split_last r with Some (a, x) => Some (b :: a, x) | None => None end
  end.

Definition dec_name (buf : bytes) : res (option bytes) :=
  if list_eqb buf [42; 0] then Ok None
  else match split_last buf with
       | Some (s, t) => if t =? 0 then Ok (Some s) else bad
       | None => bad (* unreachable: l_read_name is non-zero *)
       end.

(* decoder/cigar/op.rs *)
Definition dec_op (n : N) : res (N * N) :=
  let k := n mod 16 in if k <=? 8 then Ok (k, n / 16) else bad.

Fixpoint dec_ops (fuel : nat) (cnt : N) (bs : bytes) : res (list (N * N)) :=
  if cnt =? 0 then Ok []
  else match fuel with
       | O => bad
       | S f => let* (n, r) := rd 4 bs in
                let* op := dec_op n in
                let* ops := dec_ops f (cnt - 1) r in
                Ok (op :: ops)
       end.

(* decoder/sequence.rs *)
Definition nth_base (i : N) : N := nth (N.to_nat i) BASES 78.
Fixpoint unpack_bases (bs : bytes) : bytes :=
  match bs with
  | [] => []
  | b :: r => nth_base ((b / 16) mod 16) :: nth_base (b mod 16) :: unpack_bases r
  end.

(* decoder/quality_scores.rs *)
Definition dec_qual (buf : bytes) : bytes :=
  if forallb (fun b => b =? 255) buf then [] else buf.

(* decoder/data/field/value.rs *)
Fixpoint split_nul (bs : bytes) : option (bytes * bytes) :=
  match bs with
  | [] => None
  | b :: r => if b =? 0 then Some ([], r)
              else match split_nul r with Some (a, c) => Some (b :: a, c) | None => None end
  end.

Definition dec_num (w : nat) (sg : bool) (bs : bytes) : res (Z * bytes) :=
  let* (n, r) := rd w bs in Ok ((if sg then to_signed w n else Z.of_N n), r).

Fixpoint dec_elems (fuel : nat) (w : nat) (sg : bool) (cnt : N) (bs : bytes) : res (list Z * bytes) :=
  if cnt =? 0 then Ok ([], bs)
  else match fuel with
       | O => bad
       | S f => let* (v, r) := dec_num w sg bs in
                let* (vs, r') := dec_elems f w sg (cnt - 1) r in
                Ok (v :: vs, r')
       end.

Definition dec_value (ty : N) (bs : bytes) : res (value * bytes) :=
  match num_width ty with
  | Some (w, sg) => let* (v, r) := dec_num w sg bs in Ok (VNum ty v, r)
  | None =>
      if (ty =? tyZ) || (ty =? tyH) then
        match split_nul bs with Some (s, r) => Ok (VStr ty s, r) | None => bad end
      else if ty =? tyB then
        let* (sub, r) := rd 1 bs in
        match sub_width sub with
        | Some (w, sg) =>
            let* (cnt, r1) := rd 4 r in
            let* (vs, r2) := dec_elems (length r1) w sg cnt r1 in
            Ok (VArr sub vs, r2)
        | None => bad
        end
      else bad
  end.

(* decoder/data.rs::read_data: duplicate tags are an error *)
Fixpoint dec_data (fuel : nat) (bs : bytes) (acc : list (tag * value)) : res (list (tag * value)) :=
  match bs with
  | [] => Ok acc
  | _ => match fuel with
         | O => bad
         | S f =>
             let* (t0, r0) := rd 1 bs in
             let* (t1, r1) := rd 1 r0 in
             let* (ty, r2) := rd 1 r1 in
             let* (v, r3) := dec_value ty r2 in
             if existsb (fun p => tag_eqb (fst p) (t0, t1)) acc then bad
             else dec_data f r3 (acc ++ [((t0, t1), v)])
         end
  end.

(* RecordBuf Data::remove = Vec::swap_remove on the first field with that tag *)
Fixpoint find_tag (t : tag) (d : list (tag * value)) : option value :=
  match d with
  | [] => None
  | (t', v) :: r => if tag_eqb t' t then Some v else find_tag t r
  end.

Fixpoint split_last_f (d : list (tag * value)) : option (list (tag * value) * (tag * value)) :=
  match d with
  | [] => None
  | x :: r => match split_last_f r with Some (a, y) => Some (x :: a, y) | None => Some ([], x) end
  end.

Fixpoint swap_remove (t : tag) (d : list (tag * value)) : list (tag * value) :=
  match d with
  | [] => []
  | (t', v) :: r =>
      if tag_eqb t' t then
        match split_last_f r with
        | Some (a, x) => x :: a
        | None => []
        end
      else (t', v) :: swap_remove t r
  end.

Fixpoint dec_u32_ops (vs : list Z) : res (list (N * N)) :=
  match vs with
  | [] => Ok []
  | v :: r => let* op := dec_op (Z.to_N v) in let* ops := dec_u32_ops r in Ok (op :: ops)
  end.

(* decoder/cigar.rs::resolve *)
Definition resolve (seq : bytes) (cig : list (N * N)) (d : list (tag * value))
  : res (list (N * N) * list (tag * value)) :=
  match cig with
  | [(k0, l0); (k1, _)] =>
      if (k0 =? 4) && (l0 =? lenN seq) && (k1 =? 3) then
        match find_tag CG d with
        | Some v =>
            match v with
            | VArr sub vs => if sub =? tyI
                             then let* ops := dec_u32_ops vs in Ok (ops, swap_remove CG d)
                             else bad
            | _ => bad
            end
        | None => Ok (cig, d)
        end
      else Ok (cig, d)
  | _ => Ok (cig, d)
  end.

(* decoder.rs::decode on one record body *)
Definition decode_body (bs : bytes) : res record :=
  let* (rid, b1) := rd_i32 bs in
  let* rid := dec_rid rid in
  let* (pos, b2) := rd_i32 b1 in
  let* pos := dec_pos pos in
  let* (lname, b3) := rd 1 b2 in
  if lname =? 0 then bad else
  let* (mq, b4) := rd 1 b3 in
  let* (_, b5) := rd 2 b4 in
  let* (nops, b6) := rd 2 b5 in
  let* (fl, b7) := rd 2 b6 in
  let* (lseq, b8) := rd 4 b7 in
  let* (mrid, b9) := rd_i32 b8 in
  let* mrid := dec_rid mrid in
  let* (mpos, b10) := rd_i32 b9 in
  let* mpos := dec_pos mpos in
  let* (tlen, b11) := rd_i32 b10 in
  let* (nbuf, b12) := take lname b11 in
  let* name := dec_name nbuf in
  let* (cbuf, b13) := take (4 * nops) b12 in
  let* cig := dec_ops (length cbuf) nops cbuf in
  let* (sbuf, b14) := take ((lseq + 1) / 2) b13 in
  let sq := firstnN lseq (unpack_bases sbuf) in
  let* (qbuf, b15) := (if lseq =? 0 then Ok ([], b14) else take lseq b14) in
  let ql := dec_qual qbuf in
  let* dt := dec_data (length b15) b15 [] in
  let* (cig', dt') := resolve sq cig dt in
  Ok (mkRecord name (fl mod 4096) rid pos (if mq =? 255 then None else Some mq) cig'
               mrid mpos tlen sq ql dt').

(* io/reader/record.rs::validate *)
Definition validate (bs : bytes) : res unit :=
  if lenN bs <? 32 then Err UnexpectedEof else
  match rdW 1 (skipn 8 bs), rdW 2 (skipn 12 bs), rdW 4 (skipn 16 bs) with
  | Some (lname, _), Some (nops, _), Some (lseq, _) =>
      if lenN bs <? 32 + lname + 4 * nops + (lseq + 1) / 2 + lseq then Err UnexpectedEof else Ok tt
  | _, _, _ => Err UnexpectedEof
  end.

(* read_record_buf on a stream holding exactly one block: block_size, body *)
Definition decode_record (body : bytes) : res record :=
  let* _ := validate body in decode_body body.

Definition decode (block : bytes) : res record :=
  match rdW 4 block with
  | None => Err UnexpectedEof
  | Some (bs, rest) =>
      match takeN bs rest with
      | Some (body, _) => decode_record body
      | None => Err UnexpectedEof
      end
  end.

(* ---- lazy accessors (record_ref.rs): slices of the body at computed offsets ---- *)
Fixpoint skipN (n : N) (bs : bytes) : bytes :=
  if n =? 0 then bs else match bs with [] => [] | _ :: r => skipN (n - 1) r end.
Definition sliceN (off len : N) (bs : bytes) : bytes := firstnN len (skipN off bs).

Definition field (off : N) (w : nat) (bs : bytes) : N :=
  match rdW w (skipN off bs) with Some (v, _) => v | None => 0 end.

Definition lz_lname (bs : bytes) : N := field 8 1 bs.
Definition lz_nops (bs : bytes) : N := field 12 2 bs.
Definition lz_lseq (bs : bytes) : N := field 16 4 bs.
Definition lz_flags (bs : bytes) : N := field 14 2 bs mod 4096.
Definition lz_mapq (bs : bytes) : option N := let q := field 9 1 bs in if q =? 255 then None else Some q.
Definition lz_tlen (bs : bytes) : Z := to_signed 4 (field 28 4 bs).
Definition lz_rid (bs : bytes) : res (option N) := dec_rid (to_signed 4 (field 0 4 bs)).
Definition lz_pos (bs : bytes) : res (option N) := dec_pos (to_signed 4 (field 4 4 bs)).
Definition lz_mrid (bs : bytes) : res (option N) := dec_rid (to_signed 4 (field 20 4 bs)).
Definition lz_mpos (bs : bytes) : res (option N) := dec_pos (to_signed 4 (field 24 4 bs)).

Definition lz_name_raw (bs : bytes) : bytes := sliceN 32 (lz_lname bs) bs.
Definition lz_cigar_raw (bs : bytes) : bytes := sliceN (32 + lz_lname bs) (4 * lz_nops bs) bs.
Definition lz_seq_raw (bs : bytes) : bytes :=
  sliceN (32 + lz_lname bs + 4 * lz_nops bs) ((lz_lseq bs + 1) / 2) bs.
Definition lz_qual_raw (bs : bytes) : bytes :=
  sliceN (32 + lz_lname bs + 4 * lz_nops bs + (lz_lseq bs + 1) / 2) (lz_lseq bs) bs.
Definition lz_data_raw (bs : bytes) : bytes :=
  skipN (32 + lz_lname bs + 4 * lz_nops bs + (lz_lseq bs + 1) / 2 + lz_lseq bs) bs.

(* name(): strip_suffix NUL, unwrap_or whole *)
Definition lz_name (bs : bytes) : option bytes :=
  let buf := lz_name_raw bs in
  if list_eqb buf [42; 0] then None
  else match split_last buf with
       | Some (s, t) => if t =? 0 then Some s else Some buf
       | None => Some buf
       end.
Definition lz_seq (bs : bytes) : bytes := firstnN (lz_lseq bs) (unpack_bases (lz_seq_raw bs)).
Definition lz_qual (bs : bytes) : bytes := dec_qual (lz_qual_raw bs).

(* ---- record/sequence/iter.rs::Iter::new(bases, start, end) (as repaired in /repo e98d36d),
   the bases it yields: front half-byte, whole bytes, back half-byte.  Subsequence::iter of
   Sequence::split_at_checked calls it with the whole packed sequence and [start, end).
   (bases[i..j] panics for j beyond the buffer; Subsequence is only built with end <= len, the
   model's sliceN just truncates there.) ---- *)
Definition hi_base (b : N) : N := nth_base ((b / 16) mod 16).
Definition lo_base (b : N) : N := nth_base (b mod 16).

Definition sub_iter (packed : bytes) (start end_ : N) : bytes :=
  let win := if start <? end_ then sliceN (start / 2) ((end_ + 1) / 2 - start / 2) packed else [] in
  let wb := if end_ mod 2 =? 0 then (win, [])
            else match split_last win with
                 | Some (w, n) => (w, [hi_base n])
                 | None => (win, [])
                 end in
  let wf := if start mod 2 =? 0 then (fst wb, [])
            else match fst wb with
                 | n :: w => (w, [lo_base n])
                 | [] => (fst wb, [])
                 end in
  snd wf ++ unpack_bases (fst wf) ++ snd wb.
