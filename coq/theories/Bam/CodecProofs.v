(* C05 proofs about the BAM record codec model (Bam/Encode.v, Bam/Decode.v). *)
From Coq Require Import List NArith ZArith Bool Lia ZifyBool ZifyNat ZifyN.
From NV Require Import Index.Bins Index.BinsProofs Bam.Record Bam.Encode Bam.Decode.
Import ListNotations.
Open Scope N_scope.
Ltac Zify.zify_post_hook ::= Z.div_mod_to_equations.
Arguments N.add : simpl never.
Arguments N.sub : simpl never.
Arguments N.mul : simpl never.
Arguments N.div : simpl never.
Arguments N.modulo : simpl never.
Arguments N.pow : simpl never.

(* ---------- little endian ---------- *)
Lemma pow256_S : forall w, pow256 (S w) = 256 * pow256 w.
Proof. intros w. unfold pow256. rewrite Nat2N.inj_succ. apply N.pow_succ_r'. Qed.

Lemma pow256_1 : pow256 1 = 256. Proof. reflexivity. Qed.
Lemma pow256_2 : pow256 2 = 65536. Proof. reflexivity. Qed.
Lemma pow256_4 : pow256 4 = 4294967296. Proof. reflexivity. Qed.

Lemma rdW_leW : forall w n r, n < pow256 w -> rdW w (leW w n ++ r) = Some (n, r).
Proof.
  induction w as [|w IH]; intros n r Hn.
  - unfold pow256 in Hn. cbn in Hn. cbn [leW rdW app]. f_equal. f_equal. lia.
  - rewrite pow256_S in Hn. cbn [leW rdW app].
    assert (Hq : n / 256 < pow256 w) by lia.
    rewrite (IH _ r Hq). f_equal. f_equal. lia.
Qed.

Lemma rd_leW : forall w n r, n < pow256 w -> rd w (leW w n ++ r) = Ok (n, r).
Proof. intros w n r Hn. unfold rd. rewrite rdW_leW by exact Hn. reflexivity. Qed.

Lemma leW_length : forall w n, lenN (leW w n) = N.of_nat w.
Proof. induction w as [|w IH]; intros n; cbn [leW lenN]; [reflexivity|]. rewrite IH. lia. Qed.

Lemma lenN_app : forall (A : Type) (a b : list A), lenN (a ++ b) = lenN a + lenN b.
Proof. induction a as [|x a IH]; intros b; cbn [app lenN]; [lia|]. rewrite IH. lia. Qed.

Lemma lenN_length : forall (A : Type) (a : list A), lenN a = N.of_nat (length a).
Proof. induction a as [|x a IH]; cbn [lenN length]; [reflexivity|]. rewrite IH. lia. Qed.

Lemma pow256_pos : forall w, 0 < pow256 w.
Proof. induction w as [|w IH]; [reflexivity|]. rewrite pow256_S. lia. Qed.

Lemma pow256_even : forall w, pow256 (S w) = 2 * (pow256 (S w) / 2).
Proof. intros w. rewrite pow256_S. lia. Qed.

Lemma to_unsigned_lt : forall w z, to_unsigned w z < pow256 w.
Proof. intros w z. unfold to_unsigned. pose proof (pow256_pos w). lia. Qed.

Lemma to_signed_unsigned : forall w z,
  (- Z.of_N (pow256 (S w) / 2) <= z < Z.of_N (pow256 (S w) / 2))%Z ->
  to_signed (S w) (to_unsigned (S w) z) = z.
Proof.
  intros w z Hz. unfold to_signed, to_unsigned.
  pose proof (pow256_even w) as He. pose proof (pow256_pos (S w)) as Hp.
  remember (pow256 (S w)) as P eqn:EP. remember (P / 2) as H eqn:EH.
  destruct (Z.ltb z 0) eqn:Ez.
  - assert (Hm : (z mod Z.of_N P = z + Z.of_N P)%Z).
    { symmetry. apply (Z.mod_unique z (Z.of_N P) (-1) (z + Z.of_N P)); lia. }
    rewrite Hm. destruct (Z.to_N (z + Z.of_N P) <? H) eqn:E; lia.
  - rewrite Z.mod_small by lia. destruct (Z.to_N z <? H) eqn:E; lia.
Qed.

Lemma to_unsigned_nonneg : forall w z, (0 <= z < Z.of_N (pow256 w))%Z -> to_unsigned w z = Z.to_N z.
Proof. intros w z Hz. unfold to_unsigned. f_equal. apply Z.mod_small. exact Hz. Qed.

(* ---------- takeN / firstnN ---------- *)
Lemma takeN_app : forall a r, takeN (lenN a) (a ++ r) = Some (a, r).
Proof.
  induction a as [|x a IH]; intros r.
  - destruct r; reflexivity.
  - cbn [lenN app takeN]. destruct (1 + lenN a =? 0) eqn:E; [lia|].
    replace (1 + lenN a - 1) with (lenN a) by lia. rewrite IH. reflexivity.
Qed.

Lemma take_app : forall a r n, n = lenN a -> take n (a ++ r) = Ok (a, r).
Proof. intros a r n Hn. subst n. unfold take. rewrite takeN_app. reflexivity. Qed.

Lemma firstnN_app : forall a r, firstnN (lenN a) (a ++ r) = a.
Proof.
  induction a as [|x a IH]; intros r.
  - destruct r; reflexivity.
  - cbn [lenN app firstnN]. destruct (1 + lenN a =? 0) eqn:E; [lia|].
    replace (1 + lenN a - 1) with (lenN a) by lia. rewrite IH. reflexivity.
Qed.

(* ---------- list_eqb ---------- *)
Lemma list_eqb_refl : forall a, list_eqb a a = true.
Proof.
  intros a. unfold list_eqb. rewrite N.eqb_refl. cbn [andb].
  induction a as [|x a IH]; [reflexivity|]. cbn [combine forallb fst snd]. rewrite N.eqb_refl. exact IH.
Qed.

Lemma list_eqb_eq : forall a b, list_eqb a b = true -> a = b.
Proof.
  induction a as [|x a IH]; intros b H; unfold list_eqb in H; destruct b as [|y b]; cbn [lenN] in H.
  - reflexivity.
  - exfalso. apply andb_true_iff in H. destruct H as [H _]. lia.
  - exfalso. apply andb_true_iff in H. destruct H as [H _]. lia.
  - apply andb_true_iff in H. destruct H as [Hl Hf]. cbn [combine forallb fst snd] in Hf.
    apply andb_true_iff in Hf. destruct Hf as [Hxy Hf]. apply N.eqb_eq in Hxy. subst y. f_equal.
    apply IH. unfold list_eqb. apply andb_true_iff. split; [lia|exact Hf].
Qed.

(* ---------- CIGAR ---------- *)
Definition op_ok (op : N * N) : Prop := fst op <= 8.

Lemma dec_op_enc : forall k l, k <= 8 -> l <= max_op_len ->
  l * 16 + k < pow256 4 /\ dec_op (l * 16 + k) = Ok (k, l).
Proof.
  intros k l Hk Hl. unfold max_op_len in Hl. rewrite pow256_4. split; [lia|].
  unfold dec_op. replace ((l * 16 + k) mod 16) with k by lia.
  replace ((l * 16 + k) / 16) with l by lia.
  destruct (k <=? 8) eqn:E; [reflexivity|lia].
Qed.

Lemma enc_cigar_ok_inv : forall op c bs, enc_cigar (op :: c) = Ok bs ->
  exists a b, enc_op op = Ok a /\ enc_cigar c = Ok b /\ bs = a ++ b.
Proof.
  intros op c bs H. cbn [enc_cigar] in H. destruct (enc_op op) as [a|e]; cbn [bindr] in H; [|discriminate].
  destruct (enc_cigar c) as [b|e]; cbn [bindr] in H; [|discriminate].
  injection H as H. eauto.
Qed.

Lemma enc_op_ok_inv : forall k l a, enc_op (k, l) = Ok a -> l <= max_op_len /\ a = leW 4 (l * 16 + k).
Proof.
  intros k l a H. unfold enc_op in H. destruct (l <=? max_op_len) eqn:E; [|discriminate].
  injection H as H. split; [lia|]. subst a. reflexivity.
Qed.

Lemma cigar_roundtrip : forall c bs fuel,
  Forall op_ok c -> enc_cigar c = Ok bs -> (length c <= fuel)%nat ->
  dec_ops fuel (lenN c) bs = Ok c.
Proof.
  induction c as [|[k l] c IH]; intros bs fuel Hok Henc Hf.
  - destruct fuel; reflexivity.
  - apply enc_cigar_ok_inv in Henc. destruct Henc as (a & b & Ha & Hb & Hbs).
    apply enc_op_ok_inv in Ha. destruct Ha as [Hl Ha]. subst a bs.
    inversion Hok as [|? ? Hk Hok']; subst. unfold op_ok in Hk. cbn [fst] in Hk.
    destruct fuel as [|fuel]; [cbn [length] in Hf; lia|].
    cbn [lenN dec_ops]. destruct (1 + lenN c =? 0) eqn:E; [lia|].
    destruct (dec_op_enc k l Hk Hl) as [Hlt Hd].
    rewrite rd_leW by exact Hlt. cbn [bindr]. rewrite Hd. cbn [bindr].
    replace (1 + lenN c - 1) with (lenN c) by lia.
    rewrite (IH b fuel Hok' Hb) by (cbn [length] in Hf; lia). reflexivity.
Qed.

Lemma enc_cigar_length : forall c bs, enc_cigar c = Ok bs -> lenN bs = 4 * lenN c.
Proof.
  induction c as [|[k l] c IH]; intros bs H.
  - injection H as H. subst bs. reflexivity.
  - apply enc_cigar_ok_inv in H. destruct H as (a & b & Ha & Hb & Hbs).
    apply enc_op_ok_inv in Ha. destruct Ha as [_ Ha]. subst a bs.
    rewrite lenN_app, leW_length, (IH b Hb). cbn [lenN]. lia.
Qed.

(* c05_reject_not_truncate, CIGAR part: an accepted operation is stored exactly *)
Lemma enc_op_exact : forall k l a, k <= 8 -> enc_op (k, l) = Ok a ->
  exists n, rdW 4 a = Some (n, []) /\ n / 16 = l /\ n mod 16 = k.
Proof.
  intros k l a Hk H. apply enc_op_ok_inv in H. destruct H as [Hl Ha]. subst a.
  destruct (dec_op_enc k l Hk Hl) as [Hlt _]. exists (l * 16 + k).
  rewrite <- (app_nil_r (leW 4 (l * 16 + k))). rewrite rdW_leW by exact Hlt.
  split; [reflexivity|]. lia.
Qed.

Lemma enc_op_rejects : forall k l, max_op_len < l -> enc_op (k, l) = Err InvalidInput.
Proof. intros k l H. unfold enc_op. destruct (l <=? max_op_len) eqn:E; [lia|reflexivity]. Qed.

(* ---------- bases ---------- *)
Definition norm_base (b : N) : N := nth_base (encode_base b).

Lemma list_ind2 : forall (P : bytes -> Prop),
  P [] -> (forall x, P [x]) -> (forall x y t, P t -> P (x :: y :: t)) -> forall l, P l.
Proof.
  intros P H0 H1 H2. fix IH 1. intros [|x [|y t]]; [exact H0|apply H1|apply H2, IH].
Qed.

Lemma find_code_bound : forall b tbl i, find_code b tbl i = 15 \/ (i <= find_code b tbl i < i + lenN tbl).
Proof.
  intros b tbl. induction tbl as [|c r IH]; intros i; cbn [find_code lenN]; [left; reflexivity|].
  destruct ((b =? c) || (b =? to_lower c)); [right; lia|].
  destruct (IH (i + 1)) as [H|H]; [left; exact H|right; lia].
Qed.

Lemma encode_base_lt : forall b, encode_base b < 16.
Proof.
  intros b. unfold encode_base. destruct (find_code_bound b BASES 0) as [H|H]; [lia|].
  change (lenN BASES) with 16 in H. lia.
Qed.

Lemma seq_roundtrip : forall s, firstnN (lenN s) (unpack_bases (pack_bases s)) = map norm_base s.
Proof.
  apply list_ind2.
  - reflexivity.
  - intros x. pose proof (encode_base_lt x) as Hx. pose proof (encode_base_lt 61) as He.
    cbn [pack_bases unpack_bases lenN]. change (1 + 0) with 1. cbn [firstnN map].
    change (1 =? 0) with false. cbv iota. change (1 - 1) with 0. cbn [firstnN]. change (0 =? 0) with true.
    cbv iota. unfold norm_base. f_equal. f_equal. lia.
  - intros x y t IH. pose proof (encode_base_lt x) as Hx. pose proof (encode_base_lt y) as Hy.
    cbn [pack_bases unpack_bases lenN map]. cbn [firstnN].
    destruct (1 + (1 + lenN t) =? 0) eqn:E1; [lia|].
    replace (1 + (1 + lenN t) - 1) with (1 + lenN t) by lia.
    destruct (1 + lenN t =? 0) eqn:E2; [lia|].
    replace (1 + lenN t - 1) with (lenN t) by lia. rewrite IH. unfold norm_base.
    f_equal; [f_equal; lia|]. f_equal. f_equal. lia.
Qed.

Lemma pack_length : forall s, lenN (pack_bases s) = (lenN s + 1) / 2.
Proof.
  apply list_ind2.
  - reflexivity.
  - intros x. reflexivity.
  - intros x y t IH. cbn [pack_bases lenN]. rewrite IH. lia.
Qed.

Lemma enc_seq_ok : forall rl s bs, enc_seq rl s = Ok bs -> bs = pack_bases s.
Proof.
  intros rl s bs H. destruct s as [|x s]; cbn [enc_seq] in H; [injection H as H; subst; reflexivity|].
  destruct ((0 <? rl) && negb (lenN (x :: s) =? rl)); [discriminate|]. injection H as H. auto.
Qed.

(* c05_reject_not_truncate, sequence part *)
Lemma enc_seq_rejects : forall rl s, s <> [] -> 0 < rl -> lenN s <> rl -> enc_seq rl s = Err InvalidInput.
Proof.
  intros rl s Hs Hr Hl. destruct s as [|x s]; [congruence|]. cbn [enc_seq].
  destruct ((0 <? rl) && negb (lenN (x :: s) =? rl)) eqn:E; [reflexivity|]. lia.
Qed.

(* ---------- qualities ---------- *)
Lemma repeatN_length : forall x f, lenN (repeatN x f) = lenN f.
Proof. induction f as [|y f IH]; cbn [repeatN lenN]; [reflexivity|]. rewrite IH. reflexivity. Qed.

Lemma repeatN_all : forall f, forallb (fun b => b =? 255) (repeatN 255 f) = true.
Proof. induction f as [|y f IH]; cbn [repeatN forallb]; [reflexivity|]. rewrite IH. reflexivity. Qed.

Lemma qual_roundtrip : forall sq ql q, enc_qual sq ql = Ok q ->
  lenN q = lenN sq /\ (if lenN sq =? 0 then [] else dec_qual q) = ql.
Proof.
  intros sq ql q H. unfold enc_qual in H. destruct (lenN ql =? lenN sq) eqn:El.
  - destruct (forallb (fun x => x <=? 93) ql) eqn:Ef; [|discriminate]. injection H as H. subst q.
    split; [lia|]. destruct ql as [|a ql].
    + cbn [lenN] in El. destruct (lenN sq =? 0); reflexivity.
    + cbn [lenN] in El. destruct (lenN sq =? 0) eqn:E0; [lia|]. unfold dec_qual.
      cbn [forallb] in Ef |- *. apply andb_true_iff in Ef. destruct Ef as [Ha _].
      destruct (a =? 255) eqn:E5; [lia|]. reflexivity.
  - destruct ql as [|a ql]; [|discriminate]. injection H as H. subst q. rewrite repeatN_length.
    split; [reflexivity|]. cbn [lenN] in El. destruct (lenN sq =? 0) eqn:E0; [lia|].
    unfold dec_qual. rewrite repeatN_all. reflexivity.
Qed.

Lemma enc_qual_rejects_score : forall sq ql, lenN ql = lenN sq -> (exists x, In x ql /\ 93 < x) ->
  enc_qual sq ql = Err InvalidInput.
Proof.
  intros sq ql Hl (x & Hin & Hx). unfold enc_qual. destruct (lenN ql =? lenN sq) eqn:E; [|lia].
  destruct (forallb (fun q => q <=? 93) ql) eqn:Ef; [|reflexivity].
  rewrite forallb_forall in Ef. specialize (Ef x Hin). lia.
Qed.

Lemma enc_qual_rejects_length : forall sq ql, ql <> [] -> lenN ql <> lenN sq -> enc_qual sq ql = Err InvalidInput.
Proof.
  intros sq ql Hq Hl. unfold enc_qual. destruct (lenN ql =? lenN sq) eqn:E; [lia|].
  destruct ql; [congruence|reflexivity].
Qed.

(* ---------- name ---------- *)
Lemma split_last_snoc : forall s x, split_last (s ++ [x]) = Some (s, x).
Proof.
  induction s as [|a s IH]; intros x; [reflexivity|].
  cbn [app]. specialize (IH x). destruct (s ++ [x]) as [|b t] eqn:E.
  - destruct s; discriminate E.
  - cbn [split_last] in IH |- *. rewrite IH. reflexivity.
Qed.

Lemma name_roundtrip : forall o bs, enc_name o = Ok bs -> dec_name bs = Ok o.
Proof.
  intros o bs H. destruct o as [s|]; cbn [enc_name] in H.
  - destruct (name_valid s) eqn:Ev; [|discriminate]. injection H as H. subst bs. unfold dec_name.
    destruct (list_eqb (s ++ [0]) [42; 0]) eqn:E.
    + apply list_eqb_eq in E. assert (Hs : s = [42]).
      { destruct s as [|a [|b s]]; try discriminate E; [injection E as E; subst; reflexivity|].
        cbn [app] in E. injection E as _ _ E. destruct s; discriminate E. }
      subst s. discriminate Ev.
    + rewrite split_last_snoc. reflexivity.
  - injection H as H. subst bs. reflexivity.
Qed.

Lemma enc_name_len_ok : forall o a, enc_name_len o = Ok a ->
  exists n, a = [n] /\ n = (match o with Some s => lenN s | None => 1 end) + 1 /\ n <= 255.
Proof.
  intros o a H. unfold enc_name_len in H.
  destruct ((match o with Some s => lenN s | None => 1 end) + 1 <=? 255) eqn:E; [|discriminate].
  injection H as H. eexists. split; [symmetry; exact H|]. split; [reflexivity|lia].
Qed.

(* c05_reject_not_truncate, name part: 255 bytes or more never reach the u8 length field *)
Lemma enc_name_len_rejects : forall s, 254 < lenN s -> enc_name_len (Some s) = Err InvalidInput.
Proof. intros s H. unfold enc_name_len. destruct (lenN s + 1 <=? 255) eqn:E; [lia|reflexivity]. Qed.

Lemma enc_name_length : forall o bs, enc_name o = Ok bs ->
  lenN bs = (match o with Some s => lenN s | None => 1 end) + 1.
Proof.
  intros o bs H. destruct o as [s|]; cbn [enc_name] in H.
  - destruct (name_valid s); [|discriminate]. injection H as H. subst bs. rewrite lenN_app. reflexivity.
  - injection H as H. subst bs. reflexivity.
Qed.

(* ---------- ids and positions ---------- *)
Lemma to_signed4_small : forall n, n <= i32_max -> to_signed 4 n = Z.of_N n.
Proof.
  intros n H. unfold to_signed, i32_max in *. change (pow256 4 / 2) with 2147483648.
  destruct (n <? 2147483648) eqn:E; [reflexivity|lia].
Qed.

Lemma rid_roundtrip : forall nref o a, enc_rid nref o = Ok a ->
  exists n, a = leW 4 n /\ n < pow256 4 /\ dec_rid (to_signed 4 n) = Ok o.
Proof.
  intros nref o a H. rewrite pow256_4. destruct o as [id|]; cbn [enc_rid] in H.
  - destruct (id <? nref); [|discriminate]. destruct (id <=? i32_max) eqn:E; [|discriminate].
    injection H as H. subst a. exists id. split; [reflexivity|]. unfold i32_max in E. split; [lia|].
    rewrite to_signed4_small by (unfold i32_max; lia). unfold dec_rid.
    destruct (Z.of_N id =? -1)%Z eqn:E1; [lia|]. destruct (Z.of_N id <? 0)%Z eqn:E2; [lia|].
    rewrite N2Z.id. reflexivity.
  - injection H as H. subst a. exists 4294967295. split; [reflexivity|]. split; [lia|]. reflexivity.
Qed.

Lemma pos_roundtrip : forall o a, (forall p, o = Some p -> 1 <= p) -> enc_pos o = Ok a ->
  exists n, a = leW 4 n /\ n < pow256 4 /\ dec_pos (to_signed 4 n) = Ok o.
Proof.
  intros o a Hp H. rewrite pow256_4. destruct o as [p|]; cbn [enc_pos] in H.
  - specialize (Hp p eq_refl). destruct (p - 1 <=? i32_max) eqn:E; [|discriminate].
    injection H as H. subst a. exists (p - 1). split; [reflexivity|]. unfold i32_max in E. split; [lia|].
    rewrite to_signed4_small by (unfold i32_max; lia). unfold dec_pos.
    destruct (Z.of_N (p - 1) =? -1)%Z eqn:E1; [lia|]. destruct (Z.of_N (p - 1) <? 0)%Z eqn:E2; [lia|].
    rewrite N2Z.id. f_equal. f_equal. lia.
  - injection H as H. subst a. exists 4294967295. split; [reflexivity|]. split; [lia|]. reflexivity.
Qed.

(* c05_reject_not_truncate, coordinates: anything that does not fit an i32 is an error *)
Lemma enc_pos_rejects : forall p, i32_max < p - 1 -> enc_pos (Some p) = Err InvalidInput.
Proof. intros p H. cbn [enc_pos]. destruct (p - 1 <=? i32_max) eqn:E; [lia|reflexivity]. Qed.

Lemma enc_rid_rejects : forall nref id, nref <= id \/ i32_max < id -> enc_rid nref (Some id) = Err InvalidInput.
Proof.
  intros nref id H. cbn [enc_rid]. destruct (id <? nref) eqn:E1; [|reflexivity].
  destruct (id <=? i32_max) eqn:E2; [lia|reflexivity].
Qed.

(* an accepted position is stored exactly (no wrap) *)
Lemma enc_pos_exact : forall p a, 1 <= p -> enc_pos (Some p) = Ok a -> rdW 4 a = Some (p - 1, []).
Proof.
  intros p a Hp H. cbn [enc_pos] in H. cbv zeta in H. destruct (p - 1 <=? i32_max) eqn:E; [|discriminate].
  assert (Ha : a = leW 4 (p - 1)) by (injection H as H; rewrite <- H; reflexivity).
  subst a. unfold i32_max in E. rewrite <- (app_nil_r (leW 4 (p - 1))).
  apply rdW_leW. rewrite pow256_4. lia.
Qed.

(* ---------- bin ---------- *)
Lemma alignment_end_ge : forall s c, 1 <= s -> s <= alignment_end s c.
Proof. intros s c Hs. unfold alignment_end. destruct (ref_span c =? 0) eqn:E; lia. Qed.

Lemma bin_exact : forall s c, 1 <= s -> alignment_end s c <= 2 ^ 29 ->
  bin_of (Some s) c = reg2bin 14 5 s (alignment_end s c).
Proof.
  intros s c Hs He. unfold bin_of. apply N.mod_small. pose proof (alignment_end_ge s c Hs) as Hge.
  unfold reg2bin. apply N.lt_trans with (m := max_id 5).
  - apply BinsProofs.reg2bin_lt_max_id; [lia|]. rewrite N.shiftr_div_pow2.
    change (14 + 3 * N.of_nat 5) with 29. apply N.div_small. lia.
  - vm_compute. reflexivity.
Qed.

Lemma bin_lt : forall pos c, bin_of pos c < pow256 2.
Proof. intros pos c. rewrite pow256_2. unfold bin_of. destruct pos; [apply N.mod_lt; discriminate|reflexivity]. Qed.

(* ---------- whole record ---------- *)
Definition wf (r : record) : Prop :=
  r_flags r < 4096 /\ (forall q, r_mapq r = Some q -> q < 255) /\
  (forall p, r_pos r = Some p -> 1 <= p) /\ (forall p, r_mpos r = Some p -> 1 <= p) /\
  (- 2147483648 <= r_tlen r < 2147483648)%Z /\ Forall op_ok (r_cigar r).

(* the normalisation the property allows: bases case-folded / mapped to N, a user CG field dropped *)
Definition norm (r : record) : record :=
  mkRecord (r_name r) (r_flags r) (r_rid r) (r_pos r) (r_mapq r) (r_cigar r) (r_mrid r) (r_mpos r)
           (r_tlen r) (map norm_base (r_seq r)) (r_qual r)
           (filter (fun p => negb (tag_eqb (fst p) CG)) (r_data r)).

Lemma lenN_cons : forall (A : Type) (x : A) l, lenN (x :: l) = 1 + lenN l.
Proof. reflexivity. Qed.

Lemma rd1 : forall x r, rd 1 (x :: r) = Ok (x, r).
Proof. intros x r. unfold rd. cbn [rdW]. f_equal. f_equal. lia. Qed.

Lemma resolve_nil : forall s c, resolve s c [] = Ok (c, []).
Proof.
  intros s c. unfold resolve. destruct c as [|[k0 l0] [|[k1 l1] [|op c]]]; try reflexivity.
  destruct ((k0 =? 4) && (l0 =? lenN s) && (k1 =? 3)); reflexivity.
Qed.

Ltac bind_ok H x E :=
  match type of H with
  | bindr ?e _ = Ok _ => destruct e as [x|] eqn:E; cbn [bindr] in H; [|discriminate H]
  end.

Lemma body_roundtrip_nodata : forall nref r body,
  wf r -> r_data r = [] -> lenN (r_cigar r) <= 65535 ->
  encode_body nref r = Ok body ->
  decode_body body = Ok (norm r) /\ validate body = Ok tt.
Proof.
  intros nref r body Hwf Hd Hc H.
  destruct r as [name flags rid pos mapq cigar mrid mpos tlen sq ql dt].
  unfold wf in Hwf. cbn [r_name r_flags r_rid r_pos r_mapq r_cigar r_mrid r_mpos r_tlen r_seq r_qual r_data] in *.
  destruct Hwf as (Hfl & Hmq & Hpos & Hmpos & Htl & Hops). subst dt.
  unfold encode_body in H.
  cbn [r_name r_flags r_rid r_pos r_mapq r_cigar r_mrid r_mpos r_tlen r_seq r_qual r_data] in H.
  bind_ok H ridb Erid. bind_ok H posb Epos. bind_ok H lnb Eln.
  unfold cigar_slot in H. destruct (lenN cigar <=? 65535) eqn:Ec; [|lia].
  destruct (lenN sq <? 4294967296) eqn:Els; cbn [bindr] in H; [|discriminate H].
  bind_ok H mridb Emrid. bind_ok H mposb Empos. bind_ok H nameb Ename. bind_ok H cigb Ecig.
  bind_ok H sqb Esq. bind_ok H qlb Eql. cbn [enc_data bindr] in H.
  assert (Hbody : body = ridb ++ posb ++ lnb ++ enc_mapq mapq ++ leW 2 (bin_of pos cigar) ++
                         leW 2 (lenN cigar) ++ leW 2 flags ++ leW 4 (lenN sq) ++ mridb ++ mposb ++
                         enc_num 4 tlen ++ nameb ++ cigb ++ sqb ++ qlb ++ [] ++ [])
    by (injection H as H; rewrite <- H; reflexivity).
  clear H.
  destruct (rid_roundtrip _ _ _ Erid) as (n1 & -> & Hn1 & Hr1).
  destruct (pos_roundtrip _ _ Hpos Epos) as (n2 & -> & Hn2 & Hr2).
  destruct (rid_roundtrip _ _ _ Emrid) as (n3 & -> & Hn3 & Hr3).
  destruct (pos_roundtrip _ _ Hmpos Empos) as (n4 & -> & Hn4 & Hr4).
  destruct (enc_name_len_ok _ _ Eln) as (ln & -> & Hln & Hln255).
  pose proof (enc_name_length _ _ Ename) as Hnl. rewrite <- Hln in Hnl.
  pose proof (name_roundtrip _ _ Ename) as Hnr.
  pose proof (enc_cigar_length _ _ Ecig) as Hcl.
  apply enc_seq_ok in Esq. subst sqb.
  destruct (qual_roundtrip _ _ _ Eql) as [Hql Hqr].
  pose proof (pack_length sq) as Hpl.
  assert (Htu : to_unsigned 4 tlen < pow256 4) by apply to_unsigned_lt.
  assert (Hts : to_signed 4 (to_unsigned 4 tlen) = tlen).
  { apply to_signed_unsigned. change (pow256 4 / 2) with 2147483648. lia. }
  assert (Hbin : bin_of pos cigar < pow256 2) by apply bin_lt.
  assert (Hnops : lenN cigar < pow256 2) by (rewrite pow256_2; lia).
  assert (Hflg : flags < pow256 2) by (rewrite pow256_2; lia).
  assert (Hlsq : lenN sq < pow256 4) by (rewrite pow256_4; lia).
  unfold enc_mapq, enc_num in Hbody. cbn [app] in Hbody.
  split.
  - subst body. unfold decode_body, rd_i32.
    rewrite rd_leW by exact Hn1. cbn [bindr]. rewrite Hr1. cbn [bindr].
    rewrite rd_leW by exact Hn2. cbn [bindr]. rewrite Hr2. cbn [bindr].
    rewrite rd1. cbn [bindr]. destruct (ln =? 0) eqn:El0; [lia|].
    rewrite rd1. cbn [bindr].
    rewrite rd_leW by exact Hbin. cbn [bindr].
    rewrite rd_leW by exact Hnops. cbn [bindr].
    rewrite rd_leW by exact Hflg. cbn [bindr].
    rewrite rd_leW by exact Hlsq. cbn [bindr].
    rewrite rd_leW by exact Hn3. cbn [bindr]. rewrite Hr3. cbn [bindr].
    rewrite rd_leW by exact Hn4. cbn [bindr]. rewrite Hr4. cbn [bindr].
    rewrite rd_leW by exact Htu. cbn [bindr].
    rewrite (take_app nameb) by (symmetry; exact Hnl). cbn [bindr]. rewrite Hnr. cbn [bindr].
    rewrite (take_app cigb) by (symmetry; exact Hcl). cbn [bindr].
    rewrite (cigar_roundtrip cigar cigb (length cigb) Hops Ecig)
      by (rewrite !lenN_length in Hcl; lia).
    cbn [bindr].
    rewrite (take_app (pack_bases sq)) by (symmetry; exact Hpl). cbn [bindr].
    rewrite seq_roundtrip. rewrite app_nil_r.
    unfold norm. cbn [r_name r_flags r_rid r_pos r_mapq r_cigar r_mrid r_mpos r_tlen r_seq r_qual r_data filter].
    assert (Hmq' : (if match mapq with Some q => q | None => 255 end =? 255 then None
                    else Some match mapq with Some q => q | None => 255 end) = mapq).
    { destruct mapq as [q|]; [|reflexivity]. specialize (Hmq q eq_refl).
      destruct (q =? 255) eqn:E; [lia|reflexivity]. }
    destruct (lenN sq =? 0) eqn:E0.
    + cbn [bindr]. assert (qlb = []) by (destruct qlb; [reflexivity|cbn [lenN] in Hql; lia]). subst qlb.
      cbn [length dec_data bindr]. rewrite resolve_nil. cbn [bindr].
      rewrite Hmq', Hts. replace (flags mod 4096) with flags by lia.
      rewrite <- Hqr. reflexivity.
    + rewrite <- (app_nil_r qlb) at 1. rewrite (take_app qlb) by (symmetry; exact Hql). cbn [bindr].
      cbn [length dec_data bindr]. rewrite resolve_nil. cbn [bindr].
      rewrite Hmq', Hts. replace (flags mod 4096) with flags by lia.
      rewrite Hqr. reflexivity.
  - (* validate: the layout check of io/reader/record.rs accepts the encoder's output *)
    assert (Hlen : lenN body = 32 + ln + 4 * lenN cigar + (lenN sq + 1) / 2 + lenN sq).
    { subst body. repeat (rewrite lenN_app || rewrite lenN_cons). rewrite !leW_length, Hnl, Hcl, Hpl, Hql.
      change (lenN (@nil N)) with 0. lia. }
    unfold validate. rewrite Hlen. destruct (32 + ln + 4 * lenN cigar + (lenN sq + 1) / 2 + lenN sq <? 32) eqn:E32; [lia|].
    subst body. cbn [leW app skipn]. cbn [rdW].
    match goal with |- (if ?c then _ else _) = _ => assert (Hc' : c = false); [|rewrite Hc'; reflexivity] end.
    apply N.ltb_ge. lia.
Qed.

Lemma decode_encode_nodata : forall nref r block,
  wf r -> r_data r = [] -> lenN (r_cigar r) <= 65535 ->
  encode nref r = Ok block -> decode block = Ok (norm r).
Proof.
  intros nref r block Hwf Hd Hc H. unfold encode in H. bind_ok H body Eb.
  destruct (lenN body <? 4294967296) eqn:El; [|discriminate H].
  assert (Hblock : block = leW 4 (lenN body) ++ body) by (injection H as H; rewrite <- H; reflexivity).
  subst block. destruct (body_roundtrip_nodata _ _ _ Hwf Hd Hc Eb) as [Hdec Hval].
  unfold decode. rewrite rdW_leW by (rewrite pow256_4; lia).
  rewrite <- (app_nil_r body) at 2. rewrite takeN_app.
  unfold decode_record. rewrite Hval. cbn [bindr]. exact Hdec.
Qed.

(* the stored bin of an accepted record is reg2bin 14 5 of its span (coordinates <= 2^29) *)
Lemma encode_body_bin : forall nref r body s,
  encode_body nref r = Ok body -> r_pos r = Some s -> 1 <= s ->
  alignment_end s (r_cigar r) <= 2 ^ 29 ->
  rdW 2 (skipn 10 body) = Some (reg2bin 14 5 s (alignment_end s (r_cigar r)), skipn 12 body).
Proof.
  intros nref r body s H Hp Hs He. unfold encode_body in H.
  bind_ok H ridb Erid. bind_ok H posb Epos. bind_ok H lnb Eln.
  destruct (cigar_slot (lenN (r_seq r)) (r_cigar r)) as [[nops slot] ov].
  match type of H with bindr ?e _ = _ => destruct e as [lsq|] eqn:Els; cbn [bindr] in H; [|discriminate H] end.
  bind_ok H mridb Emrid. bind_ok H mposb Empos. bind_ok H nameb Ename. bind_ok H cigb Ecig.
  bind_ok H sqb Esq. bind_ok H qlb Eql. bind_ok H dtb Edt. bind_ok H cgb Ecg.
  destruct (rid_roundtrip _ _ _ Erid) as (n1 & -> & _ & _).
  assert (Hposb : exists n2, posb = leW 4 n2).
  { rewrite Hp in Epos. cbn [enc_pos] in Epos. cbv zeta in Epos.
    destruct (s - 1 <=? i32_max); [|discriminate Epos]. exists (s - 1).
    injection Epos as Epos. rewrite <- Epos. reflexivity. }
  destruct Hposb as (n2 & ->).
  destruct (enc_name_len_ok _ _ Eln) as (ln & -> & _ & _).
  assert (Hbody : body = leW 4 n1 ++ leW 4 n2 ++ [ln] ++ enc_mapq (r_mapq r) ++
            leW 2 (bin_of (r_pos r) (r_cigar r)) ++ (leW 2 nops ++ leW 2 (r_flags r) ++ lsq ++ mridb ++ mposb ++
            enc_num 4 (r_tlen r) ++ nameb ++ cigb ++ sqb ++ qlb ++ dtb ++ cgb))
    by (injection H as H; rewrite <- H; reflexivity).
  subst body. unfold enc_mapq.
  change (leW 4 n1) with [n1 mod 256; (n1 / 256) mod 256; (n1 / 256 / 256) mod 256; (n1 / 256 / 256 / 256) mod 256].
  change (leW 4 n2) with [n2 mod 256; (n2 / 256) mod 256; (n2 / 256 / 256) mod 256; (n2 / 256 / 256 / 256) mod 256].
  cbn [app skipn]. rewrite Hp. rewrite (bin_exact s (r_cigar r) Hs He).
  pose proof (bin_lt (Some s) (r_cigar r)) as Hlt. rewrite (bin_exact s (r_cigar r) Hs He) in Hlt.
  rewrite rdW_leW by exact Hlt.
  remember (reg2bin 14 5 s (alignment_end s (r_cigar r))) as b eqn:Eb. cbn [leW app skipn]. reflexivity.
Qed.

(* ---------- Subsequence::iter (repaired iterator) ---------- *)
Lemma unpack_app : forall a b, unpack_bases (a ++ b) = unpack_bases a ++ unpack_bases b.
Proof. induction a as [|x a IH]; intros b; cbn [app unpack_bases]; [reflexivity|]. rewrite IH. reflexivity. Qed.

Lemma unpack_length : forall a, lenN (unpack_bases a) = 2 * lenN a.
Proof. induction a as [|x a IH]; cbn [unpack_bases lenN]; [reflexivity|]. rewrite IH. lia. Qed.

Lemma skipN_app_len : forall a s r, skipN (lenN a + s) (a ++ r) = skipN s r.
Proof.
  induction a as [|x a IH]; intros s r; cbn [lenN app].
  - replace (0 + s) with s by lia. reflexivity.
  - cbn [skipN]. destruct (1 + lenN a + s =? 0) eqn:E; [lia|].
    replace (1 + lenN a + s - 1) with (lenN a + s) by lia. apply IH.
Qed.

Lemma skipN_0 : forall l, skipN 0 l = l.
Proof. intros l. destruct l; reflexivity. Qed.

Lemma firstnN_0 : forall l, firstnN 0 l = [].
Proof. intros l. destruct l; reflexivity. Qed.

Lemma skipN_1_cons : forall x l, skipN 1 (x :: l) = l.
Proof. intros x l. cbn [skipN]. change (1 =? 0) with false. cbv iota. change (1 - 1) with 0. apply skipN_0. Qed.

(* a slice inside the buffer splits the buffer around it *)
Lemma sliceN_decomp : forall p i m, i + m <= lenN p ->
  exists pre post, p = pre ++ sliceN i m p ++ post /\ lenN pre = i /\ lenN (sliceN i m p) = m.
Proof.
  induction p as [|x p IH]; intros i m H.
  - cbn [lenN] in H. assert (i = 0) by lia. assert (m = 0) by lia. subst. exists [], []. repeat split.
  - destruct (i =? 0) eqn:Ei.
    + assert (i = 0) by lia. subst i. clear IH. unfold sliceN. rewrite skipN_0.
      exists []. revert m H. generalize (x :: p). clear x p.
      induction l as [|y l IHl]; intros m H.
      * cbn [lenN] in H. assert (m = 0) by lia. subst. exists []. repeat split.
      * cbn [firstnN]. destruct (m =? 0) eqn:Em.
        -- exists (y :: l). split; [reflexivity|]. split; [reflexivity|]. cbn [lenN]. lia.
        -- cbn [lenN] in H. destruct (IHl (m - 1) ltac:(lia)) as (post & Hp & _ & Hl).
           exists post. cbn [app] in *. split; [f_equal; exact Hp|]. split; [reflexivity|].
           cbn [lenN]. rewrite Hl. lia.
    + cbn [lenN] in H. destruct (IH (i - 1) m ltac:(lia)) as (pre & post & Hp & Hpre & Hl).
      exists (x :: pre), post. unfold sliceN in *. cbn [skipN]. rewrite Ei.
      split; [cbn [app]; f_equal; exact Hp|]. split; [cbn [lenN]; lia|exact Hl].
Qed.

Lemma split_last_some : forall l, l <> [] -> exists w n, l = w ++ [n] /\ split_last l = Some (w, n).
Proof.
  induction l as [|x l IH]; intros H; [congruence|].
  destruct l as [|y l].
  - exists [], x. split; reflexivity.
  - destruct (IH ltac:(discriminate)) as (w & n & Hl & Hs). exists (x :: w), n.
    split; [cbn [app]; f_equal; exact Hl|]. cbn [split_last] in Hs |- *. rewrite Hs. reflexivity.
Qed.

Lemma lenN_0_nil : forall (A : Type) (l : list A), lenN l = 0 -> l = [].
Proof. intros A l H. destruct l; [reflexivity|]. cbn [lenN] in H. lia. Qed.

Lemma subsequence_iter_exact : forall packed start end_,
  start <= end_ -> end_ <= 2 * lenN packed ->
  sub_iter packed start end_ = firstnN (end_ - start) (skipN start (unpack_bases packed)).
Proof.
  intros packed start end_ Hse Hel. unfold sub_iter.
  destruct (start <? end_) eqn:Elt.
  2:{ assert (end_ = start) by lia. subst end_. replace (start - start) with 0 by lia. rewrite firstnN_0.
      cbn [split_last fst snd]. destruct (start mod 2 =? 0); destruct (start mod 2 =? 0); reflexivity. }
  set (i := start / 2). set (m := (end_ + 1) / 2 - i).
  destruct (sliceN_decomp packed i m ltac:(subst i m; lia)) as (pre & post & Hp & Hpre & Hwl).
  set (win := sliceN i m packed) in *.
  assert (HU : unpack_bases packed = unpack_bases pre ++ unpack_bases win ++ unpack_bases post).
  { rewrite Hp at 1. rewrite !unpack_app. reflexivity. }
  rewrite HU.
  assert (Hsk : forall s, start = 2 * i + s ->
            skipN start (unpack_bases pre ++ unpack_bases win ++ unpack_bases post)
            = skipN s (unpack_bases win ++ unpack_bases post)).
  { intros s Hs. rewrite Hs. rewrite <- Hpre. rewrite <- unpack_length. apply skipN_app_len. }
  destruct (end_ mod 2 =? 0) eqn:Ee; destruct (start mod 2 =? 0) eqn:Es; cbn [fst snd].
  - (* both even *)
    rewrite (Hsk 0) by (subst i; lia). rewrite skipN_0. rewrite app_nil_r. cbn [app].
    replace (end_ - start) with (lenN (unpack_bases win)) by (rewrite unpack_length, Hwl; subst i m; lia).
    symmetry. apply firstnN_app.
  - (* start odd, end even *)
    destruct win as [|n0 w] eqn:Ew; [cbn [lenN] in Hwl; subst i m; lia|].
    rewrite (Hsk 1) by (subst i; lia). cbn [unpack_bases app]. rewrite skipN_1_cons. rewrite app_nil_r.
    change (nth_base (n0 mod 16)) with (lo_base n0).
    replace (end_ - start) with (lenN (lo_base n0 :: unpack_bases w))
      by (cbn [lenN] in *; rewrite unpack_length; subst i m; lia).
    symmetry. apply (firstnN_app (lo_base n0 :: unpack_bases w)).
  - (* start even, end odd *)
    destruct (split_last_some win) as (w & n & Hwn & Hsl).
    { intros Hnil. rewrite Hnil in Hwl. cbn [lenN] in Hwl. subst i m. lia. }
    rewrite Hsl. cbn [fst snd app]. rewrite (Hsk 0) by (subst i; lia). rewrite skipN_0.
    rewrite Hwn, unpack_app. cbn [unpack_bases app]. change (nth_base ((n / 16) mod 16)) with (hi_base n).
    rewrite <- !app_assoc. cbn [app].
    replace (unpack_bases w ++ hi_base n :: nth_base (n mod 16) :: unpack_bases post)
      with ((unpack_bases w ++ [hi_base n]) ++ nth_base (n mod 16) :: unpack_bases post)
      by (rewrite <- app_assoc; reflexivity).
    replace (end_ - start) with (lenN (unpack_bases w ++ [hi_base n])).
    + symmetry. apply firstnN_app.
    + rewrite lenN_app, unpack_length. cbn [lenN]. rewrite Hwn, lenN_app in Hwl. cbn [lenN] in Hwl.
      subst i m. lia.
  - (* both odd *)
    destruct (split_last_some win) as (w & n & Hwn & Hsl).
    { intros Hnil. rewrite Hnil in Hwl. cbn [lenN] in Hwl. subst i m. lia. }
    rewrite Hsl. cbn [fst snd]. rewrite Hwn, lenN_app in Hwl. cbn [lenN] in Hwl.
    destruct w as [|n0 w']; [cbn [lenN] in Hwl; subst i m; lia|]. cbn [lenN] in Hwl.
    rewrite (Hsk 1) by (subst i; lia). rewrite Hwn, unpack_app. cbn [unpack_bases app].
    rewrite skipN_1_cons. change (nth_base (n0 mod 16)) with (lo_base n0).
    change (nth_base ((n / 16) mod 16)) with (hi_base n).
    rewrite <- !app_assoc. cbn [app].
    replace (lo_base n0 :: unpack_bases w' ++ hi_base n :: nth_base (n mod 16) :: unpack_bases post)
      with ((lo_base n0 :: unpack_bases w' ++ [hi_base n]) ++ nth_base (n mod 16) :: unpack_bases post)
      by (cbn [app]; rewrite <- app_assoc; reflexivity).
    replace (end_ - start) with (lenN (lo_base n0 :: unpack_bases w' ++ [hi_base n])).
    + symmetry. apply firstnN_app.
    + cbn [lenN]. rewrite lenN_app, unpack_length. cbn [lenN]. subst i m. lia.
Qed.
