(* C05 proofs about the BAM record codec model (Bam/Encode.v, Bam/Decode.v). *)
From Coq Require Import List NArith ZArith Bool Lia ZifyBool ZifyNat ZifyN.
From NV Require Import Index.Bins Bam.Record Bam.Encode Bam.Decode.
Import ListNotations.
Open Scope N_scope.
Ltac Zify.zify_post_hook ::= Z.div_mod_to_equations.
Arguments N.add : simpl never.
Arguments N.sub : simpl never.
Arguments N.mul : simpl never.
Arguments N.div : simpl never.
Arguments N.modulo : simpl never.
Arguments N.pow : simpl never.

(* ---------- little endian ---------- *)
Lemma pow256_S : forall w, pow256 (S w) = 256 * pow256 w.
Proof. intros w. unfold pow256. rewrite Nat2N.inj_succ. apply N.pow_succ_r'. Qed.

Lemma pow256_1 : pow256 1 = 256. Proof. reflexivity. Qed.
Lemma pow256_2 : pow256 2 = 65536. Proof. reflexivity. Qed.
Lemma pow256_4 : pow256 4 = 4294967296. Proof. reflexivity. Qed.

Lemma rdW_leW : forall w n r, n < pow256 w -> rdW w (leW w n ++ r) = Some (n, r).
Proof.
  induction w as [|w IH]; intros n r Hn.
  - unfold pow256 in Hn. cbn in Hn. cbn [leW rdW app]. f_equal. f_equal. lia.
  - rewrite pow256_S in Hn. cbn [leW rdW app].
    assert (Hq : n / 256 < pow256 w) by lia.
    rewrite (IH _ r Hq). f_equal. f_equal. lia.
Qed.

Lemma rd_leW : forall w n r, n < pow256 w -> rd w (leW w n ++ r) = Ok (n, r).
Proof. intros w n r Hn. unfold rd. rewrite rdW_leW by exact Hn. reflexivity. Qed.

Lemma leW_length : forall w n, lenN (leW w n) = N.of_nat w.
Proof. induction w as [|w IH]; intros n; cbn [leW lenN]; [reflexivity|]. rewrite IH. lia. Qed.

Lemma lenN_app : forall (A : Type) (a b : list A), lenN (a ++ b) = lenN a + lenN b.
Proof. induction a as [|x a IH]; intros b; cbn [app lenN]; [lia|]. rewrite IH. lia. Qed.

Lemma lenN_length : forall (A : Type) (a : list A), lenN a = N.of_nat (length a).
Proof. induction a as [|x a IH]; cbn [lenN length]; [reflexivity|]. rewrite IH. lia. Qed.

Lemma pow256_pos : forall w, 0 < pow256 w.
Proof. induction w as [|w IH]; [reflexivity|]. rewrite pow256_S. lia. Qed.

Lemma pow256_even : forall w, pow256 (S w) = 2 * (pow256 (S w) / 2).
Proof. intros w. rewrite pow256_S. lia. Qed.

Lemma to_unsigned_lt : forall w z, to_unsigned w z < pow256 w.
Proof. intros w z. unfold to_unsigned. pose proof (pow256_pos w). lia. Qed.

Lemma to_signed_unsigned : forall w z,
  (- Z.of_N (pow256 (S w) / 2) <= z < Z.of_N (pow256 (S w) / 2))%Z ->
  to_signed (S w) (to_unsigned (S w) z) = z.
Proof.
  intros w z Hz. unfold to_signed, to_unsigned.
  pose proof (pow256_even w) as He. pose proof (pow256_pos (S w)) as Hp.
  remember (pow256 (S w)) as P eqn:EP. remember (P / 2) as H eqn:EH.
  destruct (Z.ltb z 0) eqn:Ez.
  - assert (Hm : (z mod Z.of_N P = z + Z.of_N P)%Z).
    { symmetry. apply (Z.mod_unique z (Z.of_N P) (-1) (z + Z.of_N P)); lia. }
    rewrite Hm. destruct (Z.to_N (z + Z.of_N P) <? H) eqn:E; lia.
  - rewrite Z.mod_small by lia. destruct (Z.to_N z <? H) eqn:E; lia.
Qed.

Lemma to_unsigned_nonneg : forall w z, (0 <= z < Z.of_N (pow256 w))%Z -> to_unsigned w z = Z.to_N z.
Proof. intros w z Hz. unfold to_unsigned. f_equal. apply Z.mod_small. exact Hz. Qed.

(* ---------- takeN / firstnN ---------- *)
Lemma takeN_app : forall a r, takeN (lenN a) (a ++ r) = Some (a, r).
Proof.
  induction a as [|x a IH]; intros r.
  - destruct r; reflexivity.
  - cbn [lenN app takeN]. destruct (1 + lenN a =? 0) eqn:E; [lia|].
    replace (1 + lenN a - 1) with (lenN a) by lia. rewrite IH. reflexivity.
Qed.

Lemma take_app : forall a r n, n = lenN a -> take n (a ++ r) = Ok (a, r).
Proof. intros a r n Hn. subst n. unfold take. rewrite takeN_app. reflexivity. Qed.

Lemma firstnN_app : forall a r, firstnN (lenN a) (a ++ r) = a.
Proof.
  induction a as [|x a IH]; intros r.
  - destruct r; reflexivity.
  - cbn [lenN app firstnN]. destruct (1 + lenN a =? 0) eqn:E; [lia|].
    replace (1 + lenN a - 1) with (lenN a) by lia. rewrite IH. reflexivity.
Qed.

(* ---------- list_eqb ---------- *)
Lemma list_eqb_refl : forall a, list_eqb a a = true.
Proof.
  intros a. unfold list_eqb. rewrite N.eqb_refl. cbn [andb].
  induction a as [|x a IH]; [reflexivity|]. cbn [combine forallb fst snd]. rewrite N.eqb_refl. exact IH.
Qed.

Lemma list_eqb_eq : forall a b, list_eqb a b = true -> a = b.
Proof.
  induction a as [|x a IH]; intros b H; unfold list_eqb in H; destruct b as [|y b]; cbn [lenN] in H.
  - reflexivity.
  - exfalso. apply andb_true_iff in H. destruct H as [H _]. lia.
  - exfalso. apply andb_true_iff in H. destruct H as [H _]. lia.
  - apply andb_true_iff in H. destruct H as [Hl Hf]. cbn [combine forallb fst snd] in Hf.
    apply andb_true_iff in Hf. destruct Hf as [Hxy Hf]. apply N.eqb_eq in Hxy. subst y. f_equal.
    apply IH. unfold list_eqb. apply andb_true_iff. split; [lia|exact Hf].
Qed.

(* ---------- CIGAR ---------- *)
Definition op_ok (op : N * N) : Prop := fst op <= 8.

Lemma dec_op_enc : forall k l, k <= 8 -> l <= max_op_len ->
  l * 16 + k < pow256 4 /\ dec_op (l * 16 + k) = Ok (k, l).
Proof.
  intros k l Hk Hl. unfold max_op_len in Hl. rewrite pow256_4. split; [lia|].
  unfold dec_op. replace ((l * 16 + k) mod 16) with k by lia.
  replace ((l * 16 + k) / 16) with l by lia.
  destruct (k <=? 8) eqn:E; [reflexivity|lia].
Qed.

Lemma enc_cigar_ok_inv : forall op c bs, enc_cigar (op :: c) = Ok bs ->
  exists a b, enc_op op = Ok a /\ enc_cigar c = Ok b /\ bs = a ++ b.
Proof.
  intros op c bs H. cbn [enc_cigar] in H. destruct (enc_op op) as [a|e]; cbn [bindr] in H; [|discriminate].
  destruct (enc_cigar c) as [b|e]; cbn [bindr] in H; [|discriminate].
  injection H as H. eauto.
Qed.

Lemma enc_op_ok_inv : forall k l a, enc_op (k, l) = Ok a -> l <= max_op_len /\ a = leW 4 (l * 16 + k).
Proof.
  intros k l a H. unfold enc_op in H. destruct (l <=? max_op_len) eqn:E; [|discriminate].
  injection H as H. split; [lia|]. subst a. reflexivity.
Qed.

Lemma cigar_roundtrip : forall c bs fuel,
  Forall op_ok c -> enc_cigar c = Ok bs -> (length c <= fuel)%nat ->
  dec_ops fuel (lenN c) bs = Ok c.
Proof.
  induction c as [|[k l] c IH]; intros bs fuel Hok Henc Hf.
  - destruct fuel; reflexivity.
  - apply enc_cigar_ok_inv in Henc. destruct Henc as (a & b & Ha & Hb & Hbs).
    apply enc_op_ok_inv in Ha. destruct Ha as [Hl Ha]. subst a bs.
    inversion Hok as [|? ? Hk Hok']; subst. unfold op_ok in Hk. cbn [fst] in Hk.
    destruct fuel as [|fuel]; [cbn [length] in Hf; lia|].
    cbn [lenN dec_ops]. destruct (1 + lenN c =? 0) eqn:E; [lia|].
    destruct (dec_op_enc k l Hk Hl) as [Hlt Hd].
    rewrite rd_leW by exact Hlt. cbn [bindr]. rewrite Hd. cbn [bindr].
    replace (1 + lenN c - 1) with (lenN c) by lia.
    rewrite (IH b fuel Hok' Hb) by (cbn [length] in Hf; lia). reflexivity.
Qed.

Lemma enc_cigar_length : forall c bs, enc_cigar c = Ok bs -> lenN bs = 4 * lenN c.
Proof.
  induction c as [|[k l] c IH]; intros bs H.
  - injection H as H. subst bs. reflexivity.
  - apply enc_cigar_ok_inv in H. destruct H as (a & b & Ha & Hb & Hbs).
    apply enc_op_ok_inv in Ha. destruct Ha as [_ Ha]. subst a bs.
    rewrite lenN_app, leW_length, (IH b Hb). cbn [lenN]. lia.
Qed.

(* c05_reject_not_truncate, CIGAR part: an accepted operation is stored exactly *)
Lemma enc_op_exact : forall k l a, k <= 8 -> enc_op (k, l) = Ok a ->
  exists n, rdW 4 a = Some (n, []) /\ n / 16 = l /\ n mod 16 = k.
Proof.
  intros k l a Hk H. apply enc_op_ok_inv in H. destruct H as [Hl Ha]. subst a.
  destruct (dec_op_enc k l Hk Hl) as [Hlt _]. exists (l * 16 + k).
  rewrite <- (app_nil_r (leW 4 (l * 16 + k))). rewrite rdW_leW by exact Hlt.
  split; [reflexivity|]. lia.
Qed.

Lemma enc_op_rejects : forall k l, max_op_len < l -> enc_op (k, l) = Err InvalidInput.
Proof. intros k l H. unfold enc_op. destruct (l <=? max_op_len) eqn:E; [lia|reflexivity]. Qed.
