(* C05 proofs, wave 9: the DIRECT re-write of a lazy record (Bam/LazyRewrite.v) reproduces the block
   the writer produced, for every record with at most 65535 CIGAR operations. *)
From Coq Require Import List NArith ZArith Bool Lia ZifyBool ZifyNat ZifyN.
From NV Require Import Index.Bins Bam.Record Bam.Encode Bam.Decode Bam.Lazy Bam.LazyErr Bam.LazyRewrite
  Bam.CodecProofs Bam.AuxProofs Bam.LazyProofs Bam.LazyCigarProofs Bam.LazyDataProofs Bam.LazySwitchProofs
  Bam.LazyErrProofs Bam.RewriteProofs.
Import ListNotations.
Open Scope N_scope.
Ltac Zify.zify_post_hook ::= Z.div_mod_to_equations.
Arguments N.add : simpl never.
Arguments N.sub : simpl never.
Arguments N.mul : simpl never.
Arguments N.div : simpl never.
Arguments N.modulo : simpl never.
Arguments N.pow : simpl never.

(* ---------- slices of an append ---------- *)
Lemma skipN_pre : forall a (r : bytes), skipN (lenN a) (a ++ r) = r.
Proof. intros a r. replace (lenN a) with (lenN a + 0) by lia. rewrite skipN_app_len. apply skipN_0. Qed.

Lemma sliceN_mid : forall a b (r : bytes), sliceN (lenN a) (lenN b) (a ++ b ++ r) = b.
Proof. intros a b r. unfold sliceN. rewrite skipN_pre. apply firstnN_app. Qed.

Lemma field_mid : forall a x r w v, rdW w x = Some (v, []) -> field (lenN a) w (a ++ x ++ r) = v.
Proof. intros a x r w v H. unfold field. rewrite skipN_pre. rewrite (rdW_app w x v r H). reflexivity. Qed.

Lemma rdW_leW_nil : forall w n, n < pow256 w -> rdW w (leW w n) = Some (n, []).
Proof. intros w n H. rewrite <- (app_nil_r (leW w n)). apply rdW_leW. exact H. Qed.

(* ---------- the packed CIGAR the encoder wrote passes the kind check ---------- *)
Lemma packed_kinds_enc : forall c bs, Forall op_ok c -> enc_cigar c = Ok bs -> packed_kinds_ok bs = true.
Proof.
  induction c as [|[k l] c IH]; intros bs Hok H; cbn [enc_cigar] in H.
  - injection H as H. subst bs. reflexivity.
  - destruct (enc_op (k, l)) as [a|] eqn:Eo; cbn [bindr] in H; [|discriminate H].
    destruct (enc_cigar c) as [b|] eqn:Ec; cbn [bindr] in H; [|discriminate H].
    injection H as H. subst bs. inversion Hok as [|x y Hk Hr]; subst.
    destruct (enc_op_ok_inv _ _ _ Eo) as [_ Ha]. subst a. unfold op_ok in Hk. cbn [fst] in Hk.
    cbn [leW app packed_kinds_ok]. rewrite (IH b Hr eq_refl).
    assert (((l * 16 + k) mod 256) mod 16 <=? 8 = true) by lia. rewrite H. reflexivity.
Qed.

Lemma repeatN_repeatN : forall x s, repeatN x (repeatN x s) = repeatN x s.
Proof. intros x s. induction s as [|a s IH]; cbn [repeatN]; [reflexivity|]. rewrite IH. reflexivity. Qed.

(* ---------- main lemma: records without auxiliary data bytes that need validation are covered by
   the hypothesis [fe_valid dtb]; it is discharged below ---------- *)
Lemma lazy_rewrite_body_identity : forall nref r body,
  wf r -> wf_data (r_data r) -> NoDup (map fst (filter notCG (r_data r))) ->
  lenN (r_cigar r) <= 65535 ->
  (forall dtb, enc_data (r_data r) = Ok dtb -> fe_valid (length dtb) dtb = Ok tt) ->
  encode_body nref r = Ok body ->
  lazy_rewrite_body nref body = Some (Ok body).
Proof.
  intros nref r body Hwf Hwd Hnd Hc65 Hfe H.
  destruct (body_roundtrip nref r body Hwf Hwd Hnd H) as [Hdec Hval].
  pose proof (lazy_cigar_eq body _ Hval Hdec) as Hlcig.
  pose proof (lazy_cigar_len_eq body _ Hval Hdec) as Hlclen.
  destruct (decode_body_fields body _ Hdec) as
    (Frid & Fpos & Fmq & Ffl & Fmrid & Fmpos & Ftl & Fname & Fseq & Fqual & _).
  destruct (lazy_slices_ok body Hval) as (_ & Sname & Scr & Sseq & Squal & Sdr & _).
  destruct r as [name flags rid pos mapq cigar mrid mpos tlen sq ql dt].
  unfold wf in Hwf. unfold norm in *.
  cbn [r_name r_flags r_rid r_pos r_mapq r_cigar r_mrid r_mpos r_tlen r_seq r_qual r_data] in *.
  destruct Hwf as (Hfl & Hmq & Hpos & Hmpos & Htl & Hops).
  unfold encode_body in H.
  cbn [r_name r_flags r_rid r_pos r_mapq r_cigar r_mrid r_mpos r_tlen r_seq r_qual r_data] in H.
  bind_ok H ridb Erid. bind_ok H posb Epos. bind_ok H lnb Eln.
  unfold cigar_slot in H. destruct (lenN cigar <=? 65535) eqn:E65; [|lia].
  destruct (lenN sq <? 4294967296) eqn:Els; cbn [bindr] in H; [|discriminate H].
  bind_ok H mridb Emrid. bind_ok H mposb Empos. bind_ok H nameb Ename. bind_ok H cigb Ecig.
  bind_ok H sqb Esq. bind_ok H qlb Eql. bind_ok H dtb Edt. cbn [bindr] in H.
  specialize (Hfe dtb eq_refl).
  assert (Hbody : body = ridb ++ posb ++ lnb ++ enc_mapq mapq ++ leW 2 (bin_of pos cigar) ++
                         leW 2 (lenN cigar) ++ leW 2 flags ++ leW 4 (lenN sq) ++ mridb ++ mposb ++
                         enc_num 4 tlen ++ nameb ++ cigb ++ sqb ++ qlb ++ dtb)
    by (injection H as H; rewrite <- H; rewrite app_nil_r; reflexivity).
  clear H.
  destruct (rid_roundtrip _ _ _ Erid) as (n1 & Hridb & Hn1 & _).
  destruct (pos_roundtrip _ _ Hpos Epos) as (n2 & Hposb & Hn2 & _).
  destruct (rid_roundtrip _ _ _ Emrid) as (n3 & Hmridb & Hn3 & _).
  destruct (pos_roundtrip _ _ Hmpos Empos) as (n4 & Hmposb & Hn4 & _).
  destruct (enc_name_len_ok _ _ Eln) as (ln & Hlnb & Hln & Hln255).
  pose proof (enc_name_length _ _ Ename) as Hnl. rewrite <- Hln in Hnl.
  pose proof (enc_cigar_length _ _ Ecig) as Hcl.
  pose proof (pack_length sq) as Hpl.
  destruct (qual_roundtrip _ _ _ Eql) as [Hqll _].
  assert (Hsqb : sqb = pack_bases sq) by (apply (enc_seq_ok _ _ _ Esq)).
  (* the 32-byte head and the three counts *)
  set (H8 := ridb ++ posb).
  set (H12 := ridb ++ posb ++ lnb ++ enc_mapq mapq ++ leW 2 (bin_of pos cigar)).
  set (H16 := H12 ++ leW 2 (lenN cigar) ++ leW 2 flags).
  set (H32 := H16 ++ leW 4 (lenN sq) ++ mridb ++ mposb ++ enc_num 4 tlen).
  assert (L8 : lenN H8 = 8) by (unfold H8; subst ridb posb; rewrite lenN_app, !leW_length; reflexivity).
  assert (L12 : lenN H12 = 12).
  { unfold H12. subst ridb posb lnb. unfold enc_mapq. rewrite !lenN_app, !leW_length. cbn [lenN]. reflexivity. }
  assert (L16 : lenN H16 = 16) by (unfold H16; rewrite !lenN_app, !leW_length, L12; reflexivity).
  assert (L32 : lenN H32 = 32).
  { unfold H32. subst mridb mposb. unfold enc_num. rewrite !lenN_app, !leW_length, L16. reflexivity. }
  assert (B8 : body = H8 ++ lnb ++ (enc_mapq mapq ++ leW 2 (bin_of pos cigar) ++
                         leW 2 (lenN cigar) ++ leW 2 flags ++ leW 4 (lenN sq) ++ mridb ++ mposb ++
                         enc_num 4 tlen ++ nameb ++ cigb ++ sqb ++ qlb ++ dtb))
    by (rewrite Hbody; unfold H8; rewrite <- !app_assoc; reflexivity).
  assert (B12 : body = H12 ++ leW 2 (lenN cigar) ++ (leW 2 flags ++ leW 4 (lenN sq) ++ mridb ++ mposb ++
                         enc_num 4 tlen ++ nameb ++ cigb ++ sqb ++ qlb ++ dtb))
    by (rewrite Hbody; unfold H12; rewrite <- !app_assoc; reflexivity).
  assert (B16 : body = H16 ++ leW 4 (lenN sq) ++ (mridb ++ mposb ++
                         enc_num 4 tlen ++ nameb ++ cigb ++ sqb ++ qlb ++ dtb))
    by (rewrite Hbody; unfold H16, H12; rewrite <- !app_assoc; reflexivity).
  assert (B32 : body = H32 ++ nameb ++ cigb ++ sqb ++ qlb ++ dtb)
    by (rewrite Hbody; unfold H32, H16, H12; rewrite <- !app_assoc; reflexivity).
  assert (Vln : lz_lname body = ln).
  { unfold lz_lname. rewrite B8 at 1. rewrite <- L8. apply field_mid. subst lnb. cbn [rdW]. f_equal. f_equal. lia. }
  assert (Vnops : lz_nops body = lenN cigar).
  { unfold lz_nops. rewrite B12 at 1. rewrite <- L12. apply field_mid. apply rdW_leW_nil. rewrite pow256_2. lia. }
  assert (Vlseq : lz_lseq body = lenN sq).
  { unfold lz_lseq. rewrite B16 at 1. rewrite <- L16. apply field_mid. apply rdW_leW_nil. rewrite pow256_4. lia. }
  (* the variable-length slices *)
  assert (Vcr : lz_cigar_raw body = cigb).
  { unfold lz_cigar_raw. rewrite Vln, Vnops. rewrite B32 at 1.
    replace (32 + ln) with (lenN (H32 ++ nameb)) by (rewrite lenN_app, L32, Hnl; reflexivity).
    rewrite <- Hcl. rewrite app_assoc. apply sliceN_mid. }
  assert (Vsr : lz_seq_raw body = sqb).
  { unfold lz_seq_raw. rewrite Vln, Vnops, Vlseq. rewrite B32 at 1.
    replace (32 + ln + 4 * lenN cigar) with (lenN ((H32 ++ nameb) ++ cigb))
      by (rewrite !lenN_app, L32, Hnl, Hcl; reflexivity).
    replace ((lenN sq + 1) / 2) with (lenN sqb) by (rewrite Hsqb; exact Hpl).
    rewrite (app_assoc H32), (app_assoc (H32 ++ nameb)). apply sliceN_mid. }
  assert (Vqr : lz_qual_raw body = qlb).
  { unfold lz_qual_raw. rewrite Vln, Vnops, Vlseq. rewrite B32 at 1.
    replace (32 + ln + 4 * lenN cigar + (lenN sq + 1) / 2) with (lenN (((H32 ++ nameb) ++ cigb) ++ sqb))
      by (rewrite !lenN_app, L32, Hnl, Hcl, Hsqb, Hpl; reflexivity).
    rewrite <- Hqll.
    rewrite (app_assoc H32), (app_assoc (H32 ++ nameb)), (app_assoc ((H32 ++ nameb) ++ cigb)).
    apply sliceN_mid. }
  assert (Vdr : lz_data_raw body = dtb).
  { unfold lz_data_raw. rewrite Vln, Vnops, Vlseq. rewrite B32 at 1.
    replace (32 + ln + 4 * lenN cigar + (lenN sq + 1) / 2 + lenN sq) with (lenN ((((H32 ++ nameb) ++ cigb) ++ sqb) ++ qlb))
      by (rewrite !lenN_app, L32, Hnl, Hcl, Hsqb, Hpl, Hqll; reflexivity).
    rewrite (app_assoc H32), (app_assoc (H32 ++ nameb)), (app_assoc ((H32 ++ nameb) ++ cigb)),
      (app_assoc (((H32 ++ nameb) ++ cigb) ++ sqb)).
    apply skipN_pre. }
  (* no CG branch: the data block the encoder wrote has no CG field *)
  pose proof (dec_data_roundtrip dt dtb Hwd Edt Hnd) as Hdd.
  assert (Hrc : raw_cigar (length dtb) dtb = None).
  { pose proof (walk _ _ _ _ (length dtb) Hdd eq_refl (le_n _)) as Hw.
    rewrite find_tag_notCG in Hw. exact Hw. }
  assert (Hcgb : cg_branch body = false).
  { unfold cg_branch. rewrite Scr, Sdr, Vdr, Hrc. apply andb_false_r. }
  assert (Hbuf : lzp_cigar_buf body = Some cigb).
  { unfold lzp_cigar_buf. rewrite Scr, Sdr, Vdr, Hrc, Vcr. destruct (is_placeholder body cigb); reflexivity. }
  (* run the re-write *)
  unfold lazy_rewrite_body, lift, liftp.
  rewrite Frid, Erid, Fpos, Epos, Sname, Fname, Eln.
  assert (Hspan : (match pos with None => Some (Ok []) | Some _ => lzp_cigar body end) =
                  Some (Ok (match pos with None => [] | Some _ => cigar end))) by (destruct pos; [exact Hlcig|reflexivity]).
  rewrite Hspan.
  assert (Hbin : bin_of pos (match pos with None => [] | Some _ => cigar end) = bin_of pos cigar) by (destruct pos; reflexivity).
  rewrite Hbin.
  unfold lzp_seq_len. rewrite Vlseq.
  assert (Hss : lzp_slice (32 + lz_lname body + 4 * lz_nops body) ((lenN sq + 1) / 2) body = Some sqb).
  { pose proof Sseq as S. unfold lzp_seq in S. rewrite Vlseq in S.
    destruct (lzp_slice (32 + lz_lname body + 4 * lz_nops body) ((lenN sq + 1) / 2) body) as [raw|] eqn:El; [|discriminate S].
    f_equal. unfold lzp_slice in El. rewrite <- Vlseq in El.
    destruct (32 + lz_lname body + 4 * lz_nops body + (lz_lseq body + 1) / 2 <=? lenN body); [|discriminate El].
    injection El as El. rewrite <- El. exact Vsr. }
  rewrite Hss. cbn [option_map].
  rewrite Hlclen. cbn [fst]. rewrite E65. cbn [negb].
  rewrite Fmrid, Emrid, Fmpos, Empos, Ename, Hbuf. cbn [option_map].
  rewrite (packed_kinds_enc _ _ Hops Ecig). rewrite Hlcig.
  rewrite Ffl, Fmq, Ftl.
  assert (Hsq' : (if lenN sq =? 0 then Ok []
                  else if (0 <? read_length cigar) && negb (lenN sq =? read_length cigar) then Err InvalidInput else Ok sqb) = Ok sqb).
  { unfold enc_seq in Esq. destruct sq as [|b sq'].
    - injection Esq as Esq. subst sqb. reflexivity.
    - destruct (lenN (b :: sq') =? 0) eqn:E0; [cbn [lenN] in E0; lia|].
      destruct ((0 <? read_length cigar) && negb (lenN (b :: sq') =? read_length cigar)); [discriminate Esq|reflexivity]. }
  rewrite Hsq'. rewrite Squal, Fqual.
  assert (Hql' : (if lenN ql =? lenN sq then (if forallb (fun q => q <=? 93) ql then Ok ql else Err InvalidInput)
                  else match ql with
                       | [] => Ok (repeatN 255 (firstnN (lenN sq) (lz_qual_raw body)))
                       | _ => Err InvalidInput
                       end) = Ok qlb).
  { unfold enc_qual in Eql. destruct (lenN ql =? lenN sq); [exact Eql|].
    destruct ql; [|discriminate Eql]. injection Eql as Eql. rewrite Vqr. subst qlb.
    rewrite <- (repeatN_length 255 sq) at 1. rewrite <- (app_nil_r (repeatN 255 sq)) at 2.
    rewrite firstnN_app. rewrite repeatN_repeatN. reflexivity. }
  rewrite Hql'. rewrite Sdr, Hcgb, Vdr, Hfe. cbn [bindr].
  rewrite Hbody. rewrite app_nil_r. reflexivity.
Qed.

Lemma lazy_rewrite_body_identity_ov : forall nref r body,
  wf r -> wf_data (r_data r) -> NoDup (map fst (filter notCG (r_data r))) ->
  65535 < lenN (r_cigar r) ->
  encode_body nref r = Ok body ->
  lazy_rewrite_body nref body = Some (Ok body).
Proof.
  intros nref r body Hwf Hwd Hnd Hc65 H.
  destruct (body_roundtrip nref r body Hwf Hwd Hnd H) as [Hdec Hval].
  pose proof (lazy_cigar_eq body _ Hval Hdec) as Hlcig.
  pose proof (lazy_cigar_len_eq body _ Hval Hdec) as Hlclen.
  destruct (decode_body_fields body _ Hdec) as
    (Frid & Fpos & Fmq & Ffl & Fmrid & Fmpos & Ftl & Fname & Fseq & Fqual & _).
  destruct (lazy_slices_ok body Hval) as (_ & Sname & Scr & Sseq & Squal & Sdr & _).
  destruct r as [name flags rid pos mapq cigar mrid mpos tlen sq ql dt].
  unfold wf in Hwf. unfold norm in *.
  cbn [r_name r_flags r_rid r_pos r_mapq r_cigar r_mrid r_mpos r_tlen r_seq r_qual r_data] in *.
  destruct Hwf as (Hfl & Hmq & Hpos & Hmpos & Htl & Hops).
  unfold encode_body in H.
  cbn [r_name r_flags r_rid r_pos r_mapq r_cigar r_mrid r_mpos r_tlen r_seq r_qual r_data] in H.
  bind_ok H ridb Erid. bind_ok H posb Epos. bind_ok H lnb Eln.
  unfold cigar_slot in H. destruct (lenN cigar <=? 65535) eqn:E65; [lia|].
  destruct (lenN sq <? 4294967296) eqn:Els; cbn [bindr] in H; [|discriminate H].
  bind_ok H mridb Emrid. bind_ok H mposb Empos. bind_ok H nameb Ename. bind_ok H cigb Ecig.
  bind_ok H sqb Esq. bind_ok H qlb Eql. bind_ok H dtb Edt. bind_ok H cgb Ecg.
  assert (Hbody : body = ridb ++ posb ++ lnb ++ enc_mapq mapq ++ leW 2 (bin_of pos cigar) ++
                         leW 2 2 ++ leW 2 flags ++ leW 4 (lenN sq) ++ mridb ++ mposb ++
                         enc_num 4 tlen ++ nameb ++ cigb ++ sqb ++ qlb ++ dtb ++ cgb)
    by (injection H as H; rewrite <- H; reflexivity).
  clear H.
  destruct (rid_roundtrip _ _ _ Erid) as (n1 & Hridb & Hn1 & _).
  destruct (pos_roundtrip _ _ Hpos Epos) as (n2 & Hposb & Hn2 & _).
  destruct (rid_roundtrip _ _ _ Emrid) as (n3 & Hmridb & Hn3 & _).
  destruct (pos_roundtrip _ _ Hmpos Empos) as (n4 & Hmposb & Hn4 & _).
  destruct (enc_name_len_ok _ _ Eln) as (ln & Hlnb & Hln & Hln255).
  pose proof (enc_name_length _ _ Ename) as Hnl. rewrite <- Hln in Hnl.
  pose proof (enc_cigar_length _ _ Ecig) as Hcl. change (lenN [(4, lenN sq); (3, ref_span cigar)]) with 2 in Hcl.
  pose proof (pack_length sq) as Hpl.
  destruct (qual_roundtrip _ _ _ Eql) as [Hqll _].
  assert (Hsqb : sqb = pack_bases sq) by (apply (enc_seq_ok _ _ _ Esq)).
  (* the 32-byte head and the three counts *)
  set (H8 := ridb ++ posb).
  set (H12 := ridb ++ posb ++ lnb ++ enc_mapq mapq ++ leW 2 (bin_of pos cigar)).
  set (H16 := H12 ++ leW 2 2 ++ leW 2 flags).
  set (H32 := H16 ++ leW 4 (lenN sq) ++ mridb ++ mposb ++ enc_num 4 tlen).
  assert (L8 : lenN H8 = 8) by (unfold H8; subst ridb posb; rewrite lenN_app, !leW_length; reflexivity).
  assert (L12 : lenN H12 = 12).
  { unfold H12. subst ridb posb lnb. unfold enc_mapq. rewrite !lenN_app, !leW_length. cbn [lenN]. reflexivity. }
  assert (L16 : lenN H16 = 16) by (unfold H16; rewrite !lenN_app, !leW_length, L12; reflexivity).
  assert (L32 : lenN H32 = 32).
  { unfold H32. subst mridb mposb. unfold enc_num. rewrite !lenN_app, !leW_length, L16. reflexivity. }
  assert (B8 : body = H8 ++ lnb ++ (enc_mapq mapq ++ leW 2 (bin_of pos cigar) ++
                         leW 2 2 ++ leW 2 flags ++ leW 4 (lenN sq) ++ mridb ++ mposb ++
                         enc_num 4 tlen ++ nameb ++ cigb ++ sqb ++ qlb ++ dtb ++ cgb))
    by (rewrite Hbody; unfold H8; rewrite <- !app_assoc; reflexivity).
  assert (B12 : body = H12 ++ leW 2 2 ++ (leW 2 flags ++ leW 4 (lenN sq) ++ mridb ++ mposb ++
                         enc_num 4 tlen ++ nameb ++ cigb ++ sqb ++ qlb ++ dtb ++ cgb))
    by (rewrite Hbody; unfold H12; rewrite <- !app_assoc; reflexivity).
  assert (B16 : body = H16 ++ leW 4 (lenN sq) ++ (mridb ++ mposb ++
                         enc_num 4 tlen ++ nameb ++ cigb ++ sqb ++ qlb ++ dtb ++ cgb))
    by (rewrite Hbody; unfold H16, H12; rewrite <- !app_assoc; reflexivity).
  assert (B32 : body = H32 ++ nameb ++ cigb ++ sqb ++ qlb ++ dtb ++ cgb)
    by (rewrite Hbody; unfold H32, H16, H12; rewrite <- !app_assoc; reflexivity).
  assert (Vln : lz_lname body = ln).
  { unfold lz_lname. rewrite B8 at 1. rewrite <- L8. apply field_mid. subst lnb. cbn [rdW]. f_equal. f_equal. lia. }
  assert (Vnops : lz_nops body = 2).
  { unfold lz_nops. rewrite B12 at 1. rewrite <- L12. apply field_mid. apply rdW_leW_nil. rewrite pow256_2. lia. }
  assert (Vlseq : lz_lseq body = lenN sq).
  { unfold lz_lseq. rewrite B16 at 1. rewrite <- L16. apply field_mid. apply rdW_leW_nil. rewrite pow256_4. lia. }
  (* the variable-length slices *)
  assert (Vcr : lz_cigar_raw body = cigb).
  { unfold lz_cigar_raw. rewrite Vln, Vnops. rewrite B32 at 1.
    replace (32 + ln) with (lenN (H32 ++ nameb)) by (rewrite lenN_app, L32, Hnl; reflexivity).
    rewrite <- Hcl. rewrite app_assoc. apply sliceN_mid. }
  assert (Vsr : lz_seq_raw body = sqb).
  { unfold lz_seq_raw. rewrite Vln, Vnops, Vlseq. rewrite B32 at 1.
    replace (32 + ln + 4 * 2) with (lenN ((H32 ++ nameb) ++ cigb))
      by (rewrite !lenN_app, L32, Hnl, Hcl; reflexivity).
    replace ((lenN sq + 1) / 2) with (lenN sqb) by (rewrite Hsqb; exact Hpl).
    rewrite (app_assoc H32), (app_assoc (H32 ++ nameb)). apply sliceN_mid. }
  assert (Vqr : lz_qual_raw body = qlb).
  { unfold lz_qual_raw. rewrite Vln, Vnops, Vlseq. rewrite B32 at 1.
    replace (32 + ln + 4 * 2 + (lenN sq + 1) / 2) with (lenN (((H32 ++ nameb) ++ cigb) ++ sqb))
      by (rewrite !lenN_app, L32, Hnl, Hcl, Hsqb, Hpl; reflexivity).
    rewrite <- Hqll.
    rewrite (app_assoc H32), (app_assoc (H32 ++ nameb)), (app_assoc ((H32 ++ nameb) ++ cigb)).
    apply sliceN_mid. }
  assert (Vdr : lz_data_raw body = dtb ++ cgb).
  { unfold lz_data_raw. rewrite Vln, Vnops, Vlseq. rewrite B32 at 1.
    replace (32 + ln + 4 * 2 + (lenN sq + 1) / 2 + lenN sq) with (lenN ((((H32 ++ nameb) ++ cigb) ++ sqb) ++ qlb))
      by (rewrite !lenN_app, L32, Hnl, Hcl, Hsqb, Hpl, Hqll; reflexivity).
    rewrite (app_assoc H32), (app_assoc (H32 ++ nameb)), (app_assoc ((H32 ++ nameb) ++ cigb)),
      (app_assoc (((H32 ++ nameb) ++ cigb) ++ sqb)).
    apply skipN_pre. }
  (* the CG branch is taken: otherwise cigar() would have 2 operations *)
  assert (Hcgb : cg_branch body = true).
  { destruct (cg_branch body) eqn:Ecb; [reflexivity|exfalso].
    unfold cg_branch in Ecb. rewrite Scr, Sdr in Ecb.
    unfold lzp_cigar_len, lzp_cigar_buf in Hlclen. rewrite Scr, Sdr in Hlclen.
    assert (Hl2 : option_map (fun buf : bytes => (lenN buf / 4, lenN buf =? 0)) (Some (lz_cigar_raw body)) =
                  Some (lenN cigar, lenN cigar =? 0)).
    { destruct (is_placeholder body (lz_cigar_raw body)); [|exact Hlclen].
      destruct (raw_cigar (length (lz_data_raw body)) (lz_data_raw body)); [discriminate Ecb|exact Hlclen]. }
    cbn [option_map] in Hl2. rewrite Vcr, Hcl in Hl2. injection Hl2 as Hl2 _. lia. }
  (* the lazily listed fields: the user's fields and then the CG array *)
  pose proof (dec_data_cg dt dtb cigar cgb Hwd Edt Hnd Hops Ecg) as Hdd.
  destruct (lz_fields_eq _ _ _ _ (length (dtb ++ cgb)) Hdd (le_n _)) as (more & Hm & Hlf).
  cbn [app] in Hm. subst more. rewrite lz_fields_collapse in Hlf.
  assert (Hdk : lzp_data_k body = Some (filter notCG dt, None)).
  { unfold lzp_data_k. rewrite Sdr, Vdr. cbn [option_map].
    destruct (lz_fields_k (length (dtb ++ cgb)) (dtb ++ cgb)) as [fs e]. cbn [fst snd] in Hlf.
    injection Hlf as Hfs He. subst fs. destruct e; [discriminate He|].
    rewrite Hcgb. change (cg_repaired && true) with true. cbv iota.
    rewrite (filter_cg_last _ _ (find_tag_notCG dt)). reflexivity. }
  (* run the re-write *)
  unfold lazy_rewrite_body, lift, liftp.
  rewrite Frid, Erid, Fpos, Epos, Sname, Fname, Eln.
  assert (Hspan : (match pos with None => Some (Ok []) | Some _ => lzp_cigar body end) =
                  Some (Ok (match pos with None => [] | Some _ => cigar end))) by (destruct pos; [exact Hlcig|reflexivity]).
  rewrite Hspan.
  assert (Hbin : bin_of pos (match pos with None => [] | Some _ => cigar end) = bin_of pos cigar) by (destruct pos; reflexivity).
  rewrite Hbin.
  unfold lzp_seq_len. rewrite Vlseq.
  assert (Hss : lzp_slice (32 + lz_lname body + 4 * lz_nops body) ((lenN sq + 1) / 2) body = Some sqb).
  { pose proof Sseq as S. unfold lzp_seq in S. rewrite Vlseq in S.
    destruct (lzp_slice (32 + lz_lname body + 4 * lz_nops body) ((lenN sq + 1) / 2) body) as [raw|] eqn:El; [|discriminate S].
    f_equal. unfold lzp_slice in El. rewrite <- Vlseq in El.
    destruct (32 + lz_lname body + 4 * lz_nops body + (lz_lseq body + 1) / 2 <=? lenN body); [|discriminate El].
    injection El as El. rewrite <- El. exact Vsr. }
  rewrite Hss. cbn [option_map].
  rewrite Hlclen. cbn [fst]. rewrite E65. cbn [negb].
  rewrite Hlcig.
  rewrite Fmrid, Emrid, Fmpos, Empos, Ename, Ecig.
  rewrite Ffl, Fmq, Ftl.
  assert (Hsq' : (if lenN sq =? 0 then Ok []
                  else if (0 <? read_length cigar) && negb (lenN sq =? read_length cigar) then Err InvalidInput else Ok sqb) = Ok sqb).
  { unfold enc_seq in Esq. destruct sq as [|b sq'].
    - injection Esq as Esq. subst sqb. reflexivity.
    - destruct (lenN (b :: sq') =? 0) eqn:E0; [cbn [lenN] in E0; lia|].
      destruct ((0 <? read_length cigar) && negb (lenN (b :: sq') =? read_length cigar)); [discriminate Esq|reflexivity]. }
  rewrite Hsq'. rewrite Squal, Fqual.
  assert (Hql' : (if lenN ql =? lenN sq then (if forallb (fun q => q <=? 93) ql then Ok ql else Err InvalidInput)
                  else match ql with
                       | [] => Ok (repeatN 255 (firstnN (lenN sq) (lz_qual_raw body)))
                       | _ => Err InvalidInput
                       end) = Ok qlb).
  { unfold enc_qual in Eql. destruct (lenN ql =? lenN sq); [exact Eql|].
    destruct ql; [|discriminate Eql]. injection Eql as Eql. rewrite Vqr. subst qlb.
    rewrite <- (repeatN_length 255 sq) at 1. rewrite <- (app_nil_r (repeatN 255 sq)) at 2.
    rewrite firstnN_app. rewrite repeatN_repeatN. reflexivity. }
  rewrite Hql'. rewrite Sdr, Hcgb, Hdk.
  unfold notCG. rewrite enc_data_filter, Edt. cbn [bindr]. rewrite Ecg.
  rewrite Hbody. reflexivity.
Qed.

(* ---------- the data block the encoder writes passes encoder/data.rs::validate ---------- *)
Lemma fe_valid_num : forall ty w sg f t0 t1 r, num_width ty = Some (w, sg) ->
  fe_valid (S f) (t0 :: t1 :: ty :: r) =
  match takeN (N.of_nat w) r with Some (_, r') => fe_valid f r' | None => Err UnexpectedEof end.
Proof.
  intros ty w sg f t0 t1 r H. unfold num_width in H.
  destruct (ty =? tyA) eqn:E1; [apply N.eqb_eq in E1; subst ty; injection H as H1 H2; subst w sg; reflexivity|].
  destruct (ty =? tyc) eqn:E2; [apply N.eqb_eq in E2; subst ty; injection H as H1 H2; subst w sg; reflexivity|].
  destruct (ty =? tyC) eqn:E3; [apply N.eqb_eq in E3; subst ty; injection H as H1 H2; subst w sg; reflexivity|].
  destruct (ty =? tys) eqn:E4; [apply N.eqb_eq in E4; subst ty; injection H as H1 H2; subst w sg; reflexivity|].
  destruct (ty =? tyS) eqn:E5; [apply N.eqb_eq in E5; subst ty; injection H as H1 H2; subst w sg; reflexivity|].
  destruct (ty =? tyi) eqn:E6; [apply N.eqb_eq in E6; subst ty; injection H as H1 H2; subst w sg; reflexivity|].
  destruct (ty =? tyI) eqn:E7; [apply N.eqb_eq in E7; subst ty; injection H as H1 H2; subst w sg; reflexivity|].
  destruct (ty =? tyf) eqn:E8; [apply N.eqb_eq in E8; subst ty; injection H as H1 H2; subst w sg; reflexivity|].
  discriminate H.
Qed.

Lemma takeN_app_len : forall a (r : bytes) n, n = lenN a -> takeN n (a ++ r) = Some (a, r).
Proof. intros a r n H. subst n. apply takeN_app. Qed.

Lemma enc_elems_lenN : forall w vs, lenN (enc_elems w vs) = lenN vs * N.of_nat w.
Proof. intros w vs. rewrite !lenN_length, enc_elems_length. lia. Qed.

Lemma fe_valid_enc : forall d bs f, enc_data d = Ok bs -> (length bs <= f)%nat -> fe_valid f bs = Ok tt.
Proof.
  induction d as [|[[t0 t1] v] d IH]; intros bs f H Hf; cbn [enc_data] in H.
  - injection H as H. subst bs. destruct f; reflexivity.
  - destruct (tag_eqb (t0, t1) CG); [apply (IH _ _ H Hf)|].
    destruct (enc_value v) as [a|] eqn:Ev; cbn [bindr] in H; [|discriminate H].
    destruct (enc_data d) as [b|] eqn:Ed; cbn [bindr] in H; [|discriminate H].
    injection H as H. subst bs. cbn [fst snd] in *.
    destruct f as [|f]; [cbn [length] in Hf; lia|].
    cbn [length] in Hf. rewrite app_length in Hf.
    destruct v as [ty z|ty s|sub vs]; cbn [enc_value] in Ev.
    + destruct (num_width ty) as [[w sg]|] eqn:Ew; [|discriminate Ev]. injection Ev as Ev. subst a.
      cbn [app]. rewrite (fe_valid_num _ _ _ _ _ _ _ Ew).
      rewrite takeN_app_len by (unfold enc_num; rewrite leW_length; reflexivity).
      apply (IH _ _ eq_refl). cbn [length] in Hf. lia.
    + destruct (ty =? tyZ) eqn:EZ.
      * apply N.eqb_eq in EZ. subst ty. destruct (forallb is_print s) eqn:Ep; [|discriminate Ev].
        injection Ev as Ev. subst a. cbn [app].
        change (fe_valid (S f) (t0 :: t1 :: tyZ :: (s ++ [0]) ++ b)) with
          (match split_nul ((s ++ [0]) ++ b) with
           | None => Err UnexpectedEof
           | Some (s0, r') => if forallb is_print s0 then fe_valid f r' else Err InvalidInput
           end).
        replace ((s ++ [0]) ++ b) with (s ++ 0 :: b) by (rewrite <- app_assoc; reflexivity).
        rewrite split_nul_app by (apply (forallb_impl is_print); [exact print_nonzero|exact Ep]).
        rewrite Ep. apply (IH _ _ eq_refl). cbn [length] in Hf. lia.
      * destruct (ty =? tyH) eqn:EH; [|discriminate Ev]. apply N.eqb_eq in EH. subst ty.
        destruct ((lenN s mod 2 =? 0) && forallb is_hexdigit s) eqn:Ep; [|discriminate Ev].
        injection Ev as Ev. subst a. cbn [app].
        change (fe_valid (S f) (t0 :: t1 :: tyH :: (s ++ [0]) ++ b)) with
          (match split_nul ((s ++ [0]) ++ b) with
           | None => Err UnexpectedEof
           | Some (s0, r') =>
               if (lenN s0 mod 2 =? 0) && forallb is_hexdigit_upper s0 then fe_valid f r' else Err InvalidInput
           end).
        replace ((s ++ [0]) ++ b) with (s ++ 0 :: b) by (rewrite <- app_assoc; reflexivity).
        apply andb_true_iff in Ep. destruct Ep as [Ep1 Ep2].
        rewrite split_nul_app by (apply (forallb_impl is_hexdigit); [exact hexdigit_nonzero|exact Ep2]).
        change is_hexdigit_upper with is_hexdigit. rewrite Ep1, Ep2. cbn [andb].
        apply (IH _ _ eq_refl). cbn [length] in Hf. lia.
    + destruct (sub_width sub) as [[w sg]|] eqn:Ew; [|discriminate Ev].
      destruct (lenN vs <? 4294967296) eqn:El; [|discriminate Ev].
      remember (leW 4 (lenN vs)) as cw eqn:Ecw in Ev. injection Ev as Ev. subst a. cbn [app].
      change (fe_valid (S f) (t0 :: t1 :: tyB :: sub :: (cw ++ enc_elems w vs) ++ b)) with
        (match rdW 4 ((cw ++ enc_elems w vs) ++ b) with
         | None => Err UnexpectedEof
         | Some (cnt, r2) =>
           match sub_width sub with
           | None => Err InvalidInput
           | Some (w0, _) =>
             match takeN (cnt * N.of_nat w0) r2 with
             | Some (_, r') => fe_valid f r'
             | None => Err UnexpectedEof
             end
           end
         end).
      replace ((cw ++ enc_elems w vs) ++ b) with (cw ++ enc_elems w vs ++ b) by (rewrite <- app_assoc; reflexivity).
      assert (Hr : rdW 4 (cw ++ enc_elems w vs ++ b) = Some (lenN vs, enc_elems w vs ++ b))
        by (rewrite Ecw; apply rdW_leW; rewrite pow256_4; lia).
      rewrite Hr. rewrite Ew.
      rewrite takeN_app_len by (symmetry; apply enc_elems_lenN).
      apply (IH _ _ eq_refl). cbn [length] in Hf. rewrite app_length in Hf. lia.
Qed.

(* ---------- the identity ---------- *)
Theorem lazy_rewrite_identity : forall nref r block,
  wf r -> wf_data (r_data r) -> NoDup (map fst (r_data r)) ->
  lenN (r_cigar r) <= 65535 ->
  encode nref r = Ok block ->
  exists body, block = leW 4 (lenN body) ++ body /\ validate body = Ok tt /\
               lazy_rewrite nref body = Some (Ok block).
Proof.
  intros nref r block Hwf Hwd Hnd Hc H. unfold encode in H.
  destruct (encode_body nref r) as [body|] eqn:Eb; cbn [bindr] in H; [|discriminate H].
  destruct (lenN body <? 4294967296) eqn:El; [|discriminate H]. injection H as H. subst block.
  exists body. split; [reflexivity|].
  pose proof (NoDup_map_filter _ notCG Hnd) as Hnd'.
  split; [apply (body_roundtrip nref r body Hwf Hwd Hnd' Eb)|].
  unfold lazy_rewrite.
  rewrite (lazy_rewrite_body_identity nref r body Hwf Hwd Hnd' Hc); [rewrite El; reflexivity| |exact Eb].
  intros dtb Hd. apply (fe_valid_enc _ _ _ Hd (le_n _)).
Qed.

(* ---------- the identity for every record the writer accepts (any CIGAR length) ---------- *)
Theorem lazy_rewrite_identity_full : forall nref r block,
  wf r -> wf_data (r_data r) -> NoDup (map fst (r_data r)) ->
  encode nref r = Ok block ->
  exists body, block = leW 4 (lenN body) ++ body /\ validate body = Ok tt /\
               lazy_rewrite nref body = Some (Ok block).
Proof.
  intros nref r block Hwf Hwd Hnd H.
  destruct (lenN (r_cigar r) <=? 65535) eqn:E65.
  - apply (lazy_rewrite_identity nref r block Hwf Hwd Hnd); [lia|exact H].
  - unfold encode in H.
    destruct (encode_body nref r) as [body|] eqn:Eb; cbn [bindr] in H; [|discriminate H].
    destruct (lenN body <? 4294967296) eqn:El; [|discriminate H]. injection H as H. subst block.
    exists body. split; [reflexivity|].
    pose proof (NoDup_map_filter _ notCG Hnd) as Hnd'.
    split; [apply (body_roundtrip nref r body Hwf Hwd Hnd' Eb)|].
    unfold lazy_rewrite.
    rewrite (lazy_rewrite_body_identity_ov nref r body Hwf Hwd Hnd'); [rewrite El; reflexivity|lia|exact Eb].
Qed.
