(* C05 file level through BGZF, the entry points the correspondence check runs: the uncompressed
   stream handed to C01's model of bgzf::io::Writer at CompressionLevel::NONE (stored blocks) and
   finished, and C01's model of bgzf::io::Reader::read_to_end with the executable inflater.
   Definitions only; NV.Bgzf.* is C01's (read-only). *)
From Coq Require Import List NArith.
From NV Require Import Bam.Record.
From NV Require Bgzf.Frame Bgzf.Writer Bgzf.Reader Bgzf.Inflate.
Import ListNotations.

Definition bgzf_file_l0 (bs : bytes) : bytes :=
  Bgzf.Writer.o_sink
    (Bgzf.Writer.run_script Bgzf.Inflate.deflate_l0 0%N [Bgzf.Writer.OWriteAll bs] Bgzf.Writer.EFinish).

Definition bgzf_read_l0 (file : bytes) : option bytes :=
  match Bgzf.Reader.reader_read_to_end Bgzf.Inflate.inflate file with
  | (un, Bgzf.Frame.Ok _) => Some un
  | _ => None
  end.
