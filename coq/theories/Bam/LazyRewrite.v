(* C05 model of the DIRECT re-write of a lazy bam::Record: io/writer.rs::write_alignment_record(header,
   &bam::Record) = record/codec/encoder.rs::encode over the sam::alignment::Record impl of
   bam::Record (record.rs), which hands the encoder borrowed views:
     cigar_ref          = CigarRef::FourBytePacked(cigar().as_bytes())   (kinds checked, bytes copied)
     sequence_ref       = SequenceRef::FourBitPacked(packed slice, l_seq)  (bytes copied)
     quality_scores_ref = QualityScoresRef::Raw(quality_scores().as_bytes()) (scores checked, copied)
     data_ref           = DataRef::FieldEncoded(raw data block)  (encoder/data.rs::validate, copied)
                          or, when cigar() came from the CG field (Data::has_overflowing_cigar),
                          DataRef::Data(lazy data without CG) written field by field.
   None = a panic of a lazy accessor (none on a validated body); errors carry their io::ErrorKind
   where the order of checks is modelled (the correspondence check compares them collapsed).
   Definitions only. *)
From Coq Require Import List NArith ZArith Bool.
From NV Require Import Index.Bins Bam.Record Bam.Encode Bam.Decode Bam.Lazy Bam.LazyErr.
Import ListNotations.
Open Scope N_scope.

(* encoder/cigar.rs::write_four_byte_packed_cigar: every chunk's kind nibble <= 8 *)
Fixpoint packed_kinds_ok (bs : bytes) : bool :=
  match bs with
  | b0 :: _ :: _ :: _ :: r => (b0 mod 16 <=? 8) && packed_kinds_ok r
  | _ => true
  end.

(* encoder/data.rs::validate of a field-encoded data block *)
Definition is_hexdigit_upper (b : N) : bool := ((48 <=? b) && (b <=? 57)) || ((65 <=? b) && (b <=? 70)).

Fixpoint fe_valid (fuel : nat) (bs : bytes) : res unit :=
  match bs with
  | [] => Ok tt
  | _ =>
    match fuel with
    | O => Err InvalidData
    | S f =>
      match bs with
      | _ :: _ :: ty :: r =>
          if (ty =? tyA) || (ty =? tyc) || (ty =? tyC) then
            match takeN 1 r with Some (_, r') => fe_valid f r' | None => Err UnexpectedEof end
          else if (ty =? tys) || (ty =? tyS) then
            match takeN 2 r with Some (_, r') => fe_valid f r' | None => Err UnexpectedEof end
          else if (ty =? tyi) || (ty =? tyI) || (ty =? tyf) then
            match takeN 4 r with Some (_, r') => fe_valid f r' | None => Err UnexpectedEof end
          else if ty =? tyZ then
            match split_nul r with
            | None => Err UnexpectedEof
            | Some (s, r') => if forallb is_print s then fe_valid f r' else Err InvalidInput
            end
          else if ty =? tyH then
            match split_nul r with
            | None => Err UnexpectedEof
            | Some (s, r') =>
                if (lenN s mod 2 =? 0) && forallb is_hexdigit_upper s then fe_valid f r' else Err InvalidInput
            end
          else if ty =? tyB then
            match r with
            | [] => Err UnexpectedEof
            | sub :: r1 =>
              match rdW 4 r1 with
              | None => Err UnexpectedEof
              | Some (cnt, r2) =>
                match sub_width sub with
                | None => Err InvalidInput
                | Some (w, _) =>
                  match takeN (cnt * N.of_nat w) r2 with
                  | Some (_, r') => fe_valid f r'
                  | None => Err UnexpectedEof
                  end
                end
              end
            end
          else Err InvalidInput
      | _ => Err UnexpectedEof
      end
    end
  end.

Definition lift {A : Type} (r : res A) (k : A -> option (res bytes)) : option (res bytes) :=
  match r with Ok a => k a | Err e => Some (Err e) end.
Definition liftp {A : Type} (o : option A) (k : A -> option (res bytes)) : option (res bytes) :=
  match o with Some a => k a | None => None end.

Notation "'doe' x '<-' r ';' k" := (lift r (fun x => k))
  (at level 200, x name, r at level 100, k at level 200, right associativity).
Notation "'dop' x '<-' r ';' k" := (liftp r (fun x => k))
  (at level 200, x name, r at level 100, k at level 200, right associativity).

Definition lazy_rewrite_body (nref : N) (bs : bytes) : option (res bytes) :=
  doe rid <- lz_rid bs; doe ridb <- enc_rid nref rid;
  doe pos <- lz_pos bs; doe posb <- enc_pos pos;
  dop name <- lzp_name bs; doe lnb <- enc_name_len name;
  let mapqb := enc_mapq (lz_mapq bs) in
  (* alignment_end: only when there is a start; iterates cigar() *)
  dop span_r <- (match pos with None => Some (Ok []) | Some _ => lzp_cigar bs end);
  doe span_ops <- span_r;
  let binb := leW 2 (bin_of pos span_ops) in
  dop base_count <- lzp_seq_len bs;
  dop nlen <- lzp_cigar_len bs;
  let overflow := negb (fst nlen <=? 65535) in
  dop ov_r <- (if overflow then lzp_cigar bs else Some (Ok []));
  doe ov_ops <- ov_r;
  let nopsb := leW 2 (if overflow then 2 else fst nlen) in
  let flagsb := leW 2 (lz_flags bs) in
  let lseqb := leW 4 base_count in
  doe mrid <- lz_mrid bs; doe mridb <- enc_rid nref mrid;
  doe mpos <- lz_mpos bs; doe mposb <- enc_pos mpos;
  let tlenb := enc_num 4 (lz_tlen bs) in
  doe nameb <- enc_name name;
  dop cig_r <- (if overflow then Some (enc_cigar [(4, base_count); (3, ref_span ov_ops)])
                else option_map (fun raw => if packed_kinds_ok raw then Ok raw else Err InvalidInput)
                                (lzp_cigar_buf bs));
  doe cigb <- cig_r;
  (* read_length = cigar().read_length()? *)
  dop rl_r <- lzp_cigar bs;
  doe rl_ops <- rl_r;
  let read_len := read_length rl_ops in
  dop sraw <- lzp_slice (32 + lz_lname bs + 4 * lz_nops bs) ((lz_lseq bs + 1) / 2) bs;
  doe sqb <- (if base_count =? 0 then Ok []
              else if (0 <? read_len) && negb (base_count =? read_len) then Err InvalidInput else Ok sraw);
  dop ql <- lzp_qual bs;
  doe qlb <- (if lenN ql =? base_count then (if forallb (fun q => q <=? 93) ql then Ok ql else Err InvalidInput)
              else match ql with
                   | [] => Ok (repeatN 255 (firstnN base_count (lz_qual_raw bs)))
                   | _ => Err InvalidInput
                   end);
  dop draw <- lzp_data_raw bs;
  doe dtb <- (if cg_branch bs then
                match lzp_data_k bs with
                | Some (fs, e) => let* a := enc_data fs in match e with Some k => Err k | None => Ok a end
                | None => Err InvalidData
                end
              else let* _ := fe_valid (length draw) draw in Ok draw);
  doe cgb <- (if overflow then enc_cg ov_ops else Ok []);
  Some (Ok (ridb ++ posb ++ lnb ++ mapqb ++ binb ++ nopsb ++ flagsb ++ lseqb ++ mridb ++ mposb ++ tlenb
            ++ nameb ++ cigb ++ sqb ++ qlb ++ dtb ++ cgb)).

(* io/writer.rs::write_alignment_record *)
Definition lazy_rewrite (nref : N) (bs : bytes) : option (res bytes) :=
  match lazy_rewrite_body nref bs with
  | Some (Ok body) => Some (if lenN body <? 4294967296 then Ok (leW 4 (lenN body) ++ body) else Err InvalidInput)
  | x => x
  end.
