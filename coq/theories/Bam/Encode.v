(* C05 model of noodles-bam/src/record/codec/encoder.rs and encoder/**, and of
   io/writer.rs::write_alignment_record (block_size framing), for a RecordBuf input.
   Every rejection of the Rust code is an [Err InvalidInput]; every width-limited store is
   written out (checked conversions are explicit tests, `as` casts explicit [mod]).
   Definitions only. *)
From Coq Require Import List NArith ZArith Bool.
From NV Require Import Index.Bins Bam.Record.
Import ListNotations.
Open Scope N_scope.

Definition i32_max : N := 2147483647.
Definition minus1_32 : bytes := [255; 255; 255; 255].

(* encoder/reference_sequence_id.rs: id < header.reference_sequences().len(), i32::try_from *)
Definition enc_rid (nref : N) (o : option N) : res bytes :=
  match o with
  | None => Ok minus1_32
  | Some id => if id <? nref
               then (if id <=? i32_max then Ok (leW 4 id) else Err InvalidInput)
               else Err InvalidInput
  end.

(* encoder/position.rs: usize::from(position) - 1, i32::try_from *)
Definition enc_pos (o : option N) : res bytes :=
  match o with
  | None => Ok minus1_32
  | Some p => let m := p - 1 in if m <=? i32_max then Ok (leW 4 m) else Err InvalidInput
  end.

(* encoder/name.rs::write_length: len + 1 must fit u8 *)
Definition enc_name_len (o : option bytes) : res bytes :=
  let len := (match o with Some s => lenN s | None => 1 end) + 1 in
  if len <=? 255 then Ok [len] else Err InvalidInput.

Definition is_graphic_not_at (b : N) : bool := (33 <=? b) && (b <=? 126) && negb (b =? 64).

Definition list_eqb (a b : bytes) : bool :=
  (lenN a =? lenN b) && forallb (fun p => fst p =? snd p) (combine a b).

Definition name_valid (s : bytes) : bool :=
  (1 <=? lenN s) && (lenN s <=? 254) && negb (list_eqb s [42]) && forallb is_graphic_not_at s.

(* encoder/name.rs::write_name *)
Definition enc_name (o : option bytes) : res bytes :=
  match o with
  | None => Ok [42; 0]
  | Some s => if name_valid s then Ok (s ++ [0]) else Err InvalidInput
  end.

Definition enc_mapq (o : option N) : bytes := [match o with Some q => q | None => 255 end].

(* Record::alignment_end + encoder/bin.rs: region_to_bin is the five-level chain of
   reg2bin 14 5 (for every usize input), followed by the truncating cast `bin as u16` *)
Definition alignment_end (start : N) (c : list (N * N)) : N :=
  let span := ref_span c in if span =? 0 then start else start + span - 1.

Definition bin_of (pos : option N) (c : list (N * N)) : N :=
  match pos with
  | None => 4680
  | Some s => (reg2bin 14 5 s (alignment_end s c)) mod 65536
  end.

(* encoder/cigar/op.rs *)
Definition max_op_len : N := 268435455.
Definition enc_op (op : N * N) : res bytes :=
  let (k, l) := op in
  if l <=? max_op_len then Ok (leW 4 (l * 16 + k)) else Err InvalidInput.

Fixpoint enc_cigar (c : list (N * N)) : res bytes :=
  match c with
  | [] => Ok []
  | op :: r => let* a := enc_op op in let* b := enc_cigar r in Ok (a ++ b)
  end.

(* encoder/cigar.rs::overflowing_write_cigar_op_count: the count written and the CIGAR that
   goes into the cigar slot; true = overflow (CG tag appended) *)
Definition cigar_slot (base_count : N) (c : list (N * N)) : (N * list (N * N) * bool) :=
  if lenN c <=? 65535 then (lenN c, c, false)
  else (2, [(4, base_count); (3, ref_span c)], true).

(* encoder/sequence.rs *)
Definition BASES : bytes := [61; 65; 67; 77; 71; 82; 83; 86; 84; 87; 89; 72; 75; 68; 66; 78].
Definition to_lower (b : N) : N := if (65 <=? b) && (b <=? 90) then b + 32 else b.

Fixpoint find_code (b : N) (tbl : bytes) (i : N) : N :=
  match tbl with
  | [] => 15
  | c :: r => if (b =? c) || (b =? to_lower c) then i else find_code b r (i + 1)
  end.
Definition encode_base (b : N) : N := find_code b BASES 0.

Fixpoint pack_bases (s : bytes) : bytes :=
  match s with
  | [] => []
  | [l] => [encode_base l * 16 + encode_base 61]
  | l :: r :: t => (encode_base l * 16 + encode_base r) :: pack_bases t
  end.

Definition enc_seq (read_len : N) (s : bytes) : res bytes :=
  match s with
  | [] => Ok []
  | _ => if (0 <? read_len) && negb (lenN s =? read_len) then Err InvalidInput
         else Ok (pack_bases s)
  end.

(* encoder/quality_scores.rs *)
Definition enc_qual (seq qual : bytes) : res bytes :=
  if lenN qual =? lenN seq then
    (if forallb (fun q => q <=? 93) qual then Ok qual else Err InvalidInput)
  else match qual with
       | [] => Ok (repeatN 255 seq)
       | _ => Err InvalidInput
       end.

(* encoder/data/field/value*.rs *)
Definition is_print (b : N) : bool := (32 <=? b) && (b <=? 126).
Definition is_hexdigit (b : N) : bool := ((48 <=? b) && (b <=? 57)) || ((65 <=? b) && (b <=? 70)).

Definition enc_num (w : nat) (v : Z) : bytes := leW w (to_unsigned w v).

Fixpoint enc_elems (w : nat) (vs : list Z) : bytes :=
  match vs with [] => [] | v :: r => enc_num w v ++ enc_elems w r end.

Definition enc_value (v : value) : res bytes :=
  match v with
  | VNum ty z => match num_width ty with
                 | Some (w, _) => Ok (ty :: enc_num w z)
                 | None => Err InvalidInput (* not a RecordBuf value: excluded by wf *)
                 end
  | VStr ty s =>
      if ty =? tyZ then (if forallb is_print s then Ok (tyZ :: s ++ [0]) else Err InvalidInput)
      else if ty =? tyH then
        (if (lenN s mod 2 =? 0) && forallb is_hexdigit s then Ok (tyH :: s ++ [0]) else Err InvalidInput)
      else Err InvalidInput
  | VArr sub vs => match sub_width sub with
                   | Some (w, _) =>
                       if lenN vs <? 4294967296
                       then Ok (tyB :: sub :: leW 4 (lenN vs) ++ enc_elems w vs)
                       else Err InvalidInput
                   | None => Err InvalidInput
                   end
  end.

(* encoder/data.rs::write_generic_data: a user CG field is skipped *)
Fixpoint enc_data (d : list (tag * value)) : res bytes :=
  match d with
  | [] => Ok []
  | (t, v) :: r =>
      if tag_eqb t CG then enc_data r
      else let* a := enc_value v in let* b := enc_data r in Ok (fst t :: snd t :: a ++ b)
  end.

(* encoder/data/field.rs::write_cigar: CG:B,I *)
Definition enc_cg (c : list (N * N)) : res bytes :=
  if lenN c <? 4294967296
  then let* ops := enc_cigar c in Ok (fst CG :: snd CG :: tyB :: tyI :: leW 4 (lenN c) ++ ops)
  else Err InvalidInput.

(* encoder.rs::encode *)
Definition encode_body (nref : N) (r : record) : res bytes :=
  let* rid := enc_rid nref (r_rid r) in
  let* pos := enc_pos (r_pos r) in
  let* lname := enc_name_len (r_name r) in
  let mapq := enc_mapq (r_mapq r) in
  let bin := leW 2 (bin_of (r_pos r) (r_cigar r)) in
  let base_count := lenN (r_seq r) in
  let '(n_ops, slot, overflow) := cigar_slot base_count (r_cigar r) in
  let flags := leW 2 (r_flags r) in
  let* lseq := (if base_count <? 4294967296 then Ok (leW 4 base_count) else Err InvalidInput) in
  let* mrid := enc_rid nref (r_mrid r) in
  let* mpos := enc_pos (r_mpos r) in
  let tlen := enc_num 4 (r_tlen r) in
  let* name := enc_name (r_name r) in
  let* cig := enc_cigar slot in
  let* sq := enc_seq (read_length (r_cigar r)) (r_seq r) in
  let* ql := enc_qual (r_seq r) (r_qual r) in
  let* dt := enc_data (r_data r) in
  let* cg := (if overflow then enc_cg (r_cigar r) else Ok []) in
  Ok (rid ++ pos ++ lname ++ mapq ++ bin ++ leW 2 n_ops ++ flags ++ lseq ++ mrid ++ mpos ++ tlen
      ++ name ++ cig ++ sq ++ ql ++ dt ++ cg).

(* io/writer.rs::write_alignment_record *)
Definition encode (nref : N) (r : record) : res bytes :=
  let* body := encode_body nref r in
  if lenN body <? 4294967296 then Ok (leW 4 (lenN body) ++ body) else Err InvalidInput.
