(* C05 model (wave 10) of noodles-bam/src/record/sequence/iter.rs AS A STATE MACHINE: the struct
   Iter { iter: slice::Iter<u8>, front: Option<array::IntoIter<u8,2>>, back: Option<..> } with
   Iter::new(bases, start, end) (incl. the slice-index panic of bases[i..j]), Iterator::next,
   DoubleEndedIterator::next_back and size_hint (= ExactSizeIterator::len).  This is the iterator
   behind Sequence::iter() (start = 0, end = len; next / next_back / len are public) and behind both
   halves of Sequence::split_at_checked (Subsequence::iter: next and size_hint are public).
   Decode.sub_iter is the closed form of the all-`next` run; here every interleaving of next and
   next_back is modelled.  Definitions only. *)
From Coq Require Import List NArith ZArith Bool.
From NV Require Import Bam.Record Bam.Encode Bam.Decode Bam.Lazy.
Import ListNotations.
Open Scope N_scope.

(* an array::IntoIter<u8, 2> is the list of its remaining bases (at most two) *)
Record sit := mk_sit { si_iter : bytes; si_front : option bytes; si_back : option bytes }.

(* decoded_bases(n) = decode_bases(n).into_iter() *)
Definition decoded (n : N) : bytes := [hi_base n; lo_base n].

(* Iter::new; None = `bases[i..j]` panics (j > bases.len(); i <= j always holds when start < end) *)
Definition sit_new (packed : bytes) (s e : N) : option sit :=
  let i := s / 2 in
  let j := (e + 1) / 2 in
  let win := if s <? e then (if j <=? lenN packed then Some (sliceN i (j - i) packed) else None)
             else Some [] in
  match win with
  | None => None
  | Some w =>
      (* back: iter.next_back().map(discard_back_decoded_bases) when end is odd *)
      let wb := if e mod 2 =? 0 then (w, None)
                else match split_last w with
                     | Some (a, n) => (a, Some [hi_base n])
                     | None => (w, None)
                     end in
      (* front: iter.next().map(discard_front_decoded_bases) when start is odd *)
      let wf := if s mod 2 =? 0 then (fst wb, None)
                else match fst wb with
                     | n :: r => (r, Some [lo_base n])
                     | [] => (fst wb, None)
                     end in
      Some (mk_sit (fst wf) (snd wf) (snd wb))
  end.

(* opt.as_mut().and_then(|it| it.next()) / (|it| it.next_back()) *)
Definition arr_next (o : option bytes) : option (N * option bytes) :=
  match o with Some (x :: r) => Some (x, Some r) | _ => None end.

Definition arr_next_back (o : option bytes) : option (N * option bytes) :=
  match o with
  | Some l => match split_last l with Some (a, x) => Some (x, Some a) | None => None end
  | None => None
  end.

(* Iterator::next: the `loop` runs at most twice (a freshly decoded byte always yields a base) *)
Definition sit_next (st : sit) : option N * sit :=
  match arr_next (si_front st) with
  | Some (x, f) => (Some x, mk_sit (si_iter st) f (si_back st))
  | None =>
      match si_iter st with
      | n :: r =>
          match arr_next (Some (decoded n)) with
          | Some (x, f) => (Some x, mk_sit r f (si_back st))
          | None => (None, mk_sit r (Some (decoded n)) (si_back st))
          end
      | [] =>
          match arr_next (si_back st) with
          | Some (x, b) => (Some x, mk_sit [] (si_front st) b)
          | None => (None, st)
          end
      end
  end.

(* DoubleEndedIterator::next_back; NOTE the last resort is `front ... iter.next()` (not next_back),
   as in the source *)
Definition sit_next_back (st : sit) : option N * sit :=
  match arr_next_back (si_back st) with
  | Some (x, b) => (Some x, mk_sit (si_iter st) (si_front st) b)
  | None =>
      match split_last (si_iter st) with
      | Some (r, n) =>
          match arr_next_back (Some (decoded n)) with
          | Some (x, b) => (Some x, mk_sit r (si_front st) b)
          | None => (None, mk_sit r (si_front st) (Some (decoded n)))
          end
      | None =>
          match arr_next (si_front st) with
          | Some (x, f) => (Some x, mk_sit (si_iter st) f (si_back st))
          | None => (None, st)
          end
      end
  end.

Definition opt_bytes (o : option bytes) : bytes := match o with Some l => l | None => [] end.

(* size_hint().0 (= .1 = ExactSizeIterator::len) *)
Definition sit_size_hint (st : sit) : N :=
  lenN (si_iter st) * 2 + lenN (opt_bytes (si_front st)) + lenN (opt_bytes (si_back st)).

(* a schedule of calls: false = next, true = next_back; after every call size_hint is observed *)
Fixpoint sit_run (sched : list bool) (st : sit) : list (option N * N) :=
  match sched with
  | [] => []
  | b :: r =>
      let res := if b then sit_next_back st else sit_next st in
      (fst res, sit_size_hint (snd res)) :: sit_run r (snd res)
  end.

(* Iter::new + size_hint + the schedule; None = Iter::new panicked *)
Definition seq_iter_run (packed : bytes) (s e : N) (sched : list bool) : option (N * list (option N * N)) :=
  match sit_new packed s e with
  | None => None
  | Some st => Some (sit_size_hint st, sit_run sched st)
  end.

(* ---- specification side: a double-ended queue that is a plain list ---- *)
Definition pop_front (l : bytes) : option N * bytes :=
  match l with x :: t => (Some x, t) | [] => (None, []) end.

Definition pop_back (l : bytes) : option N * bytes :=
  match split_last l with Some (a, x) => (Some x, a) | None => (None, []) end.

Fixpoint deque_run (sched : list bool) (l : bytes) : list (option N * N) :=
  match sched with
  | [] => []
  | b :: r =>
      let res := if b then pop_back l else pop_front l in
      (fst res, lenN (snd res)) :: deque_run r (snd res)
  end.

(* the bases still to be delivered *)
Definition sit_contents (st : sit) : bytes :=
  opt_bytes (si_front st) ++ unpack_bases (si_iter st) ++ opt_bytes (si_back st).

(* between calls each of front / back holds at most one base *)
Definition sit_inv (st : sit) : Prop :=
  (lenN (opt_bytes (si_front st)) <= 1) /\ (lenN (opt_bytes (si_back st)) <= 1).
