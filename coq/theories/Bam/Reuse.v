(* C05: record/codec/decoder.rs::decode as it really runs -- INTO a caller-supplied RecordBuf that
   still holds the previous record (bam::io::Reader::read_record_buf called repeatedly with one
   buffer, and Reader::record_bufs(), do exactly this).  Buffer state in, record out: the scalar
   fields are assigned; the five heap fields are updated in place by the Vec operations the field
   decoders perform on their destination:
     name            name.take().unwrap_or_default(); resize(len, 0); copy_from_slice   (decoder/name.rs)
     cigar           dst.clear(); push per operation                                      (decoder/cigar.rs)
     sequence        dst.clear(); extend(bases); truncate(base_count)                     (decoder/sequence.rs)
     quality scores  base_count = 0: dst.clear(); all 0xff: dst.clear();
                     otherwise resize(base_count, 0); copy_from_slice                     (decoder/quality_scores.rs)
     data            data.clear(); insert per field (duplicate = error)                   (decoder/data.rs)
   A decoder that forgot one of the clear()/overwrite steps would make the result depend on [prev];
   ReuseProofs.v shows it does not.  Definitions only. *)
From Coq Require Import List NArith ZArith Bool.
From NV Require Import Bam.Record Bam.Encode Bam.Decode Bam.File.
Import ListNotations.
Open Scope N_scope.

(* ---- the Vec operations *)
Definition vclear {A : Type} (_ : list A) : list A := [].
(* Vec::resize(n, 0): truncate or pad with zeros *)
Definition vresize (d : bytes) (n : nat) : bytes := firstn n d ++ repeat 0 (n - length d).
(* copy_from_slice (the lengths are equal, else it panics): every element is overwritten *)
Definition vcopy (dst src : bytes) : bytes := map snd (combine dst src).

(* ---- the field decoders on their destination *)
Definition name_into (prev : option bytes) (buf : bytes) : res (option bytes) :=
  if list_eqb buf [42; 0] then Ok None
  else match split_last buf with
       | Some (s, t) =>
           let dst := match prev with Some d => d | None => [] end in
           let dst := vcopy (vresize dst (length s)) s in
           if t =? 0 then Ok (Some dst) else bad
       | None => bad
       end.

Definition cigar_into (prev : list (N * N)) (fuel : nat) (cnt : N) (bs : bytes) : res (list (N * N)) :=
  let* ops := dec_ops fuel cnt bs in Ok (vclear prev ++ ops).

Definition seq_into (prev : bytes) (sbuf : bytes) (lseq : N) : bytes :=
  firstnN lseq (vclear prev ++ unpack_bases sbuf).

Definition qual_into (prev : bytes) (b14 : bytes) (lseq : N) : res (bytes * bytes) :=
  if lseq =? 0 then Ok (vclear prev, b14)
  else let* (qbuf, b15) := take lseq b14 in
       Ok (if forallb (fun b => b =? 255) qbuf then vclear prev
           else vcopy (vresize prev (length qbuf)) qbuf, b15).

Definition data_into (prev : list (tag * value)) (fuel : nat) (bs : bytes) : res (list (tag * value)) :=
  dec_data fuel bs (vclear prev).

(* decoder.rs::decode(src, record) with record = prev *)
Definition decode_into (prev : record) (bs : bytes) : res record :=
  let* (rid, b1) := rd_i32 bs in
  let* rid := dec_rid rid in
  let* (pos, b2) := rd_i32 b1 in
  let* pos := dec_pos pos in
  let* (lname, b3) := rd 1 b2 in
  if lname =? 0 then bad else
  let* (mq, b4) := rd 1 b3 in
  let* (_, b5) := rd 2 b4 in
  let* (nops, b6) := rd 2 b5 in
  let* (fl, b7) := rd 2 b6 in
  let* (lseq, b8) := rd 4 b7 in
  let* (mrid, b9) := rd_i32 b8 in
  let* mrid := dec_rid mrid in
  let* (mpos, b10) := rd_i32 b9 in
  let* mpos := dec_pos mpos in
  let* (tlen, b11) := rd_i32 b10 in
  let* (nbuf, b12) := take lname b11 in
  let* name := name_into (r_name prev) nbuf in
  let* (cbuf, b13) := take (4 * nops) b12 in
  let* cig := cigar_into (r_cigar prev) (length cbuf) nops cbuf in
  let* (sbuf, b14) := take ((lseq + 1) / 2) b13 in
  let sq := seq_into (r_seq prev) sbuf lseq in
  let* (ql, b15) := qual_into (r_qual prev) b14 lseq in
  let* dt := data_into (r_data prev) (length b15) b15 in
  let* (cig', dt') := resolve sq cig dt in
  Ok (mkRecord name (fl mod 4096) rid pos (if mq =? 255 then None else Some mq) cig'
               mrid mpos tlen sq ql dt').

(* ---- the record iteration with ONE reused buffer (Reader::record_bufs / repeated
   read_record_buf): every successfully decoded record is the buffer of the next call *)
Definition read_record_step_into (prev : record) (bs : bytes) : res (option (record * bytes)) :=
  match bs with
  | [] => Ok None
  | _ =>
    match rdW 4 bs with
    | None => Err UnexpectedEof
    | Some (n, rest) =>
        if n =? 0 then Ok None
        else match takeN n rest with
             | None => Err UnexpectedEof
             | Some (body, rest') =>
                 let* _ := validate body in
                 match decode_into prev body with
                 | Ok r => Ok (Some (r, rest'))
                 | Err _ => Err InvalidData
                 end
             end
    end
  end.

Fixpoint read_records_reused (fuel : nat) (prev : record) (bs : bytes) : list record * rd_end :=
  match fuel with
  | O => ([], EndNoFuel)
  | S f =>
      match read_record_step_into prev bs with
      | Err e => ([], EndErr e)
      | Ok None => ([], EndEof)
      | Ok (Some (r, rest)) => let (l, e) := read_records_reused f r rest in (r :: l, e)
      end
  end.

(* RecordBuf::default() *)
Definition default_record : record :=
  mkRecord None 4 None None None [] None None 0%Z [] [] [].

Definition read_file_reused (bs : bytes) : res (list record * rd_end) :=
  match Sam.BamHeader.read_bam_header bs with
  | Err e => Err e
  | Ok (_, rest) => Ok (read_records_reused (S (length rest)) default_record rest)
  end.
