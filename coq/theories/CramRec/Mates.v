(* C07 — model of the CRAM mate-resolution layer.

   Writer side : noodles-cram/src/io/writer/container/slice.rs   set_mates, set_downstream_mate,
                 set_detached;  io/writer/container/slice/records.rs write_mate (which fields of a
                 record reach the file);  io/writer/record/convert.rs try_from_alignment_record
                 (the part that fixes read_length / features / mate fields of the CRAM record)
   Reader side : noodles-cram/src/io/reader/container/slice/records.rs read_mate;
                 io/reader/container/slice.rs resolve_mates, set_mate(_chunk),
                 calculate_template_length(_chunk) (with the i32::MAX saturation of /repo 8fd0898 and
                 the "mate must be inside the slice" check of /repo 21bfe86);
                 record.rs calculate_alignment_span

   Conventions: a slice is a [list mrec]; indices are nat; flags, ids, positions and lengths are N
   (Position = N >= 1, Option<Position> = option N), TLEN is Z.  The HashMap<Option<name>, usize> of
   set_mates is an association list with shadowing (insert = cons, get = first match).
   usize overflow/underflow is not modelled except where stated.  What is *assumed* of the other
   data series: bam flags, reference id, alignment start, read length and features of every record
   are read back as written (tested by the rt oracle; features: FeaturesProofs).

   [mates_repaired] selects the writer: false = the code of /repo (links every two consecutive
   segmented non-secondary records of a slice that share a name); true = a repaired set_mates that
   links record i to the later record j only if j is still detached and the fields the reader
   would recompute for both equal the stored ones.  Definitions only; proofs are in MatesProofs.v. *)
From Coq Require Import List NArith ZArith Bool.
From NV Require Import CramRec.Features.
Import ListNotations.
Open Scope N_scope.

(* one-line switch: flip to [true] when set_mates is repaired in /repo *)
Definition mates_repaired : bool := true.

(* ---------------------------------------------------------------- records *)
Record mrec := mk_mrec {
  m_flags : N;                   (* bam_flags (u16) *)
  m_name : option (list N);      (* name *)
  m_ref : option N;              (* reference_sequence_id *)
  m_start : option N;            (* alignment_start *)
  m_rl : N;                      (* read_length *)
  m_feats : list feature;        (* features as the reader holds them *)
  m_mref : option N;             (* mate_reference_sequence_id *)
  m_mstart : option N;           (* mate_alignment_start *)
  m_tlen : Z;                    (* template_length (i32) *)
  m_detached : bool;             (* cram_flags IS_DETACHED *)
  m_down : bool;                 (* cram_flags MATE_IS_DOWNSTREAM *)
  m_dist : option N              (* mate_distance *)
}.

Definition dflt_mrec : mrec := mk_mrec 0 None None None 0 [] None None 0%Z false false None.

(* sam::alignment::record::Flags *)
Definition is_segmented (f : N) : bool := N.testbit f 0.
Definition is_unmapped (f : N) : bool := N.testbit f 2.
Definition is_reverse (f : N) : bool := N.testbit f 4.
Definition is_secondary (f : N) : bool := N.testbit f 8.
Definition MATE_UNMAPPED : N := 8.
Definition MATE_REVERSE : N := 32.

Definition i32_max : N := 2147483647.

(* ---------------------------------------------------------------- list helpers *)
Fixpoint upd {A} (l : list A) (i : nat) (f : A -> A) : list A :=
  match l, i with
  | [], _ => []
  | x :: r, O => f x :: r
  | x :: r, S i' => x :: upd r i' f
  end.

Definition oname_eqb (a b : option (list N)) : bool :=
  match a, b with
  | None, None => true
  | Some x, Some y => if list_eq_dec N.eq_dec x y then true else false
  | _, _ => false
  end.

Definition nmap := list (option (list N) * nat).
Fixpoint nm_get (k : option (list N)) (m : nmap) : option nat :=
  match m with
  | [] => None
  | (k', v) :: r => if oname_eqb k k' then Some v else nm_get k r
  end.

(* ---------------------------------------------------------------- template length (reader) *)
(* record.rs calculate_alignment_span; usize underflow (never for decoded writer output) is
   truncated *)
Definition span_step (s : N) (f : feature) : N :=
  match f with
  | FInsertion _ b => s - len b
  | FInsertBase _ _ => s - 1
  | FDeletion _ n => s + n
  | FRefSkip _ n => s + n
  | FSoftClip _ b => s - len b
  | _ => s
  end.
Definition alignment_span (rl : N) (fs : list feature) : N := fold_left span_step fs rl.

(* Position::new *)
Definition position_new (n : N) : option N := if n =? 0 then None else Some n.

(* the local fn alignment_end of calculate_template_length_chunk *)
Definition r_alignment_end (r : mrec) : option N :=
  match m_start r with
  | None => None
  | Some s => position_new (s + alignment_span (m_rl r) (m_feats r) - 1)
  end.

(* Ord for Option<Position>: None < Some *)
Definition omin (a b : option N) : option N :=
  match a, b with Some x, Some y => Some (N.min x y) | _, _ => None end.
Definition omax (a b : option N) : option N :=
  match a, b with
  | Some x, Some y => Some (N.max x y)
  | Some x, None => Some x
  | None, b => b
  end.

(* calculate_template_length(record, mate) *)
Definition tlen_calc (r mate : mrec) : Z :=
  match omin (m_start r) (m_start mate) with
  | None => 0%Z
  | Some start =>
      match omax (r_alignment_end r) (r_alignment_end mate) with
      | None => 0%Z
      | Some e =>
          let l := if e <? start then start - e + 1 else e - start + 1 in
          Z.of_N (if l <=? i32_max then l else i32_max)
      end
  end.

(* set_mate(record, mate) / set_mate_chunk *)
Definition set_mate (r mate : mrec) : mrec :=
  let f0 := m_flags r in
  let f1 := if is_reverse (m_flags mate) then N.lor f0 MATE_REVERSE else f0 in
  let f2 := if is_unmapped (m_flags mate) then N.lor f1 MATE_UNMAPPED else f1 in
  mk_mrec f2 (m_name r) (m_ref r) (m_start r) (m_rl r) (m_feats r)
          (m_ref mate) (m_start mate) (m_tlen r) (m_detached r) (m_down r) (m_dist r).

Definition set_tlen (t : Z) (r : mrec) : mrec :=
  mk_mrec (m_flags r) (m_name r) (m_ref r) (m_start r) (m_rl r) (m_feats r)
          (m_mref r) (m_mstart r) t (m_detached r) (m_down r) (m_dist r).

(* ---------------------------------------------------------------- writer: set_mates *)
Definition eligible (r : mrec) : bool :=
  is_segmented (m_flags r) && negb (is_secondary (m_flags r)).

Definition set_detached (r : mrec) : mrec :=
  mk_mrec (m_flags r) (m_name r) (m_ref r) (m_start r) (m_rl r) (m_feats r)
          (m_mref r) (m_mstart r) (m_tlen r) true (m_down r) (m_dist r).
Definition clear_detached (r : mrec) : mrec :=
  mk_mrec (m_flags r) (m_name r) (m_ref r) (m_start r) (m_rl r) (m_feats r)
          (m_mref r) (m_mstart r) (m_tlen r) false (m_down r) (m_dist r).
(* set_downstream_mate, the part on [record] *)
Definition set_downstream (d : nat) (r : mrec) : mrec :=
  mk_mrec (m_flags r) (m_name r) (m_ref r) (m_start r) (m_rl r) (m_feats r)
          (m_mref r) (m_mstart r) (m_tlen r) (m_detached r) true (Some (N.of_nat d)).

Definition oN_eqb (a b : option N) : bool :=
  match a, b with None, None => true | Some x, Some y => x =? y | _, _ => false end.

(* what the reader computes for a two-record chain (r upstream, mate downstream) equals what is
   stored: the decidable description of "not in the class
   cram-intra-slice-mate-fields-recomputed" for a pair *)
Definition pair_consistent (r mate : mrec) : bool :=
  (m_flags (set_mate r mate) =? m_flags r) && (m_flags (set_mate mate r) =? m_flags mate)
  && oN_eqb (m_mref r) (m_ref mate) && oN_eqb (m_mstart r) (m_start mate)
  && oN_eqb (m_mref mate) (m_ref r) && oN_eqb (m_mstart mate) (m_start r)
  && Z.eqb (m_tlen r) (tlen_calc mate r) && Z.eqb (m_tlen mate) (- tlen_calc mate r).

(* repaired writer only: may record r be linked to the later record mate? *)
Definition link_ok (repaired : bool) (r mate : mrec) : bool :=
  if repaired then m_detached mate && pair_consistent r mate else true.

(* the loop of set_mates, records i.. of the slice; the result map is [indices] after the
   iterations len-1 .. i *)
Fixpoint set_mates_from (repaired : bool) (i : nat) (rs : list mrec) : list mrec * nmap :=
  match rs with
  | [] => ([], [])
  | r :: tl =>
      let '(tl', m) := set_mates_from repaired (S i) tl in
      if eligible r then
        match nm_get (m_name r) m with
        | Some j =>
            if link_ok repaired r (nth (j - S i) tl' dflt_mrec) then
              (set_downstream (j - i - 1) r :: upd tl' (j - S i) clear_detached,
               (m_name r, i) :: m)
            else (set_detached r :: tl', (m_name r, i) :: m)
        | None => (set_detached r :: tl', (m_name r, i) :: m)
        end
      else (set_detached r :: tl', m)
  end.

Definition set_mates_gen (repaired : bool) (rs : list mrec) : list mrec :=
  fst (set_mates_from repaired 0 rs).
Definition set_mates (rs : list mrec) : list mrec := set_mates_gen mates_repaired rs.

(* ---------------------------------------------------------------- write_mate ; read_mate *)
Definition oN_i32 (o : option N) : bool :=
  match o with None => true | Some n => n <=? i32_max end.

(* one record through write_mate and read_mate.  None = Err(InvalidInput) of the writer (a mate
   reference id / mate position / mate distance that is not an i32).  A detached record carries
   MF = 0 (MateFlags::default()), so read_mate adds nothing to the bam flags, and NS/NP/TS verbatim;
   an attached record carries only NF (if it has a mate distance), and the reader starts from
   Record::default(): no mate reference, no mate position, TLEN 0. *)
Definition store (r : mrec) : option mrec :=
  if m_detached r then
    if oN_i32 (m_mref r) && oN_i32 (m_mstart r) then Some r else None
  else
    if oN_i32 (m_dist r) then
      Some (mk_mrec (m_flags r) (m_name r) (m_ref r) (m_start r) (m_rl r) (m_feats r)
                    None None 0%Z false (m_down r) (if m_down r then m_dist r else None))
    else None.

Fixpoint store_all (rs : list mrec) : option (list mrec) :=
  match rs with
  | [] => Some []
  | r :: tl =>
      match store r, store_all tl with
      | Some r', Some tl' => Some (r' :: tl')
      | _, _ => None
      end
  end.

(* ---------------------------------------------------------------- reader: resolve_mates *)
(* mate_indices; None = Err(InvalidData) "invalid mate distance" *)
Fixpoint mate_indices_from (n i : nat) (rs : list mrec) : option (list (option nat)) :=
  match rs with
  | [] => Some []
  | r :: tl =>
      match mate_indices_from n (S i) tl with
      | None => None
      | Some rest =>
          match m_dist r with
          | None => Some (None :: rest)
          | Some d =>
              let j := (i + N.to_nat d + 1)%nat in
              if (j <? n)%nat then Some (Some j :: rest) else None
          end
      end
  end.

Definition mi_get (mi : list (option nat)) (j : nat) : option nat := nth j mi None.
Definition rget (rs : list mrec) (j : nat) : mrec := nth j rs dflt_mrec.

(* first `while let Some(mate_index) = mate_indices[j]`: returns the records and the last j;
   fuel = number of records (the indices strictly increase) *)
Fixpoint walk_set (fuel : nat) (mi : list (option nat)) (rs : list mrec) (j : nat)
  : list mrec * nat :=
  match fuel with
  | O => (rs, j)
  | S f =>
      match mi_get mi j with
      | Some m => walk_set f mi (upd rs j (fun r => set_mate r (rget rs m))) m
      | None => (rs, j)
      end
  end.

(* second while loop: TLEN of the downstream members, clearing mate_indices *)
Fixpoint walk_tlen (fuel : nat) (t : Z) (mi : list (option nat)) (rs : list mrec) (j : nat)
  : list mrec * list (option nat) :=
  match fuel with
  | O => (rs, mi)
  | S f =>
      match mi_get mi j with
      | Some m => walk_tlen f t (upd mi j (fun _ => None)) (upd rs m (set_tlen (- t))) m
      | None => (rs, mi)
      end
  end.

(* body of `for i in 0..records.len()` *)
Definition resolve_step (st : list mrec * list (option nat)) (i : nat)
  : list mrec * list (option nat) :=
  let '(rs, mi) := st in
  match mi_get mi i with
  | None => st
  | Some _ =>
      let '(rs1, j) := walk_set (length rs) mi rs i in
      let rs2 := upd rs1 j (fun r => set_mate r (rget rs1 i)) in
      let t := tlen_calc (rget rs2 j) (rget rs2 i) in
      let rs3 := upd rs2 i (set_tlen t) in
      walk_tlen (length rs) t mi rs3 i
  end.

Definition resolve_mates (rs : list mrec) : option (list mrec) :=
  match mate_indices_from (length rs) 0 rs with
  | None => None
  | Some mi => Some (fst (fold_left resolve_step (seq 0 (length rs)) (rs, mi)))
  end.

(* ---------------------------------------------------------------- composition *)
Inductive mres :=
| MOk (rs : list mrec)
| MWriteErr        (* Err(InvalidInput) of the writer *)
| MReadErr.        (* Err(InvalidData) of resolve_mates *)

Definition slice_roundtrip_gen (repaired : bool) (rs : list mrec) : mres :=
  match store_all (set_mates_gen repaired rs) with
  | None => MWriteErr
  | Some st => match resolve_mates st with None => MReadErr | Some out => MOk out end
  end.
Definition slice_roundtrip (rs : list mrec) : mres := slice_roundtrip_gen mates_repaired rs.

(* the SAM columns FLAG, RNEXT, PNEXT, TLEN *)
Definition mate_view (r : mrec) : N * option N * option N * Z :=
  (m_flags r, m_mref r, m_mstart r, m_tlen r).

(* ---------------------------------------------------------------- from the SAM record *)
(* the fields of an alignment record that Record::try_from_alignment_record uses here *)
Record samrec := mk_samrec {
  s_flags : N; s_name : option (list N); s_ref : option N; s_start : option N;
  s_ops : list op; s_seq : list N; s_quals : list N;
  s_mref : option N; s_mstart : option N; s_tlen : Z
}.

(* constructor as a function (for the extracted driver) *)
Definition samrec_of (f : N) (nm : option (list N)) (r s : option N) (ops : list op)
  (sq ql : list N) (mr ms : option N) (t : Z) : samrec := mk_samrec f nm r s ops sq ql mr ms t.

(* None = Err(InvalidInput): quality scores not as long as the read, invalid reference id, or
   cigar_to_features rejects the record (Features.convert_core, /repo 405565a) *)
Definition convert (refs : list (list N)) (s : samrec) : option mrec :=
  let placed := match s_ref s, s_start s with
                | Some id, Some st => Some (nth_error refs (N.to_nat id), st)
                | _, _ => None
                end in
  match convert_core (is_unmapped (s_flags s)) placed (s_seq s) (s_quals s) (s_ops s) with
  | None => None
  | Some (rl, _, _, ws) =>
      match encode_features default_sm ws with
      | None => None
      | Some fs =>
          Some (mk_mrec (s_flags s) (s_name s) (s_ref s) (s_start s) rl fs
                        (s_mref s) (s_mstart s) (s_tlen s) false false None)
      end
  end.

Fixpoint convert_all (refs : list (list N)) (ss : list samrec) : option (list mrec) :=
  match ss with
  | [] => Some []
  | s :: tl =>
      match convert refs s, convert_all refs tl with
      | Some r, Some rs => Some (r :: rs)
      | _, _ => None
      end
  end.

(* one slice of SAM records through writer and reader; observation = the mate columns *)
Definition mates_roundtrip (refs : list (list N)) (ss : list samrec) : mres :=
  match convert_all refs ss with
  | None => MWriteErr
  | Some rs => slice_roundtrip rs
  end.

(* ================================================================================================ *)
(* The writer of /repo de003b4 ("CRAM writer linked mates whose fields the reader resolves to
   different values").  set_mates now (1) marks every record detached, (2) collects, per name, the
   indices of the records that are segmented, not secondary and not supplementary
   (templates: HashMap<name, Vec<usize>>), and (3) links the records of one template - each to the
   next one - only if the template has more than one record and mates_are_resolvable: every record
   carries exactly the mate flags / RNEXT / PNEXT that the reader will copy from the next record
   (the first one for the last) and the TLEN the reader will compute from the first and the last
   record (+ for the first, - for all others).

   [set_mates_w] gives the result record by record: templates[name] is [group rs name] (the indices
   in increasing order), and a record is rewritten by set_downstream_mate iff its template is
   linked.  The HashMap iteration order does not matter: the templates are disjoint.
   [set_mates_loop] below spells out the two loops of the function; the harness compares both with
   the CF / NF data series of the files the real writer produces. *)
Definition is_supplementary (f : N) : bool := N.testbit f 11.
Definition is_mate_reverse (f : N) : bool := N.testbit f 5.
Definition is_mate_unmapped (f : N) : bool := N.testbit f 3.

Definition segment (r : mrec) : bool :=
  is_segmented (m_flags r) && negb (is_secondary (m_flags r)) && negb (is_supplementary (m_flags r)).

(* the writer's own calculate_template_length: the features of an unmapped record are not written,
   so its span is the read length *)
Definition w_alignment_end (r : mrec) : option N :=
  match m_start r with
  | None => None
  | Some s =>
      position_new (s + (if is_unmapped (m_flags r) then m_rl r
                         else alignment_span (m_rl r) (m_feats r)) - 1)
  end.

Definition w_tlen_calc (r mate : mrec) : Z :=
  match omin (m_start r) (m_start mate) with
  | None => 0%Z
  | Some start =>
      match omax (w_alignment_end r) (w_alignment_end mate) with
      | None => 0%Z
      | Some e =>
          let l := if e <? start then start - e + 1 else e - start + 1 in
          Z.of_N (if l <=? i32_max then l else i32_max)
      end
  end.

(* the closure of mates_are_resolvable for one (record, mate, expected TLEN) *)
Definition link_cond (r mate : mrec) (t : Z) : bool :=
  Bool.eqb (is_mate_reverse (m_flags r)) (is_reverse (m_flags mate))
  && Bool.eqb (is_mate_unmapped (m_flags r)) (is_unmapped (m_flags mate))
  && oN_eqb (m_mref r) (m_ref mate) && oN_eqb (m_mstart r) (m_start mate)
  && Z.eqb (m_tlen r) t.

(* indices.iter().enumerate().all(..): the mate of the k-th segment is the (k+1)-th, the first one
   for the last; expected TLEN is t for k = 0 and -t otherwise *)
Fixpoint resolvable_from (rs : list mrec) (first : nat) (t : Z) (isfirst : bool) (idx : list nat)
  : bool :=
  match idx with
  | [] => true
  | i :: tl =>
      link_cond (rget rs i) (rget rs (match tl with j :: _ => j | [] => first end))
                (if isfirst then t else (- t)%Z)
      && resolvable_from rs first t false tl
  end.

Definition mates_are_resolvable (rs : list mrec) (idx : list nat) : bool :=
  let first := hd 0%nat idx in
  resolvable_from rs first (w_tlen_calc (rget rs first) (rget rs (last idx 0%nat))) true idx.

(* templates[name] *)
Definition in_group (rs : list mrec) (k : option (list N)) (x : nat) : bool :=
  segment (rget rs x) && oname_eqb (m_name (rget rs x)) k.
Definition group (rs : list mrec) (k : option (list N)) : list nat :=
  filter (in_group rs k) (seq 0 (length rs)).

(* the element after x in indices (indices.windows(2)) *)
Fixpoint next_in (g : list nat) (x : nat) : option nat :=
  match g with
  | a :: tl => match tl with
               | b :: _ => if (a =? x)%nat then Some b else next_in tl x
               | [] => None
               end
  | [] => None
  end.

Definition linked_group (rs : list mrec) (g : list nat) : bool :=
  (1 <? length g)%nat && mates_are_resolvable rs g.

Definition set_mates_w (rs : list mrec) : list mrec :=
  map (fun x =>
         let r := rget rs x in
         let g := group rs (m_name r) in
         if segment r && linked_group rs g then
           match next_in g x with
           | Some y => clear_detached (set_downstream (y - x - 1) (set_detached r))
           | None => clear_detached (set_detached r)
           end
         else set_detached r)
      (seq 0 (length rs)).

(* ---- the same function as the two loops of the Rust code *)
Definition tmap := list (option (list N) * list nat).
(* templates.entry(name).or_default().push(i) *)
Fixpoint tm_push (k : option (list N)) (i : nat) (m : tmap) : tmap :=
  match m with
  | [] => [(k, [i])]
  | (k', l) :: r => if oname_eqb k k' then (k', l ++ [i]) :: r else (k', l) :: tm_push k i r
  end.
Fixpoint templates_from (i : nat) (rs : list mrec) (m : tmap) : tmap :=
  match rs with
  | [] => m
  | r :: tl => templates_from (S i) tl (if segment r then tm_push (m_name r) i m else m)
  end.
(* for pair in indices.windows(2) { set_downstream_mate(i, record, j, mate) } *)
Fixpoint link_windows (idx : list nat) (rs : list mrec) : list mrec :=
  match idx with
  | i :: tl =>
      match tl with
      | j :: _ =>
          link_windows tl
            (upd (upd rs i (fun r => clear_detached (set_downstream (j - i - 1) r))) j clear_detached)
      | [] => rs
      end
  | [] => rs
  end.
Definition set_mates_loop (rs : list mrec) : list mrec :=
  fold_left (fun acc (e : option (list N) * list nat) =>
               if linked_group acc (snd e) then link_windows (snd e) acc else acc)
            (templates_from 0 rs []) (map set_detached rs).

(* write_mate ; read_mate, and the features of an unmapped record (write_unmapped_read stores
   none, the reader holds an empty list) *)
Definition with_feats (fs : list feature) (r : mrec) : mrec :=
  mk_mrec (m_flags r) (m_name r) (m_ref r) (m_start r) (m_rl r) fs
          (m_mref r) (m_mstart r) (m_tlen r) (m_detached r) (m_down r) (m_dist r).
Definition store_w (r : mrec) : option mrec :=
  match store r with
  | Some r' => Some (if is_unmapped (m_flags r') then with_feats [] r' else r')
  | None => None
  end.
Fixpoint store_all_w (rs : list mrec) : option (list mrec) :=
  match rs with
  | [] => Some []
  | r :: tl =>
      match store_w r, store_all_w tl with
      | Some r', Some tl' => Some (r' :: tl')
      | _, _ => None
      end
  end.

(* one slice through the writer and the reader of /repo *)
Definition slice_rt (rs : list mrec) : mres :=
  match store_all_w (set_mates_w rs) with
  | None => MWriteErr
  | Some st => match resolve_mates st with None => MReadErr | Some out => MOk out end
  end.

Definition mates_rt (refs : list (list N)) (ss : list samrec) : mres :=
  match convert_all refs ss with
  | None => MWriteErr
  | Some rs => slice_rt rs
  end.

(* what the file shows of set_mates: per record the CRAM flag bits DETACHED (2) and
   MATE_IS_DOWNSTREAM (4) and the NF value; for both formulations of the writer *)
Definition link_view (r : mrec) : N * option N :=
  ((if m_detached r then 2 else 0) + (if m_down r then 4 else 0), m_dist r).
Definition mates_links (refs : list (list N)) (ss : list samrec)
  : option (list (N * option N) * list (N * option N)) :=
  match convert_all refs ss with
  | None => None
  | Some rs => Some (map link_view (set_mates_w rs), map link_view (set_mates_loop rs))
  end.
