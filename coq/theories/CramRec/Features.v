(* C07 — model of the CRAM record "features" edit script.

   Writer side  : noodles-cram/src/io/writer/record/convert.rs  cigar_to_features
                  noodles-cram/src/io/writer/container/slice/records.rs write_base_substitution_code
                  (SubstitutionMatrix::find, substitution_matrix.rs)
   Reader side  : noodles-cram/src/record/sequence/iter.rs (+ iter/with_positions.rs)
                  noodles-cram/src/record/cigar/iter.rs, noodles-sam .../cigar/iter/try_simplify.rs

   Conventions: bytes, positions and lengths are N; positions are 1-based as noodles_core::Position.
   Writer side ([c2f], [cigar_to_features]): [None] is the result Err(InvalidInput) that
   cigar_to_features returns when a lookup falls outside the sequence, the quality scores or the
   reference sequence (get_base / get_bases / get_quality_score(s) / get_reference_base(s); these
   lookups panicked before /repo 9757af4).  Reader side ([rebuild_seq]): [None] is a failed
   reconstruction (slice out of bounds, usize underflow); SubstitutionMatrix::find(..).unwrap() on a
   matrix without the read base is [None] of [encode_features].  The composed [roundtrip] keeps the
   three apart in its [outcome].  usize *overflow* is not modelled (N is unbounded).
   Definitions only; proofs are in FeaturesProofs.v. *)
From Coq Require Import List NArith Bool.
Import ListNotations.
Open Scope N_scope.

(* ---------------------------------------------------------------- CIGAR *)
Inductive kind := KM | KI | KD | KN | KS | KH | KP | KEq | KX.
Definition op := (kind * N)%type.

Definition kind_eqb (a b : kind) : bool :=
  match a, b with
  | KM, KM | KI, KI | KD, KD | KN, KN | KS, KS | KH, KH | KP, KP | KEq, KEq | KX, KX => true
  | _, _ => false
  end.

(* sam::alignment::record::cigar::op::Kind::{consumes_read, consumes_reference} *)
Definition consumes_read (k : kind) : bool :=
  match k with KM | KI | KS | KEq | KX => true | _ => false end.
Definition consumes_reference (k : kind) : bool :=
  match k with KM | KD | KN | KEq | KX => true | _ => false end.

Fixpoint read_len (ops : list op) : N :=
  match ops with [] => 0 | (k, n) :: r => (if consumes_read k then n else 0) + read_len r end.
Fixpoint ref_len (ops : list op) : N :=
  match ops with [] => 0 | (k, n) :: r => (if consumes_reference k then n else 0) + ref_len r end.

(* ---------------------------------------------------------------- bases *)
Inductive base5 := BA | BC | BG | BT | BN.

Definition base5_eqb (a b : base5) : bool :=
  match a, b with BA, BA | BC, BC | BG, BG | BT, BT | BN, BN => true | _, _ => false end.

(* u8::to_ascii_uppercase / to_ascii_lowercase / is_ascii_lowercase *)
Definition is_lower (b : N) : bool := (97 <=? b) && (b <=? 122).
Definition is_upper (b : N) : bool := (65 <=? b) && (b <=? 90).
Definition to_upper (b : N) : N := if is_lower b then b - 32 else b.
Definition to_lower (b : N) : N := if is_upper b then b + 32 else b.
(* u8::eq_ignore_ascii_case *)
Definition eq_nocase (a b : N) : bool := to_upper a =? to_upper b.

(* substitution_matrix/base.rs: TryFrom<u8> for Base, From<Base> for u8 *)
Definition base_of_byte (b : N) : option base5 :=
  let u := to_upper b in
  if u =? 65 then Some BA else if u =? 67 then Some BC else if u =? 71 then Some BG
  else if u =? 84 then Some BT else if u =? 78 then Some BN else None.
Definition byte_of_base (b : base5) : N :=
  match b with BA => 65 | BC => 67 | BG => 71 | BT => 84 | BN => 78 end.

(* SubstitutionMatrix: 5 rows (reference base) x 4 codes *)
Definition smatrix := base5 -> N -> base5.
Definition sm_get (sm : smatrix) (r : base5) (code : N) : base5 := sm r (N.land code 3).
(* SubstitutionMatrix::find(...).unwrap(): first code 0..3 whose entry is the read base *)
Definition sm_find (sm : smatrix) (r b : base5) : option N :=
  if base5_eqb (sm_get sm r 0) b then Some 0
  else if base5_eqb (sm_get sm r 1) b then Some 1
  else if base5_eqb (sm_get sm r 2) b then Some 2
  else if base5_eqb (sm_get sm r 3) b then Some 3
  else None.

(* READ_BASES, the default matrix *)
Definition default_sm : smatrix := fun r c =>
  match r, c with
  | BA, 0 => BC | BA, 1 => BG | BA, 2 => BT | BA, _ => BN
  | BC, 0 => BA | BC, 1 => BG | BC, 2 => BT | BC, _ => BN
  | BG, 0 => BA | BG, 1 => BC | BG, 2 => BT | BG, _ => BN
  | BT, 0 => BA | BT, 1 => BC | BT, 2 => BG | BT, _ => BN
  | BN, 0 => BA | BN, 1 => BC | BN, 2 => BG | BN, _ => BT
  end.

(* ---------------------------------------------------------------- indexing (panics = None) *)
(* v[Position p] *)
Definition get1 (l : list N) (p : N) : option N :=
  if p =? 0 then None else nth_error l (N.to_nat (p - 1)).
(* v[Position a .. Position b]  (half open) *)
Definition slice1 (l : list N) (a b : N) : option (list N) :=
  if (1 <=? a) && (a <=? b) && (b <=? N.of_nat (length l) + 1)
  then Some (firstn (N.to_nat (b - a)) (skipn (N.to_nat (a - 1)) l))
  else None.

(* ---------------------------------------------------------------- features *)
(* io/writer/record/feature.rs *)
Inductive wfeature :=
| WScores (pos : N) (qs : list N)
| WReadBase (pos : N) (base q : N)
| WSubst (pos : N) (refb readb : base5)
| WInsertion (pos : N) (bases : list N)
| WDeletion (pos len : N)
| WInsertBase (pos base : N)
| WQualityScore (pos q : N)
| WRefSkip (pos len : N)
| WSoftClip (pos : N) (bases : list N)
| WPadding (pos len : N)
| WHardClip (pos len : N).

(* record/feature.rs (what the reader holds; Substitution carries the 2-bit code) *)
Inductive feature :=
| FBases (pos : N) (bases : list N)
| FScores (pos : N) (qs : list N)
| FReadBase (pos : N) (base q : N)
| FSubst (pos : N) (code : N)
| FInsertion (pos : N) (bases : list N)
| FDeletion (pos len : N)
| FInsertBase (pos base : N)
| FQualityScore (pos q : N)
| FRefSkip (pos len : N)
| FSoftClip (pos : N) (bases : list N)
| FPadding (pos len : N)
| FHardClip (pos len : N).

Definition fpos (f : feature) : N :=
  match f with
  | FBases p _ | FScores p _ | FReadBase p _ _ | FSubst p _ | FInsertion p _ | FDeletion p _
  | FInsertBase p _ | FQualityScore p _ | FRefSkip p _ | FSoftClip p _ | FPadding p _
  | FHardClip p _ => p
  end.

Definition len (l : list N) : N := N.of_nat (length l).

(* one mismatching column of a match op: Substitution when both bases are in ACGTN,
   else ReadBase carrying [q] (evaluated lazily: [q = None] only matters in that branch) *)
Definition mismatch_feature (pos rb sb : N) (q : option N) : option wfeature :=
  match base_of_byte rb, base_of_byte sb with
  | Some r, Some s => Some (WSubst pos r s)
  | _, _ => match q with Some qv => Some (WReadBase pos sb qv) | None => None end
  end.

(* the zip/enumerate loop of the multi-base match branch; [q] is quality_scores[read_position]
   of the *op start* as in the source *)
Fixpoint match_features (pos : N) (rbs sbs : list N) (q : option N) : option (list wfeature) :=
  match rbs, sbs with
  | rb :: rbs', sb :: sbs' =>
      match match_features (pos + 1) rbs' sbs' q with
      | None => None
      | Some rest =>
          if eq_nocase rb sb then Some rest
          else match mismatch_feature pos rb sb q with
               | Some f => Some (f :: rest)
               | None => None
               end
      end
  | _, _ => Some []
  end.

(* quality features are only produced when the flag QUALITY_SCORES_ARE_STORED_AS_ARRAY is off *)
Definition q_feature (qs_array : bool) (quals : list N) (pos n : N) (single : bool)
  : option (list wfeature) :=
  if qs_array then Some []
  else if single then
    match get1 quals pos with Some q => Some [WQualityScore pos q] | None => None end
  else
    match slice1 quals pos (pos + n) with Some q => Some [WScores pos q] | None => None end.

Definition app_opt {A} (a b : option (list A)) : option (list A) :=
  match a, b with Some x, Some y => Some (x ++ y) | _, _ => None end.

(* features of one op at (reference_position rp, read_position dp) *)
Definition op_features (qs_array : bool) (refseq seq quals : list N) (k : kind) (n rp dp : N)
  : option (list wfeature) :=
  match k with
  | KM | KEq | KX =>
      if n =? 1 then
        match get1 refseq rp, get1 seq dp, get1 quals dp with
        | Some rb, Some sb, Some q =>
            app_opt (if qs_array then Some [] else Some [WQualityScore dp q])
                    (if eq_nocase rb sb then Some []
                     else match mismatch_feature dp rb sb (Some q) with
                          | Some f => Some [f] | None => None end)
        | _, _, _ => None
        end
      else
        match q_feature qs_array quals dp n false,
              slice1 refseq rp (rp + n), slice1 seq dp (dp + n) with
        | Some qf, Some rbs, Some sbs => app_opt (Some qf) (match_features dp rbs sbs (get1 quals dp))
        | _, _, _ => None
        end
  | KI =>
      if n =? 1 then
        match get1 seq dp with
        | Some b => app_opt (Some [WInsertBase dp b]) (q_feature qs_array quals dp 1 true)
        | None => None
        end
      else
        match slice1 seq dp (dp + n) with
        | Some bs => app_opt (Some [WInsertion dp bs]) (q_feature qs_array quals dp n false)
        | None => None
        end
  | KD => Some [WDeletion dp n]
  | KN => Some [WRefSkip dp n]
  | KS =>
      match slice1 seq dp (dp + n) with
      | Some bs => app_opt (Some [WSoftClip dp bs]) (q_feature qs_array quals dp n (len bs =? 1))
      | None => None
      end
  | KH => Some [WHardClip dp n]
  | KP => Some [WPadding dp n]
  end.

(* cigar_to_features: rp = reference_position, dp = read_position *)
Fixpoint c2f (qs_array : bool) (refseq seq quals : list N) (ops : list op) (rp dp : N)
  : option (list wfeature) :=
  match ops with
  | [] => Some []
  | (k, n) :: rest =>
      app_opt (op_features qs_array refseq seq quals k n rp dp)
              (c2f qs_array refseq seq quals rest
                   (if consumes_reference k then rp + n else rp)
                   (if consumes_read k then dp + n else dp))
  end.

Definition cigar_to_features (qs_array : bool) (refseq seq quals : list N) (ops : list op)
  (alignment_start : N) : option (list wfeature) :=
  c2f qs_array refseq seq quals ops alignment_start 1.

(* writer feature -> stored feature (the only lossy step is Substitution -> code) *)
Definition encode_feature (sm : smatrix) (w : wfeature) : option feature :=
  match w with
  | WScores p q => Some (FScores p q)
  | WReadBase p b q => Some (FReadBase p b q)
  | WSubst p r s => match sm_find sm r s with Some c => Some (FSubst p c) | None => None end
  | WInsertion p b => Some (FInsertion p b)
  | WDeletion p n => Some (FDeletion p n)
  | WInsertBase p b => Some (FInsertBase p b)
  | WQualityScore p q => Some (FQualityScore p q)
  | WRefSkip p n => Some (FRefSkip p n)
  | WSoftClip p b => Some (FSoftClip p b)
  | WPadding p n => Some (FPadding p n)
  | WHardClip p n => Some (FHardClip p n)
  end.

Fixpoint encode_features (sm : smatrix) (ws : list wfeature) : option (list feature) :=
  match ws with
  | [] => Some []
  | w :: r =>
      match encode_feature sm w, encode_features sm r with
      | Some f, Some fs => Some (f :: fs)
      | _, _ => None
      end
  end.

(* ---------------------------------------------------------------- sequence reconstruction *)
(* WithPositions: (reference delta, read delta); None = the feature is skipped *)
Definition fdelta (f : feature) : option (N * N) :=
  match f with
  | FBases _ b => Some (len b, len b)
  | FScores _ _ => None
  | FReadBase _ _ _ => Some (1, 1)
  | FSubst _ _ => Some (1, 1)
  | FInsertion _ b => Some (0, len b)
  | FDeletion _ n => Some (n, 0)
  | FInsertBase _ _ => Some (0, 1)
  | FQualityScore _ _ => None
  | FRefSkip _ n => Some (n, 0)
  | FSoftClip _ b => Some (0, len b)
  | FPadding _ _ => Some (0, 0)
  | FHardClip _ _ => Some (0, 0)
  end.

(* the base produced for a Substitution feature at reference base rb *)
Definition subst_byte (sm : smatrix) (rb code : N) : N :=
  let r := match base_of_byte rb with Some r => r | None => BN end in
  let b := byte_of_base (sm_get sm r code) in
  if is_lower rb then to_lower b else b.

(* bases emitted by the feature itself (State::Prepare -> Base/Bases/Next) *)
Definition fbases (refseq : list N) (sm : smatrix) (f : feature) (rp : N) : option (list N) :=
  match f with
  | FBases _ b => Some b
  | FReadBase _ b _ => Some [b]
  | FSubst _ code => match get1 refseq rp with Some rb => Some [subst_byte sm rb code] | None => None end
  | FInsertion _ b => Some b
  | FInsertBase _ b => Some [b]
  | FSoftClip _ b => Some b
  | _ => Some []
  end.

(* sequence::Iter collected; (rp, dp) = (last_reference_position, last_read_position) *)
Fixpoint rebuild_seq (refseq : list N) (sm : smatrix) (fs : list feature) (rp dp rl : N)
  : option (list N) :=
  match fs with
  | [] => if rl <? dp then Some [] else slice1 refseq rp (rp + (rl - dp + 1))
  | f :: fs' =>
      match fdelta f with
      | None => rebuild_seq refseq sm fs' rp dp rl
      | Some (dr, dd) =>
          if fpos f <? dp then None   (* usize underflow *)
          else
            let ml := fpos f - dp in
            match slice1 refseq rp (rp + ml), fbases refseq sm f (rp + ml),
                  rebuild_seq refseq sm fs' (rp + ml + dr) (dp + ml + dd) rl with
            | Some pre, Some mid, Some rest => Some (pre ++ mid ++ rest)
            | _, _, _ => None
            end
      end
  end.

(* ---------------------------------------------------------------- CIGAR reconstruction *)
Definition fop (f : feature) : option op :=
  match f with
  | FSubst _ _ => Some (KM, 1)
  | FInsertion _ b => Some (KI, len b)
  | FDeletion _ n => Some (KD, n)
  | FInsertBase _ _ => Some (KI, 1)
  | FRefSkip _ n => Some (KN, n)
  | FSoftClip _ b => Some (KS, len b)
  | FPadding _ n => Some (KP, n)
  | FHardClip _ n => Some (KH, n)
  | _ => None
  end.

(* cigar::Iter collected (before TrySimplify) *)
Fixpoint rebuild_cigar (fs : list feature) (dp rl : N) : list op :=
  match fs with
  | [] => if dp <=? rl then [(KM, rl - dp + 1)] else []
  | f :: fs' =>
      let pre := if dp <? fpos f then [(KM, fpos f - dp)] else [] in
      let dp1 := if dp <? fpos f then fpos f else dp in
      match fop f with
      | None => pre ++ rebuild_cigar fs' dp1 rl
      | Some (k, n) => pre ++ (k, n) :: rebuild_cigar fs' (if consumes_read k then dp1 + n else dp1) rl
      end
  end.

(* TrySimplify: adjacent ops of the same kind are merged *)
Fixpoint simplify_from (prev : op) (ops : list op) : list op :=
  match ops with
  | [] => [prev]
  | (k, n) :: r =>
      if kind_eqb (fst prev) k then simplify_from (fst prev, snd prev + n) r
      else prev :: simplify_from (k, n) r
  end.
Definition simplify (ops : list op) : list op :=
  match ops with [] => [] | o :: r => simplify_from o r end.

(* what CRAM can represent of a CIGAR: = and X become M *)
Definition norm_kind (k : kind) : kind := match k with KEq | KX => KM | k => k end.
Definition norm_ops (ops : list op) : list op := map (fun o => (norm_kind (fst o), snd o)) ops.

(* the record-level composition used by the correspondence check:
   writer features -> stored features -> (CIGAR, bases) *)
(* Record::try_from_alignment_record: missing quality scores (QUAL `*`) are stored as 0xff for
   every base *)
Definition writer_quals (seq quals : list N) : list N :=
  match quals with [] => repeat 255 (length seq) | _ => quals end.

(* result of writing one mapped record and reading it back *)
Inductive outcome :=
| ROk (cigar : list op) (bases : list N)
| RInvalidInput            (* the writer rejects the record: Err(InvalidInput) *)
| RWritePanic              (* SubstitutionMatrix::find(..).unwrap() (unreachable for a valid matrix) *)
| RReadFail.               (* the reader cannot reconstruct the bases (never for what the writer accepts
                              inside the reference: FeaturesProofs.roundtrip_ok) *)

(* ---- Record::try_from_alignment_record for a record that is NOT flagged unmapped and has a
   reference id and an alignment start (/repo 405565a: a591b36, fe42e80, 8d67724, 0049c20) ---- *)

(* cigar_to_features when SEQUENCE_IS_MISSING (SEQ `*`): the guards `if flags.sequence_is_missing()`
   come first - M / = / X add nothing (and nothing is looked up: neither the sequence, nor the
   quality scores, nor the reference), I and S carry [op.len()] unknown bases `N` *)
Definition missing_base : N := 78.
Definition unknown_bases (n : N) : list N := repeat missing_base (N.to_nat n).
Fixpoint c2f_missing (ops : list op) (dp : N) : list wfeature :=
  match ops with
  | [] => []
  | (k, n) :: rest =>
      (match k with
       | KM | KEq | KX => []
       | KI => [WInsertion dp (unknown_bases n)]
       | KS => [WSoftClip dp (unknown_bases n)]
       | KD => [WDeletion dp n]
       | KN => [WRefSkip dp n]
       | KH => [WHardClip dp n]
       | KP => [WPadding dp n]
       end) ++ c2f_missing rest (if consumes_read k then dp + n else dp)
  end.

(* is_aligned = the CIGAR is not empty (reference id and start are present here) *)
Definition is_aligned (ops : list op) : bool := match ops with [] => false | _ => true end.

(* read_length: that of the alignment when the sequence is missing *)
Definition record_read_length (seq : list N) (ops : list op) : N :=
  match seq with
  | [] => if is_aligned ops then read_len ops else 0
  | _ => len seq
  end.

(* missing quality scores are stored as read_length times 0xff *)
Definition record_quals (rl : N) (quals : list N) : list N :=
  match quals with [] => repeat 255 (N.to_nat rl) | _ => quals end.

(* features: sequence_to_features (the whole read as one soft clip) when there is no CIGAR,
   cigar_to_features otherwise; None = Err(InvalidInput) *)
Definition record_features (refseq seq quals : list N) (ops : list op) (start : N)
  : option (list wfeature) :=
  if is_aligned ops then
    match seq with
    | [] => Some (c2f_missing ops 1)
    | _ => cigar_to_features true refseq seq quals ops start
    end
  else Some (match seq with [] => [] | _ => [WSoftClip 1 seq] end).

(* The general form (any flags, with or without reference id / start): what
   try_from_alignment_record makes of (unmapped flag, placement, SEQ, QUAL, CIGAR).
   [placed] = Some (reference bases if the id is in the dictionary and the repository, start)
   when the record has a reference id and an alignment start.  Result: read_length,
   SEQUENCE_IS_MISSING, the stored quality scores, the features; None = Err(InvalidInput). *)
Definition convert_core (unmapped : bool) (placed : option (option (list N) * N))
  (seq quals : list N) (ops : list op) : option (N * bool * list N * list wfeature) :=
  let aligned := match placed with Some _ => is_aligned ops | None => false end in
  let rl := match seq with
            | [] => if negb unmapped && aligned then read_len ops else 0
            | _ => len seq
            end in
  let missing := match seq with [] => true | _ => false end in
  let q := record_quals rl quals in
  if negb (len q =? rl) then None
  else if negb unmapped && negb aligned then
    Some (rl, missing, q, match seq with [] => [] | _ => [WSoftClip 1 seq] end)
  else
    match placed with
    | Some (lookup, start) =>
        match lookup with
        | None => None   (* invalid reference sequence ID / missing reference sequence *)
        | Some refseq =>
            match (match seq with
                   | [] => Some (c2f_missing ops 1)
                   | _ => cigar_to_features true refseq seq q ops start
                   end) with
            | Some ws => Some (rl, missing, q, ws)
            | None => None
            end
        end
    | None => Some (rl, missing, q, [])
    end.

Definition roundtrip (sm : smatrix) (refseq seq quals : list N) (ops : list op) (start : N)
  : outcome :=
  let rl := record_read_length seq ops in
  let q := record_quals rl quals in
  (* "sequence-quality scores length mismatch" (/repo 8d67724) *)
  if negb (len q =? rl) then RInvalidInput
  (* build_slice of the one-record slice: clamp_reference_sequence_context leaves a context whose
     start lies beyond the reference end alone, and calculate_reference_sequence_md5 then answers
     InvalidInput "alignment span is not within the reference sequence" (a start inside the
     reference always passes: the end is clamped) - the only check of the position when the
     features are not made by comparing bases with the reference *)
  else if len refseq <? start then RInvalidInput
  else
  match record_features refseq seq q ops start with
  | None => RInvalidInput
  | Some ws =>
      match encode_features sm ws with
      | None => RWritePanic
      | Some fs =>
          (* record.rs: SEQUENCE_IS_MISSING (empty sequence) bypasses the reconstruction of the
             bases; the CIGAR is rebuilt from the features and the stored read length *)
          match seq with
          | [] => ROk (simplify (rebuild_cigar fs 1 rl)) []
          | _ =>
              match rebuild_seq refseq sm fs start 1 rl with
              | None => RReadFail
              | Some s => ROk (simplify (rebuild_cigar fs 1 rl)) s
              end
          end
      end
  end.

Fixpoint eq_nocase_list (a b : list N) : bool :=
  match a, b with
  | [], [] => true
  | x :: a', y :: b' => eq_nocase x y && eq_nocase_list a' b'
  | _, _ => false
  end.
