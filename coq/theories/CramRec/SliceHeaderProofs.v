(* C07 — proofs about NV.CramRec.SliceHeader: what the slice / container headers declare as a
   function of the record list. *)
From Coq Require Import List NArith ZArith Bool Lia.
From Coq Require Import ZifyBool ZifyNat ZifyN.
From NV Require Import CramRec.Features CramRec.SliceHeader CramRec.FeaturesProofs CramRec.FeaturesMissing.
Import ListNotations.
Open Scope N_scope.

(* ---------------------------------------------------------------- vocabulary of the statements *)
(* Position invariant of a writer record: alignment_start is a Position (>= 1) *)
Definition hrec_wf (r : hrec) : Prop := forall s, hr_start r = Some s -> 1 <= s.

(* the record has reference id [id], start [rs] and alignment end [re] *)
Definition placed_on (id : N) (r : hrec) (rs re : N) : Prop :=
  hr_ref r = Some id /\ hr_start r = Some rs /\ rec_end r = Some re.

(* a context is well formed: start is a Position and start <= end (so the span is >= 1) *)
Definition ctx_wf (c : rctx) : Prop :=
  match c with RSome _ s e => 1 <= s /\ s <= e | _ => True end.

(* context [x] lies inside context [c] *)
Definition ctx_le (x c : rctx) : Prop :=
  match x, c with
  | RNone, RNone => True
  | RMany, RMany => True
  | RSome i s e, RSome i' s' e' => i = i' /\ s' <= s /\ e <= e'
  | _, _ => False
  end.

Definition sumN (l : list N) : N := fold_right N.add 0 l.

(* ---------------------------------------------------------------- positions, record end *)
Lemma pos_new_some : forall n m, pos_new n = Some m <-> (n = m /\ n <> 0).
Proof.
  intros n m. unfold pos_new. destruct (N.eqb_spec n 0) as [Hz | Hz]; split; intros H.
  - discriminate H.
  - destruct H as [_ Hn]. contradiction.
  - injection H as Hm. split; assumption.
  - destruct H as [Hm _]. rewrite Hm. reflexivity.
Qed.

Lemma rec_end_some : forall r s, hrec_wf r -> hr_start r = Some s ->
  rec_end r = Some (s + N.max (w_alignment_span (hr_rl r) (hr_feats r)) 1 - 1).
Proof.
  intros r s Hwf Hs. unfold rec_end. rewrite Hs. apply pos_new_some. split; [reflexivity |].
  specialize (Hwf s Hs). lia.
Qed.

Lemma rec_end_ge_start : forall r s e, hrec_wf r -> hr_start r = Some s -> rec_end r = Some e ->
  1 <= s /\ s <= e.
Proof.
  intros r s e Hwf Hs He. rewrite (rec_end_some r s Hwf Hs) in He. injection He as He.
  specialize (Hwf s Hs). lia.
Qed.

(* under the Position invariant, "has an alignment end" = "has a start" *)
Lemma placed_on_iff_wf : forall id r, hrec_wf r ->
  ((exists rs re, placed_on id r rs re) <-> (hr_ref r = Some id /\ hr_start r <> None)).
Proof.
  intros id r Hwf. unfold placed_on. split.
  - intros [rs [re [Hr [Hs _]]]]. split; [assumption | congruence].
  - intros [Hr Hs]. destruct (hr_start r) as [s |] eqn:Es; [| congruence].
    exists s. exists (s + N.max (w_alignment_span (hr_rl r) (hr_feats r)) 1 - 1).
    split; [assumption |]. split; [reflexivity |].
    apply rec_end_some; [exact Hwf | exact Es].
Qed.

(* ---------------------------------------------------------------- one step of the context *)
Lemma ctx_first_cases : forall r,
  (exists id s e, placed_on id r s e /\ ctx_first r = RSome id s e)
  \/ ((forall id s e, ~ placed_on id r s e) /\ hr_ref r <> None /\ ctx_first r = RMany)
  \/ (hr_ref r = None /\ ctx_first r = RNone).
Proof.
  intros r. unfold ctx_first, placed_on, ctx_some.
  destruct (hr_ref r) as [id |]; [|right; right; split; reflexivity].
  destruct (hr_start r) as [s |]; destruct (rec_end r) as [e |];
    try (right; left; split; [intros i s' e' [H1 [H2 H3]]; congruence | split; [discriminate|reflexivity]]).
  left. exists id, s, e. auto.
Qed.

Lemma ctx_step_some : forall cid cs ce r,
  (exists rs re, placed_on cid r rs re
                 /\ ctx_step (RSome cid cs ce) r = RSome cid (N.min rs cs) (N.max re ce))
  \/ ((forall rs re, ~ placed_on cid r rs re) /\ ctx_step (RSome cid cs ce) r = RMany).
Proof.
  intros cid cs ce r. unfold ctx_step, ctx_update, placed_on, ctx_some.
  destruct (hr_ref r) as [rid |]; destruct (hr_start r) as [rs |]; destruct (rec_end r) as [re |];
    try (right; split; [intros s' e' [H1 [H2 H3]]; congruence | reflexivity]).
  destruct (N.eqb_spec rid cid) as [Heq | Hne].
  - left. exists rs, re. subst rid. auto.
  - right. split; [| reflexivity]. intros s' e' [H1 _]. congruence.
Qed.

Lemma ctx_step_none : forall r,
  ctx_step RNone r = match hr_ref r with Some _ => RMany | None => RNone end.
Proof. intros r. reflexivity. Qed.

Lemma fold_many : forall tl, fold_left ctx_step tl RMany = RMany.
Proof. induction tl as [| r tl IH]; [reflexivity | exact IH]. Qed.

Lemma fold_none_cases : forall tl,
  (Forall (fun r => hr_ref r = None) tl /\ fold_left ctx_step tl RNone = RNone)
  \/ (Exists (fun r => hr_ref r <> None) tl /\ fold_left ctx_step tl RNone = RMany).
Proof.
  induction tl as [| r tl IH].
  - left. split; [constructor | reflexivity].
  - cbn [fold_left]. rewrite ctx_step_none. destruct (hr_ref r) as [id |] eqn:Er.
    + right. split; [| apply fold_many]. apply Exists_cons_hd. congruence.
    + destruct IH as [[Hall Hf] | [Hex Hf]].
      * left. split; [constructor; assumption | assumption].
      * right. split; [apply Exists_cons_tl; assumption | assumption].
Qed.

(* the loop started from a Some context *)
Lemma fold_some_inv : forall tl id s e,
  match fold_left ctx_step tl (RSome id s e) with
  | RSome id' s' e' =>
      id' = id /\ s' <= s /\ e <= e'
      /\ Forall (fun r => exists rs re, placed_on id r rs re /\ s' <= rs /\ re <= e') tl
      /\ (s' = s \/ Exists (fun r => exists re, placed_on id r s' re) tl)
      /\ (e' = e \/ Exists (fun r => exists rs, placed_on id r rs e') tl)
  | RMany => Exists (fun r => forall rs re, ~ placed_on id r rs re) tl
  | RNone => False
  end.
Proof.
  induction tl as [| r tl IH]; intros id s e.
  - cbn [fold_left]. repeat split; try lia; auto.
  - cbn [fold_left]. destruct (ctx_step_some id s e r) as [[rs [re [Hp Hst]]] | [Hnp Hst]];
      rewrite Hst.
    + specialize (IH id (N.min rs s) (N.max re e)).
      destruct (fold_left ctx_step tl (RSome id (N.min rs s) (N.max re e))) as [| id' s' e' |].
      * exact IH.
      * destruct IH as [Hid [Hs [He [Hall [Hmin Hmax]]]]].
        split; [assumption |]. split; [lia |]. split; [lia |]. split; [| split].
        -- constructor; [| assumption]. exists rs, re. split; [assumption | lia].
        -- destruct Hmin as [Hmin | Hmin]; [| right; apply Exists_cons_tl; assumption].
           destruct (N.min_spec rs s) as [[_ Hm] | [_ Hm]].
           ++ right. apply Exists_cons_hd. exists re. rewrite Hmin, Hm. assumption.
           ++ left. lia.
        -- destruct Hmax as [Hmax | Hmax]; [| right; apply Exists_cons_tl; assumption].
           destruct (N.max_spec re e) as [[_ Hm] | [_ Hm]].
           ++ left. lia.
           ++ right. apply Exists_cons_hd. exists rs. rewrite Hmax, Hm. assumption.
      * apply Exists_cons_tl. exact IH.
    + rewrite fold_many. apply Exists_cons_hd. exact Hnp.
Qed.

Lemma fold_some_complete : forall tl id s e,
  Forall (fun r => exists rs re, placed_on id r rs re) tl ->
  exists s' e', fold_left ctx_step tl (RSome id s e) = RSome id s' e'.
Proof.
  induction tl as [| r tl IH]; intros id s e Hall.
  - exists s, e. reflexivity.
  - inversion Hall as [| r' tl' Hr Htl]; subst. cbn [fold_left].
    destruct (ctx_step_some id s e r) as [[rs [re [Hp Hst]]] | [Hnp Hst]]; rewrite Hst.
    + apply IH. assumption.
    + destruct Hr as [rs [re Hp]]. exfalso. exact (Hnp rs re Hp).
Qed.

Lemma placed_on_fun : forall id id' r s e s' e',
  placed_on id r s e -> placed_on id' r s' e' -> id = id' /\ s = s' /\ e = e'.
Proof.
  intros id id' r s e s' e' [H1 [H2 H3]] [H1' [H2' H3']].
  rewrite H1 in H1'. rewrite H2 in H2'. rewrite H3 in H3'.
  injection H1' as E1. injection H2' as E2. injection H3' as E3. auto.
Qed.

(* ---------------------------------------------------------------- (b) the slice context *)
(* RSome: every record of the slice is on that reference with a start, the context covers all of
   them, its start is the least start and its end the greatest end *)
Theorem get_ctx_some_covers : forall rs id s e,
  get_ctx rs = RSome id s e ->
  Forall (fun r => exists rs' re', placed_on id r rs' re' /\ s <= rs' /\ re' <= e) rs
  /\ Exists (fun r => exists re', placed_on id r s re') rs
  /\ Exists (fun r => exists rs', placed_on id r rs' e) rs.
Proof.
  intros rs id s e Hg. destruct rs as [| r tl]; [discriminate Hg |].
  cbn [get_ctx] in Hg.
  destruct (ctx_first_cases r) as [[id0 [s0 [e0 [Hp Hf]]]] | [[_ [_ Hf]] | [_ Hf]]]; rewrite Hf in Hg.
  2:{ rewrite fold_many in Hg. discriminate Hg. }
  - pose proof (fold_some_inv tl id0 s0 e0) as Hinv. rewrite Hg in Hinv.
    destruct Hinv as [Hid [Hs [He [Hall [Hmin Hmax]]]]]. subst id.
    split; [| split].
    + constructor; [| assumption]. exists s0, e0. auto.
    + destruct Hmin as [Hmin | Hmin]; [| apply Exists_cons_tl; assumption].
      apply Exists_cons_hd. exists e0. rewrite Hmin. assumption.
    + destruct Hmax as [Hmax | Hmax]; [| apply Exists_cons_tl; assumption].
      apply Exists_cons_hd. exists s0. rewrite Hmax. assumption.
  - destruct (fold_none_cases tl) as [[_ Hn] | [_ Hn]]; rewrite Hn in Hg; discriminate Hg.
Qed.

(* exact characterisation of RSome *)
Theorem get_ctx_some_iff : forall rs id, rs <> [] ->
  ((exists s e, get_ctx rs = RSome id s e)
   <-> Forall (fun r => exists rs' re', placed_on id r rs' re') rs).
Proof.
  intros rs id Hne. split.
  - intros [s [e Hg]]. destruct (get_ctx_some_covers rs id s e Hg) as [Hall _].
    eapply Forall_impl; [| exact Hall]. intros r [rs' [re' [Hp _]]]. exists rs', re'. exact Hp.
  - intros Hall. destruct rs as [| r tl]; [contradiction |].
    inversion Hall as [| r' tl' Hr Htl]; subst. cbn [get_ctx].
    destruct Hr as [rs0 [re0 Hp0]].
    destruct (ctx_first_cases r) as [[id0 [s0 [e0 [Hp Hf]]]] | [[Hnp _] | [Hnr _]]].
    + destruct (placed_on_fun _ _ _ _ _ _ _ Hp Hp0) as [Hid _]. subst id0. rewrite Hf.
      apply fold_some_complete. assumption.
    + exfalso. exact (Hnp id rs0 re0 Hp0).
    + exfalso. destruct Hp0 as [Hr0 _]. congruence.
Qed.

(* exact characterisation of RNone (/repo 21fc9d0): no record of the slice has a reference id.
   (Before 21fc9d0 a FIRST record with a reference id but no start was treated like an unplaced
   one and lost its reference id: cram-first-record-reference-without-position-loses-rname.) *)
Theorem get_ctx_none_iff : forall r tl,
  get_ctx (r :: tl) = RNone <-> Forall (fun r' => hr_ref r' = None) (r :: tl).
Proof.
  intros r tl. cbn [get_ctx]. split.
  - intros Hg. destruct (ctx_first_cases r) as [[id0 [s0 [e0 [Hp Hf]]]] | [[_ [_ Hf]] | [Hr Hf]]];
      rewrite Hf in Hg.
    + pose proof (fold_some_inv tl id0 s0 e0) as Hinv. rewrite Hg in Hinv. contradiction.
    + rewrite fold_many in Hg. discriminate Hg.
    + constructor; [exact Hr |].
      destruct (fold_none_cases tl) as [[Hall _] | [_ Hn]]; [assumption |].
      rewrite Hn in Hg. discriminate Hg.
  - intros Hall. inversion Hall as [| r' tl' Hr Htl]; subst.
    destruct (ctx_first_cases r) as [[id0 [s0 [e0 [Hp _]]]] | [[_ [Hnr _]] | [_ Hf]]].
    + exfalso. destruct Hp as [Hp _]. congruence.
    + contradiction.
    + rewrite Hf. destruct (fold_none_cases tl) as [[_ Hn] | [Hex _]]; [assumption |].
      exfalso. apply Exists_exists in Hex. destruct Hex as [x [Hin Hx]].
      rewrite Forall_forall in Htl. apply Hx. apply Htl. assumption.
Qed.

(* a record with a reference id is never in a slice declared unmapped: its reference id is stored *)
Corollary get_ctx_none_no_reference : forall rs r, get_ctx rs = RNone -> In r rs -> hr_ref r = None.
Proof.
  intros rs r Hg Hin. destruct rs as [| r0 tl]; [destruct Hin |].
  apply get_ctx_none_iff in Hg. rewrite Forall_forall in Hg. now apply Hg.
Qed.

(* everything else is RMany *)
Theorem get_ctx_many_iff : forall r tl,
  get_ctx (r :: tl) = RMany
  <-> ((forall id, ~ Forall (fun x => exists rs' re', placed_on id x rs' re') (r :: tl))
       /\ ~ Forall (fun r' => hr_ref r' = None) (r :: tl)).
Proof.
  intros r tl. split.
  - intros Hg. split.
    + intros id Hall. apply (get_ctx_some_iff (r :: tl) id) in Hall; [| discriminate].
      destruct Hall as [s [e He]]. rewrite Hg in He. discriminate He.
    + intros Hn. apply get_ctx_none_iff in Hn. rewrite Hg in Hn. discriminate Hn.
  - intros [Hsome Hnone]. destruct (get_ctx (r :: tl)) as [| id s e |] eqn:Eg.
    + exfalso. apply Hnone. apply get_ctx_none_iff. exact Eg.
    + exfalso. apply (Hsome id). apply get_ctx_some_iff; [discriminate |]. exists s, e. exact Eg.
    + reflexivity.
Qed.

(* ---------------------------------------------------------------- (a) start >= 1, span >= 1 *)
Theorem get_ctx_wf : forall rs, Forall hrec_wf rs -> ctx_wf (get_ctx rs).
Proof.
  intros rs Hwf. destruct (get_ctx rs) as [| id s e |] eqn:Eg; cbn [ctx_wf]; auto.
  destruct (get_ctx_some_covers rs id s e Eg) as [Hall [Hmin _]].
  apply Exists_exists in Hmin. destruct Hmin as [r [Hin [re [_ [Hs He]]]]].
  rewrite Forall_forall in Hwf. specialize (Hwf r Hin).
  destruct (rec_end_ge_start r s re Hwf Hs He) as [H1 H2].
  rewrite Forall_forall in Hall. destruct (Hall r Hin) as [rs' [re' [Hp [_ Hle]]]].
  destruct Hp as [_ [Hs' He']]. rewrite He in He'. injection He' as Heq. lia.
Qed.

Theorem clamp_ctx_wf : forall sq c, ctx_wf c -> ctx_wf (clamp_ctx sq c).
Proof.
  intros sq c Hwf. destruct c as [| id s e |]; cbn [clamp_ctx]; auto.
  destruct (sq_end sq id) as [en |]; [| exact Hwf].
  destruct (N.leb_spec s en) as [Hle | Hgt]; [| exact Hwf].
  unfold ctx_some. cbn [ctx_wf] in *. lia.
Qed.

(* the clamp keeps the reference id and the start and never extends the end *)
Theorem clamp_ctx_shape : forall sq id s e,
  exists e', clamp_ctx sq (RSome id s e) = RSome id s e' /\ e' <= e.
Proof.
  intros sq id s e. cbn [clamp_ctx]. destruct (sq_end sq id) as [en |].
  - destruct (s <=? en); unfold ctx_some; eexists; split; try reflexivity; lia.
  - exists e. split; [reflexivity | lia].
Qed.

Theorem clamp_ctx_not_some : forall sq c,
  (c = RNone \/ c = RMany) -> clamp_ctx sq c = c.
Proof. intros sq c [H | H]; subst c; reflexivity. Qed.

(* after the clamp a context that starts inside the @SQ length also ends inside it *)
Theorem clamp_ctx_inside : forall sq c id s e ln,
  ctx_wf c -> clamp_ctx sq c = RSome id s e ->
  nth_error sq (N.to_nat id) = Some ln -> s <= ln -> e <= ln.
Proof.
  intros sq c id s e ln Hwf Hc Hnth Hs.
  destruct c as [| id0 s0 e0 |]; cbn [clamp_ctx] in Hc; try discriminate Hc.
  cbn [ctx_wf] in Hwf.
  destruct (clamp_ctx_shape sq id0 s0 e0) as [e' [Hsh _]]. cbn [clamp_ctx] in Hsh.
  rewrite Hsh in Hc. injection Hc as Hid Hs0 He0. subst id0 s0 e'.
  unfold sq_end in Hsh. rewrite Hnth in Hsh.
  assert (Hp : pos_new ln = Some ln) by (apply pos_new_some; split; [reflexivity | lia]).
  rewrite Hp in Hsh. destruct (N.leb_spec s ln) as [Hle | Hgt]; [| lia].
  unfold ctx_some in Hsh. injection Hsh as He. lia.
Qed.

(* a context that already lies inside the reference is not changed *)
Theorem clamp_ctx_id_inside : forall sq id s e ln,
  nth_error sq (N.to_nat id) = Some ln -> e <= ln -> clamp_ctx sq (RSome id s e) = RSome id s e.
Proof.
  intros sq id s e ln Hnth He. cbn [clamp_ctx]. unfold sq_end. rewrite Hnth. unfold pos_new.
  destruct (ln =? 0); [reflexivity |]. destruct (s <=? ln); [| reflexivity].
  unfold ctx_some. f_equal. lia.
Qed.

(* the serialised triple of a well-formed context *)
Theorem ctx_triple_some : forall id s e, ctx_wf (RSome id s e) ->
  exists span, ctx_triple (RSome id s e) = (Z.of_N id, Z.of_N s, Z.of_N span)
               /\ 1 <= s /\ 1 <= span /\ s + span - 1 = e.
Proof.
  intros id s e [H1 H2]. exists (ctx_span s e). unfold ctx_span. cbn [ctx_triple].
  unfold ctx_span. split; [reflexivity | lia].
Qed.

Theorem ctx_triple_none_many :
  ctx_triple RNone = ((-1)%Z, 0%Z, 0%Z) /\ ctx_triple RMany = ((-2)%Z, 0%Z, 0%Z).
Proof. split; reflexivity. Qed.

(* ---------------------------------------------------------------- reference MD5 *)
Lemma seq_get_incl_some : forall bases s e, 1 <= s -> s <= e -> e <= lenN bases ->
  exists bs, seq_get_incl bases s e = Some bs /\ lenN bs = ctx_span s e.
Proof.
  intros bases s e H1 H2 H3. unfold seq_get_incl.
  assert (Hc : ((s - 1 <=? e) && (e <=? lenN bases)) = true) by lia.
  rewrite Hc. eexists. split; [reflexivity |].
  unfold lenN, ctx_span in *. rewrite firstn_length, skipn_length. lia.
Qed.

(* exact failure condition of calculate_reference_sequence_md5 *)
Theorem calc_md5_err_iff : forall refsq id s e x, ctx_wf (RSome id s e) ->
  (calc_md5 refsq (RSome id s e) = SErr x
   <-> ((nth_error refsq (N.to_nat id) = None /\ x = EInvalidRefId)
        \/ (exists ln bases, nth_error refsq (N.to_nat id) = Some (ln, bases)
                             /\ lenN bases < e /\ x = ESpanOutside))).
Proof.
  intros refsq id s e x [H1 H2]. cbn [calc_md5].
  destruct (nth_error refsq (N.to_nat id)) as [[ln bases] |] eqn:En.
  - unfold seq_get_incl.
    destruct (N.leb_spec e (lenN bases)) as [Hle | Hgt].
    + assert (Hc : (s - 1 <=? e) = true) by lia. rewrite Hc. cbn [andb]. split.
      * intros H. discriminate H.
      * intros [[H _] | [ln' [b' [Heq [Hlt _]]]]]; [discriminate H |].
        injection Heq as Hl Hb. subst b'. lia.
    + rewrite andb_false_r. split.
      * intros H. injection H as Hx. right. exists ln, bases. auto.
      * intros [[H _] | [ln' [b' [_ [_ Hx]]]]]; [discriminate H | rewrite Hx; reflexivity].
  - split.
    + intros H. injection H as Hx. left. auto.
    + intros [[_ Hx] | [ln' [b' [Heq _]]]]; [rewrite Hx; reflexivity | discriminate Heq].
Qed.

Theorem calc_md5_not_some : forall refsq c, (c = RNone \/ c = RMany) -> calc_md5 refsq c = SOk MdNone.
Proof. intros refsq c [H | H]; subst c; reflexivity. Qed.

(* (a) the declared span of a slice lies inside the reference and the MD5 interval is valid *)
Theorem slice_span_inside_reference : forall refsq rs id s e ln bases,
  Forall hrec_wf rs ->
  clamp_ctx (map fst refsq) (get_ctx rs) = RSome id s e ->
  nth_error refsq (N.to_nat id) = Some (ln, bases) -> lenN bases = ln -> s <= ln ->
  1 <= s /\ 1 <= ctx_span s e /\ s + ctx_span s e - 1 <= ln
  /\ exists bs, calc_md5 refsq (RSome id s e) = SOk (MdOver (normalize_bases bs))
                /\ seq_get_incl bases s e = Some bs /\ lenN bs = ctx_span s e.
Proof.
  intros refsq rs id s e ln bases Hwf Hc Hnth Hlen Hs.
  pose proof (clamp_ctx_wf (map fst refsq) _ (get_ctx_wf rs Hwf)) as Hcw.
  assert (Hn : nth_error (map fst refsq) (N.to_nat id) = Some ln).
  { rewrite nth_error_map, Hnth. reflexivity. }
  pose proof (clamp_ctx_inside _ _ id s e ln (get_ctx_wf rs Hwf) Hc Hn Hs) as He.
  rewrite Hc in Hcw. destruct Hcw as [H1 H2].
  split; [assumption |]. unfold ctx_span at 1 2. split; [lia |]. split; [lia |].
  destruct (seq_get_incl_some bases s e H1 H2) as [bs [Hg Hl]]; [lia |].
  exists bs. split; [| split; assumption]. cbn [calc_md5]. rewrite Hnth, Hg. reflexivity.
Qed.

(* the other side: a context that starts beyond the reference end is left unclamped and the
   writer refuses the slice *)
Theorem slice_start_past_reference_rejected : forall refsq c id s e ln bases,
  ctx_wf c -> clamp_ctx (map fst refsq) c = RSome id s e ->
  nth_error refsq (N.to_nat id) = Some (ln, bases) -> lenN bases = ln -> ln < s ->
  calc_md5 refsq (RSome id s e) = SErr ESpanOutside.
Proof.
  intros refsq c id s e ln bases Hwf Hc Hnth Hlen Hs.
  pose proof (clamp_ctx_wf (map fst refsq) c Hwf) as Hcw. rewrite Hc in Hcw.
  apply calc_md5_err_iff; [exact Hcw |]. right. exists ln, bases.
  destruct Hcw as [H1 H2]. split; [assumption |]. split; [lia | reflexivity].
Qed.

(* ---------------------------------------------------------------- slice header *)
Theorem build_slice_hdr_spec : forall refsq c rs h,
  build_slice_hdr refsq c rs = SOk h ->
  sl_ctx h = clamp_ctx (map fst refsq) (get_ctx rs) /\ sl_nrec h = lenN rs /\ sl_counter h = c
  /\ sl_embedded h = (-1)%Z /\ calc_md5 refsq (sl_ctx h) = SOk (sl_md5 h).
Proof.
  intros refsq c rs h Hb. unfold build_slice_hdr in Hb.
  destruct (calc_md5 refsq (clamp_ctx (map fst refsq) (get_ctx rs))) as [m | x] eqn:Em;
    [| discriminate Hb].
  injection Hb as Hh. subst h. cbn [sl_ctx sl_nrec sl_counter sl_embedded sl_md5]. auto.
Qed.

(* the MD5 field is zero exactly for the None / Many contexts *)
Theorem slice_md5_none_iff : forall refsq c rs h,
  build_slice_hdr refsq c rs = SOk h ->
  (sl_md5 h = MdNone <-> (sl_ctx h = RNone \/ sl_ctx h = RMany)).
Proof.
  intros refsq c rs h Hb. destruct (build_slice_hdr_spec _ _ _ _ Hb) as [_ [_ [_ [_ Hm]]]].
  destruct (sl_ctx h) as [| id s e |]; cbn [calc_md5] in Hm.
  - injection Hm as Hm. split; auto.
  - split.
    + intros Hn. rewrite Hn in Hm. destruct (nth_error refsq (N.to_nat id)) as [[ln b] |];
        [| discriminate Hm]. destruct (seq_get_incl b s e); discriminate Hm.
    + intros [H | H]; discriminate H.
  - injection Hm as Hm. split; auto.
Qed.

(* ---------------------------------------------------------------- (c) chunking and counters *)
Lemma chunks_fuel_concat : forall {A} fuel k (l : list A),
  (1 <= k)%nat -> (length l <= fuel)%nat -> concat (chunks_fuel fuel k l) = l.
Proof.
  intros A fuel. induction fuel as [| f IH]; intros k l Hk Hl.
  - destruct l as [| a l']; [reflexivity | cbn [length] in Hl; lia].
  - destruct l as [| a l']; [reflexivity |]. cbn [chunks_fuel concat].
    rewrite IH; [apply firstn_skipn | assumption |].
    rewrite skipn_length. cbn [length] in *. lia.
Qed.

Lemma chunks_fuel_bounds : forall {A} fuel k (l : list A), (1 <= k)%nat ->
  Forall (fun c => (1 <= length c <= k)%nat) (chunks_fuel fuel k l).
Proof.
  intros A fuel. induction fuel as [| f IH]; intros k l Hk; [constructor |].
  destruct l as [| a l']; [constructor |]. cbn [chunks_fuel]. constructor; [| apply IH; assumption].
  rewrite firstn_length. cbn [length]. lia.
Qed.

Theorem chunks_concat : forall {A} k (l : list A), (1 <= k)%nat -> concat (chunks k l) = l.
Proof. intros A k l Hk. apply chunks_fuel_concat; [assumption | lia]. Qed.

Theorem chunks_bounds : forall {A} k (l : list A), (1 <= k)%nat ->
  Forall (fun c => (1 <= length c <= k)%nat) (chunks k l).
Proof. intros A k l Hk. apply chunks_fuel_bounds. assumption. Qed.

Theorem chunks_single : forall {A} k (l : list A), l <> [] -> (length l <= k)%nat ->
  chunks k l = [l].
Proof.
  intros A k l Hne Hk. unfold chunks. destruct l as [| a l']; [contradiction |].
  cbn [length chunks_fuel]. rewrite firstn_all2 by assumption.
  rewrite skipn_all2 by assumption. destruct (length l'); reflexivity.
Qed.

Lemma sumN_lens_concat : forall {A} (ls : list (list A)),
  sumN (map lenN ls) = lenN (concat ls).
Proof.
  intros A ls. induction ls as [| c tl IH]; [reflexivity |].
  cbn [map sumN fold_right concat]. fold (sumN (map lenN tl)). rewrite IH.
  unfold lenN. rewrite app_length. lia.
Qed.

Theorem build_slices_spec : forall refsq chs c hs,
  build_slices refsq c chs = SOk hs ->
  Forall2 (fun ch h => build_slice_hdr refsq (sl_counter h) ch = SOk h) chs hs
  /\ map sl_nrec hs = map lenN chs
  /\ forall i h, nth_error hs i = Some h ->
                 sl_counter h = c + sumN (map sl_nrec (firstn i hs)).
Proof.
  intros refsq chs. induction chs as [| ch tl IH]; intros c hs Hb.
  - cbn [build_slices] in Hb. injection Hb as Hh. subst hs. split; [constructor |].
    split; [reflexivity |]. intros i h Hn. destruct i; discriminate Hn.
  - cbn [build_slices] in Hb.
    destruct (build_slice_hdr refsq c ch) as [h0 | x] eqn:Eh; [| discriminate Hb].
    destruct (build_slices refsq (c + lenN ch) tl) as [hs0 | x] eqn:Et; [| discriminate Hb].
    injection Hb as Hh. subst hs. destruct (IH _ _ Et) as [Hf2 [Hlens Hcnt]].
    destruct (build_slice_hdr_spec _ _ _ _ Eh) as [_ [Hn [Hc _]]].
    split; [| split].
    + constructor; [rewrite Hc; exact Eh | exact Hf2].
    + cbn [map]. rewrite Hn, Hlens. reflexivity.
    + intros i h Hi. destruct i as [| i'].
      * cbn [nth_error] in Hi. injection Hi as Hi. subst h. cbn [firstn map sumN fold_right]. lia.
      * cbn [nth_error] in Hi. specialize (Hcnt i' h Hi). rewrite Hcnt.
        cbn [firstn map sumN fold_right]. fold (sumN (map sl_nrec (firstn i' hs0))).
        rewrite Hn. lia.
Qed.

(* ---------------------------------------------------------------- (d) container header *)
Lemma ctx_le_refl : forall c, ctx_le c c.
Proof. intros [| i s e |]; cbn [ctx_le]; auto. repeat split; lia. Qed.

Lemma ctx_le_trans : forall a b c, ctx_le a b -> ctx_le b c -> ctx_le a c.
Proof.
  intros [| i s e |] [| i' s' e' |] [| i'' s'' e'' |]; cbn [ctx_le]; try tauto.
  intros [H1 [H2 H3]] [H4 [H5 H6]]. split; [congruence | lia].
Qed.

Lemma cont_ctx_step_le : forall c s c', cont_ctx_step c s = SOk c' -> ctx_le c c' /\ ctx_le s c'.
Proof.
  intros [| ci cs ce |] [| si ss se |] c' H; cbn [cont_ctx_step] in H; try discriminate H.
  - injection H as H. subst c'. cbn [ctx_le]. auto.
  - destruct (N.eqb_spec ci si) as [Heq | Hne]; [| discriminate H].
    injection H as H. subst c'. unfold ctx_some. cbn [ctx_le]. subst si. repeat split; lia.
  - injection H as H. subst c'. cbn [ctx_le]. auto.
Qed.

Lemma cont_ctx_from_le : forall ss c c', cont_ctx_from c ss = SOk c' ->
  ctx_le c c' /\ Forall (fun x => ctx_le x c') ss.
Proof.
  induction ss as [| s tl IH]; intros c c' H.
  - cbn [cont_ctx_from] in H. injection H as H. subst c'. split; [apply ctx_le_refl | constructor].
  - cbn [cont_ctx_from] in H. destruct (cont_ctx_step c s) as [c1 | x] eqn:Es; [| discriminate H].
    destruct (IH _ _ H) as [H1 H2]. destruct (cont_ctx_step_le _ _ _ Es) as [H3 H4].
    split; [eapply ctx_le_trans; eassumption |].
    constructor; [eapply ctx_le_trans; eassumption | assumption].
Qed.

(* the container context contains the context of every one of its slices (same kind; for a
   single reference: same id, start <= every start, end >= every end) *)
Theorem cont_ctx_covers : forall ss c, ss <> [] -> cont_ctx ss = SOk c ->
  Forall (fun x => ctx_le x c) ss.
Proof.
  intros ss c Hne H. destruct ss as [| s tl]; [contradiction |]. cbn [cont_ctx] in H.
  destruct (cont_ctx_from_le _ _ _ H) as [H1 H2]. constructor; assumption.
Qed.

Theorem cont_ctx_single : forall s, cont_ctx [s] = SOk s.
Proof. reflexivity. Qed.

Theorem build_container_hdr_spec : forall refsq rps c rs h,
  (1 <= rps)%nat -> rs <> [] -> build_container_hdr refsq rps c rs = SOk h ->
  ct_nrec h = lenN rs /\ ct_counter h = c /\ ct_bases h = base_count rs
  /\ ct_slices h <> []
  /\ Forall2 (fun ch s => build_slice_hdr refsq (sl_counter s) ch = SOk s)
             (chunks rps rs) (ct_slices h)
  /\ sumN (map sl_nrec (ct_slices h)) = ct_nrec h
  /\ Forall (fun s => 1 <= sl_nrec s <= N.of_nat rps) (ct_slices h)
  /\ (forall i s, nth_error (ct_slices h) i = Some s ->
                  sl_counter s = ct_counter h + sumN (map sl_nrec (firstn i (ct_slices h))))
  /\ cont_ctx (map sl_ctx (ct_slices h)) = SOk (ct_ctx h)
  /\ Forall (fun s => ctx_le (sl_ctx s) (ct_ctx h)) (ct_slices h)
  /\ cont_fits h = true.
Proof.
  intros refsq rps c rs h Hk Hne Hb. unfold build_container_hdr in Hb.
  destruct (build_slices refsq c (chunks rps rs)) as [shs | x] eqn:Es; [| discriminate Hb].
  destruct (cont_ctx (map sl_ctx shs)) as [cc | x] eqn:Ec; [| discriminate Hb].
  destruct (cont_fits (mk_cont_hdr cc (lenN rs) c (base_count rs) shs)) eqn:Ef; [| discriminate Hb].
  injection Hb as Hh. subst h. cbn [ct_ctx ct_nrec ct_counter ct_bases ct_slices].
  destruct (build_slices_spec _ _ _ _ Es) as [Hf2 [Hlens Hcnt]].
  assert (Hshs : shs <> []).
  { intros E. subst shs. cbn [map] in Hlens. symmetry in Hlens. apply map_eq_nil in Hlens.
    pose proof (chunks_concat rps rs Hk) as Hcc. rewrite Hlens in Hcc. cbn [concat] in Hcc.
    apply Hne. symmetry. exact Hcc. }
  repeat split; try assumption; try reflexivity.
  - rewrite Hlens, sumN_lens_concat, chunks_concat by assumption. reflexivity.
  - pose proof (chunks_bounds rps rs Hk) as Hbd.
    assert (Hg : forall (chs : list (list hrec)) hs, map sl_nrec hs = map lenN chs ->
                 Forall (fun c0 => (1 <= length c0 <= rps)%nat) chs ->
                 Forall (fun s => 1 <= sl_nrec s <= N.of_nat rps) hs).
    { induction chs as [| ch tl IH]; intros hs Hm Hb.
      - destruct hs; [constructor | discriminate Hm].
      - destruct hs as [| s hs']; [discriminate Hm |]. cbn [map] in Hm.
        injection Hm as Hs Ht. inversion Hb as [| x l Hx Hl]; subst.
        constructor; [rewrite Hs; unfold lenN; lia | apply IH; assumption]. }
    exact (Hg _ _ Hlens Hbd).
  - pose proof (cont_ctx_covers (map sl_ctx shs) cc) as Hcov.
    assert (Hn : map sl_ctx shs <> []).
    { intros E. apply map_eq_nil in E. contradiction. }
    specialize (Hcov Hn Ec). rewrite Forall_map in Hcov. exact Hcov.
Qed.

(* a container of one slice (always the case with DEFAULT_SLICES_PER_CONTAINER = 1) declares
   exactly what its slice declares *)
Theorem build_container_hdr_one_slice : forall refsq rps c rs h,
  rs <> [] -> (length rs <= rps)%nat -> build_container_hdr refsq rps c rs = SOk h ->
  exists s, ct_slices h = [s] /\ ct_ctx h = sl_ctx s /\ ct_nrec h = sl_nrec s
            /\ ct_counter h = sl_counter s
            /\ sl_ctx s = clamp_ctx (map fst refsq) (get_ctx rs).
Proof.
  intros refsq rps c rs h Hne Hk Hb. unfold build_container_hdr in Hb.
  rewrite (chunks_single rps rs Hne Hk) in Hb. cbn [build_slices] in Hb.
  destruct (build_slice_hdr refsq c rs) as [s | x] eqn:Es; [| discriminate Hb].
  cbn [map cont_ctx cont_ctx_from] in Hb.
  destruct (cont_fits (mk_cont_hdr (sl_ctx s) (lenN rs) c (base_count rs) [s])); [| discriminate Hb].
  injection Hb as Hh. subst h. cbn [ct_ctx ct_nrec ct_counter ct_slices].
  destruct (build_slice_hdr_spec _ _ _ _ Es) as [Hc [Hn [Hcn _]]].
  exists s. auto.
Qed.

(* ---------------------------------------------------------------- the stream of containers *)
Theorem write_containers_spec : forall refsq rps conts c hs,
  write_containers refsq rps c conts = SOk hs ->
  Forall2 (fun ct h => build_container_hdr refsq rps (ct_counter h) ct = SOk h) conts hs
  /\ forall i h, nth_error hs i = Some h ->
                 ct_counter h = c + sumN (map lenN (firstn i conts)).
Proof.
  intros refsq rps conts. induction conts as [| ct tl IH]; intros c hs Hb.
  - cbn [write_containers] in Hb. injection Hb as Hh. subst hs. split; [constructor |].
    intros i h Hn. destruct i; discriminate Hn.
  - cbn [write_containers] in Hb.
    destruct (build_container_hdr refsq rps c ct) as [h0 | x] eqn:Eh; [| discriminate Hb].
    destruct (write_containers refsq rps (c + lenN ct) tl) as [hs0 | x] eqn:Et; [| discriminate Hb].
    injection Hb as Hh. subst hs. destruct (IH _ _ Et) as [Hf2 Hcnt].
    assert (Hc0 : ct_counter h0 = c).
    { unfold build_container_hdr in Eh.
      destruct (build_slices refsq c (chunks rps ct)) as [shs | x]; [| discriminate Eh].
      destruct (cont_ctx (map sl_ctx shs)) as [cc | x]; [| discriminate Eh].
      destruct (cont_fits _); [| discriminate Eh]. injection Eh as Eh. subst h0. reflexivity. }
    split.
    + constructor; [rewrite Hc0; exact Eh | exact Hf2].
    + intros i h Hi. destruct i as [| i'].
      * cbn [nth_error] in Hi. injection Hi as Hi. subst h. cbn [firstn map sumN fold_right]. lia.
      * cbn [nth_error] in Hi. specialize (Hcnt i' h Hi). rewrite Hcnt.
        cbn [firstn map sumN fold_right]. fold (sumN (map lenN (firstn i' tl))). lia.
Qed.

(* the whole stream: container i carries the number of records before it, the containers
   partition the stream, each holds 1 .. spc*rps records *)
Theorem write_stream_spec : forall refsq rps spc rs hs,
  (1 <= rps)%nat -> (1 <= spc)%nat -> write_stream refsq rps spc rs = SOk hs ->
  Forall2 (fun ct h => build_container_hdr refsq rps (ct_counter h) ct = SOk h /\ ct <> []
                       /\ ct_nrec h = lenN ct)
          (chunks (spc * rps) rs) hs
  /\ sumN (map ct_nrec hs) = lenN rs
  /\ (forall i h, nth_error hs i = Some h ->
                  ct_counter h = sumN (map ct_nrec (firstn i hs)))
  /\ Forall (fun h => 1 <= ct_nrec h <= N.of_nat (spc * rps)) hs.
Proof.
  intros refsq rps spc rs hs Hr Hs Hw. unfold write_stream in Hw.
  assert (Hk : (1 <= spc * rps)%nat) by nia.
  destruct (write_containers_spec _ _ _ _ _ Hw) as [Hf2 Hcnt].
  pose proof (chunks_bounds (spc * rps) rs Hk) as Hbd.
  pose proof (chunks_concat (spc * rps) rs Hk) as Hcc.
  set (chs := chunks (spc * rps) rs) in *. clearbody chs.
  assert (Hf2' : Forall2 (fun ct h => build_container_hdr refsq rps (ct_counter h) ct = SOk h
                                      /\ ct <> [] /\ ct_nrec h = lenN ct) chs hs).
  { clear Hcnt Hcc Hw. induction Hf2 as [| ct h cts hs' Hb Hrest IH]; [constructor |].
    inversion Hbd as [| x l Hx Hl]; subst.
    assert (Hne : ct <> []) by (intros E; subst ct; cbn [length] in Hx; lia).
    constructor; [| apply IH; assumption]. split; [assumption |]. split; [assumption |].
    destruct (build_container_hdr_spec _ _ _ _ _ Hr Hne Hb) as [Hn _]. exact Hn. }
  assert (Hlens : map ct_nrec hs = map lenN chs).
  { clear Hcnt Hcc Hw Hf2 Hbd. induction Hf2' as [| ct h cts hs' [_ [_ Hn]] Hrest IH];
      [reflexivity |]. cbn [map]. rewrite Hn, IH. reflexivity. }
  split; [exact Hf2' |]. split; [| split].
  - rewrite Hlens, sumN_lens_concat, Hcc. reflexivity.
  - intros i h Hi. rewrite (Hcnt i h Hi). rewrite <- (firstn_map ct_nrec), Hlens, (firstn_map lenN). lia.
  - clear Hcnt Hcc Hw Hf2 Hlens. induction Hf2' as [| ct h cts hs' [_ [_ Hn]] Hrest IH];
      [constructor |]. inversion Hbd as [| x l Hx Hl]; subst.
    constructor; [rewrite Hn; unfold lenN; lia | apply IH; assumption].
Qed.

(* with one slice per container every container header repeats its only slice header *)
Theorem write_stream_one_slice_per_container : forall refsq rps rs hs,
  (1 <= rps)%nat -> write_stream refsq rps 1 rs = SOk hs ->
  Forall (fun h => exists s, ct_slices h = [s] /\ ct_ctx h = sl_ctx s /\ ct_nrec h = sl_nrec s
                             /\ ct_counter h = sl_counter s) hs.
Proof.
  intros refsq rps rs hs Hr Hw.
  destruct (write_stream_spec _ _ _ _ _ Hr (le_n 1) Hw) as [Hf2 _].
  assert (Hk : (1 <= 1 * rps)%nat) by lia.
  pose proof (chunks_bounds (1 * rps) rs Hk) as Hbd.
  set (chs := chunks (1 * rps) rs) in *. clearbody chs. clear Hw.
  induction Hf2 as [| ct h cts hs' [Hb [Hne _]] Hrest IH]; [constructor |].
  inversion Hbd as [| x l Hx Hl]; subst. constructor; [| apply IH; assumption].
  assert (Hlen : (length ct <= rps)%nat) by lia.
  destruct (build_container_hdr_one_slice _ _ _ _ _ Hne Hlen Hb) as [s [H1 [H2 [H3 [H4 _]]]]].
  exists s. auto.
Qed.

(* ---------------------------------------------------------------- the SAM record conversion *)
Theorem sh_convert_wf : forall refsq s r,
  (forall st, sr_start s = Some st -> 1 <= st) -> sh_convert refsq s = SOk r ->
  hrec_wf r /\ hr_ref r = sr_ref s /\ hr_start r = sr_start s /\
  (sr_seq s <> [] -> hr_rl r = len (sr_seq s) /\ hr_missing r = false) /\
  (sr_seq s = [] -> hr_missing r = true).
Proof.
  intros refsq s r Hst Hc. unfold sh_convert in Hc.
  destruct (convert_core _ _ _ _ _) as [[[[rl ms] q] ws]|] eqn:Ec.
  - injection Hc as Hc. subst r. cbn [hr_ref hr_start hr_rl hr_missing].
    split; [intros st Hs; cbn [hr_start] in Hs; now apply Hst|]. split; [reflexivity|]. split; [reflexivity|].
    destruct (convert_core_shape _ _ _ _ _ _ _ _ _ Ec) as (E1 & E2 & _). subst rl ms.
    unfold core_read_length. destruct (sr_seq s); split; intro H; try congruence; try (split; reflexivity); reflexivity.
  - destruct (match sr_ref s with Some _ => _ | None => _ end) as [[[?|] ?]|]; discriminate.
Qed.

(* ---------------------------------------------------------------- calculate_alignment_span *)
(* on the features cigar_to_features makes from a CIGAR that fits the sequence, the usize
   subtractions of calculate_alignment_span never underflow, and the span is
   read_length + (D, N lengths) - (I, S lengths) *)
Definition span_neutral (f : wfeature) : Prop := forall s, wspan_step s f = s.

Lemma fold_neutral : forall fs acc, Forall span_neutral fs -> fold_left wspan_step fs acc = acc.
Proof.
  induction fs as [| f fs IH]; intros acc Hall; [reflexivity |].
  inversion Hall as [| x l Hx Hl]; subst. cbn [fold_left]. rewrite Hx. apply IH. assumption.
Qed.

Lemma mismatch_neutral : forall pos rb sb q f, mismatch_feature pos rb sb q = Some f -> span_neutral f.
Proof.
  intros pos rb sb q f H. unfold mismatch_feature in H.
  destruct (base_of_byte rb); destruct (base_of_byte sb); try destruct q;
    try discriminate H; injection H as H; subst f; intros s; reflexivity.
Qed.

Lemma match_features_neutral : forall rbs sbs pos q fs,
  match_features pos rbs sbs q = Some fs -> Forall span_neutral fs.
Proof.
  induction rbs as [| rb rbs IH]; intros sbs pos q fs H.
  - cbn [match_features] in H. injection H as H. subst fs. constructor.
  - destruct sbs as [| sb sbs]; cbn [match_features] in H.
    + injection H as H. subst fs. constructor.
    + destruct (match_features (pos + 1) rbs sbs q) as [rest |] eqn:Er; [| discriminate H].
      specialize (IH _ _ _ _ Er). destruct (eq_nocase rb sb).
      * injection H as H. subst fs. exact IH.
      * destruct (mismatch_feature pos rb sb q) as [f |] eqn:Em; [| discriminate H].
        injection H as H. subst fs. constructor; [eapply mismatch_neutral; eassumption | exact IH].
Qed.

Lemma slice1_facts : forall l a b x, slice1 l a b = Some x ->
  1 <= a /\ a <= b /\ b <= len l + 1 /\ len x = b - a.
Proof.
  intros l a b x H. unfold slice1 in H.
  destruct ((1 <=? a) && (a <=? b) && (b <=? N.of_nat (length l) + 1)) eqn:Ec; [| discriminate H].
  injection H as H. subst x. unfold len. rewrite firstn_length, skipn_length. lia.
Qed.

Lemma get1_facts : forall l p x, get1 l p = Some x -> 1 <= p /\ p <= len l.
Proof.
  intros l p x H. unfold get1 in H. destruct (N.eqb_spec p 0) as [Hz | Hz]; [discriminate H |].
  assert (Hn : nth_error l (N.to_nat (p - 1)) <> None) by congruence.
  apply nth_error_Some in Hn. unfold len. lia.
Qed.

Lemma match_op_neutral : forall k refseq seq quals n rp dp fo,
  (k = KM \/ k = KEq \/ k = KX) ->
  op_features true refseq seq quals k n rp dp = Some fo -> Forall span_neutral fo.
Proof.
  intros k refseq seq quals n rp dp fo Hk H.
  assert (Hb : (if n =? 1 then
        match get1 refseq rp, get1 seq dp, get1 quals dp with
        | Some rb, Some sb, Some q =>
            app_opt (Some [])
                    (if eq_nocase rb sb then Some []
                     else match mismatch_feature dp rb sb (Some q) with
                          | Some f => Some [f] | None => None end)
        | _, _, _ => None
        end
      else
        match q_feature true quals dp n false,
              slice1 refseq rp (rp + n), slice1 seq dp (dp + n) with
        | Some qf, Some rbs, Some sbs => app_opt (Some qf) (match_features dp rbs sbs (get1 quals dp))
        | _, _, _ => None
        end) = Some fo).
  { destruct Hk as [Hk | [Hk | Hk]]; subst k; exact H. }
  clear H Hk. destruct (n =? 1).
  - destruct (get1 refseq rp) as [rb |]; [| discriminate Hb].
    destruct (get1 seq dp) as [sb |]; [| discriminate Hb].
    destruct (get1 quals dp) as [q |]; [| discriminate Hb].
    destruct (eq_nocase rb sb).
    + cbn [app_opt app] in Hb. injection Hb as Hb. subst fo. constructor.
    + destruct (mismatch_feature dp rb sb (Some q)) as [f |] eqn:Em; [| discriminate Hb].
      cbn [app_opt app] in Hb. injection Hb as Hb. subst fo.
      constructor; [eapply mismatch_neutral; eassumption | constructor].
  - cbn [q_feature] in Hb.
    destruct (slice1 refseq rp (rp + n)) as [rbs |]; [| discriminate Hb].
    destruct (slice1 seq dp (dp + n)) as [sbs |]; [| discriminate Hb].
    destruct (match_features dp rbs sbs (get1 quals dp)) as [fs |] eqn:Em; [| discriminate Hb].
    cbn [app_opt app] in Hb. injection Hb as Hb. subst fo.
    eapply match_features_neutral. eassumption.
Qed.

Definition op_is (k : kind) (n : N) : N := match k with KI | KS => n | _ => 0 end.
Definition op_dn (k : kind) (n : N) : N := match k with KD | KN => n | _ => 0 end.
Fixpoint is_len (ops : list op) : N :=
  match ops with [] => 0 | (k, n) :: r => op_is k n + is_len r end.
Fixpoint dn_len (ops : list op) : N :=
  match ops with [] => 0 | (k, n) :: r => op_dn k n + dn_len r end.

(* the exact (untruncated) effect of the features of one op; [acc + dp >= |seq| + 1] says that the
   running span is at least the number of bases not yet consumed *)
Lemma op_span : forall k refseq seq quals n rp dp fo acc,
  op_features true refseq seq quals k n rp dp = Some fo -> 1 <= dp -> len seq + 1 <= acc + dp ->
  fold_left wspan_step fo acc + op_is k n = acc + op_dn k n
  /\ op_is k n <= acc
  /\ len seq + 1 <= fold_left wspan_step fo acc + (if consumes_read k then dp + n else dp).
Proof.
  intros k refseq seq quals n rp dp fo acc H Hdp Hacc.
  assert (Hm : (k = KM \/ k = KEq \/ k = KX) ->
               fold_left wspan_step fo acc = acc).
  { intros Hk. apply fold_neutral. eapply match_op_neutral; eassumption. }
  destruct k; cbn [op_is op_dn consumes_read].
  - rewrite Hm by auto. lia.
  - cbn [op_features] in H. destruct (N.eqb_spec n 1) as [H1 | H1].
    + destruct (get1 seq dp) as [b |] eqn:Eg; [| discriminate H].
      cbn [q_feature app_opt app] in H. injection H as H. subst fo.
      destruct (get1_facts _ _ _ Eg) as [Hg1 Hg2]. cbn [fold_left wspan_step]. lia.
    + destruct (slice1 seq dp (dp + n)) as [bs |] eqn:Es; [| discriminate H].
      cbn [q_feature app_opt app] in H. injection H as H. subst fo.
      destruct (slice1_facts _ _ _ _ Es) as [Hs1 [Hs2 [Hs3 Hs4]]]. cbn [fold_left wspan_step]. lia.
  - cbn [op_features] in H. injection H as H. subst fo. cbn [fold_left wspan_step]. lia.
  - cbn [op_features] in H. injection H as H. subst fo. cbn [fold_left wspan_step]. lia.
  - cbn [op_features] in H.
    destruct (slice1 seq dp (dp + n)) as [bs |] eqn:Es; [| discriminate H].
    cbn [q_feature app_opt app] in H. injection H as H. subst fo.
    destruct (slice1_facts _ _ _ _ Es) as [Hs1 [Hs2 [Hs3 Hs4]]]. cbn [fold_left wspan_step]. lia.
  - cbn [op_features] in H. injection H as H. subst fo. cbn [fold_left wspan_step]. lia.
  - cbn [op_features] in H. injection H as H. subst fo. cbn [fold_left wspan_step]. lia.
  - rewrite Hm by auto. lia.
  - rewrite Hm by auto. lia.
Qed.

Lemma c2f_span : forall ops refseq seq quals rp dp ws acc,
  c2f true refseq seq quals ops rp dp = Some ws -> 1 <= dp -> len seq + 1 <= acc + dp ->
  fold_left wspan_step ws acc + is_len ops = acc + dn_len ops.
Proof.
  induction ops as [| [k n] rest IH]; intros refseq seq quals rp dp ws acc H Hdp Hacc.
  - cbn [c2f] in H. injection H as H. subst ws. cbn [fold_left is_len dn_len]. lia.
  - cbn [c2f] in H.
    destruct (op_features true refseq seq quals k n rp dp) as [fo |] eqn:Eo; [| discriminate H].
    destruct (c2f true refseq seq quals rest (if consumes_reference k then rp + n else rp)
                  (if consumes_read k then dp + n else dp)) as [fr |] eqn:Er;
      [| discriminate H].
    cbn [app_opt] in H. injection H as H. subst ws. rewrite fold_left_app.
    destruct (op_span _ _ _ _ _ _ _ _ acc Eo Hdp Hacc) as [H1 [H2 H3]].
    assert (Hdp' : 1 <= (if consumes_read k then dp + n else dp)) by (destruct (consumes_read k); lia).
    specialize (IH _ _ _ _ _ _ (fold_left wspan_step fo acc) Er Hdp' H3).
    cbn [is_len dn_len]. lia.
Qed.

(* the span of a converted record: no underflow, and for a CIGAR that consumes the whole read it
   is the reference length of the CIGAR *)
Theorem converted_span : forall refseq seq quals ops start ws,
  cigar_to_features true refseq seq quals ops start = Some ws ->
  w_alignment_span (len seq) ws + is_len ops = len seq + dn_len ops.
Proof.
  intros refseq seq quals ops start ws H. unfold cigar_to_features in H. unfold w_alignment_span.
  apply (c2f_span _ _ _ _ _ _ _ (len seq) H); lia.
Qed.

Lemma read_ref_len : forall ops, read_len ops + dn_len ops = is_len ops + ref_len ops.
Proof.
  induction ops as [| [k n] rest IH]; [reflexivity |].
  cbn [read_len ref_len is_len dn_len]. destruct k; cbn [consumes_read consumes_reference op_is op_dn]; lia.
Qed.

(* ... so for a CIGAR whose read length is |SEQ| the span is the CIGAR's reference length *)
Theorem converted_span_ref_len : forall refseq seq quals ops start ws,
  cigar_to_features true refseq seq quals ops start = Some ws -> read_len ops = len seq ->
  w_alignment_span (len seq) ws = ref_len ops.
Proof.
  intros refseq seq quals ops start ws H Hr.
  pose proof (converted_span _ _ _ _ _ _ H) as Hs. pose proof (read_ref_len ops) as Hl. lia.
Qed.
