(* C07 — the blocks of one slice and the block_count / block_content_ids fields of its header.

   Mirrors noodles-cram/src/io/writer/container/slice.rs (HEAD 61aefd0):

     write_records   external_data_writers : HashMap<ContentId, Vec<u8>>, one (empty) buffer for every
                     standard data series and every tag encoding key; `.into_iter().collect()` gives
                     the (id, buf) pairs in the HashMap's iteration order - an ARBITRARY order of
                     pairwise different keys, different from process to process.  The model therefore
                     takes the list `bufs` of (content id, buffer length) IN THAT ORDER as its input
                     and every statement below holds for any order.
     build_blocks    core data block (ContentType::CoreData = 5, content id 0) is always built, also
                     from an empty buffer; external blocks (ContentType::ExternalData = 4) only from
                     the NON-EMPTY buffers (`.filter(|(_, buf)| !buf.is_empty())`), order kept
     build_slice     block_content_ids = core id :: ids of the external blocks;
                     block_count = block_content_ids.len()
   and io/writer/container/slice/header.rs write_block_count / write_block_content_ids
   (i32::try_from -> InvalidInput, ITF8 count, ITF8 array length, one ITF8 per id).

   Definitions and proofs (small file). *)
From Coq Require Import List NArith ZArith Bool Lia Permutation.
From NV Require Import Cram.Itf8.
Import ListNotations.
Open Scope N_scope.

Definition sb_core_id : N := 0.
Definition sb_type_core : N := 5.
Definition sb_type_ext : N := 4.
Definition sb_i32_max : N := 2147483647.

Definition sb_lenN {A} (l : list A) : N := N.of_nat (length l).

(* `!buf.is_empty()` on (content id, buffer length) *)
Definition sb_nonempty (b : N * N) : bool := negb (snd b =? 0).

(* build_blocks: the external buffers that become blocks *)
Definition sb_ext (bufs : list (N * N)) : list (N * N) := filter sb_nonempty bufs.

Record sb_desc := mk_sb_desc { sd_type : N; sd_id : N; sd_raw : N }.

(* the blocks that follow the slice header block in the container: core, then external *)
Definition sb_blocks (core_len : N) (bufs : list (N * N)) : list sb_desc :=
  mk_sb_desc sb_type_core sb_core_id core_len
    :: map (fun b => mk_sb_desc sb_type_ext (fst b) (snd b)) (sb_ext bufs).

(* build_slice: header fields *)
Definition sb_ids (bufs : list (N * N)) : list N := sb_core_id :: map fst (sb_ext bufs).
Definition sb_count (bufs : list (N * N)) : N := sb_lenN (sb_ids bufs).

(* write_block_count ++ write_block_content_ids; None = Err(InvalidInput) of i32::try_from.
   Content ids are i32 values; the ids the writer uses are >= 0 (data series 1..28, tag keys). *)
Definition sb_header_bytes (bufs : list (N * N)) : option (list N) :=
  if sb_count bufs <=? sb_i32_max
  then Some (itf8_enc (sb_count bufs) ++ itf8_enc (sb_lenN (sb_ids bufs))
               ++ flat_map itf8_enc (sb_ids bufs))
  else None.

(* ------------------------------------------------------------------------------------ proofs *)

Lemma sb_count_is_block_count : forall core_len bufs,
  sb_count bufs = sb_lenN (sb_blocks core_len bufs).
Proof.
  intros. unfold sb_count, sb_lenN, sb_ids, sb_blocks. cbn [length]. now rewrite !map_length.
Qed.

Lemma sb_count_value : forall bufs,
  sb_count bufs = 1 + sb_lenN (sb_ext bufs).
Proof.
  intros. unfold sb_count, sb_lenN, sb_ids. cbn [length]. rewrite map_length. lia.
Qed.

(* the header lists exactly the content ids of the blocks that follow it, in their order *)
Lemma sb_ids_are_block_ids : forall core_len bufs,
  sb_ids bufs = map sd_id (sb_blocks core_len bufs).
Proof.
  intros. unfold sb_ids, sb_blocks. cbn [map sd_id]. f_equal.
  rewrite map_map. reflexivity.
Qed.

Lemma sb_block_types : forall core_len bufs,
  map sd_type (sb_blocks core_len bufs) = sb_type_core :: repeat sb_type_ext (length (sb_ext bufs)).
Proof.
  intros. unfold sb_blocks. cbn [map sd_type]. f_equal.
  induction (sb_ext bufs) as [|b l IH]; cbn; [reflexivity|]. now rewrite IH.
Qed.

(* no empty external block is written, and every non-empty buffer gets its block *)
Lemma sb_ext_spec : forall bufs id len,
  In (id, len) (sb_ext bufs) <-> In (id, len) bufs /\ len <> 0.
Proof.
  intros. unfold sb_ext. rewrite filter_In. unfold sb_nonempty. cbn [snd].
  rewrite negb_true_iff, N.eqb_neq. tauto.
Qed.

Lemma sb_external_blocks_nonempty : forall core_len bufs d,
  In d (sb_blocks core_len bufs) -> sd_type d = sb_type_ext -> sd_raw d <> 0.
Proof.
  intros core_len bufs d Hin Ht. unfold sb_blocks in Hin. destruct Hin as [<-|Hin].
  - cbn in Ht. discriminate.
  - apply in_map_iff in Hin. destruct Hin as [[id len] [<- Hin]]. cbn.
    apply sb_ext_spec in Hin. tauto.
Qed.

Lemma sb_id_listed_iff : forall bufs id,
  In id (sb_ids bufs) <-> id = sb_core_id \/ exists len, In (id, len) bufs /\ len <> 0.
Proof.
  intros. unfold sb_ids. cbn [In]. split.
  - intros [H|H]; [left; auto|right]. apply in_map_iff in H. destruct H as [[i l] [<- H]].
    exists l. now apply sb_ext_spec.
  - intros [H|[len H]]; [left; auto|right]. apply in_map_iff. exists (id, len). split; [reflexivity|].
    now apply sb_ext_spec.
Qed.

Lemma NoDup_map_filter : forall (A B : Type) (f : A -> B) (p : A -> bool) (l : list A),
  NoDup (map f l) -> NoDup (map f (filter p l)).
Proof.
  intros A B f p l. induction l as [|a l IH]; cbn; intro H; [constructor|].
  inversion H as [|x xs Hn Hd]; subst. destruct (p a); cbn; auto.
  constructor; auto. intro Hin. apply Hn. apply in_map_iff in Hin. destruct Hin as [y [Hy Hin]].
  apply in_map_iff. exists y. split; auto. apply filter_In in Hin. tauto.
Qed.

(* HashMap keys are pairwise different, and no data series / tag key is the core id 0:
   the content ids of a slice are pairwise different *)
Lemma sb_ids_nodup : forall bufs,
  NoDup (map fst bufs) -> ~ In sb_core_id (map fst bufs) -> NoDup (sb_ids bufs).
Proof.
  intros bufs Hnd H0. unfold sb_ids. constructor.
  - intro Hin. apply H0. apply in_map_iff in Hin. destruct Hin as [y [Hy Hin]].
    apply in_map_iff. exists y. split; auto. apply filter_In in Hin. tauto.
  - now apply NoDup_map_filter.
Qed.

Lemma filter_perm : forall (A : Type) (p : A -> bool) (l l' : list A),
  Permutation l l' -> Permutation (filter p l) (filter p l').
Proof.
  intros A p l l' H. induction H; cbn.
  - constructor.
  - destruct (p x); auto.
  - destruct (p x), (p y); auto using perm_swap.
  - eapply perm_trans; eauto.
Qed.

(* the iteration order of the HashMap only permutes the external blocks: count unchanged, the same
   ids, the core id always first *)
Lemma sb_order_irrelevant : forall bufs bufs',
  Permutation bufs bufs' ->
  sb_count bufs = sb_count bufs' /\
  Permutation (sb_ids bufs) (sb_ids bufs') /\
  hd_error (sb_ids bufs) = Some sb_core_id /\ hd_error (sb_ids bufs') = Some sb_core_id.
Proof.
  intros bufs bufs' H.
  assert (Hp : Permutation (sb_ext bufs) (sb_ext bufs')) by now apply filter_perm.
  repeat split.
  - rewrite !sb_count_value. unfold sb_lenN. now rewrite (Permutation_length Hp).
  - unfold sb_ids. constructor. now apply Permutation_map.
Qed.

(* the header bytes: refused iff the count does not fit an i32 *)
Lemma sb_header_bytes_error_iff : forall bufs,
  sb_header_bytes bufs = None <-> sb_i32_max < sb_count bufs.
Proof.
  intros. unfold sb_header_bytes. destruct (N.leb_spec (sb_count bufs) sb_i32_max); split;
    intro; try discriminate; try lia; reflexivity.
Qed.

(* ------------------------------------------------------------------ the reader's side of the two
   fields (io/reader/container/slice/header.rs: read_itf8_as block_count, then
   read_block_content_ids = ITF8 length + that many ITF8 ids) *)
From NV Require Import Cram.IntProofs.

Fixpoint sb_read_ids (n : nat) (bs : list N) : option (list N * list N) :=
  match n with
  | O => Some ([], bs)
  | S k =>
      match itf8_dec bs with
      | None => None
      | Some (v, r) =>
          match sb_read_ids k r with
          | None => None
          | Some (l, r') => Some (v :: l, r')
          end
      end
  end.

Definition sb_read_header (bs : list N) : option (N * list N * list N) :=
  match itf8_dec bs with
  | None => None
  | Some (c, r) =>
      match itf8_dec r with
      | None => None
      | Some (n, r2) =>
          match sb_read_ids (N.to_nat n) r2 with
          | None => None
          | Some (ids, r3) => Some (c, ids, r3)
          end
      end
  end.

Lemma sb_read_ids_enc : forall ids rest,
  Forall (fun i => i < 4294967296) ids ->
  sb_read_ids (length ids) (flat_map itf8_enc ids ++ rest) = Some (ids, rest).
Proof.
  induction ids as [|i ids IH]; intros rest H; cbn [length flat_map sb_read_ids]; [reflexivity|].
  inversion H; subst. rewrite <- app_assoc. rewrite itf8_dec_enc by assumption.
  now rewrite IH.
Qed.

Lemma sb_read_back_gen : forall c ids rest,
  c < 4294967296 -> sb_lenN ids < 4294967296 -> Forall (fun i => i < 4294967296) ids ->
  sb_read_header (itf8_enc c ++ itf8_enc (sb_lenN ids) ++ flat_map itf8_enc ids ++ rest)
    = Some (c, ids, rest).
Proof.
  intros c ids rest Hc Hl Hf. unfold sb_read_header.
  rewrite (itf8_dec_enc c _ Hc). rewrite (itf8_dec_enc _ _ Hl).
  unfold sb_lenN. rewrite Nat2N.id. now rewrite (sb_read_ids_enc ids rest Hf).
Qed.

Lemma sb_ids_small : forall bufs,
  Forall (fun b => fst b < 4294967296) bufs -> Forall (fun i => i < 4294967296) (sb_ids bufs).
Proof.
  intros bufs Hf. unfold sb_ids. constructor; [reflexivity|].
  apply Forall_forall. intros x Hx. apply in_map_iff in Hx. destruct Hx as [b [<- Hb]].
  unfold sb_ext in Hb. apply filter_In in Hb. rewrite Forall_forall in Hf. apply Hf. tauto.
Qed.

Lemma sb_header_bytes_some : forall bufs bs,
  sb_header_bytes bufs = Some bs ->
  sb_count bufs <= sb_i32_max /\
  bs = itf8_enc (sb_count bufs) ++ itf8_enc (sb_lenN (sb_ids bufs)) ++ flat_map itf8_enc (sb_ids bufs).
Proof.
  unfold sb_header_bytes. intros bufs bs H.
  destruct (sb_count bufs <=? sb_i32_max) eqn:E; [|discriminate].
  apply N.leb_le in E. split; [exact E|]. now injection H as <-.
Qed.

Lemma sb_i32_max_small : sb_i32_max < 4294967296.
Proof. reflexivity. Qed.

Lemma sb_header_read_back : forall bufs bs rest,
  Forall (fun b => fst b < 4294967296) bufs ->
  sb_header_bytes bufs = Some bs ->
  sb_read_header (bs ++ rest) = Some (sb_count bufs, sb_ids bufs, rest).
Proof.
  intros bufs bs rest Hf H. apply sb_header_bytes_some in H. destruct H as [Hle ->].
  pose proof (N.le_lt_trans _ _ _ Hle sb_i32_max_small) as Hc.
  rewrite <- !app_assoc.
  apply sb_read_back_gen; [exact Hc|exact Hc|now apply sb_ids_small].
Qed.
