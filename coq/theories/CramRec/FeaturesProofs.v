(* C07 — proofs about the CRAM record "features" edit script model (Features.v).

   Main results (all for arbitrary inputs, by induction over the CIGAR):
     valid_sm_default         the default substitution matrix can encode every r <> b
     features_roundtrip       writer features -> stored features -> (bases, CIGAR) gives back
                              the read bases up to ASCII case and the CIGAR up to =/X -> M
                              and merging of adjacent equal kinds
     roundtrip_ok             the same, phrased for the composed function [roundtrip]
     missing_qualities_panic  a match op of length 1 with no quality scores panics (None)

   Structure: 1 lists and slices, 2 bytes and bases, 3 [simplify] as a fold of [cons_s],
   4 one-step lemmas for the two reader iterators, 5 the match-run inner induction,
   6 the induction over the ops, 7 the stated theorems. *)
From Coq Require Import List NArith Bool Lia ZifyBool ZifyNat ZifyN.
From NV Require Import CramRec.Features.
Import ListNotations.
Open Scope N_scope.
Arguments N.add : simpl never. Arguments N.sub : simpl never. Arguments N.mul : simpl never.
Arguments N.div : simpl never. Arguments N.modulo : simpl never.

(* ================================================================ 1. lists, slices *)

Lemma firstn_plus {A} (n m : nat) (l : list A) :
  firstn (n + m) l = firstn n l ++ firstn m (skipn n l).
Proof.
  revert l; induction n as [|n IH]; intros [|x l]; cbn [firstn skipn app Nat.add];
    try reflexivity.
  - now destruct m.
  - now rewrite IH.
Qed.

Lemma skipn_plus {A} (n m : nat) (l : list A) : skipn (n + m) l = skipn m (skipn n l).
Proof.
  revert l; induction n as [|n IH]; intros [|x l]; cbn [skipn Nat.add]; auto.
  now destruct m.
Qed.

Lemma firstn1_skipn {A} (l : list A) (n : nat) :
  firstn 1 (skipn n l) = match nth_error l n with Some x => [x] | None => [] end.
Proof.
  revert l; induction n as [|n IH]; intros [|x l]; try reflexivity.
  cbn [skipn nth_error]. apply IH.
Qed.

Lemma len_nil : len [] = 0.
Proof. reflexivity. Qed.

Lemma len_cons x l : len (x :: l) = len l + 1.
Proof. unfold len; cbn [length]; lia. Qed.

Lemma len_app a b : len (a ++ b) = len a + len b.
Proof. unfold len; rewrite app_length; lia. Qed.

Lemma len_0_nil l : len l = 0 -> l = [].
Proof. destruct l; [reflexivity | rewrite len_cons; lia]. Qed.

Lemma slice1_spec l a b x :
  slice1 l a b = Some x ->
  1 <= a /\ a <= b /\ b <= len l + 1 /\
  x = firstn (N.to_nat (b - a)) (skipn (N.to_nat (a - 1)) l).
Proof.
  unfold slice1, len. destruct (_ && _) eqn:E; [|discriminate].
  intros [= <-]. repeat split; lia.
Qed.

Lemma slice1_intro l a b :
  1 <= a -> a <= b -> b <= len l + 1 ->
  slice1 l a b = Some (firstn (N.to_nat (b - a)) (skipn (N.to_nat (a - 1)) l)).
Proof.
  unfold slice1, len. intros H1 H2 H3. destruct (_ && _) eqn:E; [reflexivity | lia].
Qed.

Lemma slice1_nil l a : 1 <= a -> a <= len l + 1 -> slice1 l a a = Some [].
Proof. intros H1 H2. rewrite slice1_intro by lia. now rewrite N.sub_diag. Qed.

Lemma slice1_len l a b x : slice1 l a b = Some x -> len x = b - a.
Proof.
  intros H. apply slice1_spec in H as (H1 & H2 & H3 & ->).
  unfold len in *. rewrite firstn_length, skipn_length. lia.
Qed.

Lemma slice1_app l a b c x y :
  slice1 l a b = Some x -> slice1 l b c = Some y -> slice1 l a c = Some (x ++ y).
Proof.
  intros Hx Hy.
  apply slice1_spec in Hx as (H1 & H2 & H3 & ->).
  apply slice1_spec in Hy as (H4 & H5 & H6 & ->).
  rewrite slice1_intro by lia. f_equal.
  replace (N.to_nat (c - a)) with (N.to_nat (b - a) + N.to_nat (c - b))%nat by lia.
  rewrite firstn_plus. f_equal. f_equal.
  replace (N.to_nat (b - 1)) with (N.to_nat (a - 1) + N.to_nat (b - a))%nat by lia.
  now rewrite skipn_plus.
Qed.

Lemma slice1_split l a b c z :
  slice1 l a c = Some z -> a <= b -> b <= c ->
  exists x y, slice1 l a b = Some x /\ slice1 l b c = Some y /\ z = x ++ y.
Proof.
  intros Hz Hab Hbc. pose proof (slice1_spec _ _ _ _ Hz) as (H1 & H2 & H3 & _).
  pose proof (slice1_intro l a b ltac:(lia) ltac:(lia) ltac:(lia)) as Hx.
  pose proof (slice1_intro l b c ltac:(lia) ltac:(lia) ltac:(lia)) as Hy.
  eexists _, _. split; [exact Hx|]. split; [exact Hy|].
  pose proof (slice1_app _ _ _ _ _ _ Hx Hy) as Hxy. congruence.
Qed.

Lemma get1_nil p : get1 [] p = None.
Proof. unfold get1. destruct (p =? 0); [reflexivity|]. now destruct (N.to_nat (p - 1)). Qed.

Lemma get1_slice1 l p x : get1 l p = Some x -> slice1 l p (p + 1) = Some [x].
Proof.
  unfold get1. destruct (p =? 0) eqn:E; [discriminate|]. intros H.
  assert (Hlt : (N.to_nat (p - 1) < length l)%nat) by (apply nth_error_Some; congruence).
  rewrite slice1_intro by (unfold len; lia).
  replace (N.to_nat (p + 1 - p)) with 1%nat by lia.
  now rewrite firstn1_skipn, H.
Qed.

Lemma slice1_get1 l p x : slice1 l p (p + 1) = Some [x] -> get1 l p = Some x.
Proof.
  intros H. apply slice1_spec in H as (H1 & _ & H3 & H).
  unfold get1. destruct (p =? 0) eqn:E; [lia|].
  replace (N.to_nat (p + 1 - p)) with 1%nat in H by lia.
  rewrite firstn1_skipn in H. destruct (nth_error _ _); congruence.
Qed.

Lemma slice1_cons l a b x t :
  slice1 l a b = Some (x :: t) -> get1 l a = Some x /\ slice1 l (a + 1) b = Some t.
Proof.
  intros H. pose proof (slice1_len _ _ _ _ H) as Hl. rewrite len_cons in Hl.
  pose proof (slice1_spec _ _ _ _ H) as (H1 & H2 & H3 & _).
  destruct (slice1_split l a (a + 1) b _ H) as (u & v & Hu & Hv & E); try lia.
  pose proof (slice1_len _ _ _ _ Hu) as Hlu.
  destruct u as [|y [|z u]]; rewrite ?len_cons, ?len_nil in Hlu; try lia.
  cbn [app] in E. injection E as <- <-. split; [now apply slice1_get1 | assumption].
Qed.

(* the part of [l] from 1-based position [p] on *)
Definition from1 (l : list N) (p : N) : list N := skipn (N.to_nat (p - 1)) l.

Lemma from1_slice l a b x : slice1 l a b = Some x -> from1 l a = x ++ from1 l b.
Proof.
  intros H. apply slice1_spec in H as (H1 & H2 & H3 & ->). unfold from1.
  replace (N.to_nat (b - 1)) with (N.to_nat (a - 1) + N.to_nat (b - a))%nat by lia.
  rewrite skipn_plus. symmetry. apply firstn_skipn.
Qed.

Lemma from1_end l : from1 l (len l + 1) = [].
Proof.
  unfold from1, len. replace (N.to_nat (N.of_nat (length l) + 1 - 1)) with (length l) by lia.
  apply skipn_all.
Qed.

Lemma from1_1 l : from1 l 1 = l.
Proof. reflexivity. Qed.

(* ================================================================ 2. bytes and bases *)

Lemma eq_nocase_refl a : eq_nocase a a = true.
Proof. unfold eq_nocase. apply N.eqb_refl. Qed.

Lemma eq_nocase_list_refl a : eq_nocase_list a a = true.
Proof.
  induction a as [|x a IH]; cbn [eq_nocase_list]; [reflexivity|]. now rewrite eq_nocase_refl.
Qed.

Lemma eq_nocase_list_app a b c d :
  eq_nocase_list a b = true -> eq_nocase_list c d = true -> eq_nocase_list (a ++ c) (b ++ d) = true.
Proof.
  revert b; induction a as [|x a IH]; intros [|y b] Hab Hcd; cbn [eq_nocase_list app] in *;
    try discriminate; auto.
  apply andb_true_iff in Hab as [Hxy Hab]. rewrite Hxy. cbn [andb]. now apply IH.
Qed.

Lemma base_of_byte_upper b s : base_of_byte b = Some s -> to_upper b = byte_of_base s.
Proof.
  unfold base_of_byte. cbv zeta. generalize (to_upper b); intros u.
  destruct (u =? 65) eqn:E1; [intros [= <-]; cbn [byte_of_base]; lia|].
  destruct (u =? 67) eqn:E2; [intros [= <-]; cbn [byte_of_base]; lia|].
  destruct (u =? 71) eqn:E3; [intros [= <-]; cbn [byte_of_base]; lia|].
  destruct (u =? 84) eqn:E4; [intros [= <-]; cbn [byte_of_base]; lia|].
  destruct (u =? 78) eqn:E5; [intros [= <-]; cbn [byte_of_base]; lia|discriminate].
Qed.

Lemma base_neq rb sb r s :
  eq_nocase rb sb = false -> base_of_byte rb = Some r -> base_of_byte sb = Some s -> r <> s.
Proof.
  intros Hne Hr Hs ->. apply base_of_byte_upper in Hr, Hs.
  unfold eq_nocase in Hne. rewrite Hr, Hs, N.eqb_refl in Hne. discriminate.
Qed.

Lemma base5_eqb_eq a b : base5_eqb a b = true -> a = b.
Proof. destruct a, b; cbn; congruence. Qed.

Lemma sm_find_get sm r b c : sm_find sm r b = Some c -> sm_get sm r c = b.
Proof.
  unfold sm_find.
  destruct (base5_eqb (sm_get sm r 0) b) eqn:E0; [intros [= <-]; now apply base5_eqb_eq|].
  destruct (base5_eqb (sm_get sm r 1) b) eqn:E1; [intros [= <-]; now apply base5_eqb_eq|].
  destruct (base5_eqb (sm_get sm r 2) b) eqn:E2; [intros [= <-]; now apply base5_eqb_eq|].
  destruct (base5_eqb (sm_get sm r 3) b) eqn:E3; [intros [= <-]; now apply base5_eqb_eq|].
  discriminate.
Qed.

(* the reader's substituted base is the written read base, up to case *)
Lemma subst_byte_ok sm rb sb r s c :
  base_of_byte rb = Some r -> base_of_byte sb = Some s -> sm_get sm r c = s ->
  eq_nocase (subst_byte sm rb c) sb = true.
Proof.
  intros Hr Hs Hg. unfold subst_byte. cbv zeta. rewrite Hr, Hg.
  apply base_of_byte_upper in Hs. unfold eq_nocase. rewrite Hs.
  destruct (is_lower rb); destruct s; reflexivity.
Qed.

Definition valid_sm (sm : smatrix) : Prop :=
  forall r b, r <> b -> exists c, sm_find sm r b = Some c.

Lemma valid_sm_default : valid_sm default_sm.
Proof. intros r b Hne. destruct r, b; try congruence; eexists; reflexivity. Qed.

(* ================================================================ 3. simplify *)

Lemma kind_eqb_eq a b : kind_eqb a b = true -> a = b.
Proof. destruct a, b; cbn; congruence. Qed.

Lemma kind_eqb_refl a : kind_eqb a a = true.
Proof. now destruct a. Qed.

(* [simplify] is a right fold of [cons_s] *)
Definition cons_s (prev : op) (l : list op) : list op :=
  match l with
  | [] => [prev]
  | (k, n) :: t =>
      if kind_eqb (fst prev) k then (fst prev, snd prev + n) :: t else prev :: (k, n) :: t
  end.

Lemma simplify_from_add k a b r :
  simplify_from (k, a + b) r = cons_s (k, a) (simplify_from (k, b) r).
Proof.
  revert a b; induction r as [|[k' n] r IH]; intros a b; cbn [simplify_from cons_s fst snd].
  - now rewrite kind_eqb_refl.
  - destruct (kind_eqb k k') eqn:E.
    + rewrite <- N.add_assoc. apply IH.
    + cbn [cons_s fst snd]. now rewrite kind_eqb_refl.
Qed.

Lemma simplify_from_head o r : exists m t, simplify_from o r = (fst o, m) :: t.
Proof.
  revert o; induction r as [|[k n] r IH]; intros [k0 n0]; cbn [simplify_from fst snd].
  - eauto.
  - destruct (kind_eqb k0 k); [apply (IH (k0, n0 + n)) | eauto].
Qed.

Lemma simplify_cons o r : simplify (o :: r) = cons_s o (simplify r).
Proof.
  destruct r as [|[k n] r]; cbn [simplify simplify_from cons_s]; [reflexivity|].
  destruct o as [k0 n0]; cbn [fst snd]. destruct (kind_eqb k0 k) eqn:E.
  - apply kind_eqb_eq in E as <-. apply simplify_from_add.
  - destruct (simplify_from_head (k, n) r) as (m & t & ->). cbn [cons_s fst snd]. now rewrite E.
Qed.

Lemma simplify_app_congr p a b : simplify a = simplify b -> simplify (p ++ a) = simplify (p ++ b).
Proof.
  intros H. induction p as [|o p IH]; cbn [app]; [assumption|].
  rewrite !simplify_cons. congruence.
Qed.

Lemma cons_s_merge k x y S : cons_s (k, x) (cons_s (k, y) S) = cons_s (k, x + y) S.
Proof.
  destruct S as [|[k' n] t]; cbn [cons_s fst snd].
  - now rewrite kind_eqb_refl.
  - destruct (kind_eqb k k') eqn:E; cbn [cons_s fst snd]; rewrite kind_eqb_refl.
    + now rewrite N.add_assoc.
    + reflexivity.
Qed.

(* a run of matches from read position a (inclusive) to b (exclusive) *)
Definition mrun (a b : N) : list op := if a <? b then [(KM, b - a)] else [].

Lemma mrun_nil a : mrun a a = [].
Proof. unfold mrun. now rewrite N.ltb_irrefl. Qed.

Lemma mrun_pos a n : 0 < n -> mrun a (a + n) = [(KM, n)].
Proof.
  intros H. unfold mrun. destruct (a <? a + n) eqn:E; [|lia].
  now replace (a + n - a) with n by lia.
Qed.

Lemma mrun_merge a b c T :
  a <= b -> b <= c -> simplify (mrun a b ++ mrun b c ++ T) = simplify (mrun a c ++ T).
Proof.
  unfold mrun; intros Hab Hbc.
  destruct (a <? b) eqn:E1, (b <? c) eqn:E2, (a <? c) eqn:E3; try lia; cbn [app];
    rewrite ?simplify_cons, ?cons_s_merge; try reflexivity; f_equal; f_equal; lia.
Qed.

(* ================================================================ 4. one-step lemmas *)

Lemma encode_features_app sm a b fa fb :
  encode_features sm a = Some fa -> encode_features sm b = Some fb ->
  encode_features sm (a ++ b) = Some (fa ++ fb).
Proof.
  revert fa; induction a as [|w a IH]; intros fa Ha Hb; cbn [encode_features app] in *.
  - now injection Ha as <-.
  - destruct (encode_feature sm w) as [f|]; [|discriminate].
    destruct (encode_features sm a) as [fa'|]; [|discriminate].
    injection Ha as <-. now rewrite (IH _ eq_refl Hb).
Qed.

(* a feature sitting exactly at the iterator's read position *)
Lemma rebuild_seq_step refseq sm f fs rp dp rl dr dd mid s :
  fdelta f = Some (dr, dd) -> fpos f = dp -> fbases refseq sm f rp = Some mid ->
  1 <= rp -> rp <= len refseq + 1 ->
  rebuild_seq refseq sm fs (rp + dr) (dp + dd) rl = Some s ->
  rebuild_seq refseq sm (f :: fs) rp dp rl = Some (mid ++ s).
Proof.
  intros Hd Hp Hb H1 H2 Hr. cbn [rebuild_seq]. cbv zeta.
  rewrite Hd, Hp, N.ltb_irrefl, N.sub_diag, !N.add_0_r.
  rewrite slice1_nil by assumption. now rewrite Hb, Hr.
Qed.

(* starting the iterator earlier, on a stretch that is all matches, prepends that stretch
   of the reference *)
Lemma rebuild_seq_shift refseq sm rl fs : forall rp dp rp0 dp0 pr s,
  rebuild_seq refseq sm fs rp dp rl = Some s ->
  slice1 refseq rp0 rp = Some pr -> dp0 <= dp -> rp0 + (dp - dp0) = rp -> dp <= rl + 1 ->
  rebuild_seq refseq sm fs rp0 dp0 rl = Some (pr ++ s).
Proof.
  induction fs as [|f fs IH]; intros rp dp rp0 dp0 pr s Hs Hpr Hd Hr Hrl; cbn [rebuild_seq] in *.
  - pose proof (slice1_len _ _ _ _ Hpr) as Hl.
    destruct (rl <? dp) eqn:E.
    + injection Hs as <-. rewrite app_nil_r. destruct (rl <? dp0) eqn:E0.
      * f_equal. symmetry. apply len_0_nil. lia.
      * now replace (rp0 + (rl - dp0 + 1)) with rp by lia.
    + destruct (rl <? dp0) eqn:E0; [lia|].
      replace (rp0 + (rl - dp0 + 1)) with (rp + (rl - dp + 1)) by lia.
      eapply slice1_app; eassumption.
  - destruct (fdelta f) as [[dr dd]|]; [|eapply IH; eassumption].
    cbv zeta in *.
    destruct (fpos f <? dp) eqn:E; [discriminate|].
    destruct (fpos f <? dp0) eqn:E0; [lia|].
    destruct (slice1 refseq rp (rp + (fpos f - dp))) as [pre|] eqn:Hpre; [|discriminate].
    destruct (fbases refseq sm f (rp + (fpos f - dp))) as [mid|] eqn:Hmid; [|discriminate].
    destruct (rebuild_seq refseq sm fs (rp + (fpos f - dp) + dr) (dp + (fpos f - dp) + dd) rl)
      as [rest|] eqn:Hrest; [|discriminate].
    injection Hs as <-.
    replace (rp0 + (fpos f - dp0)) with (rp + (fpos f - dp)) by lia.
    replace (dp0 + (fpos f - dp0)) with (dp + (fpos f - dp)) by lia.
    rewrite (slice1_app _ _ _ _ _ _ Hpr Hpre), Hmid, Hrest. now rewrite <- app_assoc.
Qed.

Lemma cigar_step_op f fs d0 rl k n :
  fop f = Some (k, n) -> d0 <= fpos f ->
  rebuild_cigar (f :: fs) d0 rl =
  mrun d0 (fpos f) ++
  (k, n) :: rebuild_cigar fs (if consumes_read k then fpos f + n else fpos f) rl.
Proof.
  intros Hf Hd. cbn [rebuild_cigar]. cbv zeta. rewrite Hf. unfold mrun.
  destruct (d0 <? fpos f) eqn:E; [reflexivity|].
  replace (fpos f) with d0 by lia. reflexivity.
Qed.

Lemma cigar_step_none f fs d0 rl :
  fop f = None -> d0 <= fpos f ->
  rebuild_cigar (f :: fs) d0 rl = mrun d0 (fpos f) ++ rebuild_cigar fs (fpos f) rl.
Proof.
  intros Hf Hd. cbn [rebuild_cigar]. cbv zeta. rewrite Hf. unfold mrun.
  destruct (d0 <? fpos f) eqn:E; [reflexivity|].
  replace (fpos f) with d0 by lia. reflexivity.
Qed.

(* what the two readers must deliver for the features [fs] of a CIGAR suffix whose
   normalised form is [T], when the writer stood at (rp, dp) *)
Definition post (sm : smatrix) (refseq seq : list N) (fs : list feature) (rp dp : N)
  (T : list op) : Prop :=
  exists s,
    rebuild_seq refseq sm fs rp dp (len seq) = Some s /\
    eq_nocase_list s (from1 seq dp) = true /\
    forall d0, d0 <= dp ->
      simplify (rebuild_cigar fs d0 (len seq)) = simplify (mrun d0 dp ++ T).

(* every op other than M/=/X gives exactly one feature at the current read position *)
Lemma post_single sm refseq seq f fs rp dp dr dd mid k n T :
  post sm refseq seq fs (rp + dr) (dp + dd) T ->
  fpos f = dp -> fdelta f = Some (dr, dd) -> fbases refseq sm f rp = Some mid ->
  fop f = Some (k, n) -> dd = (if consumes_read k then n else 0) ->
  1 <= rp -> rp <= len refseq + 1 ->
  from1 seq dp = mid ++ from1 seq (dp + dd) ->
  post sm refseq seq (f :: fs) rp dp ((k, n) :: T).
Proof.
  intros (s & Hs & Hq & Hc) Hp Hd Hb Hf Hdd H1 H2 Hfrom.
  exists (mid ++ s). split; [|split].
  - eapply rebuild_seq_step; eassumption.
  - rewrite Hfrom. apply eq_nocase_list_app; [apply eq_nocase_list_refl | assumption].
  - intros d0 Hd0. rewrite (cigar_step_op _ _ _ _ _ _ Hf) by lia. rewrite Hp.
    apply simplify_app_congr. rewrite !simplify_cons. f_equal.
    replace (if consumes_read k then dp + n else dp) with (dp + dd)
      by (subst dd; destruct (consumes_read k); lia).
    rewrite Hc by lia. now rewrite mrun_nil.
Qed.

(* ================================================================ 5. match runs *)

(* a mismatching column: the stored feature, and what the sequence reader makes of it *)
Lemma mismatch_enc sm refseq pos rpos rb sb q f :
  valid_sm sm -> mismatch_feature pos rb sb q = Some f ->
  eq_nocase rb sb = false -> get1 refseq rpos = Some rb ->
  exists ef mid,
    encode_feature sm f = Some ef /\ fpos ef = pos /\ fdelta ef = Some (1, 1) /\
    fbases refseq sm ef rpos = Some [mid] /\ eq_nocase mid sb = true.
Proof.
  intros Hsm H Hne Hg. unfold mismatch_feature in H.
  destruct (base_of_byte rb) as [r|] eqn:Hr; [destruct (base_of_byte sb) as [s|] eqn:Hs|].
  - injection H as <-. destruct (Hsm r s) as [c Hc]; [eapply base_neq; eassumption|].
    exists (FSubst pos c), (subst_byte sm rb c).
    cbn [encode_feature fpos fdelta fbases]. rewrite Hc, Hg. repeat split.
    eapply subst_byte_ok; try eassumption. now apply sm_find_get.
  - destruct q as [qv|]; [|discriminate]. injection H as <-.
    exists (FReadBase pos sb qv), sb. cbn [encode_feature fpos fdelta fbases].
    repeat split. apply eq_nocase_refl.
  - destruct q as [qv|]; [|discriminate]. injection H as <-.
    exists (FReadBase pos sb qv), sb. cbn [encode_feature fpos fdelta fbases].
    repeat split. apply eq_nocase_refl.
Qed.

(* ... and what the CIGAR reader makes of it *)
Lemma mismatch_fop sm pos rb sb q f ef :
  mismatch_feature pos rb sb q = Some f -> encode_feature sm f = Some ef ->
  fpos ef = pos /\ (fop ef = Some (KM, 1) \/ fop ef = None).
Proof.
  unfold mismatch_feature.
  destruct (base_of_byte rb) as [r|]; [destruct (base_of_byte sb) as [s|]|];
    [|destruct q as [qv|]; [|discriminate] ..]; intros [= <-]; cbn [encode_feature];
    [destruct (sm_find sm r s); [|discriminate]|..]; intros [= <-]; cbn [fpos fop]; auto.
Qed.

Lemma match_seq sm refseq rl : valid_sm sm -> forall rbs sbs pos rpos q ws fs' s' tl,
  match_features pos rbs sbs q = Some ws ->
  len rbs = len sbs ->
  slice1 refseq rpos (rpos + len rbs) = Some rbs ->
  pos + len rbs <= rl + 1 ->
  rebuild_seq refseq sm fs' (rpos + len rbs) (pos + len rbs) rl = Some s' ->
  eq_nocase_list s' tl = true ->
  exists mfs s,
    encode_features sm ws = Some mfs /\
    rebuild_seq refseq sm (mfs ++ fs') rpos pos rl = Some s /\
    eq_nocase_list s (sbs ++ tl) = true.
Proof.
  intros Hsm. induction rbs as [|rb rbs IH];
    intros sbs pos rpos q ws fs' s' tl Hm Hl Hr Hrl Hs' Htl.
  - destruct sbs as [|sb sbs]; [|rewrite len_cons, len_nil in Hl; lia].
    cbn [match_features] in Hm. injection Hm as <-.
    rewrite len_nil, !N.add_0_r in Hs'. exists [], s'. cbn [encode_features app]. auto.
  - destruct sbs as [|sb sbs]; [rewrite len_cons, len_nil in Hl; lia|].
    rewrite !len_cons in *. cbn [match_features] in Hm.
    destruct (match_features (pos + 1) rbs sbs q) as [rest|] eqn:Hrest; [|discriminate].
    pose proof (slice1_spec _ _ _ _ Hr) as (Hr1 & _ & Hr3 & _).
    apply slice1_cons in Hr as [Hg Hr].
    replace (rpos + (len rbs + 1)) with (rpos + 1 + len rbs) in * by lia.
    replace (pos + (len rbs + 1)) with (pos + 1 + len rbs) in * by lia.
    destruct (IH sbs (pos + 1) (rpos + 1) q rest fs' s' tl Hrest ltac:(lia) Hr Hrl Hs' Htl)
      as (mfs & s1 & He & Hs1 & Hq1).
    destruct (eq_nocase rb sb) eqn:Hrs.
    + injection Hm as <-. exists mfs, ([rb] ++ s1). split; [assumption|]. split.
      * eapply rebuild_seq_shift; [exact Hs1 | now apply get1_slice1 | lia | lia | lia].
      * cbn [app eq_nocase_list]. now rewrite Hrs.
    + destruct (mismatch_feature pos rb sb q) as [f|] eqn:Hf; [|discriminate].
      injection Hm as <-.
      destruct (mismatch_enc sm refseq pos rpos rb sb q f Hsm Hf Hrs Hg)
        as (ef & mid & Hef & Hp & Hd & Hb & Hmid).
      exists (ef :: mfs), ([mid] ++ s1). split; [|split].
      * cbn [encode_features]. now rewrite Hef, He.
      * cbn [app]. change (mid :: s1) with ([mid] ++ s1).
        eapply rebuild_seq_step; try eassumption; lia.
      * cbn [app eq_nocase_list]. now rewrite Hmid.
Qed.

Lemma match_cigar sm rl T : forall rbs sbs pos q ws mfs fs' d0 dend,
  match_features pos rbs sbs q = Some ws ->
  encode_features sm ws = Some mfs ->
  d0 <= pos -> pos + len rbs <= dend ->
  (forall d, d <= dend -> simplify (rebuild_cigar fs' d rl) = simplify (mrun d dend ++ T)) ->
  simplify (rebuild_cigar (mfs ++ fs') d0 rl) = simplify (mrun d0 dend ++ T).
Proof.
  induction rbs as [|rb rbs IH]; intros sbs pos q ws mfs fs' d0 dend Hm He Hd Hend HT.
  - cbn [match_features] in Hm. injection Hm as <-. cbn [encode_features] in He.
    injection He as <-. apply HT. rewrite len_nil in Hend. lia.
  - rewrite len_cons in Hend. destruct sbs as [|sb sbs].
    { cbn [match_features] in Hm. injection Hm as <-. cbn [encode_features] in He.
      injection He as <-. apply HT. lia. }
    cbn [match_features] in Hm.
    destruct (match_features (pos + 1) rbs sbs q) as [rest|] eqn:Hrest; [|discriminate].
    destruct (eq_nocase rb sb).
    + injection Hm as <-. eapply IH; try eassumption; lia.
    + destruct (mismatch_feature pos rb sb q) as [f|] eqn:Hf; [|discriminate].
      injection Hm as <-. cbn [encode_features] in He.
      destruct (encode_feature sm f) as [ef|] eqn:Hef; [|discriminate].
      destruct (encode_features sm rest) as [mfs'|] eqn:He'; [|discriminate].
      injection He as <-. cbn [app].
      destruct (mismatch_fop sm pos rb sb q f ef Hf Hef) as [Hp [Hop|Hop]].
      * rewrite (cigar_step_op _ _ _ _ _ _ Hop) by lia. rewrite Hp. cbn [consumes_read].
        change ((KM, 1) :: ?x) with ([(KM, 1)] ++ x).
        rewrite <- (mrun_pos pos 1) by lia.
        rewrite mrun_merge by lia.
        rewrite (simplify_app_congr _ _ (mrun (pos + 1) dend ++ T)).
        -- apply mrun_merge; lia.
        -- eapply IH; try eassumption; lia.
      * rewrite (cigar_step_none _ _ _ _ Hop) by lia. rewrite Hp.
        rewrite (simplify_app_congr _ _ (mrun pos dend ++ T)).
        -- apply mrun_merge; lia.
        -- eapply IH; try eassumption; lia.
Qed.

(* the features of a match op, in the uniform shape of the multi-base branch *)
Lemma op_features_match refseq seq quals k n rp dp w :
  k = KM \/ k = KEq \/ k = KX ->
  op_features true refseq seq quals k n rp dp = Some w ->
  exists rbs sbs q,
    slice1 refseq rp (rp + n) = Some rbs /\ slice1 seq dp (dp + n) = Some sbs /\
    match_features dp rbs sbs q = Some w.
Proof.
  intros Hk H.
  assert (H' :
    (if n =? 1 then
       match get1 refseq rp, get1 seq dp, get1 quals dp with
       | Some rb, Some sb, Some q =>
           app_opt (Some [])
             (if eq_nocase rb sb then Some []
              else match mismatch_feature dp rb sb (Some q) with
                   | Some f => Some [f] | None => None end)
       | _, _, _ => None
       end
     else
       match slice1 refseq rp (rp + n), slice1 seq dp (dp + n) with
       | Some rbs, Some sbs => app_opt (Some []) (match_features dp rbs sbs (get1 quals dp))
       | _, _ => None
       end) = Some w).
  { destruct Hk as [-> | [-> | ->]]; cbn [op_features q_feature] in H; exact H. }
  clear H. destruct (n =? 1) eqn:En.
  - apply N.eqb_eq in En. subst n.
    destruct (get1 refseq rp) as [rb|] eqn:Hrb; [|discriminate].
    destruct (get1 seq dp) as [sb|] eqn:Hsb; [|discriminate].
    destruct (get1 quals dp) as [qv|] eqn:Hq; [|discriminate].
    exists [rb], [sb], (Some qv). split; [now apply get1_slice1|]. split; [now apply get1_slice1|].
    cbn [match_features]. destruct (eq_nocase rb sb); [exact H'|].
    destruct (mismatch_feature dp rb sb (Some qv)); [exact H' | discriminate].
  - destruct (slice1 refseq rp (rp + n)) as [rbs|] eqn:Hr; [|discriminate].
    destruct (slice1 seq dp (dp + n)) as [sbs|] eqn:Hs; [|discriminate].
    exists rbs, sbs, (get1 quals dp). repeat split.
    destruct (match_features dp rbs sbs (get1 quals dp)); [exact H' | discriminate].
Qed.

Lemma post_match sm refseq seq rbs sbs q w fs' rp dp n T :
  valid_sm sm ->
  match_features dp rbs sbs q = Some w ->
  slice1 refseq rp (rp + n) = Some rbs -> slice1 seq dp (dp + n) = Some sbs ->
  0 < n -> dp + n <= len seq + 1 ->
  post sm refseq seq fs' (rp + n) (dp + n) T ->
  exists mfs, encode_features sm w = Some mfs /\
              post sm refseq seq (mfs ++ fs') rp dp ((KM, n) :: T).
Proof.
  intros Hsm Hm Hr Hs Hn Hend (s' & Hs' & Hq' & Hc').
  pose proof (slice1_len _ _ _ _ Hr) as Hlr. pose proof (slice1_len _ _ _ _ Hs) as Hls.
  assert (En : n = len rbs) by lia. subst n.
  destruct (match_seq sm refseq (len seq) Hsm rbs sbs dp rp q w fs' s' (from1 seq (dp + len rbs))
              Hm ltac:(lia) Hr Hend Hs' Hq') as (mfs & s & He & Hs1 & Hq1).
  exists mfs. split; [assumption|]. exists s. split; [assumption|]. split.
  - now rewrite (from1_slice _ _ _ _ Hs).
  - intros d0 Hd0. change ((KM, len rbs) :: T) with ([(KM, len rbs)] ++ T).
    rewrite <- (mrun_pos dp (len rbs)) by assumption. rewrite mrun_merge by lia.
    eapply match_cigar; try eassumption; lia.
Qed.

(* ================================================================ 6. induction over the ops *)

Lemma c2f_roundtrip sm refseq seq quals : valid_sm sm -> forall ops rp dp ws,
  c2f true refseq seq quals ops rp dp = Some ws ->
  Forall (fun o => 0 < snd o) ops ->
  dp + read_len ops = len seq + 1 -> 1 <= dp -> 1 <= rp ->
  rp + ref_len ops <= len refseq + 1 ->
  exists fs, encode_features sm ws = Some fs /\ post sm refseq seq fs rp dp (norm_ops ops).
Proof.
  intros Hsm. induction ops as [|[k n] rest IH]; intros rp dp ws Hc Hpos Hrl Hdp Hrp Href.
  - cbn [c2f] in Hc. injection Hc as <-. exists []. split; [reflexivity|].
    cbn [read_len] in Hrl. rewrite N.add_0_r in Hrl. subst dp.
    exists []. split; [|split].
    + cbn [rebuild_seq]. destruct (len seq <? len seq + 1) eqn:E; [reflexivity | lia].
    + now rewrite from1_end.
    + intros d0 Hd0. cbn [rebuild_cigar norm_ops map]. rewrite app_nil_r. unfold mrun.
      destruct (d0 <=? len seq) eqn:E1, (d0 <? len seq + 1) eqn:E2; try lia; [|reflexivity].
      now replace (len seq - d0 + 1) with (len seq + 1 - d0) by lia.
  - inversion Hpos as [|? ? Hn Hpos']; subst. cbn [snd] in Hn.
    cbn [c2f] in Hc.
    destruct (op_features true refseq seq quals k n rp dp) as [w1|] eqn:Hop; [|discriminate].
    destruct (c2f true refseq seq quals rest _ _) as [w2|] eqn:Hrest; [|discriminate].
    cbn [app_opt] in Hc. injection Hc as <-.
    cbn [read_len ref_len] in Hrl, Href.
    change (norm_ops ((k, n) :: rest)) with ((norm_kind k, n) :: norm_ops rest).
    assert (Hx : exists fs', encode_features sm w2 = Some fs' /\
                   post sm refseq seq fs' (if consumes_reference k then rp + n else rp)
                        (if consumes_read k then dp + n else dp) (norm_ops rest)).
    { apply (IH _ _ _ Hrest Hpos');
        destruct k; cbn [consumes_read consumes_reference] in *; lia. }
    destruct Hx as (fs' & He' & Hpost).
    assert (Hmatch : k = KM \/ k = KEq \/ k = KX ->
              consumes_read k = true -> consumes_reference k = true -> norm_kind k = KM ->
              exists fs, encode_features sm (w1 ++ w2) = Some fs /\
                         post sm refseq seq fs rp dp ((norm_kind k, n) :: norm_ops rest)).
    { intros Hk Hcr Hcf Hnk. rewrite Hcr, Hcf in *. rewrite Hnk.
      destruct (op_features_match _ _ _ _ _ _ _ _ Hk Hop) as (rbs & sbs & q & Hr & Hs & Hm).
      destruct (post_match sm refseq seq rbs sbs q w1 fs' rp dp n _ Hsm Hm Hr Hs Hn
                  ltac:(lia) Hpost) as (mfs & Hem & Hp).
      exists (mfs ++ fs'). split; [now apply encode_features_app | exact Hp]. }
    destruct k; try (apply Hmatch; auto; reflexivity); clear Hmatch;
      cbn [consumes_read consumes_reference norm_kind op_features q_feature] in *.
    + (* I *)
      destruct (n =? 1) eqn:En.
      * apply N.eqb_eq in En. subst n.
        destruct (get1 seq dp) as [b|] eqn:Hb; [|discriminate].
        cbn [app_opt app] in Hop. injection Hop as <-.
        exists (FInsertBase dp b :: fs'). split.
        { cbn [app encode_features encode_feature]. now rewrite He'. }
        eapply (post_single _ _ _ (FInsertBase dp b) _ _ _ 0 1 [b] KI 1);
          try reflexivity; try lia.
        -- now rewrite N.add_0_r.
        -- apply (from1_slice _ _ _ _ (get1_slice1 _ _ _ Hb)).
      * destruct (slice1 seq dp (dp + n)) as [bs|] eqn:Hbs; [|discriminate].
        cbn [app_opt app] in Hop. injection Hop as <-.
        pose proof (slice1_len _ _ _ _ Hbs) as Hl.
        assert (En' : n = len bs) by lia. subst n.
        exists (FInsertion dp bs :: fs'). split.
        { cbn [app encode_features encode_feature]. now rewrite He'. }
        eapply (post_single _ _ _ (FInsertion dp bs) _ _ _ 0 (len bs) bs KI (len bs));
          try reflexivity; try lia.
        -- now rewrite N.add_0_r.
        -- apply (from1_slice _ _ _ _ Hbs).
    + (* D *)
      injection Hop as <-. exists (FDeletion dp n :: fs'). split.
      { cbn [app encode_features encode_feature]. now rewrite He'. }
      eapply (post_single _ _ _ (FDeletion dp n) _ _ _ n 0 [] KD n);
        try reflexivity; try lia; now rewrite N.add_0_r.
    + (* N *)
      injection Hop as <-. exists (FRefSkip dp n :: fs'). split.
      { cbn [app encode_features encode_feature]. now rewrite He'. }
      eapply (post_single _ _ _ (FRefSkip dp n) _ _ _ n 0 [] KN n);
        try reflexivity; try lia; now rewrite N.add_0_r.
    + (* S *)
      destruct (slice1 seq dp (dp + n)) as [bs|] eqn:Hbs; [|discriminate].
      cbn [app_opt app] in Hop. injection Hop as <-.
      pose proof (slice1_len _ _ _ _ Hbs) as Hl.
      assert (En' : n = len bs) by lia. subst n.
      exists (FSoftClip dp bs :: fs'). split.
      { cbn [app encode_features encode_feature]. now rewrite He'. }
      eapply (post_single _ _ _ (FSoftClip dp bs) _ _ _ 0 (len bs) bs KS (len bs));
        try reflexivity; try lia.
      * now rewrite N.add_0_r.
      * apply (from1_slice _ _ _ _ Hbs).
    + (* H *)
      injection Hop as <-. exists (FHardClip dp n :: fs'). split.
      { cbn [app encode_features encode_feature]. now rewrite He'. }
      eapply (post_single _ _ _ (FHardClip dp n) _ _ _ 0 0 [] KH n);
        try reflexivity; try lia; now rewrite !N.add_0_r.
    + (* P *)
      injection Hop as <-. exists (FPadding dp n :: fs'). split.
      { cbn [app encode_features encode_feature]. now rewrite He'. }
      eapply (post_single _ _ _ (FPadding dp n) _ _ _ 0 0 [] KP n);
        try reflexivity; try lia; now rewrite !N.add_0_r.
Qed.

(* ================================================================ 7. the stated theorems *)

Theorem features_roundtrip :
  forall sm refseq seq quals ops start wfs,
    valid_sm sm ->
    Forall (fun o => 0 < snd o) ops ->
    read_len ops = len seq ->
    1 <= start -> start + ref_len ops <= len refseq + 1 ->
    cigar_to_features true refseq seq quals ops start = Some wfs ->
    exists fs s,
      encode_features sm wfs = Some fs /\
      rebuild_seq refseq sm fs start 1 (len seq) = Some s /\
      eq_nocase_list s seq = true /\
      simplify (rebuild_cigar fs 1 (len seq)) = simplify (norm_ops ops).
Proof.
  intros sm refseq seq quals ops start wfs Hsm Hpos Hrl Hstart Href Hc.
  unfold cigar_to_features in Hc.
  destruct (c2f_roundtrip sm refseq seq quals Hsm ops start 1 wfs Hc Hpos)
    as (fs & He & s & Hs & Hq & Hcg); try lia.
  exists fs, s. rewrite from1_1 in Hq. repeat split; try assumption.
  rewrite (Hcg 1) by lia. now rewrite mrun_nil.
Qed.

Lemma len_repeat x n : len (repeat x (N.to_nat n)) = n.
Proof. unfold len. rewrite repeat_length. apply Nnat.N2Nat.id. Qed.

Lemma record_quals_writer seq quals : record_quals (len seq) quals = writer_quals seq quals.
Proof. unfold record_quals, writer_quals, len. destruct quals; [|reflexivity]. now rewrite Nnat.Nat2N.id. Qed.

Lemma record_quals_len rl quals : len (record_quals rl quals) = rl <-> (quals = [] \/ len quals = rl).
Proof.
  unfold record_quals. destruct quals as [|q quals].
  - rewrite len_repeat. split; [now left|reflexivity].
  - split; [now right|]. intros [H|H]; [discriminate|assumption].
Qed.

Corollary roundtrip_ok :
  forall sm refseq seq quals ops start,
    valid_sm sm -> Forall (fun o => 0 < snd o) ops -> read_len ops = len seq ->
    seq <> [] -> (quals = [] \/ len quals = len seq) ->
    1 <= start -> start <= len refseq -> start + ref_len ops <= len refseq + 1 ->
    cigar_to_features true refseq seq (writer_quals seq quals) ops start <> None ->
    exists s, roundtrip sm refseq seq quals ops start = ROk (simplify (norm_ops ops)) s
              /\ eq_nocase_list s seq = true.
Proof.
  intros sm refseq seq quals ops start Hsm Hpos Hrl Hne Hq Hstart Hin Href Hc. unfold roundtrip.
  assert (Hrl' : record_read_length seq ops = len seq) by (destruct seq; [congruence|reflexivity]).
  rewrite Hrl'. rewrite (proj2 (N.eqb_eq _ _) (proj2 (record_quals_len (len seq) quals) Hq)).
  cbn [negb]. rewrite record_quals_writer.
  replace (len refseq <? start) with false by (symmetry; apply N.ltb_ge; assumption).
  assert (Hal : is_aligned ops = true).
  { destruct ops; [|reflexivity]. cbn [read_len] in Hrl. symmetry in Hrl. apply len_0_nil in Hrl. contradiction. }
  unfold record_features. rewrite Hal.
  destruct (cigar_to_features true refseq seq (writer_quals seq quals) ops start) as [ws|] eqn:Hw; [|congruence].
  destruct (features_roundtrip sm refseq seq (writer_quals seq quals) ops start ws Hsm Hpos Hrl Hstart Href Hw)
    as (fs & s & He & Hs & Hqq & Hcg).
  destruct seq as [|b seq']; [congruence|]. cbv iota. rewrite He. cbv iota. rewrite Hs, Hcg.
  exists s. split; [reflexivity | assumption].
Qed.

(* The writer rejects (Err(InvalidInput)) exactly when the quality scores are present but not as
   long as the read (/repo 8d67724), or the record has a CIGAR and bases and cigar_to_features
   rejects them; in particular never for SEQ `*` (/repo 0049c20) and never for CIGAR `*`
   (/repo fe42e80) with matching or missing quality scores *)
Lemma roundtrip_invalid_input :
  forall sm refseq seq quals ops start,
    let rl := record_read_length seq ops in
    roundtrip sm refseq seq quals ops start = RInvalidInput <->
    ((quals <> [] /\ len quals <> rl) \/ len refseq < start \/
     (ops <> [] /\ seq <> [] /\
      cigar_to_features true refseq seq (record_quals rl quals) ops start = None)).
Proof.
  intros sm refseq seq quals ops start rl. unfold roundtrip. fold rl.
  destruct (N.eqb_spec (len (record_quals rl quals)) rl) as [E|E]; cbn [negb].
  - assert (Hq : ~ (quals <> [] /\ len quals <> rl)).
    { intros [A B]. apply record_quals_len in E. destruct E; contradiction. }
    destruct (N.ltb_spec (len refseq) start) as [Hs|Hs]; [split; [intros _; right; now left|reflexivity]|].
    unfold record_features. destruct ops as [|o ops']; cbn [is_aligned].
    + split.
      * destruct seq; cbn [encode_features encode_feature]; try discriminate.
        destruct (rebuild_seq _ _ _ _ _ _); discriminate.
      * intros [H|[H|[H _]]]; [contradiction|lia|congruence].
    + destruct seq as [|b seq'].
      * split; [|intros [H|[H|(_ & H & _)]]; [contradiction|lia|congruence]].
        destruct (encode_features sm _); discriminate.
      * destruct (cigar_to_features true refseq (b :: seq') (record_quals rl quals) (o :: ops') start) as [ws|] eqn:Hw.
        -- split; [|intros [H|[H|(_ & _ & H)]]; [contradiction|lia|discriminate]].
           destruct (encode_features sm ws); [|discriminate].
           destruct (rebuild_seq _ _ _ _ _ _); discriminate.
        -- split; [|reflexivity]. intros _. right. right. repeat split; discriminate.
  - split; [|reflexivity]. intros _. left.
    split; [|intro H; apply E; apply record_quals_len; now right].
    intro H. apply E. apply record_quals_len. now left.
Qed.

(* A read-consuming lookup with an empty quality vector: the single-base match branch looks
   quality_scores[read_position] up unconditionally, which is an InvalidInput error (None). *)
Lemma missing_qualities_panic :
  forall qa refseq seq k rest rp dp, (k = KM \/ k = KEq \/ k = KX) ->
    c2f qa refseq seq [] ((k, 1) :: rest) rp dp = None.
Proof.
  intros qa refseq seq k rest rp dp Hk. cbn [c2f].
  assert (Hop : op_features qa refseq seq [] k 1 rp dp = None).
  { destruct Hk as [-> | [-> | ->]]; cbn [op_features N.eqb Pos.eqb]; rewrite get1_nil;
      destruct (get1 refseq rp), (get1 seq dp); reflexivity. }
  now rewrite Hop.
Qed.

Example missing_qualities_witness :
  cigar_to_features true [65;67;71;84] [65;67] [] [(KM, 1); (KI, 1)] 1 = None /\
  exists w, cigar_to_features true [65;67;71;84] [65;67] [30;30] [(KM, 1); (KI, 1)] 1 = Some w.
Proof. split; [vm_compute; reflexivity | eexists; vm_compute; reflexivity]. Qed.
