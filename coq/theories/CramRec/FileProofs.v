(* C07 — proofs about NV.CramRec.File: the binary mate_indices, the reader's frame on ANY slice
   (hostile distances included), and the file-level round trip. *)
From Coq Require Import List NArith ZArith Bool Lia Arith.
From Coq Require Import ZifyBool ZifyNat ZifyN.
From NV Require Import CramRec.Features CramRec.Mates CramRec.MatesProofs CramRec.MatesChain
  CramRec.MatesWriter CramRec.SliceHeader CramRec.SliceHeaderProofs CramRec.File.
Import ListNotations.
Open Scope N_scope.

(* ---------------------------------------------------------------- mate_indices, binary = unary *)
Lemma mate_indices_bin_eq : forall n rs i, mate_indices_bin n i rs = mate_indices_from n i rs.
Proof.
  intros n. induction rs as [|r tl IH]; intro i; cbn [mate_indices_bin mate_indices_from]; [reflexivity|].
  rewrite IH. destruct (mate_indices_from n (S i) tl) as [rest|]; [|reflexivity].
  destruct (m_dist r) as [d|]; [|reflexivity].
  destruct (N.ltb_spec (N.of_nat i + d + 1) (N.of_nat n)) as [H|H];
    destruct (Nat.ltb_spec (i + N.to_nat d + 1) n) as [H'|H']; try reflexivity; lia.
Qed.

Theorem resolve_mates_bin_eq : forall rs, resolve_mates_bin rs = resolve_mates rs.
Proof. intro rs. unfold resolve_mates_bin, resolve_mates. now rewrite mate_indices_bin_eq. Qed.

(* the reader refuses a slice exactly when some mate distance points outside it *)
Lemma mate_indices_bin_none_iff : forall n rs i,
  mate_indices_bin n i rs = None <->
  exists x d, (x < length rs)%nat /\ m_dist (rget rs x) = Some d /\
              N.of_nat n <= N.of_nat (i + x) + d + 1.
Proof.
  intros n. induction rs as [|r tl IH]; intro i; cbn [mate_indices_bin].
  - split; [discriminate|]. intros (x & d & Hx & _). cbn in Hx. lia.
  - destruct (mate_indices_bin n (S i) tl) as [rest|] eqn:E.
    + assert (Htl : ~ exists x d, (x < length tl)%nat /\ m_dist (rget tl x) = Some d /\
                        N.of_nat n <= N.of_nat (S i + x) + d + 1).
      { intro H. apply (IH (S i)) in H. congruence. }
      destruct (m_dist r) as [d|] eqn:Ed.
      * destruct (N.ltb_spec (N.of_nat i + d + 1) (N.of_nat n)) as [Hlt|Hge].
        -- split; [discriminate|]. intros (x & d' & Hx & Hd & Hb). destruct x as [|x].
           ++ unfold rget in Hd; cbn [nth] in Hd. rewrite Ed in Hd. inversion Hd; subst d'. lia.
           ++ exfalso. apply Htl. exists x, d'. unfold rget in Hd |- *; cbn [nth] in Hd.
              cbn [length] in Hx. repeat split; [lia|assumption|lia].
        -- split; [intros _|reflexivity]. exists 0%nat, d. unfold rget; cbn [nth length].
           repeat split; [lia|assumption|lia].
      * split; [discriminate|]. intros (x & d' & Hx & Hd & Hb). destruct x as [|x].
        -- unfold rget in Hd; cbn [nth] in Hd. congruence.
        -- exfalso. apply Htl. exists x, d'. unfold rget in Hd |- *; cbn [nth] in Hd.
           cbn [length] in Hx. repeat split; [lia|assumption|lia].
    + split; [intros _|reflexivity]. destruct (proj1 (IH (S i)) E) as (x & d & Hx & Hd & Hb).
      exists (S x), d. unfold rget in Hd |- *; cbn [nth length]. repeat split; [lia|assumption|lia].
Qed.

Theorem resolve_mates_bin_error_iff : forall rs,
  resolve_mates_bin rs = None <->
  exists x d, (x < length rs)%nat /\ m_dist (rget rs x) = Some d /\
              N.of_nat (length rs) <= N.of_nat x + d + 1.
Proof.
  intro rs. unfold resolve_mates_bin.
  destruct (mate_indices_bin (length rs) 0 rs) as [mi|] eqn:E.
  - split; [discriminate|]. intro H. apply (mate_indices_bin_none_iff (length rs) rs 0%nat) in H. congruence.
  - split; [intros _|reflexivity]. exact (proj1 (mate_indices_bin_none_iff _ _ _) E).
Qed.

(* ---------------------------------------------------------------- the reader's frame, any slice *)
(* what resolve_mates never writes: name aside (the reader's own default names are not modelled),
   everything but the bam flags and the three mate columns *)
Definition stat_all (r : mrec) :=
  (stat_view r, m_detached r, m_down r, m_dist r).

Lemma stat_set_mate : forall r m, stat_all (set_mate r m) = stat_all r.
Proof. reflexivity. Qed.
Lemma stat_set_tlen : forall t r, stat_all (set_tlen t r) = stat_all r.
Proof. reflexivity. Qed.

Lemma map_upd_stat : forall (rs : list mrec) j f,
  (forall r, stat_all (f r) = stat_all r) -> map stat_all (upd rs j f) = map stat_all rs.
Proof.
  induction rs as [|r tl IH]; intros j f Hf; [reflexivity|].
  destruct j as [|j]; cbn [upd map]; [now rewrite Hf|]. now rewrite IH.
Qed.

Lemma walk_set_stat : forall fuel mi rs j,
  map stat_all (fst (walk_set fuel mi rs j)) = map stat_all rs.
Proof.
  induction fuel as [|f IH]; intros mi rs j; cbn [walk_set]; [reflexivity|].
  destruct (mi_get mi j) as [m|]; [|reflexivity].
  rewrite IH. apply map_upd_stat. intro r. apply stat_set_mate.
Qed.

Lemma walk_tlen_stat : forall fuel t mi rs j,
  map stat_all (fst (walk_tlen fuel t mi rs j)) = map stat_all rs.
Proof.
  induction fuel as [|f IH]; intros t mi rs j; cbn [walk_tlen]; [reflexivity|].
  destruct (mi_get mi j) as [m|]; [|reflexivity].
  rewrite IH. apply map_upd_stat. intro r. apply stat_set_tlen.
Qed.

Lemma resolve_step_stat : forall st i,
  map stat_all (fst (resolve_step st i)) = map stat_all (fst st).
Proof.
  intros [rs mi] i. unfold resolve_step. destruct (mi_get mi i) as [m|]; [|reflexivity].
  pose proof (walk_set_stat (length rs) mi rs i) as Hw.
  destruct (walk_set (length rs) mi rs i) as [rs1 j]. cbn [fst] in Hw |- *.
  rewrite walk_tlen_stat.
  rewrite map_upd_stat by (intro r; apply stat_set_tlen).
  rewrite map_upd_stat by (intro r; apply stat_set_mate). exact Hw.
Qed.

Lemma resolve_fold_stat : forall is st,
  map stat_all (fst (fold_left resolve_step is st)) = map stat_all (fst st).
Proof.
  induction is as [|i tl IH]; intro st; cbn [fold_left]; [reflexivity|].
  rewrite IH. apply resolve_step_stat.
Qed.

(* WHATEVER the slice holds - hostile CRAM flags and mate distances included - resolve_mates returns
   as many records, and changes nothing of a record but FLAG, RNEXT, PNEXT and TLEN *)
Theorem resolve_mates_frame : forall rs out,
  resolve_mates_bin rs = Some out -> map stat_all out = map stat_all rs.
Proof.
  intros rs out H. unfold resolve_mates_bin in H.
  destruct (mate_indices_bin (length rs) 0 rs) as [mi|]; [|discriminate].
  inversion H; subst out. now rewrite resolve_fold_stat.
Qed.

Lemma map_stat_all_view : forall a b, map stat_all a = map stat_all b -> map stat_view a = map stat_view b.
Proof.
  intros a b H. assert (E : forall l, map stat_view l = map (fun p => fst (fst (fst p))) (map stat_all l)).
  { intro l. rewrite map_map. reflexivity. }
  now rewrite !E, H.
Qed.

Corollary resolve_mates_length : forall rs out,
  resolve_mates_bin rs = Some out -> length out = length rs.
Proof.
  intros rs out H. apply resolve_mates_frame in H.
  rewrite <- (map_length stat_all out), H. apply map_length.
Qed.

(* ---------------------------------------------------------------- one written slice *)
Lemma store_w_name : forall r r', store_w r = Some r' -> m_name r' = m_name r.
Proof.
  intros r r' H. unfold store_w, store in H.
  destruct (m_detached r).
  - destruct (oN_i32 (m_mref r) && oN_i32 (m_mstart r)); [|discriminate].
    inversion H; subst r'. now destruct (is_unmapped (m_flags r)).
  - destruct (oN_i32 (m_dist r)); [|discriminate]. inversion H; subst r'. cbn [m_flags].
    now destruct (is_unmapped (m_flags r)).
Qed.

Lemma stat_view_drop : forall r,
  stat_view (drop_unmapped_feats r) =
  (m_name r, m_ref r, m_start r, m_rl r, if is_unmapped (m_flags r) then [] else m_feats r).
Proof. intro r. unfold drop_unmapped_feats. now destruct (is_unmapped (m_flags r)). Qed.

Lemma stored_stat : forall ch st, Forall fresh ch ->
  store_all_w (set_mates_w ch) = Some st ->
  map stat_view st = map stat_view (map drop_unmapped_feats ch).
Proof.
  intros ch st Hf Hst.
  pose proof (store_all_w_length _ _ Hst) as Hl. rewrite set_mates_w_length in Hl.
  apply (nth_ext _ _ (stat_view dflt_mrec) (stat_view dflt_mrec)); [now rewrite !map_length|].
  intros x Hx. rewrite map_length, Hl in Hx.
  rewrite (map_nth stat_view st dflt_mrec x).
  change dflt_mrec with (drop_unmapped_feats dflt_mrec) at 2.
  rewrite (map_nth stat_view (map drop_unmapped_feats ch) (drop_unmapped_feats dflt_mrec) x).
  rewrite (map_nth drop_unmapped_feats ch dflt_mrec x).
  fold (rget st x). fold (rget ch x).
  assert (Hx' : (x < length (set_mates_w ch))%nat) by now rewrite set_mates_w_length.
  pose proof (store_all_w_nth _ _ x Hst Hx') as Hs.
  destruct (store_w_spec _ _ Hs) as (A & B & C & D & E & _).
  pose proof (store_w_name _ _ Hs) as Nm.
  destruct (set_mates_w_wf ch Hf) as (_ & Hw). destruct (Hw x Hx) as (Hc & _).
  unfold core in Hc. inversion Hc as [[c1 c2 c3 c4 c5 c6 c7 c8 c9]].
  rewrite stat_view_drop. unfold stat_view. rewrite Nm, B, C, D, E, c1, c2, c3, c4, c5, c6. reflexivity.
Qed.

(* one slice: what the writer stored resolves, with the mate columns and everything else of the
   records as converted (features of records flagged unmapped dropped) *)
Lemma slice_roundtrip_all : forall ch st, Forall fresh ch ->
  store_all_w (set_mates_w ch) = Some st ->
  exists out, resolve_mates_bin st = Some out /\
    map mate_view out = map mate_view ch /\
    map stat_view out = map stat_view (map drop_unmapped_feats ch).
Proof.
  intros ch st Hf Hst.
  pose proof (written_slice_resolves_w ch Hf) as Hne. unfold slice_rt in Hne. rewrite Hst in Hne.
  rewrite resolve_mates_bin_eq.
  destruct (resolve_mates st) as [out|] eqn:Hr; [|now exfalso; apply Hne].
  exists out. split; [reflexivity|]. split.
  - apply mates_roundtrip_general; [assumption|]. unfold slice_rt. now rewrite Hst, Hr.
  - rewrite <- (stored_stat ch st Hf Hst). apply map_stat_all_view.
    apply resolve_mates_frame. now rewrite resolve_mates_bin_eq.
Qed.

(* ---------------------------------------------------------------- the file *)
Section Gen.
  Variable B : Type.
  Variable ser : list mrec -> B.
  Variable de : B -> option (list mrec).
  (* THE PREMISE for everything below the value level: a slice's stored records are read back
     from its blocks as they were written (every data series other than the mate series, every
     block codec, the compression header) *)
  Hypothesis de_ser : forall st, de (ser st) = Some st.

  Lemma slices_roundtrip : forall chs f, Forall (Forall fresh) chs ->
    slices_write_gen B ser chs = Some f ->
    exists out, file_read_gen B de f = Some out /\
      map mate_view out = map mate_view (concat chs) /\
      map stat_view out = map stat_view (map drop_unmapped_feats (concat chs)) /\
      length f = length chs.
  Proof.
    induction chs as [|ch tl IH]; intros f Hf H; cbn [slices_write_gen] in H.
    - inversion H; subst f. exists []. repeat split.
    - unfold slice_write_gen in H.
      destruct (store_all_w (set_mates_w ch)) as [st|] eqn:Hst; [|discriminate].
      destruct (slices_write_gen B ser tl) as [f'|] eqn:Ht; [|discriminate].
      inversion H; subst f. inversion Hf as [|c l Hc Hl]; subst.
      destruct (IH f' Hl eq_refl) as (o2 & R2 & M2 & S2 & L2).
      destruct (slice_roundtrip_all ch st Hc Hst) as (o1 & R1 & M1 & S1).
      exists (o1 ++ o2). cbn [file_read_gen]. rewrite de_ser, R1, R2.
      split; [reflexivity|]. cbn [concat]. rewrite !map_app, M1, M2, S1, S2.
      repeat split. cbn [length]. now rewrite L2.
  Qed.

  Lemma Forall_chunks_fuel : forall {A} (P : A -> Prop) fuel k (l : list A),
    Forall P l -> Forall (Forall P) (chunks_fuel fuel k l).
  Proof.
    intros A P. induction fuel as [|f IH]; intros k l H; cbn [chunks_fuel]; [constructor|].
    destruct l as [|a l']; [constructor|]. constructor.
    - apply Forall_forall. intros x Hx. apply (proj1 (Forall_forall P (a :: l')) H).
      rewrite <- (firstn_skipn k (a :: l')). apply in_or_app. now left.
    - apply IH. apply Forall_forall. intros x Hx. apply (proj1 (Forall_forall P (a :: l')) H).
      rewrite <- (firstn_skipn k (a :: l')). apply in_or_app. now right.
  Qed.

  (* THE FILE-LEVEL ROUND TRIP.  For every reference list, every records_per_slice >= 1 and every
     stream of SAM records: the reader never fails on a file the writer produced, and returns as
     many records, in order, each with the FLAG / RNEXT / PNEXT / TLEN of the input record and with
     the name, reference id, alignment start, read length and features that
     Record::try_from_alignment_record made of it (the features of a record flagged unmapped are
     not written); the file has one slice per chunk of records_per_slice records. *)
  Theorem file_roundtrip_gen : forall refs rps ss, (1 <= rps)%nat ->
    file_rt_gen B ser de refs rps ss <> MReadErr /\
    (file_rt_gen B ser de refs rps ss = MWriteErr <-> file_write_gen B ser refs rps ss = None) /\
    forall out, file_rt_gen B ser de refs rps ss = MOk out ->
      exists rs f, convert_all refs ss = Some rs /\ file_write_gen B ser refs rps ss = Some f /\
        length f = length (chunks rps rs) /\
        length out = length ss /\
        map mate_view out = map (fun s => (s_flags s, s_mref s, s_mstart s, s_tlen s)) ss /\
        map stat_view out = map stat_view (map drop_unmapped_feats rs).
  Proof.
    intros refs rps ss Hk. unfold file_rt_gen, file_write_gen.
    destruct (convert_all refs ss) as [rs|] eqn:Ec.
    2:{ split; [discriminate|]. split; [split; reflexivity|]. intros out H. discriminate. }
    destruct (convert_all_fresh _ _ _ Ec) as [Hf Hv].
    destruct (slices_write_gen B ser (chunks rps rs)) as [f|] eqn:Ew.
    2:{ split; [discriminate|]. split; [split; reflexivity|]. intros out H. discriminate. }
    assert (Hff : Forall (Forall fresh) (chunks rps rs)) by (apply Forall_chunks_fuel; assumption).
    destruct (slices_roundtrip _ f Hff Ew) as (o & R & M & S & L).
    rewrite (chunks_concat rps rs Hk) in M, S. rewrite R.
    split; [discriminate|]. split; [split; discriminate|].
    intros out H. inversion H; subst o. exists rs, f.
    split; [reflexivity|]. split; [reflexivity|]. split; [assumption|].
    split; [|split; [now rewrite M, Hv|assumption]].
    rewrite <- (map_length mate_view out), M, Hv. apply map_length.
  Qed.
End Gen.

(* the executable instance *)
Theorem file_roundtrip : forall refs rps ss, (1 <= rps)%nat ->
  file_rt refs rps ss <> MReadErr /\
  forall out, file_rt refs rps ss = MOk out ->
    exists rs, convert_all refs ss = Some rs /\
      length out = length ss /\
      map mate_view out = map (fun s => (s_flags s, s_mref s, s_mstart s, s_tlen s)) ss /\
      map stat_view out = map stat_view (map drop_unmapped_feats rs).
Proof.
  intros refs rps ss Hk.
  destruct (file_roundtrip_gen (list mrec) (fun st => st) (fun st => Some st) (fun st => eq_refl)
              refs rps ss Hk) as (A & _ & C).
  split; [exact A|]. intros out H. destruct (C out H) as (rs & f & E1 & _ & _ & E2 & E3 & E4).
  exists rs. repeat split; assumption.
Qed.

(* the slice layout of the file: the chunks of records_per_slice records *)
Lemma slices_write_layout : forall chs f,
  slices_write_gen (list mrec) (fun st => st) chs = Some f -> map (@length mrec) f = map (@length mrec) chs.
Proof.
  induction chs as [|ch tl IH]; intros f H; cbn [slices_write_gen] in H.
  - inversion H; reflexivity.
  - unfold slice_write_gen in H.
    destruct (store_all_w (set_mates_w ch)) as [st|] eqn:Hst; [|discriminate].
    destruct (slices_write_gen _ _ tl) as [f'|] eqn:Ht; [|discriminate].
    inversion H; subst f. cbn [map]. rewrite (IH f' eq_refl).
    now rewrite (store_all_w_length _ _ Hst), set_mates_w_length.
Qed.

Theorem file_layout_chunks : forall refs rps ss l, (1 <= rps)%nat ->
  file_layout refs rps ss = Some l ->
  Forall (fun n => (1 <= n <= rps)%nat) l /\ fold_right Nat.add 0%nat l = length ss.
Proof.
  intros refs rps ss l Hk H. unfold file_layout, file_write, file_write_gen in H.
  destruct (convert_all refs ss) as [rs|] eqn:Ec; [|discriminate].
  destruct (slices_write_gen _ _ (chunks rps rs)) as [f|] eqn:Ew; [|discriminate].
  inversion H; subst l. rewrite (slices_write_layout _ _ Ew).
  split.
  - apply Forall_forall. intros n Hn. apply in_map_iff in Hn. destruct Hn as (c & Hc & Hin).
    subst n. exact (proj1 (Forall_forall _ _) (chunks_bounds rps rs Hk) c Hin).
  - assert (G : forall (chs : list (list mrec)),
               fold_right Nat.add 0%nat (map (@length mrec) chs) = length (concat chs)).
    { induction chs as [|c tl IH]; [reflexivity|]. cbn [map fold_right concat]. now rewrite app_length, IH. }
    rewrite G, (chunks_concat rps rs Hk).
    destruct (convert_all_fresh _ _ _ Ec) as [_ Hv].
    rewrite <- (map_length mate_view rs), Hv. apply map_length.
Qed.
