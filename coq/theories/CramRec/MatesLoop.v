(* C07 — the two loops of set_mates ([Mates.set_mates_loop]: templates built by
   entry(name).or_default().push(i), then set_downstream_mate over the windows of every
   resolvable template) compute [Mates.set_mates_w], the record-by-record description used by the
   round-trip theorem. *)
From Coq Require Import List NArith ZArith Bool Lia Arith.
From Coq Require Import ZifyBool ZifyNat ZifyN.
From NV Require Import CramRec.Features CramRec.Mates CramRec.MatesProofs CramRec.MatesChain
  CramRec.MatesWriter.
Import ListNotations.
Open Scope N_scope.

(* ---------------------------------------------------------------- the linked form of a record *)
Definition lnk (o : option nat) (x : nat) (r : mrec) : mrec :=
  mk_mrec (m_flags r) (m_name r) (m_ref r) (m_start r) (m_rl r) (m_feats r)
          (m_mref r) (m_mstart r) (m_tlen r) false
          (match o with Some _ => true | None => m_down r end)
          (match o with Some y => Some (N.of_nat (y - x - 1)) | None => m_dist r end).

Lemma lnk_clear : forall o x r, lnk o x (clear_detached r) = lnk o x r.
Proof. reflexivity. Qed.
Lemma lnk_some : forall x y r, clear_detached (set_downstream (y - x - 1) r) = lnk (Some y) x r.
Proof. reflexivity. Qed.
Lemma lnk_none : forall x r, clear_detached r = lnk None x r.
Proof. reflexivity. Qed.
Lemma lnk_none_id : forall x r, m_detached r = false -> lnk None x r = r.
Proof. intros x r H. destruct r. cbn in *. subst. reflexivity. Qed.

Lemma set_mates_w_lnk : forall rs x, (x < length rs)%nat ->
  rget (set_mates_w rs) x =
    if lk rs x then lnk (next_in (Gx rs x) x) x (set_detached (rget rs x)) else set_detached (rget rs x).
Proof.
  intros rs x Hx. rewrite set_mates_w_get by assumption.
  destruct (lk rs x); [|reflexivity]. destruct (next_in (Gx rs x) x); reflexivity.
Qed.

(* ---------------------------------------------------------------- link_windows *)
Lemma link_windows_cons : forall a b g acc,
  link_windows (a :: b :: g) acc =
  link_windows (b :: g) (upd (upd acc a (fun r => clear_detached (set_downstream (b - a - 1) r))) b clear_detached).
Proof. reflexivity. Qed.

Lemma link_windows_spec : forall g lo a acc,
  inc lo (a :: g) -> (forall x, In x (a :: g) -> (x < length acc)%nat) ->
  (g = [] -> m_detached (rget acc a) = false) ->
  length (link_windows (a :: g) acc) = length acc /\
  forall x, rget (link_windows (a :: g) acc) x =
    if in_dec Nat.eq_dec x (a :: g) then lnk (next_in (a :: g) x) x (rget acc x) else rget acc x.
Proof.
  induction g as [|b g' IH]; intros lo a acc Hinc Hb Hd.
  - cbn [link_windows]. split; [reflexivity|]. intros x.
    destruct (in_dec Nat.eq_dec x [a]) as [[E|[]]|Hn]; [|reflexivity]. subst x.
    cbn [next_in]. now rewrite lnk_none_id by (now apply Hd).
  - rewrite link_windows_cons.
    set (acc1 := upd (upd acc a (fun r => clear_detached (set_downstream (b - a - 1) r))) b clear_detached).
    pose proof Hinc as Hinc'. cbn [inc] in Hinc. destruct Hinc as (A & B & C).
    assert (Hab : a <> b) by lia.
    assert (Hal : (a < length acc)%nat) by (apply Hb; now left).
    assert (Hbl : (b < length acc)%nat) by (apply Hb; right; now left).
    assert (Hl1 : length acc1 = length acc) by (unfold acc1; now rewrite !length_upd).
    destruct (IH (S a) b acc1 (conj B C : inc (S a) (b :: g'))) as [L Sx].
    { intros x Hx. rewrite Hl1. apply Hb. now right. }
    { intros _. unfold acc1. rewrite rget_upd_same by (now rewrite length_upd). reflexivity. }
    split; [now rewrite L|]. intros x. rewrite Sx.
    assert (Hnotin : ~ In a (b :: g')).
    { intro Hc. pose proof (inc_In _ _ _ (conj B C : inc (S a) (b :: g')) Hc). lia. }
    destruct (in_dec Nat.eq_dec x (b :: g')) as [Hin|Hnin];
      destruct (in_dec Nat.eq_dec x (a :: b :: g')) as [Hin2|Hnin2].
    + assert (Hxa : x <> a) by (intro; subst; contradiction).
      replace (next_in (a :: b :: g') x) with (next_in (b :: g') x)
        by (cbn [next_in]; destruct (Nat.eqb_spec a x); [congruence|reflexivity]).
      unfold acc1. destruct (Nat.eq_dec x b) as [->|Hxb].
      * rewrite rget_upd_same by (now rewrite length_upd). rewrite rget_upd_other by congruence.
        apply lnk_clear.
      * rewrite !rget_upd_other by congruence. reflexivity.
    + exfalso. apply Hnin2. now right.
    + destruct Hin2 as [E|Hc]; [subst x|contradiction].
      unfold acc1. rewrite rget_upd_other by congruence. rewrite rget_upd_same by assumption.
      cbn [next_in]. rewrite Nat.eqb_refl. apply lnk_some.
    + unfold acc1. rewrite !rget_upd_other; [reflexivity| |].
      * intro; subst. apply Hnin2. now left.
      * intro; subst. apply Hnin. now left.
Qed.

(* ---------------------------------------------------------------- templates *)
Definition gup (rs : list mrec) (i : nat) (k : option (list N)) : list nat :=
  filter (in_group rs k) (seq 0 i).

Lemma gup_S : forall rs i k, gup rs (S i) k = gup rs i k ++ (if in_group rs k i then [i] else []).
Proof. intros. unfold gup. rewrite seq_S, filter_app. cbn [Nat.add filter]. now destruct (in_group rs k i). Qed.

Definition tinv (rs : list mrec) (i : nat) (m : tmap) : Prop :=
  NoDup (map fst m) /\
  (forall k l, In (k, l) m -> l = gup rs i k /\ l <> []) /\
  (forall k, gup rs i k <> [] -> In k (map fst m)).

Definition oname_dec : forall a b : option (list N), {a = b} + {a <> b}.
Proof. decide equality. apply list_eq_dec. apply N.eq_dec. Defined.

Lemma oname_eqb_false : forall a b, oname_eqb a b = false <-> a <> b.
Proof.
  intros a b. split; intro H.
  - intro E. apply oname_eqb_eq in E. congruence.
  - destruct (oname_eqb a b) eqn:E; [|reflexivity]. apply oname_eqb_eq in E. contradiction.
Qed.

Lemma tm_push_keys : forall k i m,
  map fst (tm_push k i m) = if in_dec oname_dec k (map fst m) then map fst m else map fst m ++ [k].
Proof.
  intros k i. induction m as [|[k0 l0] r IH]; cbn [tm_push map fst].
  - destruct (in_dec oname_dec k []) as [[]|_]. reflexivity.
  - destruct (oname_eqb k k0) eqn:E.
    + apply oname_eqb_eq in E. subst k0. cbn [map fst].
      destruct (in_dec oname_dec k (k :: map fst r)) as [_|Hn]; [reflexivity|]. exfalso. apply Hn. now left.
    + apply oname_eqb_false in E. cbn [map fst]. rewrite IH.
      destruct (in_dec oname_dec k (map fst r)) as [Hi|Hn];
        destruct (in_dec oname_dec k (k0 :: map fst r)) as [Hi2|Hn2]; try reflexivity.
      * exfalso. apply Hn2. now right.
      * exfalso. destruct Hi2 as [E2|Hi2]; [congruence|contradiction].
Qed.

Lemma tm_push_In : forall k i m k' l', NoDup (map fst m) -> In (k', l') (tm_push k i m) ->
  (k' <> k /\ In (k', l') m) \/ (k' = k /\ exists l, In (k, l) m /\ l' = l ++ [i]) \/
  (k' = k /\ ~ In k (map fst m) /\ l' = [i]).
Proof.
  intros k i. induction m as [|[k0 l0] r IH]; intros k' l' Hnd H; cbn [tm_push] in H.
  - destruct H as [E|[]]. inversion E; subst. right. right. repeat split. intros [].
  - cbn [map fst] in Hnd. inversion Hnd as [|? ? Hk0 Hnd']; subst.
    destruct (oname_eqb k k0) eqn:E.
    + apply oname_eqb_eq in E. subst k0. destruct H as [E2|Hin].
      * inversion E2; subst. right. left. split; [reflexivity|]. exists l0. split; [now left|reflexivity].
      * left. split; [|now right]. intro; subst. apply Hk0. apply (in_map fst) in Hin. exact Hin.
    + apply oname_eqb_false in E. destruct H as [E2|Hin].
      * inversion E2; subst. left. split; [congruence|now left].
      * destruct (IH k' l' Hnd' Hin) as [[A B]|[[A (l & B & C)]|[A [B C]]]].
        -- left. split; [assumption|now right].
        -- right. left. split; [assumption|]. exists l. split; [now right|assumption].
        -- right. right. split; [assumption|]. split; [|assumption].
           cbn [map fst]. intros [E3|Hc]; [congruence|contradiction].
Qed.

Lemma NoDup_snoc : forall A (l : list A) a, NoDup l -> ~ In a l -> NoDup (l ++ [a]).
Proof.
  intros A l a. induction l as [|b l IH]; intros Hnd Hn; cbn [app].
  - constructor; [intros []|constructor].
  - inversion Hnd; subst. constructor.
    + rewrite in_app_iff. intros [Hc|[Hc|[]]]; [contradiction|]. subst. apply Hn. now left.
    + apply IH; [assumption|]. intro Hc. apply Hn. now right.
Qed.

Lemma tinv_push : forall rs i m, tinv rs i m -> segment (rget rs i) = true ->
  tinv rs (S i) (tm_push (m_name (rget rs i)) i m).
Proof.
  intros rs i m (Hnd & Hent & Hcomp) Hseg. set (k := m_name (rget rs i)).
  assert (Hig : forall k', in_group rs k' i = oname_eqb k k').
  { intros k'. unfold in_group. now rewrite Hseg. }
  split; [|split].
  - rewrite tm_push_keys. destruct (in_dec oname_dec k (map fst m)); [assumption|now apply NoDup_snoc].
  - intros k' l' Hin. destruct (tm_push_In _ _ _ _ _ Hnd Hin) as [[A B]|[[A (l & B & C)]|[A [B C]]]].
    + destruct (Hent _ _ B) as [E1 E2]. rewrite gup_S, Hig.
      replace (oname_eqb k k') with false by (symmetry; apply oname_eqb_false; congruence).
      now rewrite app_nil_r.
    + subst k'. destruct (Hent _ _ B) as [E1 E2]. rewrite gup_S, Hig.
      replace (oname_eqb k k) with true by (symmetry; now apply oname_eqb_eq).
      split; [congruence|]. subst l'. now destruct l.
    + subst k'. rewrite gup_S, Hig.
      replace (oname_eqb k k) with true by (symmetry; now apply oname_eqb_eq).
      assert (Hg : gup rs i k = []).
      { destruct (gup rs i k) eqn:E; [reflexivity|]. exfalso. apply B. apply Hcomp. rewrite E. discriminate. }
      rewrite Hg. split; [now subst|]. subst. discriminate.
  - intros k' Hne. rewrite tm_push_keys.
    destruct (oname_dec k' k) as [->|Hkk].
    + destruct (in_dec oname_dec k (map fst m)); [assumption|]. rewrite in_app_iff. right. now left.
    + rewrite gup_S, Hig in Hne.
      replace (oname_eqb k k') with false in Hne by (symmetry; apply oname_eqb_false; congruence).
      rewrite app_nil_r in Hne. specialize (Hcomp _ Hne).
      destruct (in_dec oname_dec k (map fst m)); [assumption|]. rewrite in_app_iff. now left.
Qed.

Lemma tinv_skip : forall rs i m, tinv rs i m -> segment (rget rs i) = false -> tinv rs (S i) m.
Proof.
  intros rs i m (Hnd & Hent & Hcomp) Hseg.
  assert (Hg : forall k, gup rs (S i) k = gup rs i k).
  { intros k. rewrite gup_S. unfold in_group. rewrite Hseg. cbn. apply app_nil_r. }
  split; [assumption|]. split.
  - intros k l Hin. rewrite Hg. now apply Hent.
  - intros k Hne. rewrite Hg in Hne. now apply Hcomp.
Qed.

Lemma templates_from_inv : forall rs tl pre m, rs = pre ++ tl -> tinv rs (length pre) m ->
  tinv rs (length rs) (templates_from (length pre) tl m).
Proof.
  intros rs. induction tl as [|r tl' IH]; intros pre m E Hinv; cbn [templates_from].
  - rewrite app_nil_r in E. subst pre. exact Hinv.
  - assert (Hr : rget rs (length pre) = r).
    { unfold rget. rewrite E. now rewrite nth_middle. }
    assert (E' : rs = (pre ++ [r]) ++ tl') by (now rewrite <- app_assoc).
    specialize (IH (pre ++ [r])). rewrite app_length in IH. cbn [length] in IH.
    rewrite Nat.add_1_r in IH. apply IH; [exact E'|].
    destruct (segment r) eqn:Hs.
    + rewrite <- Hr. apply tinv_push; [assumption|now rewrite Hr].
    + apply tinv_skip; [assumption|now rewrite Hr].
Qed.

Lemma templates_spec : forall rs,
  NoDup (map fst (templates_from 0 rs [])) /\
  (forall k l, In (k, l) (templates_from 0 rs []) -> l = group rs k /\ l <> []) /\
  (forall k, group rs k <> [] -> In k (map fst (templates_from 0 rs []))).
Proof.
  intros rs. apply (templates_from_inv rs rs [] [] eq_refl).
  split; [constructor|]. split; [intros k l []|]. intros k H. now contradiction H.
Qed.

(* ---------------------------------------------------------------- mates_are_resolvable reads only [core] *)
Lemma link_cond_core : forall a a' b b' t, core a = core a' -> core b = core b' ->
  link_cond a b t = link_cond a' b' t.
Proof.
  intros a a' b b' t Ha Hb. unfold core in Ha, Hb.
  assert (A1 : m_flags a = m_flags a') by congruence. assert (A2 : m_mref a = m_mref a') by congruence.
  assert (A3 : m_mstart a = m_mstart a') by congruence. assert (A4 : m_tlen a = m_tlen a') by congruence.
  assert (B1 : m_flags b = m_flags b') by congruence. assert (B2 : m_ref b = m_ref b') by congruence.
  assert (B3 : m_start b = m_start b') by congruence.
  unfold link_cond. now rewrite A1, A2, A3, A4, B1, B2, B3.
Qed.

Lemma resolvable_from_core : forall a b, (forall x, core (rget a x) = core (rget b x)) ->
  forall f t idx bl, resolvable_from a f t bl idx = resolvable_from b f t bl idx.
Proof.
  intros a b H f t. induction idx as [|i rest IH]; intros bl; cbn [resolvable_from]; [reflexivity|].
  rewrite IH. f_equal. apply link_cond_core; apply H.
Qed.

Lemma linked_group_core : forall a b g, (forall x, core (rget a x) = core (rget b x)) ->
  linked_group a g = linked_group b g.
Proof.
  intros a b g H. unfold linked_group, mates_are_resolvable. f_equal.
  rewrite (resolvable_from_core a b H). f_equal. apply w_tlen_calc_core; apply H.
Qed.

(* ---------------------------------------------------------------- the loop over the templates *)
Lemma existsb_oname : forall k P, existsb (oname_eqb k) P = true <-> In k P.
Proof.
  intros k P. rewrite existsb_exists. split.
  - intros (p & Hp & E). apply oname_eqb_eq in E. now subst.
  - intro H. exists k. split; [assumption|now apply oname_eqb_eq].
Qed.

Definition finv (rs acc : list mrec) (P : list (option (list N))) : Prop :=
  length acc = length rs /\
  forall x, (x < length rs)%nat ->
    rget acc x = if lk rs x && existsb (oname_eqb (m_name (rget rs x))) P
                 then lnk (next_in (Gx rs x) x) x (set_detached (rget rs x))
                 else set_detached (rget rs x).

Lemma finv_core : forall rs acc P, finv rs acc P -> forall x, core (rget acc x) = core (rget rs x).
Proof.
  intros rs acc P [Hl H] x. destruct (Nat.lt_ge_cases x (length rs)) as [Hx|Hx].
  - rewrite (H x Hx). destruct (lk rs x && _); reflexivity.
  - unfold rget. rewrite !nth_overflow by lia. reflexivity.
Qed.

Lemma finv_step : forall rs acc P k, finv rs acc P -> ~ In k P -> group rs k <> [] ->
  finv rs (if linked_group acc (group rs k) then link_windows (group rs k) acc else acc) (P ++ [k]).
Proof.
  intros rs acc P k Hinv Hk Hne. pose proof (finv_core _ _ _ Hinv) as Hcore.
  destruct Hinv as [Hl H]. set (g := group rs k) in *.
  rewrite (linked_group_core acc rs g Hcore).
  assert (Hex : forall x, existsb (oname_eqb (m_name (rget rs x))) (P ++ [k]) =
                          existsb (oname_eqb (m_name (rget rs x))) P || oname_eqb (m_name (rget rs x)) k).
  { intros x. rewrite existsb_app. cbn [existsb]. now rewrite orb_false_r. }
  (* records of this template *)
  assert (Hmem : forall x, In x g -> Gx rs x = g /\ lk rs x = linked_group rs g /\
            existsb (oname_eqb (m_name (rget rs x))) P = false /\ oname_eqb (m_name (rget rs x)) k = true).
  { intros x Hx. pose proof (group_same rs k x Hx) as E. apply group_In in Hx. destruct Hx as (X1 & X2 & X3).
    split; [exact E|]. split; [unfold lk; fold (Gx rs x) in E; now rewrite X2, E|]. split.
    - destruct (existsb _ P) eqn:Ee; [|reflexivity]. apply existsb_oname in Ee. congruence.
    - now apply oname_eqb_eq. }
  (* the others *)
  assert (Hoth : forall x, (x < length rs)%nat -> ~ In x g ->
            lk rs x && (existsb (oname_eqb (m_name (rget rs x))) P || oname_eqb (m_name (rget rs x)) k)
            = lk rs x && existsb (oname_eqb (m_name (rget rs x))) P).
  { intros x Hx Hn. destruct (lk rs x) eqn:El; [|reflexivity]. cbn [andb].
    destruct (oname_eqb (m_name (rget rs x)) k) eqn:E; [|now rewrite orb_false_r].
    exfalso. apply Hn. apply group_In. unfold lk in El. apply andb_true_iff in El.
    split; [assumption|]. split; [apply El|now apply oname_eqb_eq]. }
  destruct (linked_group rs g) eqn:Elg.
  - (* the template is linked *)
    pose proof Elg as Elg'. unfold linked_group in Elg'. apply andb_true_iff in Elg'.
    destruct Elg' as [Hlen _]. apply Nat.ltb_lt in Hlen.
    pose proof (group_inc rs k) as Hinc. fold g in Hinc.
    assert (Hbound : forall x, In x g -> (x < length acc)%nat).
    { intros x Hx. rewrite Hl. apply group_In in Hx. apply Hx. }
    destruct g as [|a [|b g']] eqn:Eg; cbn [length] in Hlen; try lia.
    destruct (link_windows_spec (b :: g') 0%nat a acc Hinc Hbound ltac:(discriminate)) as [L S].
    split; [now rewrite L|]. intros x Hx. rewrite S, Hex.
    destruct (in_dec Nat.eq_dec x (a :: b :: g')) as [Hin|Hnin].
    + destruct (Hmem x Hin) as (M1 & M2 & M3 & M4). rewrite M1, M2, M3, M4. cbn [andb orb].
      rewrite (H x Hx), M2, M3. cbn [andb]. reflexivity.
    + rewrite (Hoth x Hx Hnin). apply (H x Hx).
  - split; [assumption|]. intros x Hx. rewrite Hex.
    destruct (in_dec Nat.eq_dec x g) as [Hin|Hnin].
    + destruct (Hmem x Hin) as (M1 & M2 & M3 & M4). rewrite M2. cbn [andb].
      rewrite (H x Hx), M2. reflexivity.
    + rewrite (Hoth x Hx Hnin). apply (H x Hx).
Qed.

Lemma finv_fold : forall rs ents P acc, finv rs acc P ->
  NoDup (map fst ents) -> (forall k, In k (map fst ents) -> ~ In k P) ->
  (forall k l, In (k, l) ents -> l = group rs k /\ l <> []) ->
  finv rs (fold_left (fun acc (e : option (list N) * list nat) =>
                        if linked_group acc (snd e) then link_windows (snd e) acc else acc) ents acc)
          (P ++ map fst ents).
Proof.
  intros rs. induction ents as [|[k l] tl IH]; intros P acc Hinv Hnd Hdis Hent; cbn [fold_left map fst snd].
  - now rewrite app_nil_r.
  - cbn [map fst] in Hnd. inversion Hnd as [|? ? Hk Hnd']; subst.
    destruct (Hent k l (or_introl eq_refl)) as [El Hne]. subst l.
    replace (P ++ k :: map fst tl) with ((P ++ [k]) ++ map fst tl) by (now rewrite <- app_assoc).
    apply IH.
    + apply finv_step; [assumption|apply Hdis; now left|assumption].
    + assumption.
    + intros k' Hk' Hc. apply in_app_iff in Hc. destruct Hc as [Hc|[Hc|[]]].
      * apply (Hdis k'); [now right|assumption].
      * subst. contradiction.
    + intros k' l' Hin. apply Hent. now right.
Qed.

(* THE TWO FORMULATIONS OF set_mates AGREE *)
Theorem set_mates_loop_eq : forall rs, set_mates_loop rs = set_mates_w rs.
Proof.
  intros rs. unfold set_mates_loop.
  destruct (templates_spec rs) as (Hnd & Hent & Hcomp).
  assert (H0 : finv rs (map set_detached rs) []).
  { split; [apply map_length|]. intros x Hx. cbn [existsb]. rewrite andb_false_r.
    unfold rget. rewrite (nth_indep _ dflt_mrec (set_detached dflt_mrec)) by (now rewrite map_length).
    apply map_nth. }
  pose proof (finv_fold rs _ [] _ H0 Hnd (fun k _ Hc => Hc) Hent) as [Hl H]. cbn [app] in H.
  apply (nth_ext _ _ dflt_mrec dflt_mrec); [now rewrite Hl, set_mates_w_length|].
  intros x Hx. rewrite Hl in Hx. fold (rget (set_mates_w rs) x).
  change (nth x ?l dflt_mrec) with (rget l x). rewrite (H x Hx), set_mates_w_lnk by assumption.
  destruct (lk rs x) eqn:El; [|reflexivity]. cbn [andb].
  replace (existsb _ _) with true; [reflexivity|]. symmetry. apply existsb_oname. apply Hcomp.
  pose proof (in_own_group rs x El Hx) as Hin. unfold Gx in Hin. intro E. rewrite E in Hin. destruct Hin.
Qed.
