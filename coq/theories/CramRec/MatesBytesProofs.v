(* C07 — decode o encode of the mate data series (MatesBytes.v) is [Mates.store]. *)
From Coq Require Import List NArith ZArith Bool Lia Arith.
From Coq Require Import ZifyBool ZifyNat ZifyN.
From NV Require Import Cram.Itf8 Cram.IntProofs CramRec.Features CramRec.Mates CramRec.MatesProofs
  CramRec.MatesChain CramRec.MatesWriter CramRec.MatesBytes.
Import ListNotations.
Open Scope N_scope.

Lemma app_ser_assoc : forall a b c, app_ser (app_ser a b) c = app_ser a (app_ser b c).
Proof. intros [] [] []. unfold app_ser. cbn. now rewrite <- !app_assoc. Qed.
Lemma app_ser_0_l : forall a, app_ser mser0 a = a.
Proof. intros []. reflexivity. Qed.
Lemma app_ser_0_r : forall a, app_ser a mser0 = a.
Proof. intros []. unfold app_ser. cbn. now rewrite !app_nil_r. Qed.

(* what the byte level needs of a record: the invariants of set_mates, a Position is >= 1, TLEN
   is an i32 *)
Definition okrec (r : mrec) : Prop :=
  (m_detached r = true -> m_dist r = None) /\
  (m_detached r = false -> (m_down r = true <-> m_dist r <> None)) /\
  m_mstart r <> Some 0 /\ (-2147483648 <= m_tlen r < 2147483648)%Z.

Lemma read0 : forall rest, read_itf8 (write_itf8 0 ++ rest) = Some (0%Z, rest).
Proof. intro rest. apply itf8_roundtrip. lia. Qed.

Lemma rt_n : forall n rest, n <= 2147483647 ->
  read_itf8 (write_itf8 (Z.of_N n) ++ rest) = Some (Z.of_N n, rest).
Proof. intros. apply itf8_roundtrip. lia. Qed.

Lemma dec_ref_n : forall n, n <= 2147483647 ->
  (if (Z.of_N n =? -1)%Z then Some None else option_map Some (dec_usize (Z.of_N n))) = Some (Some n).
Proof.
  intros n Hle. destruct (Z.eqb_spec (Z.of_N n) (-1)); [lia|]. unfold dec_usize.
  destruct (Z.ltb_spec (Z.of_N n) 0); [lia|]. cbn [option_map]. now rewrite N2Z.id.
Qed.

Lemma dec_pos_n : forall n, n <> 0 -> option_map position_new (dec_usize (Z.of_N n)) = Some (Some n).
Proof.
  intros n Hn. unfold dec_usize. destruct (Z.ltb_spec (Z.of_N n) 0); [lia|]. cbn [option_map].
  rewrite N2Z.id. unfold position_new. destruct (N.eqb_spec n 0); [contradiction|reflexivity].
Qed.

Lemma i32_n : forall n, n <= 2147483647 -> oN_i32 (Some n) = true.
Proof. intros. cbn [oN_i32]. unfold i32_max. lia. Qed.

Lemma rt_m1 : forall rest, read_itf8 (write_itf8 (-1) ++ rest) = Some ((-1)%Z, rest).
Proof. intros. apply itf8_roundtrip. lia. Qed.

Lemma enc_opt_some : forall s n z, enc_opt s (Some n) = Some z -> n <= 2147483647 /\ z = Z.of_N n.
Proof.
  intros s n z H. cbn [enc_opt] in H. destruct (N.leb_spec n i32_max) as [Hle|]; [|discriminate].
  unfold i32_max in Hle. split; [assumption|congruence].
Qed.

Lemma enc_opt_ref : forall o z rest, enc_opt (-1) o = Some z ->
  read_itf8 (write_itf8 z ++ rest) = Some (z, rest) /\
  (if (z =? -1)%Z then Some None else option_map Some (dec_usize z)) = Some o /\ oN_i32 o = true.
Proof.
  intros [n|] z rest H.
  - destruct (enc_opt_some _ _ _ H) as [Hle E]. subst z.
    split; [now apply rt_n|]. split; [now apply dec_ref_n|now apply i32_n].
  - cbn [enc_opt] in H. inversion H; subst z. split; [apply rt_m1|]. split; reflexivity.
Qed.

Lemma enc_opt_pos : forall o z rest, o <> Some 0 -> enc_opt 0 o = Some z ->
  read_itf8 (write_itf8 z ++ rest) = Some (z, rest) /\
  option_map position_new (dec_usize z) = Some o /\ oN_i32 o = true.
Proof.
  intros [n|] z rest Hn H.
  - destruct (enc_opt_some _ _ _ H) as [Hle E]. subst z.
    split; [now apply rt_n|]. split; [apply dec_pos_n; congruence|now apply i32_n].
  - cbn [enc_opt] in H. inversion H; subst z. split; [apply read0|]. split; reflexivity.
Qed.

Lemma enc_opt_none : forall s o, enc_opt s o = None <-> oN_i32 o = false.
Proof.
  intros s [n|]; cbn; [|split; discriminate].
  destruct (n <=? i32_max); split; congruence.
Qed.

(* one record: the writer refuses exactly when [store] does, and what the reader decodes from the
   record's bytes is [store r] *)
Lemma chunk_none_iff : forall r, mate_chunk r = None <-> store r = None.
Proof.
  intros r. unfold mate_chunk, store. destruct (m_detached r).
  - destruct (enc_opt (-1) (m_mref r)) as [ns|] eqn:E1.
    + destruct (enc_opt 0 (m_mstart r)) as [np|] eqn:E2.
      * assert (A : oN_i32 (m_mref r) = true).
        { destruct (oN_i32 (m_mref r)) eqn:E; [reflexivity|]. apply enc_opt_none with (s := (-1)%Z) in E. congruence. }
        assert (B : oN_i32 (m_mstart r) = true).
        { destruct (oN_i32 (m_mstart r)) eqn:E; [reflexivity|]. apply enc_opt_none with (s := 0%Z) in E. congruence. }
        rewrite A, B. split; discriminate.
      * apply enc_opt_none in E2. rewrite E2, andb_false_r. split; reflexivity.
    + apply enc_opt_none in E1. rewrite E1. split; reflexivity.
  - destruct (m_dist r) as [d|]; cbn [oN_i32]; [|split; discriminate].
    destruct (d <=? i32_max); split; congruence.
Qed.

Lemma read_chunk : forall r c rest, okrec r -> mate_chunk r = Some c ->
  exists r', store r = Some r' /\ read_mate_b (skeleton r) (app_ser c rest) = Some (r', rest).
Proof.
  intros r c rest (O1 & O2 & O3 & O4) H. unfold mate_chunk in H. unfold store, read_mate_b.
  cbn [skeleton m_detached m_down]. destruct (m_detached r) eqn:Ed.
  - destruct (enc_opt (-1) (m_mref r)) as [ns|] eqn:E1; [|discriminate].
    destruct (enc_opt 0 (m_mstart r)) as [np|] eqn:E2; [|discriminate].
    inversion H; subst c. cbn [app_ser b_mf b_ns b_np b_ts b_nf app].
    destruct (enc_opt_ref _ _ (b_ns rest) E1) as (A1 & A2 & A3).
    destruct (enc_opt_pos _ _ (b_np rest) O3 E2) as (B1 & B2 & B3).
    rewrite A3, B3. cbn [andb]. eexists. split; [reflexivity|].
    rewrite read0, A1, B1, (itf8_roundtrip (m_tlen r) (b_ts rest) O4).
    cbn [Z.ltb Z.compare orb Z.testbit]. rewrite A2.
    destruct (dec_usize np) as [p|]; [|discriminate]. cbn [option_map] in B2. inversion B2 as [B2'].
    rewrite B2'. specialize (O1 eq_refl).
    destruct r; destruct rest; cbn in *. subst. reflexivity.
  - destruct (m_dist r) as [d|] eqn:Edist.
    + destruct (N.leb_spec d i32_max) as [Hle|]; [|discriminate]. inversion H; subst c.
      assert (Hdn : m_down r = true) by (apply (O2 eq_refl); congruence). rewrite Hdn.
      cbn [oN_i32]. replace (d <=? i32_max) with true by (symmetry; apply N.leb_le; assumption).
      eexists. split; [reflexivity|].
      cbn [app_ser b_mf b_ns b_np b_ts b_nf app].
      unfold i32_max in Hle. rewrite (itf8_roundtrip (Z.of_N d) (b_nf rest)) by lia.
      unfold dec_usize. destruct (Z.ltb_spec (Z.of_N d) 0); [lia|]. rewrite N2Z.id.
      destruct rest; reflexivity.
    + inversion H; subst c. rewrite app_ser_0_l. cbn [oN_i32].
      assert (Hdn : m_down r = false).
      { destruct (m_down r) eqn:E; [|reflexivity]. exfalso. now apply (proj1 (O2 eq_refl)). }
      rewrite Hdn. eexists. split; [reflexivity|]. unfold skeleton. now rewrite Ed, Hdn.
Qed.

(* a slice *)
Theorem mate_series_roundtrip : forall rs, Forall okrec rs -> forall s,
  (write_all_b rs s = None <-> store_all rs = None) /\
  (forall ser, write_all_b rs s = Some ser ->
     exists st c, ser = app_ser s c /\ store_all rs = Some st /\
       forall rest, read_all_b (map skeleton rs) (app_ser c rest) = Some (st, rest)).
Proof.
  induction rs as [|r tl IH]; intros Hok s.
  - cbn. split; [split; discriminate|]. intros ser H. inversion H; subst.
    exists [], mser0. rewrite app_ser_0_r. split; [reflexivity|]. split; [reflexivity|].
    intro rest. now rewrite app_ser_0_l.
  - inversion Hok as [|? ? Hr Htl]; subst. cbn [write_all_b store_all map read_all_b].
    unfold write_mate_b. destruct (mate_chunk r) as [c|] eqn:Ec.
    + destruct (read_chunk r c mser0 Hr Ec) as (r' & Hs & _). rewrite Hs.
      destruct (IH Htl (app_ser s c)) as [I1 I2]. split.
      * rewrite I1. destruct (store_all tl); split; congruence.
      * intros ser H. destruct (I2 ser H) as (st & ctl & E1 & E2 & E3).
        exists (r' :: st), (app_ser c ctl). rewrite E2. split; [now rewrite <- app_ser_assoc|].
        split; [reflexivity|]. intro rest. rewrite app_ser_assoc.
        destruct (read_chunk r c (app_ser ctl rest) Hr Ec) as (r'' & Hs' & Hrd).
        rewrite Hs in Hs'. inversion Hs'; subst r''. rewrite Hrd, E3. reflexivity.
    + apply chunk_none_iff in Ec. rewrite Ec. split; [split; reflexivity|discriminate].
Qed.

(* the records set_mates produces satisfy the invariants *)
Lemma set_mates_w_okrec : forall rs, Forall fresh rs ->
  Forall (fun r => m_mstart r <> Some 0 /\ (-2147483648 <= m_tlen r < 2147483648)%Z) rs ->
  Forall okrec (set_mates_w rs).
Proof.
  intros rs Hf Hv. apply Forall_forall. intros w Hin.
  destruct (In_nth _ _ dflt_mrec Hin) as (x & Hx & E). rewrite set_mates_w_length in Hx.
  fold (rget (set_mates_w rs) x) in E. subst w.
  assert (Hfx : fresh (rget rs x)) by (unfold rget; apply Forall_nth; assumption).
  assert (Hvx : m_mstart (rget rs x) <> Some 0 /\ (-2147483648 <= m_tlen (rget rs x) < 2147483648)%Z).
  { unfold rget. apply (Forall_nth (fun r => m_mstart r <> Some 0 /\ (-2147483648 <= m_tlen r < 2147483648)%Z)); assumption. }
  destruct Hfx as (F1 & F2 & F3). destruct Hvx as (V1 & V2).
  rewrite set_mates_w_get by assumption. unfold okrec.
  destruct (lk rs x); [destruct (next_in (Gx rs x) x)|];
    cbn [clear_detached set_downstream set_detached m_detached m_down m_dist m_mstart m_tlen];
    rewrite ?F2, ?F3; repeat split; try assumption; try discriminate; try congruence.
  all: lia.
Qed.

(* THE MATE SERIES OF A SLICE: what write_mate appends to the external blocks MF / NS / NP / TS / NF
   for the records set_mates (de003b4) produces is decoded by read_mate, record after record and
   consuming every byte, to exactly the records [store_all] describes - the value-level step of
   the round-trip theorem; and write_mate refuses (InvalidInput) exactly when [store_all] does *)
Theorem mate_series_of_slice : forall rs, Forall fresh rs ->
  Forall (fun r => m_mstart r <> Some 0 /\ (-2147483648 <= m_tlen r < 2147483648)%Z) rs ->
  (write_all_b (set_mates_w rs) mser0 = None <-> store_all (set_mates_w rs) = None) /\
  (forall ser, write_all_b (set_mates_w rs) mser0 = Some ser ->
     exists st, store_all (set_mates_w rs) = Some st /\
       read_all_b (map skeleton (set_mates_w rs)) ser = Some (st, mser0)).
Proof.
  intros rs Hf Hv. destruct (mate_series_roundtrip _ (set_mates_w_okrec rs Hf Hv) mser0) as [A B].
  split; [exact A|]. intros ser H. destruct (B ser H) as (st & c & E1 & E2 & E3).
  exists st. split; [assumption|]. rewrite app_ser_0_l in E1. subst c.
  specialize (E3 mser0). now rewrite app_ser_0_r in E3.
Qed.
