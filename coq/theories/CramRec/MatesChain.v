(* C07 — the reader's resolve_mates on chains of any length (chain decomposition of its loop).

   Part A is about the reader alone: [nxt] is the reader's mate index table (mate_indices), a
   partial successor function that strictly increases and stays inside the slice; the outer loop
   `for i in 0..records.len()` visits the chains head first, because a walk clears every entry it
   follows.  The invariant [inv] says which entries are cleared after k iterations and that every
   record on a cleared chain already carries the expected mate columns. *)
From Coq Require Import List NArith ZArith Bool Lia Arith.
From Coq Require Import ZifyBool ZifyNat ZifyN.
From NV Require Import CramRec.Features CramRec.Mates CramRec.MatesProofs.
Import ListNotations.
Open Scope N_scope.

Lemma mi_get_overflow : forall (cur : list (option nat)) x, (length cur <= x)%nat -> mi_get cur x = None.
Proof. intros cur x H. unfold mi_get. now apply nth_overflow. Qed.

Lemma mi_get_some_lt : forall (cur : list (option nat)) x y, mi_get cur x = Some y -> (x < length cur)%nat.
Proof.
  intros cur x y H. destruct (Nat.lt_ge_cases x (length cur)) as [Hlt|Hge]; [assumption|].
  rewrite mi_get_overflow in H by assumption. discriminate.
Qed.

Lemma rget_upd_same : forall rs j f, (j < length rs)%nat -> rget (upd rs j f) j = f (rget rs j).
Proof. intros. unfold rget. now apply nth_upd_same. Qed.

Lemma mi_upd_same : forall mi j f, (j < length mi)%nat -> mi_get (upd mi j f) j = f (mi_get mi j).
Proof. intros. unfold mi_get. now apply nth_upd_same. Qed.

Section Reader.
Variable n : nat.
Variable nxt : nat -> option nat.
Hypothesis P1 : forall x y, nxt x = Some y -> (x < y < n)%nat.

Inductive reach : nat -> nat -> Prop :=
| reach_refl : forall x, reach x x
| reach_step : forall x y z, nxt x = Some y -> reach y z -> reach x z.

Lemma reach_ge : forall x y, reach x y -> (x <= y)%nat.
Proof.
  intros x y H. induction H as [x|x y z Hn Hr IH]; [lia|]. destruct (P1 _ _ Hn). lia.
Qed.

Lemma reach_inv : forall x z, reach x z -> z = x \/ exists y, nxt x = Some y /\ reach y z.
Proof. intros x z H. inversion H; subst; [now left|right; eauto]. Qed.

Lemma reach_trans : forall x y z, reach x y -> reach y z -> reach x z.
Proof.
  intros x y z H. induction H as [x|x y' y Hn Hr IH]; intro H2; [assumption|].
  eapply reach_step; [eassumption|]. now apply IH.
Qed.

Lemma reach_right : forall x y z, reach x y -> nxt y = Some z -> reach x z.
Proof.
  intros x y z H Hn. eapply reach_trans; [eassumption|]. eapply reach_step; [eassumption|apply reach_refl].
Qed.

Lemma reach_pred : forall i y, reach i y -> y <> i -> exists p, reach i p /\ nxt p = Some y.
Proof.
  intros i y H. induction H as [x|x y' z Hn Hr IH]; intro Hne; [congruence|].
  destruct (Nat.eq_dec z y') as [->|Hne2].
  - exists x. split; [apply reach_refl|assumption].
  - destruct (IH Hne2) as (p & Hp1 & Hp2). exists p. split; [|assumption].
    eapply reach_step; eassumption.
Qed.

Lemma reach_end_unique : forall i a b, reach i a -> nxt a = None -> reach i b -> nxt b = None -> a = b.
Proof.
  intros i a b Ha. induction Ha as [x|x y z Hn Hr IH]; intros Hna Hb Hnb.
  - destruct (reach_inv _ _ Hb) as [->|(y & Hy & _)]; [reflexivity|congruence].
  - destruct (reach_inv _ _ Hb) as [->|(y' & Hy & Hr')]; [congruence|].
    rewrite Hn in Hy. inversion Hy; subst. now apply IH.
Qed.

Lemma reach_none : forall j x, nxt j = None -> reach j x -> x = j.
Proof. intros j x Hn H. destruct (reach_inv _ _ H) as [->|(y & Hy & _)]; [reflexivity|congruence]. Qed.

Lemma nxt_overflow : forall j, (n <= j)%nat -> nxt j = None.
Proof. intros j H. destruct (nxt j) as [y|] eqn:E; [|reflexivity]. destruct (P1 _ _ E). lia. Qed.

Lemma reach_dec : forall j x, reach j x \/ ~ reach j x.
Proof.
  assert (H : forall d j x, (n - j <= d)%nat -> reach j x \/ ~ reach j x).
  { induction d as [|d IH]; intros j x Hd.
    - destruct (Nat.eq_dec x j) as [->|Hne]; [left; apply reach_refl|].
      right. intro Hc. apply Hne. apply (reach_none j x); [apply nxt_overflow; lia|assumption].
    - destruct (Nat.eq_dec x j) as [->|Hne]; [left; apply reach_refl|].
      destruct (nxt j) as [m|] eqn:Hj.
      + destruct (P1 _ _ Hj). destruct (IH m x ltac:(lia)) as [Hr|Hnr].
        * left. eapply reach_step; eassumption.
        * right. intro Hc. destruct (reach_inv _ _ Hc) as [->|(y & Hy & Hr)]; [congruence|].
          rewrite Hj in Hy. inversion Hy; subst. contradiction.
      + right. intro Hc. apply Hne. now apply (reach_none j x). }
  intros j x. apply (H (n - j)%nat). lia.
Qed.

Definition agree (cur : list (option nat)) (j : nat) : Prop :=
  forall x, reach j x -> mi_get cur x = nxt x.

(* the first `while let Some(mate_index) = mate_indices[j]` *)
Lemma walk_set_spec : forall fuel cur rs j,
  agree cur j -> (n <= fuel + j)%nat -> length rs = n ->
  reach j (snd (walk_set fuel cur rs j)) /\ nxt (snd (walk_set fuel cur rs j)) = None /\
  length (fst (walk_set fuel cur rs j)) = n /\
  (forall x y, reach j x -> nxt x = Some y ->
     rget (fst (walk_set fuel cur rs j)) x = set_mate (rget rs x) (rget rs y)) /\
  (forall x, ~ (reach j x /\ nxt x <> None) -> rget (fst (walk_set fuel cur rs j)) x = rget rs x).
Proof.
  induction fuel as [|f IH]; intros cur rs j Hag Hfuel Hlen; cbn [walk_set].
  - assert (Hj : nxt j = None) by (apply nxt_overflow; lia).
    cbn [fst snd]. split; [apply reach_refl|]. split; [assumption|]. split; [assumption|].
    split; [|reflexivity]. intros x y Hr Hn. rewrite (reach_none _ _ Hj Hr) in Hn. congruence.
  - rewrite (Hag j (reach_refl j)). destruct (nxt j) as [m|] eqn:Hj.
    + destruct (P1 _ _ Hj) as [Hjm Hmn].
      assert (Hag' : agree cur m).
      { intros x Hx. apply Hag. eapply reach_step; eassumption. }
      specialize (IH cur (upd rs j (fun r => set_mate r (rget rs m))) m Hag' ltac:(lia)
                     ltac:(rewrite length_upd; assumption)).
      destruct IH as (A & B & C & D & E).
      split; [eapply reach_step; eassumption|]. split; [assumption|]. split; [assumption|]. split.
      * intros x y Hr Hn. destruct (reach_inv _ _ Hr) as [->|(y' & Hy' & Hr')].
        -- rewrite E.
           ++ rewrite rget_upd_same by lia. rewrite Hj in Hn. inversion Hn; subst. reflexivity.
           ++ intros [Hc _]. apply reach_ge in Hc. lia.
        -- rewrite Hj in Hy'. inversion Hy'; subst y'.
           rewrite (D x y Hr' Hn). pose proof (reach_ge _ _ Hr'). destruct (P1 _ _ Hn).
           rewrite !rget_upd_other by lia. reflexivity.
      * intros x Hx. rewrite E.
        -- apply rget_upd_other. intro; subst x. apply Hx. split; [apply reach_refl|congruence].
        -- intros [Hc1 Hc2]. apply Hx. split; [eapply reach_step; eassumption|assumption].
    + cbn [fst snd]. split; [apply reach_refl|]. split; [assumption|]. split; [assumption|].
      split; [|reflexivity]. intros x y Hr Hn. rewrite (reach_none _ _ Hj Hr) in Hn. congruence.
Qed.

(* the second while loop *)
Lemma walk_tlen_spec : forall fuel t cur rs j,
  agree cur j -> (n <= fuel + j)%nat -> length rs = n -> length cur = n ->
  length (fst (walk_tlen fuel t cur rs j)) = n /\ length (snd (walk_tlen fuel t cur rs j)) = n /\
  (forall x, reach j x -> mi_get (snd (walk_tlen fuel t cur rs j)) x = None) /\
  (forall x, ~ reach j x -> mi_get (snd (walk_tlen fuel t cur rs j)) x = mi_get cur x) /\
  (forall x, reach j x -> x <> j ->
     rget (fst (walk_tlen fuel t cur rs j)) x = set_tlen (- t) (rget rs x)) /\
  (forall x, ~ (reach j x /\ x <> j) -> rget (fst (walk_tlen fuel t cur rs j)) x = rget rs x).
Proof.
  induction fuel as [|f IH]; intros t cur rs j Hag Hfuel Hlen Hclen; cbn [walk_tlen].
  - assert (Hj : nxt j = None) by (apply nxt_overflow; lia).
    cbn [fst snd]. repeat split; try assumption; try reflexivity.
    + intros x Hr. rewrite (reach_none _ _ Hj Hr). rewrite (Hag j (reach_refl j)). assumption.
    + intros x Hr Hne. now rewrite (reach_none _ _ Hj Hr) in Hne.
  - rewrite (Hag j (reach_refl j)). destruct (nxt j) as [m|] eqn:Hj.
    + destruct (P1 _ _ Hj) as [Hjm Hmn].
      assert (Hag' : agree (upd cur j (fun _ => None)) m).
      { intros x Hx. pose proof (reach_ge _ _ Hx). rewrite mi_upd_other by lia.
        apply Hag. eapply reach_step; eassumption. }
      specialize (IH t (upd cur j (fun _ => None)) (upd rs m (set_tlen (- t))) m Hag' ltac:(lia)
                     ltac:(rewrite length_upd; assumption) ltac:(rewrite length_upd; assumption)).
      destruct IH as (A & B & C & D & E & F).
      split; [assumption|]. split; [assumption|]. split; [|split; [|split]].
      * intros x Hr. destruct (reach_inv _ _ Hr) as [->|(y' & Hy' & Hr')].
        -- rewrite D; [rewrite mi_upd_same by lia; reflexivity|].
           intro Hc. apply reach_ge in Hc. lia.
        -- rewrite Hj in Hy'. inversion Hy'; subst y'. now apply C.
      * intros x Hx. rewrite D.
        -- apply mi_upd_other. intro; subst x. apply Hx. apply reach_refl.
        -- intro Hc. apply Hx. eapply reach_step; eassumption.
      * intros x Hr Hne. destruct (reach_inv _ _ Hr) as [->|(y' & Hy' & Hr')]; [congruence|].
        rewrite Hj in Hy'. inversion Hy'; subst y'.
        destruct (Nat.eq_dec x m) as [->|Hxm].
        -- rewrite F; [rewrite rget_upd_same by lia; reflexivity|]. intros [_ Hc]. congruence.
        -- rewrite (E x Hr' Hxm). now rewrite rget_upd_other.
      * intros x Hx. rewrite F.
        -- apply rget_upd_other. intro; subst x. apply Hx. split; [|lia].
           eapply reach_step; [eassumption|apply reach_refl].
        -- intros [Hc1 Hc2]. apply Hx. split; [eapply reach_step; eassumption|].
           apply reach_ge in Hc1. lia.
    + cbn [fst snd]. repeat split; try assumption; try reflexivity.
      * intros x Hr. rewrite (reach_none _ _ Hj Hr). rewrite (Hag j (reach_refl j)). assumption.
      * intros x Hr Hne. now rewrite (reach_none _ _ Hj Hr) in Hne.
Qed.

End Reader.

(* ------------------------------------------------------------------------------------------------ *)
(* what set_mate and calculate_template_length read of a record *)
Definition simm (r s : mrec) : Prop :=
  m_flags r = m_flags s /\ m_ref r = m_ref s /\ m_start r = m_start s /\ m_rl r = m_rl s /\
  m_feats r = m_feats s.

Lemma simm_refl : forall r, simm r r.
Proof. intro r. repeat split. Qed.

Lemma simm_set_mate : forall r s m, simm r s -> m_flags (set_mate r m) = m_flags s -> simm (set_mate r m) s.
Proof. intros r s m (A & B & C & D & E) H. repeat split; assumption. Qed.

Lemma simm_set_tlen : forall r s t, simm r s -> simm (set_tlen t r) s.
Proof. intros r s t (A & B & C & D & E). repeat split; assumption. Qed.

Lemma set_mate_flags_simm : forall r r' m m', simm r r' -> simm m m' ->
  m_flags (set_mate r m) = m_flags (set_mate r' m').
Proof.
  intros r r' m m' (A & _) (B & _). apply set_mate_flags_ext; [assumption|now rewrite B|now rewrite B].
Qed.

Lemma tlen_calc_simm : forall r r' m m', simm r r' -> simm m m' -> tlen_calc r m = tlen_calc r' m'.
Proof.
  intros r r' m m' (_ & _ & A & B & C) (_ & _ & D & E & F). now apply tlen_calc_ext.
Qed.

Lemma view4 : forall (r s : mrec),
  m_flags r = m_flags s -> m_mref r = m_mref s -> m_mstart r = m_mstart s -> m_tlen r = m_tlen s ->
  mate_view r = mate_view s.
Proof. intros r s A B C D. unfold mate_view. now rewrite A, B, C, D. Qed.

Section Resolve.
Variable n : nat.
Variable nxt : nat -> option nat.
Hypothesis P1 : forall x y, nxt x = Some y -> (x < y < n)%nat.
Hypothesis P2 : forall x y z, nxt x = Some z -> nxt y = Some z -> x = y.
Variable st tg : list mrec.

Definition head (h : nat) : Prop := nxt h <> None /\ forall p, nxt p <> Some h.

Hypothesis H0 : forall x, m_flags (rget st x) = m_flags (rget tg x).
Hypothesis W1 : forall x y, nxt x = Some y ->
  m_flags (set_mate (rget st x) (rget st y)) = m_flags (rget st x) /\
  m_mref (rget tg x) = m_ref (rget st y) /\ m_mstart (rget tg x) = m_start (rget st y).
Hypothesis W2 : forall h e, head h -> reach nxt h e -> nxt e = None ->
  m_flags (set_mate (rget st e) (rget st h)) = m_flags (rget st e) /\
  m_mref (rget tg e) = m_ref (rget st h) /\ m_mstart (rget tg e) = m_start (rget st h) /\
  m_tlen (rget tg h) = tlen_calc (rget st e) (rget st h) /\
  forall x, reach nxt h x -> x <> h -> m_tlen (rget tg x) = (- tlen_calc (rget st e) (rget st h))%Z.

Definition done (cur : list (option nat)) (x : nat) : Prop :=
  (nxt x <> None /\ mi_get cur x = None) \/ (exists p, nxt p = Some x /\ mi_get cur p = None).

Record inv (k : nat) (rs : list mrec) (cur : list (option nat)) : Prop := {
  i_len : length rs = n;
  i_clen : length cur = n;
  i1 : forall x, mi_get cur x = None \/ mi_get cur x = nxt x;
  i2 : forall x, (x < k)%nat -> mi_get cur x = None;
  i3 : forall x y, nxt x = Some y -> mi_get cur x = None -> mi_get cur y = None;
  i4 : forall x y, nxt x = Some y -> mi_get cur y = None -> nxt y <> None -> mi_get cur x = None;
  i5 : forall x, simm (rget rs x) (rget st x);
  i6 : forall x, done cur x -> mate_view (rget rs x) = mate_view (rget tg x)
}.

Lemma inv_agree : forall k rs cur j x, inv k rs cur ->
  reach nxt j x -> mi_get cur j = nxt j -> nxt j <> None -> mi_get cur x = nxt x.
Proof.
  intros k rs cur j x I H. induction H as [x|x y z Hn Hr IH]; intros Hj Hjn; [assumption|].
  assert (Hy : mi_get cur y = nxt y).
  { destruct (i1 _ _ _ I y) as [Hc|Hc]; [|assumption].
    destruct (nxt y) as [w|] eqn:Ey; [|assumption].
    pose proof (i4 _ _ _ I x y Hn Hc ltac:(congruence)) as Hx. congruence. }
  destruct (nxt y) as [w|] eqn:Ey.
  - apply IH; [assumption|congruence].
  - rewrite (reach_none nxt y z Ey Hr). congruence.
Qed.

Lemma resolve_step_inv : forall k rs cur, inv k rs cur ->
  inv (S k) (fst (resolve_step (rs, cur) k)) (snd (resolve_step (rs, cur) k)).
Proof.
  intros k rs cur I. unfold resolve_step.
  destruct (mi_get cur k) as [m|] eqn:Hk.
  2:{ cbn [fst snd]. destruct I as [a b c d e f g h]. constructor; try assumption.
      intros x Hx. destruct (Nat.eq_dec x k) as [->|Hne]; [assumption|]. apply d. lia. }
  assert (Hnk : nxt k = Some m).
  { destruct (i1 _ _ _ I k) as [Hc|Hc]; congruence. }
  assert (Hag : agree nxt cur k).
  { intros x Hx. eapply inv_agree; try eassumption; congruence. }
  assert (Hhead : head k).
  { split; [congruence|]. intros p Hp. destruct (P1 _ _ Hp) as [Hlt _].
    pose proof (i3 _ _ _ I p k Hp (i2 _ _ _ I p Hlt)). congruence. }
  pose proof (i_len _ _ _ I) as Hlen. pose proof (i_clen _ _ _ I) as Hclen.
  pose proof (walk_set_spec n nxt P1 (length rs) cur rs k Hag ltac:(lia) Hlen) as Hws.
  destruct (walk_set (length rs) cur rs k) as [rs1 e] eqn:Hw. cbn [fst snd] in Hws.
  destruct Hws as (Hre & Hne & Hl1 & Hs1 & Hs2).
  assert (Hek : e <> k) by congruence.
  destruct (P1 _ _ Hnk) as [Hkm Hmn].
  assert (Hen : (e < n)%nat).
  { destruct (reach_pred nxt k e Hre Hek) as (p & _ & Hp). destruct (P1 _ _ Hp). lia. }
  destruct (W2 k e Hhead Hre Hne) as (W2a & W2b & W2c & W2d & W2e).
  (* the records after walk_set *)
  assert (R1k : rget rs1 k = set_mate (rget rs k) (rget rs m)) by (apply Hs1; [apply reach_refl|assumption]).
  assert (R1e : rget rs1 e = rget rs e) by (apply Hs2; intros [_ Hc]; congruence).
  assert (S1k : simm (rget rs1 k) (rget st k)).
  { rewrite R1k. apply simm_set_mate; [apply (i5 _ _ _ I)|].
    rewrite (set_mate_flags_simm _ (rget st k) _ (rget st m) (i5 _ _ _ I k) (i5 _ _ _ I m)).
    apply (W1 k m Hnk). }
  set (rs2 := upd rs1 e (fun r => set_mate r (rget rs1 k))).
  assert (R2e : rget rs2 e = set_mate (rget rs e) (rget rs1 k)).
  { unfold rs2. rewrite rget_upd_same by lia. now rewrite R1e. }
  assert (R2k : rget rs2 k = rget rs1 k) by (unfold rs2; apply rget_upd_other; congruence).
  assert (F2e : m_flags (rget rs2 e) = m_flags (rget st e)).
  { rewrite R2e. rewrite (set_mate_flags_simm _ (rget st e) _ (rget st k) (i5 _ _ _ I e) S1k). exact W2a. }
  assert (S2e : simm (rget rs2 e) (rget st e)).
  { rewrite R2e. apply simm_set_mate; [apply (i5 _ _ _ I)|]. rewrite <- R2e. exact F2e. }
  set (t := tlen_calc (rget rs2 e) (rget rs2 k)).
  assert (Ht : t = tlen_calc (rget st e) (rget st k)).
  { unfold t. apply tlen_calc_simm; [assumption|]. now rewrite R2k. }
  set (rs3 := upd rs2 k (set_tlen t)).
  assert (Hl3 : length rs3 = n) by (unfold rs3, rs2; now rewrite !length_upd).
  pose proof (walk_tlen_spec n nxt P1 (length rs) t cur rs3 k Hag ltac:(lia) Hl3 Hclen) as Hwt.
  destruct (walk_tlen (length rs) t cur rs3 k) as [rs4 cur'] eqn:Hwt'. cbn [fst snd] in Hwt |- *.
  destruct Hwt as (Hl4 & Hcl4 & Hc1 & Hc2 & Ht1 & Ht2).
  (* records off the chain are unchanged *)
  assert (Hoff : forall x, ~ reach nxt k x -> rget rs4 x = rget rs x).
  { intros x Hx. rewrite Ht2 by (intros [Hc _]; contradiction).
    unfold rs3. rewrite rget_upd_other by (intro; subst x; apply Hx; apply reach_refl).
    unfold rs2. rewrite rget_upd_other by (intro; subst x; contradiction).
    apply Hs2. intros [Hc _]. contradiction. }
  (* records on the chain carry the expected columns *)
  assert (Hon : forall x, reach nxt k x ->
            simm (rget rs4 x) (rget st x) /\ mate_view (rget rs4 x) = mate_view (rget tg x)).
  { intros x Hx. destruct (Nat.eq_dec x k) as [->|Hxk].
    - (* the head *)
      rewrite Ht2 by (intros [_ Hc]; congruence).
      unfold rs3. rewrite rget_upd_same by (unfold rs2; rewrite length_upd; lia).
      rewrite R2k. split; [apply simm_set_tlen; assumption|].
      destruct S1k as (Sf & _). destruct (W1 k m Hnk) as (_ & Wb & Wc).
      apply view4; cbn [set_tlen m_flags m_mref m_mstart m_tlen].
      + rewrite Sf. apply H0.
      + rewrite R1k. cbn [set_mate m_mref]. rewrite Wb. apply (i5 _ _ _ I m).
      + rewrite R1k. cbn [set_mate m_mstart]. rewrite Wc. apply (i5 _ _ _ I m).
      + rewrite W2d. exact Ht.
    - rewrite (Ht1 x Hx Hxk). unfold rs3. rewrite rget_upd_other by assumption.
      destruct (nxt x) as [y|] eqn:Ex.
      + (* a middle record *)
        assert (Hxe : x <> e) by congruence.
        unfold rs2. rewrite rget_upd_other by assumption. rewrite (Hs1 x y Hx Ex).
        assert (Fx : m_flags (set_mate (rget rs x) (rget rs y)) = m_flags (rget st x)).
        { rewrite (set_mate_flags_simm _ (rget st x) _ (rget st y) (i5 _ _ _ I x) (i5 _ _ _ I y)).
          apply (W1 x y Ex). }
        split; [apply simm_set_tlen; apply simm_set_mate; [apply (i5 _ _ _ I)|assumption]|].
        destruct (W1 x y Ex) as (_ & Wb & Wc).
        apply view4; cbn [set_tlen m_flags m_mref m_mstart m_tlen].
        * rewrite Fx. apply H0.
        * cbn [set_mate m_mref]. rewrite Wb. apply (i5 _ _ _ I y).
        * cbn [set_mate m_mstart]. rewrite Wc. apply (i5 _ _ _ I y).
        * rewrite (W2e x Hx Hxk). now rewrite Ht.
      + (* the last record *)
        assert (Hxe : x = e) by (eapply (reach_end_unique nxt k); eassumption). subst x.
        fold rs2. split; [apply simm_set_tlen; assumption|].
        apply view4; cbn [set_tlen m_flags m_mref m_mstart m_tlen].
        * rewrite F2e. apply H0.
        * rewrite R2e. cbn [set_mate m_mref]. rewrite W2b. apply S1k.
        * rewrite R2e. cbn [set_mate m_mstart]. rewrite W2c. apply S1k.
        * rewrite (W2e e Hx Hxk). now rewrite Ht. }
  assert (Hcur : forall x, mi_get cur' x = None \/ (~ reach nxt k x /\ mi_get cur' x = mi_get cur x)).
  { intros x. destruct (mi_get cur' x) as [w|] eqn:Ex; [right|now left].
    assert (Hnr : ~ reach nxt k x) by (intro Hc; rewrite (Hc1 x Hc) in Ex; discriminate).
    split; [assumption|]. rewrite <- Ex. now apply Hc2. }
  assert (Hcl : forall x, mi_get cur x = None -> mi_get cur' x = None).
  { intros x Hx. destruct (Hcur x) as [Hc|[_ Hc]]; congruence. }
  constructor.
  - assumption.
  - assumption.
  - intros x. destruct (Hcur x) as [Hc|[_ Hc]]; [now left|]. rewrite Hc. apply (i1 _ _ _ I).
  - intros x Hx. destruct (Nat.eq_dec x k) as [->|Hxk']; [apply Hc1; apply reach_refl|].
    apply Hcl. apply (i2 _ _ _ I). lia.
  - intros x y Hxy Hx. destruct (Hcur y) as [Hc|[Hnr Hc]]; [assumption|].
    assert (Hnrx : ~ reach nxt k x) by (intro Hc'; apply Hnr; eapply reach_right; eassumption).
    rewrite (Hc2 x Hnrx) in Hx. rewrite Hc. now apply (i3 _ _ _ I x y).
  - intros x y Hxy Hy Hyn. destruct (reach_dec n nxt P1 k y) as [Hr|Hnr].
    + destruct (Nat.eq_dec y k) as [->|Hyk].
      * apply Hcl. apply (i2 _ _ _ I). destruct (P1 _ _ Hxy). lia.
      * destruct (reach_pred nxt k y Hr Hyk) as (p & Hp1 & Hp2).
        rewrite (P2 x p y Hxy Hp2). now apply Hc1.
    + rewrite (Hc2 y Hnr) in Hy. apply Hcl. now apply (i4 _ _ _ I x y).
  - intros x. destruct (reach_dec n nxt P1 k x) as [Hr|Hnr]; [now apply Hon|].
    rewrite (Hoff x Hnr). apply (i5 _ _ _ I).
  - intros x Hd. destruct (reach_dec n nxt P1 k x) as [Hr|Hnr]; [now apply Hon|].
    rewrite (Hoff x Hnr). apply (i6 _ _ _ I).
    destruct Hd as [[Hd1 Hd2]|(p & Hp1 & Hp2)].
    + left. split; [assumption|]. now rewrite <- (Hc2 x Hnr).
    + right. exists p. split; [assumption|]. rewrite <- (Hc2 p); [assumption|].
      intro Hc. apply Hnr. eapply reach_right; eassumption.
Qed.

Lemma resolve_fold_inv : forall len k rs cur, inv k rs cur ->
  inv (k + len) (fst (fold_left resolve_step (seq k len) (rs, cur)))
                (snd (fold_left resolve_step (seq k len) (rs, cur))).
Proof.
  induction len as [|len IH]; intros k rs cur I; cbn [seq fold_left].
  - cbn [fst snd]. now rewrite Nat.add_0_r.
  - pose proof (resolve_step_inv k rs cur I) as I'.
    destruct (resolve_step (rs, cur) k) as [rs' cur'] eqn:E. cbn [fst snd] in I'.
    replace (k + S len)%nat with (S k + len)%nat by lia. now apply IH.
Qed.

(* every record that has a mate index or is the target of one leaves resolve_mates with the
   expected mate columns *)
Theorem resolve_chains : forall mi,
  (forall x, mi_get mi x = nxt x) -> length mi = n -> length st = n ->
  forall x, (nxt x <> None \/ exists p, nxt p = Some x) ->
  mate_view (rget (fst (fold_left resolve_step (seq 0 n) (st, mi))) x) = mate_view (rget tg x).
Proof.
  intros mi Hmi Hml Hsl x Hx.
  assert (I0 : inv 0 st mi).
  { constructor; try assumption.
    - intros y. now right.
    - intros y Hy. lia.
    - intros a b Hab Ha. rewrite Hmi in Ha. congruence.
    - intros a b Hab Hb Hbn. rewrite Hmi in Hb. congruence.
    - intros y. apply simm_refl.
    - intros y [[Hd1 Hd2]|(p & Hp1 & Hp2)]; [rewrite Hmi in Hd2|rewrite Hmi in Hp2]; congruence. }
  pose proof (resolve_fold_inv n 0 st mi I0) as I. cbn [Nat.add] in I.
  apply (i6 _ _ _ I).
  assert (Hall : forall y, mi_get (snd (fold_left resolve_step (seq 0 n) (st, mi))) y = None).
  { intros y. destruct (Nat.lt_ge_cases y n) as [Hlt|Hge]; [now apply (i2 _ _ _ I)|].
    apply mi_get_overflow. now rewrite (i_clen _ _ _ I). }
  destruct Hx as [Hx|(p & Hp)]; [left; split; [assumption|apply Hall]|].
  right. exists p. split; [assumption|apply Hall].
Qed.

Theorem resolve_length : forall mi,
  (forall x, mi_get mi x = nxt x) -> length mi = n -> length st = n ->
  length (fst (fold_left resolve_step (seq 0 n) (st, mi))) = n.
Proof.
  intros mi Hmi Hml Hsl.
  assert (I0 : inv 0 st mi).
  { constructor; try assumption.
    - intros y. now right.
    - intros y Hy. lia.
    - intros a b Hab Ha. rewrite Hmi in Ha. congruence.
    - intros a b Hab Hb Hbn. rewrite Hmi in Hb. congruence.
    - intros y. apply simm_refl.
    - intros y [[Hd1 Hd2]|(p & Hp1 & Hp2)]; [rewrite Hmi in Hd2|rewrite Hmi in Hp2]; congruence. }
  pose proof (resolve_fold_inv n 0 st mi I0) as I. cbn [Nat.add] in I.
  apply (i_len _ _ _ I).
Qed.

End Resolve.
