(* C07 — the byte-array data series of the features (SC soft-clip bases, IN insertion bases) at
   the byte level: ByteArray::ByteArrayStop { stop_byte: 0x00, block_content_id: 25 / 21 }
   (container/compression_header/data_series_encodings.rs init(); encoding/codec/byte_array.rs:
   encode = value then the stop byte, decode = up to the first stop byte).

   [restop_features] is what the reader holds of the features of ONE record written alone in a
   slice: every soft clip / insertion re-read from its series' block, feature by feature.
   [roundtrip_stop] is [Features.roundtrip] with that step in between; it is what the `feat` kind
   compares with the real writer + reader.  Definitions only. *)
From Coq Require Import List NArith ZArith Bool.
From NV Require Import CramRec.Features CramRec.FileNames.
Import ListNotations.
Open Scope N_scope.

Fixpoint sc_block (fs : list feature) : list N :=
  match fs with
  | [] => []
  | FSoftClip _ b :: tl => bas_encode 0 b ++ sc_block tl
  | _ :: tl => sc_block tl
  end.

Fixpoint in_block (fs : list feature) : list N :=
  match fs with
  | [] => []
  | FInsertion _ b :: tl => bas_encode 0 b ++ in_block tl
  | _ :: tl => in_block tl
  end.

(* None = Err(InvalidData) "missing byte array stop byte" *)
Fixpoint restop (fs : list feature) (sc inb : list N) : option (list feature) :=
  match fs with
  | [] => Some []
  | FSoftClip p _ :: tl =>
      match bas_decode 0 sc with
      | Some (v, rest) =>
          match restop tl rest inb with Some r => Some (FSoftClip p v :: r) | None => None end
      | None => None
      end
  | FInsertion p _ :: tl =>
      match bas_decode 0 inb with
      | Some (v, rest) =>
          match restop tl sc rest with Some r => Some (FInsertion p v :: r) | None => None end
      | None => None
      end
  | f :: tl =>
      match restop tl sc inb with Some r => Some (f :: r) | None => None end
  end.

Definition restop_features (fs : list feature) : option (list feature) :=
  restop fs (sc_block fs) (in_block fs).

Definition fnostopb (f : feature) : bool :=
  match f with
  | FSoftClip _ b | FInsertion _ b => negb (existsb (N.eqb 0) b)
  | _ => true
  end.

(* Features.roundtrip with the byte level of the SC / IN series in between; with the switch
   [FileNames.stop_byte_refused] the writer answers InvalidInput for a value holding the stop byte *)
Definition roundtrip_stop (sm : smatrix) (refseq seq quals : list N) (ops : list op) (start : N)
  : outcome :=
  let rl := record_read_length seq ops in
  let q := record_quals rl quals in
  if negb (len q =? rl) then RInvalidInput
  else if len refseq <? start then RInvalidInput
  else
  match record_features refseq seq q ops start with
  | None => RInvalidInput
  | Some ws =>
      match encode_features sm ws with
      | None => RWritePanic
      | Some fs0 =>
          if stop_byte_refused && negb (forallb fnostopb fs0) then RInvalidInput else
          match restop_features fs0 with
          | None => RReadFail
          | Some fs =>
              match seq with
              | [] => ROk (simplify (rebuild_cigar fs 1 rl)) []
              | _ =>
                  match rebuild_seq refseq sm fs start 1 rl with
                  | None => RReadFail
                  | Some s => ROk (simplify (rebuild_cigar fs 1 rl)) s
                  end
              end
          end
      end
  end.
