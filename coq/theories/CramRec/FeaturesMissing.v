(* C07 — records with a missing sequence or a missing CIGAR (/repo 405565a: 0049c20, fe42e80,
   a591b36, 8d67724), for the composed model function [Features.roundtrip]:
   - SEQ `*` with a CIGAR round-trips (CF SEQUENCE_IS_MISSING; the CIGAR is rebuilt from the
     features made from the CIGAR alone and the stored read length);
   - bases with CIGAR `*` read back with the bases unchanged and the CIGAR `<len>S`
     (class cram-missing-cigar-with-bases-reads-back-as-soft-clip);
   - quality scores that are present but not as long as the read are rejected. *)
From Coq Require Import List NArith Bool Lia.
From Coq Require Import ZifyBool ZifyNat ZifyN.
From NV Require Import CramRec.Features CramRec.FeaturesProofs.
Import ListNotations.
Open Scope N_scope.

Lemma len_unknown n : len (unknown_bases n) = n.
Proof. unfold unknown_bases. apply len_repeat. Qed.

(* the CIGAR rebuilt from the features of a CIGAR alone *)
Lemma missing_cigar sm rl : forall ops dp,
  Forall (fun o => 0 < snd o) ops -> dp + read_len ops = rl + 1 -> 1 <= dp ->
  exists fs, encode_features sm (c2f_missing ops dp) = Some fs /\
    forall d0, d0 <= dp -> simplify (rebuild_cigar fs d0 rl) = simplify (mrun d0 dp ++ norm_ops ops).
Proof.
  induction ops as [|[k n] rest IH]; intros dp Hpos Hrl Hdp.
  - exists []. split; [reflexivity|]. intros d0 Hd0. cbn [read_len] in Hrl.
    cbn [rebuild_cigar norm_ops map]. rewrite app_nil_r. unfold mrun.
    destruct (d0 <=? rl) eqn:E1, (d0 <? dp) eqn:E2; try lia; [|reflexivity].
    now replace (rl - d0 + 1) with (dp - d0) by lia.
  - inversion Hpos as [|? ? Hn Hpos']; subst. cbn [snd] in Hn. cbn [read_len] in Hrl.
    change (norm_ops ((k, n) :: rest)) with ((norm_kind k, n) :: norm_ops rest).
    cbn [c2f_missing].
    destruct (IH (if consumes_read k then dp + n else dp) Hpos'
                 ltac:(destruct k; cbn [consumes_read] in *; lia)
                 ltac:(destruct k; cbn [consumes_read]; lia)) as (fs' & He & Hc).
    (* one feature at dp, or none for a match *)
    assert (Hone : forall f k', fop f = Some (k', n) -> fpos f = dp -> k' = norm_kind k ->
               consumes_read k' = consumes_read k ->
               forall d0, d0 <= dp ->
               simplify (rebuild_cigar (f :: fs') d0 rl) = simplify (mrun d0 dp ++ (norm_kind k, n) :: norm_ops rest)).
    { intros f k' Hf Hp Hk Hcr d0 Hd0. rewrite (cigar_step_op _ _ _ _ _ _ Hf) by lia. rewrite Hp.
      apply simplify_app_congr. rewrite !simplify_cons. subst k'. f_equal. rewrite Hcr.
      rewrite Hc by (destruct (consumes_read k); lia). now rewrite mrun_nil. }
    destruct k; cbn [app consumes_read] in *.
    + (* M *) exists fs'. split; [assumption|]. intros d0 Hd0. rewrite Hc by lia.
      cbn [norm_kind]. change ((KM, n) :: norm_ops rest) with ([(KM, n)] ++ norm_ops rest).
      rewrite <- (mrun_pos dp n Hn). now rewrite mrun_merge by lia.
    + (* I *) eexists. split; [cbn [encode_features encode_feature]; rewrite He; reflexivity|].
      apply (Hone _ KI); cbn [fop fpos norm_kind consumes_read]; try reflexivity. now rewrite len_unknown.
    + (* D *) eexists. split; [cbn [encode_features encode_feature]; rewrite He; reflexivity|].
      apply (Hone _ KD); reflexivity.
    + (* N *) eexists. split; [cbn [encode_features encode_feature]; rewrite He; reflexivity|].
      apply (Hone _ KN); reflexivity.
    + (* S *) eexists. split; [cbn [encode_features encode_feature]; rewrite He; reflexivity|].
      apply (Hone _ KS); cbn [fop fpos norm_kind consumes_read]; try reflexivity. now rewrite len_unknown.
    + (* H *) eexists. split; [cbn [encode_features encode_feature]; rewrite He; reflexivity|].
      apply (Hone _ KH); reflexivity.
    + (* P *) eexists. split; [cbn [encode_features encode_feature]; rewrite He; reflexivity|].
      apply (Hone _ KP); reflexivity.
    + (* = *) exists fs'. split; [assumption|]. intros d0 Hd0. rewrite Hc by lia.
      cbn [norm_kind]. change ((KM, n) :: norm_ops rest) with ([(KM, n)] ++ norm_ops rest).
      rewrite <- (mrun_pos dp n Hn). now rewrite mrun_merge by lia.
    + (* X *) exists fs'. split; [assumption|]. intros d0 Hd0. rewrite Hc by lia.
      cbn [norm_kind]. change ((KM, n) :: norm_ops rest) with ([(KM, n)] ++ norm_ops rest).
      rewrite <- (mrun_pos dp n Hn). now rewrite mrun_merge by lia.
Qed.

(* SEQ `*` with a CIGAR (/repo 0049c20): accepted whatever the reference and the start are, and
   read back with SEQ `*` and the CIGAR of the input (=/X as M, adjacent equal kinds merged);
   the quality scores must be missing or as long as the CIGAR's read length *)
Theorem missing_sequence_roundtrip : forall sm refseq quals ops start,
  ops <> [] -> Forall (fun o => 0 < snd o) ops -> (quals = [] \/ len quals = read_len ops) ->
  start <= len refseq ->
  roundtrip sm refseq [] quals ops start = ROk (simplify (norm_ops ops)) [].
Proof.
  intros sm refseq quals ops start Hne Hpos Hq Hin. unfold roundtrip.
  assert (Hal : is_aligned ops = true) by (destruct ops; [congruence|reflexivity]).
  unfold record_read_length, record_features. rewrite Hal.
  rewrite (proj2 (N.eqb_eq _ _) (proj2 (record_quals_len (read_len ops) quals) Hq)). cbn [negb].
  replace (len refseq <? start) with false by (symmetry; apply N.ltb_ge; assumption).
  destruct (missing_cigar sm (read_len ops) ops 1 Hpos ltac:(lia) ltac:(lia)) as (fs & He & Hc).
  rewrite He. rewrite (Hc 1) by lia. now rewrite mrun_nil.
Qed.

(* bases with CIGAR `*` (/repo fe42e80): the whole read is stored as one soft clip; it reads back
   with exactly its bases (case included) and the CIGAR <len>S - the residual class
   cram-missing-cigar-with-bases-reads-back-as-soft-clip *)
Theorem missing_cigar_reads_back_as_soft_clip : forall sm refseq seq quals start,
  seq <> [] -> (quals = [] \/ len quals = len seq) -> 1 <= start -> start <= len refseq ->
  roundtrip sm refseq seq quals [] start = ROk [(KS, len seq)] seq.
Proof.
  intros sm refseq seq quals start Hne Hq H1 H2. unfold roundtrip.
  assert (Hrl : record_read_length seq [] = len seq) by (destruct seq; [congruence|reflexivity]).
  rewrite Hrl. rewrite (proj2 (N.eqb_eq _ _) (proj2 (record_quals_len (len seq) quals) Hq)). cbn [negb].
  replace (len refseq <? start) with false by (symmetry; apply N.ltb_ge; assumption).
  unfold record_features. cbn [is_aligned].
  destruct seq as [|b seq']; [congruence|]. set (sq := b :: seq') in *.
  cbn [encode_features encode_feature].
  assert (Hlen : 0 < len sq) by (unfold sq; rewrite len_cons; lia).
  assert (Hseq : rebuild_seq refseq sm [FSoftClip 1 sq] start 1 (len sq) = Some sq).
  { cbn [rebuild_seq fdelta fpos fbases]. rewrite N.ltb_irrefl. rewrite N.sub_diag, !N.add_0_r.
    rewrite (slice1_nil refseq start H1 ltac:(lia)).
    destruct (len sq <? 1 + len sq) eqn:E; [|lia]. cbn [app]. now rewrite app_nil_r. }
  rewrite Hseq. f_equal.
  cbn [rebuild_cigar fpos fop consumes_read]. rewrite N.ltb_irrefl. cbn [app].
  destruct (1 + len sq <=? len sq) eqn:E; [lia|]. reflexivity.
Qed.

(* the same record without bases: nothing is stored, nothing comes back *)
Lemma missing_cigar_and_sequence : forall sm refseq start, start <= len refseq ->
  roundtrip sm refseq [] [] [] start = ROk [] [].
Proof.
  intros sm refseq start H. unfold roundtrip. cbn [record_read_length is_aligned record_quals N.to_nat repeat].
  change (len [] =? 0) with true. cbn [negb].
  replace (len refseq <? start) with false by (symmetry; apply N.ltb_ge; assumption). reflexivity.
Qed.

(* quality scores that are present but not as long as the read are refused (/repo 8d67724),
   whatever else the record holds *)
Theorem quality_length_mismatch_is_error : forall sm refseq seq quals ops start,
  quals <> [] -> len quals <> record_read_length seq ops ->
  roundtrip sm refseq seq quals ops start = RInvalidInput.
Proof.
  intros sm refseq seq quals ops start H1 H2. apply roundtrip_invalid_input. left. now split.
Qed.

(* ---------------------------------------------------------------- convert_core *)
Definition core_aligned (placed : option (option (list N) * N)) (ops : list op) : bool :=
  match placed with Some _ => is_aligned ops | None => false end.
Definition core_read_length (unmapped : bool) (placed : option (option (list N) * N))
  (seq : list N) (ops : list op) : N :=
  match seq with
  | [] => if negb unmapped && core_aligned placed ops then read_len ops else 0
  | _ => len seq
  end.

(* read length, SEQUENCE_IS_MISSING and the stored quality scores of an accepted record *)
Lemma convert_core_shape : forall u placed seq quals ops rl ms q ws,
  convert_core u placed seq quals ops = Some (rl, ms, q, ws) ->
  rl = core_read_length u placed seq ops /\
  ms = (match seq with [] => true | _ => false end) /\
  q = record_quals rl quals /\ len q = rl.
Proof.
  intros u placed seq quals ops rl ms q ws H. unfold convert_core in H.
  fold (core_aligned placed ops) in H. fold (core_read_length u placed seq ops) in H.
  destruct (N.eqb_spec (len (record_quals (core_read_length u placed seq ops) quals))
                       (core_read_length u placed seq ops)) as [E|E]; cbn [negb] in H; [|discriminate].
  destruct (negb u && negb (core_aligned placed ops)).
  - injection H as <- <- <- <-. repeat split; assumption.
  - destruct placed as [[[refseq|] start]|]; try discriminate.
    + destruct (match seq with [] => _ | _ => _ end); [|discriminate].
      injection H as <- <- <- <-. repeat split; assumption.
    + injection H as <- <- <- <-. repeat split; assumption.
Qed.

(* the mapped, placed case is what [roundtrip] composes *)
Lemma convert_core_mapped : forall refseq start seq quals ops,
  convert_core false (Some (Some refseq, start)) seq quals ops =
  let rl := record_read_length seq ops in
  let q := record_quals rl quals in
  if negb (len q =? rl) then None
  else match record_features refseq seq q ops start with
       | Some ws => Some (rl, match seq with [] => true | _ => false end, q, ws)
       | None => None
       end.
Proof.
  intros refseq start seq quals ops. unfold convert_core, record_read_length, record_features.
  cbn [negb andb]. destruct seq as [|b seq']; destruct ops as [|o ops']; cbn [is_aligned negb];
    destruct (negb (_ =? _)); try reflexivity.
Qed.

(* quality scores that are present but not as long as the read: refused for every kind of record *)
Lemma convert_core_quality_mismatch : forall u placed seq quals ops,
  quals <> [] -> len quals <> core_read_length u placed seq ops ->
  convert_core u placed seq quals ops = None.
Proof.
  intros u placed seq quals ops H1 H2. unfold convert_core.
  fold (core_aligned placed ops). fold (core_read_length u placed seq ops).
  destruct (N.eqb_spec (len (record_quals (core_read_length u placed seq ops) quals))
                       (core_read_length u placed seq ops)) as [E|E]; [|reflexivity].
  apply record_quals_len in E. destruct E; contradiction.
Qed.
