(* C07 — the read-name data series (RN) at the byte level, and the file model with it.

   Writer : io/writer/container/slice/records.rs write_names / write_name (a missing name is written
            as `*`), data-series encoding ByteArray::ByteArrayStop { stop_byte: 0x00,
            block_content_id: 7 } (container/compression_header/data_series_encodings.rs init();
            encoding/codec/byte_array.rs encode: dst.extend(value); dst.push(stop_byte))
   Reader : io/reader/container/slice/records.rs read_names / read_name (`*` -> None),
            byte_array.rs decode: position of the first stop byte, else
            Err(InvalidData) "missing byte array stop byte"
   preserve_read_names(true) (the default): every record carries its name in this series.

   [file_rt_names] is the file of NV.CramRec.File whose slices carry the names of their records as
   the bytes of the RN block: the serialisation premise of c07_file_roundtrip made concrete for this
   series.  Definitions only; proofs in FileNamesProofs.v. *)
From Coq Require Import List NArith ZArith Bool.
From NV Require Import CramRec.Features CramRec.Mates CramRec.SliceHeader CramRec.File.
Import ListNotations.
Open Scope N_scope.

(* ---------------------------------------------------------------- ByteArrayStop *)
Definition bas_encode (stop : N) (v : list N) : list N := v ++ [stop].

(* None = Err(InvalidData) "missing byte array stop byte" *)
Fixpoint bas_decode (stop : N) (src : list N) : option (list N * list N) :=
  match src with
  | [] => None
  | b :: tl =>
      if b =? stop then Some ([], tl)
      else match bas_decode stop tl with
           | Some (v, rest) => Some (b :: v, rest)
           | None => None
           end
  end.

(* ---------------------------------------------------------------- names *)
Definition missing_name : list N := [42].            (* b"*" *)

Definition name_bytes (o : option (list N)) : list N :=
  match o with Some s => s | None => missing_name end.

(* the RN block of a slice *)
Definition enc_names (rs : list mrec) : list N :=
  concat (map (fun r => bas_encode 0 (name_bytes (m_name r))) rs).

Definition bytes_eqb (a b : list N) : bool := if list_eq_dec N.eq_dec a b then true else false.

Definition read_name (src : list N) : option (option (list N) * list N) :=
  match bas_decode 0 src with
  | Some (buf, rest) => Some (if bytes_eqb buf missing_name then None else Some buf, rest)
  | None => None
  end.

(* the names of n records, and what is left of the block *)
Fixpoint dec_names (n : nat) (src : list N) : option (list (option (list N)) * list N) :=
  match n with
  | O => Some ([], src)
  | S k =>
      match read_name src with
      | None => None
      | Some (nm, rest) =>
          match dec_names k rest with
          | Some (l, rest') => Some (nm :: l, rest')
          | None => None
          end
      end
  end.

Definition with_name (nm : option (list N)) (r : mrec) : mrec :=
  mk_mrec (m_flags r) nm (m_ref r) (m_start r) (m_rl r) (m_feats r)
          (m_mref r) (m_mstart r) (m_tlen r) (m_detached r) (m_down r) (m_dist r).

Fixpoint set_names (rs : list mrec) (nms : list (option (list N))) : list mrec :=
  match rs, nms with
  | r :: tl, nm :: ntl => with_name nm r :: set_names tl ntl
  | _, _ => []
  end.

(* a slice = its records without their names + the RN block *)
Definition ser_names (st : list mrec) : list mrec * list N :=
  (map (with_name None) st, enc_names st).
Definition de_names (s : list mrec * list N) : option (list mrec) :=
  match dec_names (length (fst s)) (snd s) with
  | Some (nms, _) => Some (set_names (fst s) nms)
  | None => None
  end.

Definition file_write_names := file_write_gen (list mrec * list N) ser_names.

(* one-line switch ([true] since /repo 61aefd0): [true] when the writer of /repo refuses a ByteArrayStop value that
   holds its stop byte with InvalidInput (/tmp/C07/fixes/09 or 10; known classes
   cram-read-name-with-nul-byte-shifts-names, cram-clip-or-insertion-base-nul-byte-cuts-feature).
   The positive theorems hold for both values; the *_refuted theorems and the NUL examples of
   props/C07.v are about [false] and must then be replaced by "the writer answers InvalidInput". *)
Definition stop_byte_refused : bool := true.

Definition has_nul (o : option (list N)) : bool :=
  match o with Some s => existsb (N.eqb 0) s | None => false end.
Definition stream_has_nul (ss : list samrec) : bool := existsb (fun s => has_nul (s_name s)) ss.

Definition file_rt_names (refs : list (list N)) (rps : nat) (ss : list samrec) : mres :=
  if stop_byte_refused && stream_has_nul ss then MWriteErr
  else file_rt_gen (list mrec * list N) ser_names de_names refs rps ss.

(* the RN block of every slice of the file *)
Definition file_name_blocks (refs : list (list N)) (rps : nat) (ss : list samrec)
  : option (list (list N)) :=
  if stop_byte_refused && stream_has_nul ss then None
  else
  match file_write_names refs rps ss with
  | None => None
  | Some f => Some (map snd f)
  end.
