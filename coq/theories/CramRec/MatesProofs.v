(* C07 — proofs about the mate-resolution model (Mates.v). *)
From Coq Require Import List NArith ZArith Bool Lia Arith.
From Coq Require Import ZifyBool ZifyNat ZifyN.
From NV Require Import CramRec.Features CramRec.Mates.
Import ListNotations.
Open Scope N_scope.

(* ---------------------------------------------------------------- template length *)
Lemma tlen_calc_range : forall r m, (0 <= tlen_calc r m <= 2147483647)%Z.
Proof.
  intros r m. unfold tlen_calc, i32_max.
  destruct (omin (m_start r) (m_start m)); [|lia].
  destruct (omax (r_alignment_end r) (r_alignment_end m)); [|lia].
  destruct (_ <=? 2147483647) eqn:E; lia.
Qed.

Lemma omin_comm : forall a b, omin a b = omin b a.
Proof. intros [a|] [b|]; cbn; try reflexivity. now rewrite N.min_comm. Qed.
Lemma omax_comm : forall a b, omax a b = omax b a.
Proof. intros [a|] [b|]; cbn; try reflexivity. now rewrite N.max_comm. Qed.

Lemma tlen_calc_sym : forall r m, tlen_calc r m = tlen_calc m r.
Proof.
  intros r m. unfold tlen_calc.
  now rewrite (omin_comm (m_start r)), (omax_comm (r_alignment_end r)).
Qed.

(* the saturation of /repo 8fd0898: a template longer than i32::MAX reads back as i32::MAX *)
Lemma tlen_calc_saturates : forall r m s e,
  omin (m_start r) (m_start m) = Some s ->
  omax (r_alignment_end r) (r_alignment_end m) = Some e ->
  s <= e -> i32_max < e - s + 1 -> tlen_calc r m = 2147483647%Z.
Proof.
  intros r m s e Hs He Hle Hbig. unfold tlen_calc. rewrite Hs, He.
  unfold i32_max in *.
  destruct (e <? s) eqn:E1; [lia|].
  destruct (e - s + 1 <=? 2147483647) eqn:E2; [lia|]. reflexivity.
Qed.

(* ---------------------------------------------------------------- upd / nth *)
Lemma nth_upd_other : forall A (l : list A) j f x d, x <> j -> nth x (upd l j f) d = nth x l d.
Proof.
  intros A l. induction l as [|a l IH]; intros j f x d Hne; [now destruct j|].
  destruct j as [|j]; destruct x as [|x]; cbn; try reflexivity; try lia.
  apply IH. lia.
Qed.

Lemma nth_upd_same : forall A (l : list A) j f d, (j < length l)%nat ->
  nth j (upd l j f) d = f (nth j l d).
Proof.
  intros A l. induction l as [|a l IH]; intros j f d Hlt; cbn in Hlt; [lia|].
  destruct j as [|j]; cbn; [reflexivity|]. apply IH. lia.
Qed.

Lemma length_upd : forall A (l : list A) j f, length (upd l j f) = length l.
Proof.
  intros A l. induction l as [|a l IH]; intros j f; [now destruct j|].
  destruct j; cbn; [reflexivity|]. now rewrite IH.
Qed.

Lemma rget_upd_other : forall rs j f x, x <> j -> rget (upd rs j f) x = rget rs x.
Proof. intros. unfold rget. now apply nth_upd_other. Qed.
Lemma mi_upd_other : forall mi j f x, x <> j -> mi_get (upd mi j f) x = mi_get mi x.
Proof. intros. unfold mi_get. now apply nth_upd_other. Qed.

(* ---------------------------------------------------------------- frame: what the reader touches *)
(* mi' is mi with some entries cleared *)
Definition sub_mi (mi' mi : list (option nat)) : Prop :=
  forall x, mi_get mi' x = None \/ mi_get mi' x = mi_get mi x.

Lemma sub_mi_refl : forall mi, sub_mi mi mi.
Proof. intros mi x. now right. Qed.

Lemma sub_mi_trans : forall a b c, sub_mi a b -> sub_mi b c -> sub_mi a c.
Proof.
  intros a b c Hab Hbc x. destruct (Hab x) as [H|H]; [now left|].
  destruct (Hbc x) as [H'|H']; [left|right]; congruence.
Qed.

Lemma sub_mi_clear : forall mi j, sub_mi (upd mi j (fun _ => None)) mi.
Proof.
  intros mi j x. destruct (Nat.eq_dec x j) as [->|Hne].
  - destruct (Nat.lt_ge_cases j (length mi)) as [Hlt|Hge].
    + left. unfold mi_get. now rewrite nth_upd_same.
    + left. unfold mi_get. apply nth_overflow. now rewrite length_upd.
  - right. now apply mi_upd_other.
Qed.

(* x has no mate distance and is nobody's mate *)
Definition untouched (mi : list (option nat)) (x : nat) : Prop :=
  mi_get mi x = None /\ forall j, mi_get mi j <> Some x.

Lemma walk_set_frame : forall fuel mi rs j x,
  mi_get mi x = None -> rget (fst (walk_set fuel mi rs j)) x = rget rs x.
Proof.
  induction fuel as [|f IH]; intros mi rs j x Hx; cbn [walk_set]; [reflexivity|].
  destruct (mi_get mi j) as [m|] eqn:Hj; [|reflexivity].
  rewrite IH by assumption. apply rget_upd_other. congruence.
Qed.

Lemma walk_set_last : forall fuel mi rs j,
  snd (walk_set fuel mi rs j) = j \/ exists j', mi_get mi j' = Some (snd (walk_set fuel mi rs j)).
Proof.
  induction fuel as [|f IH]; intros mi rs j; cbn [walk_set]; [now left|].
  destruct (mi_get mi j) as [m|] eqn:Hj; [|now left].
  destruct (IH mi (upd rs j (fun r => set_mate r (rget rs m))) m) as [H|H].
  - right. exists j. now rewrite H.
  - now right.
Qed.

Lemma walk_tlen_frame : forall fuel t mi rs j x,
  (forall j', mi_get mi j' <> Some x) ->
  rget (fst (walk_tlen fuel t mi rs j)) x = rget rs x /\ sub_mi (snd (walk_tlen fuel t mi rs j)) mi.
Proof.
  induction fuel as [|f IH]; intros t mi rs j x Hx; cbn [walk_tlen].
  - split; [reflexivity|apply sub_mi_refl].
  - destruct (mi_get mi j) as [m|] eqn:Hj; [|split; [reflexivity|apply sub_mi_refl]].
    assert (Hsub : sub_mi (upd mi j (fun _ => None)) mi) by apply sub_mi_clear.
    destruct (IH t (upd mi j (fun _ => None)) (upd rs m (set_tlen (- t))) m x) as [H1 H2].
    + intros j' Hc. destruct (Hsub j') as [H|H]; [congruence|]. rewrite H in Hc. now apply (Hx j').
    + split.
      * rewrite H1. apply rget_upd_other. intro; subst. now apply (Hx j).
      * eapply sub_mi_trans; eassumption.
Qed.

Lemma resolve_step_frame : forall mi0 rs mi i x,
  sub_mi mi mi0 -> untouched mi0 x ->
  rget (fst (resolve_step (rs, mi) i)) x = rget rs x /\ sub_mi (snd (resolve_step (rs, mi) i)) mi0.
Proof.
  intros mi0 rs mi i x Hsub [Hx1 Hx2]. unfold resolve_step.
  assert (Hx1' : mi_get mi x = None) by (destruct (Hsub x); congruence).
  assert (Hx2' : forall j, mi_get mi j <> Some x).
  { intros j Hc. destruct (Hsub j) as [H|H]; [congruence|]. rewrite H in Hc. now apply (Hx2 j). }
  destruct (mi_get mi i) as [m|] eqn:Hi; [|now split].
  destruct (walk_set (length rs) mi rs i) as [rs1 j] eqn:Hw.
  pose proof (walk_set_frame (length rs) mi rs i x Hx1') as Hf. rewrite Hw in Hf. cbn in Hf.
  pose proof (walk_set_last (length rs) mi rs i) as Hl. rewrite Hw in Hl. cbn in Hl.
  assert (Hxi : x <> i) by congruence.
  assert (Hxj : x <> j).
  { destruct Hl as [->|[j' Hj']]; [assumption|]. intro; subst. now apply (Hx2' j'). }
  match goal with |- context [walk_tlen ?f ?t ?a ?b ?c] =>
    destruct (walk_tlen_frame f t a b c x Hx2') as [H1 H2] end.
  split.
  - rewrite H1. rewrite rget_upd_other by assumption. rewrite rget_upd_other by assumption. exact Hf.
  - eapply sub_mi_trans; eassumption.
Qed.

Lemma resolve_fold_frame : forall mi0 x is rs mi,
  sub_mi mi mi0 -> untouched mi0 x ->
  rget (fst (fold_left resolve_step is (rs, mi))) x = rget rs x.
Proof.
  intros mi0 x. induction is as [|i is IH]; intros rs mi Hsub Hx; cbn [fold_left]; [reflexivity|].
  destruct (resolve_step_frame mi0 rs mi i x Hsub Hx) as [H1 H2].
  destruct (resolve_step (rs, mi) i) as [rs' mi'] eqn:E. cbn in H1, H2.
  rewrite IH by assumption. exact H1.
Qed.

(* ---------------------------------------------------------------- mate_indices *)
Lemma mate_indices_get : forall n rs i mi x,
  mate_indices_from n i rs = Some mi ->
  mi_get mi x = match m_dist (rget rs x) with
                | Some d => if (x <? length rs)%nat then Some (i + x + N.to_nat d + 1)%nat else None
                | None => None
                end.
Proof.
  intros n rs. induction rs as [|r tl IH]; intros i mi x H; cbn [mate_indices_from] in H.
  - inversion H; subst. unfold mi_get, rget. destruct x; cbn; reflexivity.
  - destruct (mate_indices_from n (S i) tl) as [rest|] eqn:E; [|discriminate].
    specialize (IH (S i) rest).
    destruct x as [|x].
    + unfold rget; cbn [nth]. destruct (m_dist r) as [d|].
      * destruct (_ <? n)%nat; [|discriminate]. inversion H; subst. unfold mi_get; cbn.
        f_equal. lia.
      * inversion H; subst. reflexivity.
    + assert (Hm : mi_get mi (S x) = mi_get rest x).
      { destruct (m_dist r); [destruct (_ <? n)%nat; [|discriminate]|]; inversion H; subst; reflexivity. }
      rewrite Hm, (IH x E). unfold rget; cbn [nth length].
      destruct (m_dist (nth x tl dflt_mrec)); [|reflexivity].
      replace (S x <? S (length tl))%nat with (x <? length tl)%nat
        by (destruct (Nat.ltb_spec x (length tl)); destruct (Nat.ltb_spec (S x) (S (length tl))); lia).
      destruct (x <? length tl)%nat; [f_equal; lia|reflexivity].
Qed.

(* ---------------------------------------------------------------- store *)
Lemma store_all_nth : forall rs st x,
  store_all rs = Some st -> (x < length rs)%nat -> store (rget rs x) = Some (rget st x).
Proof.
  induction rs as [|r tl IH]; intros st x H Hlt; cbn in Hlt; [lia|].
  cbn [store_all] in H. destruct (store r) as [r'|] eqn:Er; [|discriminate].
  destruct (store_all tl) as [tl'|] eqn:Et; [|discriminate]. inversion H; subst.
  destruct x as [|x]; unfold rget; cbn [nth]; [assumption|]. apply IH; [reflexivity|lia].
Qed.

Lemma store_all_length : forall rs st, store_all rs = Some st -> length st = length rs.
Proof.
  induction rs as [|r tl IH]; intros st H; cbn [store_all] in H.
  - inversion H; reflexivity.
  - destruct (store r); [|discriminate]. destruct (store_all tl) eqn:E; [|discriminate].
    inversion H; subst. cbn. f_equal. now apply IH.
Qed.

Lemma store_detached : forall r r', m_detached r = true -> store r = Some r' -> r' = r.
Proof.
  intros r r' Hd H. unfold store in H. rewrite Hd in H.
  destruct (_ && _); congruence.
Qed.

Lemma store_attached_dist : forall r r', m_detached r = false -> store r = Some r' ->
  m_dist r' = (if m_down r then m_dist r else None) /\ m_detached r' = false.
Proof.
  intros r r' Hd H. unfold store in H. rewrite Hd in H.
  destruct (oN_i32 (m_dist r)); [|discriminate]. inversion H; subst. cbn. now split.
Qed.

(* ---------------------------------------------------------------- writer invariants *)
(* a record as Record::try_from_alignment_record makes it *)
Definition fresh (r : mrec) : Prop := m_detached r = false /\ m_down r = false /\ m_dist r = None.

(* what set_mates establishes: a detached record has no mate distance; the record a mate distance
   points at exists and is attached; a distance comes with MATE_IS_DOWNSTREAM *)
Definition linked_wf (out : list mrec) : Prop :=
  forall x, (x < length out)%nat ->
    (m_detached (rget out x) = true -> m_dist (rget out x) = None) /\
    (forall d, m_dist (rget out x) = Some d ->
       m_down (rget out x) = true /\ m_detached (rget out x) = false /\
       (x + N.to_nat d + 1 < length out)%nat /\
       m_detached (rget out (x + N.to_nat d + 1)) = false).

Lemma nm_get_bound : forall (m : nmap) (lo hi : nat),
  (forall k v, In (k, v) m -> lo <= v < hi)%nat ->
  forall k v, nm_get k m = Some v -> (lo <= v < hi)%nat.
Proof.
  induction m as [|[k' v'] m IH]; intros lo hi Hb k v H; cbn [nm_get] in H; [discriminate|].
  destruct (oname_eqb k k').
  - inversion H; subst. apply (Hb k' v). now left.
  - eapply IH; [|eassumption]. intros k0 v0 Hin. apply (Hb k0 v0). now right.
Qed.

Lemma set_mates_from_wf : forall rep rs i out m,
  Forall fresh rs -> set_mates_from rep i rs = (out, m) ->
  length out = length rs /\
  (forall k v, In (k, v) m -> i <= v < i + length rs)%nat /\
  linked_wf out.
Proof.
  intros rep. induction rs as [|r tl IH]; intros i out m Hf H; cbn [set_mates_from] in H.
  - inversion H; subst. split; [reflexivity|]. split; [intros k v []|]. intros x Hx. cbn in Hx. lia.
  - inversion Hf as [|? ? Hr Htl]; subst.
    destruct (set_mates_from rep (S i) tl) as [tl' m'] eqn:E.
    destruct (IH (S i) tl' m' Htl E) as (Hlen & Hmap & Hwf).
    destruct Hr as (Hr1 & Hr2 & Hr3).
    (* the three ways the head ends up detached share one argument *)
    assert (Hdet : forall m2 : nmap, (forall k v, In (k, v) m2 -> i <= v < i + length (r :: tl))%nat ->
              length (set_detached r :: tl') = length (r :: tl) /\
              (forall k v, In (k, v) m2 -> i <= v < i + length (r :: tl))%nat /\
              linked_wf (set_detached r :: tl')).
    { intros m2 Hm2. split; [cbn; now rewrite Hlen|]. split; [assumption|].
      intros x Hx. destruct x as [|x].
      - unfold rget; cbn [nth set_detached m_dist m_detached]. rewrite Hr3. split; [reflexivity|discriminate].
      - cbn [length] in Hx. destruct (Hwf x ltac:(lia)) as [W1 W2].
        unfold rget in *; cbn [nth]. split; [assumption|]. intros d Hd.
        destruct (W2 d Hd) as (A & B & C & D). repeat split; try assumption. cbn [length]; lia. }
    assert (Hm_tl : forall k v, In (k, v) m' -> (i <= v < i + length (r :: tl))%nat).
    { intros k v Hin. specialize (Hmap k v Hin). cbn [length]. lia. }
    assert (Hm_cons : forall k v, In (k, v) ((m_name r, i) :: m') -> (i <= v < i + length (r :: tl))%nat).
    { intros k v [Heq|Hin]; [inversion Heq; subst; cbn [length]; lia|now apply (Hm_tl k v)]. }
    destruct (eligible r).
    + destruct (nm_get (m_name r) m') as [j|] eqn:Ej.
      * pose proof (nm_get_bound m' (S i) (S i + length tl) Hmap _ _ Ej) as Hj.
        destruct (link_ok rep r (nth (j - S i) tl' dflt_mrec)).
        -- inversion H; subst. split; [cbn; now rewrite length_upd, Hlen|]. split; [assumption|].
           intros x Hx. destruct x as [|x].
           ++ unfold rget; cbn [nth set_downstream m_dist m_detached m_down]. rewrite Hr1.
              split; [discriminate|]. intros d Hd. inversion Hd; subst.
              rewrite Nnat.Nat2N.id.
              replace (0 + (j - i - 1) + 1)%nat with (S (j - S i)) by lia. cbn [nth length].
              rewrite length_upd. repeat split; try reflexivity; [lia|].
              rewrite nth_upd_same by lia. reflexivity.
           ++ cbn [length] in Hx. rewrite length_upd in Hx.
              destruct (Hwf x ltac:(lia)) as [W1 W2].
              unfold rget in *; cbn [nth].
              destruct (Nat.eq_dec x (j - S i)) as [->|Hne].
              ** rewrite nth_upd_same by lia. cbn [clear_detached m_detached m_dist m_down].
                 split; [discriminate|]. intros d Hd. destruct (W2 d Hd) as (A & B & C & D).
                 repeat split; try assumption; try reflexivity; [cbn [length]; rewrite length_upd; lia|].
                 replace (S (j - S i) + N.to_nat d + 1)%nat with (S (j - S i + N.to_nat d + 1)) by lia.
                 cbn [nth]. rewrite nth_upd_other by lia. exact D.
              ** rewrite nth_upd_other by assumption. split; [assumption|]. intros d Hd.
                 destruct (W2 d Hd) as (A & B & C & D).
                 repeat split; try assumption; [cbn [length]; rewrite length_upd; lia|].
                 replace (S x + N.to_nat d + 1)%nat with (S (x + N.to_nat d + 1)) by lia. cbn [nth].
                 destruct (Nat.eq_dec (x + N.to_nat d + 1) (j - S i)) as [->|Hne2].
                 --- rewrite nth_upd_same by lia. reflexivity.
                 --- rewrite nth_upd_other by assumption. exact D.
        -- inversion H; subst. now apply Hdet.
      * inversion H; subst. now apply Hdet.
    + inversion H; subst. now apply Hdet.
Qed.

(* set_mates changes the CRAM flags and the mate distance only *)
Definition core (r : mrec) :=
  (m_flags r, m_name r, m_ref r, m_start r, m_rl r, m_feats r, m_mref r, m_mstart r, m_tlen r).

Lemma nth_upd_clear_core : forall l k x,
  core (nth x (upd l k clear_detached) dflt_mrec) = core (nth x l dflt_mrec).
Proof.
  intros l k x. destruct (Nat.eq_dec x k) as [->|Hne]; [|now rewrite nth_upd_other].
  destruct (Nat.lt_ge_cases k (length l)) as [Hlt|Hge].
  - now rewrite nth_upd_same.
  - rewrite !nth_overflow; [reflexivity|lia|rewrite length_upd; lia].
Qed.

Lemma set_mates_from_core : forall rep rs i x,
  core (nth x (fst (set_mates_from rep i rs)) dflt_mrec) = core (nth x rs dflt_mrec).
Proof.
  intros rep. induction rs as [|r tl IH]; intros i x; cbn [set_mates_from]; [reflexivity|].
  specialize (IH (S i)). destruct (set_mates_from rep (S i) tl) as [tl' m'] eqn:E. cbn [fst] in IH.
  destruct (eligible r); [destruct (nm_get (m_name r) m') as [j|];
    [destruct (link_ok rep r (nth (j - S i) tl' dflt_mrec))|]|];
    cbn [fst]; destruct x as [|x]; cbn [nth]; try reflexivity; try apply IH.
  rewrite nth_upd_clear_core. apply IH.
Qed.

Lemma set_mates_gen_view : forall rep rs x,
  mate_view (rget (set_mates_gen rep rs) x) = mate_view (rget rs x).
Proof.
  intros rep rs x. unfold set_mates_gen, rget.
  pose proof (set_mates_from_core rep rs 0 x) as H. unfold core in H. unfold mate_view.
  inversion H. congruence.
Qed.

(* ---------------------------------------------------------------- theorem: detached records *)
Lemma set_mates_gen_wf : forall rep rs, Forall fresh rs ->
  length (set_mates_gen rep rs) = length rs /\ linked_wf (set_mates_gen rep rs).
Proof.
  intros rep rs Hf. unfold set_mates_gen.
  destruct (set_mates_from rep 0 rs) as [out m] eqn:E.
  destruct (set_mates_from_wf rep rs 0 out m Hf E) as (A & _ & C). now split.
Qed.

(* the reader's mate index table on what the writer stored *)
Lemma stored_mi : forall rep rs st mi x, Forall fresh rs ->
  store_all (set_mates_gen rep rs) = Some st ->
  mate_indices_from (length st) 0 st = Some mi ->
  mi_get mi x = match m_dist (rget (set_mates_gen rep rs) x) with
                | Some d => if (x <? length rs)%nat then Some (x + N.to_nat d + 1)%nat else None
                | None => None
                end.
Proof.
  intros rep rs st mi x Hf Hst Hmi.
  destruct (set_mates_gen_wf rep rs Hf) as [Hlen Hwf].
  rewrite (mate_indices_get _ _ _ _ x Hmi). rewrite (store_all_length _ _ Hst), Hlen.
  destruct (Nat.ltb_spec x (length rs)) as [Hlt|Hge].
  - pose proof (store_all_nth _ st x Hst ltac:(lia)) as Hs.
    destruct (Hwf x ltac:(lia)) as [W1 W2].
    destruct (m_detached (rget (set_mates_gen rep rs) x)) eqn:Hd.
    + rewrite (store_detached _ _ Hd Hs). now destruct (m_dist _).
    + destruct (store_attached_dist _ _ Hd Hs) as [Hdist _]. rewrite Hdist.
      destruct (m_dist (rget (set_mates_gen rep rs) x)) as [d|] eqn:Ed.
      * destruct (W2 d eq_refl) as (A & _). rewrite A. reflexivity.
      * now destruct (m_down _).
  - unfold rget. rewrite nth_overflow by (rewrite (store_all_length _ _ Hst), Hlen; lia).
    rewrite (nth_overflow (set_mates_gen rep rs)) by lia. reflexivity.
Qed.

(* In every slice, whatever else it holds and for both writers, a record that set_mates leaves
   detached is read back exactly as it was stored, in particular with its FLAG / RNEXT / PNEXT /
   TLEN unchanged. *)
Theorem detached_record_preserved : forall rep rs out x,
  Forall fresh rs ->
  slice_roundtrip_gen rep rs = MOk out ->
  (x < length rs)%nat ->
  m_detached (rget (set_mates_gen rep rs) x) = true ->
  rget out x = rget (set_mates_gen rep rs) x /\
  mate_view (rget out x) = mate_view (rget rs x).
Proof.
  intros rep rs out x Hf Hrt Hx Hd. unfold slice_roundtrip_gen in Hrt.
  destruct (store_all (set_mates_gen rep rs)) as [st|] eqn:Hst; [|discriminate].
  unfold resolve_mates in Hrt.
  destruct (mate_indices_from (length st) 0 st) as [mi|] eqn:Hmi; [|discriminate].
  inversion Hrt as [Hout]; clear Hrt.
  destruct (set_mates_gen_wf rep rs Hf) as [Hlen Hwf].
  assert (Hun : untouched mi x).
  { split.
    - rewrite (stored_mi rep rs st mi x Hf Hst Hmi).
      destruct (Hwf x ltac:(lia)) as [W1 _]. now rewrite (W1 Hd).
    - intros j Hj. rewrite (stored_mi rep rs st mi j Hf Hst Hmi) in Hj.
      destruct (m_dist (rget (set_mates_gen rep rs) j)) as [d|] eqn:Ed; [|discriminate].
      destruct (Nat.ltb_spec j (length rs)) as [Hlt|]; [|discriminate].
      inversion Hj; subst x.
      destruct (Hwf j ltac:(lia)) as [_ W2]. destruct (W2 d Ed) as (_ & _ & _ & D). congruence. }
  rewrite (resolve_fold_frame mi x _ st mi (sub_mi_refl mi) Hun).
  pose proof (store_all_nth _ st x Hst ltac:(lia)) as Hs.
  rewrite (store_detached _ _ Hd Hs). split; [reflexivity|].
  apply set_mates_gen_view.
Qed.

(* ---------------------------------------------------------------- theorem: a slice of two records *)
Lemma oN_eqb_eq : forall a b, oN_eqb a b = true <-> a = b.
Proof.
  intros [a|] [b|]; cbn; split; intro H; try discriminate; try reflexivity.
  - apply N.eqb_eq in H. now subst.
  - inversion H. apply N.eqb_refl.
Qed.

Lemma tlen_calc_ext : forall r r' m m',
  m_start r = m_start r' -> m_rl r = m_rl r' -> m_feats r = m_feats r' ->
  m_start m = m_start m' -> m_rl m = m_rl m' -> m_feats m = m_feats m' ->
  tlen_calc r m = tlen_calc r' m'.
Proof.
  intros r r' m m' H1 H2 H3 H4 H5 H6. unfold tlen_calc, r_alignment_end.
  now rewrite H1, H2, H3, H4, H5, H6.
Qed.

(* set_mate only adds the bits 0x20 / 0x8: it never changes what a later set_mate reads *)
Lemma keep_rev : forall r m, is_reverse (m_flags (set_mate r m)) = is_reverse (m_flags r).
Proof.
  intros r m. unfold set_mate, is_reverse, MATE_REVERSE, MATE_UNMAPPED. cbn [m_flags].
  destruct (N.testbit (m_flags m) 4); destruct (is_unmapped (m_flags m));
    rewrite ?N.lor_spec; cbn; now rewrite ?orb_false_r.
Qed.
Lemma keep_unm : forall r m, is_unmapped (m_flags (set_mate r m)) = is_unmapped (m_flags r).
Proof.
  intros r m. unfold set_mate, is_unmapped, MATE_REVERSE, MATE_UNMAPPED. cbn [m_flags].
  destruct (is_reverse (m_flags m)); destruct (N.testbit (m_flags m) 2);
    rewrite ?N.lor_spec; cbn; now rewrite ?orb_false_r.
Qed.

Lemma set_mate_flags_ext : forall r r' m m',
  m_flags r = m_flags r' -> is_reverse (m_flags m) = is_reverse (m_flags m') ->
  is_unmapped (m_flags m) = is_unmapped (m_flags m') ->
  m_flags (set_mate r m) = m_flags (set_mate r' m').
Proof. intros r r' m m' H1 H2 H3. unfold set_mate. cbn [m_flags]. now rewrite H1, H2, H3. Qed.

Lemma view_eq : forall (r : mrec) f mr ms t,
  m_flags r = f -> m_mref r = mr -> m_mstart r = ms -> m_tlen r = t -> mate_view r = (f, mr, ms, t).
Proof. intros; subst; reflexivity. Qed.

(* two records that set_mates links (the unrepaired writer links whenever both are segmented,
   not secondary and carry the same name): the reader returns exactly the recomputed fields, and
   these are the stored ones if and only if the pair is [pair_consistent] *)
Theorem linked_pair_roundtrip : forall a b,
  fresh a -> fresh b -> eligible a = true -> eligible b = true ->
  oname_eqb (m_name a) (m_name b) = true ->
  exists a' b', slice_roundtrip_gen false [a; b] = MOk [a'; b'] /\
    mate_view a' = (m_flags (set_mate a b), m_ref b, m_start b, tlen_calc b a) /\
    mate_view b' = (m_flags (set_mate b a), m_ref a, m_start a, (- tlen_calc b a)%Z) /\
    ((mate_view a' = mate_view a /\ mate_view b' = mate_view b) <-> pair_consistent a b = true).
Proof.
  intros a b (Ha1 & Ha2 & Ha3) (Hb1 & Hb2 & Hb3) Ea Eb En.
  destruct a as [af an ar as_ arl afs amr ams at_ ad adn adi].
  destruct b as [bf bn br bs brl bfs bmr bms bt bd bdn bdi].
  cbn in Ha1, Ha2, Ha3, Hb1, Hb2, Hb3, En. subst.
  unfold slice_roundtrip_gen, set_mates_gen. cbn [set_mates_from].
  rewrite Ea, Eb. cbn [nm_get m_name fst]. rewrite En. cbn -[set_mate tlen_calc].
  eexists. eexists. split; [reflexivity|].
  match goal with |- ?V1 = _ /\ ?V2 = _ /\ _ =>
    assert (Hva : V1 = (m_flags (set_mate (mk_mrec af an ar as_ arl afs amr ams at_ false false None)
                                          (mk_mrec bf bn br bs brl bfs bmr bms bt false false None)),
                        br, bs,
                        tlen_calc (mk_mrec bf bn br bs brl bfs bmr bms bt false false None)
                                  (mk_mrec af an ar as_ arl afs amr ams at_ false false None)));
    [|assert (Hvb : V2 = (m_flags (set_mate (mk_mrec bf bn br bs brl bfs bmr bms bt false false None)
                                            (mk_mrec af an ar as_ arl afs amr ams at_ false false None)),
                          ar, as_,
                          (- tlen_calc (mk_mrec bf bn br bs brl bfs bmr bms bt false false None)
                                       (mk_mrec af an ar as_ arl afs amr ams at_ false false None))%Z))]
  end.
  - apply view_eq; try reflexivity; try (cbn [m_tlen set_tlen]; apply tlen_calc_ext; reflexivity).
  - apply view_eq; try reflexivity;
      try (cbn [m_tlen set_tlen]; apply (f_equal Z.opp); apply tlen_calc_ext; reflexivity).
    cbn [m_flags set_tlen]. apply set_mate_flags_ext; [reflexivity|etransitivity; [apply keep_rev|reflexivity]|etransitivity; [apply keep_unm|reflexivity]].
  - split; [exact Hva|]. split; [exact Hvb|]. rewrite Hva, Hvb.
    unfold pair_consistent, mate_view. cbn [m_flags m_mref m_mstart m_tlen m_ref m_start].
    rewrite !andb_true_iff, !N.eqb_eq, !oN_eqb_eq, !Z.eqb_eq.
    split.
    + intros [H1 H2]. injection H1 as E1 E2 E3 E4. injection H2 as E5 E6 E7 E8.
      repeat split; try congruence; try exact E1; try exact E5.
    + intros (((((((H1 & H2) & H3) & H4) & H5) & H6) & H7) & H8). split; congruence.
Qed.

(* the repaired writer: whatever the two records are, the slice reads back unchanged *)
Lemma pair_consistent_detached : forall a b, pair_consistent a (set_detached b) = pair_consistent a b.
Proof. reflexivity. Qed.

Theorem repaired_pair_roundtrip : forall a b out,
  fresh a -> fresh b ->
  slice_roundtrip_gen true [a; b] = MOk out ->
  map mate_view out = [mate_view a; mate_view b].
Proof.
  intros a b out Fa Fb H.
  destruct (eligible a && eligible b && oname_eqb (m_name a) (m_name b) && pair_consistent a b) eqn:E.
  - rewrite !andb_true_iff in E. destruct E as (((Ea & Eb) & En) & Epc).
    assert (Hsame : slice_roundtrip_gen true [a; b] = slice_roundtrip_gen false [a; b]).
    { unfold slice_roundtrip_gen, set_mates_gen. cbn [set_mates_from]. rewrite Ea, Eb.
      cbn [nm_get m_name set_detached fst]. rewrite En. cbn [nth Nat.sub link_ok m_detached andb].
      rewrite pair_consistent_detached, Epc. reflexivity. }
    destruct (linked_pair_roundtrip a b Fa Fb Ea Eb En) as (a' & b' & Hrt & _ & _ & Hiff).
    rewrite Hsame, Hrt in H. inversion H; subst. cbn [map].
    destruct (proj2 Hiff Epc) as [V1 V2]. now rewrite V1, V2.
  - (* not linked: both records stay detached and are stored verbatim *)
    destruct Fa as (Ha1 & Ha2 & Ha3). destruct Fb as (Hb1 & Hb2 & Hb3).
    destruct a as [af an ar as_ arl afs amr ams at_ ad adn adi].
    destruct b as [bf bn br bs brl bfs bmr bms bt bd bdn bdi].
    cbn in Ha1, Ha2, Ha3, Hb1, Hb2, Hb3. subst.
    unfold slice_roundtrip_gen, set_mates_gen in H. cbn [set_mates_from] in H.
    destruct (eligible (mk_mrec bf bn br bs brl bfs bmr bms bt false false None)) eqn:Eb;
    destruct (eligible (mk_mrec af an ar as_ arl afs amr ams at_ false false None)) eqn:Ea;
    cbn [nm_get m_name fst andb] in H, E.
    1: destruct (oname_eqb an bn) eqn:En;
       cbn [link_ok nth Nat.sub m_detached set_detached andb] in H, E;
       [rewrite pair_consistent_detached in H; cbn [andb] in E; rewrite E in H|].
    all: cbn in H;
         repeat match type of H with context [if ?c then _ else _] => destruct c; try discriminate end;
         inversion H; subst; reflexivity.
Qed.

(* ---------------------------------------------------------------- the reader accepts what the writer wrote *)
Lemma mate_indices_ok : forall n rs i,
  (forall x d, (x < length rs)%nat -> m_dist (rget rs x) = Some d ->
               (i + x + N.to_nat d + 1 < n)%nat) ->
  exists mi, mate_indices_from n i rs = Some mi.
Proof.
  intros n. induction rs as [|r tl IH]; intros i H; cbn [mate_indices_from]; [now eexists|].
  destruct (IH (S i)) as [rest Hrest].
  { intros x d Hx Hd. specialize (H (S x) d). cbn [length] in H. unfold rget in *; cbn [nth] in H.
    specialize (H ltac:(lia) Hd). lia. }
  rewrite Hrest. destruct (m_dist r) as [d|] eqn:Ed; [|now eexists].
  specialize (H 0%nat d). cbn [length] in H. unfold rget in H; cbn [nth] in H.
  specialize (H ltac:(lia) Ed).
  destruct (Nat.ltb_spec (i + N.to_nat d + 1) n); [now eexists|lia].
Qed.

(* resolve_mates never answers "invalid mate distance" (/repo 21bfe86) on a slice written by
   set_mates + write_mate, for either writer *)
Theorem written_slice_resolves : forall rep rs,
  Forall fresh rs -> slice_roundtrip_gen rep rs <> MReadErr.
Proof.
  intros rep rs Hf. unfold slice_roundtrip_gen.
  destruct (store_all (set_mates_gen rep rs)) as [st|] eqn:Hst; [|discriminate].
  destruct (set_mates_gen_wf rep rs Hf) as [Hlen Hwf].
  pose proof (store_all_length _ _ Hst) as Hl.
  unfold resolve_mates.
  destruct (mate_indices_ok (length st) st 0) as [mi Hmi].
  { intros x d Hx Hd. rewrite Hl in Hx.
    pose proof (store_all_nth _ st x Hst Hx) as Hs.
    destruct (Hwf x Hx) as [W1 W2].
    destruct (m_detached (rget (set_mates_gen rep rs) x)) eqn:Edet.
    - rewrite (store_detached _ _ Edet Hs) in Hd. rewrite (W1 eq_refl) in Hd. discriminate.
    - destruct (store_attached_dist _ _ Edet Hs) as [Hdist _]. rewrite Hdist in Hd.
      destruct (m_down (rget (set_mates_gen rep rs) x)); [|discriminate].
      destruct (W2 d Hd) as (_ & _ & C & _). lia. }
  rewrite Hmi. discriminate.
Qed.
