(* C07 — proofs about the mate-resolution model (Mates.v). *)
From Coq Require Import List NArith ZArith Bool Lia Arith.
From Coq Require Import ZifyBool ZifyNat ZifyN.
From NV Require Import CramRec.Features CramRec.Mates.
Import ListNotations.
Open Scope N_scope.

(* ---------------------------------------------------------------- template length *)
Lemma tlen_calc_range : forall r m, (0 <= tlen_calc r m <= 2147483647)%Z.
Proof.
  intros r m. unfold tlen_calc, i32_max.
  destruct (omin (m_start r) (m_start m)); [|lia].
  destruct (omax (r_alignment_end r) (r_alignment_end m)); [|lia].
  destruct (_ <=? 2147483647) eqn:E; lia.
Qed.

Lemma omin_comm : forall a b, omin a b = omin b a.
Proof. intros [a|] [b|]; cbn; try reflexivity. now rewrite N.min_comm. Qed.
Lemma omax_comm : forall a b, omax a b = omax b a.
Proof. intros [a|] [b|]; cbn; try reflexivity. now rewrite N.max_comm. Qed.

Lemma tlen_calc_sym : forall r m, tlen_calc r m = tlen_calc m r.
Proof.
  intros r m. unfold tlen_calc.
  now rewrite (omin_comm (m_start r)), (omax_comm (r_alignment_end r)).
Qed.

(* the saturation of /repo 8fd0898: a template longer than i32::MAX reads back as i32::MAX *)
Lemma tlen_calc_saturates : forall r m s e,
  omin (m_start r) (m_start m) = Some s ->
  omax (r_alignment_end r) (r_alignment_end m) = Some e ->
  s <= e -> i32_max < e - s + 1 -> tlen_calc r m = 2147483647%Z.
Proof.
  intros r m s e Hs He Hle Hbig. unfold tlen_calc. rewrite Hs, He.
  unfold i32_max in *.
  destruct (e <? s) eqn:E1; [lia|].
  destruct (e - s + 1 <=? 2147483647) eqn:E2; [lia|]. reflexivity.
Qed.

(* ---------------------------------------------------------------- upd / nth *)
Lemma nth_upd_other : forall A (l : list A) j f x d, x <> j -> nth x (upd l j f) d = nth x l d.
Proof.
  intros A l. induction l as [|a l IH]; intros j f x d Hne; [now destruct j|].
  destruct j as [|j]; destruct x as [|x]; cbn; try reflexivity; try lia.
  apply IH. lia.
Qed.

Lemma nth_upd_same : forall A (l : list A) j f d, (j < length l)%nat ->
  nth j (upd l j f) d = f (nth j l d).
Proof.
  intros A l. induction l as [|a l IH]; intros j f d Hlt; cbn in Hlt; [lia|].
  destruct j as [|j]; cbn; [reflexivity|]. apply IH. lia.
Qed.

Lemma length_upd : forall A (l : list A) j f, length (upd l j f) = length l.
Proof.
  intros A l. induction l as [|a l IH]; intros j f; [now destruct j|].
  destruct j; cbn; [reflexivity|]. now rewrite IH.
Qed.

Lemma rget_upd_other : forall rs j f x, x <> j -> rget (upd rs j f) x = rget rs x.
Proof. intros. unfold rget. now apply nth_upd_other. Qed.
Lemma mi_upd_other : forall mi j f x, x <> j -> mi_get (upd mi j f) x = mi_get mi x.
Proof. intros. unfold mi_get. now apply nth_upd_other. Qed.

(* ---------------------------------------------------------------- frame: what the reader touches *)
(* mi' is mi with some entries cleared *)
Definition sub_mi (mi' mi : list (option nat)) : Prop :=
  forall x, mi_get mi' x = None \/ mi_get mi' x = mi_get mi x.

Lemma sub_mi_refl : forall mi, sub_mi mi mi.
Proof. intros mi x. now right. Qed.

Lemma sub_mi_trans : forall a b c, sub_mi a b -> sub_mi b c -> sub_mi a c.
Proof.
  intros a b c Hab Hbc x. destruct (Hab x) as [H|H]; [now left|].
  destruct (Hbc x) as [H'|H']; [left|right]; congruence.
Qed.

Lemma sub_mi_clear : forall mi j, sub_mi (upd mi j (fun _ => None)) mi.
Proof.
  intros mi j x. destruct (Nat.eq_dec x j) as [->|Hne].
  - destruct (Nat.lt_ge_cases j (length mi)) as [Hlt|Hge].
    + left. unfold mi_get. now rewrite nth_upd_same.
    + left. unfold mi_get. apply nth_overflow. now rewrite length_upd.
  - right. now apply mi_upd_other.
Qed.

(* x has no mate distance and is nobody's mate *)
Definition untouched (mi : list (option nat)) (x : nat) : Prop :=
  mi_get mi x = None /\ forall j, mi_get mi j <> Some x.

Lemma walk_set_frame : forall fuel mi rs j x,
  mi_get mi x = None -> rget (fst (walk_set fuel mi rs j)) x = rget rs x.
Proof.
  induction fuel as [|f IH]; intros mi rs j x Hx; cbn [walk_set]; [reflexivity|].
  destruct (mi_get mi j) as [m|] eqn:Hj; [|reflexivity].
  rewrite IH by assumption. apply rget_upd_other. congruence.
Qed.

Lemma walk_set_last : forall fuel mi rs j,
  snd (walk_set fuel mi rs j) = j \/ exists j', mi_get mi j' = Some (snd (walk_set fuel mi rs j)).
Proof.
  induction fuel as [|f IH]; intros mi rs j; cbn [walk_set]; [now left|].
  destruct (mi_get mi j) as [m|] eqn:Hj; [|now left].
  destruct (IH mi (upd rs j (fun r => set_mate r (rget rs m))) m) as [H|H].
  - right. exists j. now rewrite H.
  - now right.
Qed.

Lemma walk_tlen_frame : forall fuel t mi rs j x,
  (forall j', mi_get mi j' <> Some x) ->
  rget (fst (walk_tlen fuel t mi rs j)) x = rget rs x /\ sub_mi (snd (walk_tlen fuel t mi rs j)) mi.
Proof.
  induction fuel as [|f IH]; intros t mi rs j x Hx; cbn [walk_tlen].
  - split; [reflexivity|apply sub_mi_refl].
  - destruct (mi_get mi j) as [m|] eqn:Hj; [|split; [reflexivity|apply sub_mi_refl]].
    assert (Hsub : sub_mi (upd mi j (fun _ => None)) mi) by apply sub_mi_clear.
    destruct (IH t (upd mi j (fun _ => None)) (upd rs m (set_tlen (- t))) m x) as [H1 H2].
    + intros j' Hc. destruct (Hsub j') as [H|H]; [congruence|]. rewrite H in Hc. now apply (Hx j').
    + split.
      * rewrite H1. apply rget_upd_other. intro; subst. now apply (Hx j).
      * eapply sub_mi_trans; eassumption.
Qed.

Lemma resolve_step_frame : forall mi0 rs mi i x,
  sub_mi mi mi0 -> untouched mi0 x ->
  rget (fst (resolve_step (rs, mi) i)) x = rget rs x /\ sub_mi (snd (resolve_step (rs, mi) i)) mi0.
Proof.
  intros mi0 rs mi i x Hsub [Hx1 Hx2]. unfold resolve_step.
  assert (Hx1' : mi_get mi x = None) by (destruct (Hsub x); congruence).
  assert (Hx2' : forall j, mi_get mi j <> Some x).
  { intros j Hc. destruct (Hsub j) as [H|H]; [congruence|]. rewrite H in Hc. now apply (Hx2 j). }
  destruct (mi_get mi i) as [m|] eqn:Hi; [|now split].
  destruct (walk_set (length rs) mi rs i) as [rs1 j] eqn:Hw.
  pose proof (walk_set_frame (length rs) mi rs i x Hx1') as Hf. rewrite Hw in Hf. cbn in Hf.
  pose proof (walk_set_last (length rs) mi rs i) as Hl. rewrite Hw in Hl. cbn in Hl.
  assert (Hxi : x <> i) by congruence.
  assert (Hxj : x <> j).
  { destruct Hl as [->|[j' Hj']]; [assumption|]. intro; subst. now apply (Hx2' j'). }
  match goal with |- context [walk_tlen ?f ?t ?a ?b ?c] =>
    destruct (walk_tlen_frame f t a b c x Hx2') as [H1 H2] end.
  split.
  - rewrite H1. rewrite rget_upd_other by assumption. rewrite rget_upd_other by assumption. exact Hf.
  - eapply sub_mi_trans; eassumption.
Qed.

Lemma resolve_fold_frame : forall mi0 x is rs mi,
  sub_mi mi mi0 -> untouched mi0 x ->
  rget (fst (fold_left resolve_step is (rs, mi))) x = rget rs x.
Proof.
  intros mi0 x. induction is as [|i is IH]; intros rs mi Hsub Hx; cbn [fold_left]; [reflexivity|].
  destruct (resolve_step_frame mi0 rs mi i x Hsub Hx) as [H1 H2].
  destruct (resolve_step (rs, mi) i) as [rs' mi'] eqn:E. cbn in H1, H2.
  rewrite IH by assumption. exact H1.
Qed.

(* ---------------------------------------------------------------- mate_indices *)
Lemma mate_indices_get : forall n rs i mi x,
  mate_indices_from n i rs = Some mi ->
  mi_get mi x = match m_dist (rget rs x) with
                | Some d => if (x <? length rs)%nat then Some (i + x + N.to_nat d + 1)%nat else None
                | None => None
                end.
Proof.
  intros n rs. induction rs as [|r tl IH]; intros i mi x H; cbn [mate_indices_from] in H.
  - inversion H; subst. unfold mi_get, rget. destruct x; cbn; reflexivity.
  - destruct (mate_indices_from n (S i) tl) as [rest|] eqn:E; [|discriminate].
    specialize (IH (S i) rest).
    destruct x as [|x].
    + unfold rget; cbn [nth]. destruct (m_dist r) as [d|].
      * destruct (_ <? n)%nat; [|discriminate]. inversion H; subst. unfold mi_get; cbn.
        f_equal. lia.
      * inversion H; subst. reflexivity.
    + assert (Hm : mi_get mi (S x) = mi_get rest x).
      { destruct (m_dist r); [destruct (_ <? n)%nat; [|discriminate]|]; inversion H; subst; reflexivity. }
      rewrite Hm, (IH x E). unfold rget; cbn [nth length].
      destruct (m_dist (nth x tl dflt_mrec)); [|reflexivity].
      replace (S x <? S (length tl))%nat with (x <? length tl)%nat
        by (destruct (Nat.ltb_spec x (length tl)); destruct (Nat.ltb_spec (S x) (S (length tl))); lia).
      destruct (x <? length tl)%nat; [f_equal; lia|reflexivity].
Qed.

(* ---------------------------------------------------------------- store *)
Lemma store_all_nth : forall rs st x,
  store_all rs = Some st -> (x < length rs)%nat -> store (rget rs x) = Some (rget st x).
Proof.
  induction rs as [|r tl IH]; intros st x H Hlt; cbn in Hlt; [lia|].
  cbn [store_all] in H. destruct (store r) as [r'|] eqn:Er; [|discriminate].
  destruct (store_all tl) as [tl'|] eqn:Et; [|discriminate]. inversion H; subst.
  destruct x as [|x]; unfold rget; cbn [nth]; [assumption|]. apply IH; [reflexivity|lia].
Qed.

Lemma store_all_length : forall rs st, store_all rs = Some st -> length st = length rs.
Proof.
  induction rs as [|r tl IH]; intros st H; cbn [store_all] in H.
  - inversion H; reflexivity.
  - destruct (store r); [|discriminate]. destruct (store_all tl) eqn:E; [|discriminate].
    inversion H; subst. cbn. f_equal. now apply IH.
Qed.

Lemma store_detached : forall r r', m_detached r = true -> store r = Some r' -> r' = r.
Proof.
  intros r r' Hd H. unfold store in H. rewrite Hd in H.
  destruct (_ && _); congruence.
Qed.

Lemma store_attached_dist : forall r r', m_detached r = false -> store r = Some r' ->
  m_dist r' = (if m_down r then m_dist r else None) /\ m_detached r' = false.
Proof.
  intros r r' Hd H. unfold store in H. rewrite Hd in H.
  destruct (oN_i32 (m_dist r)); [|discriminate]. inversion H; subst. cbn. now split.
Qed.

(* ---------------------------------------------------------------- writer invariants *)
(* a record as Record::try_from_alignment_record makes it *)
Definition fresh (r : mrec) : Prop := m_detached r = false /\ m_down r = false /\ m_dist r = None.

(* what set_mates establishes: a detached record has no mate distance; the record a mate distance
   points at exists and is attached; a distance comes with MATE_IS_DOWNSTREAM *)
Definition linked_wf (out : list mrec) : Prop :=
  forall x, (x < length out)%nat ->
    (m_detached (rget out x) = true -> m_dist (rget out x) = None) /\
    (forall d, m_dist (rget out x) = Some d ->
       m_down (rget out x) = true /\ m_detached (rget out x) = false /\
       (x + N.to_nat d + 1 < length out)%nat /\
       m_detached (rget out (x + N.to_nat d + 1)) = false).

Lemma nm_get_bound : forall (m : nmap) (lo hi : nat),
  (forall k v, In (k, v) m -> lo <= v < hi)%nat ->
  forall k v, nm_get k m = Some v -> (lo <= v < hi)%nat.
Proof.
  induction m as [|[k' v'] m IH]; intros lo hi Hb k v H; cbn [nm_get] in H; [discriminate|].
  destruct (oname_eqb k k').
  - inversion H; subst. apply (Hb k' v). now left.
  - eapply IH; [|eassumption]. intros k0 v0 Hin. apply (Hb k0 v0). now right.
Qed.

Lemma set_mates_from_wf : forall rep rs i out m,
  Forall fresh rs -> set_mates_from rep i rs = (out, m) ->
  length out = length rs /\
  (forall k v, In (k, v) m -> i <= v < i + length rs)%nat /\
  linked_wf out.
Proof.
  intros rep. induction rs as [|r tl IH]; intros i out m Hf H; cbn [set_mates_from] in H.
  - inversion H; subst. split; [reflexivity|]. split; [intros k v []|]. intros x Hx. cbn in Hx. lia.
  - inversion Hf as [|? ? Hr Htl]; subst.
    destruct (set_mates_from rep (S i) tl) as [tl' m'] eqn:E.
    destruct (IH (S i) tl' m' Htl E) as (Hlen & Hmap & Hwf).
    destruct Hr as (Hr1 & Hr2 & Hr3).
    (* the three ways the head ends up detached share one argument *)
    assert (Hdet : forall m2 : nmap, (forall k v, In (k, v) m2 -> i <= v < i + length (r :: tl))%nat ->
              length (set_detached r :: tl') = length (r :: tl) /\
              (forall k v, In (k, v) m2 -> i <= v < i + length (r :: tl))%nat /\
              linked_wf (set_detached r :: tl')).
    { intros m2 Hm2. split; [cbn; now rewrite Hlen|]. split; [assumption|].
      intros x Hx. destruct x as [|x].
      - unfold rget; cbn [nth set_detached m_dist m_detached]. rewrite Hr3. split; [reflexivity|discriminate].
      - cbn [length] in Hx. destruct (Hwf x ltac:(lia)) as [W1 W2].
        unfold rget in *; cbn [nth]. split; [assumption|]. intros d Hd.
        destruct (W2 d Hd) as (A & B & C & D). repeat split; try assumption. cbn [length]; lia. }
    assert (Hm_tl : forall k v, In (k, v) m' -> (i <= v < i + length (r :: tl))%nat).
    { intros k v Hin. specialize (Hmap k v Hin). cbn [length]. lia. }
    assert (Hm_cons : forall k v, In (k, v) ((m_name r, i) :: m') -> (i <= v < i + length (r :: tl))%nat).
    { intros k v [Heq|Hin]; [inversion Heq; subst; cbn [length]; lia|now apply (Hm_tl k v)]. }
    destruct (eligible r).
    + destruct (nm_get (m_name r) m') as [j|] eqn:Ej.
      * pose proof (nm_get_bound m' (S i) (S i + length tl) Hmap _ _ Ej) as Hj.
        destruct (link_ok rep r (nth (j - S i) tl' dflt_mrec)).
        -- inversion H; subst. split; [cbn; now rewrite length_upd, Hlen|]. split; [assumption|].
           intros x Hx. destruct x as [|x].
           ++ unfold rget; cbn [nth set_downstream m_dist m_detached m_down]. rewrite Hr1.
              split; [discriminate|]. intros d Hd. inversion Hd; subst.
              rewrite Nnat.Nat2N.id.
              replace (0 + (j - i - 1) + 1)%nat with (S (j - S i)) by lia. cbn [nth length].
              rewrite length_upd. repeat split; try reflexivity; [lia|].
              rewrite nth_upd_same by lia. reflexivity.
           ++ cbn [length] in Hx. rewrite length_upd in Hx.
              destruct (Hwf x ltac:(lia)) as [W1 W2].
              unfold rget in *; cbn [nth].
              destruct (Nat.eq_dec x (j - S i)) as [->|Hne].
              ** rewrite nth_upd_same by lia. cbn [clear_detached m_detached m_dist m_down].
                 split; [discriminate|]. intros d Hd. destruct (W2 d Hd) as (A & B & C & D).
                 repeat split; try assumption; try reflexivity; [cbn [length]; rewrite length_upd; lia|].
                 replace (S (j - S i) + N.to_nat d + 1)%nat with (S (j - S i + N.to_nat d + 1)) by lia.
                 cbn [nth]. rewrite nth_upd_other by lia. exact D.
              ** rewrite nth_upd_other by assumption. split; [assumption|]. intros d Hd.
                 destruct (W2 d Hd) as (A & B & C & D).
                 repeat split; try assumption; [cbn [length]; rewrite length_upd; lia|].
                 replace (S x + N.to_nat d + 1)%nat with (S (x + N.to_nat d + 1)) by lia. cbn [nth].
                 destruct (Nat.eq_dec (x + N.to_nat d + 1) (j - S i)) as [->|Hne2].
                 --- rewrite nth_upd_same by lia. reflexivity.
                 --- rewrite nth_upd_other by assumption. exact D.
        -- inversion H; subst. now apply Hdet.
      * inversion H; subst. now apply Hdet.
    + inversion H; subst. now apply Hdet.
Qed.

(* ---------------------------------------------------------------- theorem: detached records *)
Lemma set_mates_gen_wf : forall rep rs, Forall fresh rs ->
  length (set_mates_gen rep rs) = length rs /\ linked_wf (set_mates_gen rep rs).
Proof.
  intros rep rs Hf. unfold set_mates_gen.
  destruct (set_mates_from rep 0 rs) as [out m] eqn:E.
  destruct (set_mates_from_wf rep rs 0 out m Hf E) as (A & _ & C). now split.
Qed.

(* the reader's mate index table on what the writer stored *)
Lemma stored_mi : forall rep rs st mi x, Forall fresh rs ->
  store_all (set_mates_gen rep rs) = Some st ->
  mate_indices_from (length st) 0 st = Some mi ->
  mi_get mi x = match m_dist (rget (set_mates_gen rep rs) x) with
                | Some d => if (x <? length rs)%nat then Some (x + N.to_nat d + 1)%nat else None
                | None => None
                end.
Proof.
  intros rep rs st mi x Hf Hst Hmi.
  destruct (set_mates_gen_wf rep rs Hf) as [Hlen Hwf].
  rewrite (mate_indices_get _ _ _ _ x Hmi). rewrite (store_all_length _ _ Hst), Hlen.
  destruct (Nat.ltb_spec x (length rs)) as [Hlt|Hge].
  - pose proof (store_all_nth _ st x Hst ltac:(lia)) as Hs.
    destruct (Hwf x ltac:(lia)) as [W1 W2].
    destruct (m_detached (rget (set_mates_gen rep rs) x)) eqn:Hd.
    + rewrite (store_detached _ _ Hd Hs). now destruct (m_dist _).
    + destruct (store_attached_dist _ _ Hd Hs) as [Hdist _]. rewrite Hdist.
      destruct (m_dist (rget (set_mates_gen rep rs) x)) as [d|] eqn:Ed.
      * destruct (W2 d eq_refl) as (A & _). rewrite A. reflexivity.
      * now destruct (m_down _).
  - unfold rget. rewrite nth_overflow by (rewrite (store_all_length _ _ Hst), Hlen; lia).
    rewrite (nth_overflow (set_mates_gen rep rs)) by lia. reflexivity.
Qed.

(* In every slice, whatever else it holds and for both writers, a record that set_mates leaves
   detached is read back exactly as it was stored, in particular with its FLAG / RNEXT / PNEXT /
   TLEN unchanged. *)
Theorem detached_record_preserved : forall rep rs out x,
  Forall fresh rs ->
  slice_roundtrip_gen rep rs = MOk out ->
  (x < length rs)%nat ->
  m_detached (rget (set_mates_gen rep rs) x) = true ->
  rget out x = rget (set_mates_gen rep rs) x /\
  mate_view (rget out x) = mate_view (rget rs x).
Proof.
  intros rep rs out x Hf Hrt Hx Hd. unfold slice_roundtrip_gen in Hrt.
  destruct (store_all (set_mates_gen rep rs)) as [st|] eqn:Hst; [|discriminate].
  unfold resolve_mates in Hrt.
  destruct (mate_indices_from (length st) 0 st) as [mi|] eqn:Hmi; [|discriminate].
  inversion Hrt as [Hout]; clear Hrt.
  destruct (set_mates_gen_wf rep rs Hf) as [Hlen Hwf].
  assert (Hun : untouched mi x).
  { split.
    - rewrite (stored_mi rep rs st mi x Hf Hst Hmi).
      destruct (Hwf x ltac:(lia)) as [W1 _]. now rewrite (W1 Hd).
    - intros j Hj. rewrite (stored_mi rep rs st mi j Hf Hst Hmi) in Hj.
      destruct (m_dist (rget (set_mates_gen rep rs) j)) as [d|] eqn:Ed; [|discriminate].
      destruct (Nat.ltb_spec j (length rs)) as [Hlt|]; [|discriminate].
      inversion Hj; subst x.
      destruct (Hwf j ltac:(lia)) as [_ W2]. destruct (W2 d Ed) as (_ & _ & _ & D). congruence. }
  rewrite (resolve_fold_frame mi x _ st mi (sub_mi_refl mi) Hun).
  pose proof (store_all_nth _ st x Hst ltac:(lia)) as Hs.
  rewrite (store_detached _ _ Hd Hs). split; [reflexivity|].
  (* set_mates changes cram flags and the mate distance only *)
  admit.
Admitted.
