(* C07 — the FILE level: records -> slices (records_per_slice) -> containers -> file -> records.

   Writer : noodles-cram/src/io/writer.rs write_alignment_record (Record::try_from_alignment_record
            = [Mates.convert]), flush / write_container: the buffered records are cut by
            records.chunks_mut(records_per_slice) (io/writer/container.rs build_container; one slice
            per container, DEFAULT_SLICES_PER_CONTAINER = 1 - so a file is the list of its slices),
            each chunk goes through set_mates ([Mates.set_mates_w]) and write_records
            (write_mate = [Mates.store_w]).
   Reader : io/reader/container/slice.rs Slice::records: read_records (read_mate) then
            resolve_mates, slice after slice; the records of the file are the concatenation.

   A slice is held here as the list of its records as the reader holds them before resolve_mates
   ([store_all_w]); the serialisation of that list into the core / external blocks is a parameter
   ([ser] / [de] of the *_gen functions; the five mate series are concrete in MatesBytes, ITF8 in
   NV.Cram.Itf8, block sizes / container bookkeeping in Container, the slice and container header
   fields in SliceHeader).

   [mate_indices_bin] is mate_indices of resolve_mates with the bound test made on binary numbers
   BEFORE the distance is turned into a unary nat (the Rust: checked_add, checked_add,
   `mate_index < records.len()`), so that the extracted reader can be fed NF = 2^31 - 1; it is
   proved equal to [Mates.mate_indices_from] in FileProofs.

   [relink] is read_mate on ARBITRARY CRAM flag bits and NF values (the hostile side of the reader:
   the kind `mdist` patches the CF / NF series of a written file).  Definitions only. *)
From Coq Require Import List NArith ZArith Bool.
From NV Require Import CramRec.Features CramRec.Mates CramRec.SliceHeader.
Import ListNotations.
Open Scope N_scope.

(* ---------------------------------------------------------------- reader: mate_indices, binary *)
Fixpoint mate_indices_bin (n i : nat) (rs : list mrec) : option (list (option nat)) :=
  match rs with
  | [] => Some []
  | r :: tl =>
      match mate_indices_bin n (S i) tl with
      | None => None
      | Some rest =>
          match m_dist r with
          | None => Some (None :: rest)
          | Some d =>
              if (N.of_nat i + d + 1 <? N.of_nat n)%N
              then Some (Some (i + N.to_nat d + 1)%nat :: rest) else None
          end
      end
  end.

Definition resolve_mates_bin (rs : list mrec) : option (list mrec) :=
  match mate_indices_bin (length rs) 0 rs with
  | None => None
  | Some mi => Some (fst (fold_left resolve_step (seq 0 (length rs)) (rs, mi)))
  end.

(* ---------------------------------------------------------------- reader: hostile CF / NF *)
(* read_mate_distance: the ITF8 value is an i32, given here as its u32 bit pattern;
   usize::try_from(n) of a negative number = Err(InvalidData) *)
Definition read_nf (u : N) : option N := if u <? 2147483648 then Some u else None.

(* read_mate of a record whose MF / NS / NP / TS values are 0 / -1 / 0 / 0, for the CRAM flag bits
   DETACHED (2) and MATE_IS_DOWNSTREAM (4) of [cf] and the NF value [nf] (consumed only by an
   attached record with a downstream mate); the features of a record flagged unmapped are not in
   the file.  None = Err(InvalidData) *)
Definition relink (r : mrec) (l : N * N) : option mrec :=
  let det := N.testbit (fst l) 1 in
  let down := N.testbit (fst l) 2 in
  let fs := if is_unmapped (m_flags r) then [] else m_feats r in
  let mk d := mk_mrec (m_flags r) (m_name r) (m_ref r) (m_start r) (m_rl r) fs
                      None None 0%Z det down d in
  if det then Some (mk None)
  else if down then
    match read_nf (snd l) with
    | Some d => Some (mk (Some d))
    | None => None
    end
  else Some (mk None).

Fixpoint relink_all (rs : list mrec) (ls : list (N * N)) : option (list mrec) :=
  match rs, ls with
  | r :: tl, l :: ltl =>
      match relink r l, relink_all tl ltl with
      | Some r', Some tl' => Some (r' :: tl')
      | _, _ => None
      end
  | _, _ => Some []
  end.

(* one slice of SAM records (written with no mate fields), its CF bits / NF values replaced by
   [links], through the reader *)
Definition mdist_rt (refs : list (list N)) (ss : list samrec) (links : list (N * N)) : mres :=
  match convert_all refs ss with
  | None => MWriteErr
  | Some rs =>
      match relink_all rs links with
      | None => MReadErr
      | Some st =>
          match resolve_mates_bin st with
          | None => MReadErr
          | Some out => MOk out
          end
      end
  end.

(* ---------------------------------------------------------------- the file *)
Section Gen.
  Variable B : Type.                               (* a serialised slice *)
  Variable ser : list mrec -> B.                   (* write_records + block encoding *)
  Variable de : B -> option (list mrec).           (* block decoding + read_records *)

  (* build_slice of one chunk; None = Err(InvalidInput) *)
  Definition slice_write_gen (ch : list mrec) : option B :=
    match store_all_w (set_mates_w ch) with
    | Some st => Some (ser st)
    | None => None
    end.

  Fixpoint slices_write_gen (chs : list (list mrec)) : option (list B) :=
    match chs with
    | [] => Some []
    | ch :: tl =>
        match slice_write_gen ch, slices_write_gen tl with
        | Some s, Some f => Some (s :: f)
        | _, _ => None
        end
    end.

  (* the writer: every record converted, the records cut into slices of records_per_slice *)
  Definition file_write_gen (refs : list (list N)) (rps : nat) (ss : list samrec) : option (list B) :=
    match convert_all refs ss with
    | None => None
    | Some rs => slices_write_gen (chunks rps rs)
    end.

  (* the reader: slice after slice; None = Err(InvalidData) *)
  Fixpoint file_read_gen (f : list B) : option (list mrec) :=
    match f with
    | [] => Some []
    | s :: tl =>
        match de s with
        | None => None
        | Some st =>
            match resolve_mates_bin st, file_read_gen tl with
            | Some a, Some b => Some (a ++ b)
            | _, _ => None
            end
        end
    end.

  Definition file_rt_gen (refs : list (list N)) (rps : nat) (ss : list samrec) : mres :=
    match file_write_gen refs rps ss with
    | None => MWriteErr
    | Some f => match file_read_gen f with None => MReadErr | Some out => MOk out end
    end.
End Gen.

(* the executable instance: a slice is its stored records *)
Definition file_write := file_write_gen (list mrec) (fun st => st).
Definition file_read := file_read_gen (list mrec) (fun st => Some st).
Definition file_rt := file_rt_gen (list mrec) (fun st => st) (fun st => Some st).

(* the number of records of every slice of the file (slice header field, container header) *)
Definition file_layout (refs : list (list N)) (rps : nat) (ss : list samrec) : option (list nat) :=
  match file_write refs rps ss with
  | None => None
  | Some f => Some (map (@length mrec) f)
  end.

(* ---------------------------------------------------------------- what a record renders as *)
(* the columns that do not come from the mate layer *)
Definition stat_view (r : mrec) :=
  (m_name r, m_ref r, m_start r, m_rl r, m_feats r).

(* write_records drops the features of a record flagged unmapped (write_unmapped_read) *)
Definition drop_unmapped_feats (r : mrec) : mrec :=
  if is_unmapped (m_flags r) then with_feats [] r else r.

(* record.rs cigar() / sequence() of a record that is not flagged unmapped and is placed on a
   reference of [refs]: CIGAR from the features and the read length, bases from the features and
   the reference (record/cigar/iter.rs, record/sequence/iter.rs) *)
Definition rec_cigar (r : mrec) : list op :=
  if is_unmapped (m_flags r) then [] else simplify (rebuild_cigar (m_feats r) 1 (m_rl r)).

Definition rec_bases (refs : list (list N)) (r : mrec) : option (list N) :=
  if is_unmapped (m_flags r) then None
  else
    match m_ref r, m_start r with
    | Some id, Some st =>
        match nth_error refs (N.to_nat id) with
        | Some rf => rebuild_seq rf default_sm (m_feats r) st 1 (m_rl r)
        | None => None
        end
    | _, _ => None
    end.
