(* C07 — the ITF8 width function of Block::size (io/writer/container/block.rs itf8_size_of) against
   the writer of the integer (io/writer/num/itf8.rs write_itf8, model NV.Cram.Itf8): for every i32
   the counted width is the number of bytes written.  (A writer that counts a size field one byte
   short declares container lengths and landmarks that are too small.) *)
From Coq Require Import List NArith ZArith Bool Lia.
From Coq Require Import ZifyBool ZifyNat ZifyN.
From NV Require Import Cram.Bytes Cram.Itf8 Cram.IntProofs CramRec.Container CramRec.ContainerProofs.
Import ListNotations.
Open Scope N_scope.

(* the two models of write_itf8 agree on every u32 *)
Lemma itf8_bytes_is_enc : forall u, u < 4294967296 -> Container.itf8_bytes u = Itf8.itf8_enc u.
Proof.
  intros u Hu. unfold Container.itf8_bytes, Itf8.itf8_enc. cbn [be_bytes].
  change (256 ^ N.of_nat 0) with 1. change (256 ^ N.of_nat 1) with 256.
  change (256 ^ N.of_nat 2) with 65536. rewrite !N.div_1_r.
  destruct (u <? 128); [reflexivity|].
  destruct (u <? 16384); [reflexivity|].
  destruct (u <? 2097152); [reflexivity|].
  destruct (u <? 268435456); reflexivity.
Qed.

Theorem itf8_size_of_is_written_length : forall n : Z,
  N.of_nat (length (Itf8.write_itf8 n)) = Container.itf8_size_of (Itf8.u32_of_i32 n).
Proof.
  intros n. rewrite itf8_length. unfold itf8_size, Container.itf8_size_of.
  destruct (u32_of_i32 n <? 128); [reflexivity|].
  destruct (u32_of_i32 n <? 16384); [reflexivity|].
  destruct (u32_of_i32 n <? 2097152); [reflexivity|].
  destruct (u32_of_i32 n <? 268435456); reflexivity.
Qed.

(* in particular at the width boundaries *)
Lemma itf8_width_boundaries :
  map (fun n => length (Itf8.write_itf8 n)) [127; 128; 16383; 16384; 32767; 2097151; 2097152; 268435455; 268435456; -1]%Z
  = [1; 2; 2; 3; 3; 3; 4; 4; 5; 5]%nat.
Proof. vm_compute. reflexivity. Qed.
