(* C07 — proofs about the container bookkeeping model (Container.v). *)
From Coq Require Import List NArith ZArith Bool Lia ZifyBool ZifyNat ZifyN.
From NV Require Import CramRec.Container.
Import ListNotations.
Open Scope N_scope.

Arguments N.add : simpl never.
Arguments N.sub : simpl never.
Arguments N.mul : simpl never.
Arguments N.div : simpl never.
Arguments N.modulo : simpl never.
Arguments N.of_nat : simpl never.
Arguments N.to_nat : simpl never.
Arguments N.ltb : simpl never.
Arguments N.leb : simpl never.
Arguments N.eqb : simpl never.

(* ------------------------------------------------------------------------------------------ *)
(* 1. the declared block size is the serialised length                                         *)

Lemma itf8_bytes_length : forall u, N.of_nat (length (itf8_bytes u)) = itf8_size_of u.
Proof.
  intros u. unfold itf8_bytes, itf8_size_of.
  destruct (u <? 128); [reflexivity|].
  destruct (u <? 16384); [reflexivity|].
  destruct (u <? 2097152); [reflexivity|].
  destruct (u <? 268435456); reflexivity.
Qed.

Theorem write_block_length : forall crc b sz,
  block_size b = Some sz -> N.of_nat (length (write_block crc b)) = sz.
Proof.
  intros crc b sz Hsz. unfold block_size in Hsz.
  destruct ((blen b <=? i32_max) && (b_raw b <=? i32_max)); [|discriminate].
  injection Hsz as <-.
  unfold write_block, block_prefix, le32.
  rewrite !app_length. cbn [length].
  pose proof (itf8_bytes_length (b_id b)) as Hid.
  pose proof (itf8_bytes_length (blen b)) as Hlen.
  pose proof (itf8_bytes_length (b_raw b)) as Hraw.
  assert (Hb : blen b = N.of_nat (length (b_data b))) by reflexivity.
  lia.
Qed.

(* ------------------------------------------------------------------------------------------ *)
(* helper lemmas on opt_add / sum_sizes / prefix_size                                          *)

Lemma opt_add_assoc : forall a b c, opt_add a (opt_add b c) = opt_add (opt_add a b) c.
Proof.
  intros [a|] [b|] [c|]; cbn [opt_add]; try reflexivity. f_equal. lia.
Qed.

Lemma opt_add_0_l : forall a, opt_add (Some 0) a = a.
Proof. intros [a|]; cbn [opt_add]; [f_equal; lia | reflexivity]. Qed.

Lemma prefix_size_0 : forall bs, prefix_size bs 0 = Some 0.
Proof. intros [|b bs]; reflexivity. Qed.

Lemma sum_sizes_app : forall l1 l2,
  sum_sizes (l1 ++ l2) = opt_add (sum_sizes l1) (sum_sizes l2).
Proof.
  induction l1 as [|b l1 IH]; intros l2; cbn [app sum_sizes].
  - symmetry. apply opt_add_0_l.
  - rewrite IH. apply opt_add_assoc.
Qed.

Lemma prefix_size_app : forall l1 l2 k,
  prefix_size (l1 ++ l2) (length l1 + k) = opt_add (sum_sizes l1) (prefix_size l2 k).
Proof.
  induction l1 as [|b l1 IH]; intros l2 k; cbn [app length Nat.add sum_sizes].
  - symmetry. apply opt_add_0_l.
  - cbn [prefix_size]. rewrite IH. apply opt_add_assoc.
Qed.

Lemma sum_sizes_bytes : forall crc bs t,
  sum_sizes bs = Some t -> N.of_nat (length (flat_map (write_block crc) bs)) = t.
Proof.
  intros crc. induction bs as [|b bs IH]; intros t Ht; cbn [sum_sizes flat_map length] in *.
  - injection Ht as <-. reflexivity.
  - destruct (block_size b) as [sz|] eqn:Hb; [|discriminate].
    destruct (sum_sizes bs) as [r|] eqn:Hr; [|discriminate].
    cbn [opt_add] in Ht. injection Ht as <-.
    rewrite app_length.
    pose proof (write_block_length crc b sz Hb) as H1.
    pose proof (IH r eq_refl) as H2.
    lia.
Qed.

(* index of slice i's header block in [flat_map slice_blocks slices] *)
Fixpoint hidx (slices : list slice) (i : nat) {struct i} : nat :=
  match i, slices with
  | O, _ => 0
  | S i', s :: r => length (slice_blocks s) + hidx r i'
  | S _, [] => 0
  end%nat.

Lemma header_index_hidx : forall slices i, header_index slices i = S (hidx slices i).
Proof.
  induction slices as [|s r IH]; intros [|i]; cbn [header_index hidx]; try reflexivity.
  rewrite IH. lia.
Qed.

Lemma hidx_nth_error : forall slices i d, (i < length slices)%nat ->
  nth_error (flat_map slice_blocks slices) (hidx slices i) = Some (s_header (nth i slices d)).
Proof.
  induction slices as [|s r IH]; intros [|i] d Hi; cbn [length] in Hi; try lia.
  - reflexivity.
  - cbn [flat_map hidx nth].
    rewrite nth_error_app2 by lia.
    replace (length (slice_blocks s) + hidx r i - length (slice_blocks s))%nat
      with (hidx r i) by lia.
    apply IH. lia.
Qed.

Lemma flat_blocks_length : forall slices,
  length (flat_map slice_blocks slices)
  = fold_right (fun s a => 2 + length (s_ext s) + a)%nat 0%nat slices.
Proof.
  induction slices as [|s r IH]; cbn [flat_map fold_right]; [reflexivity|].
  rewrite app_length, IH. unfold slice_blocks. cbn [length]. lia.
Qed.

Lemma bc_loop_spec : forall slices c lms cs l,
  slices <> [] -> bc_loop slices c lms = Some (cs, l) ->
  exists t extra,
    sum_sizes (flat_map slice_blocks slices) = Some t /\ cs = c + t /\
    l = lms ++ extra /\ S (length extra) = length slices /\
    forall i, (i < length extra)%nat ->
      exists p, prefix_size (flat_map slice_blocks slices) (hidx slices (S i)) = Some p /\
                nth i extra 0 = c + p.
Proof.
  induction slices as [|s rest IH]; intros c lms cs l Hne Hbc; [congruence|].
  cbn [bc_loop] in Hbc.
  destruct (sum_sizes (slice_blocks s)) as [ssz|] eqn:Hs; [|discriminate].
  cbn [flat_map]. rewrite sum_sizes_app, Hs.
  destruct rest as [|s' r'].
  - injection Hbc as <- <-. exists ssz, [].
    cbn [flat_map sum_sizes opt_add length].
    split; [f_equal; lia|]. split; [reflexivity|].
    split; [rewrite app_nil_r; reflexivity|]. split; [reflexivity|].
    intros i Hi. lia.
  - cbv iota in Hbc. set (rest := s' :: r') in *.
    apply IH in Hbc; [|discriminate].
    destruct Hbc as (t & extra & Ht & -> & -> & Hlen & Hnth).
    rewrite Ht. exists (ssz + t), ((c + ssz) :: extra). cbn [opt_add].
    split; [reflexivity|]. split; [lia|].
    split; [rewrite <- app_assoc; reflexivity|].
    split; [cbn [length]; lia|].
    intros i Hi. cbn [hidx]. rewrite prefix_size_app, Hs.
    destruct i as [|i].
    + exists (ssz + 0). split.
      * cbn [hidx]. rewrite prefix_size_0. reflexivity.
      * cbn [nth]. lia.
    + cbn [length] in Hi.
      destruct (Hnth i) as (p & Hp & Hn); [lia|].
      exists (ssz + p). rewrite Hp. split; [reflexivity|].
      cbn [nth]. rewrite Hn. lia.
Qed.

(* ------------------------------------------------------------------------------------------ *)
(* 2. container invariants                                                                     *)

Theorem container_invariants :
  forall ch slices rls counter h blocks,
    slices <> [] ->
    build_container ch slices rls counter = Some (h, blocks) ->
    blocks = ch :: flat_map slice_blocks slices /\
    sum_sizes blocks = Some (h_length h) /\
    h_blocks h = N.of_nat (length blocks) /\
    length blocks = (1 + fold_right (fun s a => 2 + length (s_ext s) + a) 0 slices)%nat /\
    length (h_landmarks h) = length slices /\
    (forall i, (i < length slices)%nat ->
        prefix_size blocks (header_index slices i) = Some (nth i (h_landmarks h) 0) /\
        nth_error blocks (header_index slices i)
        = Some (s_header (nth i slices (mkslice ch ch [])))) /\
    block_size ch = Some (nth 0 (h_landmarks h) 0) /\
    h_records h = N.of_nat (length rls) /\ h_counter h = counter /\
    h_bases h = fold_right N.add 0 rls.
Proof.
  intros ch slices rls counter h blocks Hne Hbc.
  unfold build_container in Hbc.
  destruct (block_size ch) as [c0|] eqn:Hc0; [|discriminate].
  destruct (bc_loop slices c0 [c0]) as [[cs lms]|] eqn:Hloop; [|discriminate].
  injection Hbc as <- <-.
  cbn [h_length h_records h_counter h_bases h_blocks h_landmarks].
  destruct (bc_loop_spec slices c0 [c0] cs lms Hne Hloop)
    as (t & extra & Ht & -> & -> & Hlen & Hnth).
  cbn [app].
  split; [reflexivity|].
  split; [cbn [sum_sizes]; rewrite Hc0, Ht; reflexivity|].
  split; [reflexivity|].
  split; [cbn [length]; rewrite flat_blocks_length; reflexivity|].
  split; [cbn [length]; exact Hlen|].
  split.
  { intros i Hi. rewrite header_index_hidx. cbn [prefix_size nth_error]. rewrite Hc0. split.
    - destruct i as [|i].
      + cbn [hidx]. rewrite prefix_size_0. cbn [opt_add nth]. f_equal. lia.
      + destruct (Hnth i) as (p & Hp & Hn); [lia|].
        rewrite Hp. cbn [opt_add nth]. rewrite Hn. reflexivity.
    - apply hidx_nth_error. exact Hi. }
  split; [reflexivity|].
  split; [reflexivity|].
  split; reflexivity.
Qed.

Corollary container_length_is_bytes :
  forall crc ch slices rls counter h blocks,
    slices <> [] ->
    build_container ch slices rls counter = Some (h, blocks) ->
    N.of_nat (length (flat_map (write_block crc) blocks)) = h_length h.
Proof.
  intros crc ch slices rls counter h blocks Hne Hbc.
  destruct (container_invariants ch slices rls counter h blocks Hne Hbc) as (_ & Hsum & _).
  apply sum_sizes_bytes. exact Hsum.
Qed.

(* ------------------------------------------------------------------------------------------ *)
(* 3. record counters and chunking                                                             *)

Theorem chunk_lens_spec : forall fuel rps n, 0 < rps -> (N.to_nat n <= fuel)%nat ->
  fold_right N.add 0 (chunk_lens fuel rps n) = n /\
  Forall (fun l => 0 < l /\ l <= rps) (chunk_lens fuel rps n) /\
  (forall i, (S i < length (chunk_lens fuel rps n))%nat ->
     nth i (chunk_lens fuel rps n) 0 = rps).
Proof.
  induction fuel as [|f IH]; intros rps n Hrps Hfuel; cbn [chunk_lens].
  - cbn [fold_right length]. split; [lia|]. split; [constructor|].
    intros i Hi. lia.
  - destruct (n =? 0) eqn:Hn0.
    + cbn [fold_right length]. split; [lia|]. split; [constructor|].
      intros i Hi. lia.
    + destruct (n <=? rps) eqn:Hle.
      * cbn [fold_right length]. split; [lia|].
        split; [constructor; [lia|constructor]|].
        intros i Hi. lia.
      * destruct (IH rps (n - rps) Hrps) as (Hsum & Hall & Hnth); [lia|].
        cbn [fold_right length]. split; [lia|].
        split; [constructor; [lia|exact Hall]|].
        intros [|i] Hi; cbn [nth]; [reflexivity|].
        apply Hnth. lia.
Qed.

Theorem slice_counters_spec : forall lens c i, (i < length lens)%nat ->
  nth i (slice_counters c lens) 0 = c + fold_right N.add 0 (firstn i lens).
Proof.
  induction lens as [|l r IH]; intros c i Hi; cbn [length] in Hi; [lia|].
  destruct i as [|i]; cbn [slice_counters nth firstn fold_right].
  - lia.
  - rewrite IH by lia. lia.
Qed.

Lemma slice_counters_length : forall lens c, length (slice_counters c lens) = length lens.
Proof.
  induction lens as [|l r IH]; intros c; cbn [slice_counters length]; [reflexivity|].
  rewrite IH. reflexivity.
Qed.

Theorem next_counter_spec : forall c lens,
  next_counter c lens = c + N.of_nat (length lens).
Proof. reflexivity. Qed.

(* ------------------------------------------------------------------------------------------ *)
(* non-vacuity                                                                                 *)

Definition ex_ch : block := mkblock 0 1 0 3 [1; 2; 3].
Definition ex_slice0 : slice :=
  mkslice (mkblock 0 2 0 2 [7; 7]) (mkblock 0 5 0 0 [])
          [mkblock 0 4 1 200 (repeat 0 200%nat); mkblock 1 4 2 300 [9; 9; 9; 9]].
Definition ex_slice1 : slice :=
  mkslice (mkblock 0 2 0 1 [8]) (mkblock 0 5 0 1 [5]) [].

Example build_container_example :
  exists h blocks,
    build_container ex_ch [ex_slice0; ex_slice1] [100; 101; 150] 7 = Some (h, blocks) /\
    length (h_landmarks h) = 2%nat /\
    h_landmarks h = [12; 257] /\ h_length h = 277 /\ h_blocks h = 7 /\
    h_records h = 3 /\ h_counter h = 7 /\ h_bases h = 351.
Proof. eexists. eexists. vm_compute. repeat split. Qed.

Example build_container_overflow :
  build_container (mkblock 0 1 0 2147483648 [1]) [ex_slice0; ex_slice1] [100] 0 = None.
Proof. vm_compute. reflexivity. Qed.

Example build_container_overflow_in_slice :
  build_container ex_ch
    [ex_slice0; mkslice (mkblock 0 2 0 1 [8]) (mkblock 0 5 0 2147483648 [5]) []] [100] 0 = None.
Proof. vm_compute. reflexivity. Qed.
