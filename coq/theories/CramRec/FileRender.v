(* C07 — the file-level round trip down to CIGAR and bases: what the reader renders of a record
   that is not flagged unmapped (record.rs cigar() / sequence() = [File.rec_cigar] / [File.rec_bases])
   is the input CIGAR (=/X as M, adjacent ops merged) and the input bases up to case.
   Composition of FileProofs.file_roundtrip with FeaturesProofs.features_roundtrip. *)
From Coq Require Import List NArith ZArith Bool Lia Arith.
From Coq Require Import ZifyBool ZifyNat ZifyN.
From NV Require Import CramRec.Features CramRec.FeaturesProofs CramRec.Mates CramRec.MatesProofs
  CramRec.MatesWriter CramRec.File CramRec.FileProofs.
Import ListNotations.
Open Scope N_scope.

(* a mapped record the property speaks about: not flagged unmapped, on a reference of the
   repository, with bases and a CIGAR of positive ops that fits the bases and lies inside the
   reference *)
Definition mapped_wf (refs : list (list N)) (s : samrec) (rf : list N) (st : N) : Prop :=
  is_unmapped (s_flags s) = false /\
  (exists id, s_ref s = Some id /\ nth_error refs (N.to_nat id) = Some rf) /\
  s_start s = Some st /\
  s_seq s <> [] /\ s_ops s <> [] /\
  Forall (fun o => 0 < snd o) (s_ops s) /\ read_len (s_ops s) = len (s_seq s) /\
  1 <= st /\ st + ref_len (s_ops s) <= len rf + 1.

Lemma convert_rendering : forall refs s r rf st,
  mapped_wf refs s rf st -> convert refs s = Some r ->
  rec_cigar r = simplify (norm_ops (s_ops s)) /\
  exists b, rec_bases refs r = Some b /\ eq_nocase_list b (s_seq s) = true.
Proof.
  intros refs s r rf st (Hu & (id & Hid & Hrf) & Hst & Hseq & Hops & Hpos & Hrl & H1 & Hin) H.
  unfold convert in H. rewrite Hid, Hst, Hrf, Hu in H. unfold convert_core in H.
  destruct (s_seq s) as [|b0 sq] eqn:Es; [contradiction|].
  destruct (s_ops s) as [|o0 os] eqn:Eo; [contradiction|].
  cbn [is_aligned negb andb] in H.
  set (q := record_quals (len (b0 :: sq)) (s_quals s)) in H.
  destruct (negb (len q =? len (b0 :: sq))); [discriminate|].
  destruct (cigar_to_features true rf (b0 :: sq) q (o0 :: os) st) as [ws|] eqn:Ec; [|discriminate].
  destruct (encode_features default_sm ws) as [fs|] eqn:Ee; [|discriminate].
  inversion H; subst r. clear H.
  destruct (features_roundtrip default_sm rf (b0 :: sq) q (o0 :: os) st ws valid_sm_default
              Hpos Hrl H1 Hin Ec) as (fs' & b & He & Hb & Hq & Hc).
  rewrite Ee in He. inversion He; subst fs'.
  unfold rec_cigar, rec_bases. cbn [m_flags m_feats m_rl m_ref m_start]. rewrite Hu, Hrf.
  split; [exact Hc|]. exists b. split; assumption.
Qed.

Lemma convert_all_nth : forall refs ss rs x s, convert_all refs ss = Some rs ->
  nth_error ss x = Some s -> exists r, nth_error rs x = Some r /\ convert refs s = Some r.
Proof.
  intros refs. induction ss as [|s0 tl IH]; intros rs x s H Hx; cbn [convert_all] in H.
  - destruct x; discriminate.
  - destruct (convert refs s0) as [r0|] eqn:E0; [|discriminate].
    destruct (convert_all refs tl) as [rs'|] eqn:Et; [|discriminate]. inversion H; subst rs.
    destruct x as [|x]; cbn [nth_error] in Hx |- *.
    + inversion Hx; subst s0. exists r0. split; [reflexivity|assumption].
    + apply (IH rs' x s eq_refl Hx).
Qed.

Lemma map_nth_error_eq : forall {A C} (f : A -> C) (l l' : list A) x a,
  map f l = map f l' -> nth_error l' x = Some a -> exists a', nth_error l x = Some a' /\ f a' = f a.
Proof.
  intros A C f. induction l as [|h t IH]; intros l' x a H Hx; destruct l' as [|h' t']; cbn [map] in H;
    try discriminate.
  - destruct x; discriminate.
  - inversion H as [[Hh Ht]]. destruct x as [|x]; cbn [nth_error] in Hx |- *.
    + inversion Hx; subst h'. exists h. split; [reflexivity|assumption].
    + apply (IH t' x a Ht Hx).
Qed.

(* THE FILE-LEVEL ROUND TRIP DOWN TO CIGAR AND BASES: the x-th record of the stream, if it is a
   well-formed mapped record, is the x-th record read back from the file, with the input CIGAR
   (=/X as M, adjacent ops merged), the input bases up to case, and the input FLAG, RNAME id, POS,
   RNEXT, PNEXT, TLEN and name - whatever the other records of the stream are, whatever slice it
   falls into *)
Theorem file_record_rendering : forall refs rps ss out x s rf st, (1 <= rps)%nat ->
  file_rt refs rps ss = MOk out -> nth_error ss x = Some s -> mapped_wf refs s rf st ->
  exists o, nth_error out x = Some o /\
    mate_view o = (s_flags s, s_mref s, s_mstart s, s_tlen s) /\
    m_name o = s_name s /\ m_ref o = s_ref s /\ m_start o = s_start s /\
    rec_cigar o = simplify (norm_ops (s_ops s)) /\
    exists b, rec_bases refs o = Some b /\ eq_nocase_list b (s_seq s) = true.
Proof.
  intros refs rps ss out x s rf st Hk Hrt Hx Hwf.
  destruct (file_roundtrip refs rps ss Hk) as [_ H]. destruct (H out Hrt) as (rs & Ec & Hl & Hm & Hs).
  destruct (convert_all_nth _ _ _ _ _ Ec Hx) as (r & Hr & Hcv).
  assert (Hxs : nth_error (map (fun s => (s_flags s, s_mref s, s_mstart s, s_tlen s)) ss) x
                = Some (s_flags s, s_mref s, s_mstart s, s_tlen s))
    by (exact (map_nth_error (fun s => (s_flags s, s_mref s, s_mstart s, s_tlen s)) x ss Hx)).
  assert (Ho : exists o, nth_error out x = Some o).
  { destruct (nth_error out x) as [o|] eqn:E; [now exists o|].
    apply nth_error_None in E. assert (Hlt : (x < length ss)%nat) by (apply nth_error_Some; congruence). lia. }
  destruct Ho as (o & Ho). exists o. split; [exact Ho|].
  assert (Hmv : mate_view o = (s_flags s, s_mref s, s_mstart s, s_tlen s)).
  { pose proof (map_nth_error mate_view x out Ho) as E. rewrite Hm, Hxs in E. congruence. }
  assert (Hsv : stat_view o = stat_view (drop_unmapped_feats r)).
  { pose proof (map_nth_error stat_view x out Ho) as E. rewrite Hs in E.
    rewrite (map_nth_error stat_view x (map drop_unmapped_feats rs)
               (map_nth_error drop_unmapped_feats x rs Hr)) in E. congruence. }
  destruct (convert_fresh _ _ _ Hcv) as [_ Hrv].
  destruct Hwf as (Hu & Hrest).
  assert (Hfl : m_flags o = s_flags s) by (unfold mate_view in Hmv; now inversion Hmv).
  assert (Hflr : m_flags r = s_flags s) by (unfold mate_view in Hrv; now inversion Hrv).
  unfold drop_unmapped_feats in Hsv. rewrite Hflr, Hu in Hsv. unfold stat_view in Hsv.
  inversion Hsv as [[E1 E2 E3 E4 E5]].
  destruct (convert_rendering refs s r rf st (conj Hu Hrest) Hcv) as (Hc & b & Hb & Hq).
  assert (Hrn : m_name r = s_name s /\ m_ref r = s_ref s /\ m_start r = s_start s).
  { unfold convert in Hcv. destruct (convert_core _ _ _ _ _) as [[[[rl ms] q] ws]|]; [|discriminate].
    destruct (encode_features _ _); [|discriminate]. inversion Hcv; subst r. repeat split. }
  destruct Hrn as (N1 & N2 & N3).
  split; [exact Hmv|]. split; [congruence|]. split; [congruence|]. split; [congruence|].
  split.
  - unfold rec_cigar in Hc |- *. rewrite Hfl, E4, E5. rewrite Hflr in Hc. exact Hc.
  - exists b. split; [|exact Hq]. unfold rec_bases in Hb |- *.
    rewrite Hfl, E2, E3, E4, E5. rewrite Hflr in Hb. exact Hb.
Qed.
