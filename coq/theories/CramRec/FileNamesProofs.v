(* C07 — proofs about NV.CramRec.FileNames: the RN series round-trips names without a NUL byte,
   and the file model that carries the names as bytes equals the value-level file model on them. *)
From Coq Require Import List NArith ZArith Bool Lia Arith.
From Coq Require Import ZifyBool ZifyNat ZifyN.
From NV Require Import CramRec.Features CramRec.Mates CramRec.MatesProofs CramRec.MatesWriter
  CramRec.SliceHeader CramRec.SliceHeaderProofs CramRec.File CramRec.FileProofs CramRec.FileNames.
Import ListNotations.
Open Scope N_scope.

(* ---------------------------------------------------------------- ByteArrayStop *)
Lemma bas_decode_encode : forall stop v rest, ~ In stop v ->
  bas_decode stop (bas_encode stop v ++ rest) = Some (v, rest).
Proof.
  intros stop. unfold bas_encode. induction v as [|b tl IH]; intros rest Hn; cbn [app bas_decode].
  - now rewrite N.eqb_refl.
  - destruct (N.eqb_spec b stop) as [E|E]; [exfalso; apply Hn; now left|].
    rewrite IH; [reflexivity|]. intro H. apply Hn. now right.
Qed.

(* ---------------------------------------------------------------- names *)
(* a name the RN series can carry: no NUL byte; and not the literal `*`, which IS the missing name *)
Definition name_ok (o : option (list N)) : Prop :=
  match o with Some s => ~ In 0 s /\ s <> missing_name | None => True end.

Lemma read_name_written : forall o rest, name_ok o ->
  read_name (bas_encode 0 (name_bytes o) ++ rest) = Some (o, rest).
Proof.
  intros o rest H. unfold read_name. destruct o as [s|]; cbn [name_bytes].
  - destruct H as [Hn Hm]. rewrite (bas_decode_encode 0 s rest Hn). unfold bytes_eqb.
    destruct (list_eq_dec N.eq_dec s missing_name); [contradiction|reflexivity].
  - rewrite (bas_decode_encode 0 missing_name rest); [reflexivity|].
    unfold missing_name. intros [H1|[]]. discriminate.
Qed.

(* the literal name `*` reads back as the missing name (the same SAM rendering) *)
Lemma read_name_star : forall rest,
  read_name (bas_encode 0 (name_bytes (Some missing_name)) ++ rest) = Some (None, rest).
Proof. intro rest. reflexivity. Qed.

Definition names_ok (rs : list mrec) : Prop := Forall (fun r => name_ok (m_name r)) rs.

Theorem dec_enc_names : forall rs rest, names_ok rs ->
  dec_names (length rs) (enc_names rs ++ rest) = Some (map m_name rs, rest).
Proof.
  induction rs as [|r tl IH]; intros rest H; [reflexivity|].
  inversion H as [|x l Hr Htl]; subst. unfold enc_names. cbn [map concat length dec_names].
  rewrite <- app_assoc. rewrite (read_name_written _ _ Hr).
  fold (enc_names tl). now rewrite (IH rest Htl).
Qed.

Lemma set_names_self : forall st, set_names (map (with_name None) st) (map m_name st) = st.
Proof.
  induction st as [|r tl IH]; [reflexivity|]. cbn [map set_names]. rewrite IH. now destruct r.
Qed.

Theorem de_ser_names : forall st, names_ok st -> de_names (ser_names st) = Some st.
Proof.
  intros st H. unfold de_names, ser_names. cbn [fst snd]. rewrite map_length.
  rewrite <- (app_nil_r (enc_names st)), (dec_enc_names st [] H). now rewrite set_names_self.
Qed.

(* ---------------------------------------------------------------- the file with its names as bytes *)
Lemma slices_write_names : forall chs,
  slices_write_gen _ ser_names chs =
  match slices_write_gen (list mrec) (fun st => st) chs with
  | Some f => Some (map ser_names f)
  | None => None
  end.
Proof.
  induction chs as [|ch tl IH]; [reflexivity|]. cbn [slices_write_gen]. rewrite IH.
  unfold slice_write_gen. destruct (store_all_w (set_mates_w ch)); [|reflexivity].
  now destruct (slices_write_gen (list mrec) (fun st => st) tl).
Qed.

Lemma file_read_names : forall f, Forall names_ok f ->
  file_read_gen _ de_names (map ser_names f) = file_read_gen (list mrec) (fun st => Some st) f.
Proof.
  induction f as [|s tl IH]; intro H; [reflexivity|]. inversion H as [|x l Hs Htl]; subst.
  cbn [map file_read_gen]. now rewrite (de_ser_names s Hs), (IH Htl).
Qed.

Lemma map_stat_view_names : forall a b, map stat_view a = map stat_view b -> map m_name a = map m_name b.
Proof.
  intros a b H.
  assert (E : forall l, map m_name l = map (fun p => fst (fst (fst (fst p)))) (map stat_view l)).
  { intro l. rewrite map_map. reflexivity. }
  now rewrite !E, H.
Qed.

Lemma names_drop : forall rs, map m_name (map drop_unmapped_feats rs) = map m_name rs.
Proof.
  intro rs. rewrite map_map. apply map_ext. intro r. unfold drop_unmapped_feats.
  now destruct (is_unmapped (m_flags r)).
Qed.

Lemma names_ok_of_map : forall a b, map m_name a = map m_name b -> names_ok b -> names_ok a.
Proof.
  induction a as [|x tl IH]; intros b H Hb; [constructor|]. destruct b as [|y tb]; [discriminate|].
  cbn [map] in H. inversion H as [[Hx Ht]]. inversion Hb as [|z l Hy Htb]; subst.
  constructor; [now rewrite Hx|]. now apply (IH tb).
Qed.

Lemma slices_names_ok : forall chs f, Forall (Forall fresh) chs -> Forall names_ok chs ->
  slices_write_gen (list mrec) (fun st => st) chs = Some f -> Forall names_ok f.
Proof.
  induction chs as [|ch tl IH]; intros f Hf Hn H; cbn [slices_write_gen] in H.
  - inversion H; constructor.
  - unfold slice_write_gen in H.
    destruct (store_all_w (set_mates_w ch)) as [st|] eqn:Hst; [|discriminate].
    destruct (slices_write_gen (list mrec) (fun st => st) tl) as [f'|] eqn:Ht; [|discriminate].
    inversion H; subst f. inversion Hf as [|c l Hc Hl]; subst. inversion Hn as [|c' l' Hnc Hnl]; subst.
    constructor; [|now apply IH].
    apply (names_ok_of_map st ch); [|assumption].
    rewrite <- (names_drop ch). apply map_stat_view_names. now apply stored_stat.
Qed.

Lemma convert_name : forall refs s r, convert refs s = Some r -> m_name r = s_name s.
Proof.
  intros refs s r H. unfold convert in H.
  destruct (convert_core _ _ _ _ _) as [[[[rl ms] q] ws]|]; [|discriminate].
  destruct (encode_features _ _); [|discriminate]. now inversion H.
Qed.

Lemma convert_all_names : forall refs ss rs, convert_all refs ss = Some rs ->
  map m_name rs = map s_name ss.
Proof.
  intros refs. induction ss as [|s tl IH]; intros rs H; cbn [convert_all] in H.
  - now inversion H.
  - destruct (convert refs s) as [r|] eqn:Er; [|discriminate].
    destruct (convert_all refs tl) as [rs'|] eqn:Et; [|discriminate]. inversion H; subst.
    cbn [map]. now rewrite (convert_name _ _ _ Er), (IH rs' eq_refl).
Qed.

(* a stream whose names the RN series can carry *)
Definition stream_names_ok (ss : list samrec) : Prop := Forall (fun s => name_ok (s_name s)) ss.

Lemma names_ok_converted : forall refs ss rs, convert_all refs ss = Some rs ->
  stream_names_ok ss -> names_ok rs.
Proof.
  intros refs ss rs H Hs. pose proof (convert_all_names _ _ _ H) as E.
  clear H. revert ss E Hs. induction rs as [|r tl IH]; intros ss E Hs; [constructor|].
  destruct ss as [|s ts]; [discriminate|]. cbn [map] in E. inversion E as [[Er Et]].
  inversion Hs as [|x l Hx Hl]; subst. constructor; [now rewrite Er|]. now apply (IH ts).
Qed.

Lemma names_ok_no_nul : forall ss, stream_names_ok ss -> stream_has_nul ss = false.
Proof.
  induction ss as [|s tl IH]; intro H; [reflexivity|]. inversion H as [|x l Hx Hl]; subst.
  unfold stream_has_nul. cbn [existsb]. fold (stream_has_nul tl). rewrite (IH Hl), orb_false_r.
  unfold has_nul. destruct (s_name s) as [nm|]; [|reflexivity]. destruct Hx as [Hn _].
  destruct (existsb (N.eqb 0) nm) eqn:E; [|reflexivity].
  apply existsb_exists in E. destruct E as (b & Hb & Eb). apply N.eqb_eq in Eb. subst b. contradiction.
Qed.

(* THE FILE WITH ITS NAMES AS BYTES: for a stream without a NUL byte in a name (and without the
   literal name `*`), carrying the names through the RN block of every slice changes nothing *)
Theorem file_rt_names_eq : forall refs rps ss, (1 <= rps)%nat -> stream_names_ok ss ->
  file_rt_names refs rps ss = file_rt refs rps ss.
Proof.
  intros refs rps ss Hk Hs. unfold file_rt_names. rewrite (names_ok_no_nul ss Hs), andb_false_r.
  unfold file_rt, file_rt_gen, file_write_gen.
  destruct (convert_all refs ss) as [rs|] eqn:Ec; [|reflexivity].
  rewrite slices_write_names.
  destruct (slices_write_gen (list mrec) (fun st => st) (chunks rps rs)) as [f|] eqn:Ew; [|reflexivity].
  destruct (convert_all_fresh _ _ _ Ec) as [Hf _].
  pose proof (names_ok_converted _ _ _ Ec Hs) as Hn.
  rewrite file_read_names; [reflexivity|].
  apply (slices_names_ok (chunks rps rs) f); [| |exact Ew].
  - apply Forall_chunks_fuel. exact Hf.
  - apply (Forall_chunks_fuel (fun r => name_ok (m_name r))). exact Hn.
Qed.

(* ... so the file-level round trip holds for it, names included *)
Theorem file_roundtrip_names : forall refs rps ss, (1 <= rps)%nat -> stream_names_ok ss ->
  file_rt_names refs rps ss <> MReadErr /\
  forall out, file_rt_names refs rps ss = MOk out ->
    length out = length ss /\
    map mate_view out = map (fun s => (s_flags s, s_mref s, s_mstart s, s_tlen s)) ss /\
    map m_name out = map s_name ss /\
    exists rs, convert_all refs ss = Some rs /\
      map stat_view out = map stat_view (map drop_unmapped_feats rs).
Proof.
  intros refs rps ss Hk Hs. rewrite (file_rt_names_eq refs rps ss Hk Hs).
  destruct (file_roundtrip refs rps ss Hk) as [A C]. split; [exact A|].
  intros out H. destruct (C out H) as (rs & E1 & E2 & E3 & E4).
  split; [exact E2|]. split; [exact E3|]. split; [|exists rs; split; assumption].
  rewrite (map_stat_view_names _ _ E4), names_drop. exact (convert_all_names _ _ _ E1).
Qed.

(* since /repo 61aefd0 ([stop_byte_refused] = true): a stream with a NUL byte in a name is refused *)
Theorem file_rt_names_nul_rejected : forall refs rps ss, stream_has_nul ss = true ->
  file_rt_names refs rps ss = MWriteErr /\ file_name_blocks refs rps ss = None.
Proof.
  intros refs rps ss H. unfold file_rt_names, file_name_blocks. rewrite H. split; reflexivity.
Qed.
