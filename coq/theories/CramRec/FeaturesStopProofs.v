(* C07 — proofs about NV.CramRec.FeaturesStop: without a NUL byte among the bases, the byte level
   of the SC / IN series changes nothing ([roundtrip_stop] = [Features.roundtrip]). *)
From Coq Require Import List NArith ZArith Bool Lia Arith.
From Coq Require Import ZifyBool ZifyNat ZifyN.
From NV Require Import CramRec.Features CramRec.FileNames CramRec.FileNamesProofs CramRec.FeaturesStop.
Import ListNotations.
Open Scope N_scope.

Definition fnostop (f : feature) : Prop :=
  match f with FSoftClip _ b | FInsertion _ b => ~ In 0 b | _ => True end.
Definition wnostop (w : wfeature) : Prop :=
  match w with WSoftClip _ b | WInsertion _ b => ~ In 0 b | _ => True end.

(* ---------------------------------------------------------------- the reader re-reads what was written *)
Lemma restop_id : forall fs sc' in', Forall fnostop fs ->
  restop fs (sc_block fs ++ sc') (in_block fs ++ in') = Some fs.
Proof.
  induction fs as [|f tl IH]; intros sc' in' H; [reflexivity|].
  inversion H as [|x l Hf Htl]; subst.
  destruct f; cbn [restop sc_block in_block]; try (rewrite (IH sc' in' Htl); reflexivity).
  - (* FInsertion *) cbn [fnostop] in Hf. rewrite <- app_assoc.
    rewrite (bas_decode_encode 0 bases (in_block tl ++ in') Hf). now rewrite (IH sc' in' Htl).
  - (* FSoftClip *) cbn [fnostop] in Hf. rewrite <- app_assoc.
    rewrite (bas_decode_encode 0 bases (sc_block tl ++ sc') Hf). now rewrite (IH sc' in' Htl).
Qed.

Theorem restop_features_id : forall fs, Forall fnostop fs -> restop_features fs = Some fs.
Proof.
  intros fs H. unfold restop_features.
  rewrite <- (app_nil_r (sc_block fs)), <- (app_nil_r (in_block fs)). now apply restop_id.
Qed.

(* ---------------------------------------------------------------- the writer's features hold bases of the read *)
Lemma encode_features_nostop : forall sm ws fs, encode_features sm ws = Some fs ->
  Forall wnostop ws -> Forall fnostop fs.
Proof.
  intros sm. induction ws as [|w tl IH]; intros fs H Hw; cbn [encode_features] in H.
  - inversion H; constructor.
  - destruct (encode_feature sm w) as [f|] eqn:Ef; [|discriminate].
    destruct (encode_features sm tl) as [fs'|] eqn:Et; [|discriminate]. inversion H; subst fs.
    inversion Hw as [|x l Hx Hl]; subst. constructor; [|now apply IH].
    destruct w; cbn [encode_feature] in Ef; try (inversion Ef; subst f; exact Hx || exact I).
    destruct (sm_find sm refb readb); [|discriminate]. inversion Ef; subst f. exact I.
Qed.

Lemma slice1_In : forall l a b s x, slice1 l a b = Some s -> In x s -> In x l.
Proof.
  intros l a b s x H Hx. unfold slice1 in H.
  destruct ((1 <=? a) && (a <=? b) && (b <=? N.of_nat (length l) + 1)); [|discriminate].
  inversion H; subst s.
  assert (H1 : In x (skipn (N.to_nat (a - 1)) l)).
  { rewrite <- (firstn_skipn (N.to_nat (b - a)) (skipn (N.to_nat (a - 1)) l)). apply in_or_app. now left. }
  rewrite <- (firstn_skipn (N.to_nat (a - 1)) l). apply in_or_app. now right.
Qed.

Lemma app_opt_Forall : forall {A} (P : A -> Prop) a b c, app_opt a b = Some c ->
  (forall x, a = Some x -> Forall P x) -> (forall y, b = Some y -> Forall P y) -> Forall P c.
Proof.
  intros A P a b c H Ha Hb. destruct a as [x|]; [|discriminate]. destruct b as [y|]; [|discriminate].
  inversion H; subst c. apply Forall_app. split; [now apply Ha|now apply Hb].
Qed.

Lemma mismatch_nostop : forall pos rb sb q f, mismatch_feature pos rb sb q = Some f -> wnostop f.
Proof.
  intros pos rb sb q f H. unfold mismatch_feature in H.
  destruct (base_of_byte rb); destruct (base_of_byte sb); try (inversion H; exact I);
    destruct q; inversion H; exact I.
Qed.

Lemma match_features_nostop : forall rbs sbs pos q ws,
  match_features pos rbs sbs q = Some ws -> Forall wnostop ws.
Proof.
  induction rbs as [|rb rt IH]; intros sbs pos q ws H; cbn [match_features] in H.
  - inversion H; constructor.
  - destruct sbs as [|sb st]; [inversion H; constructor|].
    destruct (match_features (pos + 1) rt st q) as [rest|] eqn:E; [|discriminate].
    pose proof (IH _ _ _ _ E) as Hr.
    destruct (eq_nocase rb sb); [inversion H; subst; exact Hr|].
    destruct (mismatch_feature pos rb sb q) as [f|] eqn:Em; [|discriminate].
    inversion H; subst. constructor; [exact (mismatch_nostop _ _ _ _ _ Em)|exact Hr].
Qed.

Lemma q_feature_array : forall quals pos n single, q_feature true quals pos n single = Some [].
Proof. reflexivity. Qed.

Lemma op_features_nostop : forall refseq seq quals k n rp dp ws, ~ In 0 seq ->
  op_features true refseq seq quals k n rp dp = Some ws -> Forall wnostop ws.
Proof.
  intros refseq seq quals k n rp dp ws Hn H. unfold op_features in H.
  destruct k.
  1, 8, 9:
    (destruct (n =? 1);
     [ destruct (get1 refseq rp); [|discriminate]; destruct (get1 seq dp); [|discriminate];
       destruct (get1 quals dp); [|discriminate];
       apply (app_opt_Forall wnostop _ _ _ H); [intros x Hx; inversion Hx; constructor|];
       intros y Hy; destruct (eq_nocase _ _); [inversion Hy; constructor|];
       destruct (mismatch_feature _ _ _ _) as [f|] eqn:Em; [|discriminate];
       inversion Hy; subst; constructor; [exact (mismatch_nostop _ _ _ _ _ Em)|constructor]
     | rewrite q_feature_array in H;
       destruct (slice1 refseq rp (rp + n)); [|discriminate];
       destruct (slice1 seq dp (dp + n)); [|discriminate];
       apply (app_opt_Forall wnostop _ _ _ H); [intros x Hx; inversion Hx; constructor|];
       intros y Hy; exact (match_features_nostop _ _ _ _ _ Hy) ]).
  - (* KI *)
    destruct (n =? 1).
    + destruct (get1 seq dp); [|discriminate]. rewrite q_feature_array in H.
      inversion H; subst. repeat constructor.
    + destruct (slice1 seq dp (dp + n)) as [bs|] eqn:Es; [|discriminate]. rewrite q_feature_array in H.
      inversion H; subst. constructor; [|constructor]. cbn [wnostop]. intro Hx.
      apply Hn. exact (slice1_In _ _ _ _ _ Es Hx).
  - inversion H; repeat constructor.
  - inversion H; repeat constructor.
  - (* KS *)
    destruct (slice1 seq dp (dp + n)) as [bs|] eqn:Es; [|discriminate]. rewrite q_feature_array in H.
    inversion H; subst. constructor; [|constructor]. cbn [wnostop]. intro Hx.
    apply Hn. exact (slice1_In _ _ _ _ _ Es Hx).
  - inversion H; repeat constructor.
  - inversion H; repeat constructor.
Qed.

Lemma c2f_nostop : forall refseq seq quals ops rp dp ws, ~ In 0 seq ->
  c2f true refseq seq quals ops rp dp = Some ws -> Forall wnostop ws.
Proof.
  intros refseq seq quals. induction ops as [|[k n] tl IH]; intros rp dp ws Hn H; cbn [c2f] in H.
  - inversion H; constructor.
  - apply (app_opt_Forall wnostop _ _ _ H).
    + intros x Hx. exact (op_features_nostop _ _ _ _ _ _ _ _ Hn Hx).
    + intros y Hy. exact (IH _ _ _ Hn Hy).
Qed.

Lemma unknown_nostop : forall n, ~ In 0 (unknown_bases n).
Proof. intros n H. unfold unknown_bases in H. apply repeat_spec in H. discriminate. Qed.

Lemma c2f_missing_nostop : forall ops dp, Forall wnostop (c2f_missing ops dp).
Proof.
  induction ops as [|[k n] tl IH]; intro dp; cbn [c2f_missing]; [constructor|].
  apply Forall_app. split; [|apply IH].
  destruct k; repeat constructor; cbn [wnostop]; apply unknown_nostop.
Qed.

Lemma record_features_nostop : forall refseq seq quals ops start ws, ~ In 0 seq ->
  record_features refseq seq quals ops start = Some ws -> Forall wnostop ws.
Proof.
  intros refseq seq quals ops start ws Hn H. unfold record_features in H.
  destruct (is_aligned ops).
  - destruct seq as [|b sq].
    + inversion H; subst. apply c2f_missing_nostop.
    + unfold cigar_to_features in H. exact (c2f_nostop _ _ _ _ _ _ _ Hn H).
  - inversion H; subst. destruct seq; repeat constructor. exact Hn.
Qed.

Lemma fnostopb_true : forall fs, Forall fnostop fs -> forallb fnostopb fs = true.
Proof.
  induction fs as [|f tl IH]; intro H; [reflexivity|]. inversion H as [|x l Hf Hl]; subst.
  cbn [forallb]. rewrite (IH Hl), andb_true_r.
  assert (G : forall b, ~ In 0 b -> negb (existsb (N.eqb 0) b) = true).
  { intros b Hb. destruct (existsb (N.eqb 0) b) eqn:E; [|reflexivity].
    apply existsb_exists in E. destruct E as (x & Hx & Ex). apply N.eqb_eq in Ex. subst x. contradiction. }
  destruct f; cbn [fnostopb fnostop] in *; try reflexivity; now apply G.
Qed.

(* WITHOUT A NUL BYTE AMONG THE BASES the byte level of the soft-clip / insertion series changes
   nothing: the model that the `feat` kind compares with the real writer + reader is the function
   of the feature theorems *)
Theorem roundtrip_stop_eq : forall sm refseq seq quals ops start, ~ In 0 seq ->
  roundtrip_stop sm refseq seq quals ops start = roundtrip sm refseq seq quals ops start.
Proof.
  intros sm refseq seq quals ops start Hn. unfold roundtrip_stop, roundtrip.
  destruct (negb (len (record_quals (record_read_length seq ops) quals) =? record_read_length seq ops));
    [reflexivity|].
  destruct (len refseq <? start); [reflexivity|].
  destruct (record_features refseq seq (record_quals (record_read_length seq ops) quals) ops start)
    as [ws|] eqn:Er; [|reflexivity].
  destruct (encode_features sm ws) as [fs|] eqn:Ee; [|reflexivity].
  pose proof (encode_features_nostop sm ws fs Ee (record_features_nostop _ _ _ _ _ _ Hn Er)) as Hf.
  rewrite (fnostopb_true fs Hf). cbn [negb]. rewrite andb_false_r.
  now rewrite (restop_features_id fs Hf).
Qed.

Lemma fnostopb_Forall : forall fs, forallb fnostopb fs = true -> Forall fnostop fs.
Proof.
  induction fs as [|f tl IH]; intro H; [constructor|]. cbn [forallb] in H.
  apply andb_true_iff in H. destruct H as [Hf Ht]. constructor; [|now apply IH].
  assert (G : forall b, negb (existsb (N.eqb 0) b) = true -> ~ In 0 b).
  { intros b Hb Hin. apply negb_true_iff in Hb.
    assert (E : existsb (N.eqb 0) b = true) by (apply existsb_exists; exists 0; split; [assumption|reflexivity]).
    congruence. }
  destruct f; cbn [fnostopb fnostop] in *; try exact I; now apply G.
Qed.

(* since /repo 61aefd0 ([stop_byte_refused] = true): the byte level of the SC / IN series never
   changes a record silently - for EVERY record it either changes nothing or the writer answers
   InvalidInput *)
Theorem roundtrip_stop_same_or_refused : forall sm refseq seq quals ops start,
  roundtrip_stop sm refseq seq quals ops start = roundtrip sm refseq seq quals ops start \/
  roundtrip_stop sm refseq seq quals ops start = RInvalidInput.
Proof.
  intros sm refseq seq quals ops start. unfold roundtrip_stop, roundtrip.
  destruct (negb (len (record_quals (record_read_length seq ops) quals) =? record_read_length seq ops));
    [now left|].
  destruct (len refseq <? start); [now left|].
  destruct (record_features refseq seq (record_quals (record_read_length seq ops) quals) ops start)
    as [ws|]; [|now left].
  destruct (encode_features sm ws) as [fs|]; [|now left].
  destruct (forallb fnostopb fs) eqn:E.
  - left. cbn [negb]. rewrite andb_false_r. now rewrite (restop_features_id fs (fnostopb_Forall fs E)).
  - right. reflexivity.
Qed.

(* ... and it is refused exactly when a stored soft clip / insertion holds a NUL byte *)
Theorem roundtrip_stop_nul_rejected : forall sm refseq seq quals ops start ws fs,
  len (record_quals (record_read_length seq ops) quals) = record_read_length seq ops ->
  start <= len refseq ->
  record_features refseq seq (record_quals (record_read_length seq ops) quals) ops start = Some ws ->
  encode_features sm ws = Some fs -> forallb fnostopb fs = false ->
  roundtrip_stop sm refseq seq quals ops start = RInvalidInput.
Proof.
  intros sm refseq seq quals ops start ws fs Hq Hs Hr He Hf. unfold roundtrip_stop.
  rewrite Hq, N.eqb_refl. cbn [negb].
  destruct (N.ltb_spec (len refseq) start) as [Hlt|_]; [lia|].
  rewrite Hr, He, Hf. reflexivity.
Qed.
