(* C07 — totality of the CRAM writer's cigar_to_features on well-formed input.

   [c2f ... = None] models the writer returning Err(InvalidInput): a lookup outside the
   sequence, the quality scores or the reference.  This file proves that this never happens
   when the CIGAR is consistent with the sequence length, the quality scores have the length
   of the sequence and the alignment fits in the reference ([c2f_total],
   [cigar_to_features_total]) -- for every op length including 0 and 1 -- and, conversely,
   that an op reading past the end of the sequence / quality scores / reference is always an
   error ([c2f_short_sequence_is_error], [c2f_short_quals_is_error],
   [c2f_short_reference_is_error]).

   Self-contained: depends on Features.v only. *)
From Coq Require Import List NArith Bool Lia ZifyBool ZifyNat ZifyN.
From NV Require Import CramRec.Features.
Import ListNotations.
Open Scope N_scope.

Arguments N.add : simpl never.
Arguments N.sub : simpl never.
Arguments N.eqb : simpl never.
Arguments N.leb : simpl never.

(* ---------------------------------------------------------------- get1 / slice1 *)
Lemma get1_some : forall l p, 1 <= p -> p <= len l -> exists v, get1 l p = Some v.
Proof.
  intros l p H1 H2. unfold get1, len in *.
  destruct (p =? 0) eqn:E; [lia|].
  destruct (nth_error l (N.to_nat (p - 1))) eqn:En; [eauto|].
  apply nth_error_None in En. lia.
Qed.

Lemma get1_none : forall l p, len l < p -> get1 l p = None.
Proof.
  intros l p H. unfold get1, len in *.
  destruct (p =? 0) eqn:E; [reflexivity|].
  apply nth_error_None. lia.
Qed.

Lemma slice1_some : forall l a b,
  1 <= a -> a <= b -> b <= len l + 1 ->
  exists x, slice1 l a b = Some x /\ (length x <= N.to_nat (b - a))%nat
            /\ (length x <= length l - N.to_nat (a - 1))%nat.
Proof.
  intros l a b H1 H2 H3. unfold slice1, len in *.
  destruct ((1 <=? a) && (a <=? b) && (b <=? N.of_nat (length l) + 1)) eqn:E; [|lia].
  eexists. split; [reflexivity|].
  rewrite firstn_length, skipn_length. split; lia.
Qed.

Lemma slice1_none : forall l a b, len l + 1 < b -> slice1 l a b = None.
Proof.
  intros l a b H. unfold slice1, len in *.
  destruct ((1 <=? a) && (a <=? b) && (b <=? N.of_nat (length l) + 1)) eqn:E; [lia|reflexivity].
Qed.

(* ---------------------------------------------------------------- pieces of op_features *)
Lemma mismatch_feature_some : forall pos rb sb q, mismatch_feature pos rb sb (Some q) <> None.
Proof.
  intros pos rb sb q. unfold mismatch_feature.
  destruct (base_of_byte rb); destruct (base_of_byte sb); discriminate.
Qed.

Lemma match_features_total : forall rbs sbs pos q,
  rbs = [] \/ (exists v, q = Some v) -> match_features pos rbs sbs q <> None.
Proof.
  induction rbs as [|rb rbs IH]; intros sbs pos q H.
  - simpl. discriminate.
  - destruct H as [H|[v Hv]]; [discriminate|]. subst q.
    destruct sbs as [|sb sbs]; simpl; [discriminate|].
    destruct (match_features (pos + 1) rbs sbs (Some v)) eqn:Em.
    + destruct (eq_nocase rb sb); [discriminate|].
      destruct (mismatch_feature pos rb sb (Some v)) eqn:Emm; [discriminate|].
      exfalso. eapply mismatch_feature_some; eauto.
    + exfalso. eapply IH; [right; eauto|exact Em].
Qed.

Lemma q_feature_multi_some : forall qa quals dp n,
  1 <= dp -> dp + n <= len quals + 1 -> exists qf, q_feature qa quals dp n false = Some qf.
Proof.
  intros qa quals dp n H1 H2. unfold q_feature.
  destruct qa; [eauto|].
  destruct (slice1_some quals dp (dp + n)) as [x [Hx _]]; [lia|lia|lia|].
  rewrite Hx. eauto.
Qed.

Lemma q_feature_single_some : forall qa quals dp n,
  1 <= dp -> dp <= len quals -> exists qf, q_feature qa quals dp n true = Some qf.
Proof.
  intros qa quals dp n H1 H2. unfold q_feature.
  destruct qa; [eauto|].
  destruct (get1_some quals dp) as [x Hx]; [lia|lia|].
  rewrite Hx. eauto.
Qed.

Lemma app_opt_some : forall A (a b : option (list A)), a <> None -> b <> None -> app_opt a b <> None.
Proof.
  intros A a b Ha Hb. destruct a; [|congruence]. destruct b; [|congruence]. discriminate.
Qed.

(* ---------------------------------------------------------------- one op *)
Lemma op_features_match_total : forall qa refseq seq quals n rp dp,
  1 <= rp -> 1 <= dp ->
  dp + n <= len seq + 1 -> rp + n <= len refseq + 1 -> len quals = len seq ->
  op_features qa refseq seq quals KM n rp dp <> None.
Proof.
  intros qa refseq seq quals n rp dp Hrp Hdp Hd Hr Hq. unfold op_features.
  destruct (n =? 1) eqn:En.
  - apply N.eqb_eq in En. subst n.
    destruct (get1_some refseq rp) as [rb Hrb]; [lia|lia|].
    destruct (get1_some seq dp) as [sb Hsb]; [lia|lia|].
    destruct (get1_some quals dp) as [q Hqq]; [lia|lia|].
    rewrite Hrb, Hsb, Hqq.
    apply app_opt_some; [destruct qa; discriminate|].
    destruct (eq_nocase rb sb); [discriminate|].
    destruct (mismatch_feature dp rb sb (Some q)) eqn:Emm; [discriminate|].
    exfalso. eapply mismatch_feature_some; eauto.
  - apply N.eqb_neq in En.
    destruct (q_feature_multi_some qa quals dp n) as [qf Hqf]; [lia|lia|].
    destruct (slice1_some refseq rp (rp + n)) as [rbs [Hrbs [Hlr _]]]; [lia|lia|lia|].
    destruct (slice1_some seq dp (dp + n)) as [sbs [Hsbs _]]; [lia|lia|lia|].
    rewrite Hqf, Hrbs, Hsbs.
    apply app_opt_some; [discriminate|].
    apply match_features_total.
    destruct (N.eq_dec n 0) as [Hn|Hn].
    + left. subst n. destruct rbs as [|x rbs]; [reflexivity|]. simpl in Hlr. lia.
    + right. apply get1_some; lia.
Qed.

Lemma op_features_total : forall qa refseq seq quals k n rp dp,
  1 <= rp -> 1 <= dp ->
  dp + (if consumes_read k then n else 0) <= len seq + 1 ->
  rp + (if consumes_reference k then n else 0) <= len refseq + 1 ->
  len quals = len seq ->
  op_features qa refseq seq quals k n rp dp <> None.
Proof.
  intros qa refseq seq quals k n rp dp Hrp Hdp Hd Hr Hq.
  destruct k; simpl in Hd, Hr.
  - (* M *) apply op_features_match_total; assumption.
  - (* I *) unfold op_features. destruct (n =? 1) eqn:En.
    + apply N.eqb_eq in En. subst n.
      destruct (get1_some seq dp) as [sb Hsb]; [lia|lia|]. rewrite Hsb.
      destruct (q_feature_single_some qa quals dp 1) as [qf Hqf]; [lia|lia|]. rewrite Hqf.
      discriminate.
    + destruct (slice1_some seq dp (dp + n)) as [sbs [Hsbs _]]; [lia|lia|lia|]. rewrite Hsbs.
      destruct (q_feature_multi_some qa quals dp n) as [qf Hqf]; [lia|lia|]. rewrite Hqf.
      discriminate.
  - discriminate.
  - discriminate.
  - (* S *) unfold op_features.
    destruct (slice1_some seq dp (dp + n)) as [sbs [Hsbs [_ Hls]]]; [lia|lia|lia|]. rewrite Hsbs.
    apply app_opt_some; [discriminate|].
    destruct (len sbs =? 1) eqn:El.
    + apply N.eqb_eq in El. unfold len in *.
      destruct (q_feature_single_some qa quals dp n) as [qf Hqf]; [lia|unfold len; lia|].
      rewrite Hqf. discriminate.
    + destruct (q_feature_multi_some qa quals dp n) as [qf Hqf]; [lia|lia|].
      rewrite Hqf. discriminate.
  - discriminate.
  - discriminate.
  - (* = *) change (op_features qa refseq seq quals KEq n rp dp)
      with (op_features qa refseq seq quals KM n rp dp).
    apply op_features_match_total; assumption.
  - (* X *) change (op_features qa refseq seq quals KX n rp dp)
      with (op_features qa refseq seq quals KM n rp dp).
    apply op_features_match_total; assumption.
Qed.

(* ---------------------------------------------------------------- the whole CIGAR *)
Lemma c2f_total_le : forall qa refseq seq quals ops rp dp,
  1 <= rp -> 1 <= dp ->
  dp + read_len ops <= len seq + 1 ->
  rp + ref_len ops <= len refseq + 1 ->
  len quals = len seq ->
  c2f qa refseq seq quals ops rp dp <> None.
Proof.
  intros qa refseq seq quals ops.
  induction ops as [|[k n] rest IH]; intros rp dp Hrp Hdp Hd Hr Hq.
  - simpl. discriminate.
  - cbn [c2f]. cbn [read_len ref_len] in Hd, Hr.
    apply app_opt_some.
    + apply op_features_total; try assumption.
      * destruct (consumes_read k); lia.
      * destruct (consumes_reference k); lia.
    + apply IH; try assumption.
      * destruct (consumes_reference k); lia.
      * destruct (consumes_read k); lia.
      * destruct (consumes_read k); lia.
      * destruct (consumes_reference k); lia.
Qed.

Theorem c2f_total :
  forall qa refseq seq quals ops rp dp,
    1 <= rp -> 1 <= dp ->
    dp + read_len ops = len seq + 1 ->
    rp + ref_len ops <= len refseq + 1 ->
    len quals = len seq ->
    c2f qa refseq seq quals ops rp dp <> None.
Proof.
  intros qa refseq seq quals ops rp dp Hrp Hdp Hd Hr Hq.
  apply c2f_total_le; try assumption. lia.
Qed.

Corollary cigar_to_features_total :
  forall qa refseq seq quals ops start,
    1 <= start -> read_len ops = len seq -> start + ref_len ops <= len refseq + 1 ->
    len quals = len seq ->
    cigar_to_features qa refseq seq quals ops start <> None.
Proof.
  intros qa refseq seq quals ops start Hs Hl Hr Hq. unfold cigar_to_features.
  apply c2f_total; try assumption; lia.
Qed.

(* ---------------------------------------------------------------- converse: lookups past the end *)
Lemma app_opt_none_l : forall A (b : option (list A)), app_opt None b = None.
Proof. reflexivity. Qed.

(* a read-consuming op that runs past the end of the sequence is an error, for every kind and
   every length (0 and 1 included) *)
Lemma op_features_short_sequence : forall qa refseq seq quals k n rp dp,
  consumes_read k = true -> len seq + 1 < dp + n ->
  op_features qa refseq seq quals k n rp dp = None.
Proof.
  intros qa refseq seq quals k n rp dp Hk Hlt.
  assert (Hsl : slice1 seq dp (dp + n) = None) by (apply slice1_none; lia).
  assert (Hg : n = 1 -> get1 seq dp = None) by (intros ->; apply get1_none; lia).
  destruct k; try discriminate Hk; unfold op_features.
  - destruct (n =? 1) eqn:En.
    + apply N.eqb_eq in En. rewrite (Hg En). destruct (get1 refseq rp); reflexivity.
    + rewrite Hsl. destruct (q_feature qa quals dp n false); [|reflexivity].
      destruct (slice1 refseq rp (rp + n)); reflexivity.
  - destruct (n =? 1) eqn:En.
    + apply N.eqb_eq in En. rewrite (Hg En). reflexivity.
    + rewrite Hsl. reflexivity.
  - rewrite Hsl. reflexivity.
  - destruct (n =? 1) eqn:En.
    + apply N.eqb_eq in En. rewrite (Hg En). destruct (get1 refseq rp); reflexivity.
    + rewrite Hsl. destruct (q_feature qa quals dp n false); [|reflexivity].
      destruct (slice1 refseq rp (rp + n)); reflexivity.
  - destruct (n =? 1) eqn:En.
    + apply N.eqb_eq in En. rewrite (Hg En). destruct (get1 refseq rp); reflexivity.
    + rewrite Hsl. destruct (q_feature qa quals dp n false); [|reflexivity].
      destruct (slice1 refseq rp (rp + n)); reflexivity.
Qed.

Lemma c2f_short_sequence_is_error : forall qa refseq seq quals k n rest rp dp,
  consumes_read k = true -> len seq + 1 < dp + n ->
  c2f qa refseq seq quals ((k, n) :: rest) rp dp = None.
Proof.
  intros qa refseq seq quals k n rest rp dp Hk Hlt. cbn [c2f].
  rewrite op_features_short_sequence by assumption. reflexivity.
Qed.

(* a reference-consuming op that looks at the reference (M, =, X; D and N do not) and runs
   past its end is an error *)
Lemma c2f_short_reference_is_error : forall qa refseq seq quals k n rest rp dp,
  consumes_read k = true -> consumes_reference k = true -> len refseq + 1 < rp + n ->
  c2f qa refseq seq quals ((k, n) :: rest) rp dp = None.
Proof.
  intros qa refseq seq quals k n rest rp dp Hk Hr Hlt. cbn [c2f].
  assert (Hsl : slice1 refseq rp (rp + n) = None) by (apply slice1_none; lia).
  assert (Hg : n = 1 -> get1 refseq rp = None) by (intros ->; apply get1_none; lia).
  assert (Hop : op_features qa refseq seq quals k n rp dp = None).
  { destruct k; try discriminate Hk; try discriminate Hr; unfold op_features;
      (destruct (n =? 1) eqn:En;
       [apply N.eqb_eq in En; rewrite (Hg En); reflexivity
       |rewrite Hsl; destruct (q_feature qa quals dp n false); reflexivity]). }
  rewrite Hop. reflexivity.
Qed.

(* quality scores shorter than the op: when the scores are not stored as an array
   ([qs_array = false]) every read-consuming op whose end lies past the quality scores is an
   error, for every kind and length.  (With [qs_array = true] only M/=/X ops look at the
   scores, so the statement is restricted to [false].) *)
Lemma c2f_short_quals_is_error : forall refseq seq quals k n rest rp dp,
  consumes_read k = true -> len quals + 1 < dp + n ->
  c2f false refseq seq quals ((k, n) :: rest) rp dp = None.
Proof.
  intros refseq seq quals k n rest rp dp Hk Hlt. cbn [c2f].
  assert (Hsl : slice1 quals dp (dp + n) = None) by (apply slice1_none; lia).
  assert (Hg : n = 1 -> get1 quals dp = None) by (intros ->; apply get1_none; lia).
  assert (Hqm : q_feature false quals dp n false = None)
    by (unfold q_feature; rewrite Hsl; reflexivity).
  assert (Hop : op_features false refseq seq quals k n rp dp = None).
  { destruct k; try discriminate Hk; unfold op_features.
    - destruct (n =? 1) eqn:En.
      + apply N.eqb_eq in En. rewrite (Hg En).
        destruct (get1 refseq rp); [|reflexivity]. destruct (get1 seq dp); reflexivity.
      + rewrite Hqm. reflexivity.
    - destruct (n =? 1) eqn:En.
      + apply N.eqb_eq in En. destruct (get1 seq dp); [|reflexivity].
        unfold q_feature. rewrite (Hg En). reflexivity.
      + destruct (slice1 seq dp (dp + n)); [|reflexivity]. rewrite Hqm. reflexivity.
    - destruct (slice1 seq dp (dp + n)) as [bs|] eqn:Es; [|reflexivity].
      destruct (len bs =? 1) eqn:El.
      + (* a single soft-clipped base: n >= 1 here, so dp itself is past the scores *)
        assert (Hgd : get1 quals dp = None).
        { apply get1_none. unfold slice1 in Es.
          destruct ((1 <=? dp) && (dp <=? dp + n) && (dp + n <=? N.of_nat (length seq) + 1)) eqn:Ec;
            [|discriminate Es].
          injection Es as Es. apply N.eqb_eq in El. unfold len in *. subst bs.
          rewrite firstn_length, skipn_length in El. lia. }
        unfold q_feature. rewrite Hgd. reflexivity.
      + rewrite Hqm. reflexivity.
    - destruct (n =? 1) eqn:En.
      + apply N.eqb_eq in En. rewrite (Hg En).
        destruct (get1 refseq rp); [|reflexivity]. destruct (get1 seq dp); reflexivity.
      + rewrite Hqm. reflexivity.
    - destruct (n =? 1) eqn:En.
      + apply N.eqb_eq in En. rewrite (Hg En).
        destruct (get1 refseq rp); [|reflexivity]. destruct (get1 seq dp); reflexivity.
      + rewrite Hqm. reflexivity. }
  rewrite Hop. reflexivity.
Qed.

Print Assumptions c2f_total.
Print Assumptions cigar_to_features_total.
Print Assumptions c2f_short_sequence_is_error.
Print Assumptions c2f_short_reference_is_error.
Print Assumptions c2f_short_quals_is_error.
