(* C07 — the mate data series at the byte level.

   io/writer/container/slice/records.rs write_mate (write_mate_flags, write_mate_reference_sequence_id,
   write_mate_alignment_start, write_template_length, write_mate_distance) and
   io/reader/container/slice/records.rs read_mate (read_mate_flags, ...), for the data-series
   encodings the writer's compression header declares for these five series:
   Integer::External { block_content_id } (compression_header/encoding/codec/integer.rs), i.e.
   one ITF8 integer (NV.Cram.Itf8: write_itf8 / read_itf8) appended to / taken from the external
   block of the series:  MF = 8, NS = 9, NP = 10, TS = 11, NF = 12.

   [Mates.store] is the value-level summary of this file (what one record looks like after
   write_mate ; read_mate); MatesBytesProofs shows that it is exactly decode o encode here.
   Definitions only. *)
From Coq Require Import List NArith ZArith Bool.
From NV Require Import Cram.Itf8 CramRec.Features CramRec.Mates.
Import ListNotations.
Open Scope N_scope.

(* the five external blocks *)
Record mser := mk_mser {
  b_mf : list N; b_ns : list N; b_np : list N; b_ts : list N; b_nf : list N
}.
Definition mser0 : mser := mk_mser [] [] [] [] [].
Definition app_ser (a b : mser) : mser :=
  mk_mser (b_mf a ++ b_mf b) (b_ns a ++ b_ns b) (b_np a ++ b_np b) (b_ts a ++ b_ts b)
          (b_nf a ++ b_nf b).

(* Option<usize> -> i32 with a sentinel for None; None = Err(InvalidInput) of i32::try_from *)
Definition enc_opt (sentinel : Z) (o : option N) : option Z :=
  match o with
  | None => Some sentinel
  | Some n => if n <=? i32_max then Some (Z.of_N n) else None
  end.

(* the bytes one record adds to the five series; None = Err(InvalidInput) *)
Definition mate_chunk (r : mrec) : option mser :=
  if m_detached r then
    (* mate_flags is MateFlags::default() = 0 for every record the writer makes *)
    match enc_opt (-1) (m_mref r), enc_opt 0 (m_mstart r) with
    | Some ns, Some np =>
        Some (mk_mser (write_itf8 0) (write_itf8 ns) (write_itf8 np) (write_itf8 (m_tlen r)) [])
    | _, _ => None
    end
  else
    match m_dist r with
    | Some d => if d <=? i32_max then Some (mk_mser [] [] [] [] (write_itf8 (Z.of_N d))) else None
    | None => Some mser0
    end.

(* write_mate for one record / all records of the slice *)
Definition write_mate_b (r : mrec) (s : mser) : option mser :=
  match mate_chunk r with Some c => Some (app_ser s c) | None => None end.

Fixpoint write_all_b (rs : list mrec) (s : mser) : option mser :=
  match rs with
  | [] => Some s
  | r :: tl => match write_mate_b r s with Some s' => write_all_b tl s' | None => None end
  end.

(* usize::try_from(i32); None = Err(InvalidData) *)
Definition dec_usize (z : Z) : option N := if (z <? 0)%Z then None else Some (Z.to_N z).

(* read_mate: [r] is the record as the reader holds it when read_mate starts (bam flags and CRAM
   flags read, mate fields still those of Record::default()); None = an io::Error
   (UnexpectedEof of read_itf8, InvalidData of the integer conversions) *)
Definition read_mate_b (r : mrec) (s : mser) : option (mrec * mser) :=
  if m_detached r then
    match read_itf8 (b_mf s), read_itf8 (b_ns s), read_itf8 (b_np s), read_itf8 (b_ts s) with
    | Some (mf, mf'), Some (ns, ns'), Some (np, np'), Some (ts, ts') =>
        if ((mf <? 0) || (255 <? mf))%Z then None (* u8::try_from *)
        else
          let f0 := m_flags r in
          let f1 := if Z.testbit mf 0 then N.lor f0 MATE_REVERSE else f0 in
          let f2 := if Z.testbit mf 1 then N.lor f1 MATE_UNMAPPED else f1 in
          match (if (ns =? -1)%Z then Some None else option_map Some (dec_usize ns)), dec_usize np with
          | Some mref, Some p =>
              Some (mk_mrec f2 (m_name r) (m_ref r) (m_start r) (m_rl r) (m_feats r)
                            mref (position_new p) ts (m_detached r) (m_down r) (m_dist r),
                    mk_mser mf' ns' np' ts' (b_nf s))
          | _, _ => None
          end
    | _, _, _, _ => None
    end
  else if m_down r then
    match read_itf8 (b_nf s) with
    | Some (d, nf') =>
        match dec_usize d with
        | Some d' =>
            Some (mk_mrec (m_flags r) (m_name r) (m_ref r) (m_start r) (m_rl r) (m_feats r)
                          (m_mref r) (m_mstart r) (m_tlen r) (m_detached r) (m_down r) (Some d'),
                  mk_mser (b_mf s) (b_ns s) (b_np s) (b_ts s) nf')
        | None => None
        end
    | None => None
    end
  else Some (r, s).

(* the record before read_mate: Record::default() mate fields *)
Definition skeleton (r : mrec) : mrec :=
  mk_mrec (m_flags r) (m_name r) (m_ref r) (m_start r) (m_rl r) (m_feats r)
          None None 0%Z (m_detached r) (m_down r) None.

Fixpoint read_all_b (rs : list mrec) (s : mser) : option (list mrec * mser) :=
  match rs with
  | [] => Some ([], s)
  | r :: tl =>
      match read_mate_b r s with
      | Some (r', s') =>
          match read_all_b tl s' with
          | Some (tl', s'') => Some (r' :: tl', s'')
          | None => None
          end
      | None => None
      end
  end.

(* the five blocks of one slice of SAM records as the writer of /repo emits them *)
Definition mates_bytes (refs : list (list N)) (ss : list samrec) : option mser :=
  match convert_all refs ss with
  | None => None
  | Some rs => write_all_b (set_mates_w rs) mser0
  end.
