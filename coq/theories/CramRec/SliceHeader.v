(* C07 — model of the reference context and the counters that the CRAM writer puts into slice
   headers and container headers, as a function of the record list.

   noodles-cram/src/io/writer/container/slice.rs       build_slice, get_reference_sequence_context,
                                                       clamp_reference_sequence_context,
                                                       calculate_reference_sequence_md5
   noodles-cram/src/container/reference_sequence_context.rs   ReferenceSequenceContext::{some,update}
   noodles-cram/src/io/writer/record.rs                Record::alignment_end, calculate_alignment_span
   noodles-cram/src/io/writer/record/convert.rs        try_from_alignment_record (reference id, start,
                                                       read_length, features)
   noodles-cram/src/io/writer/container/header.rs      write_reference_sequence_context, counters
   noodles-cram/src/io/writer/container/slice/header.rs write_header
   noodles-cram/src/io/writer/container.rs             build_container,
                                                       get_container_reference_sequence_context,
                                                       calculate_base_count
   noodles-cram/src/io/writer.rs                       add_record / flush / try_finish
   noodles-core/src/position/sequence_index.rs, noodles-fasta/src/record/sequence.rs
                                                       Sequence::get(RangeInclusive<Position>)

   Conventions.  Ids, positions, lengths and counters are N (Position = N >= 1, Option<Position> =
   option N); the serialised reference id / start / span are Z.  usize / u64 arithmetic is unbounded
   (no overflow modelled); the conversions i32::try_from / i64::try_from of the two header writers
   are modelled: a value that does not fit makes the writer return Err(InvalidInput) = [SErr EInt].
   The usize subtractions of calculate_alignment_span are truncated (they cannot underflow on the
   features cigar_to_features produces from a CIGAR that fits the sequence).  The reference
   dictionary and the FASTA repository are one list [refsq] of pairs (@SQ LN, bases): entry i is the
   i-th @SQ line and the sequence the repository holds under that name (a repository without that
   name - Err(InvalidInput) "missing reference sequence" - is not modelled).  [get_ctx []] and
   [cont_ctx []] are assert! panics in the code and unreachable (chunks are never empty); a chunk
   size of 0 (slice::chunks_mut panics) is excluded by the theorems.  What is NOT modelled here:
   block_count / block_content_ids (they depend on which external blocks are non-empty; the block
   bookkeeping is NV.CramRec.Container) and optional tags (always empty).  The MD5 function itself is
   outside the model: [md5res] names the byte string that is digested.
   Definitions only; proofs are in SliceHeaderProofs.v. *)
From Coq Require Import List NArith ZArith Bool.
From NV Require Import CramRec.Features.
Import ListNotations.
Open Scope N_scope.

(* ---------------------------------------------------------------- results *)
Inductive sherr :=
| EInvalidRefId    (* "invalid reference sequence ID" *)
| ERecord          (* cigar_to_features rejects the record *)
| ESpanOutside     (* "alignment span is not within the reference sequence" *)
| ECtxMismatch     (* "invalid slice reference sequence context" (container of several slices) *)
| EInt.            (* i32::try_from / i64::try_from of a header field *)
(* every one of them is an io::Error of kind InvalidInput *)

Inductive sres (A : Type) :=
| SOk (a : A)
| SErr (e : sherr).
Arguments SOk {A} a.
Arguments SErr {A} e.

Definition sh_i32_max : N := 2147483647.
Definition sh_i64_max : N := 9223372036854775807.

Definition lenN {A} (l : list A) : N := N.of_nat (length l).

(* ---------------------------------------------------------------- records *)
(* the fields of io::writer::Record that the headers depend on *)
Record hrec := mk_hrec {
  hr_ref : option N;            (* reference_sequence_id *)
  hr_start : option N;          (* alignment_start *)
  hr_rl : N;                    (* read_length *)
  hr_feats : list wfeature;     (* features *)
  hr_missing : bool             (* cram_flags SEQUENCE_IS_MISSING *)
}.

(* Position::new *)
Definition pos_new (n : N) : option N := if n =? 0 then None else Some n.

(* io/writer/record.rs calculate_alignment_span (fold over the writer's features) *)
Definition wspan_step (s : N) (f : wfeature) : N :=
  match f with
  | WInsertion _ b => s - len b
  | WInsertBase _ _ => s - 1
  | WDeletion _ n => s + n
  | WRefSkip _ n => s + n
  | WSoftClip _ b => s - len b
  | _ => s
  end.
Definition w_alignment_span (rl : N) (fs : list wfeature) : N := fold_left wspan_step fs rl.

(* Record::alignment_end: span = max(alignment_span, 1) *)
Definition rec_end (r : hrec) : option N :=
  match hr_start r with
  | None => None
  | Some s => pos_new (s + N.max (w_alignment_span (hr_rl r) (hr_feats r)) 1 - 1)
  end.

(* ---------------------------------------------------------------- ReferenceSequenceContext *)
Inductive rctx :=
| RNone
| RSome (id start end_ : N)
| RMany.

Definition ctx_some (id s e : N) : rctx := RSome id s e.

(* ReferenceSequenceContext::update *)
Definition ctx_update (c : rctx) (id st en : option N) : rctx :=
  match c with
  | RSome cid cs ce =>
      match id, st, en with
      | Some rid, Some rs, Some re =>
          if rid =? cid then ctx_some rid (N.min rs cs) (N.max re ce) else RMany
      | _, _, _ => RMany
      end
  | RNone => match id with Some _ => RMany | None => RNone end
  | RMany => RMany
  end.

(* the match on records[0] of get_reference_sequence_context *)
Definition ctx_first (r : hrec) : rctx :=
  match hr_ref r, hr_start r, rec_end r with
  | Some id, Some s, Some e => ctx_some id s e
  (* /repo 21fc9d0: a reference id without a start makes the slice multi-reference, as update
     does for later records (before: RNone, and the record's reference id was lost) *)
  | Some _, _, _ => RMany
  | _, _, _ => RNone
  end.

Definition ctx_step (c : rctx) (r : hrec) : rctx := ctx_update c (hr_ref r) (hr_start r) (rec_end r).

(* get_reference_sequence_context ([] = assert! panic, unreachable) *)
Definition get_ctx (rs : list hrec) : rctx :=
  match rs with
  | [] => RNone
  | r :: tl => fold_left ctx_step tl (ctx_first r)
  end.

(* clamp_reference_sequence_context; [sq] = the @SQ lengths (a NonZero in sam::Header, so
   Position::new never answers None there; the model keeps the case) *)
Definition sq_end (sq : list N) (id : N) : option N :=
  match nth_error sq (N.to_nat id) with
  | Some ln => pos_new ln
  | None => None
  end.

Definition clamp_ctx (sq : list N) (c : rctx) : rctx :=
  match c with
  | RSome id s e =>
      match sq_end sq id with
      | Some en => if s <=? en then ctx_some id s (N.min e en) else c
      | None => c
      end
  | _ => c
  end.

(* Context::alignment_span *)
Definition ctx_span (s e : N) : N := e - s + 1.

(* write_reference_sequence_context: the three ITF8 values *)
Definition ctx_triple (c : rctx) : Z * Z * Z :=
  match c with
  | RSome id s e => (Z.of_N id, Z.of_N s, Z.of_N (ctx_span s e))
  | RNone => ((-1)%Z, 0%Z, 0%Z)
  | RMany => ((-2)%Z, 0%Z, 0%Z)
  end.
(* ... which exist iff the three i32::try_from succeed *)
Definition ctx_fits (c : rctx) : bool :=
  match c with
  | RSome id s e => (id <=? sh_i32_max) && (s <=? sh_i32_max) && (ctx_span s e <=? sh_i32_max)
  | _ => true
  end.

(* ---------------------------------------------------------------- reference MD5 *)
(* calculate_normalized_sequence_digest: bytes that are not ASCII graphic are dropped, lower case
   is converted to upper case *)
Definition is_graphic (b : N) : bool := (33 <=? b) && (b <=? 126).
Definition normalize_bases (bs : list N) : list N := map to_upper (filter is_graphic bs).

Inductive md5res :=
| MdNone                       (* Ok(None): the header carries 16 zero bytes *)
| MdOver (bytes : list N).     (* Ok(Some(MD5 of these bytes)) *)

(* Sequence::get(start..=end) = <[u8]>::get(start-1 ..= end-1): Some iff start-1 <= end and
   end <= len (end = usize::MAX cannot happen for a Position) *)
Definition seq_get_incl (bases : list N) (s e : N) : option (list N) :=
  if (s - 1 <=? e) && (e <=? lenN bases)
  then Some (firstn (N.to_nat (e - (s - 1))) (skipn (N.to_nat (s - 1)) bases))
  else None.

Definition calc_md5 (refsq : list (N * list N)) (c : rctx) : sres md5res :=
  match c with
  | RSome id s e =>
      match nth_error refsq (N.to_nat id) with
      | None => SErr EInvalidRefId
      | Some (_, bases) =>
          match seq_get_incl bases s e with
          | None => SErr ESpanOutside
          | Some bs => SOk (MdOver (normalize_bases bs))
          end
      end
  | _ => SOk MdNone
  end.

(* write_reference_md5 for a digest function [md5] *)
Definition md5_field (md5 : list N -> list N) (m : md5res) : list N :=
  match m with MdNone => repeat 0 16 | MdOver bs => md5 bs end.

(* ---------------------------------------------------------------- slice header *)
Record slice_hdr := mk_slice_hdr {
  sl_ctx : rctx;          (* reference_sequence_context (clamped) *)
  sl_nrec : N;            (* record_count *)
  sl_counter : N;         (* record_counter *)
  sl_embedded : Z;        (* embedded_reference_bases_block_content_id: None is written as -1 *)
  sl_md5 : md5res         (* reference_md5 *)
}.

(* build_slice, the header part *)
Definition build_slice_hdr (refsq : list (N * list N)) (counter : N) (rs : list hrec)
  : sres slice_hdr :=
  let c := clamp_ctx (map fst refsq) (get_ctx rs) in
  match calc_md5 refsq c with
  | SErr e => SErr e
  | SOk m => SOk (mk_slice_hdr c (lenN rs) counter (-1)%Z m)
  end.

(* slice::write_header: the conversions that can fail *)
Definition slice_fits (h : slice_hdr) : bool :=
  ctx_fits (sl_ctx h) && (sl_nrec h <=? sh_i32_max) && (sl_counter h <=? sh_i64_max).

(* ---------------------------------------------------------------- chunking *)
(* <[T]>::chunks(k) for k >= 1; fuel = length of the list *)
Fixpoint chunks_fuel {A} (fuel k : nat) (l : list A) : list (list A) :=
  match fuel with
  | O => []
  | S f =>
      match l with
      | [] => []
      | _ => firstn k l :: chunks_fuel f k (skipn k l)
      end
  end.
Definition chunks {A} (k : nat) (l : list A) : list (list A) := chunks_fuel (length l) k l.

(* the `for chunk in records.chunks_mut(records_per_slice)` loop of build_container *)
Fixpoint build_slices (refsq : list (N * list N)) (counter : N) (chs : list (list hrec))
  : sres (list slice_hdr) :=
  match chs with
  | [] => SOk []
  | c :: tl =>
      match build_slice_hdr refsq counter c with
      | SErr e => SErr e
      | SOk h =>
          match build_slices refsq (counter + lenN c) tl with
          | SErr e => SErr e
          | SOk hs => SOk (h :: hs)
          end
      end
  end.

(* ---------------------------------------------------------------- container header *)
(* one iteration of get_container_reference_sequence_context *)
Definition cont_ctx_step (c s : rctx) : sres rctx :=
  match c, s with
  | RSome ci cs ce, RSome si ss se =>
      if ci =? si then SOk (ctx_some ci (N.min cs ss) (N.max ce se)) else SErr ECtxMismatch
  | RNone, RNone => SOk RNone
  | RMany, RMany => SOk RMany
  | _, _ => SErr ECtxMismatch
  end.

Fixpoint cont_ctx_from (c : rctx) (ss : list rctx) : sres rctx :=
  match ss with
  | [] => SOk c
  | s :: tl =>
      match cont_ctx_step c s with
      | SErr e => SErr e
      | SOk c' => cont_ctx_from c' tl
      end
  end.

(* get_container_reference_sequence_context ([] = assert! panic, unreachable) *)
Definition cont_ctx (ss : list rctx) : sres rctx :=
  match ss with
  | [] => SOk RNone
  | s :: tl => cont_ctx_from s tl
  end.

Record cont_hdr := mk_cont_hdr {
  ct_ctx : rctx;                 (* reference_sequence_context *)
  ct_nrec : N;                   (* record_count *)
  ct_counter : N;                (* record_counter *)
  ct_bases : N;                  (* base_count *)
  ct_slices : list slice_hdr     (* the slice headers inside, in order *)
}.

(* calculate_base_count *)
(* /repo 0049c20: a record without a sequence has a read length but no bases *)
Definition base_count (rs : list hrec) : N :=
  fold_right (fun r a => (if hr_missing r then 0 else hr_rl r) + a) 0 rs.

(* container::write_header + slice::write_header: the conversions that can fail *)
Definition cont_fits (h : cont_hdr) : bool :=
  ctx_fits (ct_ctx h) && (ct_nrec h <=? sh_i32_max) && (ct_counter h <=? sh_i64_max)
  && (ct_bases h <=? sh_i64_max) && forallb slice_fits (ct_slices h).

(* build_container (header part) for a non-empty record list; [rps] = records_per_slice *)
Definition build_container_hdr (refsq : list (N * list N)) (rps : nat) (counter : N)
  (rs : list hrec) : sres cont_hdr :=
  match build_slices refsq counter (chunks rps rs) with
  | SErr e => SErr e
  | SOk shs =>
      match cont_ctx (map sl_ctx shs) with
      | SErr e => SErr e
      | SOk c =>
          let h := mk_cont_hdr c (lenN rs) counter (base_count rs) shs in
          if cont_fits h then SOk h else SErr EInt
      end
  end.

(* ---------------------------------------------------------------- the record stream *)
(* Writer::add_record flushes a container whenever records.len() reaches the capacity
   slices_per_container * records_per_slice; try_finish flushes the rest (write_container writes
   nothing for an empty list); Writer::flush advances record_counter by the container's length *)
Fixpoint write_containers (refsq : list (N * list N)) (rps : nat) (counter : N)
  (conts : list (list hrec)) : sres (list cont_hdr) :=
  match conts with
  | [] => SOk []
  | c :: tl =>
      match build_container_hdr refsq rps counter c with
      | SErr e => SErr e
      | SOk h =>
          match write_containers refsq rps (counter + lenN c) tl with
          | SErr e => SErr e
          | SOk hs => SOk (h :: hs)
          end
      end
  end.

(* [spc] = slices per container (DEFAULT_SLICES_PER_CONTAINER = 1 is the only value the public
   API offers) *)
Definition write_stream (refsq : list (N * list N)) (rps spc : nat) (rs : list hrec)
  : sres (list cont_hdr) :=
  write_containers refsq rps 0 (chunks (spc * rps) rs).

(* ---------------------------------------------------------------- from the SAM record *)
(* the fields of an alignment record that reach the headers *)
Record srec := mk_srec {
  sr_unmapped : bool;   (* FLAG 0x4 *)
  sr_ref : option N; sr_start : option N; sr_ops : list op; sr_seq : list N; sr_quals : list N
}.
Definition srec_of (u : bool) (r s : option N) (ops : list op) (sq ql : list N) : srec :=
  mk_srec u r s ops sq ql.

(* Record::try_from_alignment_record (Features.convert_core, /repo 405565a): a record that is not
   flagged unmapped and has no reference id / start / CIGAR stores its bases as one soft clip
   (span 0, so its alignment end is its start); a record with a CIGAR and SEQ `*` takes its read
   length from the CIGAR; otherwise the features come from cigar_to_features *)
Definition sh_convert (refsq : list (N * list N)) (s : srec) : sres hrec :=
  let placed := match sr_ref s, sr_start s with
                | Some id, Some st => Some (option_map snd (nth_error refsq (N.to_nat id)), st)
                | _, _ => None
                end in
  match convert_core (sr_unmapped s) placed (sr_seq s) (sr_quals s) (sr_ops s) with
  | Some (rl, missing, _, ws) => SOk (mk_hrec (sr_ref s) (sr_start s) rl ws missing)
  | None =>
      (* the error reasons are not observable (all InvalidInput) *)
      match placed with
      | Some (None, _) => SErr EInvalidRefId
      | _ => SErr ERecord
      end
  end.

Fixpoint sh_convert_all (refsq : list (N * list N)) (ss : list srec) : sres (list hrec) :=
  match ss with
  | [] => SOk []
  | s :: tl =>
      match sh_convert refsq s, sh_convert_all refsq tl with
      | SOk r, SOk rs => SOk (r :: rs)
      | SErr e, _ => SErr e
      | _, SErr e => SErr e
      end
  end.

(* a whole file written with DEFAULT_SLICES_PER_CONTAINER; every error is Err(InvalidInput) of some
   write_alignment_record / try_finish call *)
Definition shdr_run (refsq : list (N * list N)) (rps : nat) (ss : list srec)
  : sres (list cont_hdr) :=
  match sh_convert_all refsq ss with
  | SErr e => SErr e
  | SOk rs => write_stream refsq rps 1 rs
  end.

(* ---------------------------------------------------------------- the observation *)
(* one line per header: container (is_cont = true) then its slices *)
Record row := mk_row {
  rw_cont : bool; rw_ref : Z; rw_start : Z; rw_span : Z; rw_nrec : N; rw_counter : N;
  rw_embedded : Z; rw_md5 : bool      (* slices only: true = a digest, false = 16 zero bytes *)
}.

Definition slice_row (h : slice_hdr) : row :=
  let '(i, s, n) := ctx_triple (sl_ctx h) in
  mk_row false i s n (sl_nrec h) (sl_counter h) (sl_embedded h)
         (match sl_md5 h with MdNone => false | MdOver _ => true end).

Definition cont_rows (h : cont_hdr) : list row :=
  let '(i, s, n) := ctx_triple (ct_ctx h) in
  mk_row true i s n (ct_nrec h) (ct_counter h) 0%Z false :: map slice_row (ct_slices h).

Definition shdr_rows (refsq : list (N * list N)) (rps : nat) (ss : list srec) : sres (list row) :=
  match shdr_run refsq rps ss with
  | SErr e => SErr e
  | SOk hs => SOk (flat_map cont_rows hs)
  end.
