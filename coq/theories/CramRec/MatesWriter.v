(* C07 — the writer set_mates of /repo de003b4 ([Mates.set_mates_w]) and the general round trip of
   the mate columns: whatever records a slice holds, they are read back with the FLAG / RNEXT /
   PNEXT / TLEN they were written with. *)
From Coq Require Import List NArith ZArith Bool Lia Arith.
From Coq Require Import ZifyBool ZifyNat ZifyN.
From NV Require Import CramRec.Features CramRec.Mates CramRec.MatesProofs CramRec.MatesChain.
Import ListNotations.
Open Scope N_scope.

(* ---------------------------------------------------------------- increasing index lists *)
Fixpoint inc (lo : nat) (g : list nat) : Prop :=
  match g with [] => True | a :: tl => (lo <= a)%nat /\ inc (S a) tl end.

Lemma inc_weaken : forall g lo lo', (lo' <= lo)%nat -> inc lo g -> inc lo' g.
Proof. intros [|a tl] lo lo' H; cbn [inc]; [trivial|]. intros [A B]. split; [lia|assumption]. Qed.

Lemma inc_In : forall g lo x, inc lo g -> In x g -> (lo <= x)%nat.
Proof.
  induction g as [|a tl IH]; intros lo x H Hin; [destruct Hin|]. cbn [inc] in H. destruct H as [A B].
  destruct Hin as [->|Hin]; [assumption|]. specialize (IH _ _ B Hin). lia.
Qed.

Lemma inc_filter_seq : forall (f : nat -> bool) len lo, inc lo (filter f (seq lo len)).
Proof.
  intros f. induction len as [|len IH]; intros lo; cbn [seq filter]; [exact I|].
  destruct (f lo); [cbn [inc]; split; [lia|apply IH]|].
  eapply inc_weaken; [|apply IH]. lia.
Qed.

Lemma next_in_spec : forall g lo x y, inc lo g -> next_in g x = Some y ->
  In x g /\ In y g /\ (x < y)%nat.
Proof.
  induction g as [|a tl IH]; intros lo x y H Hn; [discriminate|].
  cbn [next_in] in Hn. destruct tl as [|b tl']; [discriminate|].
  cbn [inc] in H. destruct H as (A & B & C).
  destruct (Nat.eqb_spec a x) as [->|Hne].
  - inversion Hn; subst. split; [now left|]. split; [right; now left|lia].
  - destruct (IH (S a) x y (conj B C : inc (S a) (b :: tl')) Hn) as (I1 & I2 & I3).
    split; [now right|]. split; [now right|assumption].
Qed.

Lemma next_in_inj : forall g lo x x' z, inc lo g ->
  next_in g x = Some z -> next_in g x' = Some z -> x = x'.
Proof.
  induction g as [|a tl IH]; intros lo x x' z H Hx Hx'; [discriminate|].
  cbn [next_in] in Hx, Hx'. destruct tl as [|b tl']; [discriminate|].
  pose proof H as H'. cbn [inc] in H. destruct H as (A & B & C).
  destruct (Nat.eqb_spec a x) as [Eax|Nax]; destruct (Nat.eqb_spec a x') as [Eax'|Nax'].
  - congruence.
  - inversion Hx; subst z. destruct (next_in_spec _ _ _ _ (conj B C : inc (S a) (b :: tl')) Hx') as (I1 & _ & I3).
    pose proof (inc_In _ _ _ (conj (le_n b) C : inc b (b :: tl')) I1). lia.
  - inversion Hx'; subst z. destruct (next_in_spec _ _ _ _ (conj B C : inc (S a) (b :: tl')) Hx) as (I1 & _ & I3).
    pose proof (inc_In _ _ _ (conj (le_n b) C : inc b (b :: tl')) I1). lia.
  - eapply IH; [exact (conj B C : inc (S a) (b :: tl'))|eassumption|eassumption].
Qed.

(* an element that is not the first one has a predecessor *)
Lemma next_in_pred : forall g lo h, inc lo g -> In h g -> h <> hd 0%nat g ->
  exists p, next_in g p = Some h.
Proof.
  induction g as [|a tl IH]; intros lo h H Hin Hne; [destruct Hin|].
  cbn [hd] in Hne. destruct Hin as [->|Hin]; [congruence|].
  destruct tl as [|b tl']; [destruct Hin|].
  cbn [inc] in H. destruct H as (A & B & C).
  destruct (Nat.eq_dec h b) as [->|Hhb].
  - exists a. cbn [next_in]. now rewrite Nat.eqb_refl.
  - destruct (IH (S a) h (conj B C : inc (S a) (b :: tl')) Hin Hhb) as (p & Hp). exists p.
    cbn [next_in]. destruct (next_in_spec _ _ _ _ (conj B C : inc (S a) (b :: tl')) Hp) as (I1 & _).
    pose proof (inc_In _ _ _ (conj B C : inc (S a) (b :: tl')) I1).
    destruct (Nat.eqb_spec a p); [lia|]. exact Hp.
Qed.

(* an element without a successor is the last one *)
Lemma next_in_none_last : forall g lo e, inc lo g -> In e g -> next_in g e = None -> e = last g 0%nat.
Proof.
  induction g as [|a tl IH]; intros lo e H Hin Hn; [destruct Hin|].
  destruct tl as [|b tl']; [destruct Hin as [->|[]]; reflexivity|].
  cbn [inc] in H. destruct H as (A & B & C).
  cbn [next_in] in Hn. destruct (Nat.eqb_spec a e) as [->|Hne]; [discriminate|].
  destruct Hin as [->|Hin]; [congruence|].
  change (last (a :: b :: tl') 0%nat) with (last (b :: tl') 0%nat).
  eapply IH; [exact (conj B C : inc (S a) (b :: tl'))|assumption|assumption].
Qed.

Lemma inc_tl_ne : forall a tl lo x, inc lo (a :: tl) -> In x tl -> x <> a.
Proof.
  intros a tl lo x [A B] Hin. pose proof (inc_In _ _ _ B Hin). lia.
Qed.

(* ---------------------------------------------------------------- names, groups *)
Lemma oname_eqb_eq : forall a b, oname_eqb a b = true <-> a = b.
Proof.
  intros [a|] [b|]; cbn; split; intro H; try discriminate; try reflexivity.
  - destruct (list_eq_dec N.eq_dec a b); [now subst|discriminate].
  - inversion H; subst. destruct (list_eq_dec N.eq_dec b b); [reflexivity|congruence].
Qed.

Lemma group_In : forall rs k x, In x (group rs k) <->
  (x < length rs)%nat /\ segment (rget rs x) = true /\ m_name (rget rs x) = k.
Proof.
  intros rs k x. unfold group. rewrite filter_In, in_seq. unfold in_group.
  rewrite andb_true_iff, oname_eqb_eq. intuition lia.
Qed.

Lemma group_inc : forall rs k, inc 0 (group rs k).
Proof. intros. apply inc_filter_seq. Qed.

Lemma group_same : forall rs k x, In x (group rs k) -> group rs (m_name (rget rs x)) = group rs k.
Proof. intros rs k x H. apply group_In in H. destruct H as (_ & _ & H). now rewrite H. Qed.

(* ---------------------------------------------------------------- mates_are_resolvable *)
Definition cond0 (r mate : mrec) : bool :=
  Bool.eqb (is_mate_reverse (m_flags r)) (is_reverse (m_flags mate))
  && Bool.eqb (is_mate_unmapped (m_flags r)) (is_unmapped (m_flags mate))
  && oN_eqb (m_mref r) (m_ref mate) && oN_eqb (m_mstart r) (m_start mate).

Lemma link_cond_split : forall r m t, link_cond r m t = cond0 r m && Z.eqb (m_tlen r) t.
Proof. reflexivity. Qed.

Lemma res_from : forall rs first t idx b, resolvable_from rs first t b idx = true ->
  (forall x y, next_in idx x = Some y -> cond0 (rget rs x) (rget rs y) = true) /\
  (idx <> [] -> cond0 (rget rs (last idx 0%nat)) (rget rs first) = true) /\
  (forall x, In x (if b then tl idx else idx) -> m_tlen (rget rs x) = (- t)%Z) /\
  (b = true -> forall a tl', idx = a :: tl' -> m_tlen (rget rs a) = t).
Proof.
  intros rs first t. induction idx as [|a rest IH]; intros b H.
  - split; [discriminate|]. split; [congruence|]. split; [destruct b; intros x []|discriminate].
  - cbn [resolvable_from] in H. rewrite link_cond_split, !andb_true_iff, Z.eqb_eq in H.
    destruct H as ((Hc & Ht) & Hr). destruct (IH false Hr) as (I1 & I2 & I3 & _).
    split; [|split; [|split]].
    + intros x y Hn. cbn [next_in] in Hn. destruct rest as [|b' tl']; [discriminate|].
      destruct (Nat.eqb_spec a x) as [->|Hne]; [inversion Hn; subst; exact Hc|].
      now apply I1.
    + intros _. destruct rest as [|b' tl']; [exact Hc|].
      change (last (a :: b' :: tl') 0%nat) with (last (b' :: tl') 0%nat). apply I2. discriminate.
    + intros x Hin. destruct b; cbn [tl] in Hin; [now apply I3|].
      destruct Hin as [->|Hin]; [exact Ht|now apply I3].
    + intros Hb a' tl' E. inversion E; subst. exact Ht.
Qed.

Lemma lor_pow2_noop : forall f k, N.testbit f k = true -> N.lor f (2 ^ k) = f.
Proof.
  intros f k H. apply N.bits_inj. intro i. rewrite N.lor_spec, N.pow2_bits_eqb.
  destruct (N.eqb_spec k i) as [->|Hne]; [now rewrite H|now rewrite orb_false_r].
Qed.

Lemma eqb_true_eq : forall a b, Bool.eqb a b = true -> a = b.
Proof. intros [] []; cbn; congruence. Qed.

Lemma cond0_spec : forall r mate, cond0 r mate = true ->
  m_flags (set_mate r mate) = m_flags r /\ m_mref r = m_ref mate /\ m_mstart r = m_start mate.
Proof.
  intros r mate H. unfold cond0 in H. rewrite !andb_true_iff, !oN_eqb_eq in H.
  destruct H as (((H1 & H2) & H3) & H4). apply eqb_true_eq in H1. apply eqb_true_eq in H2.
  split; [|now split]. unfold set_mate. cbn [m_flags]. unfold MATE_REVERSE, MATE_UNMAPPED.
  unfold is_mate_reverse in H1. unfold is_mate_unmapped in H2.
  destruct (is_reverse (m_flags mate)).
  - change 32 with (2 ^ 5). rewrite (lor_pow2_noop _ _ H1).
    destruct (is_unmapped (m_flags mate)); [|reflexivity].
    change 8 with (2 ^ 3). now rewrite (lor_pow2_noop _ _ H2).
  - destruct (is_unmapped (m_flags mate)); [|reflexivity].
    change 8 with (2 ^ 3). now rewrite (lor_pow2_noop _ _ H2).
Qed.

(* ---------------------------------------------------------------- store_w *)
Lemma store_all_w_nth : forall rs st x,
  store_all_w rs = Some st -> (x < length rs)%nat -> store_w (rget rs x) = Some (rget st x).
Proof.
  induction rs as [|r tl IH]; intros st x H Hlt; cbn in Hlt; [lia|].
  cbn [store_all_w] in H. destruct (store_w r) as [r'|] eqn:Er; [|discriminate].
  destruct (store_all_w tl) as [tl'|] eqn:Et; [|discriminate]. inversion H; subst.
  destruct x as [|x]; unfold rget; cbn [nth]; [assumption|]. apply IH; [reflexivity|lia].
Qed.

Lemma store_all_w_length : forall rs st, store_all_w rs = Some st -> length st = length rs.
Proof.
  induction rs as [|r tl IH]; intros st H; cbn [store_all_w] in H.
  - inversion H; reflexivity.
  - destruct (store_w r); [|discriminate]. destruct (store_all_w tl) eqn:E; [|discriminate].
    inversion H; subst. cbn. f_equal. now apply IH.
Qed.

Lemma store_w_spec : forall r r', store_w r = Some r' ->
  m_flags r' = m_flags r /\ m_ref r' = m_ref r /\ m_start r' = m_start r /\ m_rl r' = m_rl r /\
  m_feats r' = (if is_unmapped (m_flags r) then [] else m_feats r) /\
  (m_detached r = true -> mate_view r' = mate_view r /\ m_dist r' = m_dist r) /\
  (m_detached r = false -> m_dist r' = if m_down r then m_dist r else None).
Proof.
  intros r r' H. unfold store_w, store in H.
  destruct (m_detached r) eqn:Hd.
  - destruct (oN_i32 (m_mref r) && oN_i32 (m_mstart r)); [|discriminate].
    inversion H; subst r'. destruct (is_unmapped (m_flags r)) eqn:Eu;
      cbn [with_feats m_flags m_ref m_start m_rl m_feats m_dist]; repeat split; congruence.
  - destruct (oN_i32 (m_dist r)); [|discriminate]. inversion H; subst r'. cbn [m_flags].
    destruct (is_unmapped (m_flags r)) eqn:Eu;
      cbn [with_feats m_flags m_ref m_start m_rl m_feats m_dist]; repeat split; congruence.
Qed.

Lemma stored_end : forall r r', store_w r = Some r' -> r_alignment_end r' = w_alignment_end r.
Proof.
  intros r r' H. destruct (store_w_spec _ _ H) as (A & B & C & D & E & _).
  unfold r_alignment_end, w_alignment_end. rewrite C, D, E.
  destruct (is_unmapped (m_flags r)); reflexivity.
Qed.

Lemma stored_tlen : forall a a' b b', store_w a = Some a' -> store_w b = Some b' ->
  tlen_calc a' b' = w_tlen_calc a b.
Proof.
  intros a a' b b' Ha Hb. unfold tlen_calc, w_tlen_calc.
  rewrite (stored_end _ _ Ha), (stored_end _ _ Hb).
  destruct (store_w_spec _ _ Ha) as (_ & _ & Ca & _). destruct (store_w_spec _ _ Hb) as (_ & _ & Cb & _).
  now rewrite Ca, Cb.
Qed.

(* ---------------------------------------------------------------- set_mates_w, record by record *)
Definition Gx (rs : list mrec) (x : nat) : list nat := group rs (m_name (rget rs x)).
Definition lk (rs : list mrec) (x : nat) : bool := segment (rget rs x) && linked_group rs (Gx rs x).
Definition nx (rs : list mrec) (x : nat) : option nat := if lk rs x then next_in (Gx rs x) x else None.

Lemma set_mates_w_length : forall rs, length (set_mates_w rs) = length rs.
Proof. intros. unfold set_mates_w. now rewrite map_length, seq_length. Qed.

Lemma nth_map_seq : forall A (f : nat -> A) n x d, (x < n)%nat -> nth x (map f (seq 0 n)) d = f x.
Proof.
  intros A f n x d H. rewrite (nth_indep _ d (f 0%nat)) by (now rewrite map_length, seq_length).
  rewrite (map_nth f (seq 0 n) 0%nat x). now rewrite seq_nth.
Qed.

Lemma set_mates_w_get : forall rs x, (x < length rs)%nat ->
  rget (set_mates_w rs) x =
    if lk rs x then
      match next_in (Gx rs x) x with
      | Some y => clear_detached (set_downstream (y - x - 1) (set_detached (rget rs x)))
      | None => clear_detached (set_detached (rget rs x))
      end
    else set_detached (rget rs x).
Proof.
  intros rs x Hx. unfold rget at 1, set_mates_w. rewrite nth_map_seq by assumption. reflexivity.
Qed.

Lemma lk_overflow : forall rs x, (length rs <= x)%nat -> lk rs x = false.
Proof. intros rs x H. unfold lk, rget. now rewrite nth_overflow. Qed.

Lemma in_own_group : forall rs x, lk rs x = true -> (x < length rs)%nat -> In x (Gx rs x).
Proof.
  intros rs x H Hx. unfold lk in H. apply andb_true_iff in H. destruct H as [Hs _].
  apply group_In. repeat split; assumption.
Qed.

(* all members of a template share its fate *)
Lemma group_members : forall rs x y, In y (Gx rs x) -> Gx rs y = Gx rs x /\ (lk rs x = true -> lk rs y = true).
Proof.
  intros rs x y H. pose proof (group_same _ _ _ H) as E. split; [exact E|].
  unfold lk. fold (Gx rs y) in E. rewrite E. rewrite !andb_true_iff. intros [_ Hl].
  split; [|assumption]. apply group_In in H. apply H.
Qed.

Lemma nx_lt : forall rs x y, nx rs x = Some y -> (x < y < length rs)%nat /\ In x (Gx rs x) /\ In y (Gx rs x) /\ lk rs x = true.
Proof.
  intros rs x y H. unfold nx in H. destruct (lk rs x) eqn:El; [|discriminate].
  destruct (next_in_spec _ _ _ _ (group_inc rs _) H) as (A & B & C).
  split; [|now repeat split]. split; [assumption|]. apply group_In in B. apply B.
Qed.

Lemma nx_in_group : forall rs x a, lk rs x = true -> In a (Gx rs x) -> nx rs a = next_in (Gx rs x) a.
Proof.
  intros rs x a Hl Hin. destruct (group_members rs x a Hin) as [E1 E2].
  unfold nx. rewrite (E2 Hl), E1. reflexivity.
Qed.

Lemma nx_inj : forall rs x y z, nx rs x = Some z -> nx rs y = Some z -> x = y.
Proof.
  intros rs x y z Hx Hy.
  destruct (nx_lt _ _ _ Hx) as (_ & Ax & Bx & Lx). destruct (nx_lt _ _ _ Hy) as (_ & Ay & By & Ly).
  destruct (group_members rs x z Bx) as [E1 _]. destruct (group_members rs y z By) as [E2 _].
  assert (E : Gx rs x = Gx rs y) by congruence.
  unfold nx in Hx, Hy. rewrite Lx in Hx. rewrite Ly, <- E in Hy.
  eapply next_in_inj; [apply (group_inc rs (m_name (rget rs x)))|eassumption|eassumption].
Qed.

Lemma w_tlen_calc_core : forall a a' b b', core a = core a' -> core b = core b' ->
  w_tlen_calc a b = w_tlen_calc a' b'.
Proof.
  intros a a' b b' Ha Hb. unfold core in Ha, Hb.
  assert (A1 : m_flags a = m_flags a') by congruence. assert (A2 : m_start a = m_start a') by congruence.
  assert (A3 : m_rl a = m_rl a') by congruence. assert (A4 : m_feats a = m_feats a') by congruence.
  assert (B1 : m_flags b = m_flags b') by congruence. assert (B2 : m_start b = m_start b') by congruence.
  assert (B3 : m_rl b = m_rl b') by congruence. assert (B4 : m_feats b = m_feats b') by congruence.
  unfold w_tlen_calc, w_alignment_end. now rewrite A1, A2, A3, A4, B1, B2, B3, B4.
Qed.

Lemma group_two : forall g lo x, inc lo g -> (1 < length g)%nat -> In x g ->
  next_in g x <> None \/ exists p, next_in g p = Some x.
Proof.
  intros g lo x Hi Hl Hin. destruct (Nat.eq_dec x (hd 0%nat g)) as [E|Hne].
  - left. destruct g as [|a [|b tl']]; cbn [length] in Hl; try lia. cbn [hd] in E. subst x.
    cbn [next_in]. rewrite Nat.eqb_refl. discriminate.
  - right. eapply next_in_pred; eassumption.
Qed.

Section Main.
Variable rs st : list mrec.
Hypothesis Hfresh : Forall fresh rs.
Hypothesis Hst : store_all_w (set_mates_w rs) = Some st.

Lemma st_len : length st = length rs.
Proof. now rewrite (store_all_w_length _ _ Hst), set_mates_w_length. Qed.

Lemma fresh_get : forall x, (x < length rs)%nat -> fresh (rget rs x).
Proof. intros x Hx. unfold rget. apply Forall_nth; assumption. Qed.

Lemma st_get : forall x, (x < length rs)%nat -> store_w (rget (set_mates_w rs) x) = Some (rget st x).
Proof. intros x Hx. apply store_all_w_nth; [exact Hst|now rewrite set_mates_w_length]. Qed.

Lemma w_core : forall x, (x < length rs)%nat -> core (rget (set_mates_w rs) x) = core (rget rs x).
Proof.
  intros x Hx. rewrite set_mates_w_get by assumption.
  destruct (lk rs x); [destruct (next_in (Gx rs x) x)|]; reflexivity.
Qed.

Lemma st_over : forall x, (length rs <= x)%nat -> rget st x = rget rs x.
Proof.
  intros x Hx. unfold rget. rewrite !nth_overflow; [reflexivity|assumption|rewrite st_len; assumption].
Qed.

Lemma st_imm : forall x, m_flags (rget st x) = m_flags (rget rs x) /\ m_ref (rget st x) = m_ref (rget rs x) /\
  m_start (rget st x) = m_start (rget rs x).
Proof.
  intros x. destruct (Nat.lt_ge_cases x (length rs)) as [Hx|Hx]; [|now rewrite st_over].
  destruct (store_w_spec _ _ (st_get x Hx)) as (A & B & C & _).
  pose proof (w_core x Hx) as Hc. unfold core in Hc. inversion Hc. repeat split; congruence.
Qed.

Lemma st_tlen : forall a b, (a < length rs)%nat -> (b < length rs)%nat ->
  tlen_calc (rget st a) (rget st b) = w_tlen_calc (rget rs a) (rget rs b).
Proof.
  intros a b Ha Hb. rewrite (stored_tlen _ _ _ _ (st_get a Ha) (st_get b Hb)).
  apply w_tlen_calc_core; now apply w_core.
Qed.

Lemma st_dist : forall x, (x < length rs)%nat ->
  m_dist (rget st x) = match nx rs x with Some y => Some (N.of_nat (y - x - 1)) | None => None end.
Proof.
  intros x Hx. destruct (store_w_spec _ _ (st_get x Hx)) as (_ & _ & _ & _ & _ & D1 & D2).
  destruct (fresh_get x Hx) as (F1 & F2 & F3).
  rewrite set_mates_w_get in D1, D2 by assumption. unfold nx.
  destruct (lk rs x).
  - destruct (next_in (Gx rs x) x) as [y|]; cbn [clear_detached set_downstream set_detached m_detached m_down m_dist] in D2.
    + now rewrite (D2 eq_refl).
    + rewrite (D2 eq_refl). rewrite F2. reflexivity.
  - cbn [set_detached m_detached m_dist] in D1. destruct (D1 eq_refl) as [_ E]. now rewrite E.
Qed.

Lemma st_detached_view : forall x, (x < length rs)%nat -> lk rs x = false ->
  mate_view (rget st x) = mate_view (rget rs x).
Proof.
  intros x Hx Hl. destruct (store_w_spec _ _ (st_get x Hx)) as (_ & _ & _ & _ & _ & D1 & _).
  rewrite set_mates_w_get in D1 by assumption. rewrite Hl in D1.
  destruct (D1 eq_refl) as [E _]. rewrite E. reflexivity.
Qed.

Lemma mi_is_nx : forall mi x, mate_indices_from (length st) 0 st = Some mi -> mi_get mi x = nx rs x.
Proof.
  intros mi x Hmi. rewrite (mate_indices_get _ _ _ _ x Hmi). rewrite st_len.
  destruct (Nat.ltb_spec x (length rs)) as [Hx|Hx].
  - rewrite (st_dist x Hx). destruct (nx rs x) as [y|] eqn:E; [|reflexivity].
    destruct (nx_lt _ _ _ E) as ((A & B) & _). f_equal. lia.
  - unfold nx. rewrite (lk_overflow rs x Hx). now destruct (m_dist (rget st x)).
Qed.

Lemma nx_P1 : forall x y, nx rs x = Some y -> (x < y < length rs)%nat.
Proof. intros x y H. apply (nx_lt _ _ _ H). Qed.

(* a chain stays inside the template of its first record *)
Lemma reach_in_group : forall h, lk rs h = true -> forall a x, reach (nx rs) a x -> In a (Gx rs h) -> In x (Gx rs h).
Proof.
  intros h Hl a x H. induction H as [x|x y z Hn Hr IH]; intro Hin; [assumption|].
  apply IH. rewrite (nx_in_group rs h x Hl Hin) in Hn.
  apply (next_in_spec _ _ _ _ (group_inc rs _) Hn).
Qed.

Lemma main_W1 : forall x y, nx rs x = Some y ->
  m_flags (set_mate (rget st x) (rget st y)) = m_flags (rget st x) /\
  m_mref (rget rs x) = m_ref (rget st y) /\ m_mstart (rget rs x) = m_start (rget st y).
Proof.
  intros x y H. destruct (nx_lt _ _ _ H) as (_ & _ & _ & Hl).
  unfold nx in H. rewrite Hl in H. unfold lk, linked_group, mates_are_resolvable in Hl.
  rewrite !andb_true_iff in Hl. destruct Hl as (_ & _ & Hr).
  destruct (res_from _ _ _ _ _ Hr) as (R1 & _). fold (Gx rs x) in R1.
  destruct (cond0_spec _ _ (R1 x y H)) as (A & B & C).
  destruct (st_imm x) as (Fx & _). destruct (st_imm y) as (Fy & Ry & Sy).
  split; [|split; congruence].
  rewrite (set_mate_flags_ext (rget st x) (rget rs x) (rget st y) (rget rs y)); try congruence.
Qed.

Lemma main_W2 : forall h e, head (nx rs) h -> reach (nx rs) h e -> nx rs e = None ->
  m_flags (set_mate (rget st e) (rget st h)) = m_flags (rget st e) /\
  m_mref (rget rs e) = m_ref (rget st h) /\ m_mstart (rget rs e) = m_start (rget st h) /\
  m_tlen (rget rs h) = tlen_calc (rget st e) (rget st h) /\
  forall x, reach (nx rs) h x -> x <> h -> m_tlen (rget rs x) = (- tlen_calc (rget st e) (rget st h))%Z.
Proof.
  intros h e [Hh1 Hh2] Hre Hne.
  destruct (nx rs h) as [m|] eqn:Hm; [|congruence].
  destruct (nx_lt _ _ _ Hm) as ((Hhm & Hmn) & Hin & _ & Hl).
  set (g := Gx rs h) in *.
  pose proof (group_inc rs (m_name (rget rs h))) as Hinc. fold (Gx rs h) in Hinc. fold g in Hinc.
  (* h is the first record of its template, e the last *)
  assert (Hhd : h = hd 0%nat g).
  { destruct (Nat.eq_dec h (hd 0%nat g)) as [E|Hne']; [assumption|].
    destruct (next_in_pred g 0%nat h Hinc Hin Hne') as (p & Hp).
    destruct (next_in_spec _ _ _ _ Hinc Hp) as (Hpin & _).
    exfalso. apply (Hh2 p). pose proof (nx_in_group rs h p Hl Hpin) as E. fold g in E. congruence. }
  assert (Hein : In e g) by (eapply reach_in_group; eassumption).
  assert (Hlast : e = last g 0%nat).
  { apply (next_in_none_last g 0%nat e Hinc Hein).
    pose proof (nx_in_group rs h e Hl Hein) as E. fold g in E. congruence. }
  assert (Hen : (e < length rs)%nat) by (apply group_In in Hein; apply Hein).
  pose proof Hl as Hl'. unfold lk, linked_group, mates_are_resolvable in Hl'.
  rewrite !andb_true_iff in Hl'. destruct Hl' as (_ & Hlen & Hr). fold g in Hr, Hlen.
  rewrite <- Hhd, <- Hlast in Hr.
  destruct (res_from _ _ _ _ _ Hr) as (_ & R2 & R3 & R4).
  assert (Hg : g <> []) by (intro E; rewrite E in Hin; destruct Hin).
  rewrite <- Hlast in R2.
  destruct (cond0_spec _ _ (R2 Hg)) as (A & B & C).
  destruct (st_imm e) as (Fe & _). destruct (st_imm h) as (Fh & Rh & Sh).
  assert (Ht : tlen_calc (rget st e) (rget st h) = w_tlen_calc (rget rs h) (rget rs e)).
  { rewrite tlen_calc_sym. apply st_tlen; lia. }
  split; [|split; [congruence|split; [congruence|split]]].
  - rewrite (set_mate_flags_ext (rget st e) (rget rs e) (rget st h) (rget rs h)); congruence.
  - rewrite Ht. destruct g as [|a tl'] eqn:Eg; [congruence|]. cbn [hd] in Hhd. subst a.
    apply (R4 eq_refl h tl' eq_refl).
  - intros x Hx Hxh. rewrite Ht. apply R3.
    assert (Hxin : In x g) by (eapply reach_in_group; eassumption).
    destruct g as [|a tl'] eqn:Eg; [destruct Hxin|]. cbn [hd] in Hhd. subst a.
    destruct Hxin as [E|Hx']; [congruence|exact Hx'].
Qed.

Theorem slice_rt_views : forall out, resolve_mates st = Some out -> map mate_view out = map mate_view rs.
Proof.
  intros out H. unfold resolve_mates in H.
  destruct (mate_indices_from (length st) 0 st) as [mi|] eqn:Hmi; [|discriminate].
  injection H as Hout. rewrite st_len in Hout. subst out.
  assert (Hmil : length mi = length rs).
  { assert (G : forall n rs0 i mi0, mate_indices_from n i rs0 = Some mi0 -> length mi0 = length rs0).
    { intros n0. induction rs0 as [|r tl IH]; intros i mi0 E; cbn [mate_indices_from] in E.
      - inversion E; reflexivity.
      - destruct (mate_indices_from n0 (S i) tl) as [rest|] eqn:Er; [|discriminate].
        specialize (IH _ _ Er).
        destruct (m_dist r); [destruct (_ <? n0)%nat; [|discriminate]|]; inversion E; subst; cbn; now rewrite IH. }
    rewrite (G _ _ _ _ Hmi). apply st_len. }
  pose proof (fun x => mi_is_nx mi x Hmi) as Hnx.
  pose proof (resolve_length (length rs) (nx rs) nx_P1 (nx_inj rs) st rs
                (fun x => proj1 (st_imm x)) main_W1 main_W2 mi Hnx Hmil st_len) as Hol.
  apply (nth_ext _ _ (mate_view dflt_mrec) (mate_view dflt_mrec)); [rewrite !map_length; exact Hol|].
  intros x Hx. rewrite map_length, Hol in Hx. rewrite !map_nth.
  change (mate_view (rget (fst (fold_left resolve_step (seq 0 (length rs)) (st, mi))) x) = mate_view (rget rs x)).
  (* touched by the reader or not *)
  destruct (lk rs x) eqn:El.
  - assert (Hin : In x (Gx rs x)) by (now apply in_own_group).
    pose proof El as El'. unfold lk, linked_group in El'. rewrite !andb_true_iff in El'.
    destruct El' as (_ & Hlen & _). apply Nat.ltb_lt in Hlen.
    assert (Ht : nx rs x <> None \/ exists p, nx rs p = Some x).
    { destruct (group_two _ _ x (group_inc rs _) Hlen Hin) as [A|(p & Hp)].
      - left. unfold nx. now rewrite El.
      - right. exists p. destruct (next_in_spec _ _ _ _ (group_inc rs _) Hp) as (Hpin & _).
        now rewrite (nx_in_group rs x p El Hpin). }
    apply (resolve_chains (length rs) (nx rs) nx_P1 (nx_inj rs) st rs
             (fun y => proj1 (st_imm y)) main_W1 main_W2 mi Hnx Hmil st_len x Ht).
  - assert (Hun : untouched mi x).
    { split.
      - rewrite Hnx. unfold nx. now rewrite El.
      - intros j Hj. rewrite Hnx in Hj. destruct (nx_lt _ _ _ Hj) as (_ & _ & Hxin & Hlj).
        destruct (group_members rs j x Hxin) as [_ E]. rewrite (E Hlj) in El. discriminate. }
    rewrite (resolve_fold_frame mi x _ st mi (sub_mi_refl mi) Hun).
    now apply st_detached_view.
Qed.

End Main.

(* THE ROUND TRIP OF THE MATE COLUMNS, any slice: records as try_from_alignment_record makes them,
   through set_mates (/repo de003b4), write_mate, read_mate and resolve_mates, come back with the
   FLAG, RNEXT, PNEXT and TLEN they had - however many records share a name, linked or not. *)
Theorem mates_roundtrip_general : forall rs out,
  Forall fresh rs -> slice_rt rs = MOk out -> map mate_view out = map mate_view rs.
Proof.
  intros rs out Hf H. unfold slice_rt in H.
  destruct (store_all_w (set_mates_w rs)) as [st|] eqn:Hst; [|discriminate].
  destruct (resolve_mates st) as [o|] eqn:Hr; [|discriminate]. inversion H; subst o.
  eapply slice_rt_views; eassumption.
Qed.

(* the reader never answers InvalidData "invalid mate distance" on what this writer stored *)
Theorem written_slice_resolves_w : forall rs, Forall fresh rs -> slice_rt rs <> MReadErr.
Proof.
  intros rs Hf. unfold slice_rt.
  destruct (store_all_w (set_mates_w rs)) as [st|] eqn:Hst; [|discriminate].
  unfold resolve_mates.
  destruct (mate_indices_ok (length st) st 0) as [mi Hmi].
  { intros x d Hx Hd. rewrite (st_len rs st Hst) in Hx |- *.
    rewrite (st_dist rs st Hf Hst x Hx) in Hd.
    destruct (nx rs x) as [y|] eqn:E; [|discriminate]. inversion Hd; subst d.
    destruct (nx_lt _ _ _ E) as ((A & B) & _). lia. }
  rewrite Hmi. discriminate.
Qed.

(* set_mates changes nothing but the CRAM flags and the mate distance; a record is attached iff
   its template is linked, and then it points at the next record of the template *)
Theorem set_mates_w_wf : forall rs, Forall fresh rs ->
  length (set_mates_w rs) = length rs /\
  forall x, (x < length rs)%nat ->
    core (rget (set_mates_w rs) x) = core (rget rs x) /\
    m_detached (rget (set_mates_w rs) x) = negb (lk rs x) /\
    m_dist (rget (set_mates_w rs) x) =
      match nx rs x with Some y => Some (N.of_nat (y - x - 1)) | None => None end /\
    (forall y, nx rs x = Some y ->
       (x < y < length rs)%nat /\ m_down (rget (set_mates_w rs) x) = true /\
       m_detached (rget (set_mates_w rs) y) = false).
Proof.
  intros rs Hf. split; [apply set_mates_w_length|]. intros x Hx.
  assert (Hfx : fresh (rget rs x)) by (unfold rget; apply Forall_nth; assumption).
  destruct Hfx as (F1 & F2 & F3).
  split; [|split; [|split]].
  - rewrite set_mates_w_get by assumption.
    destruct (lk rs x); [destruct (next_in (Gx rs x) x)|]; reflexivity.
  - rewrite set_mates_w_get by assumption.
    destruct (lk rs x); [destruct (next_in (Gx rs x) x)|]; reflexivity.
  - rewrite set_mates_w_get by assumption. unfold nx.
    destruct (lk rs x); [destruct (next_in (Gx rs x) x)|]; cbn; try reflexivity; assumption.
  - intros y Hy. destruct (nx_lt _ _ _ Hy) as ((A & B) & _ & Hyin & Hl).
    split; [lia|]. split.
    + rewrite set_mates_w_get by assumption. unfold nx in Hy. rewrite Hl in *. rewrite Hy. reflexivity.
    + destruct (group_members rs x y Hyin) as [_ E]. rewrite set_mates_w_get by assumption.
      rewrite (E Hl). now destruct (next_in (Gx rs y) y).
Qed.

(* from the SAM records *)
Lemma convert_fresh : forall refs s r, convert refs s = Some r ->
  fresh r /\ mate_view r = (s_flags s, s_mref s, s_mstart s, s_tlen s).
Proof.
  intros refs s r H. unfold convert in H.
  destruct (convert_core _ _ _ _ _) as [[[[rl ms] q] ws]|]; [|discriminate].
  destruct (encode_features _ _); [|discriminate]. inversion H; subst. repeat split.
Qed.

Lemma convert_all_fresh : forall refs ss rs, convert_all refs ss = Some rs ->
  Forall fresh rs /\
  map mate_view rs = map (fun s => (s_flags s, s_mref s, s_mstart s, s_tlen s)) ss.
Proof.
  intros refs. induction ss as [|s tl IH]; intros rs H; cbn [convert_all] in H.
  - inversion H; subst. split; [constructor|reflexivity].
  - destruct (convert refs s) as [r|] eqn:Er; [|discriminate].
    destruct (convert_all refs tl) as [rs'|] eqn:Et; [|discriminate]. inversion H; subst.
    destruct (convert_fresh _ _ _ Er) as [A B]. destruct (IH _ eq_refl) as [C D].
    split; [now constructor|]. cbn [map]. now rewrite B, D.
Qed.

(* one slice of SAM records through Record::try_from_alignment_record, set_mates, write_mate,
   read_mate and resolve_mates: whenever the writer accepts the records, the reader returns the
   FLAG / RNEXT / PNEXT / TLEN columns of the input, and it never fails *)
Theorem mates_rt_columns : forall refs ss,
  mates_rt refs ss <> MReadErr /\
  forall out, mates_rt refs ss = MOk out ->
    map mate_view out = map (fun s => (s_flags s, s_mref s, s_mstart s, s_tlen s)) ss.
Proof.
  intros refs ss. unfold mates_rt.
  destruct (convert_all refs ss) as [rs|] eqn:E; [|split; [discriminate|discriminate]].
  destruct (convert_all_fresh _ _ _ E) as [Hf Hv].
  split; [now apply written_slice_resolves_w|].
  intros out H. rewrite <- Hv. now apply mates_roundtrip_general.
Qed.
