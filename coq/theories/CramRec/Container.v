(* C07 — model of the container bookkeeping of the CRAM writer.

   noodles-cram/src/io/writer/container.rs        build_container, calculate_base_count
   noodles-cram/src/io/writer/container/block.rs  Block::size, itf8_size_of, write_block
   noodles-cram/src/io/writer.rs                  Writer::flush (record counter), add_record

   Blocks are abstract: (compression method, content type, content id, raw size, payload).
   What the codecs put in the payload is property C08's business.  CRC-32 is a parameter of
   [write_block].  Sizes that do not fit an i32 make Block::size return Err = [None].
   Definitions only; proofs are in ContainerProofs.v. *)
From Coq Require Import List NArith ZArith Bool.
Import ListNotations.
Open Scope N_scope.

Record block := mkblock {
  b_method : N;       (* 0 raw, 1 gzip, 2 bzip2, 3 lzma, 4 rans4x8, 5 ransNx16, 6 aac, 7 fqzcomp, 8 tok *)
  b_type : N;         (* 0 file header, 1 compression header, 2 slice header, 4 external, 5 core *)
  b_id : N;           (* content id, as the u32 view of the i32 *)
  b_raw : N;          (* uncompressed_size *)
  b_data : list N     (* src: the (compressed) payload *)
}.

Definition blen (b : block) : N := N.of_nat (length (b_data b)).

(* itf8_size_of on the u32 view of the i32 argument (n >> k == 0 with an arithmetic shift holds
   exactly for 0 <= n < 2^k) *)
Definition itf8_size_of (u : N) : N :=
  if u <? 128 then 1 else if u <? 16384 then 2 else if u <? 2097152 then 3
  else if u <? 268435456 then 4 else 5.

(* write_itf8 (io/writer/num/itf8.rs) on the u32 view *)
Definition itf8_bytes (u : N) : list N :=
  if u <? 128 then [u]
  else if u <? 16384 then [128 + u / 256; u mod 256]
  else if u <? 2097152 then [192 + u / 65536; (u / 256) mod 256; u mod 256]
  else if u <? 268435456 then [224 + u / 16777216; (u / 65536) mod 256; (u / 256) mod 256; u mod 256]
  else [240 + u / 268435456; (u / 1048576) mod 256; (u / 4096) mod 256; (u / 16) mod 256; u mod 16].

Definition le32 (v : N) : list N :=
  [v mod 256; (v / 256) mod 256; (v / 65536) mod 256; (v / 16777216) mod 256].

Definition i32_max : N := 2147483647.

(* Block::size: Err when a size does not fit an i32 *)
Definition block_size (b : block) : option N :=
  if (blen b <=? i32_max) && (b_raw b <=? i32_max) then
    Some (1 + 1 + itf8_size_of (b_id b) + itf8_size_of (blen b) + itf8_size_of (b_raw b) + blen b + 4)
  else None.

Section Crc.
  Variable crc32 : list N -> N.

  (* write_block: header, payload, then the CRC-32 of everything before it *)
  Definition block_prefix (b : block) : list N :=
    [b_method b; b_type b] ++ itf8_bytes (b_id b) ++ itf8_bytes (blen b) ++ itf8_bytes (b_raw b)
    ++ b_data b.
  Definition write_block (b : block) : list N := block_prefix b ++ le32 (crc32 (block_prefix b)).
End Crc.

Record slice := mkslice { s_header : block; s_core : block; s_ext : list block }.

Definition slice_blocks (s : slice) : list block := s_header s :: s_core s :: s_ext s.

Definition opt_add (a b : option N) : option N :=
  match a, b with Some x, Some y => Some (x + y) | _, _ => None end.

Fixpoint sum_sizes (bs : list block) : option N :=
  match bs with [] => Some 0 | b :: r => opt_add (block_size b) (sum_sizes r) end.

(* the loop of build_container: (container_size so far, landmarks so far (reversed), blocks so
   far (reversed)); [last] tells whether this is the last slice *)
Fixpoint bc_loop (slices : list slice) (csize : N) (lms : list N) : option (N * list N) :=
  match slices with
  | [] => Some (csize, lms)
  | s :: rest =>
      match sum_sizes (slice_blocks s) with
      | None => None
      | Some ssz =>
          let csize' := csize + ssz in
          match rest with
          | [] => Some (csize', lms)
          | _ => bc_loop rest csize' (lms ++ [csize'])
          end
      end
  end.

Record cheader := mkch {
  h_length : N; h_records : N; h_counter : N; h_bases : N; h_blocks : N; h_landmarks : list N
}.

(* build_container: [ch] = compression header block, [read_lengths] = read_length of each record
   of the container, [counter] = record counter.  Returns the header fields and the block list. *)
Definition build_container (ch : block) (slices : list slice) (read_lengths : list N) (counter : N)
  : option (cheader * list block) :=
  match block_size ch with
  | None => None
  | Some c0 =>
      match bc_loop slices c0 [c0] with
      | None => None
      | Some (csize, lms) =>
          let blocks := ch :: flat_map slice_blocks slices in
          Some (mkch csize (N.of_nat (length read_lengths)) counter
                     (fold_right N.add 0 read_lengths) (N.of_nat (length blocks)) lms,
                blocks)
      end
  end.

(* records.chunks_mut(records_per_slice): lengths of the chunks of n records *)
Fixpoint chunk_lens (fuel : nat) (rps n : N) : list N :=
  match fuel with
  | O => []
  | S f => if n =? 0 then [] else if n <=? rps then [n] else rps :: chunk_lens f rps (n - rps)
  end.

(* slice record counters: slice_record_counter starts at the container's and grows by chunk.len() *)
Fixpoint slice_counters (c : N) (lens : list N) : list N :=
  match lens with [] => [] | l :: r => c :: slice_counters (c + l) r end.

(* Writer::flush: the next container's counter *)
Definition next_counter (c : N) (read_lengths : list N) : N := c + N.of_nat (length read_lengths).

(* offset of block number k in the serialised body *)
Fixpoint prefix_size (bs : list block) (k : nat) : option N :=
  match k, bs with
  | O, _ => Some 0
  | S k', b :: r => opt_add (block_size b) (prefix_size r k')
  | S _, [] => None
  end.

(* index of slice i's header block in the container's block list *)
Fixpoint header_index (slices : list slice) (i : nat) : nat :=
  match i, slices with
  | O, _ => 1
  | S i', s :: r => length (slice_blocks s) + header_index r i'
  | S _, [] => 1
  end.

(* the observation compared with real files: descriptors (type, id, payload size, raw size) *)
Definition mk_desc_block (ty id csz raw : N) : block :=
  mkblock 0 ty id raw (repeat 0 (N.to_nat csz)).
