(* The CSI writer does not store a bin's own loffset but the minimum over the bin and the chain
   of its present ancestors (noodles-csi io/writer/index/reference_sequences/bins.rs::
   first_record_start_position).  Model of that function and of the index as it reads back. *)
From Coq Require Import List Arith NArith Bool.
From NV Require Import Index.Bins Index.Chunks Index.Indexer.
Import ListNotations.
Open Scope N_scope.

(* walk up while the parent is present in the index; fuel = depth is enough (a bin has at most
   depth ancestors) *)
Fixpoint chain_min (fuel : nat) (lm : loffmap) (id cur : N) : N :=
  match fuel with
  | O => cur
  | S f =>
      match parent_id id with
      | None => cur
      | Some p =>
          match loff_get lm p with
          | None => cur
          | Some v => chain_min f lm p (if v <? cur then v else cur)
          end
      end
  end.

(* the Rust loop is unbounded; ids are < 2^64 and a parent is (id-1)/8, so 64 steps always suffice *)
Definition stored_loffset (lm : loffmap) (id : N) : N :=
  chain_min 64 lm id (match loff_get lm id with Some v => v | None => 0 end).

(* what BinnedIndex holds after write + read: one entry per written bin, in bin order *)
Definition reread_loffs (bm : binmap) (lm : loffmap) : loffmap :=
  map (fun kv => (fst kv, stored_loffset lm (fst kv))) bm.
