(* Proofs about NV.Index.Formats: region query = scan filter and the unmapped query, at the level
   of the format's records (BAM: reference id, POS, CIGAR, flag). *)
From Coq Require Import List Arith NArith Bool Lia Sorted.
From Coq Require Import ZifyBool ZifyNat ZifyN.
From NV Require Import Index.Bins Index.Chunks Index.Indexer Index.QueryProofs Index.BinnedProofs
  Index.AlignEnd Index.AlignEndProofs Index.Formats.
Import ListNotations.
Open Scope N_scope.

(* ---- values stored in the linear index / the loffsets are start offsets of indexed records ---- *)
Definition Vals (ix : refidx) (D : rec -> Prop) : Prop :=
  (forall v, In v (lin ix) -> exists r, D r /\ r_a r = v) /\
  (forall id v, In (id, v) (loffs ix) -> exists r, D r /\ r_a r = v).

Lemma loff_update_in : forall lm id a id' v,
  In (id', v) (loff_update lm id a) -> In (id', v) lm \/ v = a.
Proof.
  induction lm as [|[k w] rest IH]; intros id a id' v H; cbn [loff_update] in H.
  - destruct H as [H|[]]. right. congruence.
  - destruct (k =? id).
    + destruct H as [H|H]; [|left; right; exact H].
      destruct (a <? w); [right; congruence|left; left; exact H].
    + destruct H as [H|H]; [left; left; exact H|].
      destruct (IH _ _ _ _ H) as [H'|H']; [left; right; exact H'|right; exact H'].
Qed.

Lemma vals_step ms d ix (D : rec -> Prop) r :
  Vals ix D -> Vals (update ms d ix r) (fun x => D x \/ x = r).
Proof.
  intros [Hl Ho]. split; unfold update; cbn [lin loffs].
  - intros v Hv. unfold lin_update in Hv.
    destruct (length (lin ix) <? S (N.to_nat (window (r_e r))))%nat.
    + apply in_app_or in Hv. destruct Hv as [Hv|Hv].
      * destruct (Hl v Hv) as (x & Hx & E). exists x. auto.
      * apply repeat_spec in Hv. exists r. auto.
    + destruct (Hl v Hv) as (x & Hx & E). exists x. auto.
  - intros id v Hv. destruct (loff_update_in _ _ _ _ _ Hv) as [H|H].
    + destruct (Ho id v H) as (x & Hx & E). exists x. auto.
    + exists r. auto.
Qed.

Lemma vals_fold ms d : forall recs ix (D : rec -> Prop),
  Vals ix D -> Vals (fold_left (update ms d) recs ix) (fun x => D x \/ In x recs).
Proof.
  induction recs as [|r rest IH]; intros ix D H; cbn [fold_left].
  - destruct H as [H1 H2]. split.
    + intros v Hv. destruct (H1 v Hv) as (x & Hx & E). exists x. auto.
    + intros id v Hv. destruct (H2 id v Hv) as (x & Hx & E). exists x. auto.
  - destruct (IH _ _ (vals_step ms d ix D r H)) as [H1 H2]. split.
    + intros v Hv. destruct (H1 v Hv) as (x & Hx & E). exists x. split; [|exact E].
      cbn [In]. destruct Hx as [[Hx|Hx]|Hx]; auto.
    + intros id v Hv. destruct (H2 id v Hv) as (x & Hx & E). exists x. split; [|exact E].
      cbn [In]. destruct Hx as [[Hx|Hx]|Hx]; auto.
Qed.

Lemma build_vals ms d k file : Vals (build_ref ms d k file) (fun x => In x file).
Proof.
  unfold build_ref.
  destruct (vals_fold ms d (filter (on_ref k) file) empty_ref (fun _ => False)) as [H1 H2].
  { split; cbn; intros; contradiction. }
  split.
  - intros v Hv. destruct (H1 v Hv) as (x & [[]|Hx] & E). exists x. apply filter_In in Hx. tauto.
  - intros id v Hv. destruct (H2 id v Hv) as (x & [[]|Hx] & E). exists x. apply filter_In in Hx. tauto.
Qed.

Lemma list_max_in : forall l m, list_max l = Some m -> In m l.
Proof.
  induction l as [|x rest IH]; intros m H; cbn [list_max] in H; [discriminate|].
  destruct (list_max rest) as [m'|] eqn:E.
  - injection H as H. destruct (m' <? x); [left; exact H|right; apply IH; congruence].
  - left. congruence.
Qed.

Lemma last_first_val kd ms d k file p :
  last_first kd (build_ref ms d k file) = Some p -> exists r, In r file /\ r_a r = p.
Proof.
  destruct (build_vals ms d k file) as [H1 H2]. destruct kd; cbn [last_first]; intros H.
  - destruct (lin (build_ref ms d k file)) as [|v0 rest] eqn:E; [discriminate|].
    injection H as H. apply H1. rewrite <- H.
    change (In (last (v0 :: rest) 0) (v0 :: rest)). apply last_in. discriminate.
  - apply list_max_in in H. apply in_map_iff in H. destruct H as ([id v] & E & Hin).
    cbn [snd] in E. subst v. exact (H2 id p Hin).
Qed.

Lemma find_map_o_some {X Y} (f : X -> option Y) : forall l y,
  find_map_o f l = Some y -> exists x, In x l /\ f x = Some y.
Proof.
  induction l as [|x t IH]; intros y H; cbn [find_map_o] in H; [discriminate|].
  destruct (f x) as [y'|] eqn:E.
  - exists x. split; [left; reflexivity|congruence].
  - destruct (IH y H) as (x' & Hx & Hf). exists x'. split; [right; exact Hx|exact Hf].
Qed.

Lemma filter_res_some {A} (f : A -> option bool) (g : A -> bool) : forall l,
  (forall x, In x l -> f x = Some (g x)) -> filter_res f l = Some (filter g l).
Proof.
  induction l as [|x t IH]; intros H; cbn [filter_res filter]; [reflexivity|].
  rewrite (H x (or_introl eq_refl)). rewrite IH; [reflexivity|]. intros y Hy. apply H. right. exact Hy.
Qed.

Lemma offsets_ordered_weaken' : forall l p p', p' <= p -> offsets_ordered p l -> offsets_ordered p' l.
Proof. destruct l as [|r rest]; intros p p' Hp H; cbn [offsets_ordered] in *; [exact I|]. intuition lia. Qed.

Lemma nth_error_map_seq {B} (f : nat -> B) n k : (k < n)%nat -> nth_error (map f (seq 0 n)) k = Some (f k).
Proof.
  intros H. apply map_nth_error. rewrite nth_error_nth' with (d := O) by (rewrite seq_length; exact H).
  rewrite seq_nth by exact H. reflexivity.
Qed.

Section FmtP.
  Variable A : Type.
  Variable ctx : A -> ctxr.
  Variable oa : A -> N.
  Variable ob : A -> N.

  Notation to_rec := (to_rec A ctx oa ob).
  Notation placed := (placed A ctx oa ob).
  Notation ordered_f := (ordered_f A oa ob).
  Notation fmt_index := (fmt_index A ctx oa ob).
  Notation unplaced_f := (unplaced_f A ctx oa ob).
  Notation in_chunk_f := (in_chunk_f A oa).
  Notation chunk_read_f := (chunk_read_f A oa).

  Lemma to_rec_offs x r : to_rec x = Some r -> r_a r = oa x /\ r_b r = ob x.
  Proof. unfold Formats.to_rec. destruct (ctx x); intros H; try discriminate. injection H as H. subst r. split; reflexivity. Qed.

  Lemma placed_in : forall l r, In r (placed l) <-> exists x, In x l /\ to_rec x = Some r.
  Proof.
    induction l as [|a t IH]; intros r; cbn [Formats.placed In].
    - split; [tauto|intros (x & [] & _)].
    - destruct (to_rec a) as [ra|] eqn:E; cbn [In]; rewrite IH; split.
      + intros [H|(x & Hx & Hr)]; [exists a; subst; auto|exists x; auto].
      + intros (x & [Hx|Hx] & Hr); [subst x; left; congruence|right; exists x; auto].
      + intros (x & Hx & Hr). exists x. auto.
      + intros (x & [Hx|Hx] & Hr); [subst; congruence|exists x; auto].
  Qed.

  Lemma ordered_placed : forall l p, ordered_f p l -> offsets_ordered p (placed l).
  Proof.
    induction l as [|a t IH]; intros p H; cbn [Formats.placed]; [exact I|].
    cbn [Formats.ordered_f] in H. destruct H as (H1 & H2 & H3).
    destruct (to_rec a) as [ra|] eqn:E.
    - destruct (to_rec_offs _ _ E) as [Ea Eb]. cbn [offsets_ordered]. rewrite Ea, Eb. auto.
    - eapply offsets_ordered_weaken'; [|exact (IH _ H3)]. lia.
  Qed.

  Definition oa_lt (x y : A) : Prop := oa x < oa y.

  Lemma ordered_sorted : forall l p, ordered_f p l ->
    StronglySorted oa_lt l /\ Forall (fun x => p <= oa x) l.
  Proof.
    induction l as [|a t IH]; intros p H; cbn [Formats.ordered_f] in H.
    - split; constructor.
    - destruct H as (H1 & H2 & H3). destruct (IH _ H3) as [Hs Hf]. split.
      + constructor; [exact Hs|]. rewrite Forall_forall in *. intros y Hy. specialize (Hf y Hy).
        unfold oa_lt. lia.
      + constructor; [exact H1|]. rewrite Forall_forall in *. intros y Hy. specialize (Hf y Hy). lia.
  Qed.

  Lemma filter_app_split_f (p q : A -> bool) : forall l,
    StronglySorted oa_lt l ->
    (forall x y, In x l -> In y l -> p x = true -> q y = true -> oa x < oa y) ->
    filter p l ++ filter q l = filter (fun r => p r || q r) l.
  Proof.
    induction l as [|h t IH]; intros Hs Hpq; cbn [filter]; [reflexivity|].
    inversion Hs as [|? ? Hs' Hall]; subst.
    assert (IH' := IH Hs' (fun x y Hx Hy => Hpq x y (or_intror Hx) (or_intror Hy))).
    destruct (p h) eqn:Ep.
    - assert (Eq : q h = false).
      { destruct (q h) eqn:Eq; [|reflexivity]. exfalso.
        pose proof (Hpq h h (or_introl eq_refl) (or_introl eq_refl) Ep Eq). lia. }
      rewrite Eq. cbn [orb app]. f_equal. exact IH'.
    - cbn [orb]. destruct (q h) eqn:Eq; [|exact IH'].
      assert (Hnone : filter p t = []).
      { apply filter_none. intros x Hx. destruct (p x) eqn:Epx; [|reflexivity]. exfalso.
        pose proof (Hpq x h (or_intror Hx) (or_introl eq_refl) Epx Eq) as Hlt.
        rewrite Forall_forall in Hall. specialize (Hall x Hx). unfold oa_lt in Hall. lia. }
      rewrite Hnone in *. cbn [app] in *. f_equal. exact IH'.
  Qed.

  Definition covb_f (cs : list chunk) (x : A) : bool := existsb (fun c => in_chunk_f c x) cs.

  (* reading pairwise separated chunks in order over a file in offset order = keeping the records
     whose start offset lies in one of the chunks: nothing twice, file order *)
  Lemma chunk_read_filter_f : forall cs l,
    StronglySorted before cs -> StronglySorted oa_lt l ->
    chunk_read_f cs l = filter (covb_f cs) l.
  Proof.
    induction cs as [|c rest IH]; intros l Hcs Hf; unfold Formats.chunk_read_f; cbn [flat_map covb_f existsb].
    - symmetry. apply filter_none. reflexivity.
    - inversion Hcs as [|? ? Hcs' Hall]; subst.
      fold (chunk_read_f rest l). rewrite (IH l Hcs' Hf).
      apply filter_app_split_f; [exact Hf|].
      intros x y _ _ Hx Hy. unfold Formats.in_chunk_f in Hx. unfold covb_f in Hy.
      apply existsb_exists in Hy. destruct Hy as (c' & Hc' & Hy). unfold Formats.in_chunk_f in Hy.
      rewrite Forall_forall in Hall. specialize (Hall c' Hc'). unfold before in Hall. lia.
  Qed.

  Lemma chunk_read_eof_eq eof : forall cs l,
    Forall (fun c => cend c <= eof) cs -> chunk_read_eof A oa eof cs l = chunk_read_f cs l.
  Proof.
    induction cs as [|c t IH]; intros l H; cbn [Formats.chunk_read_eof]; [reflexivity|].
    inversion H as [|? ? Hc Ht]; subst. replace (eof <? cend c) with false by lia.
    rewrite (IH l Ht). reflexivity.
  Qed.

  Lemma covb_f_covered cs x : covb_f cs x = true <-> covered cs (oa x).
  Proof.
    unfold covb_f, covered, covers. rewrite existsb_exists.
    split; intros (c & Hc & H); exists c; (split; [exact Hc|]); unfold Formats.in_chunk_f in *; lia.
  Qed.

  Lemma fmt_index_nth ms d nref l ixs k :
    fmt_index ms d nref l = Some ixs -> (N.to_nat k < length ixs)%nat ->
    nth_error ixs (N.to_nat k) = Some (build_ref ms d k (placed l)).
  Proof.
    unfold Formats.fmt_index. destruct (index_scan _ _ _ _); [discriminate|]. intros H Hk. injection H as H. subst ixs.
    rewrite map_length, seq_length in Hk. rewrite nth_error_map_seq by exact Hk.
    rewrite N2Nat.id. reflexivity.
  Qed.

  Lemma fmt_index_in ms d nref l ixs ix :
    fmt_index ms d nref l = Some ixs -> In ix ixs -> exists k, ix = build_ref ms d k (placed l).
  Proof.
    unfold Formats.fmt_index. destruct (index_scan _ _ _ _); [discriminate|]. intros H Hin. injection H as H. subst ixs.
    apply in_map_iff in Hin. destruct Hin as (k & E & _). exists (N.of_nat k). auto.
  Qed.

  (* ---- region query = scan filter, for the index the format's indexing loop builds ---- *)
  Section Q.
  Variable hit : N -> region -> A -> option bool.
  Notation fmt_query := (fmt_query A oa hit).
  Theorem fmt_query_equals_scan kd ms d nref l ixs k iv (hitb : A -> bool) :
    ordered_f 0 l -> spans_ok ms d (placed l) ->
    fmt_index ms d nref l = Some ixs -> (N.to_nat k < length ixs)%nat ->
    1 <= iv_start iv -> iv_start iv <= iv_end_query ms d iv -> iv_end_query ms d iv <= max_position ms d ->
    (forall x, In x l -> hit k iv x = Some (hitb x)) ->
    (forall x, In x l -> hitb x = true ->
       exists r, to_rec x = Some r /\ intersects k (iv_start iv) (iv_end_query ms d iv) r = true) ->
    fmt_query kd ms d ixs l k iv = QOk (filter hitb l).
  Proof.
    intros Ho Hsp Hix Hk Hq1 Hq2 Hq3 Hhit Hpl. unfold Formats.fmt_query.
    rewrite (fmt_index_nth _ _ _ _ _ _ Hix Hk). unfold query.
    replace (max_position ms d <? iv_start iv) with false by lia.
    replace (max_position ms d <? iv_end_query ms d iv) with false by lia. cbn [orb].
    set (qs := iv_start iv) in *. set (qe := iv_end_query ms d iv) in *.
    set (out := optimize_chunks _ _).
    destruct (ordered_sorted l 0 Ho) as [Hsorted _].
    rewrite (chunk_read_filter_f out l (optimize_chunks_pairwise _ _) Hsorted).
    rewrite (filter_res_some _ hitb).
    2:{ intros x Hx. apply filter_In in Hx. apply Hhit. tauto. }
    f_equal. rewrite filter_filter. apply filter_ext_in'. intros x Hx.
    destruct (hitb x) eqn:E; [|apply andb_false_r].
    rewrite andb_true_r. apply covb_f_covered.
    destruct (Hpl x Hx E) as (r & Hr & Hint). destruct (to_rec_offs _ _ Hr) as [Ea _]. rewrite <- Ea.
    assert (Hin : In r (placed l)) by (apply placed_in; exists x; auto).
    pose proof (ordered_placed l 0 Ho) as Ho'.
    unfold out. apply query_complete_generic; auto.
    destruct kd; cbn [min_offset].
    - eapply linear_min_offset_sound; eauto.
    - eapply binned_min_offset_sound; eauto.
  Qed.

  End Q.

  (* ---- the unmapped query ---- *)
  Lemma unmapped_start_val kd ms d nref l ixs p :
    fmt_index ms d nref l = Some ixs -> unmapped_start kd ixs = Some p ->
    exists x r, In x l /\ to_rec x = Some r /\ oa x = p.
  Proof.
    intros Hix H. unfold unmapped_start in H. apply find_map_o_some in H.
    destruct H as (ix & Hin & Hlf). apply in_rev in Hin.
    destruct (fmt_index_in _ _ _ _ _ _ Hix Hin) as (k & E). subst ix.
    destruct (last_first_val _ _ _ _ _ _ Hlf) as (r & Hr & Ep).
    apply placed_in in Hr. destruct Hr as (x & Hx & Hxr). exists x, r.
    destruct (to_rec_offs _ _ Hxr) as [Ea _]. repeat split; auto. congruence.
  Qed.

  (* records without an alignment context (the unplaced ones) come after all the others *)
  Definition unplaced_last (l : list A) : Prop :=
    forall x y, In x l -> In y l -> unplaced_f x = false -> unplaced_f y = true -> oa x < oa y.

  Section U.
  Variable unm : A -> bool.
  Notation fmt_query_unmapped := (fmt_query_unmapped A oa unm).

  Theorem fmt_query_unmapped_spec kd ms d nref l ixs h0 :
    ordered_f h0 l -> fmt_index ms d nref l = Some ixs -> unplaced_last l ->
    let res := fmt_query_unmapped kd ixs h0 l in
    (* nothing that is not flagged unmapped *)
    Forall (fun x => unm x = true) res /\
    (* a sub-list of the file: file order, nothing twice (the records from some offset on) *)
    (exists pos, res = filter (fun x => (pos <=? oa x) && unm x) l) /\
    (* every unplaced record flagged unmapped, and of the unplaced ones nothing else *)
    filter unplaced_f res = filter (fun x => unm x && unplaced_f x) l.
  Proof.
    intros Ho Hix Hlast res. unfold res, Formats.fmt_query_unmapped.
    set (pos := match unmapped_start kd ixs with Some p => p | None => h0 end).
    split; [|split].
    - apply Forall_forall. intros x Hx. apply filter_In in Hx. tauto.
    - exists pos. apply filter_filter.
    - rewrite !filter_filter. apply filter_ext_in'. intros x Hx.
      destruct (unplaced_f x) eqn:Eu; [|rewrite !andb_false_r; reflexivity].
      rewrite !andb_true_r. replace (pos <=? oa x) with true; [reflexivity|].
      symmetry. apply N.leb_le. unfold pos.
      destruct (unmapped_start kd ixs) as [p|] eqn:Ep.
      + destruct (unmapped_start_val _ _ _ _ _ _ _ Hix Ep) as (y & r & Hy & Hyr & Eo).
        assert (Hyu : unplaced_f y = false) by (unfold Formats.unplaced_f; rewrite Hyr; reflexivity).
        pose proof (Hlast y x Hy Hx Hyu Eu). lia.
      + destruct (ordered_sorted l h0 Ho) as [_ Hf]. rewrite Forall_forall in Hf. exact (Hf x Hx).
  Qed.

  (* with no placed record at all the seek goes to the first record: the answer is the scan *)
  Theorem fmt_query_unmapped_all kd ixs h0 l :
    ordered_f h0 l -> unmapped_start kd ixs = None ->
    fmt_query_unmapped kd ixs h0 l = filter unm l.
  Proof.
    intros Ho E. unfold Formats.fmt_query_unmapped. rewrite E. f_equal.
    destruct (ordered_sorted l h0 Ho) as [_ Hf]. rewrite Forall_forall in Hf.
    rewrite <- (filter_ext_in' (fun _ => true)).
    - clear. induction l as [|x t IH]; cbn [filter]; [reflexivity|]. f_equal. exact IH.
    - intros x Hx. symmetry. apply N.leb_le. exact (Hf x Hx).
  Qed.
  End U.
End FmtP.

(* ================================= BAM ================================= *)
Definition bam_pos_ok (x : bam_rec) : Prop :=
  (b_rid x <> None -> b_pos x <> None) /\ (forall s, b_pos x = Some s -> 1 <= s /\ s < AlignEnd.usize_lim).

Lemma spec_end_ge s c : s <= spec_end s c.
Proof. unfold spec_end. destruct (ref_len c =? 0) eqn:E; lia. Qed.

Lemma bam_ctx_some x :
  bam_pos_ok x -> bam_ctx x <> CErr ->
  forall k s, b_rid x = Some k -> b_pos x = Some s ->
    alignment_end (Some s) (b_cigar x) = EPos (spec_end s (b_cigar x)) /\
    spec_end s (b_cigar x) < AlignEnd.usize_lim /\
    bam_ctx x = CSome k s (spec_end s (b_cigar x)).
Proof.
  intros [_ Hp] Hne k s Hk Hs. destruct (Hp s Hs) as [H1 H2].
  unfold bam_ctx in *. rewrite Hs, Hk in *.
  rewrite (alignment_end_spec s (b_cigar x) H1 H2) in *.
  destruct (spec_end s (b_cigar x) <? AlignEnd.usize_lim) eqn:E; [|congruence].
  repeat split; auto. lia.
Qed.

Lemma index_scan_ok {A} (ctx : A -> ctxr) : forall l cur x,
  index_scan A ctx cur l = None -> In x l -> ctx x <> CErr /\ ctx x <> CPanic.
Proof.
  induction l as [|h t IH]; intros cur x H Hx; [destruct Hx|].
  cbn [index_scan] in H. destruct Hx as [Hx|Hx].
  - subst h. destruct (ctx x); try discriminate; split; discriminate.
  - destruct (ctx h) as [| | |k s e]; try discriminate.
    + exact (IH _ _ H Hx).
    + destruct (cur <=? k); [exact (IH _ _ H Hx)|discriminate].
Qed.

Lemma fmt_index_ctx_ok {A} ctx oa ob ms d nref (l : list A) ixs x :
  fmt_index A ctx oa ob ms d nref l = Some ixs -> In x l -> ctx x <> CErr /\ ctx x <> CPanic.
Proof.
  unfold fmt_index. destruct (index_scan A ctx 0 l) eqn:E; [discriminate|]. intros _ Hx.
  exact (index_scan_ok ctx l 0 x E Hx).
Qed.

Definition region_ok (ms : N) (d : nat) (iv : region) : Prop :=
  1 <= iv_start iv /\ iv_start iv <= iv_end_query ms d iv /\ iv_end_query ms d iv <= max_position ms d.

(* BAM region query = scan filter with the span computed from POS and CIGAR per the
   specification *)
Theorem bam_query_equals_scan kd ms d nref l ixs k iv :
  ordered_f bam_rec b_a b_b 0 l -> Forall bam_pos_ok l ->
  spans_ok ms d (placed bam_rec bam_ctx b_a b_b l) ->
  bam_index ms d nref l = Some ixs -> (N.to_nat k < length ixs)%nat ->
  region_ok ms d iv ->
  bam_query kd ms d ixs l k iv = QOk (bam_scan l k iv).
Proof.
  intros Ho Hwf Hsp Hix Hk (Hq1 & Hq2 & Hq3). unfold bam_query, bam_scan.
  assert (Hctx : forall x, In x l -> bam_ctx x <> CErr) by (intros x Hx; exact (proj1 (fmt_index_ctx_ok _ _ _ _ _ _ _ _ x Hix Hx))).
  rewrite Forall_forall in Hwf.
  assert (Hsp' : forall x k' s, In x l -> b_rid x = Some k' -> b_pos x = Some s ->
            1 <= s /\ s <= spec_end s (b_cigar x) /\ spec_end s (b_cigar x) <= max_position ms d).
  { intros x k' s Hx Hk' Hs.
    destruct (bam_ctx_some x (Hwf x Hx) (Hctx x Hx) k' s Hk' Hs) as (_ & _ & Hc).
    apply (Hsp (mkrec k' s (spec_end s (b_cigar x)) (b_a x) (b_b x))).
    apply placed_in. exists x. split; [exact Hx|]. unfold to_rec. rewrite Hc. reflexivity. }
  apply (fmt_query_equals_scan bam_rec bam_ctx b_a b_b bam_hit kd ms d nref l ixs k iv
           (bam_scan_hit k iv) Ho Hsp Hix Hk Hq1 Hq2 Hq3).
  - (* the reader's filter computes the specification's predicate *)
    intros x Hx. unfold bam_hit, bam_scan_hit.
    destruct (b_rid x) as [id|] eqn:Er; [|reflexivity].
    destruct (id =? k) eqn:Ek; cbn [negb].
    2:{ destruct (b_pos x); reflexivity. }
    apply N.eqb_eq in Ek. subst id.
    destruct (b_pos x) as [s|] eqn:Es.
    2:{ exfalso. destruct (Hwf x Hx) as [H _]. apply H; [rewrite Er; discriminate|exact Es]. }
    destruct (bam_ctx_some x (Hwf x Hx) (Hctx x Hx) k s Er Es) as (Hae & Hlt & _).
    destruct (Hsp' x k s Hx Er Es) as (H1 & H2 & H3).
    cbn [andb]. destruct (unbounded iv) eqn:Eu.
    + destruct iv as [[?|] [?|]]; try discriminate.
      unfold iv_intersects, iv_end_filter, iv_start, pos_max. cbn [fst snd].
      unfold AlignEnd.usize_lim in Hlt. f_equal. symmetry. apply andb_true_intro. split; lia.
    + rewrite Hae. reflexivity.
  - (* a record the scan keeps was indexed, with that span *)
    intros x Hx Hh. unfold bam_scan_hit in Hh.
    destruct (b_rid x) as [id|] eqn:Er; [|discriminate].
    destruct (b_pos x) as [s|] eqn:Es; [|discriminate].
    apply andb_prop in Hh. destruct Hh as [Ek Hi]. apply N.eqb_eq in Ek. subst id.
    destruct (bam_ctx_some x (Hwf x Hx) (Hctx x Hx) k s Er Es) as (_ & _ & Hc).
    destruct (Hsp' x k s Hx Er Es) as (H1 & H2 & H3).
    eexists. split; [unfold to_rec; rewrite Hc; reflexivity|].
    unfold intersects, on_ref. cbn [r_rid r_s r_e]. rewrite N.eqb_refl. cbn [andb].
    unfold iv_intersects in Hi. apply andb_prop in Hi. destruct Hi as [Hi1 Hi2].
    apply andb_true_intro. split; [|exact Hi2].
    unfold iv_end_query, iv_end_filter in *. destruct (snd iv); [exact Hi1|]. lia.
Qed.

(* the BAM unmapped query *)
Theorem bam_query_unmapped_spec kd ms d nref l ixs h0 :
  ordered_f bam_rec b_a b_b h0 l -> bam_index ms d nref l = Some ixs ->
  unplaced_last bam_rec bam_ctx b_a b_b l ->
  let res := bam_query_unmapped kd ixs h0 l in
  Forall (fun x => b_unm x = true) res /\
  (exists pos, res = filter (fun x => (pos <=? b_a x) && b_unm x) l) /\
  filter bam_unplaced res = filter (fun x => b_unm x && bam_unplaced x) l.
Proof. intros Ho Hix Hl. exact (fmt_query_unmapped_spec _ _ _ _ _ kd ms d nref l ixs h0 Ho Hix Hl). Qed.
