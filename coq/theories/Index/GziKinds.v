(* gzi reader with its error KINDS, as a total function on arbitrary bytes
   (noodles-bgzf/src/gzi/io/reader/index.rs read_index; the async reader
   noodles-bgzf/src/gzi/async/io/reader/index.rs has the same shape):

     len     <- read_u64_le            (read_exact: short input = UnexpectedEof; usize::try_from
                                        cannot fail on a 64-bit target)
     offsets <- (0..len) map (read_u64_le, read_u64_le)  collected as io::Result
                                       (the first short read ends the loop with UnexpectedEof;
                                        nothing is allocated from len)
     read_u8: Ok -> InvalidData "unexpected trailing data"; UnexpectedEof -> Ok(offsets)

   The loop counter is a binary N (the declared count may be 2^64-1 on hostile input, so it is never
   turned into a unary nat); fuel = S (length bs) is never exhausted (GziKindsProofs.gzi_entries_fuel). *)
From Coq Require Import List Arith NArith Bool.
From NV Require Import Base.LE Index.Layout.
Import ListNotations.
Open Scope N_scope.

Inductive gzi_res :=
| GOk (l : list (N * N))
| GEof            (* io::ErrorKind::UnexpectedEof *)
| GInvalidData.   (* io::ErrorKind::InvalidData   *)

(* the collect loop: None = UnexpectedEof from one of the two read_u64_le calls *)
Fixpoint gzi_entries (fuel : nat) (n : N) (acc : list (N * N)) (bs : list N)
  : option (list (N * N) * list N) :=
  match fuel with
  | O => None
  | S f =>
    if n =? 0 then Some (rev acc, bs)
    else match p_chunk bs with
         | None => None
         | Some (c, r) => gzi_entries f (n - 1) (c :: acc) r
         end
  end.

Definition read_gzi_k (bs : list N) : gzi_res :=
  match p_le 8 bs with
  | None => GEof
  | Some (n, r) =>
    match gzi_entries (S (length r)) n [] r with
    | None => GEof
    | Some (l, []) => GOk l
    | Some (_, _ :: _) => GInvalidData
    end
  end.
