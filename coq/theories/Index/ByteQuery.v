(* C04, byte level: virtual offsets tied to bytes.

   csi::io::Query (noodles-csi/src/io/query.rs) as a state machine over the BGZF reader model of
   C02 (NV.Bgzf.ReaderOps, read-only): State::{Seek, Read(chunk_end), Done}; fill_buf loops
   "next chunk -> seek_to_virtual_position(start) -> Read(end)" / "virtual_position() < end ->
   reader.fill_buf() else Seek"; read = fill_buf + copy + consume.

   On top of ANY byte reader (the plain bgzf reader or that Query) the BAM record framing of
   noodles-bam/src/io/reader/record.rs: read_block_size through read_exact_or_eof (0 bytes = end
   of stream, 1..3 bytes = UnexpectedEof, block_size 0 = end of stream),
   take(block_size).read_to_end (short = UnexpectedEof), validate.

   With these: the sequential scan of the indexers (bam/fs/index.rs: position before / after
   every read_record), and Reader::query's reading step (all records the Query reader yields),
   as functions of the FILE BYTES (frames of the BGZF file) -- no abstract offsets.
   Definitions only; proofs in ByteQueryProofs.v. *)
From Coq Require Import List Arith NArith Bool.
From NV Require Import Base.LE Bgzf.Vpos Bgzf.Gzi Bgzf.ReaderOps Index.Chunks.
Import ListNotations.
Open Scope N_scope.

Definition res_cast {A B : Type} (r : res A) : res B :=
  match r with
  | Ok _ => Unmodelled | Err e => Err e | Panic => Panic | OutOfFuel => OutOfFuel
  | Unmodelled => Unmodelled
  end.

(* ---- csi::io::Query ---- *)
Inductive qmode := QSeek | QRead (e : N) | QDone.
Record qstate := mkQ { q_rd : state; q_cs : list chunk; q_mode : qmode }.

(* Query::new(reader, chunks) *)
Definition q_new (st : state) (cs : list chunk) : qstate := mkQ st cs QSeek.

(* the fill_buf loop from State::Seek on: structurally recursive on the chunks still ahead.
   A chunk whose end is not after the position told right after the seek is skipped. *)
Fixpoint q_seek_loop (f : file) (st : state) (cs : list chunk) : qstate * res (list N) :=
  match cs with
  | [] => (mkQ st [] QDone, Ok [])
  | c :: t =>
      match seek true f st (cstart c) with
      | (st1, Ok _) =>
          match virtual_position st1 with
          | Ok v =>
              if v <? cend c
              then let '(st2, r) := fill_buf st1 in (mkQ st2 t (QRead (cend c)), r)
              else q_seek_loop f st1 t
          | e => (mkQ st1 t (QRead (cend c)), res_cast e)
          end
      | (st1, e) => (mkQ st1 t QSeek, res_cast e)
      end
  end.

(* BufRead::fill_buf for Query *)
Definition q_fill (f : file) (q : qstate) : qstate * res (list N) :=
  match q_mode q with
  | QDone => (q, Ok [])
  | QSeek => q_seek_loop f (q_rd q) (q_cs q)
  | QRead e =>
      match virtual_position (q_rd q) with
      | Ok v =>
          if v <? e
          then let '(st2, r) := fill_buf (q_rd q) in (mkQ st2 (q_cs q) (QRead e), r)
          else q_seek_loop f (q_rd q) (q_cs q)
      | x => (q, res_cast x)
      end
  end.

(* Read::read for Query with an n-byte buffer: fill_buf, copy, consume *)
Definition q_read (f : file) (q : qstate) (n : N) : qstate * res (list N) :=
  match q_fill f q with
  | (q1, Ok src) =>
      let out := firstn (N.to_nat n) src in
      (mkQ (consume (q_rd q1) (len out)) (q_cs q1) (q_mode q1), Ok out)
  | (q1, e) => (q1, e)
  end.

(* ---- BAM record framing over any byte reader ---- *)
Inductive rrec := RRec (body : list N) | REnd | RStop (r : res unit).

(* bam/io/reader/record.rs validate: true = Ok *)
Definition bam_validate (b : list N) : bool :=
  if len b <? 32 then false
  else
    let name_len := nth 8 b 0 in
    let cig := le_dec (firstn 2 (skipn 12 b)) in
    let bc := le_dec (firstn 4 (skipn 16 b)) in
    32 + name_len + cig * 4 + (bc + 1) / 2 + bc <=? len b.

Section Rec.
  Variable R : Type.
  Variable rd : R -> N -> R * res (list N).   (* Read::read with an n-byte buffer *)
  (* size of the buffer that read_to_end (through Take) hands to read, given how many bytes of the
     record are still missing; whatever std chooses it is between 1 and that number *)
  Variable bsz : N -> N.

  (* read with buffers of g(remaining) bytes until rem bytes have arrived or a read returns 0 *)
  Fixpoint read_upto (g : N -> N) (fuel : nat) (r : R) (rem : N) (acc : list N) : R * res (list N) :=
    match fuel with
    | O => (r, OutOfFuel)
    | S k =>
        if rem =? 0 then (r, Ok acc)
        else match rd r (g rem) with
             | (r', Ok bs) =>
                 if len bs =? 0 then (r', Ok acc)
                 else read_upto g k r' (rem - len bs) (acc ++ bs)
             | (r', e) => (r', e)
             end
    end.

  Definition clamp (rem : N) : N := N.min rem (N.max 1 (bsz rem)).

  (* Reader::read_record -> the raw record, end of stream, or how it failed *)
  Definition bam_read_record (r : R) : R * rrec :=
    match read_upto (fun x => x) 5 r 4 [] with
    | (r1, Ok hd) =>
        if (0 <? len hd) && (len hd <? 4) then (r1, RStop (Err UnexpectedEof))
        else
          let n := le_dec hd in
          if n =? 0 then (r1, REnd)
          else match read_upto clamp (S (N.to_nat n)) r1 n [] with
               | (r2, Ok body) =>
                   if len body <? n then (r2, RStop (Err UnexpectedEof))
                   else if bam_validate body then (r2, RRec body)
                   else (r2, RStop (Err UnexpectedEof))
               | (r2, e) => (r2, RStop (res_cast e))
               end
    | (r1, e) => (r1, RStop (res_cast e))
    end.

  (* while reader.read_record(&mut record)? != 0 { .. } *)
  Fixpoint read_records (fuel : nat) (r : R) (acc : list (list N)) : R * res (list (list N)) :=
    match fuel with
    | O => (r, OutOfFuel)
    | S k =>
        match bam_read_record r with
        | (r1, RRec b) => read_records k r1 (acc ++ [b])
        | (r1, REnd) => (r1, Ok acc)
        | (r1, RStop e) => (r1, res_cast e)
        end
    end.
End Rec.

(* a record as the indexing loop sees it: its bytes, the position told before and after *)
Record brec := mkbrec { br_body : list N; br_a : N; br_b : N }.

Section Scan.
  Variable bsz : N -> N.

  (* the loop of bam/fs/index.rs, bcf/fs/index.rs: start = virtual_position();
     while read_record != 0 { end = virtual_position(); (record, start, end); start = end } *)
  Fixpoint scan_loop (fuel : nat) (st : state) (start : N) (acc : list brec) : state * res (list brec) :=
    match fuel with
    | O => (st, OutOfFuel)
    | S k =>
        match bam_read_record state (read true) bsz st with
        | (st1, RRec b) =>
            match virtual_position st1 with
            | Ok e => scan_loop k st1 e (acc ++ [mkbrec b start e])
            | x => (st1, res_cast x)
            end
        | (st1, REnd) => (st1, Ok acc)
        | (st1, RStop e) => (st1, res_cast e)
        end
    end.

  (* every record holds at least its 4 size bytes, so |data| + 1 iterations suffice *)
  Definition scan_fuel (f : file) : nat := S (length (concat (map fdata f))).

  (* from a reader that has just read the header *)
  Definition scan_from (f : file) (st : state) : state * res (list brec) :=
    match virtual_position st with
    | Ok a => scan_loop (scan_fuel f) st a []
    | x => (st, res_cast x)
    end.

  (* the header is hl bytes long (its parsing is C06's); the reader is fresh *)
  Definition after_header (f : file) (hl : N) : state * res (list N) :=
    read_exact_std true (init f) hl.

  Definition byte_scan (f : file) (hl : N) : res (list brec) :=
    match after_header f hl with
    | (st, Ok _) => snd (scan_from f st)
    | (_, e) => res_cast e
    end.

  (* the reading step of Reader::query on a reader in state st: every record the
     bam::io::Reader over csi::io::Query::new(reader, chunks) yields; the reader afterwards *)
  Definition byte_query (f : file) (st : state) (cs : list chunk) : state * res (list (list N)) :=
    let '(q, r) := read_records qstate (q_read f) bsz (S (length cs * scan_fuel f)) (q_new st cs) [] in
    (q_rd q, r).

  (* several queries one after the other on the same reader object *)
  Fixpoint byte_queries (f : file) (st : state) (qs : list (list chunk)) : list (res (list (list N))) :=
    match qs with
    | [] => []
    | cs :: t => let '(st1, r) := byte_query f st cs in r :: byte_queries f st1 t
    end.

  (* one reader object: read the header, scan the file as the indexer does, then the queries one
     after the other on the reader as the scan left it *)
  Definition byte_session (f : file) (hl : N) (qs : list (list chunk))
    : res (list brec) * list (res (list (list N))) :=
    match after_header f hl with
    | (st, Ok _) =>
        match scan_from f st with
        | (st1, Ok L) => (Ok L, byte_queries f st1 qs)
        | (_, e) => (e, [])
        end
    | (_, e) => (res_cast e, [])
    end.
End Scan.

(* the schedule the correspondence check runs the model with: one read for all that is missing
   (the theorems hold for every schedule) *)
Definition bsz_whole (rem : N) : N := rem.
Definition byte_session_x := byte_session bsz_whole.
