(* Proofs about NV.Index.ByteQuery over C02's reader model (NV.Bgzf.*, read-only):
   A. virtual-position order = flat-offset order on valid positions;
   B. the position a reader tells right after consuming a byte is a function of the flat offset;
   C. a generic byte reader hands out the BAM records laid out in the data;
   D. the sequential scan (the indexers' loop) over the file bytes;
   E. csi::io::Query over chunk lists aligned to that scan reads, chunk by chunk, exactly the
      records whose start position lies in the chunk -- from ANY reader state. *)
From Coq Require Import List NArith PeanoNat Lia Bool ZifyBool ZifyNat ZifyN.
From NV Require Import Base.LE Bgzf.Vpos Bgzf.VposProofs Bgzf.Gzi Bgzf.ReaderOps Bgzf.FlatRef
  Bgzf.ReaderOpsProofs Bgzf.ReaderTellProofs Index.Chunks Index.ByteQuery.
From NV Require Index.Formats.
Import ListNotations.
Open Scope N_scope.
Arguments N.add : simpl never.
Arguments N.sub : simpl never.
Arguments N.mul : simpl never.
Arguments N.min : simpl never.
Arguments N.max : simpl never.
Arguments N.ltb : simpl never.
Arguments N.leb : simpl never.
Arguments N.eqb : simpl never.
Arguments N.to_nat : simpl never.
Arguments N.of_nat : simpl never.
Arguments firstn : simpl never.
Arguments skipn : simpl never.
Arguments pack : simpl never.

(* ---- A. order ---------------------------------------------------------------------------- *)

Lemma vpos_lt_parts : forall v1 v2,
  vcomp v1 < vcomp v2 \/ (vcomp v1 = vcomp v2 /\ vuncomp v1 < vuncomp v2) -> v1 < v2.
Proof.
  intros v1 v2 H. rewrite <- (unpack_pack v1), <- (unpack_pack v2).
  apply pack_order; [apply vuncomp_lt | apply vuncomp_lt | exact H].
Qed.

(* strictly smaller flat offset => strictly smaller virtual position, whatever frames (also
   empty ones) lie between *)
Theorem denote_strict : forall f v1 v2 o1 o2, wf f ->
  denote f v1 = Some o1 -> denote f v2 = Some o2 -> o1 < o2 -> v1 < v2.
Proof.
  intros f v1 v2 o1 o2 Hwf H1 H2 Hlt. unfold denote in H1, H2.
  destruct (frame_start f 0 0 (vcomp v1)) as [[s1 l1]|] eqn:E1; [|discriminate].
  destruct (frame_start f 0 0 (vcomp v2)) as [[s2 l2]|] eqn:E2; [|discriminate].
  destruct (N.leb_spec (vuncomp v1) l1) as [Hu1|]; [|discriminate].
  destruct (N.leb_spec (vuncomp v2) l2) as [Hu2|]; [|discriminate].
  inversion H1; subst o1. inversion H2; subst o2. clear H1 H2.
  destruct (frame_start_split _ _ _ _ _ _ E1) as (p1 & q1 & Hf1 & Hc1 & Hs1 & Hl1 & _).
  destruct (frame_start_split _ _ _ _ _ _ E2) as (p2 & q2 & Hf2 & Hc2 & Hs2 & Hl2 & _).
  rewrite N.add_0_l in *. apply vpos_lt_parts.
  assert (Hee : p1 ++ q1 = p2 ++ q2) by congruence.
  destruct (app_eq_app _ _ _ _ Hee) as [m [[Hp Hq]|[Hp Hq]]].
  - (* p1 = p2 ++ m *)
    destruct m as [|b m].
    + rewrite app_nil_r in Hp. cbn [app] in Hq. subst p1 q2. right. split; [congruence|]. lia.
    + exfalso. subst p1 q2. cbn [app hdlen] in Hl2.
      rewrite dsum_app, dsum_cons in Hs1. lia.
  - destruct m as [|b m].
    + rewrite app_nil_r in Hp. cbn [app] in Hq. subst p2 q1. right. split; [congruence|]. lia.
    + left. subst p2 q1. rewrite Hc1, Hc2, csum_app, csum_cons.
      assert (0 < csize b).
      { rewrite Hf2 in Hwf. apply wf_app in Hwf. destruct Hwf as [Hw _].
        apply wf_app in Hw. destruct Hw as [_ Hw]. inversion Hw as [|? ? [Hb _] _]. exact Hb. }
      lia.
Qed.

(* ... hence the numeric order of valid positions never contradicts the order of the bytes *)
Theorem denote_mono : forall f v1 v2 o1 o2, wf f ->
  denote f v1 = Some o1 -> denote f v2 = Some o2 -> v1 <= v2 -> o1 <= o2.
Proof.
  intros f v1 v2 o1 o2 Hwf H1 H2 Hle.
  destruct (N.le_gt_cases o1 o2) as [H|H]; [exact H|].
  pose proof (denote_strict f v2 v1 o2 o1 Hwf H2 H1 H). lia.
Qed.

(* ---- B. the position told after consuming ------------------------------------------------- *)

(* the block is the frame holding the byte before flat offset o, the cursor is behind that byte *)
Definition JC (f : file) (st : state) (o : N) : Prop :=
  exists pre0 b q, f = pre0 ++ b :: q /\ bpos st = total_csize pre0 /\ bsize st = csize b /\
    blen st = flen b /\ 0 < cur st /\ cur st <= blen st /\ o = total_dlen pre0 + cur st.

Lemma JC_told : forall f st1 st2 o, JC f st1 o -> JC f st2 o ->
  virtual_position st1 = virtual_position st2.
Proof.
  intros f st1 st2 o (p1 & b1 & q1 & Hf1 & Hbp1 & Hbs1 & Hbl1 & Hc1 & Hcl1 & Ho1)
                     (p2 & b2 & q2 & Hf2 & Hbp2 & Hbs2 & Hbl2 & Hc2 & Hcl2 & Ho2).
  assert (Hee : p1 ++ b1 :: q1 = p2 ++ b2 :: q2) by congruence.
  assert (Hsame : p1 = p2 /\ b1 = b2).
  { destruct (app_eq_app _ _ _ _ Hee) as [m [[Hp Hq]|[Hp Hq]]].
    - destruct m as [|b m].
      + rewrite app_nil_r in Hp. cbn [app] in Hq. inversion Hq. auto.
      + exfalso. cbn [app] in Hq. injection Hq as Hb Hqq. rewrite Hp, dsum_app, dsum_cons in Ho1.
        rewrite <- Hb in Ho1. lia.
    - destruct m as [|b m].
      + rewrite app_nil_r in Hp. cbn [app] in Hq. inversion Hq. auto.
      + exfalso. cbn [app] in Hq. injection Hq as Hb Hqq. rewrite Hp, dsum_app, dsum_cons in Ho2.
        rewrite <- Hb in Ho2. lia. }
  destruct Hsame; subst p2 b2.
  unfold virtual_position, has_remaining.
  replace (cur st2) with (cur st1) by lia.
  rewrite Hbp1, Hbp2, Hbs1, Hbs2, Hbl1, Hbl2. reflexivity.
Qed.

(* Read::read through the block buffer (what csi::io::Query::read does on the reader) *)
Definition bread (st : state) (n : N) : state * res (list N) :=
  match fill_buf st with
  | (st1, Ok src) => let out := firstn (N.to_nat n) src in (consume st1 (len out), Ok out)
  | (st1, e) => (st1, e)
  end.

Definition Rel (f : file) (st : state) (o : N) : Prop := exists s, Inv f st s /\ off s = o.

Lemma bread_data : forall f st o n, wf f -> Rel f st o -> o < total_dlen f -> 0 < n ->
  exists st' k, bread st n = (st', Ok (slice (concat (chunks f)) o k)) /\ 1 <= k /\ k <= n /\
    o + k <= total_dlen f /\ Rel f st' (o + k) /\ JC f st' (o + k).
Proof.
  intros f st o n Hwf (s & HI & Ho) Hlt Hn. unfold bread.
  destruct (fill_refines f st s Hwf HI) as [Hr HI1].
  destruct (fill_buf st) as [st1 r1]. cbn [fst snd] in Hr, HI1.
  unfold f_fill in Hr, HI1. cbn [fst snd] in Hr, HI1. subst r1.
  set (s1 := refill (chunks f) s) in *.
  assert (Ho1 : off s1 = o) by (unfold s1; rewrite refill_off; exact Ho).
  pose proof (Inv_bound _ _ _ HI1) as Hbd.
  assert (Hw : 0 < win s1).
  { unfold s1, refill. destruct (N.ltb_spec 0 (win s)) as [H|H]; [exact H|]. cbn [win].
    destruct (N.eq_dec (win_at (chunks f) (off s)) 0) as [Z|NZ]; [|lia].
    apply win_at_zero in Z. rewrite len_concat_chunks in Z. lia. }
  set (k := N.min n (win s1)).
  assert (Hlen : len (firstn (N.to_nat n) (slice (concat (chunks f)) (off s1) (win s1))) = k).
  { rewrite firstn_slice. apply len_slice. rewrite len_concat_chunks. lia. }
  rewrite Hlen, firstn_slice. fold k. rewrite Ho1.
  exists (consume st1 k), k. split; [reflexivity|].
  split; [lia|]. split; [lia|]. split; [lia|]. split.
  - exists (f_consume s1 k). split; [apply inv_consume; assumption|].
    unfold f_consume, f_advance. cbn [off]. lia.
  - destruct HI1 as (pre & Hf & Hpos & Hcur & Hbl & Hwin & Hoff & Hb & Hload & Hex & Htr).
    destruct Hload as (pre0 & b & Hpre & Hbp & Hbs & Hbl' & Hbuf); [lia|].
    exists pre0, b, (rest st1). unfold consume. cbn [bpos bsize blen cur].
    rewrite Hpre, dsum_app, dsum_cons, dsum_nil in Hoff.
    splits; fin; try lia.
    rewrite Hf, Hpre, <- app_assoc. reflexivity.
Qed.

Lemma bread_eof : forall f st o n, wf f -> Rel f st o -> total_dlen f <= o ->
  exists st', bread st n = (st', Ok []) /\ Rel f st' o.
Proof.
  intros f st o n Hwf (s & HI & Ho) Hge. unfold bread.
  destruct (fill_refines f st s Hwf HI) as [Hr HI1].
  destruct (fill_buf st) as [st1 r1]. cbn [fst snd] in Hr, HI1.
  unfold f_fill in Hr, HI1. cbn [fst snd] in Hr, HI1. subst r1.
  set (s1 := refill (chunks f) s) in *.
  assert (Ho1 : off s1 = o) by (unfold s1; rewrite refill_off; exact Ho).
  pose proof (Inv_bound _ _ _ HI1) as Hbd.
  assert (Hw : win s1 = 0) by lia.
  rewrite Hw, slice_zero, firstn_nil.
  exists (consume st1 (len (@nil N))). split; [reflexivity|].
  exists (f_consume s1 (len (@nil N))). split; [apply inv_consume; assumption|].
  unfold f_consume, f_advance. cbn [off]. rewrite len_nil. lia.
Qed.

Lemma read_is_bread : forall st n,
  negb (has_remaining st) && (65536 <=? n) = false -> read true st n = bread st n.
Proof.
  intros st n H. unfold read, bread. rewrite H.
  destruct (fill_buf st) as [st1 [src|e| | |]]; reflexivity.
Qed.

(* Read::read of the plain reader, direct path included *)
Lemma read_data : forall f st o n, wf f -> Rel f st o -> o < total_dlen f -> 0 < n ->
  exists st' k, read true st n = (st', Ok (slice (concat (chunks f)) o k)) /\ 1 <= k /\ k <= n /\
    o + k <= total_dlen f /\ Rel f st' (o + k) /\ JC f st' (o + k).
Proof.
  intros f st o n Hwf HR Hlt Hn.
  destruct (negb (has_remaining st) && (65536 <=? n)) eqn:Ed.
  2:{ rewrite (read_is_bread _ _ Ed). apply bread_data; assumption. }
  destruct HR as (s & HI & Ho).
  apply andb_prop in Ed. destruct Ed as [Eh En]. unfold has_remaining in Eh.
  destruct (Inv_cur _ _ _ HI) as (Hc & Hw & Hb).
  assert (Hex : cur st = blen st) by lia. assert (Hn6 : 65536 <= n) by lia.
  unfold read. unfold has_remaining.
  replace (negb (cur st <? blen st) && (65536 <=? n)) with true by lia.
  unfold read_nonempty_block.
  destruct (next_nonempty (rest st) (position st)) as [[[[b p] r] np]|] eqn:E.
  - destruct (load_some _ _ _ _ _ _ _ HI Hex E) as (pre1 & Hf & Hp & Hnp & Hd & Hwa & Hl).
    assert (Hfb : flen b <= 65536).
    { rewrite Hf in Hwf. apply wf_app in Hwf. destruct Hwf as [_ Hq].
      inversion Hq as [|? ? [_ Hb'] _]; exact Hb'. }
    assert (Hpos : 0 < flen b).
    { destruct (N.eq_dec (flen b) 0) as [Z|NZ]; [|lia]. exfalso.
      rewrite (Hl Z) in Hf. rewrite Hf, dsum_app, dsum_cons, dsum_nil in Hlt. lia. }
    assert (Htot : o + flen b <= total_dlen f).
    { rewrite Hf, dsum_app, dsum_cons. lia. }
    exists (mkState r np p (csize b) (flen b) (flen b) (buf st)), (flen b).
    split.
    { f_equal. f_equal. pose proof (slice_frame pre1 b r 0) as Hs.
      rewrite N.add_0_r, N.sub_0_r in Hs. rewrite <- Hf, Hd, Ho in Hs. rewrite Hs by lia. reflexivity. }
    split; [lia|]. split; [lia|]. split; [exact Htot|]. split.
    + exists (mkF (total_dlen pre1 + flen b) (flen b - flen b)). split.
      * subst p np. apply (inv_loaded f pre1 b r (flen b) (buf st)); fin; try lia.
      * cbn [off]. lia.
    + exists pre1, b, r. cbn [bpos bsize blen cur]. splits; fin; lia.
  - destruct (load_none _ _ _ HI Hex E) as (Hr & Hwa). exfalso.
    apply win_at_zero in Hwa. rewrite len_concat_chunks in Hwa. lia.
Qed.

Lemma read_eof : forall f st o n, wf f -> Rel f st o -> total_dlen f <= o ->
  exists st', read true st n = (st', Ok []) /\ Rel f st' o.
Proof.
  intros f st o n Hwf HR Hge.
  destruct (negb (has_remaining st) && (65536 <=? n)) eqn:Ed.
  2:{ rewrite (read_is_bread _ _ Ed). apply bread_eof; assumption. }
  destruct HR as (s & HI & Ho).
  apply andb_prop in Ed. destruct Ed as [Eh En]. unfold has_remaining in Eh.
  destruct (Inv_cur _ _ _ HI) as (Hc & Hw & Hb).
  assert (Hex : cur st = blen st) by lia.
  unfold read. unfold has_remaining.
  replace (negb (cur st <? blen st) && (65536 <=? n)) with true by lia.
  unfold read_nonempty_block.
  destruct (next_nonempty (rest st) (position st)) as [[[[b p] r] np]|] eqn:E.
  - destruct (load_some _ _ _ _ _ _ _ HI Hex E) as (pre1 & Hf & Hp & Hnp & Hd & Hwa & Hl).
    assert (Hz : flen b = 0).
    { pose proof (Inv_bound _ _ _ HI) as Hbd. rewrite Hf, dsum_app, dsum_cons in Hbd, Hge. lia. }
    exists (mkState r np p (csize b) (flen b) (flen b) (buf st)).
    split; [rewrite (flen_nil_data b Hz); reflexivity|].
    exists (mkF (total_dlen pre1 + flen b) (flen b - flen b)). split.
    + subst p np. apply (inv_loaded f pre1 b r (flen b) (buf st)); fin; try lia.
    + cbn [off]. lia.
  - exists st. split; [reflexivity|]. exists s. auto.
Qed.

(* ---- C. a generic byte reader and the BAM record framing --------------------------------- *)

Definition framed (b : list N) : list N := le32 (len b) ++ b.
Definition rec_ok (b : list N) : Prop := 0 < len b /\ len b < 4294967296 /\ bam_validate b = true.

Lemma len_le32 : forall n, len (le32 n) = 4.
Proof. intros. unfold len. rewrite le32_length. reflexivity. Qed.

Lemma slice_at : forall (D : list N) o x tl, skipn (N.to_nat o) D = x ++ tl -> slice D o (len x) = x.
Proof.
  intros D o x tl H. unfold slice. rewrite H. unfold len. rewrite Nat2N.id.
  rewrite firstn_app, Nat.sub_diag, firstn_O, app_nil_r. apply firstn_all.
Qed.

Lemma skipn_at : forall (D : list N) o x tl, skipn (N.to_nat o) D = x ++ tl ->
  skipn (N.to_nat (o + len x)) D = tl.
Proof.
  intros D o x tl H. replace (N.to_nat (o + len x)) with (length x + N.to_nat o)%nat by (unfold len; lia).
  rewrite <- skipn_add, H. rewrite skipn_app, Nat.sub_diag. rewrite skipn_all. reflexivity.
Qed.

Lemma skipn_len_bound : forall (D : list N) o x tl, skipn (N.to_nat o) D = x ++ tl -> x <> [] ->
  o + len x + len tl = len D.
Proof.
  intros D o x tl H Hne. pose proof (f_equal (@length N) H) as HL.
  rewrite skipn_length, app_length in HL. unfold len.
  destruct x; [congruence|]. cbn [length] in *. lia.
Qed.

Section Gen.
  Variable R : Type.
  Variable rd : R -> N -> R * res (list N).
  Variable bsz : N -> N.
  Variable D : list N.
  Variable GRel : R -> N -> Prop.
  Variable GJC : R -> N -> Prop.
  Variable lim : N.
  Hypothesis rd_data : forall r o n, GRel r o -> o < lim -> o < len D -> 0 < n ->
    exists r' k, rd r n = (r', Ok (slice D o k)) /\ 1 <= k /\ k <= n /\ o + k <= len D /\
      GRel r' (o + k) /\ GJC r' (o + k).

  Lemma read_upto_exact : forall g, (forall x, 0 < x -> 1 <= g x /\ g x <= x) ->
    forall fuel r o rem acc, GRel r o -> o + rem <= len D -> o + rem <= lim ->
      (N.to_nat rem < fuel)%nat ->
      exists r', read_upto R rd g fuel r rem acc = (r', Ok (acc ++ slice D o rem)) /\
                 GRel r' (o + rem) /\ (0 < rem -> GJC r' (o + rem)).
  Proof.
    intros g Hg. induction fuel as [|fuel IH]; intros r o rem acc HR HD HL Hf; [lia|].
    cbn [read_upto]. destruct (N.eqb_spec rem 0) as [Z|NZ].
    - subst rem. exists r. rewrite slice_zero, app_nil_r, N.add_0_r. splits; fin; try lia.
    - destruct (Hg rem) as [Hg1 Hg2]; [lia|].
      destruct (rd_data r o (g rem) HR) as (r1 & k & Hrd & Hk1 & Hkn & Hkd & HR1 & HJ1); try lia.
      rewrite Hrd. rewrite (len_slice D o k) by lia.
      destruct (N.eqb_spec k 0) as [|_]; [lia|].
      destruct (IH r1 (o + k) (rem - k) (acc ++ slice D o k) HR1) as (r2 & Hru & HR2 & HJ2); try lia.
      exists r2. rewrite Hru. rewrite <- app_assoc, slice_split.
      replace (k + (rem - k)) with rem by lia. replace (o + k + (rem - k)) with (o + rem) in * by lia.
      splits; fin. intros _.
      destruct (N.eq_dec (rem - k) 0) as [Z|NZ2]; [|apply HJ2; lia].
      (* the last read: the state is r1 itself *)
      rewrite Z in Hru. destruct fuel as [|fuel']; [lia|]. cbn [read_upto] in Hru.
      rewrite N.eqb_refl in Hru. inversion Hru; subst r2.
      replace (o + rem) with (o + k) by lia. exact HJ1.
  Qed.

  Lemma id_ok : forall x : N, 0 < x -> 1 <= x /\ x <= x.
  Proof. intros; lia. Qed.

  Lemma clamp_ok : forall x, 0 < x -> 1 <= clamp bsz x /\ clamp bsz x <= x.
  Proof. intros x Hx. unfold clamp. lia. Qed.

  Lemma gen_read_record : forall r o b tl, GRel r o ->
    skipn (N.to_nat o) D = framed b ++ tl -> rec_ok b -> o + 4 + len b <= lim ->
    exists r', bam_read_record R rd bsz r = (r', RRec b) /\
               GRel r' (o + 4 + len b) /\ GJC r' (o + 4 + len b).
  Proof.
    intros r o b tl HR Hsk (Hb0 & Hb32 & Hval) HL.
    unfold framed in Hsk. rewrite <- app_assoc in Hsk.
    pose proof (skipn_len_bound D o (le32 (len b)) (b ++ tl) Hsk) as Hbd.
    rewrite len_le32, len_app in Hbd.
    assert (Hne : le32 (len b) <> []).
    { intros E. pose proof (len_le32 (len b)) as H4. rewrite E in H4. discriminate. }
    specialize (Hbd Hne).
    pose proof (slice_at D o _ _ Hsk) as Hs4. rewrite len_le32 in Hs4.
    pose proof (skipn_at D o _ _ Hsk) as Hsk2. rewrite len_le32 in Hsk2.
    pose proof (slice_at D (o + 4) _ _ Hsk2) as Hsb.
    unfold bam_read_record.
    destruct (read_upto_exact (fun x => x) id_ok
                5%nat r o 4 [] HR) as (r1 & Hru & HR1 & _); try lia.
    rewrite Hru. cbn [app]. rewrite Hs4, len_le32.
    change ((0 <? 4) && (4 <? 4)) with false. cbv iota.
    assert (Hdec : le_dec (le32 (len b)) = len b).
    { unfold le32. apply le_dec_le_bytes. change (256 ^ N.of_nat 4) with 4294967296. exact Hb32. }
    rewrite Hdec. destruct (N.eqb_spec (len b) 0) as [|_]; [lia|].
    destruct (read_upto_exact (clamp bsz) clamp_ok (S (N.to_nat (len b))) r1 (o + 4) (len b) [] HR1)
      as (r2 & Hru2 & HR2 & HJ2); try lia.
    rewrite Hru2. cbn [app]. rewrite Hsb.
    destruct (N.ltb_spec (len b) (len b)) as [|_]; [lia|]. rewrite Hval.
    exists r2. replace (o + 4 + len b) with (o + 4 + len b) by lia. splits; fin. apply HJ2. lia.
  Qed.
End Gen.

(* ---- D. the sequential scan over the file bytes --------------------------------------------- *)

Section File.
  Variable f : file.
  Variable bsz : N -> N.
  Hypothesis Hwf : wf f.
  Hypothesis Hmax : total_csize f <= MAX_COMPRESSED_POSITION.
  Notation D := (concat (chunks f)).

  (* v is what a reader tells right after consuming the byte before flat offset o *)
  Definition Told (v o : N) : Prop :=
    denote f v = Some o /\ exists st, JC f st o /\ virtual_position st = Ok v.

  (* the scanned records lie one after the other from flat offset o on, the first starting at
     told position a *)
  Fixpoint laid (o a : N) (L : list brec) : Prop :=
    match L with
    | [] => True
    | x :: t => br_a x = a /\ denote f a = Some o /\ rec_ok (br_body x) /\
                Told (br_b x) (o + 4 + len (br_body x)) /\
                laid (o + 4 + len (br_body x)) (br_b x) t
    end.

  Definition stream (bodies : list (list N)) : list N := concat (map framed bodies).

  Lemma len_framed : forall b, len (framed b) = 4 + len b.
  Proof. intros. unfold framed. rewrite len_app, len_le32. reflexivity. Qed.

  Lemma told_denote : forall st o v, Rel f st o -> virtual_position st = Ok v -> denote f v = Some o.
  Proof.
    intros st o v (s & HI & Ho) Hv. destruct (vpos_denote f st s Hwf Hmax HI) as (v' & Hv' & Hd).
    rewrite Hv in Hv'. inversion Hv'; subst. exact Hd.
  Qed.

  Lemma told_defined : forall st o, Rel f st o -> exists v, virtual_position st = Ok v /\ denote f v = Some o.
  Proof.
    intros st o (s & HI & Ho). destruct (vpos_denote f st s Hwf Hmax HI) as (v' & Hv' & Hd).
    exists v'. subst o. auto.
  Qed.

  Lemma plain_rd_data : forall r o n, Rel f r o -> o < total_dlen f + 1 -> o < len D -> 0 < n ->
    exists r' k, read true r n = (r', Ok (slice D o k)) /\ 1 <= k /\ k <= n /\ o + k <= len D /\
      Rel f r' (o + k) /\ JC f r' (o + k).
  Proof.
    intros r o n HR _ Hlt Hn. rewrite len_concat_chunks in *.
    apply read_data; assumption.
  Qed.

  Lemma plain_read_end : forall st o, Rel f st o -> total_dlen f <= o ->
    exists st', bam_read_record state (read true) bsz st = (st', REnd) /\ Rel f st' o.
  Proof.
    intros st o HR Hge. destruct (read_eof f st o 4 Hwf HR Hge) as (st' & Hrd & HR').
    exists st'. unfold bam_read_record. cbn [read_upto].
    change (4 =? 0) with false. cbv iota. rewrite Hrd. rewrite len_nil.
    change (0 =? 0) with true. cbv iota. rewrite len_nil.
    change ((0 <? 0) && (0 <? 4)) with false. cbv iota. cbn [le_dec].
    change (0 =? 0) with true. cbv iota. auto.
  Qed.

  Lemma scan_loop_spec : forall bodies fuel st o a acc,
    Rel f st o -> virtual_position st = Ok a -> skipn (N.to_nat o) D = stream bodies ->
    Forall rec_ok bodies -> (length bodies < fuel)%nat ->
    exists st' L, scan_loop bsz fuel st a acc = (st', Ok (acc ++ L)) /\
      map br_body L = bodies /\ laid o a L /\ Rel f st' (total_dlen f).
  Proof.
    induction bodies as [|b bodies IH]; intros fuel st o a acc HR Hv Hsk Hok Hf;
      (destruct fuel as [|fuel]; [cbn [length] in Hf; lia|]); cbn [scan_loop].
    - assert (Hge : total_dlen f <= o).
      { pose proof (f_equal (@length N) Hsk) as HL. rewrite skipn_length in HL. cbn in HL.
        rewrite <- len_concat_chunks. unfold len. lia. }
      destruct (plain_read_end st o HR Hge) as (st' & Hrr & HR'). rewrite Hrr.
      exists st', []. rewrite app_nil_r. splits; fin. cbn [laid]. 
      destruct HR' as (s & HI & Ho). pose proof (Inv_bound _ _ _ HI).
      exists s. split; [exact HI | lia].
    - cbn [stream map concat] in Hsk. fold (stream bodies) in Hsk.
      inversion Hok as [|? ? Hb Hoks]; subst.
      pose proof (skipn_len_bound D o (framed b) (stream bodies) Hsk) as Hbd.
      assert (Hne : framed b <> []).
      { intros E. pose proof (len_framed b) as H4. rewrite E in H4. rewrite len_nil in H4. lia. }
      specialize (Hbd Hne). rewrite len_framed, len_concat_chunks in Hbd.
      destruct (gen_read_record state (read true) bsz D (Rel f) (JC f) (total_dlen f + 1) plain_rd_data
                  st o b (stream bodies) HR Hsk Hb) as (st1 & Hrr & HR1 & HJ1); [lia|].
      rewrite Hrr.
      destruct (told_defined st1 _ HR1) as (e & He & Hde). rewrite He.
      pose proof (skipn_at D o _ _ Hsk) as Hsk2. rewrite len_framed in Hsk2.
      replace (o + (4 + len b)) with (o + 4 + len b) in Hsk2 by lia.
      destruct (IH fuel st1 (o + 4 + len b) e (acc ++ [mkbrec b a e]) HR1 He Hsk2 Hoks) as (st' & L & Hsl & Hm & Hl & HR');
        [cbn [length] in Hf; lia|].
      exists st', (mkbrec b a e :: L). rewrite Hsl, <- app_assoc. cbn [app map br_body].
      splits; fin.
      + rewrite Hm. reflexivity.
      + cbn [laid br_a br_b br_body]. splits; fin.
        * apply (told_denote st o a HR Hv).
        * split; [exact Hde|]. exists st1. auto.
  Qed.

  (* ---- E. csi::io::Query over the file bytes ------------------------------------------------ *)

  Lemma laid_a_lt_b : forall o a x t, laid o a (x :: t) -> br_a x < br_b x.
  Proof.
    intros o a x t (Ha & Hd & Hok & (Hdb & _) & _). rewrite Ha.
    apply (denote_strict f a (br_b x) o (o + 4 + len (br_body x)) Hwf Hd Hdb). lia.
  Qed.

  Lemma laid_a_le : forall S o a y, laid o a S -> In y S -> a <= br_a y.
  Proof.
    induction S as [|x S IH]; intros o a y HL Hin; [destruct Hin|].
    destruct Hin as [E|Hin].
    - subst y. destruct HL as (Ha & _). lia.
    - pose proof (laid_a_lt_b _ _ _ _ HL) as Hlt.
      destruct HL as (Ha & _ & _ & _ & HL'). specialize (IH _ _ y HL' Hin). lia.
  Qed.

  (* (told end position, flat end offset) of some record of S *)
  Fixpoint end_in (o : N) (S : list brec) (ce oe : N) : Prop :=
    match S with
    | [] => False
    | x :: t => let o' := o + 4 + len (br_body x) in (br_b x = ce /\ oe = o') \/ end_in o' t ce oe
    end.

  Lemma end_in_of_In : forall S o a y, laid o a S -> In y S -> exists oe, end_in o S (br_b y) oe.
  Proof.
    induction S as [|x S IH]; intros o a y HL Hin; [destruct Hin|].
    destruct Hin as [E|Hin].
    - subst y. eexists. cbn [end_in]. left. split; reflexivity.
    - destruct HL as (_ & _ & _ & _ & HL'). destruct (IH _ _ y HL' Hin) as (oe & H).
      exists oe. cbn [end_in]. right. exact H.
  Qed.

  Lemma end_in_told : forall S o a ce oe, laid o a S -> end_in o S ce oe -> Told ce oe /\ o < oe.
  Proof.
    induction S as [|x S IH]; intros o a ce oe HL He; [destruct He|].
    destruct HL as (_ & _ & _ & HT & HL'). cbn [end_in] in He. destruct He as [[E1 E2]|He].
    - subst. split; [exact HT | lia].
    - destruct (IH _ _ _ _ HL' He) as [H1 H2]. split; [exact H1 | lia].
  Qed.

  Lemma Told_same : forall v1 v2 o, Told v1 o -> Told v2 o -> v1 = v2.
  Proof.
    intros v1 v2 o (_ & st1 & HJ1 & Hv1) (_ & st2 & HJ2 & Hv2).
    pose proof (JC_told f st1 st2 o HJ1 HJ2) as E. rewrite Hv1, Hv2 in E. inversion E. reflexivity.
  Qed.

  Notation rdq := (q_read f).
  Notation in_c := (NV.Index.Formats.in_chunk_f brec br_a).

  Lemma read_records_ext : forall q q' fuel acc,
    (forall n, rdq q n = rdq q' n) ->
    read_records qstate rdq bsz (S fuel) q acc = read_records qstate rdq bsz (S fuel) q' acc.
  Proof.
    intros q q' fuel acc H. cbn [read_records].
    assert (E : bam_read_record qstate rdq bsz q = bam_read_record qstate rdq bsz q').
    { unfold bam_read_record. cbn [read_upto]. change (4 =? 0) with false. cbv iota.
      rewrite H. reflexivity. }
    rewrite E. reflexivity.
  Qed.

  (* at the end of the chunk (told position not before the chunk end) the Query reader behaves as
     in State::Seek *)
  Lemma q_read_at_end : forall q e v n, q_mode q = QRead e -> virtual_position (q_rd q) = Ok v ->
    e <= v -> rdq q n = rdq (mkQ (q_rd q) (q_cs q) QSeek) n.
  Proof.
    intros q e v n Hm Hv Hle. unfold q_read, q_fill. rewrite Hm, Hv. cbn [q_mode q_rd q_cs].
    destruct (N.ltb_spec v e); [lia|]. reflexivity.
  Qed.

  (* a seek to a chunk whose end lies after the position told there: State::Read *)
  Lemma q_read_seek : forall st c t st1 r v n, seek true f st (cstart c) = (st1, Ok r) ->
    virtual_position st1 = Ok v -> v < cend c ->
    rdq (mkQ st (c :: t) QSeek) n = rdq (mkQ st1 t (QRead (cend c))) n.
  Proof.
    intros st c t st1 r v n Hs Hv Hlt. unfold q_read, q_fill. cbn [q_mode q_rd q_cs q_seek_loop].
    rewrite Hs, Hv. destruct (N.ltb_spec v (cend c)); [|lia]. reflexivity.
  Qed.

  Section Chunk.
    Variable c : chunk.
    Variable t : list chunk.
    Variable oe : N.
    Hypothesis Hce : Told (cend c) oe.

    Definition GRelQ (q : qstate) (o : N) : Prop :=
      q_mode q = QRead (cend c) /\ q_cs q = t /\ Rel f (q_rd q) o.
    Definition GJCQ (q : qstate) (o : N) : Prop := JC f (q_rd q) o.

    Lemma q_rd_data : forall q o n, GRelQ q o -> o < oe -> o < len D -> 0 < n ->
      exists q' k, rdq q n = (q', Ok (slice D o k)) /\ 1 <= k /\ k <= n /\ o + k <= len D /\
        GRelQ q' (o + k) /\ GJCQ q' (o + k).
    Proof.
      intros q o n (Hm & Hcs & HR) Hlt HltD Hn. rewrite len_concat_chunks in *.
      destruct (told_defined _ _ HR) as (v & Hv & Hd).
      assert (Hvlt : v < cend c).
      { destruct Hce as (Hdc & _). apply (denote_strict f v (cend c) o oe Hwf Hd Hdc Hlt). }
      destruct (bread_data f (q_rd q) o n Hwf HR HltD Hn) as (st' & k & Hb & Hk1 & Hkn & Hkd & HR' & HJ').
      unfold q_read, q_fill. rewrite Hm, Hv. destruct (N.ltb_spec v (cend c)); [|lia].
      unfold bread in Hb. destruct (fill_buf (q_rd q)) as [st1 [src|e| | |]]; try discriminate.
      injection Hb as Hst Hsrc. cbn [q_rd q_cs q_mode].
      exists (mkQ st' (q_cs q) (QRead (cend c))), k.
      rewrite Hst, Hsrc. splits; fin.
      unfold GRelQ. cbn [q_rd q_cs q_mode]. auto.
    Qed.

    (* reading on from a record boundary inside (or at the end of) the chunk *)
    Lemma qloop : forall S q o a acc fuel',
      GRelQ q o -> laid o a S -> skipn (N.to_nat o) D = stream (map br_body S) ->
      cstart c <= a ->
      ((o < oe /\ end_in o S (cend c) oe) \/ (o = oe /\ JC f (q_rd q) o /\ Told a o)) ->
      exists st' o', Rel f st' o' /\
        read_records qstate rdq bsz (length (filter (in_c c) S) + Datatypes.S fuel') q acc
        = read_records qstate rdq bsz (Datatypes.S fuel') (mkQ st' t QSeek)
            (acc ++ map br_body (filter (in_c c) S)).
    Proof.
      induction S as [|x S IH]; intros q o a acc fuel' HG HL Hsk Hcs Hcase.
      - destruct Hcase as [[_ []]|(Ho & HJ & HT)].
        destruct HG as (Hm & Hq & HR). cbn [filter length map plus]. rewrite app_nil_r.
        destruct (told_defined _ _ HR) as (v & Hv & Hd).
        assert (Ev : v = cend c).
        { apply (Told_same v (cend c) oe); [|exact Hce]. subst o. split; [exact Hd|]. exists (q_rd q). auto. }
        exists (q_rd q), o. split; [exact HR|].
        rewrite <- Hq. apply read_records_ext. intros n.
        apply (q_read_at_end q (cend c) v n Hm Hv). lia.
      - destruct Hcase as [(Hlt & Hend)|(Ho & HJ & HT)].
        + (* the record starts inside the chunk: it is read *)
          pose proof (laid_a_lt_b _ _ _ _ HL) as Hab.
          destruct HL as (Ha & Hda & Hok & HTb & HL').
          assert (Hin : in_c c x = true).
          { unfold NV.Index.Formats.in_chunk_f. rewrite Ha. destruct Hce as (Hdc & _).
            pose proof (denote_strict f a (cend c) o oe Hwf Hda Hdc Hlt). lia. }
          cbn [filter]. rewrite Hin. cbn [length map plus].
          cbn [map stream concat] in Hsk. fold (stream (map br_body S)) in Hsk.
          assert (Hoe : o + 4 + len (br_body x) <= oe).
          { cbn [end_in] in Hend. destruct Hend as [[_ E]|He]; [lia|].
            destruct (end_in_told _ _ _ _ _ HL' He). lia. }
          destruct (gen_read_record qstate rdq bsz D GRelQ GJCQ oe q_rd_data q o (br_body x)
                      (stream (map br_body S)) HG Hsk Hok Hoe) as (q1 & Hrr & HG1 & HJ1).
          cbn [read_records]. rewrite Hrr.
          pose proof (skipn_at D o _ _ Hsk) as Hsk2. rewrite len_framed in Hsk2.
          replace (o + (4 + len (br_body x))) with (o + 4 + len (br_body x)) in Hsk2 by lia.
          assert (Hcase' : (o + 4 + len (br_body x) < oe /\ end_in (o + 4 + len (br_body x)) S (cend c) oe) \/
                           (o + 4 + len (br_body x) = oe /\ JC f (q_rd q1) (o + 4 + len (br_body x)) /\
                            Told (br_b x) (o + 4 + len (br_body x)))).
          { cbn [end_in] in Hend. destruct Hend as [[_ E]|He].
            - right. splits; fin. 
            - left. split; [|exact He]. destruct (end_in_told _ _ _ _ _ HL' He). lia. }
          destruct (IH q1 _ (br_b x) (acc ++ [br_body x]) fuel' HG1 HL' Hsk2) as (st' & o' & HR' & Heq);
            [lia | exact Hcase' |].
          exists st', o'. split; [exact HR'|]. rewrite Heq. rewrite <- app_assoc. reflexivity.
        + (* the chunk ends here: nothing more is in it *)
          assert (Ea : a = cend c).
          { apply (Told_same a (cend c) oe); [subst o; exact HT | exact Hce]. }
          assert (Hnone : filter (in_c c) (x :: S) = []).
          {
            assert (Hall : forall y, In y (x :: S) -> in_c c y = false).
            { intros y Hy. pose proof (laid_a_le _ _ _ y HL Hy). unfold NV.Index.Formats.in_chunk_f. lia. }
            clear - Hall. induction (x :: S) as [|z l IHl]; [reflexivity|].
            cbn [filter]. rewrite (Hall z (or_introl eq_refl)). apply IHl.
            intros y Hy. apply Hall. right. exact Hy. }
          rewrite Hnone. cbn [length map plus]. rewrite app_nil_r.
          destruct HG as (Hm & Hq & HR).
          destruct (told_defined _ _ HR) as (v & Hv & Hd).
          assert (Ev : v = cend c).
          { apply (Told_same v (cend c) oe); [|exact Hce]. subst o. split; [exact Hd|]. exists (q_rd q). auto. }
          exists (q_rd q), o. split; [exact HR|].
          rewrite <- Hq. apply read_records_ext. intros n.
          apply (q_read_at_end q (cend c) v n Hm Hv). lia.
    Qed.
  End Chunk.

  Lemma seek_to_told : forall st o v ov, Rel f st o -> denote f v = Some ov ->
    exists st1, seek true f st v = (st1, Ok v) /\ Rel f st1 ov.
  Proof.
    intros st o v ov (s & HI & _) Hd. unfold denote in Hd.
    destruct (frame_start f 0 0 (vcomp v)) as [[s0 l]|] eqn:Hfs; [|discriminate].
    destruct (N.leb_spec (vuncomp v) l) as [Hu|]; [|discriminate]. inversion Hd; subst ov.
    assert (Hok : seek_ok true f st v) by (intros H; discriminate).
    destruct (seek_refines true f st s v s0 l Hwf HI Hfs Hu Hok) as [Hr HI'].
    destruct (seek true f st v) as [st1 r]. cbn [fst snd] in *. subst r.
    exists st1. split; [reflexivity|]. eexists. split; [exact HI'|]. unfold f_seek. cbn [off]. reflexivity.
  Qed.

  Lemma laid_suffix : forall P S o a, laid o a (P ++ S) ->
    skipn (N.to_nat o) D = stream (map br_body (P ++ S)) ->
    exists o' a', laid o' a' S /\ skipn (N.to_nat o') D = stream (map br_body S) /\
      (forall y z, In y P -> In z S -> br_a y < br_a z).
  Proof.
    induction P as [|x P IH]; intros S o a HL Hsk.
    - exists o, a. cbn [app] in *. splits; fin. intros y z [].
    - cbn [app] in HL, Hsk. pose proof (laid_a_lt_b _ _ _ _ HL) as Hab.
      destruct HL as (Ha & Hda & Hok & HTb & HL').
      cbn [map stream concat] in Hsk. fold (stream (map br_body (P ++ S))) in Hsk.
      pose proof (skipn_at D o _ _ Hsk) as Hsk2. rewrite len_framed in Hsk2.
      replace (o + (4 + len (br_body x))) with (o + 4 + len (br_body x)) in Hsk2 by lia.
      destruct (IH S _ _ HL' Hsk2) as (o' & a' & HLS & HskS & Hlt).
      exists o', a'. splits; fin. intros y z [E|Hy] Hz.
      + subst y. pose proof (laid_a_le _ _ _ z HL' (in_or_app _ _ _ (or_intror Hz))). lia.
      + apply Hlt; assumption.
  Qed.

  Lemma filter_none : forall (g : brec -> bool) l, (forall y, In y l -> g y = false) -> filter g l = [].
  Proof.
    intros g l. induction l as [|z l IHl]; intros H; [reflexivity|].
    cbn [filter]. rewrite (H z (or_introl eq_refl)). apply IHl. intros y Hy. apply H. right. exact Hy.
  Qed.

  Section Scanned.
    Variable L : list brec.
    Variable o0 a0 : N.
    Hypothesis HL : laid o0 a0 L.
    Hypothesis HD : skipn (N.to_nat o0) D = stream (map br_body L).

    (* what an index holds: the chunk starts where a record starts and ends where that or a
       later record ends *)
    Definition aligned (c : chunk) : Prop :=
      exists P x S', L = P ++ x :: S' /\ cstart c = br_a x /\
                     exists y, In y (x :: S') /\ cend c = br_b y.

    Notation cread := (NV.Index.Formats.chunk_read_f brec br_a).

    Theorem query_read : forall cs, Forall aligned cs -> forall st o acc fuel, Rel f st o ->
      (length (cread cs L) < fuel)%nat ->
      exists st' o', Rel f st' o' /\
        read_records qstate rdq bsz fuel (mkQ st cs QSeek) acc
        = (mkQ st' [] QDone, Ok (acc ++ map br_body (cread cs L))).
    Proof.
      induction cs as [|c t IH]; intros Hal st o acc fuel HR Hf;
        (destruct fuel as [|k]; [lia|]).
      - cbn [read_records]. unfold bam_read_record. cbn [read_upto].
        change (4 =? 0) with false. cbv iota.
        unfold q_read, q_fill. cbn [q_mode q_rd q_cs q_seek_loop]. rewrite firstn_nil, !len_nil.
        change (0 =? 0) with true. cbv iota. rewrite len_nil.
        change ((0 <? 0) && (0 <? 4)) with false. cbv iota. cbn [le_dec].
        change (0 =? 0) with true. cbv iota.
        exists (consume st 0), o. split.
        + destruct HR as (s & HI & Ho). exists (f_consume s 0). split; [apply inv_consume; assumption|].
          unfold f_consume, f_advance. cbn [off]. lia.
        + unfold NV.Index.Formats.chunk_read_f. cbn [flat_map map]. rewrite app_nil_r. reflexivity.
      - inversion Hal as [|? ? Hc Hat]; subst.
        destruct Hc as (P & x & S' & HLs & Hcs & y & Hy & Hce).
        rewrite HLs in HL, HD.
        destruct (laid_suffix P (x :: S') o0 a0 HL HD) as (ox & ax & HLS & HskS & Hlt).
        assert (Eax : ax = br_a x) by (destruct HLS as (E & _); auto). subst ax.
        destruct (end_in_of_In _ _ _ y HLS Hy) as (oe & Hend). rewrite <- Hce in Hend.
        destruct (end_in_told _ _ _ _ _ HLS Hend) as (HT & Hoe).
        assert (Hdx : denote f (cstart c) = Some ox) by (rewrite Hcs; destruct HLS as (_ & Hd & _); exact Hd).
        destruct (seek_to_told st o (cstart c) ox HR Hdx) as (st1 & Hsk & HR1).
        destruct (told_defined _ _ HR1) as (v1 & Hv1 & Hd1).
        assert (Hv1lt : v1 < cend c).
        { destruct HT as (Hdc & _). apply (denote_strict f v1 (cend c) ox oe Hwf Hd1 Hdc Hoe). }
        rewrite (read_records_ext (mkQ st (c :: t) QSeek) (mkQ st1 t (QRead (cend c))) k acc)
          by (intros n; apply (q_read_seek st c t st1 (cstart c) v1 n Hsk Hv1 Hv1lt)).
        assert (Hfl : filter (in_c c) L = filter (in_c c) (x :: S')).
        { rewrite HLs, filter_app. rewrite (filter_none (in_c c) P); [reflexivity|].
          intros z Hz. pose proof (Hlt z x Hz (or_introl eq_refl)).
          unfold NV.Index.Formats.in_chunk_f. lia. }
        assert (Hcr : cread (c :: t) L = filter (in_c c) (x :: S') ++ cread t L).
        { unfold NV.Index.Formats.chunk_read_f. cbn [flat_map]. rewrite Hfl. reflexivity. }
        rewrite Hcr in *. rewrite app_length in Hf.
        set (nc := length (filter (in_c c) (x :: S'))) in *.
        replace (Datatypes.S k) with (nc + Datatypes.S (k - nc))%nat by lia.
        destruct (qloop c t oe HT (x :: S') (mkQ st1 t (QRead (cend c))) ox (br_a x) acc (k - nc)%nat)
          as (st2 & o2 & HR2 & Heq); try assumption.
        + unfold GRelQ. cbn [q_mode q_cs q_rd]. auto.
        + lia.
        + left. auto.
        + fold nc in Heq. rewrite Heq.
          destruct (IH Hat st2 o2 (acc ++ map br_body (filter (in_c c) (x :: S'))) (Datatypes.S (k - nc)) HR2)
            as (st' & o' & HR' & Hfin); [lia|].
          exists st', o'. split; [exact HR'|]. rewrite Hfin. rewrite map_app, app_assoc. reflexivity.
    Qed.
  End Scanned.
End File.

(* ---- the entry points ------------------------------------------------------------------------ *)

Lemma filter_len_le : forall (A : Type) (g : A -> bool) l, (length (filter g l) <= length l)%nat.
Proof. intros A g l. induction l as [|x l IH]; cbn [filter length]; [lia|]. destruct (g x); cbn [length]; lia. Qed.

Lemma cread_len : forall cs (L : list brec),
  (length (NV.Index.Formats.chunk_read_f brec br_a cs L) <= length cs * length L)%nat.
Proof.
  intros cs L. unfold NV.Index.Formats.chunk_read_f. induction cs as [|c t IH]; cbn [flat_map length]; [lia|].
  rewrite app_length. pose proof (filter_len_le brec (NV.Index.Formats.in_chunk_f brec br_a c) L).
  rewrite Nat.mul_succ_l. revert IH H.
  generalize (length t * length L)%nat, (length (filter (NV.Index.Formats.in_chunk_f brec br_a c) L)), (length L).
  generalize (length (flat_map (fun c0 : chunk => filter (NV.Index.Formats.in_chunk_f brec br_a c0) L) t)).
  intros; lia.
Qed.

Lemma stream_len : forall bodies, (length bodies <= length (stream bodies))%nat.
Proof.
  induction bodies as [|b t IH]; [cbn; lia|]. unfold stream in *. cbn [map concat length].
  rewrite app_length. unfold framed at 1. rewrite app_length, le32_length. lia.
Qed.

Section Entry.
  Variable f : file.
  Variable bsz : N -> N.
  Hypothesis Hwf : wf f.
  Hypothesis Hmax : total_csize f <= MAX_COMPRESSED_POSITION.
  Variable L : list brec.
  Variable o0 a0 : N.
  Hypothesis HL : laid f o0 a0 L.
  Hypothesis HD : skipn (N.to_nat o0) (concat (chunks f)) = stream (map br_body L).

  Lemma scanned_len : (length L < scan_fuel f)%nat.
  Proof.
    pose proof (f_equal (@length N) HD) as H. rewrite skipn_length in H.
    pose proof (stream_len (map br_body L)) as H2. rewrite map_length in H2.
    unfold scan_fuel. fold (chunks f). lia.
  Qed.

  (* Reader::query's reading step on a reader in ANY state the C02 invariant allows (fresh, after a
     scan, after earlier queries ...): chunk by chunk the records starting in the chunk, and the
     reader is again in such a state *)
  Theorem byte_query_spec : forall cs st o, Forall (aligned L) cs -> Rel f st o ->
    exists st' o', Rel f st' o' /\
      byte_query bsz f st cs = (st', Ok (map br_body (NV.Index.Formats.chunk_read_f brec br_a cs L))).
  Proof.
    intros cs st o Hal HR. unfold byte_query, q_new.
    destruct (query_read f bsz Hwf Hmax L o0 a0 HL HD cs Hal st o [] (S (length cs * scan_fuel f)) HR)
      as (st' & o' & HR' & Heq).
    { pose proof (cread_len cs L). pose proof scanned_len. nia. }
    rewrite Heq. exists st', o'. split; [exact HR'|]. reflexivity.
  Qed.

  (* histories: several queries one after the other on the same reader object each give the
     answer a fresh reader gives *)
  Theorem byte_queries_spec : forall qs st o, Forall (Forall (aligned L)) qs -> Rel f st o ->
    byte_queries bsz f st qs
    = map (fun cs => Ok (map br_body (NV.Index.Formats.chunk_read_f brec br_a cs L))) qs.
  Proof.
    induction qs as [|cs t IH]; intros st o Hal HR; [reflexivity|].
    inversion Hal as [|? ? Hc Ht]; subst. cbn [byte_queries map].
    destruct (byte_query_spec cs st o Hc HR) as (st' & o' & HR' & Heq). rewrite Heq.
    f_equal. apply (IH st' o' Ht HR').
  Qed.
End Entry.

(* the scan from a reader that has consumed the header: every record of the stream with the
   positions told before / after it; those positions are strictly increasing numbers *)
Theorem byte_scan_spec : forall f bsz st o bodies, wf f -> total_csize f <= MAX_COMPRESSED_POSITION ->
  Rel f st o -> skipn (N.to_nat o) (concat (chunks f)) = stream bodies -> Forall rec_ok bodies ->
  exists st' a L, virtual_position st = Ok a /\ scan_from bsz f st = (st', Ok L) /\
    map br_body L = bodies /\ laid f o a L /\ Rel f st' (total_dlen f).
Proof.
  intros f bsz st o bodies Hwf Hmax HR Hsk Hok.
  destruct (told_defined f Hwf Hmax st o HR) as (a & Ha & _).
  destruct (scan_loop_spec f bsz Hwf Hmax bodies (scan_fuel f) st o a [] HR Ha Hsk Hok) as (st' & L & Hs & Hm & Hl & HR').
  { pose proof (f_equal (@length N) Hsk) as H. rewrite skipn_length in H.
    pose proof (stream_len bodies). unfold scan_fuel. fold (chunks f). lia. }
  exists st', a, L. unfold scan_from. rewrite Ha. cbn [app] in Hs. auto.
Qed.

Fixpoint ordered_b (prev : N) (L : list brec) : Prop :=
  match L with
  | [] => True
  | x :: t => prev <= br_a x /\ br_a x < br_b x /\ ordered_b (br_b x) t
  end.

Lemma laid_ordered : forall f, wf f -> total_csize f <= MAX_COMPRESSED_POSITION ->
  forall L o a, laid f o a L -> ordered_b a L.
Proof.
  intros f Hwf Hmax. induction L as [|x t IH]; intros o a HL; [exact I|].
  assert (Hlt : br_a x < br_b x) by (eapply (laid_a_lt_b f (fun z => z)); eauto). destruct HL as (Ha & _ & _ & _ & HL').
  cbn [ordered_b]. splits; fin; try lia. apply (IH _ _ HL').
Qed.
