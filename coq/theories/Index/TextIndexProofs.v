From Coq Require Import List NArith ZArith Bool Lia.
From Coq Require Import ZifyBool ZifyNat ZifyN.
From NV Require Import Base.Decimal Base.DecimalProofs Index.TextIndex.
Import ListNotations.
Open Scope N_scope.

Lemma break_at_app sep a rest : ~ In sep a -> break_at sep (a ++ sep :: rest) = (a, Some rest).
Proof.
  induction a as [|x a IH]; intros Hn; cbn [app break_at].
  - rewrite N.eqb_refl. reflexivity.
  - destruct (x =? sep) eqn:E; [exfalso; apply Hn; left; lia|].
    rewrite IH; [reflexivity|]. intros Hin. apply Hn. right. exact Hin.
Qed.

Lemma break_at_none sep a : ~ In sep a -> break_at sep a = (a, None).
Proof.
  induction a as [|x a IH]; intros Hn; cbn [break_at]; [reflexivity|].
  destruct (x =? sep) eqn:E; [exfalso; apply Hn; left; lia|].
  rewrite IH; [reflexivity|]. intros Hin. apply Hn. right. exact Hin.
Qed.

Lemma digits_no_sep sep d : all_digits d -> sep < 48 -> ~ In sep d.
Proof.
  intros Hd Hs Hin. unfold all_digits in Hd. rewrite Forall_forall in Hd.
  specialize (Hd sep Hin). apply is_digit_iff in Hd. lia.
Qed.

Definition ascii (l : list N) : Prop := Forall (fun c => c < 128) l.

Lemma utf8_valid_app_n : forall n a b, (length a <= n)%nat -> utf8_valid a = true ->
  utf8_valid (a ++ b) = utf8_valid b.
Proof.
  induction n as [|n IH]; intros a b Hl Hv.
  - destruct a; [reflexivity|cbn [length] in Hl; lia].
  - destruct a as [|x t]; [reflexivity|]. cbn [length] in Hl.
    cbn [app utf8_valid] in *. destruct (x <? 128); [apply IH; [lia|exact Hv]|].
    destruct (in_rng 194 223 x).
    { destruct t as [|c1 t1]; [discriminate|]. cbn [app]. cbn [length] in Hl.
      apply andb_true_iff in Hv. destruct Hv as [H1 H2]. rewrite H1. cbn [andb]. apply IH; [lia|exact H2]. }
    destruct (in_rng 224 239 x).
    { destruct t as [|c1 [|c2 t2]]; try discriminate. cbn [app]. cbn [length] in Hl.
      apply andb_true_iff in Hv. destruct Hv as [H1 H2]. rewrite H1. cbn [andb]. apply IH; [lia|exact H2]. }
    destruct (in_rng 240 244 x); [|discriminate].
    destruct t as [|c1 [|c2 [|c3 t3]]]; try discriminate. cbn [app]. cbn [length] in Hl.
    apply andb_true_iff in Hv. destruct Hv as [H1 H2]. rewrite H1. cbn [andb]. apply IH; [lia|exact H2].
Qed.

Lemma utf8_valid_app a b : utf8_valid a = true -> utf8_valid (a ++ b) = utf8_valid b.
Proof. apply (utf8_valid_app_n (length a)). lia. Qed.

Lemma utf8_valid_ascii l : ascii l -> utf8_valid l = true.
Proof.
  induction 1 as [|x l Hx Hl IH]; [reflexivity|]. cbn [utf8_valid].
  replace (x <? 128) with true by lia. exact IH.
Qed.

Lemma digits_ascii d : all_digits d -> ascii d.
Proof.
  unfold all_digits, ascii. intros H. eapply Forall_impl; [|exact H].
  intros c Hc. apply is_digit_iff in Hc. lia.
Qed.

Lemma strip_cr_snoc l c : c <> CR -> strip_cr (l ++ [c]) = l ++ [c].
Proof.
  intros Hc. induction l as [|x l IH]; cbn [app strip_cr].
  - replace (c =? CR) with false by lia. reflexivity.
  - destruct (l ++ [c]) eqn:E; [destruct l; discriminate|].
    first [rewrite IH; reflexivity | rewrite <- E; rewrite IH; reflexivity].
Qed.

Lemma strip_cr_digits a d : all_digits d -> d <> [] -> strip_cr (a ++ d) = a ++ d.
Proof.
  intros Hd Hne. destruct (exists_last Hne) as (d' & c & E). subst d.
  rewrite app_assoc. apply strip_cr_snoc.
  unfold all_digits in Hd. apply Forall_app in Hd. destruct Hd as [_ Hc].
  pose proof (Forall_inv Hc) as H1. apply is_digit_iff in H1. unfold CR. lia.
Qed.

Lemma fmt_dec_of_N n : fmt_dec (Z.of_N n) = fmt_N n.
Proof. destruct n; reflexivity. Qed.

Lemma parse_u64_fmt n : n < 18446744073709551616 -> parse_u64 (fmt_N n) = Some n.
Proof.
  intros H. unfold parse_u64. rewrite <- fmt_dec_of_N.
  rewrite parse_int_fmt_unsigned by (unfold u64_max; lia). cbn [option_map]. rewrite N2Z.id. reflexivity.
Qed.

Lemma parse_nz_u64_fmt n : 1 <= n -> n < 18446744073709551616 -> parse_nz_u64 (fmt_N n) = Some n.
Proof.
  intros H1 H2. unfold parse_nz_u64. rewrite parse_u64_fmt by exact H2. destruct n; [lia|reflexivity].
Qed.

(* ---- the generic line loop ---- *)
Lemma read_lines_gen_concat {A} (check : list N -> bool) (parse : list N -> option A)
    (line : A -> list N) (l : list A) :
  (forall r, In r l -> ~ In LF (line r) /\ check (line r) = true /\
                       strip_cr (line r) = line r /\ parse (line r) = Some r) ->
  forall fuel, (length (concat (map (fun r => line r ++ [LF]) l)) < fuel)%nat ->
  read_lines_gen check fuel parse (concat (map (fun r => line r ++ [LF]) l)) = Some l.
Proof.
  induction l as [|r l IH]; intros H fuel Hf.
  - destruct fuel; [lia|]. reflexivity.
  - destruct fuel as [|f]; [lia|]. cbn [map concat] in *. rewrite !app_length in Hf. cbn [length] in Hf.
    destruct (H r (or_introl eq_refl)) as (Hlf & Hu & Hs & Hp).
    rewrite <- app_assoc. cbn [app]. cbn [read_lines_gen].
    destruct (line r ++ LF :: concat (map (fun r0 => line r0 ++ [LF]) l)) eqn:E;
      [destruct (line r); discriminate|]. rewrite <- E. clear E.
    rewrite break_at_app by exact Hlf. rewrite Hu, Hs, Hp.
    rewrite IH; [reflexivity| |lia].
    intros r' Hr'. apply H. right. exact Hr'.
Qed.

Lemma read_lines_concat {A} (parse : list N -> option A) (line : A -> list N) (l : list A) :
  (forall r, In r l -> ~ In LF (line r) /\ utf8_valid (line r) = true /\
                       strip_cr (line r) = line r /\ parse (line r) = Some r) ->
  forall fuel, (length (concat (map (fun r => line r ++ [LF]) l)) < fuel)%nat ->
  read_lines fuel parse (concat (map (fun r => line r ++ [LF]) l)) = Some l.
Proof. apply read_lines_gen_concat. Qed.

(* a numeric field that parses is ASCII, so the from_utf8 step of the fai reader's numeric fields
   is implied by the parse *)
Lemma take_digits_all_digits s : forall a k v n,
  take_digits s a k = (v, n, []) -> Forall (fun c => is_digit c = true) s.
Proof.
  induction s as [|c t IH]; intros a k v n H; [constructor|].
  cbn [take_digits] in H. destruct (is_digit c) eqn:Ed; [|discriminate].
  constructor; [exact Ed|]. eapply IH. exact H.
Qed.

Lemma parse_N_ascii s v : parse_N s = Some v -> ascii s.
Proof.
  unfold parse_N. destruct (take_digits s 0 0) as [[v' n] rest] eqn:E.
  destruct n; [discriminate|]. destruct rest; [|discriminate]. intros _.
  apply digits_ascii. eapply take_digits_all_digits. exact E.
Qed.

Lemma parse_dec_unsigned_ascii s z : parse_dec false s = Some z -> ascii s.
Proof.
  unfold parse_dec. intros H.
  assert (Hn : forall t, option_map Z.of_N (parse_N t) = Some z -> ascii t).
  { intros t Ht. destruct (parse_N t) eqn:E; [|discriminate]. eapply parse_N_ascii. exact E. }
  destruct s as [|c t]; [constructor|].
  destruct (N.eq_dec c 43) as [E|E]; [subst c|].
  - constructor; [lia|]. apply Hn. exact H.
  - destruct (N.eq_dec c 45) as [E2|E2]; [subst c; discriminate|].
    assert (Hs : option_map Z.of_N (parse_N (c :: t)) = Some z).
    { destruct c as [|p]; [exact H|].
      do 6 (destruct p as [p|p|]; try exact H); try exact H; try lia. }
    apply Hn. exact Hs.
Qed.

Lemma parse_u64_ascii s n : parse_u64 s = Some n -> ascii s.
Proof.
  unfold parse_u64, parse_int. destruct (parse_dec false s) as [z|] eqn:E; [|discriminate].
  intros _. eapply parse_dec_unsigned_ascii. exact E.
Qed.

Theorem parse_u64_bytes_eq s : parse_u64_bytes s = parse_u64 s.
Proof.
  unfold parse_u64_bytes. destruct (parse_u64 s) as [n|] eqn:E.
  - rewrite utf8_valid_ascii; [reflexivity|]. eapply parse_u64_ascii. exact E.
  - destruct (utf8_valid s); reflexivity.
Qed.

Theorem parse_nz_u64_bytes_eq s : parse_nz_u64_bytes s = parse_nz_u64 s.
Proof.
  unfold parse_nz_u64_bytes, parse_nz_u64. destruct (parse_u64 s) as [n|] eqn:E.
  - rewrite utf8_valid_ascii; [reflexivity|]. eapply parse_u64_ascii. exact E.
  - destruct (utf8_valid s); reflexivity.
Qed.

(* ---------- fai ---------- *)
Definition fai_line (r : fai_rec) : list N :=
  f_name r ++ TAB :: fmt_N (f_len r) ++ TAB :: fmt_N (f_pos r) ++ TAB :: fmt_N (f_lb r)
  ++ TAB :: fmt_N (f_lw r).

Definition fits_u64 (n : N) : Prop := n < 18446744073709551616.

(* names: any bytes except TAB and LF (CR is fine: only a CR right before the LF is dropped, and
   a line ends with a digit) *)
Definition fai_ok (r : fai_rec) : Prop :=
  ~ In TAB (f_name r) /\ ~ In LF (f_name r) /\
  fits_u64 (f_len r) /\ fits_u64 (f_pos r) /\ 1 <= f_lb r /\ fits_u64 (f_lb r) /\ 1 <= f_lw r /\ fits_u64 (f_lw r).

Lemma w_fai_rec_line r : w_fai_rec r = fai_line r ++ [LF].
Proof.
  unfold w_fai_rec, fai_line. repeat (rewrite <- app_assoc; cbn [app]). reflexivity.
Qed.

Lemma not_in_app {A} (x : A) a b : ~ In x a -> ~ In x b -> ~ In x (a ++ b).
Proof. intros Ha Hb Hin. apply in_app_or in Hin. tauto. Qed.
Lemma not_in_cons {A} (x y : A) b : x <> y -> ~ In x b -> ~ In x (y :: b).
Proof. intros Hn Hb [E|Hin]; [congruence|tauto]. Qed.

Lemma parse_fai_line r : fai_ok r -> parse_fai_rec (fai_line r) = Some r.
Proof.
  intros (Ht & Hl & H1 & H2 & H3 & H4 & H5 & H6). unfold parse_fai_rec, fai_line.
  destruct (f_name r ++ TAB :: fmt_N (f_len r) ++ TAB :: fmt_N (f_pos r) ++ TAB :: fmt_N (f_lb r)
            ++ TAB :: fmt_N (f_lw r)) eqn:E; [destruct (f_name r); discriminate|]. rewrite <- E. clear E.
  rewrite break_at_app by exact Ht.
  rewrite break_at_app by (apply digits_no_sep; [apply fmt_N_digits|unfold TAB; lia]).
  rewrite parse_u64_fmt by exact H1.
  rewrite break_at_app by (apply digits_no_sep; [apply fmt_N_digits|unfold TAB; lia]).
  rewrite parse_u64_fmt by exact H2.
  rewrite break_at_app by (apply digits_no_sep; [apply fmt_N_digits|unfold TAB; lia]).
  rewrite parse_nz_u64_fmt by assumption. rewrite parse_nz_u64_fmt by assumption.
  destruct r; reflexivity.
Qed.

Lemma ascii_tab_digits d rest : all_digits d -> ascii rest -> ascii (TAB :: d ++ rest).
Proof.
  intros Hd Hr. constructor; [unfold TAB; lia|]. apply Forall_app. split; [apply digits_ascii; exact Hd|exact Hr].
Qed.

Lemma fai_line_ok r : fai_ok r ->
  ~ In LF (fai_line r) /\ no_check (fai_line r) = true /\ strip_cr (fai_line r) = fai_line r /\
  parse_fai_rec (fai_line r) = Some r.
Proof.
  intros Hok. pose proof Hok as (Ht & Hl & _). split; [|split; [|split]].
  - unfold fai_line.
    repeat (first [apply not_in_app; [first [exact Hl | apply digits_no_sep; [apply fmt_N_digits|unfold LF; lia]]|]
                  | apply not_in_cons; [unfold LF, TAB; lia|]]).
    apply digits_no_sep; [apply fmt_N_digits|unfold LF; lia].
  - reflexivity.
  - unfold fai_line.
    replace (f_name r ++ TAB :: fmt_N (f_len r) ++ TAB :: fmt_N (f_pos r) ++ TAB :: fmt_N (f_lb r) ++ TAB :: fmt_N (f_lw r))
      with ((f_name r ++ TAB :: fmt_N (f_len r) ++ TAB :: fmt_N (f_pos r) ++ TAB :: fmt_N (f_lb r) ++ [TAB]) ++ fmt_N (f_lw r))
      by (repeat (rewrite <- app_assoc; cbn [app]); reflexivity).
    apply strip_cr_digits; [apply fmt_N_digits|apply fmt_N_nonempty].
  - apply parse_fai_line. exact Hok.
Qed.

(* names are any bytes without TAB and LF -- valid UTF-8 or not (since the `fix:` commit 24986d3) *)
Theorem fai_roundtrip l : Forall fai_ok l -> read_fai (w_fai l) = Some l.
Proof.
  intros Hok. unfold read_fai, w_fai, read_lines_bytes.
  replace (map w_fai_rec l) with (map (fun r => fai_line r ++ [LF]) l)
    by (apply map_ext; intros r; symmetry; apply w_fai_rec_line).
  apply read_lines_gen_concat; [|lia].
  intros r Hr. apply fai_line_ok. rewrite Forall_forall in Hok. auto.
Qed.

(* the former known finding `fai-non-utf8-name`, now positive: a record whose name is not valid
   UTF-8 reads back *)
Corollary fai_non_utf8_name_roundtrip r rest :
  utf8_valid (f_name r) = false -> Forall fai_ok (r :: rest) ->
  read_fai (w_fai (r :: rest)) = Some (r :: rest).
Proof. intros _ Hok. apply fai_roundtrip. exact Hok. Qed.

(* a numeric field is still text: a line whose second field is not valid UTF-8 is rejected *)
Lemma parse_u64_non_utf8 f : utf8_valid f = false -> parse_u64 f = None.
Proof.
  intros Hv. destruct (parse_u64 f) as [n|] eqn:E; [|reflexivity].
  apply parse_u64_ascii in E. apply utf8_valid_ascii in E. congruence.
Qed.

Theorem fai_non_utf8_numeric_rejected name f rest :
  ~ In TAB name -> ~ In TAB f -> utf8_valid f = false ->
  parse_fai_rec (name ++ TAB :: f ++ TAB :: rest) = None.
Proof.
  intros Hn Hf Hv. unfold parse_fai_rec.
  destruct (name ++ TAB :: f ++ TAB :: rest) eqn:E; [destruct name; discriminate|]. rewrite <- E. clear E.
  rewrite break_at_app by exact Hn. rewrite break_at_app by exact Hf.
  rewrite parse_u64_non_utf8 by exact Hv. reflexivity.
Qed.

(* ---------- crai ---------- *)
Definition crai_line (r : crai_rec) : list N :=
  match c_rid r with Some id => fmt_N id | None => fmt_dec (-1) end
  ++ TAB :: fmt_N (match c_start r with Some p => p | None => 0 end)
  ++ TAB :: fmt_N (c_span r) ++ TAB :: fmt_N (c_off r) ++ TAB :: fmt_N (c_land r)
  ++ TAB :: fmt_N (c_slen r).

(* reference ids fit an i32 (the reader parses that field as i32); positions are >= 1 *)
Definition crai_ok (r : crai_rec) : Prop :=
  match c_rid r with Some id => id <= 2147483647 | None => True end /\
  match c_start r with Some p => 1 <= p /\ fits_u64 p | None => True end /\
  fits_u64 (c_span r) /\ fits_u64 (c_off r) /\ fits_u64 (c_land r) /\ fits_u64 (c_slen r).

Lemma w_crai_rec_line r : w_crai_rec r = crai_line r ++ [LF].
Proof.
  unfold w_crai_rec, crai_line. repeat (rewrite <- app_assoc; cbn [app]). reflexivity.
Qed.

Definition rid_text (r : crai_rec) : list N :=
  match c_rid r with Some id => fmt_N id | None => fmt_dec (-1) end.

Lemma rid_text_chars r : Forall (fun c => is_digit c = true \/ c = 45) (rid_text r).
Proof.
  unfold rid_text. destruct (c_rid r) as [id|].
  - eapply Forall_impl; [|apply fmt_N_digits]. intros c Hc. left. exact Hc.
  - apply fmt_dec_chars.
Qed.

Lemma rid_text_no_sep r sep : sep < 45 -> ~ In sep (rid_text r).
Proof.
  intros Hs Hin. pose proof (rid_text_chars r) as H. rewrite Forall_forall in H.
  destruct (H sep Hin) as [Hd|He]; [apply is_digit_iff in Hd; lia|lia].
Qed.

Lemma rid_text_ascii r : ascii (rid_text r).
Proof.
  eapply Forall_impl; [|apply rid_text_chars]. intros c [Hd|He]; [apply is_digit_iff in Hd; lia|lia].
Qed.

Lemma parse_rid r : match c_rid r with Some id => id <= 2147483647 | None => True end ->
  parse_int true i32_min i32_maxz (rid_text r)
  = Some (match c_rid r with Some id => Z.of_N id | None => (-1)%Z end).
Proof.
  intros H. unfold rid_text. destruct (c_rid r) as [id|].
  - rewrite <- fmt_dec_of_N. apply parse_int_fmt. unfold i32_min, i32_maxz. lia.
  - apply parse_int_fmt. unfold i32_min, i32_maxz. lia.
Qed.

Lemma parse_crai_line r : crai_ok r -> parse_crai_rec (crai_line r) = Some r.
Proof.
  intros (Hr & Hs & H1 & H2 & H3 & H4). unfold parse_crai_rec, crai_line. fold (rid_text r).
  rewrite break_at_app by (apply rid_text_no_sep; unfold TAB; lia).
  rewrite parse_rid by exact Hr.
  rewrite break_at_app by (apply digits_no_sep; [apply fmt_N_digits|unfold TAB; lia]).
  assert (Hst : fits_u64 (match c_start r with Some p => p | None => 0 end))
    by (destruct (c_start r) as [p|]; [tauto|unfold fits_u64; lia]).
  rewrite parse_u64_fmt by exact Hst.
  rewrite break_at_app by (apply digits_no_sep; [apply fmt_N_digits|unfold TAB; lia]).
  rewrite parse_u64_fmt by exact H1.
  rewrite break_at_app by (apply digits_no_sep; [apply fmt_N_digits|unfold TAB; lia]).
  rewrite parse_u64_fmt by exact H2.
  rewrite break_at_app by (apply digits_no_sep; [apply fmt_N_digits|unfold TAB; lia]).
  rewrite parse_u64_fmt by exact H3.
  rewrite parse_u64_fmt by exact H4.
  destruct r as [rid st sp off land sl]. cbn [c_rid c_start c_span c_off c_land c_slen] in *.
  destruct rid as [id|]; destruct st as [p|];
    repeat match goal with
    | |- context [(?a <? ?b)%Z] => let E := fresh "E" in destruct (a <? b)%Z eqn:E; [lia|]
    | |- context [(?a =? ?b)%Z] => let E := fresh "E" in destruct (a =? b)%Z eqn:E; [try lia|try lia]
    | |- context [?a =? 0] => let E := fresh "E" in destruct (a =? 0) eqn:E; [try lia|try lia]
    end; rewrite ?N2Z.id; reflexivity.
Qed.

Lemma crai_line_ok r : crai_ok r ->
  ~ In LF (crai_line r) /\ utf8_valid (crai_line r) = true /\ strip_cr (crai_line r) = crai_line r /\
  parse_crai_rec (crai_line r) = Some r.
Proof.
  intros Hok. split; [|split; [|split]].
  - unfold crai_line. fold (rid_text r).
    repeat (first [apply not_in_app; [first [apply rid_text_no_sep; unfold LF; lia
                                            | apply digits_no_sep; [apply fmt_N_digits|unfold LF; lia]]|]
                  | apply not_in_cons; [unfold LF, TAB; lia|]]).
    apply digits_no_sep; [apply fmt_N_digits|unfold LF; lia].
  - apply utf8_valid_ascii. unfold crai_line. fold (rid_text r).
    apply Forall_app. split; [apply rid_text_ascii|].
    repeat (apply ascii_tab_digits; [apply fmt_N_digits|]).
    constructor; [unfold TAB; lia|]. apply digits_ascii. apply fmt_N_digits.
  - unfold crai_line. fold (rid_text r).
    replace (rid_text r ++ TAB :: fmt_N (match c_start r with Some p => p | None => 0 end)
             ++ TAB :: fmt_N (c_span r) ++ TAB :: fmt_N (c_off r) ++ TAB :: fmt_N (c_land r) ++ TAB :: fmt_N (c_slen r))
      with ((rid_text r ++ TAB :: fmt_N (match c_start r with Some p => p | None => 0 end)
             ++ TAB :: fmt_N (c_span r) ++ TAB :: fmt_N (c_off r) ++ TAB :: fmt_N (c_land r) ++ [TAB]) ++ fmt_N (c_slen r))
      by (repeat (rewrite <- app_assoc; cbn [app]); reflexivity).
    apply strip_cr_digits; [apply fmt_N_digits|apply fmt_N_nonempty].
  - apply parse_crai_line. exact Hok.
Qed.

Theorem crai_roundtrip l : Forall crai_ok l -> read_crai (w_crai l) = Some l.
Proof.
  intros Hok. unfold read_crai, w_crai.
  replace (map w_crai_rec l) with (map (fun r => crai_line r ++ [LF]) l)
    by (apply map_ext; intros r; symmetry; apply w_crai_rec_line).
  apply read_lines_concat; [|lia].
  intros r Hr. apply crai_line_ok. rewrite Forall_forall in Hok. auto.
Qed.
