(* C04, VCF / BCF instance of NV.Index.Formats: the records carry what variant_start /
   variant_end (NV.Vcf.Span, the model of noodles-vcf/src/variant/record.rs owned by C09) look at.

     noodles-vcf/src/fs/index.rs  : tabix indexer, reference ids = order of first appearance of the
                                    names; a record without POS is an InvalidData error
     noodles-bcf/src/fs/index.rs  : Indexer<BinnedIndex> (14, 5), reference id = CHROM index;
                                    a record without POS makes `.expect("missing variant start")` panic
     */io/reader/query.rs         : `intersects` (same reference, then unbounded region or
                                    [variant_start, variant_end] meets the region)
   Definitions only. *)
From Coq Require Import List Arith NArith ZArith Bool.
From NV Require Import Text.TextBase Vcf.Values Vcf.Span.
From NV Require Import Index.Bins Index.Chunks Index.Indexer Index.QueryFast Index.AlignEnd Index.Formats Index.FormatsFast.
Import ListNotations.
Open Scope N_scope.

(* kinds of ALT alleles, as far as the specification's span rule distinguishes them *)
Inductive alt_kind := AltSeq | AltDel | AltDup | AltInv | AltCnv | AltIns | AltOther.

Record vcf_rec := mkvcf {
  v_id : N;                  (* BCF: CHROM index; VCF+tabix: index of the name by first appearance *)
  v_in : span_in;            (* POS, |REF|, INFO END, INFO SVLEN, FORMAT LEN values *)
  v_alts : list alt_kind;    (* only the specification's span looks at these *)
  v_a : N; v_b : N
}.

(* tabix::index::Indexer::add_record: IndexSet::insert_full of the name *)
Fixpoint index_of (x : N) (l : list N) : option N :=
  match l with
  | [] => None
  | y :: t => if x =? y then Some 0 else match index_of x t with Some i => Some (i + 1) | None => None end
  end.

Fixpoint tabix_names (seen : list N) (names : list N) : list N :=
  match names with
  | [] => seen
  | x :: t => match index_of x seen with Some _ => tabix_names seen t | None => tabix_names (seen ++ [x]) t end
  end.

(* ---- BEHAVIOUR SWITCHES: which of the two the tree under /repo currently is; the only lines to
   change when the repairs (fixes 02 and 03 under /tmp/C04/fixes) are committed ----
   bcf_index_repaired: bcf::fs::index returns InvalidData for a record without POS instead of
     panicking in `.expect("missing variant start")`;
   tabix_empty_contig_repaired: vcf::io::Reader::query answers with no records, instead of
     InvalidInput, for a contig of the VCF header that the tabix index does not list. *)
Definition bcf_index_repaired : bool := true.
Definition tabix_empty_contig_repaired : bool := true.

(* the indexing loops: variant_start first, then variant_end *)
Definition vcf_ctx (bcf v45 : bool) (x : vcf_rec) : ctxr :=
  if si_pos (v_in x) =? 0 then (if bcf && negb bcf_index_repaired then CPanic else CErr)
  else match variant_end v45 (v_in x) with
       | Ok e => CSome (v_id x) (si_pos (v_in x)) e
       | Err _ => CErr
       | Panic => CPanic
       end.

Definition vcf_hit (v45 : bool) (k : N) (iv : region) (x : vcf_rec) : option bool :=
  if negb (v_id x =? k) then Some false
  else if unbounded iv then Some true
  else if si_pos (v_in x) =? 0 then Some false
  else match variant_end v45 (v_in x) with
       | Ok e => Some (iv_intersects iv (si_pos (v_in x)) e)
       | _ => None
       end.

Definition vcf_index (bcf v45 : bool) := fmt_index vcf_rec (vcf_ctx bcf v45) v_a v_b.
Definition vcf_index_scan (bcf v45 : bool) := index_scan vcf_rec (vcf_ctx bcf v45) 0.
Definition vcf_query (v45 : bool) := fmt_query vcf_rec v_a (vcf_hit v45).
Definition vcf_query_fast (v45 : bool) := fmt_query_fast vcf_rec v_a (vcf_hit v45).

(* ---- the span per the VCF specification ---- *)
(* before 4.5: INFO END when present, else POS + |REF| - 1 *)
Definition spec_end_44 (r : span_in) : option N :=
  match si_end r with
  | Some (Some (VInteger z)) => if (1 <=? z)%Z then Some (Z.to_N z) else None
  | Some (Some _) => None
  | _ => if si_reflen r =? 0 then None else Some (si_pos r + si_reflen r - 1)
  end.

(* 4.5 (section 1.6.1 INFO END / SVLEN / FORMAT LEN): the end of the record is the largest end
   over its alleles: REF and <INS> end at POS + |REF| - 1; <DEL> <DUP> <INV> <CNV> with SVLEN = L
   end at POS + L (POS is the base before the event); <*> with LEN = L ends at POS + L - 1 *)
Definition svlen_list (r : span_in) : list (option Z) :=
  match si_svlen r with Some (Some (VIntArr l)) => l | _ => [] end.

Fixpoint allele_ends (pos : N) (alts : list alt_kind) (sv : list (option Z)) : list N :=
  match alts, sv with
  | a :: at_, Some z :: st =>
      match a with
      | AltDel | AltDup | AltInv | AltCnv => (pos + Z.to_N z) :: allele_ends pos at_ st
      | _ => allele_ends pos at_ st
      end
  | _ :: at_, None :: st => allele_ends pos at_ st
  | _, _ => []
  end.

Fixpoint len_ends (pos : N) (l : list (option value)) : list N :=
  match l with
  | Some (VInteger z) :: t => (pos + Z.to_N z - 1) :: len_ends pos t
  | _ :: t => len_ends pos t
  | [] => []
  end.

Definition spec_end_45 (x : vcf_rec) : N :=
  let r := v_in x in
  fold_right N.max (si_pos r + si_reflen r - 1)
    (allele_ends (si_pos r) (v_alts x) (svlen_list r)
     ++ len_ends (si_pos r) (match si_len r with Some l => l | None => [] end)).

Definition vcf_spec_end (v45 : bool) (x : vcf_rec) : option N :=
  if v45 then Some (spec_end_45 x) else spec_end_44 (v_in x).

Definition vcf_scan_hit (v45 : bool) (k : N) (iv : region) (x : vcf_rec) : bool :=
  (v_id x =? k) &&
  match vcf_spec_end v45 x with
  | Some e => iv_intersects iv (si_pos (v_in x)) e
  | None => false
  end.
Definition vcf_scan (v45 : bool) (l : list vcf_rec) (k : N) (iv : region) : list vcf_rec :=
  filter (vcf_scan_hit v45 k iv) l.

(* the class of the known finding (tags vcf45-...): a 4.5 record with a non-missing INFO SVLEN value *)
Definition has_svlen (x : vcf_rec) : bool :=
  existsb (fun o => match o with Some _ => true | None => false end) (svlen_list (v_in x)).

(* ---- bgzipped VCF + tabix: names instead of ids ----
   A file is given with v_id = the contig (any numbering of the names, e.g. the header's order).
   vcf::fs::index numbers the names in order of first appearance (tabix_names); the index holds
   exactly those names; vcf::io::Reader::query resolves the region's name against them
   (resolve_region: a name that is not there is InvalidInput) and filters by name. *)
Definition tabix_id (names : list N) (c : N) : N := match index_of c names with Some i => i | None => 0 end.

Definition tabix_renumber (l : list vcf_rec) : list N * list vcf_rec :=
  let names := tabix_names [] (map v_id l) in
  (names, map (fun x => mkvcf (tabix_id names (v_id x)) (v_in x) (v_alts x) (v_a x) (v_b x)) l).

(* vcf::fs::index: tabix (linear, 14, 5), as many references as names *)
Definition tabix_index (v45 : bool) (l : list vcf_rec) : option (list refidx) :=
  let '(names, l') := tabix_renumber l in vcf_index false v45 14 5 (length names) l'.

Definition tabix_query (v45 : bool) (ixs : list refidx) (l : list vcf_rec) (c : N) (iv : region)
  : qres vcf_rec :=
  let '(names, l') := tabix_renumber l in
  match index_of c names with
  | None => if tabix_empty_contig_repaired then QOk [] else QInvalid   (* c: a contig of the header *)
  | Some k => vcf_query_fast v45 Linear 14 5 ixs l' k iv
  end.

Definition tabix_index_scan (v45 : bool) (l : list vcf_rec) : option ixfail :=
  let '(_, l') := tabix_renumber l in vcf_index_scan false v45 l'.
