(* Query answers do not change when a CSI index is written and read back: the minimum loffset
   over the bins that do not end before the query start is the same for the per-bin values and
   for the ancestor-chain minima the writer stores. *)
From Coq Require Import List Arith NArith Bool Lia.
From Coq Require Import ZifyBool ZifyNat ZifyN.
From NV Require Import Index.Bins Index.BinsProofs Index.Chunks Index.Indexer Index.QueryProofs Index.BinnedProofs Index.CsiLoffset.
Import ListNotations.
Open Scope N_scope.
Arguments N.add : simpl never. Arguments N.sub : simpl never. Arguments N.mul : simpl never.
Arguments N.shiftr : simpl never. Arguments N.shiftl : simpl never. Arguments N.pow : simpl never.
Arguments N.div : simpl never.

Definition in_scheme (d : nat) (id : N) : Prop :=
  exists l x, (l <= d)%nat /\ x < 8 ^ N.of_nat l /\ id = toff l + x.

Lemma toff_succ8 l : toff (S l) = 8 * toff l + 1.
Proof.
  induction l as [|l IH]; [reflexivity|].
  rewrite (toff_succ (S l)). rewrite IH at 1. rewrite (toff_succ l).
  rewrite Nat2N.inj_succ, N.pow_succ_r'. lia.
Qed.

Lemma pow8_le_mono a b : (a <= b)%nat -> 8 ^ N.of_nat a <= 8 ^ N.of_nat b.
Proof. intros H. apply N.pow_le_mono_r; lia. Qed.

Lemma pow8_as_pow2 l : 8 ^ N.of_nat l = 2 ^ (3 * N.of_nat l).
Proof. rewrite N.pow_mul_r. reflexivity. Qed.

(* the loop finds the level of an in-scheme id and returns its end, for geometries below 2^64 *)
Lemma bin_end_loop_in_scheme ms d l x : (l <= d)%nat -> x < 8 ^ N.of_nat l ->
  ms + 3 * N.of_nat d < 64 ->
  forall k level, (level <= l)%nat -> (l < level + k)%nat ->
    bin_end_loop k level (toff level) (8 ^ N.of_nat level) ms d (toff l + x)
    = Some (N.shiftl (x + 1) (sh ms d l) - 1).
Proof.
  intros Hl Hx Hg. induction k as [|k IH]; intros level Hle Hlt; [lia|].
  cbn [bin_end_loop].
  destruct (Nat.eq_dec level l) as [Heq|Hne].
  - subst level. replace (toff l + x - toff l) with x by lia.
    replace (x <? 8 ^ N.of_nat l) with true by lia.
    fold (sh ms d l).
    assert (Hsh : sh ms d l < 64) by (unfold sh; lia).
    assert (Hb : N.shiftl (x + 1) (sh ms d l) < usize_lim).
    { rewrite N.shiftl_mul_pow2. unfold usize_lim.
      assert (x + 1 <= 8 ^ N.of_nat l) by lia.
      rewrite pow8_as_pow2 in *.
      assert (Hm : (x + 1) * 2 ^ sh ms d l <= 2 ^ (3 * N.of_nat l) * 2 ^ sh ms d l) by (apply N.mul_le_mono_r; lia).
      rewrite <- N.pow_add_r in Hm.
      assert (Hp : 2 ^ (3 * N.of_nat l + sh ms d l) < 2 ^ 64) by (apply N.pow_lt_mono_r; unfold sh; lia).
      lia. }
    replace (sh ms d l <? 64) with true by lia.
    replace (N.shiftl (x + 1) (sh ms d l) <? usize_lim) with true by lia.
    reflexivity.
  - assert (Hge : toff (S level) <= toff l) by (apply toff_le_mono; lia).
    rewrite toff_succ in Hge.
    replace (toff l + x - toff level <? 8 ^ N.of_nat level) with false by lia.
    assert (H8 : 8 ^ N.of_nat level * 8 < usize_lim).
    { unfold usize_lim. replace (8 ^ N.of_nat level * 8) with (8 ^ N.of_nat (S level))
        by (rewrite Nat2N.inj_succ, N.pow_succ_r'; lia).
      rewrite pow8_as_pow2. apply N.pow_lt_mono_r; lia. }
    replace (8 ^ N.of_nat level * 8 <? usize_lim) with true by lia.
    rewrite <- toff_succ. replace (8 ^ N.of_nat level * 8) with (8 ^ N.of_nat (S level))
      by (rewrite Nat2N.inj_succ, N.pow_succ_r'; lia).
    apply IH; lia.
Qed.

Lemma bin_end_in_scheme ms d l x : (l <= d)%nat -> x < 8 ^ N.of_nat l -> ms + 3 * N.of_nat d < 64 ->
  bin_end ms d (toff l + x) = Some (N.shiftl (x + 1) (sh ms d l) - 1).
Proof.
  intros Hl Hx Hg. unfold bin_end.
  apply (bin_end_loop_in_scheme ms d l x Hl Hx Hg (S d) O); lia.
Qed.

(* a parent of an in-scheme bin is in the scheme, and ends no earlier *)
Lemma parent_in_scheme d id p : in_scheme d id -> parent_id id = Some p ->
  exists l x, (S l <= d)%nat /\ x < 8 ^ N.of_nat (S l) /\ id = toff (S l) + x /\ p = toff l + x / 8.
Proof.
  intros (l & x & Hl & Hx & Hid) Hp. unfold parent_id in Hp.
  destruct (id =? 0) eqn:E; [discriminate|]. injection Hp as Hp.
  destruct l as [|l].
  - cbn in Hx. unfold toff in Hid. cbn in Hid. lia.
  - exists l, x. repeat split; try assumption.
    subst p id. rewrite toff_succ8.
    replace (8 * toff l + 1 + x - 1) with (x + toff l * 8) by lia.
    rewrite N.div_add by lia. lia.
Qed.

Lemma parent_qualifies ms d q id p : ms + 3 * N.of_nat d < 64 -> in_scheme d id ->
  parent_id id = Some p -> bin_qualifies ms d q id = true ->
  bin_qualifies ms d q p = true /\ in_scheme d p.
Proof.
  intros Hg Hin Hp Hq.
  destruct (parent_in_scheme d id p Hin Hp) as (l & x & Hl & Hx & Hid & Hpp).
  assert (Hx8 : x / 8 < 8 ^ N.of_nat l).
  { rewrite Nat2N.inj_succ, N.pow_succ_r' in Hx. apply N.div_lt_upper_bound; lia. }
  split; [|exists l, (x / 8); repeat split; [lia|exact Hx8|exact Hpp]].
  unfold bin_qualifies in *. subst id p.
  rewrite (bin_end_in_scheme ms d (S l) x Hl Hx Hg) in Hq.
  rewrite (bin_end_in_scheme ms d l (x / 8) ltac:(lia) Hx8 Hg).
  rewrite N.shiftl_mul_pow2 in *.
  assert (Hsh : sh ms d l = sh ms d (S l) + 3) by (unfold sh; lia).
  rewrite Hsh, N.pow_add_r.
  pose proof (N.div_mod x 8 ltac:(lia)) as Hdm. pose proof (N.mod_lt x 8 ltac:(lia)) as Hml.
  assert (Hpw : 0 < 2 ^ sh ms d (S l)) by (apply N.neq_0_lt_0, N.pow_nonzero; lia).
  set (pw := 2 ^ sh ms d (S l)) in *. set (qv := x / 8) in *.
  change (2 ^ 3) with 8. nia.
Qed.

Lemma chain_min_le fuel lm : forall id cur, chain_min fuel lm id cur <= cur.
Proof.
  induction fuel as [|f IH]; intros id cur; cbn [chain_min]; [lia|].
  destruct (parent_id id) as [p|]; [|lia].
  destruct (loff_get lm p) as [v|]; [|lia].
  specialize (IH p (if v <? cur then v else cur)). destruct (v <? cur) eqn:E; lia.
Qed.

Lemma stored_loffset_eq lm a v0 : loff_get lm a = Some v0 -> stored_loffset lm a = chain_min 64 lm a v0.
Proof. intros H. unfold stored_loffset. rewrite H. reflexivity. Qed.

Section Reread.
  Variables (ms : N) (d : nat) (q : N).
  Hypothesis Hg : ms + 3 * N.of_nat d < 64.

  Definition witnessed (lm : loffmap) (v : N) : Prop :=
    exists a, In (a, v) lm /\ bin_qualifies ms d q a = true.

  Lemma chain_min_witnessed lm fuel : forall id cur,
    in_scheme d id -> bin_qualifies ms d q id = true -> witnessed lm cur ->
    witnessed lm (chain_min fuel lm id cur).
  Proof.
    induction fuel as [|f IH]; intros id cur Hin Hq Hw; cbn [chain_min]; [exact Hw|].
    destruct (parent_id id) as [p|] eqn:Hp; [|exact Hw].
    destruct (loff_get lm p) as [v|] eqn:Hv; [|exact Hw].
    destruct (parent_qualifies ms d q id p Hg Hin Hp Hq) as [Hqp Hinp].
    apply IH; [exact Hinp|exact Hqp|].
    destruct (v <? cur); [|exact Hw].
    exists p. split; [apply loff_get_in; exact Hv|exact Hqp].
  Qed.

  Lemma list_min_some_in : forall l m, list_min l = Some m -> In m l.
  Proof.
    induction l as [|x rest IH]; intros m H; cbn [list_min] in H; [discriminate|].
    destruct (list_min rest) as [m'|] eqn:E.
    - injection H as H. destruct (x <? m') eqn:E2; subst m; [left; reflexivity|right; apply IH; reflexivity].
    - injection H as H. left. exact H.
  Qed.

  Lemma list_min_none : forall l, list_min l = None -> l = [].
  Proof. destruct l as [|x rest]; [reflexivity|]. cbn [list_min]. destruct (list_min rest); discriminate. Qed.

  (* two value lists that dominate each other from below have the same minimum *)
  Lemma list_min_mutual l1 l2 :
    (forall v, In v l1 -> exists w, In w l2 /\ w <= v) ->
    (forall v, In v l2 -> exists w, In w l1 /\ w <= v) ->
    list_min l1 = list_min l2.
  Proof.
    intros H12 H21.
    destruct (list_min l1) as [m1|] eqn:E1; destruct (list_min l2) as [m2|] eqn:E2.
    - pose proof (list_min_some_in _ _ E1) as I1. pose proof (list_min_some_in _ _ E2) as I2.
      destruct (H12 _ I1) as (w & Hw & Hle). destruct (list_min_le _ _ Hw) as (m & Hm & Hmle).
      destruct (H21 _ I2) as (w' & Hw' & Hle'). destruct (list_min_le _ _ Hw') as (m' & Hm' & Hmle').
      rewrite E2 in Hm. rewrite E1 in Hm'. injection Hm as <-. injection Hm' as <-. f_equal. lia.
    - apply list_min_none in E2. pose proof (list_min_some_in _ _ E1) as I1.
      destruct (H12 _ I1) as (w & Hw & _). subst l2. destruct Hw.
    - apply list_min_none in E1. pose proof (list_min_some_in _ _ E2) as I2.
      destruct (H21 _ I2) as (w & Hw & _). subst l1. destruct Hw.
    - reflexivity.
  Qed.

  Definition qvals (lm : loffmap) : list N :=
    map snd (filter (fun kv => bin_qualifies ms d q (fst kv)) lm).

  Lemma in_qvals lm v : In v (qvals lm) <-> witnessed lm v.
  Proof.
    unfold qvals, witnessed. rewrite in_map_iff. split.
    - intros ([a v'] & Hv & Hin). cbn [snd] in Hv. subst v'. apply filter_In in Hin. cbn [fst] in Hin.
      exists a. tauto.
    - intros (a & Hin & Hq). exists (a, v). split; [reflexivity|]. apply filter_In. cbn [fst]. tauto.
  Qed.

  Theorem reread_min_offset_same (bm : binmap) (lm : loffmap) :
    NoDup (map fst lm) ->
    (forall id, In id (map fst bm) <-> In id (map fst lm)) ->
    (forall id, In id (map fst lm) -> in_scheme d id) ->
    list_min (qvals (reread_loffs bm lm)) = list_min (qvals lm).
  Proof.
    intros Hnd Hkeys Hsch. apply list_min_mutual.
    - (* every stored value is witnessed by an original value of a qualifying bin *)
      intros v Hv. apply in_qvals in Hv. destruct Hv as (a & Hin & Hq).
      unfold reread_loffs in Hin. apply in_map_iff in Hin. destruct Hin as ([a' cs] & Heq & Hbm).
      cbn [fst] in Heq. injection Heq as Ha Hv. subst a'.
      assert (Halm : In a (map fst lm)).
      { apply Hkeys. apply in_map_iff. exists (a, cs). auto. }
      apply in_map_iff in Halm. destruct Halm as ([a'' v0] & Ha'' & Hlm). cbn [fst] in Ha''. subst a''.
      assert (Hget : loff_get lm a = Some v0).
      { clear - Hnd Hlm. induction lm as [|[k w] rest IH]; [destruct Hlm|].
        cbn [map fst] in Hnd. apply NoDup_cons_iff in Hnd. destruct Hnd as [Hni Hnd].
        cbn [loff_get]. destruct Hlm as [Heq|Hlm].
        - injection Heq as -> ->. rewrite N.eqb_refl. reflexivity.
        - destruct (k =? a) eqn:E; [|apply IH; assumption].
          exfalso. apply Hni. apply in_map_iff. exists (a, v0). split; [cbn; lia|exact Hlm]. }
      assert (Hw : witnessed lm (chain_min 64 lm a v0)).
      { apply chain_min_witnessed; [apply Hsch; apply in_map_iff; exists (a, v0); auto|exact Hq|].
        exists a. auto. }
      rewrite (stored_loffset_eq lm a v0 Hget) in Hv. subst v.
      destruct Hw as (b & Hb & Hqb). exists (chain_min 64 lm a v0). split; [|lia].
      apply in_qvals. exists b. auto.
    - (* every original value of a qualifying bin dominates that bin's stored value *)
      intros v Hv. apply in_qvals in Hv. destruct Hv as (a & Hin & Hq).
      assert (Habm : In a (map fst bm)).
      { apply Hkeys. apply in_map_iff. exists (a, v). auto. }
      apply in_map_iff in Habm. destruct Habm as ([a' cs] & Ha' & Hbm). cbn [fst] in Ha'. subst a'.
      exists (stored_loffset lm a). split.
      + apply in_qvals. exists a. split; [|exact Hq]. unfold reread_loffs. apply in_map_iff.
        exists (a, cs). auto.
      + assert (Hget : loff_get lm a = Some v).
        { clear - Hnd Hin. induction lm as [|[k w] rest IH]; [destruct Hin|].
          cbn [map fst] in Hnd. apply NoDup_cons_iff in Hnd. destruct Hnd as [Hni Hnd].
          cbn [loff_get]. destruct Hin as [Heq|Hin].
          - injection Heq as -> ->. rewrite N.eqb_refl. reflexivity.
          - destruct (k =? a) eqn:E; [|apply IH; assumption].
            exfalso. apply Hni. apply in_map_iff. exists (a, v). split; [cbn; lia|exact Hin]. }
        rewrite (stored_loffset_eq lm a v Hget). apply chain_min_le.
  Qed.
End Reread.

(* the statement in terms of BinnedIndex::min_offset *)
Theorem csi_reread_min_offset ms d bm lm s :
  ms + 3 * N.of_nat d < 64 ->
  NoDup (map fst lm) ->
  (forall id, In id (map fst bm) <-> In id (map fst lm)) ->
  (forall id, In id (map fst lm) -> in_scheme d id) ->
  binned_min_offset ms d (reread_loffs bm lm) s = binned_min_offset ms d lm s.
Proof.
  intros Hg Hnd Hk Hs. unfold binned_min_offset.
  pose proof (reread_min_offset_same ms d (s - 1) Hg bm lm Hnd Hk Hs) as H.
  unfold qvals in H. rewrite H. reflexivity.
Qed.

(* ---- indexes built by the Indexer satisfy the premises ---- *)
Lemma keys_loff_update : forall lm id a,
  map fst (loff_update lm id a) = if existsb (N.eqb id) (map fst lm) then map fst lm else map fst lm ++ [id].
Proof.
  induction lm as [|[k v] rest IH]; intros id a; cbn [loff_update map fst existsb app]; [reflexivity|].
  destruct (k =? id) eqn:E.
  - cbn [map fst]. replace (id =? k) with true by lia. reflexivity.
  - cbn [map fst]. rewrite IH. replace (id =? k) with false by lia. cbn [orb].
    destruct (existsb (N.eqb id) (map fst rest)); reflexivity.
Qed.

Lemma keys_bins_add : forall bm id c,
  map fst (bins_add bm id c) = if existsb (N.eqb id) (map fst bm) then map fst bm else map fst bm ++ [id].
Proof.
  induction bm as [|[k cs] rest IH]; intros id c; cbn [bins_add map fst existsb app]; [reflexivity|].
  destruct (k =? id) eqn:E.
  - cbn [map fst]. replace (id =? k) with true by lia. reflexivity.
  - cbn [map fst]. rewrite IH. replace (id =? k) with false by lia. cbn [orb].
    destruct (existsb (N.eqb id) (map fst rest)); reflexivity.
Qed.

Lemma existsb_eqb_in id l : existsb (N.eqb id) l = true <-> In id l.
Proof. rewrite existsb_exists. split; [intros (x & Hx & E); apply N.eqb_eq in E; subst x; exact Hx|intros H; exists id; split; [exact H|apply N.eqb_refl]]. Qed.

Lemma NoDup_snoc {A} (l : list A) x : NoDup l -> ~ In x l -> NoDup (l ++ [x]).
Proof.
  induction l as [|y t IH]; intros Hnd Hni; cbn [app]; [constructor; [intros []|constructor]|].
  apply NoDup_cons_iff in Hnd. destruct Hnd as [Hy Ht]. constructor.
  - intros Hin. apply in_app_iff in Hin. destruct Hin as [Hin|[Hin|[]]]; [auto|]. subst y. apply Hni. left. reflexivity.
  - apply IH; [exact Ht|]. intros Hin. apply Hni. right. exact Hin.
Qed.

Section Built.
  Variables (ms : N) (d : nat).

  Definition KeysInv (ix : refidx) (P : N -> Prop) : Prop :=
    map fst (bins ix) = map fst (loffs ix) /\ NoDup (map fst (loffs ix)) /\
    (forall id, In id (map fst (loffs ix)) -> P id).

  Lemma keysinv_step ix (P : N -> Prop) r : KeysInv ix P -> P (binof ms d r) -> KeysInv (update ms d ix r) P.
  Proof.
    intros (Hk & Hnd & HP) Hr. unfold KeysInv, update. cbn [bins loffs]. fold (binof ms d r).
    rewrite keys_bins_add, keys_loff_update, Hk.
    destruct (existsb (N.eqb (binof ms d r)) (map fst (loffs ix))) eqn:E.
    - auto.
    - split; [reflexivity|]. split.
      + apply NoDup_snoc; [exact Hnd|].
        intros Hin. apply existsb_eqb_in in Hin. congruence.
      + intros id Hin. apply in_app_iff in Hin. destruct Hin as [Hin|[Hin|[]]]; [auto|subst id; exact Hr].
  Qed.

  Lemma keysinv_fold (P : N -> Prop) : forall recs ix, KeysInv ix P -> (forall r, In r recs -> P (binof ms d r)) ->
    KeysInv (fold_left (update ms d) recs ix) P.
  Proof.
    induction recs as [|r rest IH]; intros ix HI HP; cbn [fold_left]; [exact HI|].
    apply IH; [apply keysinv_step; [exact HI|apply HP; left; reflexivity]|intros x Hx; apply HP; right; exact Hx].
  Qed.

  Lemma binof_in_scheme r : 1 <= r_s r -> r_s r <= r_e r -> r_e r <= max_position ms d -> in_scheme d (binof ms d r).
  Proof.
    intros H1 H2 H3. unfold binof, reg2bin.
    assert (He0 : N.shiftr (r_e r - 1) (ms + 3 * N.of_nat d) = 0).
    { unfold max_position in H3. rewrite N.shiftr_div_pow2. apply N.div_small.
      assert (0 < 2 ^ (ms + 3 * N.of_nat d)) by (apply N.neq_0_lt_0, N.pow_nonzero; lia). lia. }
    destruct (reg2bin_contains ms d (r_s r - 1) (r_e r - 1) ltac:(lia) He0) as (l & Hl & Heq & _).
    assert (Hb0 : N.shiftr (r_s r - 1) (ms + 3 * N.of_nat d) = 0).
    { pose proof (shiftr_mono (r_s r - 1) (r_e r - 1) (ms + 3 * N.of_nat d) ltac:(lia)). lia. }
    exists l, (N.shiftr (r_s r - 1) (sh ms d l)). split; [exact Hl|]. split; [apply shiftr_lt_pow8; assumption|exact Heq].
  Qed.

  Theorem built_keysinv k file : spans_ok ms d file -> KeysInv (build_ref ms d k file) (in_scheme d).
  Proof.
    intros Hsp. unfold build_ref. apply keysinv_fold.
    - unfold KeysInv. cbn. split; [reflexivity|]. split; [constructor|intros id []].
    - intros r Hr. apply filter_In in Hr. destruct Hr as [Hr _]. destruct (Hsp r Hr) as (H1 & H2 & H3).
      apply binof_in_scheme; assumption.
  Qed.

  (* A CSI index built by the Indexer answers every query with the same chunks after it has
     been written (per-bin loffsets replaced by the ancestor-chain minima) and read back. *)
  Theorem csi_roundtrip_queries k file qs qe :
    ms + 3 * N.of_nat d < 64 -> spans_ok ms d file ->
    let ix := build_ref ms d k file in
    query Binned ms d (mkref (bins ix) (lin ix) (reread_loffs (bins ix) (loffs ix))) qs qe
    = query Binned ms d ix qs qe.
  Proof.
    intros Hg Hsp ix. destruct (built_keysinv k file Hsp) as (Hk & Hnd & Hs). fold ix in Hk, Hnd, Hs.
    unfold query. cbn [min_offset loffs]. unfold query_chunks. cbn [bins].
    rewrite (csi_reread_min_offset ms d (bins ix) (loffs ix) qs Hg Hnd); [reflexivity| |exact Hs].
    intros id. rewrite Hk. tauto.
  Qed.
End Built.
