From Coq Require Import List Arith NArith Lia.
From Coq Require Import ZifyBool ZifyNat ZifyN.
From NV Require Import Index.Bins.
Import ListNotations.
Open Scope N_scope.
Arguments N.add : simpl never. Arguments N.sub : simpl never. Arguments N.mul : simpl never.
Arguments N.shiftr : simpl never. Arguments N.pow : simpl never. Arguments N.div : simpl never.

Lemma pow8_mod7 n : 8 ^ N.of_nat n mod 7 = 1.
Proof.
  induction n as [|n IH]. reflexivity.
  rewrite Nat2N.inj_succ, N.pow_succ_r'.
  rewrite N.mul_mod by lia. rewrite IH. reflexivity.
Qed.

Lemma toff_succ l : toff (S l) = toff l + 8 ^ N.of_nat l.
Proof.
  unfold toff. rewrite Nat2N.inj_succ, N.pow_succ_r'.
  pose proof (pow8_mod7 l) as H.
  assert (Hp : 8 ^ N.of_nat l <> 0) by (apply N.pow_nonzero; lia).
  set (p := 8 ^ N.of_nat l) in *.
  pose proof (N.div_mod p 7 ltac:(lia)) as Hd. rewrite H in Hd.
  set (q := p / 7) in *.
  replace (8 * p - 1) with ((q * 8 + 1) * 7) by lia.
  replace (p - 1) with (q * 7) by lia.
  rewrite !N.div_mul by lia. lia.
Qed.

Lemma shiftr_mono a b s : a <= b -> N.shiftr a s <= N.shiftr b s.
Proof. intros H. rewrite !N.shiftr_div_pow2. apply N.div_le_mono; [apply N.pow_nonzero; lia|exact H]. Qed.

(* characterisation: reg2bin returns toff l + b>>sh for a level l at which b and e share a bin *)
Lemma reg2bin_loop_spec : forall k ms d b e, (k <= d)%nat ->
  N.shiftr b (ms + 3 * N.of_nat d) = 0 -> N.shiftr e (ms + 3 * N.of_nat d) = 0 ->
  exists l, (l <= k)%nat /\
    reg2bin_loop k (sh ms d k) (toff k) b e = toff l + N.shiftr b (sh ms d l) /\
    N.shiftr b (sh ms d l) = N.shiftr e (sh ms d l).
Proof.
  induction k as [|k IH]; intros ms d b e Hk Hb He.
  - exists O. split; [lia|]. cbn [reg2bin_loop]. unfold sh, toff.
    replace (d - 0)%nat with d by lia. rewrite Hb, He. cbn. split; reflexivity.
  - cbn [reg2bin_loop]. destruct (N.shiftr b (sh ms d (S k)) =? N.shiftr e (sh ms d (S k))) eqn:E.
    + exists (S k). split; [lia|]. split; [reflexivity|]. apply N.eqb_eq; exact E.
    + replace (sh ms d (S k) + 3) with (sh ms d k) by (unfold sh; lia).
      replace (toff (S k) - 8 ^ N.of_nat k) with (toff k) by (rewrite toff_succ; lia).
      destruct (IH ms d b e ltac:(lia) Hb He) as (l & Hl & H1 & H2).
      exists l. split; [lia|]. split; assumption.
Qed.

Lemma sh_top ms d : sh ms d d = ms.
Proof. unfold sh. replace (d - d)%nat with O by lia. lia. Qed.

Theorem reg2bin_in_reg2bins_prop ms d fb fe rb re :
  fb <= fe -> rb <= re -> fb <= re -> rb <= fe ->
  N.shiftr fe (ms + 3 * N.of_nat d) = 0 ->
  in_reg2bins ms d rb re (reg2bin0 ms d fb fe).
Proof.
  intros Hf Hr H1 H2 Hfe.
  assert (Hfb : N.shiftr fb (ms + 3 * N.of_nat d) = 0).
  { pose proof (shiftr_mono fb fe (ms + 3 * N.of_nat d) Hf). lia. }
  unfold reg2bin0.
  destruct (reg2bin_loop_spec d ms d fb fe (le_n d) Hfb Hfe) as (l & Hl & Heq & Hsame).
  rewrite sh_top in Heq. rewrite Heq. exists l. split; [exact Hl|].
  pose proof (shiftr_mono rb fe (sh ms d l) H2).
  pose proof (shiftr_mono fb re (sh ms d l) H1).
  lia.
Qed.

(* executable reg2bins list vs the proposition *)
Lemma in_range_from a n x : In x (range_from a n) <-> a <= x < a + N.of_nat n.
Proof.
  revert a. induction n as [|n IH]; intros a; cbn [range_from In].
  - lia.
  - rewrite IH. lia.
Qed.

Lemma in_range_incl a b x : In x (range_incl a b) <-> a <= x <= b.
Proof.
  unfold range_incl. destruct (b <? a) eqn:E.
  - cbn [In]. lia.
  - rewrite in_range_from. lia.
Qed.

Lemma in_reg2bins_loop k : forall l ms d b e x,
  In x (reg2bins_loop k l ms d b e) <->
  exists l', (l <= l' < l + k)%nat /\
     toff l' + N.shiftr b (sh ms d l') <= x <= toff l' + N.shiftr e (sh ms d l').
Proof.
  induction k as [|k IH]; intros l ms d b e x; cbn [reg2bins_loop].
  - split; [intros []|intros (l' & H & _); lia].
  - rewrite in_app_iff, in_range_incl, IH. fold (sh ms d l). split.
    + intros [H|(l' & Hl & H)]; [exists l; split; [lia|exact H]|exists l'; split; [lia|exact H]].
    + intros (l' & Hl & H). destruct (Nat.eq_dec l' l) as [->|Hne]; [left; exact H|].
      right. exists l'. split; [lia|exact H].
Qed.

Lemma in_reg2bins0_iff ms d b e x : In x (reg2bins0 ms d b e) <-> in_reg2bins ms d b e x.
Proof.
  unfold reg2bins0, in_reg2bins. rewrite in_reg2bins_loop. split; intros (l & Hl & H); exists l; split; try lia; exact H.
Qed.

(* The statement in terms of the executable functions on 1-based positions *)
Theorem reg2bin_in_reg2bins ms d fs fe rs re :
  1 <= fs -> fs <= fe -> 1 <= rs -> rs <= re -> fs <= re -> rs <= fe ->
  fe <= max_position ms d ->
  In (reg2bin ms d fs fe) (reg2bins ms d rs re).
Proof.
  intros H1 H2 H3 H4 H5 H6 Hmax. unfold reg2bin, reg2bins.
  apply in_reg2bins0_iff. apply reg2bin_in_reg2bins_prop; try lia.
  unfold max_position in Hmax.
  rewrite N.shiftr_div_pow2. apply N.div_small.
  assert (0 < 2 ^ (ms + 3 * N.of_nat d)) by (apply N.neq_0_lt_0, N.pow_nonzero; lia). lia.
Qed.

(* reg2bin returns a bin that contains the feature: the feature's ends share the bin's index *)
Theorem reg2bin_contains ms d b e : b <= e ->
  N.shiftr e (ms + 3 * N.of_nat d) = 0 ->
  exists l, (l <= d)%nat /\ reg2bin0 ms d b e = toff l + N.shiftr b (sh ms d l) /\
            N.shiftr b (sh ms d l) = N.shiftr e (sh ms d l).
Proof.
  intros Hbe He.
  assert (Hb : N.shiftr b (ms + 3 * N.of_nat d) = 0).
  { pose proof (shiftr_mono b e (ms + 3 * N.of_nat d) Hbe). lia. }
  destruct (reg2bin_loop_spec d ms d b e (le_n d) Hb He) as (l & Hl & Heq & Hs).
  rewrite sh_top in Heq. exists l. unfold reg2bin0. auto.
Qed.

Lemma toff_le_mono l l' : (l <= l')%nat -> toff l <= toff l'.
Proof. induction 1 as [|m _ IH]; [lia|]. rewrite toff_succ. lia. Qed.

(* every id produced by reg2bin is below max_id *)
Lemma toff_S_eq_max_id d : toff (S d) = max_id d.
Proof.
  unfold toff, max_id.
  pose proof (pow8_mod7 (S d)) as H.
  set (p := 8 ^ N.of_nat (S d)) in *.
  pose proof (N.div_mod p 7 ltac:(lia)) as Hd. rewrite H in Hd.
  set (q := p / 7) in *. replace (p - 1) with (q * 7) by lia. rewrite N.div_mul by lia. reflexivity.
Qed.

Theorem reg2bin_lt_max_id ms d b e : b <= e ->
  N.shiftr e (ms + 3 * N.of_nat d) = 0 -> reg2bin0 ms d b e < max_id d.
Proof.
  intros Hbe He. destruct (reg2bin_contains ms d b e Hbe He) as (l & Hl & Heq & _).
  rewrite Heq, <- toff_S_eq_max_id.
  assert (Hb : N.shiftr b (ms + 3 * N.of_nat d) = 0).
  { pose proof (shiftr_mono b e (ms + 3 * N.of_nat d) Hbe). lia. }
  (* b >> sh l < 8^l *)
  assert (N.shiftr b (sh ms d l) < 8 ^ N.of_nat l).
  { rewrite N.shiftr_div_pow2 in *. unfold sh.
    assert (Hp: 0 < 2 ^ (ms + 3 * N.of_nat d)) by (apply N.neq_0_lt_0, N.pow_nonzero; lia).
    assert (Hlt : b < 2 ^ (ms + 3 * N.of_nat d)).
    { destruct (N.lt_ge_cases b (2 ^ (ms + 3 * N.of_nat d))) as [?|Hge]; [assumption|].
      pose proof (N.div_le_mono _ _ (2 ^ (ms + 3 * N.of_nat d)) ltac:(lia) Hge) as Hx.
      rewrite N.div_same in Hx by lia. lia. }
    apply N.div_lt_upper_bound; [apply N.pow_nonzero; lia|].
    replace (8 ^ N.of_nat l) with (2 ^ (3 * N.of_nat l)) by (rewrite N.pow_mul_r; reflexivity).
    rewrite <- N.pow_add_r.
    replace (ms + 3 * N.of_nat (d - l) + 3 * N.of_nat l) with (ms + 3 * N.of_nat d) by lia.
    exact Hlt. }
  pose proof (toff_succ l). pose proof (toff_le_mono (S l) (S d) ltac:(lia)). lia.
Qed.
