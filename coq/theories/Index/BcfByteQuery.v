(* C04, byte level for BCF (kind `bcfb`): the record framing of noodles-bcf/src/io/reader/record.rs
   over any byte reader, and with it the indexer's scan (bcf/fs/index.rs) and the reading step of
   bcf::io::Reader::query (csi::io::Query over the bgzf reader) as functions of the FILE BYTES.
   Follows NV.Index.ByteQuery (BAM) exactly; the reader model, csi::io::Query (q_read), read_upto,
   clamp, brec, after_header, scan_fuel are those of NV.Index.ByteQuery.

   read_record: read_site_length through read_exact_or_eof (0 bytes = end of stream, 1..3 bytes =
   UnexpectedEof, l_shared 0 = end of stream), read_samples_length = read_u32_le (std read_exact:
   short = UnexpectedEof), read_buf_exact(site, l_shared) = take(l_shared).read_to_end (short =
   UnexpectedEof), Fields::index() on the site buffer (C10's model NV.Bcf.Lazy.lz_index; a failure
   there has an error kind that model does not tell apart: Unmodelled), read_buf_exact(samples,
   l_indiv).  The record is returned as  l_indiv bytes ++ site ++ samples  (everything behind the
   first length word), so that a record of body b occupies 4 + len b bytes as in BAM.
   Definitions only; proofs in BcfByteQueryProofs.v. *)
From Coq Require Import List Arith NArith Bool.
From NV Require Import Base.LE Bgzf.Vpos Bgzf.Gzi Bgzf.ReaderOps Index.Chunks Index.ByteQuery.
From NV Require Bcf.Typed Bcf.Lazy.
Import ListNotations.
Open Scope N_scope.

(* record.fields_mut().index()? : true = Ok *)
Definition bcf_val (site : list N) : bool :=
  match NV.Bcf.Lazy.lz_index site with
  | NV.Bcf.Typed.ROk _ => true
  | _ => false
  end.

Section Rec.
  Variable R : Type.
  Variable rd : R -> N -> R * res (list N).
  Variable bsz : N -> N.

  Definition bcf_read_record (r : R) : R * rrec :=
    match read_upto R rd (fun x => x) 5 r 4 [] with
    | (r1, Ok hd) =>
        if (0 <? len hd) && (len hd <? 4) then (r1, RStop (Err UnexpectedEof))
        else
          let ls := le_dec hd in
          if ls =? 0 then (r1, REnd)
          else match read_upto R rd (fun x => x) 5 r1 4 [] with
               | (r2, Ok lib) =>
                   if len lib <? 4 then (r2, RStop (Err UnexpectedEof))
                   else
                     let li := le_dec lib in
                     match read_upto R rd (clamp bsz) (S (N.to_nat ls)) r2 ls [] with
                     | (r3, Ok site) =>
                         if len site <? ls then (r3, RStop (Err UnexpectedEof))
                         else if negb (bcf_val site) then (r3, RStop Unmodelled)
                         else match read_upto R rd (clamp bsz) (S (N.to_nat li)) r3 li [] with
                              | (r4, Ok smp) =>
                                  if len smp <? li then (r4, RStop (Err UnexpectedEof))
                                  else (r4, RRec (lib ++ site ++ smp))
                              | (r4, e) => (r4, RStop (res_cast e))
                              end
                     | (r3, e) => (r3, RStop (res_cast e))
                     end
               | (r2, e) => (r2, RStop (res_cast e))
               end
    | (r1, e) => (r1, RStop (res_cast e))
    end.
  (* while reader.read_record(&mut record)? != 0 { .. } *)
  Fixpoint bcf_read_records (fuel : nat) (r : R) (acc : list (list N)) : R * res (list (list N)) :=
    match fuel with
    | O => (r, OutOfFuel)
    | S k =>
        match bcf_read_record r with
        | (r1, RRec b) => bcf_read_records k r1 (acc ++ [b])
        | (r1, REnd) => (r1, Ok acc)
        | (r1, RStop e) => (r1, res_cast e)
        end
    end.
End Rec.

Section Scan.
  Variable bsz : N -> N.

  (* the loop of bam/fs/index.rs, bcf/fs/index.rs: start = virtual_position();
     while read_record != 0 { end = virtual_position(); (record, start, end); start = end } *)
  Fixpoint bcf_scan_loop (fuel : nat) (st : state) (start : N) (acc : list brec) : state * res (list brec) :=
    match fuel with
    | O => (st, OutOfFuel)
    | S k =>
        match bcf_read_record state (read true) bsz st with
        | (st1, RRec b) =>
            match virtual_position st1 with
            | Ok e => bcf_scan_loop k st1 e (acc ++ [mkbrec b start e])
            | x => (st1, res_cast x)
            end
        | (st1, REnd) => (st1, Ok acc)
        | (st1, RStop e) => (st1, res_cast e)
        end
    end.

  (* every record holds at least its 4 size bytes, so |data| + 1 iterations suffice *)

  (* from a reader that has just read the header *)
  Definition bcf_scan_from (f : file) (st : state) : state * res (list brec) :=
    match virtual_position st with
    | Ok a => bcf_scan_loop (scan_fuel f) st a []
    | x => (st, res_cast x)
    end.

  (* the header is hl bytes long (its parsing is C06's); the reader is fresh *)

  Definition bcf_byte_scan (f : file) (hl : N) : res (list brec) :=
    match after_header f hl with
    | (st, Ok _) => snd (bcf_scan_from f st)
    | (_, e) => res_cast e
    end.

  (* the reading step of Reader::query on a reader in state st: every record the
     bam::io::Reader over csi::io::Query::new(reader, chunks) yields; the reader afterwards *)
  Definition bcf_byte_query (f : file) (st : state) (cs : list chunk) : state * res (list (list N)) :=
    let '(q, r) := bcf_read_records qstate (q_read f) bsz (S (length cs * scan_fuel f)) (q_new st cs) [] in
    (q_rd q, r).

  (* several queries one after the other on the same reader object *)
  Fixpoint bcf_byte_queries (f : file) (st : state) (qs : list (list chunk)) : list (res (list (list N))) :=
    match qs with
    | [] => []
    | cs :: t => let '(st1, r) := bcf_byte_query f st cs in r :: bcf_byte_queries f st1 t
    end.

  (* one reader object: read the header, scan the file as the indexer does, then the queries one
     after the other on the reader as the scan left it *)
  Definition bcf_byte_session (f : file) (hl : N) (qs : list (list chunk))
    : res (list brec) * list (res (list (list N))) :=
    match after_header f hl with
    | (st, Ok _) =>
        match bcf_scan_from f st with
        | (st1, Ok L) => (Ok L, bcf_byte_queries f st1 qs)
        | (_, e) => (e, [])
        end
    | (_, e) => (res_cast e, [])
    end.
End Scan.

(* the schedule the correspondence check runs the model with: one read for all that is missing
   (the theorems hold for every schedule) *)
Definition bcf_byte_session_x := bcf_byte_session bsz_whole.
