(* C17 -- the ASYNC tabix index reader (C16's NV.Async.CsiRead.a_tbi: the header is read as
   read_exact 24 + l_nm + take(l_nm).read_to_end and the sync header parser runs on that slice)
   returns an index exactly when C17's whole-buffer model of the sync reader (CsiLayout.read_tbi:
   the header parser runs on the stream) does, the same one, on EVERY payload; hence the tabix
   round trip through the async reader under any poll script.
   The new fact is the locality of the header parser ([p_header_app]): p_header reads 28 bytes and
   the l_nm bytes of names they announce, and nothing behind them. *)
From Coq Require Import List NArith Arith Bool Lia ZifyBool ZifyNat ZifyN.
From NV Require Import Base.LE Io.Source Io.ReadExact Io.ReadExactProofs Io.Run Trunc.Stream.
From NV Require Import Io.Prog Io.ProgProofs Io.IndexProg Io.IndexProgProofs Io.CsiProg Io.CsiProgProofs.
From NV Require Import Async.ReadExact Async.CsiRead Async.CsiReadProofs.
From NV Require Index.Bins Index.Layout Index.LayoutProofs Index.CsiLayout Index.CsiLayoutProofs.
Import ListNotations.
Local Open Scope N_scope.

(* ---- a parser stage that reads one 4-byte field ---- *)
Definition stage {A : Type} (f : N -> option A) : Layout.parser A := fun bs =>
  match Layout.p_le 4 bs with
  | None => None
  | Some (n, r) => match f n with Some v => Some (v, r) | None => None end
  end.

Lemma p_le4_app : forall x y, (4 <= length x)%nat ->
  Layout.p_le 4 (x ++ y) = Some (le_dec (firstn 4 x), skipn 4 x ++ y).
Proof.
  intros x y H. unfold Layout.p_le. rewrite app_length.
  destruct (4 <=? length x + length y)%nat eqn:E; [|lia].
  rewrite firstn_app, skipn_app.
  replace (4 - length x)%nat with 0%nat by lia. cbn [firstn skipn]. rewrite app_nil_r. reflexivity.
Qed.

Lemma stage_app : forall (A : Type) (f : N -> option A) x y, (4 <= length x)%nat ->
  stage f (x ++ y) = match stage f x with Some (v, r) => Some (v, r ++ y) | None => None end.
Proof.
  intros A f x y H. unfold stage. rewrite (p_le4_app x y H).
  rewrite <- (app_nil_r x) at 2. rewrite (p_le4_app x [] H). rewrite app_nil_r.
  destruct (f (le_dec (firstn 4 x))); reflexivity.
Qed.

Lemma stage_rest : forall (A : Type) (f : N -> option A) x v r,
  stage f x = Some (v, r) -> r = skipn 4 x /\ (4 <= length x)%nat.
Proof.
  intros A f x v r H. unfold stage, Layout.p_le in H.
  destruct (4 <=? length x)%nat eqn:E; [|discriminate H].
  destruct (f (le_dec (firstn 4 x))); [|discriminate H]. injection H as _ Hr. split; [auto|lia].
Qed.

Lemma stage_short : forall (A : Type) (f : N -> option A) x, (length x < 4)%nat -> stage f x = None.
Proof.
  intros A f x H. unfold stage, Layout.p_le. destruct (4 <=? length x)%nat eqn:E; [lia|reflexivity].
Qed.

Definition fv_format (n : N) : option CsiLayout.format :=
  let kind := n mod 65536 in
  if kind =? 0 then
    (if n / 65536 =? 0 then Some (CsiLayout.FGeneric false)
     else if n / 65536 =? 1 then Some (CsiLayout.FGeneric true) else None)
  else if kind =? 1 then Some CsiLayout.FSam
  else if kind =? 2 then Some CsiLayout.FVcf
  else None.
Definition fv_col (n : N) : option N := if (1 <=? n) && (n <? 2147483648) then Some (n - 1) else None.
Definition fv_i32 (n : N) : option N := if n <? 2147483648 then Some n else None.
Definition fv_end (f : CsiLayout.format) (beg : N) (n : N) : option (option N) :=
  if CsiLayout.is_samvcf f then (if n =? 0 then Some None else None)
  else match fv_col n with Some i => if i =? beg then Some None else Some (Some i) | None => None end.
Definition fv_meta (n : N) : option N := if 256 <=? n then None else Some n.

Lemma p_format_stage : forall bs, CsiLayout.p_format bs = stage fv_format bs.
Proof.
  intros bs. unfold CsiLayout.p_format, stage, fv_format. destruct (Layout.p_le 4 bs) as [[n r]|]; [|reflexivity].
  cbv zeta. destruct (n mod 65536 =? 0).
  - destruct (n / 65536 =? 0); [reflexivity|]. destruct (n / 65536 =? 1); reflexivity.
  - destruct (n mod 65536 =? 1); [reflexivity|]. destruct (n mod 65536 =? 2); reflexivity.
Qed.
Lemma p_col_stage : forall bs, CsiLayout.p_col bs = stage fv_col bs.
Proof.
  intros bs. unfold CsiLayout.p_col, stage, fv_col. destruct (Layout.p_le 4 bs) as [[n r]|]; [|reflexivity].
  destruct ((1 <=? n) && (n <? 2147483648)); reflexivity.
Qed.
Lemma p_i32_stage : forall bs, CsiLayout.p_i32_nonneg bs = stage fv_i32 bs.
Proof.
  intros bs. unfold CsiLayout.p_i32_nonneg, stage, fv_i32. destruct (Layout.p_le 4 bs) as [[n r]|]; [|reflexivity].
  destruct (n <? 2147483648); reflexivity.
Qed.
Lemma p_end_stage : forall f beg bs, CsiLayout.p_end f beg bs = stage (fv_end f beg) bs.
Proof.
  intros f beg bs. unfold CsiLayout.p_end, fv_end. destruct (CsiLayout.is_samvcf f).
  - unfold stage. destruct (Layout.p_le 4 bs) as [[n r]|]; [|reflexivity]. destruct (n =? 0); reflexivity.
  - rewrite p_col_stage. unfold stage. destruct (Layout.p_le 4 bs) as [[n r]|]; [|reflexivity].
    destruct (fv_col n) as [i|]; [|reflexivity]. destruct (i =? beg); reflexivity.
Qed.

Definition p_header_st : Layout.parser CsiLayout.header := fun bs =>
  match stage fv_format bs with None => None | Some (f, r1) =>
  match stage fv_col r1 with None => None | Some (sq, r2) =>
  match stage fv_col r2 with None => None | Some (bg, r3) =>
  match stage (fv_end f bg) r3 with None => None | Some (en, r4) =>
  match stage fv_meta r4 with None => None | Some (mt, r5) =>
  match stage fv_i32 r5 with None => None | Some (sk, r6) =>
  match CsiLayout.p_names r6 with None => None | Some (nm, r7) =>
  Some (CsiLayout.mkhdr f sq bg en mt sk nm, r7) end end end end end end end.

Lemma p_header_stages : forall bs, CsiLayout.p_header bs = p_header_st bs.
Proof.
  intros bs. unfold CsiLayout.p_header, p_header_st.
  rewrite p_format_stage. destruct (stage fv_format bs) as [[f r1]|]; [|reflexivity].
  rewrite p_col_stage. destruct (stage fv_col r1) as [[sq r2]|]; [|reflexivity].
  rewrite p_col_stage. destruct (stage fv_col r2) as [[bg r3]|]; [|reflexivity].
  rewrite p_end_stage. destruct (stage (fv_end f bg) r3) as [[en r4]|]; [|reflexivity].
  unfold stage at 1. unfold fv_meta. destruct (Layout.p_le 4 r4) as [[mt r5]|]; [|reflexivity].
  destruct (256 <=? mt); [reflexivity|].
  rewrite p_i32_stage. reflexivity.
Qed.

Lemma stage_val : forall (A : Type) (f : N -> option A) x v r,
  stage f x = Some (v, r) -> f (le_dec (firstn 4 x)) = Some v.
Proof.
  intros A f x v r H. unfold stage, Layout.p_le in H.
  destruct (4 <=? length x)%nat; [|discriminate H].
  destruct (f (le_dec (firstn 4 x))) as [w|]; [|discriminate H]. injection H as Hv _. subst w. reflexivity.
Qed.

Definition lift {A : Type} (o : option (A * list N)) (y : list N) : option (A * list N) :=
  match o with Some (v, r) => Some (v, r ++ y) | None => None end.

Lemma p_names_app : forall x y, (4 <= length x)%nat ->
  (forall l, fv_i32 (le_dec (firstn 4 x)) = Some l -> (N.to_nat l <= length (skipn 4 x))%nat) ->
  CsiLayout.p_names (x ++ y) = lift (CsiLayout.p_names x) y.
Proof.
  intros x y H4 Hl. unfold CsiLayout.p_names. rewrite !p_i32_stage. rewrite stage_app by exact H4.
  destruct (stage fv_i32 x) as [[l r]|] eqn:E; [|reflexivity].
  pose proof (stage_val _ _ _ _ _ E) as Hv. apply stage_rest in E. destruct E as [Hr _]. subst r.
  specialize (Hl l Hv). set (r := skipn 4 x) in *.
  rewrite firstn_app. replace (N.to_nat l - length r)%nat with 0%nat by lia.
  cbn [firstn]. rewrite app_nil_r.
  destruct (CsiLayout.split_nul (firstn (N.to_nat l) r) []) as [names|]; [|reflexivity].
  destruct (CsiLayout.nodupb names); [|reflexivity].
  rewrite app_length.
  destruct (length r + length y <? N.to_nat l)%nat eqn:E1; [lia|].
  destruct (length r <? N.to_nat l)%nat eqn:E2; [lia|].
  cbn [lift]. rewrite skipn_app. replace (N.to_nat l - length r)%nat with 0%nat by lia.
  reflexivity.
Qed.

Ltac hstep E :=
  rewrite stage_app by (rewrite ?skipn_length; lia);
  match goal with |- context [stage ?f ?z] => destruct (stage f z) as [[? ?]|] eqn:E end;
  [|reflexivity]; apply stage_rest in E; destruct E as [E _]; subst;
  rewrite ?skipn_skipn_add; cbn [Nat.add].

(* the header parser reads its 28 fixed bytes and the l_nm bytes they announce: what follows is
   handed on untouched *)
Lemma p_header_app : forall x y, (28 <= length x)%nat ->
  (forall l, fv_i32 (le_dec (firstn 4 (skipn 24 x))) = Some l -> (N.to_nat l <= length (skipn 28 x))%nat) ->
  CsiLayout.p_header (x ++ y) = lift (CsiLayout.p_header x) y.
Proof.
  intros x y H28 Hl. rewrite !p_header_stages. unfold p_header_st.
  hstep E1. hstep E2. hstep E3. hstep E4. hstep E5. hstep E6.
  rewrite p_names_app.
  - destruct (CsiLayout.p_names (skipn 24 x)) as [[nm r7]|]; reflexivity.
  - rewrite skipn_length. lia.
  - intros l Hv. rewrite skipn_skipn_add. cbn [Nat.add]. apply Hl. exact Hv.
Qed.

Ltac gstep E :=
  match goal with |- context [stage ?f ?z] => destruct (stage f z) as [[? ?]|] eqn:E; [|reflexivity] end;
  apply stage_rest in E; destruct E as [E ?]; subst;
  rewrite ?skipn_skipn_add in *; cbn [Nat.add] in *.

Lemma p_header_short : forall d, (length d < 28)%nat -> CsiLayout.p_header d = None.
Proof.
  intros d H. rewrite p_header_stages. unfold p_header_st.
  gstep E1. gstep E2. gstep E3. gstep E4. gstep E5. gstep E6.
  unfold CsiLayout.p_names. rewrite p_i32_stage. rewrite stage_short; [reflexivity|].
  rewrite skipn_length. lia.
Qed.

Lemma p_header_bad_lnm : forall d,
  fv_i32 (le_dec (firstn 4 (skipn 24 d))) = None -> CsiLayout.p_header d = None.
Proof.
  intros d H. rewrite p_header_stages. unfold p_header_st.
  gstep E1. gstep E2. gstep E3. gstep E4. gstep E5. gstep E6.
  unfold CsiLayout.p_names. rewrite p_i32_stage. unfold stage at 1. unfold Layout.p_le.
  destruct (4 <=? length (skipn 24 d))%nat; [|reflexivity]. rewrite H. reflexivity.
Qed.

Lemma p_header_short_names : forall d l,
  fv_i32 (le_dec (firstn 4 (skipn 24 d))) = Some l -> (length (skipn 28 d) < N.to_nat l)%nat ->
  CsiLayout.p_header d = None.
Proof.
  intros d l Hv Hs. rewrite p_header_stages. unfold p_header_st.
  gstep E1. gstep E2. gstep E3. gstep E4. gstep E5. gstep E6.
  unfold CsiLayout.p_names. rewrite p_i32_stage.
  destruct (stage fv_i32 (skipn 24 d)) as [[l' r]|] eqn:E; [|reflexivity].
  pose proof (stage_val _ _ _ _ _ E) as Hv'. rewrite Hv in Hv'. injection Hv' as Hl. subst l'.
  apply stage_rest in E. destruct E as [E _]. subst r. rewrite skipn_skipn_add. cbn [Nat.add].
  destruct (CsiLayout.split_nul _ []) as [names|]; [|reflexivity].
  destruct (CsiLayout.nodupb names); [|reflexivity].
  destruct (length (skipn 28 d) <? N.to_nat l)%nat eqn:E2; [reflexivity|lia].
Qed.

Ltac hdestr H E :=
  match type of H with context [stage ?f ?z] => destruct (stage f z) as [[? ?]|] eqn:E; [|discriminate H] end;
  apply stage_rest in E; destruct E as [E ?]; subst;
  rewrite ?skipn_skipn_add in *; cbn [Nat.add] in *.

Lemma p_header_rest : forall x h rr, CsiLayout.p_header x = Some (h, rr) ->
  exists l, fv_i32 (le_dec (firstn 4 (skipn 24 x))) = Some l /\ rr = skipn (N.to_nat l) (skipn 28 x).
Proof.
  intros x h rr H. rewrite p_header_stages in H. unfold p_header_st in H.
  hdestr H E1. hdestr H E2. hdestr H E3. hdestr H E4. hdestr H E5. hdestr H E6.
  unfold CsiLayout.p_names in H. rewrite p_i32_stage in H.
  destruct (stage fv_i32 (skipn 24 x)) as [[l r]|] eqn:E; [|discriminate H].
  pose proof (stage_val _ _ _ _ _ E) as Hv. apply stage_rest in E. destruct E as [E _]. subst r.
  rewrite skipn_skipn_add in H. cbn [Nat.add] in H.
  destruct (CsiLayout.split_nul _ []) as [names|]; [|discriminate H].
  destruct (CsiLayout.nodupb names); [|discriminate H].
  destruct (length (skipn 28 x) <? N.to_nat l)%nat; [discriminate H|].
  injection H as _ Hr. exists l. split; [exact Hv|]. symmetry. exact Hr.
Qed.

(* ---- the async header read against the header parser on the stream ---- *)
Lemma agrees_a_tbi_header : agrees a_tbi_header CsiLayout.p_header.
Proof.
  intros d. unfold a_tbi_header. rewrite run_pure_bind, p_exact_pure.
  destruct (24 <=? length d)%nat eqn:H24.
  2:{ split; [apply p_header_short; lia|discriminate]. }
  rewrite run_pure_bind, p_exact_pure.
  destruct (4 <=? length (skipn 24 d))%nat eqn:H4.
  2:{ split; [apply p_header_short; rewrite skipn_length in H4; lia|discriminate]. }
  rewrite skipn_skipn_add. cbn [Nat.add].
  set (l := le_dec (firstn 4 (skipn 24 d))).
  destruct (l <? 2147483648) eqn:Hl; cbn [negb].
  2:{ cbn [run_pure]. split; [|discriminate]. apply p_header_bad_lnm. fold l. unfold fv_i32. rewrite Hl. reflexivity. }
  assert (Hv : fv_i32 l = Some l) by (unfold fv_i32; rewrite Hl; reflexivity).
  cbn [run_pure]. set (d2 := skipn 28 d).
  destruct (length (firstn (N.to_nat l) d2) <? N.to_nat l)%nat eqn:Hs.
  { cbn [run_pure]. split; [|discriminate]. apply (p_header_short_names d l Hv).
    rewrite firstn_length in Hs. fold d2. lia. }
  rewrite firstn_length in Hs.
  assert (Hlen : (N.to_nat l <= length d2)%nat) by lia.
  set (x := firstn 24 d ++ firstn 4 (skipn 24 d) ++ firstn (N.to_nat l) d2).
  set (y := skipn (N.to_nat l) d2).
  assert (Hd : d = x ++ y).
  { unfold x, y, d2. rewrite <- !app_assoc.
    rewrite <- (firstn_skipn 24 d) at 1. f_equal.
    rewrite <- (firstn_skipn 4 (skipn 24 d)) at 1. f_equal.
    rewrite skipn_skipn_add. cbn [Nat.add]. symmetry. apply firstn_skipn. }
  assert (H24x : length (firstn 24 d) = 24%nat) by (rewrite firstn_length; lia).
  assert (H4x : length (firstn 4 (skipn 24 d)) = 4%nat) by (rewrite firstn_length; lia).
  assert (Hx24 : skipn 24 x = firstn 4 (skipn 24 d) ++ firstn (N.to_nat l) d2).
  { unfold x. rewrite skipn_app, H24x. rewrite skipn_all2 by lia. reflexivity. }
  assert (Hx28 : skipn 28 x = firstn (N.to_nat l) d2).
  { change 28%nat with (24 + 4)%nat. rewrite <- skipn_skipn_add, Hx24.
    rewrite skipn_app, H4x. rewrite skipn_all2 by lia. reflexivity. }
  assert (Hxl : le_dec (firstn 4 (skipn 24 x)) = l).
  { rewrite Hx24. rewrite firstn_app, H4x. rewrite firstn_all2 by lia. cbn [Nat.sub firstn]. rewrite app_nil_r. reflexivity. }
  assert (Happ : CsiLayout.p_header d = lift (CsiLayout.p_header x) y).
  { rewrite Hd at 1. apply p_header_app.
    - unfold x. rewrite !app_length, H24x, H4x. lia.
    - intros l' Hv'. rewrite Hxl, Hv in Hv'. injection Hv' as Hl'. subst l'.
      rewrite Hx28, firstn_length. lia. }
  unfold hdr_on_slice. fold x.
  pose proof (agrees_header x) as HH.
  destruct (run_pure g_header x) as [[h|e] rr].
  - cbn [run_pure]. rewrite Happ, HH. cbn [lift].
    destruct (p_header_rest x h rr HH) as (l' & Hv' & Hrr).
    rewrite Hxl, Hv in Hv'. injection Hv' as Hl'. subst l'.
    rewrite Hx28 in Hrr. rewrite skipn_all2 in Hrr by (rewrite firstn_length; lia). subst rr.
    reflexivity.
  - destruct HH as [HH _]. cbn [run_pure]. rewrite Happ, HH. split; [reflexivity|discriminate].
Qed.

Lemma agrees_a_tbi_ref : agrees a_tbi_ref CsiLayout.p_tbi_ref.
Proof.
  eapply agrees_ext.
  - unfold a_tbi_ref. apply agrees_bind; [apply agrees_i32_nonneg|]. intros n.
    instantiate (1 := fun n bs =>
      match Layout.p_bins_loop (N.to_nat n) [] None bs with
      | None => None
      | Some (bm, r1) =>
          match CsiLayout.p_i32_nonneg r1 with
          | None => None
          | Some (k, r2) =>
              match Layout.p_repeat (N.to_nat k) (Layout.p_le 8) r2 with
              | None => None
              | Some (iv, r3) => Some (Layout.mkbref (fst bm) (snd bm) iv, r3)
              end
          end
      end). cbv beta.
    apply agrees_bind.
    { apply agrees_map_err. unfold g_bins_n. eapply agrees_peq; [|apply agrees_bins_loop].
      apply peq_bind; [apply p_iter_nat_eq|]. intros a. apply peq_refl. }
    intros bm. apply agrees_bind; [apply agrees_i32_nonneg|]. intros k.
    apply agrees_bind; [apply agrees_rep, agrees_le|]. intros iv. apply agrees_ret.
  - intros d. unfold CsiLayout.p_tbi_ref.
    destruct (CsiLayout.p_i32_nonneg d) as [[n r]|]; [|reflexivity].
    destruct (Layout.p_bins_loop (N.to_nat n) [] None r) as [[bm r1]|]; [|reflexivity].
    destruct (CsiLayout.p_i32_nonneg r1) as [[k r2]|]; [|reflexivity].
    destruct (Layout.p_repeat (N.to_nat k) (Layout.p_le 8) r2) as [[iv r3]|]; reflexivity.
Qed.

Lemma tbi_magic_match : forall (X : Type) (d : list N) (y : list N -> X) (z : X),
  match d with 84 :: 66 :: 73 :: 1 :: r0 => y r0 | _ => z end
  = if prefix4 d 84 66 73 1 then y (skipn 4 d) else z.
Proof.
  intros X d y z.
  destruct d as [|a d]; [reflexivity|]. crush_byte a.
  destruct d as [|b d]; [reflexivity|]. crush_byte b.
  destruct d as [|c d]; [reflexivity|]. crush_byte c.
  destruct d as [|e d]; [reflexivity|]. crush_byte e.
Qed.

(* the async tabix reader returns an index exactly when C17's model of the sync reader does, the same *)
Theorem a_tbi_is_read_tbi : forall d, opt_rr (fst (run_pure a_tbi d)) = CsiLayout.read_tbi d.
Proof.
  intros d. unfold CsiLayout.read_tbi. rewrite tbi_magic_match.
  unfold a_tbi. rewrite run_pure_bind, p_exact_pure.
  destruct (4 <=? length d)%nat eqn:H4.
  2:{ assert (Hp : prefix4 d 84 66 73 1 = false).
      { destruct d as [|x1 [|x2 [|x3 [|x4 r]]]]; unfold prefix4; cbn [starts_with];
          rewrite ?andb_false_r; try reflexivity. cbn [length] in H4. discriminate H4. }
      rewrite Hp. reflexivity. }
  unfold CsiLayout.tbi_magic. rewrite (bytes_eqb_firstn4 d 84 66 73 1 H4).
  destruct (prefix4 d 84 66 73 1); [|reflexivity].
  set (r0 := skipn 4 d). rewrite run_pure_bind.
  pose proof (agrees_i32_nonneg r0) as HN. destruct (run_pure g_i32_nonneg r0) as [[n|e] r1].
  2:{ destruct HN as [HN _]. rewrite HN. reflexivity. }
  rewrite HN. rewrite run_pure_bind.
  pose proof (agrees_a_tbi_header r1) as HH. destruct (run_pure a_tbi_header r1) as [[h|e] r2].
  2:{ destruct HH as [HH _]. rewrite HH. reflexivity. }
  rewrite HH. rewrite run_pure_bind.
  pose proof (agrees_rep _ _ _ agrees_a_tbi_ref n r2) as HR.
  destruct (run_pure (p_rep n a_tbi_ref) r2) as [[refs|e] r3].
  2:{ destruct HR as [HR _]. rewrite HR. reflexivity. }
  rewrite HR. rewrite run_pure_bind, p_exact_opt_pure. cbn [run_pure fst opt_rr].
  unfold CsiLayout.p_unplaced, Layout.p_le. destruct (8 <=? length r3)%nat; reflexivity.
Qed.

(* hence async (any poll script) = C17's sync model, on every payload *)
Theorem async_tbi_reader_equals_sync : forall codes chunk payload,
  async_tbi_case codes chunk payload = sync_tbi_case payload.
Proof.
  intros codes chunk payload. rewrite async_tbi_case_closed. unfold sync_tbi_case. apply a_tbi_is_read_tbi.
Qed.

Theorem tabix_roundtrip_async : forall i codes chunk, CsiLayoutProofs.tbi_ok i ->
  async_tbi_case codes chunk (CsiLayout.w_tbi_bytes i) = Some (CsiLayout.reread_tbi i).
Proof.
  intros i codes chunk Hok. rewrite async_tbi_reader_equals_sync. unfold sync_tbi_case.
  apply (CsiLayoutProofs.tabix_roundtrip i Hok).
Qed.
