(* C17 -- the crai line loop (C12's Io.IndexProg.p_crai_text: read_line into a String, i.e. the line
   INCLUDING its LF must be UTF-8) is C17's TextIndex.read_crai (which checks the line without the
   LF), on every input; hence the crai text round trip under any delivery through a BufReader.
   The new fact is [utf8_snoc_ascii]: appending an ASCII byte does not change UTF-8 validity.  The
   gzip layer (GzDecoder) stays outside the model. *)
From Coq Require Import List NArith Arith Bool Lia ZifyBool ZifyNat ZifyN.
From NV Require Import Base.LE Io.Source Io.BufReader Trunc.Stream Io.Run Io.Prog Io.ProgProofs Io.IndexProg
  Io.IndexProgProofs Io.ProgRun Io.ProgRunProofs.
From NV Require Index.TextIndex Index.TextIndexProofs.
Import ListNotations.
Local Open Scope N_scope.


Lemma cont_ascii : forall c, c < 128 -> TextIndex.cont c = false.
Proof. intros c H. unfold TextIndex.cont, TextIndex.in_rng. lia. Qed.

Lemma utf8_snoc_ascii : forall n p c, (length p <= n)%nat -> c < 128 ->
  TextIndex.utf8_valid (p ++ [c]) = TextIndex.utf8_valid p.
Proof.
  induction n as [|n IH]; intros p c Hn Hc.
  - destruct p; [|cbn [length] in Hn; lia]. cbn [app TextIndex.utf8_valid].
    destruct (c <? 128) eqn:E; [reflexivity|lia].
  - destruct p as [|b p].
    + cbn [app TextIndex.utf8_valid]. destruct (c <? 128) eqn:E; [reflexivity|lia].
    + cbn [length] in Hn.
      assert (IH' : forall q, (length q <= length p)%nat -> TextIndex.utf8_valid (q ++ [c]) = TextIndex.utf8_valid q)
        by (intros q Hq; apply IH; [lia|exact Hc]).
      pose proof (cont_ascii c Hc) as Hcc.
      cbn [app]. cbn [TextIndex.utf8_valid].
      destruct (b <? 128); [apply IH'; lia|].
      destruct (TextIndex.in_rng 194 223 b).
      { destruct p as [|c1 p]; cbn [app].
        - rewrite Hcc. reflexivity.
        - rewrite IH' by (cbn [length]; lia). reflexivity. }
      destruct (TextIndex.in_rng 224 239 b).
      { destruct p as [|c1 [|c2 p]]; cbn [app].
        - reflexivity.
        - rewrite Hcc, !andb_false_r. reflexivity.
        - rewrite IH' by (cbn [length]; lia). reflexivity. }
      destruct (TextIndex.in_rng 240 244 b); [|reflexivity].
      destruct p as [|c1 [|c2 [|c3 p]]]; cbn [app].
      * reflexivity.
      * reflexivity.
      * rewrite Hcc, !andb_false_r. reflexivity.
      * rewrite IH' by (cbn [length]; lia). reflexivity.
Qed.

Lemma utf8_line_lf : forall raw, TextIndex.utf8_valid (raw ++ [LF]) = TextIndex.utf8_valid raw.
Proof. intros raw. apply (utf8_snoc_ascii (length raw)); [lia|reflexivity]. Qed.

(* the String-reading loop against TextIndex.read_lines *)
Lemma p_text_index_utf8_spec : forall (A : Type) (parse : list N -> option A) fuel d,
  (length d < fuel)%nat ->
  opt_of (run_pure (p_text_index true fuel parse) d) = TextIndex.read_lines fuel parse d.
Proof.
  intros A parse. unfold TextIndex.read_lines, p_text_index.
  induction fuel as [|f IH]; intros d Hlen; [lia|].
  cbn [p_loop TextIndex.read_lines_gen]. rewrite run_pure_bind.
  unfold g_text_record at 1. cbn [run_pure].
  destruct d as [|x t]; [reflexivity|]. change TextIndex.LF with LF. set (d := x :: t) in *.
  pose proof (break_take d) as HB.
  assert (Hne : take_line LF d <> []).
  { unfold d. cbn [take_line]. destruct (x =? LF); discriminate. }
  destruct (TextIndex.break_at LF d) as [raw [rest|]] eqn:Eb.
  - destruct HB as [HT HS]. rewrite HS.
    destruct (take_line LF d) as [|y l] eqn:ET; [congruence|]. rewrite <- ET in *. clear ET.
    cbn [negb orb]. rewrite HT, utf8_line_lf, strip_eol_lf.
    destruct (TextIndex.utf8_valid raw); [|reflexivity].
    destruct (parse (TextIndex.strip_cr raw)) as [r|]; [|reflexivity].
    cbn [run_pure]. rewrite run_pure_bind.
    assert (Hr : (length rest < f)%nat).
    { rewrite <- HS, skipn_length. rewrite HT, app_length. cbn [length].
      unfold d in Hlen. cbn [length] in Hlen. unfold d. cbn [length]. lia. }
    specialize (IH rest Hr).
    destruct (run_pure (p_loop f (g_text_record true parse)) rest) as [[xs|e] r'];
      cbn [opt_of] in IH; rewrite <- IH; reflexivity.
  - destruct HB as [HT HR]. subst raw. rewrite HT.
    unfold d at 1. cbn [negb orb].
    assert (Hs : strip_eol d = d).
    { unfold strip_eol. rewrite (break_none_no_lf_end d d Eb). reflexivity. }
    fold d. rewrite Hs.
    destruct (TextIndex.utf8_valid d); [|reflexivity].
    destruct (parse d) as [r|]; [|reflexivity].
    cbn [run_pure]. rewrite skipn_all. rewrite run_pure_bind.
    destruct f as [|f']; [unfold d in Hlen; cbn [length] in Hlen; lia|].
    reflexivity.
Qed.

Theorem p_crai_text_is_read_crai : forall d,
  opt_of (run_pure (p_crai_text (Datatypes.S (length d))) d) = TextIndex.read_crai d.
Proof. intros d. unfold p_crai_text, TextIndex.read_crai. apply p_text_index_utf8_spec. lia. Qed.

Theorem run_crai_text_spec : forall data sc cap, (1 <= cap)%nat ->
  let p := p_crai_text (Datatypes.S (length data)) in
  run_crai_text cap (mkSource data sc) = (cres_of (fst (run_pure p data)), length (snd (run_pure p data))).
Proof. intros data sc cap Hcap p. apply run_prog_spec. intros Hc. lia. Qed.

Theorem crai_roundtrip_any_delivery : forall l sc cap, (1 <= cap)%nat ->
  Forall TextIndexProofs.crai_ok l ->
  fst (run_crai_text cap (mkSource (TextIndex.w_crai l) sc)) = COk l.
Proof.
  intros l sc cap Hcap Hok. rewrite run_crai_text_spec by exact Hcap. cbn [fst].
  assert (H : fst (run_pure (p_crai_text (Datatypes.S (length (TextIndex.w_crai l)))) (TextIndex.w_crai l)) = RVal l).
  { pose proof (p_crai_text_is_read_crai (TextIndex.w_crai l)) as H.
    rewrite (TextIndexProofs.crai_roundtrip l Hok) in H.
    destruct (run_pure _ (TextIndex.w_crai l)) as [[v|e] r]; cbn [opt_of] in H; [|discriminate H].
    injection H as H. subst v. reflexivity. }
  rewrite H. reflexivity.
Qed.
