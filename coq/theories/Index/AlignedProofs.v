(* C04, fifth deepening: the chunks an index holds, and the chunks a query returns, are ALIGNED to
   record boundaries -- every chunk starts at the offset before some indexed record, ends at the
   offset after some indexed record, and is not empty.

   Part A: Bin::add_chunk, the merge loop and optimize_chunks keep that shape.
   Part B: ReferenceSequence::update keeps it for every bin of the index under construction
           (with the ordering invariant: every stored chunk starts at or before the offset the
           next record starts at), hence build_ref, query_chunks and Index::query.
   Part C: over a file in offset order that shape is positional: the chunk starts where record x
           starts and ends where x or a LATER record ends; and chunk ends never exceed the offset
           after the last record (the `eof` hypothesis of chunk_read_eof_eq). *)
From Coq Require Import List Arith NArith Bool Lia Sorted.
From Coq Require Import ZifyBool ZifyNat ZifyN.
From NV Require Import Index.Bins Index.Chunks Index.ChunksProofs Index.Indexer Index.QueryProofs
  Index.AlignEnd Index.Formats Index.FormatsProofs.
Import ListNotations.
Open Scope N_scope.

(* ---- A. chunk lists ----------------------------------------------------------------------- *)
Section Alc.
  Variables Ps Pe : N -> Prop.

  Definition alc (c : chunk) : Prop := Ps (cstart c) /\ Pe (cend c) /\ cstart c < cend c.

  Lemma add_chunk_alc : forall cs c,
    Forall alc cs -> alc c -> (forall l, In l cs -> cstart l <= cstart c) ->
    Forall alc (add_chunk cs c).
  Proof.
    intros cs c Hcs Hc Hle. apply Forall_forall. intros x Hx.
    rewrite Forall_forall in Hcs.
    destruct (add_chunk_in_cases cs c x Hx) as [H|[H|(l & Hl & H)]].
    - exact (Hcs x H).
    - subst x. exact Hc.
    - subst x. destruct (Hcs l Hl) as (H1 & _ & _). destruct Hc as (_ & H2 & H3).
      specialize (Hle l Hl). unfold alc. cbn [cstart cend fst snd]. unfold cstart, cend in *.
      repeat split; auto. lia.
  Qed.

  Lemma insert_forall (P : chunk -> Prop) c cs : P c -> Forall P cs -> Forall P (insert_by_start c cs).
  Proof.
    intros Hc Hcs. apply Forall_forall. intros x Hx. apply (proj1 (insert_in _ _ _)) in Hx.
    destruct Hx as [Hx|Hx]; [subst x; exact Hc|]. rewrite Forall_forall in Hcs. exact (Hcs x Hx).
  Qed.

  Lemma sort_forall (P : chunk -> Prop) cs : Forall P cs -> Forall P (sort_by_start cs).
  Proof.
    intros H. apply Forall_forall. intros x Hx. apply (proj1 (sort_in _ _)) in Hx.
    rewrite Forall_forall in H. exact (H x Hx).
  Qed.

  Lemma merge_loop_alc : forall rest cur, alc cur -> Forall alc rest -> Forall alc (merge_loop cur rest).
  Proof.
    induction rest as [|nx rest IH]; intros cur Hc Hr; cbn [merge_loop].
    - constructor; [exact Hc|constructor].
    - inversion Hr as [|? ? Hnx Hr']; subst.
      destruct (cend cur <? cstart nx) eqn:E1.
      + constructor; [exact Hc|]. apply IH; assumption.
      + destruct (cend cur <? cend nx) eqn:E2.
        * apply IH; [|exact Hr']. destruct Hc as (H1 & _ & H3). destruct Hnx as (_ & H2 & _).
          unfold alc. cbn [cstart cend fst snd]. unfold cstart, cend in *. repeat split; auto. lia.
        * apply IH; assumption.
  Qed.

  Theorem optimize_chunks_alc cs m : Forall alc cs -> Forall alc (optimize_chunks cs m).
  Proof.
    intros H. unfold optimize_chunks.
    assert (Hs : Forall alc (sort_by_start (filter (fun c => m <? cend c) cs))).
    { apply sort_forall. apply Forall_forall. intros x Hx. apply filter_In in Hx.
      rewrite Forall_forall in H. apply H. tauto. }
    destruct (sort_by_start _) as [|c rest]; [constructor|].
    inversion Hs; subst. apply merge_loop_alc; assumption.
  Qed.
End Alc.

Lemma alc_weaken (Ps Pe Ps' Pe' : N -> Prop) c :
  (forall v, Ps v -> Ps' v) -> (forall v, Pe v -> Pe' v) -> alc Ps Pe c -> alc Ps' Pe' c.
Proof. intros H1 H2 (A & B & C). unfold alc. auto. Qed.

(* ---- B. the index under construction ------------------------------------------------------ *)
Definition starts_of (D : rec -> Prop) (v : N) : Prop := exists r, D r /\ r_a r = v.
Definition ends_of (D : rec -> Prop) (v : N) : Prop := exists r, D r /\ r_b r = v.
Definition alr (D : rec -> Prop) : chunk -> Prop := alc (starts_of D) (ends_of D).

Lemma alr_weaken (D D' : rec -> Prop) c : (forall r, D r -> D' r) -> alr D c -> alr D' c.
Proof.
  intros H. apply alc_weaken; intros v (r & Hr & E); exists r; auto.
Qed.

Lemma bins_add_in : forall bm id c id' cs',
  In (id', cs') (bins_add bm id c) ->
  In (id', cs') bm \/ exists cs0, (cs0 = [] \/ In (id', cs0) bm) /\ cs' = add_chunk cs0 c.
Proof.
  induction bm as [|[k cs] rest IH]; intros id c id' cs' H; cbn [bins_add] in H.
  - destruct H as [H|[]]. right. exists []. split; [left; reflexivity|congruence].
  - destruct (k =? id) eqn:E.
    + destruct H as [H|H].
      * right. exists cs. injection H as H1 H2. subst. split; [right; left; reflexivity|reflexivity].
      * left. right. exact H.
    + destruct H as [H|H]; [left; left; exact H|].
      destruct (IH _ _ _ _ H) as [H'|(cs0 & [H1|H1] & H2)].
      * left. right. exact H'.
      * right. exists cs0. auto.
      * right. exists cs0. split; [right; right; exact H1|exact H2].
Qed.

Section BuildAl.
  Variables (ms : N) (d : nat).

  (* every chunk of every bin: aligned to the records seen so far, and starting no later than m,
     the offset from which the next record starts *)
  Definition AlInv (ix : refidx) (D : rec -> Prop) (m : N) : Prop :=
    forall id cs c, In (id, cs) (bins ix) -> In c cs -> alr D c /\ cstart c <= m.

  Lemma alinv_step ix D m r :
    AlInv ix D m -> m <= r_a r -> r_a r < r_b r ->
    AlInv (update ms d ix r) (fun x => D x \/ x = r) (r_b r).
  Proof.
    intros HI Hm Hab id cs c Hin Hc. unfold update in Hin. cbn [bins] in Hin.
    assert (Hnew : alr (fun x => D x \/ x = r) (r_a r, r_b r)).
    { unfold alr, alc. cbn [cstart cend fst snd]. repeat split.
      - exists r. auto.
      - exists r. auto.
      - exact Hab. }
    destruct (bins_add_in _ _ _ _ _ Hin) as [H|(cs0 & H0 & Hcs)].
    - destruct (HI _ _ _ H Hc) as [H1 H2]. split; [|lia].
      eapply alr_weaken; [|exact H1]. auto.
    - assert (Hcs0 : forall l, In l cs0 -> alr D l /\ cstart l <= m).
      { intros l Hl. destruct H0 as [H0|H0]; [subst cs0; destruct Hl|]. exact (HI _ _ _ H0 Hl). }
      subst cs.
      assert (Hall : Forall (alr (fun x => D x \/ x = r)) (add_chunk cs0 (r_a r, r_b r))).
      { apply add_chunk_alc; [|exact Hnew|].
        - apply Forall_forall. intros l Hl. eapply alr_weaken; [|exact (proj1 (Hcs0 l Hl))]. auto.
        - intros l Hl. cbn [cstart fst]. pose proof (proj2 (Hcs0 l Hl)). lia. }
      rewrite Forall_forall in Hall. split; [exact (Hall c Hc)|].
      destruct (add_chunk_in_cases _ _ _ Hc) as [H|[H|(l & Hl & H)]].
      + pose proof (proj2 (Hcs0 c H)). lia.
      + subst c. cbn [cstart fst]. lia.
      + subst c. cbn [cstart fst]. pose proof (proj2 (Hcs0 l Hl)). lia.
  Qed.

  Lemma alinv_weaken ix (D D' : rec -> Prop) m : (forall x, D x -> D' x) -> AlInv ix D m -> AlInv ix D' m.
  Proof.
    intros H HI id cs c Hin Hc. destruct (HI _ _ _ Hin Hc) as [H1 H2]. split; [|exact H2].
    eapply alr_weaken; eauto.
  Qed.

  Lemma alinv_fold : forall recs ix D m,
    AlInv ix D m -> offsets_ordered m recs ->
    exists m', AlInv (fold_left (update ms d) recs ix) (fun x => D x \/ In x recs) m'.
  Proof.
    induction recs as [|r rest IH]; intros ix D m HI Ho; cbn [fold_left].
    - exists m. eapply alinv_weaken; [|exact HI]. auto.
    - cbn [offsets_ordered] in Ho. destruct Ho as (H1 & H2 & H3).
      destruct (IH _ _ _ (alinv_step ix D m r HI H1 H2) H3) as (m' & HI').
      exists m'. eapply alinv_weaken; [|exact HI']. cbn [In]. intros x [[H|H]|H]; auto.
  Qed.

  (* every chunk stored in the index of reference k is aligned to the records of the file *)
  Theorem build_ref_aligned k file : offsets_ordered 0 file ->
    forall id cs c, In (id, cs) (bins (build_ref ms d k file)) -> In c cs ->
      alr (fun x => In x file) c.
  Proof.
    intros Ho id cs c Hin Hc. unfold build_ref in Hin.
    destruct (alinv_fold (filter (on_ref k) file) empty_ref (fun _ => False) 0) as (m & HI).
    - intros ? ? ? [].
    - apply offsets_ordered_filter. exact Ho.
    - destruct (HI _ _ _ Hin Hc) as [H _]. eapply alr_weaken; [|exact H].
      intros x [[]|Hx]. apply filter_In in Hx. tauto.
  Qed.

  Lemma query_chunks_from_bins ix qs qe c :
    In c (query_chunks ms d ix qs qe) -> exists id cs, In (id, cs) (bins ix) /\ In c cs.
  Proof.
    unfold query_chunks. intros H. apply in_flat_map in H. destruct H as ([id cs] & Hin & Hc).
    cbn [fst snd] in Hc. destruct (existsb _ _); [|destruct Hc]. exists id, cs. auto.
  Qed.

  (* Index::query on the index the indexer built: every returned chunk is aligned *)
  Theorem query_aligned kd k file qs qe cs : offsets_ordered 0 file ->
    query kd ms d (build_ref ms d k file) qs qe = Some cs ->
    Forall (alr (fun x => In x file)) cs.
  Proof.
    intros Ho H. unfold query in H. destruct (_ || _); [discriminate|]. injection H as H. subst cs.
    apply optimize_chunks_alc. apply Forall_forall. intros c Hc.
    destruct (query_chunks_from_bins _ _ _ _ Hc) as (id & cs & Hin & Hcc).
    exact (build_ref_aligned k file Ho id cs c Hin Hcc).
  Qed.
End BuildAl.

(* ---- C. positional form over a file in offset order ---------------------------------------- *)
Section Pos.
  Variable A : Type.
  Variables oa ob : A -> N.
  Notation ordered_f := (ordered_f A oa ob).

  Lemma ordered_f_app_inv : forall P S p, ordered_f p (P ++ S) ->
    forall y z, In y P -> In z S -> ob y <= oa z.
  Proof.
    induction P as [|x P IH]; intros S p H y z Hy Hz; [destruct Hy|].
    cbn [app Formats.ordered_f] in H. destruct H as (H1 & H2 & H3).
    destruct Hy as [Hy|Hy]; [subst y|exact (IH S _ H3 y z Hy Hz)].
    destruct (ordered_sorted A (fun _ => CNone) oa ob _ _ H3) as [_ Hf]. rewrite Forall_forall in Hf.
    apply Hf. apply in_or_app. right. exact Hz.
  Qed.

  (* a non-empty chunk that starts at record x's start and ends at some record's end ends at the
     end of x or of a LATER record *)
  Theorem aligned_positional l p c : ordered_f p l ->
    (exists x, In x l /\ oa x = cstart c) -> (exists y, In y l /\ ob y = cend c) ->
    cstart c < cend c ->
    exists P x S, l = P ++ x :: S /\ cstart c = oa x /\ exists y, In y (x :: S) /\ cend c = ob y.
  Proof.
    intros Ho (x & Hx & Ex) (y & Hy & Ey) Hlt.
    destruct (in_split x l Hx) as (P & S & Hf). exists P, x, S. split; [exact Hf|].
    split; [symmetry; exact Ex|]. exists y. split; [|symmetry; exact Ey].
    rewrite Hf in Hy. apply in_app_or in Hy. destruct Hy as [Hy|Hy]; [|exact Hy]. exfalso.
    rewrite Hf in Ho. pose proof (ordered_f_app_inv P (x :: S) p Ho y x Hy (or_introl eq_refl)). lia.
  Qed.

  (* no record ends beyond the offset after the last record *)
  Lemma ordered_f_b_le_last : forall l p x d0, ordered_f p l -> In x l -> ob x <= ob (last l d0).
  Proof.
    induction l as [|h t IH]; intros p x d0 Ho Hx; [destruct Hx|].
    cbn [Formats.ordered_f] in Ho. destruct Ho as (H1 & H2 & H3).
    destruct t as [|y t'].
    - destruct Hx as [Hx|[]]. subst. cbn [last]. lia.
    - change (last (h :: y :: t') d0) with (last (y :: t') d0).
      destruct Hx as [Hx|Hx].
      + subst x. pose proof (IH _ y d0 H3 (or_introl eq_refl)) as Hy.
        cbn [Formats.ordered_f] in H3. destruct H3 as (H4 & H5 & _). lia.
      + exact (IH _ x d0 H3 Hx).
  Qed.

  (* ---- the chunk lists of the format-level query: aligned, and ending within the data ---- *)
  Variable ctx : A -> ctxr.
  Notation placed := (placed A ctx oa ob).

  Definition aligned_f (l : list A) (c : chunk) : Prop :=
    exists P x S, l = P ++ x :: S /\ cstart c = oa x /\ exists y, In y (x :: S) /\ cend c = ob y.

  Lemma alr_placed l c : alr (fun r => In r (placed l)) c ->
    (exists x, In x l /\ oa x = cstart c) /\ (exists y, In y l /\ ob y = cend c) /\ cstart c < cend c.
  Proof.
    intros ((r & Hr & Er) & (r' & Hr' & Er') & Hlt).
    apply (placed_in A ctx oa ob) in Hr. destruct Hr as (x & Hx & Hxr).
    apply (placed_in A ctx oa ob) in Hr'. destruct Hr' as (y & Hy & Hyr).
    destruct (to_rec_offs A ctx oa ob _ _ Hxr) as [Ea _].
    destruct (to_rec_offs A ctx oa ob _ _ Hyr) as [_ Eb].
    split; [exists x; split; [exact Hx|congruence]|].
    split; [exists y; split; [exact Hy|congruence]|exact Hlt].
  Qed.

  (* Index::query on the index the format's indexing loop built: every chunk starts where a
     record of the file starts and ends where that or a later record ends *)
  Theorem fmt_query_chunks_aligned kd ms d l k qs qe cs : ordered_f 0 l ->
    query kd ms d (build_ref ms d k (placed l)) qs qe = Some cs -> Forall (aligned_f l) cs.
  Proof.
    intros Ho Hq. pose proof (ordered_placed A ctx oa ob l 0 Ho) as Ho'.
    pose proof (query_aligned ms d kd k (placed l) qs qe cs Ho' Hq) as Hal.
    eapply Forall_impl; [|exact Hal]. intros c Hc.
    destruct (alr_placed l c Hc) as (Hx & Hy & Hlt).
    exact (aligned_positional l 0 c Ho Hx Hy Hlt).
  Qed.

  (* ... hence no chunk end exceeds the offset after the last record: the hypothesis of
     chunk_read_eof_eq (the real reader's stop-for-good at a chunk end beyond the data never
     triggers on index-built chunk lists) *)
  Theorem fmt_query_chunks_within kd ms d l k qs qe cs d0 : ordered_f 0 l ->
    query kd ms d (build_ref ms d k (placed l)) qs qe = Some cs ->
    Forall (fun c => cend c <= ob (last l d0)) cs.
  Proof.
    intros Ho Hq. pose proof (fmt_query_chunks_aligned kd ms d l k qs qe cs Ho Hq) as Hal.
    eapply Forall_impl; [|exact Hal]. intros c (P & x & S & Hl & _ & y & Hy & Ey).
    rewrite Ey. apply (ordered_f_b_le_last l 0 y d0 Ho). rewrite Hl. apply in_or_app. right. exact Hy.
  Qed.

  Corollary fmt_query_reads_as_real kd ms d l k qs qe cs d0 : ordered_f 0 l ->
    query kd ms d (build_ref ms d k (placed l)) qs qe = Some cs ->
    chunk_read_eof A oa (ob (last l d0)) cs l = chunk_read_f A oa cs l.
  Proof.
    intros Ho Hq. apply chunk_read_eof_eq. exact (fmt_query_chunks_within kd ms d l k qs qe cs d0 Ho Hq).
  Qed.
  Corollary fmt_query_chunks_within_data kd ms d l k qs qe cs d0 : ordered_f 0 l ->
    query kd ms d (build_ref ms d k (placed l)) qs qe = Some cs ->
    Forall (fun c => cend c <= ob (last l d0)) cs /\
    chunk_read_eof A oa (ob (last l d0)) cs l = chunk_read_f A oa cs l.
  Proof.
    intros Ho Hq. split; [exact (fmt_query_chunks_within kd ms d l k qs qe cs d0 Ho Hq)|
                          exact (fmt_query_reads_as_real kd ms d l k qs qe cs d0 Ho Hq)].
  Qed.
End Pos.
