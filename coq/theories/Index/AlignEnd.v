(* sam::alignment::Record::alignment_end (noodles-sam/src/alignment/record.rs) from the alignment
   start and the CIGAR: Cigar::alignment_span sums the lengths of the reference-consuming
   operations (M D N = X; kind.rs consumes_reference) with checked usize additions; a span of 0
   gives the start itself; otherwise start.checked_add(span - 1).  Definitions only. *)
From Coq Require Import List NArith Bool.
Import ListNotations.
Open Scope N_scope.

(* operation kinds by their BAM codes: M=0 I=1 D=2 N=3 S=4 H=5 P=6 '='=7 X=8 *)
Definition consumes_ref (k : N) : bool := (k =? 0) || (k =? 2) || (k =? 3) || (k =? 7) || (k =? 8).
Definition cigar := list (N * N).   (* (kind, len) *)
Definition usize_lim : N := 18446744073709551616.

(* None = InvalidData "alignment span overflow" *)
Fixpoint span_loop (c : cigar) (acc : N) : option N :=
  match c with
  | [] => Some acc
  | (k, l) :: t =>
      if consumes_ref k then (if acc + l <? usize_lim then span_loop t (acc + l) else None)
      else span_loop t acc
  end.

Inductive aend := ENone | EErr | EPos (p : N).

Definition alignment_end (start : option N) (c : cigar) : aend :=
  match start with
  | None => ENone
  | Some s =>
      match span_loop c 0 with
      | None => EErr
      | Some span =>
          if span =? 0 then EPos s
          else if s + (span - 1) <? usize_lim then EPos (s + (span - 1)) else EErr
      end
  end.

(* the specification: POS + sum of the lengths of M D N = X operations - 1 (POS when that sum is 0) *)
Definition ref_len (c : cigar) : N :=
  fold_right (fun op a => (if consumes_ref (fst op) then snd op else 0) + a) 0 c.
Definition spec_end (s : N) (c : cigar) : N := if ref_len c =? 0 then s else s + ref_len c - 1.
