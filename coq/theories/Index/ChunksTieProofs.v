(* C17 -- optimize_chunks, tie order of the unstable sort, chunk lists WITHOUT inverted chunks (start <=
   end; empty chunks start = end allowed, so the canonical-form argument of ChunksAnyProofs does not
   apply: an empty chunk shows in the output and covers nothing): every permutation of the retained
   chunks that is sorted by start gives the same merged list.  Proof: two adjacent chunks with equal
   starts commute in the merge loop ([swap_tie]); the head of one sorted permutation can be moved to
   the front of the other past chunks of equal start ([move_front]); induction ([merge_loop_perm]).
   With an inverted chunk sharing a start the statement is false (props/C17.v c17_optimize_any_example). *)
From Coq Require Import List Arith NArith Lia Sorted Permutation.
From Coq Require Import ZifyBool ZifyNat ZifyN.
From NV Require Import Index.Chunks Index.ChunksProofs Index.ChunksAny Index.ChunksAnyProofs.
Import ListNotations.
Open Scope N_scope.

Definition lb (cur : chunk) (s : list chunk) : Prop := Forall (fun c => cstart cur <= cstart c) s.

(* one turn of the merge loop *)
Definition mstep (cur nx : chunk) : list chunk * chunk :=
  if cend cur <? cstart nx then ([cur], nx)
  else if cend cur <? cend nx then ([], (cstart cur, cend nx))
  else ([], cur).

Lemma merge_loop_step : forall cur nx rest,
  merge_loop cur (nx :: rest) = fst (mstep cur nx) ++ merge_loop (snd (mstep cur nx)) rest.
Proof.
  intros cur nx rest. cbn [merge_loop]. unfold mstep.
  destruct (cend cur <? cstart nx); [reflexivity|]. destruct (cend cur <? cend nx); reflexivity.
Qed.

Lemma mstep_inv : forall cur nx, noninv cur -> noninv nx -> cstart cur <= cstart nx ->
  noninv (snd (mstep cur nx)) /\ cstart (snd (mstep cur nx)) <= cstart nx.
Proof.
  intros [c0 e0] [s e] Hc Hn Hle. unfold mstep, noninv in *. cbn [cstart cend fst snd] in *.
  destruct (e0 <? s) eqn:E1; cbn [snd cstart cend fst]; [lia|].
  destruct (e0 <? e) eqn:E2; cbn [snd cstart cend fst]; lia.
Qed.

Lemma swap_tie : forall cur a b r,
  cstart a = cstart b -> noninv a -> noninv b -> noninv cur -> cstart cur <= cstart a ->
  merge_loop cur (a :: b :: r) = merge_loop cur (b :: a :: r).
Proof.
  intros [c0 e0] [s ea] [s' eb] r Hs Ha Hb Hc Hle. unfold noninv in *. cbn [cstart cend fst snd] in *. subst s'.
  cbn [merge_loop cstart cend fst snd].
  destruct (e0 <? s) eqn:E1.
  - (* cur pushed *)
    destruct (ea <? s) eqn:E2; [lia|]. destruct (eb <? s) eqn:E3; [lia|].
    destruct (ea <? eb) eqn:E4; destruct (eb <? ea) eqn:E5; try lia; try reflexivity.
    replace eb with ea by lia. reflexivity.
  - destruct (e0 <? ea) eqn:E2; destruct (e0 <? eb) eqn:E3; cbn [cstart cend fst snd];
      rewrite ?E1, ?E2, ?E3.
    + destruct (ea <? s) eqn:E6; [lia|]. destruct (eb <? s) eqn:E7; [lia|].
      destruct (ea <? eb) eqn:E4; destruct (eb <? ea) eqn:E5; try lia; try reflexivity.
      replace eb with ea by lia. reflexivity.
    + destruct (ea <? s) eqn:E6; [lia|]. destruct (ea <? eb) eqn:E4; [lia|]. reflexivity.
    + destruct (eb <? s) eqn:E6; [lia|]. destruct (eb <? ea) eqn:E4; [lia|]. reflexivity.
    + reflexivity.
Qed.

Lemma move_front : forall pre cur a post,
  noninv cur -> noninv a -> cstart cur <= cstart a ->
  Forall (fun p => cstart p = cstart a /\ noninv p) pre ->
  merge_loop cur (pre ++ a :: post) = merge_loop cur (a :: pre ++ post).
Proof.
  induction pre as [|p pre IH]; intros cur a post Hc Ha Hle Hpre; [reflexivity|].
  inversion Hpre as [|? ? [Hps Hpn] Hpre']; subst.
  cbn [app]. rewrite merge_loop_step.
  destruct (mstep_inv cur p Hc Hpn ltac:(lia)) as [Hn' Hle'].
  rewrite (IH (snd (mstep cur p)) a post Hn' Ha ltac:(lia) Hpre').
  rewrite <- merge_loop_step.
  apply swap_tie; try assumption; lia.
Qed.

Lemma sorted_app_le : forall (l1 : list chunk) x l2,
  StronglySorted le_start (l1 ++ x :: l2) -> Forall (fun p => le_start p x) l1.
Proof.
  induction l1 as [|p l1 IH]; intros x l2 H; [constructor|].
  cbn [app] in H. inversion H as [|? ? Hs Hall]; subst. constructor.
  - rewrite Forall_forall in Hall. apply Hall. apply in_elt.
  - apply (IH x l2 Hs).
Qed.

Lemma sorted_remove_mid : forall (l1 : list chunk) x l2,
  StronglySorted le_start (l1 ++ x :: l2) -> StronglySorted le_start (l1 ++ l2).
Proof.
  induction l1 as [|p l1 IH]; intros x l2 H.
  - cbn [app] in *. inversion H; assumption.
  - cbn [app] in *. inversion H as [|? ? Hs Hall]; subst. constructor; [apply (IH x l2 Hs)|].
    apply Forall_app in Hall. destruct Hall as [H1 H2]. inversion H2; subst.
    apply Forall_app. split; assumption.
Qed.

Theorem merge_loop_perm : forall s1 s2 cur,
  Permutation s1 s2 -> StronglySorted le_start s1 -> StronglySorted le_start s2 ->
  lb cur s1 -> noninv cur -> Forall noninv s1 ->
  merge_loop cur s1 = merge_loop cur s2.
Proof.
  induction s1 as [|a t1 IH]; intros s2 cur Hp H1 H2 Hlb Hc Hn.
  - apply Permutation_nil in Hp. subst s2. reflexivity.
  - assert (Hin : In a s2) by (apply (Permutation_in _ Hp); left; reflexivity).
    destruct (in_split _ _ Hin) as (pre & post & Hs2). subst s2.
    pose proof (Permutation_cons_app_inv _ _ Hp) as Hp'.
    inversion H1 as [|? ? Ht1 Hat1]; subst.
    inversion Hn as [|? ? Hna Hnt1]; subst.
    inversion Hlb as [|? ? Hca Hlbt1]; subst.
    assert (Hpre : Forall (fun p => cstart p = cstart a /\ noninv p) pre).
    { pose proof (sorted_app_le pre a post H2) as Hle.
      rewrite Forall_forall in *. intros p Hp0.
      assert (Hps1 : In p (a :: t1)).
      { apply (Permutation_in _ (Permutation_sym Hp)). apply in_or_app. left. exact Hp0. }
      specialize (Hle p Hp0). unfold le_start in Hle.
      destruct Hps1 as [Heq|Hpt].
      - subst p. split; [reflexivity|exact Hna].
      - specialize (Hat1 p Hpt). unfold le_start in Hat1. split; [lia|apply Hnt1; exact Hpt]. }
    rewrite (move_front pre cur a post Hc Hna Hca Hpre).
    rewrite !merge_loop_step. f_equal.
    destruct (mstep_inv cur a Hc Hna Hca) as [Hn' Hle'].
    apply IH; try assumption.
    + apply (sorted_remove_mid pre a post H2).
    + unfold lb. rewrite Forall_forall in *. intros c Hc0. specialize (Hat1 c Hc0). unfold le_start in Hat1. lia.
Qed.

Lemma merge_loop_dummy : forall c r, noninv c ->
  merge_loop (cstart c, cstart c) (c :: r) = merge_loop c r.
Proof.
  intros [s e] r Hn. unfold noninv in Hn. cbn [cstart cend fst snd] in *. cbn [merge_loop cstart cend fst snd].
  destruct (s <? s) eqn:E1; [lia|]. destruct (s <? e) eqn:E2; [reflexivity|].
  replace e with s by lia. reflexivity.
Qed.

(* no inverted chunk: the order of equal starts is immaterial (empty chunks included) *)
Theorem merge_sorted_tie_independent_noninv : forall s1 s2,
  Permutation s1 s2 -> StronglySorted le_start s1 -> StronglySorted le_start s2 ->
  Forall noninv s1 -> merge_sorted s1 = merge_sorted s2.
Proof.
  intros s1 s2 Hp H1 H2 Hn.
  destruct s1 as [|c1 r1].
  { apply Permutation_nil in Hp. subst s2. reflexivity. }
  destruct s2 as [|c2 r2].
  { apply Permutation_sym, Permutation_nil in Hp. discriminate Hp. }
  assert (Hn2 : Forall noninv (c2 :: r2)).
  { rewrite Forall_forall in *. intros x Hx. apply Hn. apply (Permutation_in _ (Permutation_sym Hp)). exact Hx. }
  assert (Hst : cstart c1 = cstart c2).
  { assert (A : cstart c1 <= cstart c2).
    { assert (Hi : In c2 (c1 :: r1)) by (apply (Permutation_in _ (Permutation_sym Hp)); left; reflexivity).
      destruct Hi as [->|Hi]; [lia|]. inversion H1 as [|? ? _ Hall]; subst. rewrite Forall_forall in Hall.
      apply (Hall c2 Hi). }
    assert (B : cstart c2 <= cstart c1).
    { assert (Hi : In c1 (c2 :: r2)) by (apply (Permutation_in _ Hp); left; reflexivity).
      destruct Hi as [->|Hi]; [lia|]. inversion H2 as [|? ? _ Hall]; subst. rewrite Forall_forall in Hall.
      apply (Hall c1 Hi). }
    lia. }
  cbn [merge_sorted].
  inversion Hn as [|? ? Hn1 _]; subst. inversion Hn2 as [|? ? Hn2' _]; subst.
  rewrite <- (merge_loop_dummy c1 r1 Hn1), <- (merge_loop_dummy c2 r2 Hn2'). rewrite <- Hst.
  apply merge_loop_perm; try assumption.
  - unfold lb. constructor; [cbn [cstart fst]; lia|].
    inversion H1 as [|? ? _ Hall]; subst. rewrite Forall_forall in *. intros x Hx. cbn [cstart fst].
    apply (Hall x Hx).
  - unfold noninv. cbn [cstart cend fst snd]. lia.
Qed.

Theorem optimize_chunks_sort_independent_noninv : forall cs m s,
  (forall c, In c cs -> m < cend c -> noninv c) ->
  Permutation s (retained m cs) -> StronglySorted le_start s ->
  merge_sorted s = optimize_chunks cs m.
Proof.
  intros cs m s Hpr Hp Hs. rewrite optimize_chunks_is_merge_sorted.
  apply merge_sorted_tie_independent_noninv; [|exact Hs|apply sort_sorted|].
  - apply perm_trans with (retained m cs); [exact Hp|apply Permutation_sym, sort_perm].
  - rewrite Forall_forall. intros x Hx. apply (Permutation_in _ Hp) in Hx. unfold retained in Hx.
    rewrite filter_In, N.ltb_lt in Hx. apply Hpr; tauto.
Qed.
