(* Model of the UCSC/CSI binning scheme as implemented in
   noodles-csi/src/binning_index/index/reference_sequence.rs (reg2bin, reg2bins,
   parent_id), bin.rs (bin_limit / max_id) and index.rs (max_position).
   Definitions only; proofs live in BinsProofs.v. *)
From Coq Require Import List NArith.
Import ListNotations.
Open Scope N_scope.

(* offset of the first bin of level l : (8^l - 1)/7 *)
Definition toff (l : nat) : N := (8 ^ N.of_nat l - 1) / 7.

(* reg2bin: mirrors the while loop; l counts remaining levels, s the shift, t the level
   offset.  b and e are the 0-based inclusive ends [beg, end-1] of the Rust code. *)
Fixpoint reg2bin_loop (l : nat) (s t b e : N) : N :=
  match l with
  | O => 0
  | S l' => if N.shiftr b s =? N.shiftr e s then t + N.shiftr b s
            else reg2bin_loop l' (s + 3) (t - 8 ^ N.of_nat l') b e
  end.

Definition reg2bin0 (ms : N) (d : nat) (b e : N) : N := reg2bin_loop d ms (toff d) b e.

(* public form: 1-based inclusive start/end as noodles_core::Position (both >= 1) *)
Definition reg2bin (ms : N) (d : nat) (start end_ : N) : N := reg2bin0 ms d (start - 1) (end_ - 1).

(* reg2bins as a list of marked ids, level by level from the root, mirroring the loop
   `while l <= depth`: s starts at ms + 3*depth and drops by 3, t accumulates 8^l. *)
Fixpoint range_from (a : N) (n : nat) : list N :=
  match n with O => [] | S n' => a :: range_from (a + 1) n' end.

Definition range_incl (a b : N) : list N := if b <? a then [] else range_from a (N.to_nat (b - a + 1)).

(* k = levels still to do (counting down), l = current level *)
Fixpoint reg2bins_loop (k : nat) (l : nat) (ms : N) (d : nat) (b e : N) : list N :=
  match k with
  | O => []
  | S k' =>
      let s := ms + 3 * N.of_nat (d - l) in
      range_incl (toff l + N.shiftr b s) (toff l + N.shiftr e s)
        ++ reg2bins_loop k' (S l) ms d b e
  end.

Definition reg2bins0 (ms : N) (d : nat) (b e : N) : list N := reg2bins_loop (S d) O ms d b e.
Definition reg2bins (ms : N) (d : nat) (start end_ : N) : list N := reg2bins0 ms d (start - 1) (end_ - 1).

(* membership in reg2bins as a proposition: some level l <= d marks
   [t_l + b>>s_l, t_l + e>>s_l] *)
Definition sh (ms : N) (d l : nat) : N := ms + 3 * N.of_nat (d - l).
Definition in_reg2bins (ms : N) (d : nat) (b e x : N) : Prop :=
  exists l, (l <= d)%nat /\ toff l + N.shiftr b (sh ms d l) <= x <= toff l + N.shiftr e (sh ms d l).

Definition parent_id (id : N) : option N := if id =? 0 then None else Some ((id - 1) / 8).

(* Bin::max_id = bin_limit depth = (1 << ((depth+1)*3)) / 7 *)
Definition max_id (d : nat) : N := (8 ^ N.of_nat (S d)) / 7.
Definition metadata_id (d : nat) : N := max_id d + 1.
(* max_position = 2^(ms + 3 d) - 1 *)
Definition max_position (ms : N) (d : nat) : N := 2 ^ (ms + 3 * N.of_nat d) - 1.

(* the genomic interval (0-based inclusive) covered by bin x at level l *)
Definition bin_lo (ms : N) (d l : nat) (x : N) : N := N.shiftl (x - toff l) (sh ms d l).
Definition bin_hi (ms : N) (d l : nat) (x : N) : N := N.shiftl (x - toff l + 1) (sh ms d l) - 1.
