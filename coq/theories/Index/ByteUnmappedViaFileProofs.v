(* C04, seventh deepening: region AND unmapped queries over the BAM bytes with the index written to
   a BAI file and read back (NV.Index.Layout, C17).  The BAI index reads back equal, so
   Index::last_first_record_start_position -- the last element of the last non-empty linear index --
   is unchanged and with it the unmapped answer.  (Through a CSI file the stored per-bin loffsets
   differ from the in-memory ones, so the seek position of query_unmapped may differ: not claimed
   here, exercised by kind bamu.) *)
From Coq Require Import List Arith NArith Bool Lia.
From NV Require Import Base.LE Bgzf.Vpos Bgzf.ReaderOps Bgzf.FlatRef Bgzf.ReaderOpsProofs
  Index.Bins Index.Chunks Index.Indexer Index.QueryProofs Index.Layout Index.LayoutProofs Index.ViaFileProofs
  Index.AlignEnd Index.Formats Index.FormatsProofs Index.ByteQuery Index.ByteQueryProofs Index.ByteIndex
  Index.ByteIndexProofs Index.FormatsViaFileProofs Index.ByteUnmapped Index.ByteUnmappedProofs.
Import ListNotations.
Open Scope N_scope.

Lemma find_map_o_map {X Y Z : Type} (g : X -> Y) (h : Y -> option Z) (h' : X -> option Z) :
  (forall x, h (g x) = h' x) -> forall l, find_map_o h (map g l) = find_map_o h' l.
Proof.
  intros H. induction l as [|x t IH]; cbn [map find_map_o]; [reflexivity|]. rewrite H, IH. reflexivity.
Qed.

Lemma unmapped_start_bai ms d file meta n unplaced :
  unmapped_start Linear (map bref_refidx (bi_refs (built_bai ms d file meta n unplaced)))
  = unmapped_start Linear (built_refs ms d n file).
Proof.
  unfold unmapped_start, built_bai, built_refs. cbn [bi_refs]. rewrite map_map, <- !map_rev.
  rewrite (find_map_o_map _ (last_first Linear)
             (fun k => last_first Linear (build_ref ms d (N.of_nat k) file))).
  - rewrite (find_map_o_map (fun k => build_ref ms d (N.of_nat k) file) (last_first Linear)
               (fun k => last_first Linear (build_ref ms d (N.of_nat k) file))); reflexivity.
  - intros k. reflexivity.
Qed.

Lemma byte_bam_ops_same dec bsz f hl kd ms d nref ixs' ixs :
  same_answers kd ms d ixs' ixs -> unmapped_start kd ixs' = unmapped_start kd ixs ->
  forall ops st, byte_bam_ops dec bsz query f hl st kd ms d nref ixs' ops
               = byte_bam_ops dec bsz query f hl st kd ms d nref ixs ops.
Proof.
  intros H Hu. induction ops as [|op t IH]; intros st; [reflexivity|]. cbn [byte_bam_ops].
  destruct op as [[k iv]|].
  - assert (E : byte_bam_query dec bsz query f st kd ms d nref ixs' (k, iv)
              = byte_bam_query dec bsz query f st kd ms d nref ixs (k, iv)).
    { pose proof (same_answers_nth kd ms d ixs' ixs (N.to_nat k) H) as Hn. unfold byte_bam_query.
      destruct (negb _); [reflexivity|].
      destruct (nth_error ixs' (N.to_nat k)); destruct (nth_error ixs (N.to_nat k)); try contradiction; [|reflexivity].
      rewrite Hn. reflexivity. }
    rewrite E. destruct (byte_bam_query dec bsz query f st kd ms d nref ixs (k, iv)) as [st1 r]. rewrite IH. reflexivity.
  - unfold byte_bam_unmapped. rewrite Hu.
    destruct (unmapped_start kd ixs) as [p|].
    + destruct (seek true f st p) as [st1 [x|e| | |]]; cbn [res_cast]; try (rewrite IH; reflexivity).
      destruct (read_unmapped dec bsz f st1) as [st2 r]. rewrite IH. reflexivity.
    + destruct (seek true f st 0) as [st1 [x|e| | |]]; cbn [res_cast]; try (rewrite IH; reflexivity).
      destruct (read_exact_std true st1 hl) as [st2 [y|e| | |]]; cbn [res_cast]; try (rewrite IH; reflexivity).
      destruct (read_unmapped dec bsz f st2) as [st3 r]. rewrite IH. reflexivity.
Qed.

Theorem byte_bam_ops_via_bai_file :
  forall dec bsz f, wf f -> total_csize f <= MAX_COMPRESSED_POSITION ->
  forall st0 o0 bodies ms d nref,
    Rel f st0 o0 -> skipn (N.to_nat o0) (concat (chunks f)) = stream bodies ->
    Forall rec_ok bodies -> Forall (body_ok dec ms d) bodies ->
    index_scan (list N) (fun b => dec_ctx (dec b)) 0 bodies = None ->
    exists st1 L U,
      index_from dec bsz f st0 = (st1, IxOk L) /\ map br_body L = bodies /\
      unmapped_answer_ok dec bodies U /\
      forall meta unplaced,
        let i := built_bai ms d (placed brec (bctx dec) br_a br_b L) meta (length (built dec ms d nref L)) unplaced in
        bai_ok i ->
        exists i', read_bai (w_bai i) = Some i' /\
          forall ops st o, Forall (op_ok ms d nref) ops -> Rel f st o ->
            byte_bam_ops dec bsz query f o0 st Linear ms d nref (map bref_refidx (bi_refs i')) ops
            = map (op_answer dec bodies U) ops.
Proof.
  intros dec bsz f Hwf Hmax st0 o0 bodies ms d nref HR Hsk Hrec Hok Hscan.
  destruct (byte_bam_index_ops_equals_scan dec bsz f Hwf Hmax st0 o0 bodies ms d nref HR Hsk Hrec Hok Hscan)
    as (st1 & L & Hix & HmL & _ & Hq).
  destruct (Hq Linear) as (U & HU & Hops).
  exists st1, L, U. split; [exact Hix|]. split; [exact HmL|]. split; [exact HU|].
  intros meta unplaced i Hbok.
  exists i. split; [apply bai_roundtrip; exact Hbok|]. intros ops st o Hqs HRq.
  destruct (bai_file_same_answers ms d _ meta _ unplaced Hbok) as (i' & Hrd & Hsame).
  assert (Ei : i' = i).
  { pose proof (bai_roundtrip _ Hbok) as E. fold i in Hrd. unfold i in *. congruence. }
  subst i'.
  rewrite (byte_bam_ops_same dec bsz f o0 Linear ms d nref _ _ Hsame (unmapped_start_bai ms d _ meta _ unplaced) ops st).
  rewrite <- built_is_built_refs. exact (Hops ops st o Hqs HRq).
Qed.
