(* Byte layouts of the CSI and tabix index files (the uncompressed payload inside BGZF) and of
   the tabix header that is also the CSI aux block:
     noodles-csi/src/io/{writer,reader}/index.rs, index/header.rs,
       index/header/reference_sequence_names.rs, index/reference_sequences.rs,
       index/reference_sequences/{bins,metadata}.rs, bins/chunks.rs
     noodles-tabix/src/io/{writer,reader}/index.rs, index/reference_sequences/{bins,intervals,metadata}.rs
   Writers: a status (what the real writer returns: Ok / io::Error InvalidInput / panic) and the
   bytes it produces when the status is Ok.  Readers: parsers  list N -> option ...  (None = any
   error).  Definitions only; proofs in CsiLayoutProofs.v. *)
From Coq Require Import List Arith NArith Bool.
From NV Require Import Base.LE Index.Bins Index.Chunks Index.Indexer Index.CsiLoffset Index.Layout.
Import ListNotations.
Open Scope N_scope.

Notation "'let?' ( x , r ) := e 'in' k" :=
  (match e with None => None | Some (x, r) => k end)
  (at level 200, x name, r name, e at level 100, k at level 200, only parsing).

(* ---------- writer status ---------- *)
Inductive wstatus := SOk | SErr | SPanic.
Definition sseq (a b : wstatus) : wstatus := match a with SOk => b | _ => a end.
Inductive wres := WOk (bs : list N) | WErr | WPanic.
Definition mkres (s : wstatus) (bs : list N) : wres :=
  match s with SOk => WOk bs | SErr => WErr | SPanic => WPanic end.

(* ---------- tabix header (= CSI aux) ---------- *)
Inductive format := FGeneric (bed : bool) | FSam | FVcf.
Record header := mkhdr {
  h_format : format;
  h_seq : N;               (* reference_sequence_name_index (0-based usize) *)
  h_beg : N;               (* start_position_index *)
  h_end : option N;        (* end_position_index *)
  h_meta : N;              (* line_comment_prefix : u8 *)
  h_skip : N;              (* line_skip_count : u32 *)
  h_names : list (list N)  (* IndexSet<BString> in insertion order *)
}.

Definition i32_max : N := 2147483647.
Definition usize_max : N := 18446744073709551615.

Definition is_samvcf (f : format) : bool := match f with FGeneric _ => false | _ => true end.
Definition format_code (f : format) : N :=
  match f with FGeneric bed => if bed then 65536 else 0 | FSam => 1 | FVcf => 2 end.

(* i.checked_add(1).expect(..) then i32::try_from *)
Definition col_status (i : N) : wstatus :=
  if i =? usize_max then SPanic else if i32_max <? i + 1 then SErr else SOk.
Definition end_col (h : header) : N := match h_end h with Some e => e | None => h_beg h end.
Definition end_status (h : header) : wstatus :=
  if is_samvcf (h_format h) then match h_end h with Some _ => SErr | None => SOk end
  else col_status (end_col h).
Definition names_len (names : list (list N)) : N :=
  fold_right (fun n a => N.of_nat (length n) + 1 + a) 0 names.
Definition has_nul (n : list N) : bool := existsb (N.eqb 0) n.
Definition names_status (names : list (list N)) : wstatus :=
  if i32_max <? names_len names then SErr else if existsb has_nul names then SErr else SOk.
Definition header_status (h : header) : wstatus :=
  sseq (col_status (h_seq h)) (sseq (col_status (h_beg h)) (sseq (end_status h)
    (sseq (if i32_max <? h_skip h then SErr else SOk) (names_status (h_names h))))).

Definition w_name (n : list N) : list N := n ++ [0].
Definition w_names (names : list (list N)) : list N :=
  le32 (names_len names) ++ concat (map w_name names).
Definition w_header (h : header) : list N :=
  le32 (format_code (h_format h)) ++ le32 (h_seq h + 1) ++ le32 (h_beg h + 1)
  ++ le32 (if is_samvcf (h_format h) then 0 else end_col h + 1)
  ++ le32 (h_meta h) ++ le32 (h_skip h) ++ w_names (h_names h).

(* what a header reads back as: for generic formats an end column equal to the start column
   is the format's encoding of "none" *)
Definition norm_header (h : header) : header :=
  match h_end h with
  | Some e => if e =? h_beg h
              then mkhdr (h_format h) (h_seq h) (h_beg h) None (h_meta h) (h_skip h) (h_names h)
              else h
  | None => h
  end.

(* i32 field that must be >= 0 *)
Definition p_i32_nonneg : parser N := fun bs =>
  let? (n, r) := p_le 4 bs in if n <? 2147483648 then Some (n, r) else None.
(* 1-based column stored as i32: usize::try_from, NonZero::try_from, minus 1 *)
Definition p_col : parser N := fun bs =>
  let? (n, r) := p_le 4 bs in if (1 <=? n) && (n <? 2147483648) then Some (n - 1, r) else None.

Definition p_format : parser format := fun bs =>
  let? (n, r) := p_le 4 bs in
  let kind := n mod 65536 in
  if kind =? 0 then
    (if n / 65536 =? 0 then Some (FGeneric false, r)
     else if n / 65536 =? 1 then Some (FGeneric true, r) else None)
  else if kind =? 1 then Some (FSam, r)
  else if kind =? 2 then Some (FVcf, r)
  else None.

Definition p_end (f : format) (beg : N) : parser (option N) := fun bs =>
  if is_samvcf f then
    let? (n, r) := p_le 4 bs in if n =? 0 then Some (None, r) else None
  else
    let? (i, r) := p_col bs in if i =? beg then Some (None, r) else Some (Some i, r).

(* read_until(NUL) over the l_nm bytes: every name must be NUL-terminated *)
Fixpoint split_nul (bs cur_rev : list N) : option (list (list N)) :=
  match bs with
  | [] => match cur_rev with [] => Some [] | _ => None end
  | b :: t => if b =? 0 then option_map (cons (rev cur_rev)) (split_nul t [])
              else split_nul t (b :: cur_rev)
  end.

Definition bytes_eq_dec : forall a b : list N, {a = b} + {a <> b} := list_eq_dec N.eq_dec.
Fixpoint nodupb (l : list (list N)) : bool :=
  match l with
  | [] => true
  | x :: t => if in_dec bytes_eq_dec x t then false else nodupb t
  end.

(* l_nm (i32 >= 0), then a `take(l_nm)` of what is left (shorter if the input ends early); after
   the names have been read the take must have delivered all l_nm bytes (repair d82cb79: a names
   block shorter than l_nm is UnexpectedEof, not an index with fewer names) *)
Definition p_names : parser (list (list N)) := fun bs =>
  let? (l, r) := p_i32_nonneg bs in
  match split_nul (firstn (N.to_nat l) r) [] with
  | None => None
  | Some names =>
      if nodupb names then
        if (length r <? N.to_nat l)%nat then None else Some (names, skipn (N.to_nat l) r)
      else None
  end.

Definition p_header : parser header := fun bs =>
  let? (f, r1) := p_format bs in
  let? (sq, r2) := p_col r1 in
  let? (bg, r3) := p_col r2 in
  let? (en, r4) := p_end f bg r3 in
  let? (mt, r5) := p_le 4 r4 in
  if 256 <=? mt then None else
  let? (sk, r6) := p_i32_nonneg r5 in
  let? (nm, r7) := p_names r6 in
  Some (mkhdr f sq bg en mt sk nm, r7).

(* ---------- CSI ---------- *)
Definition csi_magic : list N := [67; 83; 73; 1].

Record csi_ref := mkcref { cr_bins : binmap; cr_loffs : loffmap; cr_meta : option metadata }.
Record csi_index := mkcsi {
  ci_ms : N; ci_depth : nat; ci_header : option header;
  ci_refs : list csi_ref; ci_unplaced : option N }.

Definition w_csi_bin (lm : loffmap) (b : N * list chunk) : list N :=
  le32 (fst b) ++ le64 (stored_loffset lm (fst b)) ++ w_chunks (snd b).
Definition w_csi_meta (d : nat) (m : option metadata) : list N :=
  match m with Some md => le32 (metadata_id d) ++ le64 0 ++ w_metadata_body md | None => [] end.
Definition w_csi_ref (d : nat) (r : csi_ref) : list N :=
  le32 (N.of_nat (length (cr_bins r)) + match cr_meta r with Some _ => 1 | None => 0 end)
  ++ concat (map (w_csi_bin (cr_loffs r)) (cr_bins r)) ++ w_csi_meta d (cr_meta r).
Definition w_aux (h : option header) : list N :=
  match h with
  | Some hd => le32 (N.of_nat (length (w_header hd))) ++ w_header hd
  | None => le32 0
  end.
Definition w_unplaced (u : option N) : list N := match u with Some n => le64 n | None => [] end.
Definition w_csi_bytes (i : csi_index) : list N :=
  csi_magic ++ le32 (ci_ms i) ++ le32 (N.of_nat (ci_depth i)) ++ w_aux (ci_header i)
  ++ le32 (N.of_nat (length (ci_refs i))) ++ concat (map (w_csi_ref (ci_depth i)) (ci_refs i))
  ++ w_unplaced (ci_unplaced i).

(* the writer's failures that do not need 2^31 elements: a bin id that is not a u32
   (InvalidInput), and Bin::metadata_id(depth) asserting depth <= 10 when a metadata pseudo-bin
   has to be written *)
Definition bin_status (b : N * list chunk) : wstatus := if 4294967296 <=? fst b then SErr else SOk.
Definition ref_status (d : nat) (r : csi_ref) : wstatus :=
  sseq (fold_right (fun b s => sseq (bin_status b) s) SOk (cr_bins r))
       (match cr_meta r with Some _ => if (10 <? d)%nat then SPanic else SOk | None => SOk end).
Definition csi_status (i : csi_index) : wstatus :=
  sseq (match ci_header i with Some h => header_status h | None => SOk end)
       (fold_right (fun r s => sseq (ref_status (ci_depth i) r) s) SOk (ci_refs i)).
Definition w_csi (i : csi_index) : wres := mkres (csi_status i) (w_csi_bytes i).

(* read_bins: id u32, loffset u64, then either the metadata body or a chunk list *)
Definition csi_bin := (N * N * list chunk)%type.
Fixpoint p_csi_bins_loop (n : nat) (mid : N) (acc : list csi_bin) (m : option metadata)
  : parser (list csi_bin * option metadata) := fun bs =>
  match n with
  | O => Some ((rev acc, m), bs)
  | S n' =>
    let? (id, r0) := p_le 4 bs in
    let? (lo, r) := p_le 8 r0 in
    if id =? mid then
      let? (md, r') := p_metadata_body r in
      match m with Some _ => None | None => p_csi_bins_loop n' mid acc (Some md) r' end
    else
      let? (cs, r') := p_chunks r in
      if existsb (fun b => fst (fst b) =? id) acc then None
      else p_csi_bins_loop n' mid ((id, lo, cs) :: acc) m r'
  end.

Definition p_csi_ref (d : nat) : parser csi_ref := fun bs =>
  let? (n, r) := p_i32_nonneg bs in
  let? (bm, r') := p_csi_bins_loop (N.to_nat n) (metadata_id d) [] None r in
  Some (mkcref (map (fun b => (fst (fst b), snd b)) (fst bm))
               (map (fun b => (fst (fst b), snd (fst b))) (fst bm)) (snd bm), r').

(* validate_binning_scheme: max_position(min_shift, depth) is Ok *)
Definition scheme_ok (ms d : N) : bool := negb (ms =? 0) && (d <=? 10) && (ms + 3 * d <? 64).

(* read_aux: l_aux i32 >= 0; when positive the header is parsed from a `take(l_aux)`; bytes of
   the take that the header parser does not consume stay in the stream *)
Definition p_aux : parser (option header) := fun bs =>
  let? (l, r) := p_i32_nonneg bs in
  if 0 <? l then
    let? (h, rr) := p_header (firstn (N.to_nat l) r) in Some (Some h, rr ++ skipn (N.to_nat l) r)
  else Some (None, r).

Definition p_unplaced (bs : list N) : option N :=
  match p_le 8 bs with Some (c, _) => Some c | None => None end.

Definition read_csi (bs : list N) : option csi_index :=
  match bs with
  | 67 :: 83 :: 73 :: 1 :: r0 =>
    let? (ms, r1) := p_le 4 r0 in
    if 256 <=? ms then None else
    let? (d, r2) := p_le 4 r1 in
    if 256 <=? d then None else
    if negb (scheme_ok ms d) then None else
    let? (h, r3) := p_aux r2 in
    let? (n, r4) := p_i32_nonneg r3 in
    let? (refs, r5) := p_repeat (N.to_nat n) (p_csi_ref (N.to_nat d)) r4 in
    Some (mkcsi ms (N.to_nat d) h refs (p_unplaced r5))
  | _ => None
  end.

(* the index as it reads back: geometry, bins, metadata and unplaced count unchanged; the
   header normalised; per-bin loffsets replaced by the stored ancestor-chain minima *)
Definition reread_ref (r : csi_ref) : csi_ref :=
  mkcref (cr_bins r) (reread_loffs (cr_bins r) (cr_loffs r)) (cr_meta r).
Definition reread_csi (i : csi_index) : csi_index :=
  mkcsi (ci_ms i) (ci_depth i) (option_map norm_header (ci_header i))
        (map reread_ref (ci_refs i)) (ci_unplaced i).

(* ---------- tabix ---------- *)
Definition tbi_magic : list N := [84; 66; 73; 1].
Record tbi_index := mktbi { ti_header : option header; ti_refs : list bai_ref; ti_unplaced : option N }.

(* tabix bins are BAI bins (depth 5, metadata id 37450); n_bin and n_intv are i32 *)
Definition w_tbi_bytes (i : tbi_index) : list N :=
  tbi_magic ++ le32 (N.of_nat (length (ti_refs i)))
  ++ match ti_header i with Some h => w_header h | None => [] end
  ++ concat (map w_bai_ref (ti_refs i)) ++ w_unplaced (ti_unplaced i).
Definition tbi_bin_status (b : binp) : wstatus := if 4294967296 <=? fst b then SErr else SOk.
Definition tbi_ref_status (r : bai_ref) : wstatus :=
  fold_right (fun b s => sseq (tbi_bin_status b) s) SOk (br_bins r).
(* a missing header is InvalidInput, reported after the magic and n_ref were written *)
Definition tbi_status (i : tbi_index) : wstatus :=
  match ti_header i with
  | None => SErr
  | Some h => sseq (header_status h) (fold_right (fun r s => sseq (tbi_ref_status r) s) SOk (ti_refs i))
  end.
Definition w_tbi (i : tbi_index) : wres := mkres (tbi_status i) (w_tbi_bytes i).

Definition p_tbi_ref : parser bai_ref := fun bs =>
  let? (n, r) := p_i32_nonneg bs in
  let? (bm, r1) := p_bins_loop (N.to_nat n) [] None r in
  let? (k, r2) := p_i32_nonneg r1 in
  let? (iv, r3) := p_repeat (N.to_nat k) (p_le 8) r2 in
  Some (mkbref (fst bm) (snd bm) iv, r3).

Definition read_tbi (bs : list N) : option tbi_index :=
  match bs with
  | 84 :: 66 :: 73 :: 1 :: r0 =>
    let? (n, r1) := p_i32_nonneg r0 in
    let? (h, r2) := p_header r1 in
    let? (refs, r3) := p_repeat (N.to_nat n) p_tbi_ref r2 in
    Some (mktbi (Some h) refs (p_unplaced r3))
  | _ => None
  end.

Definition reread_tbi (i : tbi_index) : tbi_index :=
  mktbi (option_map norm_header (ti_header i)) (ti_refs i) (ti_unplaced i).
