(* A faster, proved-equal form of the query used when *running* the model: membership of a bin
   id in reg2bins is decided level by level instead of scanning the materialised id list. *)
From Coq Require Import List Arith NArith Bool Lia.
From Coq Require Import ZifyBool ZifyNat ZifyN.
From NV Require Import Index.Bins Index.BinsProofs Index.Chunks Index.Indexer.
Import ListNotations.
Open Scope N_scope.

Fixpoint bin_in_region_loop (k l : nat) (ms : N) (d : nat) (b e id : N) : bool :=
  match k with
  | O => false
  | S k' =>
      let s := ms + 3 * N.of_nat (d - l) in
      ((toff l + N.shiftr b s <=? id) && (id <=? toff l + N.shiftr e s))
      || bin_in_region_loop k' (S l) ms d b e id
  end.

Definition bin_in_region (ms : N) (d : nat) (qs qe id : N) : bool :=
  bin_in_region_loop (S d) O ms d (qs - 1) (qe - 1) id.

Lemma bin_in_region_loop_spec k : forall l ms d b e id,
  bin_in_region_loop k l ms d b e id = true <->
  exists l', (l <= l' < l + k)%nat /\
     toff l' + N.shiftr b (sh ms d l') <= id <= toff l' + N.shiftr e (sh ms d l').
Proof.
  induction k as [|k IH]; intros l ms d b e id; cbn [bin_in_region_loop].
  - split; [discriminate|intros (l' & H & _); lia].
  - rewrite orb_true_iff, IH. fold (sh ms d l). split.
    + intros [H|(l' & Hl & H)]; [exists l; split; lia|exists l'; split; [lia|exact H]].
    + intros (l' & Hl & H). destruct (Nat.eq_dec l' l) as [Heq|Hne].
      * subst l'. left. lia.
      * right. exists l'. split; [lia|exact H].
Qed.

Lemma bin_in_region_correct ms d qs qe id :
  existsb (N.eqb id) (reg2bins ms d qs qe) = bin_in_region ms d qs qe id.
Proof.
  apply eq_true_iff_eq. rewrite existsb_exists. unfold bin_in_region, reg2bins, reg2bins0.
  rewrite bin_in_region_loop_spec. split.
  - intros (x & Hin & Heq). apply N.eqb_eq in Heq. subst x.
    apply in_reg2bins_loop in Hin. exact Hin.
  - intros H. exists id. split; [apply in_reg2bins_loop; exact H|apply N.eqb_refl].
Qed.

Definition query_chunks_fast (ms : N) (d : nat) (ix : refidx) (qs qe : N) : list chunk :=
  flat_map (fun kv => if bin_in_region ms d qs qe (fst kv) then snd kv else []) (bins ix).

Lemma query_chunks_fast_eq ms d ix qs qe : query_chunks_fast ms d ix qs qe = query_chunks ms d ix qs qe.
Proof.
  unfold query_chunks_fast, query_chunks. apply flat_map_ext. intros kv.
  rewrite bin_in_region_correct. reflexivity.
Qed.

Definition query_fast (k : kind) (ms : N) (d : nat) (ix : refidx) (qs qe : N) : option (list chunk) :=
  if (max_position ms d <? qs) || (max_position ms d <? qe) then None
  else Some (optimize_chunks (query_chunks_fast ms d ix qs qe) (min_offset k ms d ix qs)).

Theorem query_fast_eq k ms d ix qs qe : query_fast k ms d ix qs qe = query k ms d ix qs qe.
Proof. unfold query_fast, query. rewrite query_chunks_fast_eq. reflexivity. Qed.
