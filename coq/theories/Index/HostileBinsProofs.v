(* C17 -- hostile indexes, bins OUTSIDE the geometry: every id that reg2bins marks for a region inside
   the coordinate range is a bin of the scheme (< Bin::max_id(depth)), so ReferenceSequence::query
   never selects an out-of-geometry bin: its chunks cannot enter any answer, and removing such bins
   from the bin map changes no query_chunks. *)
From Coq Require Import List Arith NArith Bool Lia.
From Coq Require Import ZifyBool ZifyNat ZifyN.
From NV Require Import Index.Bins Index.BinsProofs Index.Chunks Index.Indexer.
Import ListNotations.
Open Scope N_scope.
Arguments N.add : simpl never. Arguments N.sub : simpl never. Arguments N.mul : simpl never.
Arguments N.shiftr : simpl never. Arguments N.pow : simpl never. Arguments N.div : simpl never.

Lemma shiftr_lt_pow8 ms d l e : (l <= d)%nat -> N.shiftr e (ms + 3 * N.of_nat d) = 0 ->
  N.shiftr e (sh ms d l) < 8 ^ N.of_nat l.
Proof.
  intros Hl He. rewrite N.shiftr_div_pow2 in *. unfold sh.
  assert (Hp: 0 < 2 ^ (ms + 3 * N.of_nat d)) by (apply N.neq_0_lt_0, N.pow_nonzero; lia).
  assert (Hlt : e < 2 ^ (ms + 3 * N.of_nat d)).
  { destruct (N.lt_ge_cases e (2 ^ (ms + 3 * N.of_nat d))) as [?|Hge]; [assumption|].
    pose proof (N.div_le_mono _ _ (2 ^ (ms + 3 * N.of_nat d)) ltac:(lia) Hge) as Hx.
    rewrite N.div_same in Hx by lia. lia. }
  apply N.div_lt_upper_bound; [apply N.pow_nonzero; lia|].
  replace (8 ^ N.of_nat l) with (2 ^ (3 * N.of_nat l)) by (rewrite N.pow_mul_r; reflexivity).
  rewrite <- N.pow_add_r.
  replace (ms + 3 * N.of_nat (d - l) + 3 * N.of_nat l) with (ms + 3 * N.of_nat d) by lia.
  exact Hlt.
Qed.

Theorem reg2bins0_lt_max_id ms d b e x :
  N.shiftr e (ms + 3 * N.of_nat d) = 0 -> In x (reg2bins0 ms d b e) -> x < max_id d.
Proof.
  intros He Hx. apply in_reg2bins0_iff in Hx. destruct Hx as (l & Hl & _ & Hhi).
  pose proof (shiftr_lt_pow8 ms d l e Hl He) as Hs.
  rewrite <- toff_S_eq_max_id.
  pose proof (toff_succ l). pose proof (toff_le_mono (S l) (S d) ltac:(lia)). lia.
Qed.

(* in terms of the 1-based query bounds that Index::query lets through (<= max_position) *)
Theorem reg2bins_lt_max_id ms d qs qe x :
  1 <= qe -> qe <= max_position ms d -> In x (reg2bins ms d qs qe) -> x < max_id d.
Proof.
  intros H1 Hq Hx. unfold reg2bins in Hx. apply (reg2bins0_lt_max_id ms d (qs - 1) (qe - 1)); [|exact Hx].
  unfold max_position in Hq.
  assert (Hp: 0 < 2 ^ (ms + 3 * N.of_nat d)) by (apply N.neq_0_lt_0, N.pow_nonzero; lia).
  rewrite N.shiftr_div_pow2. apply N.div_small. lia.
Qed.

(* bins outside the geometry never contribute a chunk *)
Definition in_geometry (d : nat) (kv : N * list chunk) : bool := fst kv <? max_id d.

Theorem query_chunks_ignores_outside ms d bm ln lm qs qe :
  1 <= qe -> qe <= max_position ms d ->
  query_chunks ms d (mkref (filter (in_geometry d) bm) ln lm) qs qe
  = query_chunks ms d (mkref bm ln lm) qs qe.
Proof.
  intros H1 Hq. unfold query_chunks. cbn [bins].
  induction bm as [|kv rest IH]; [reflexivity|].
  cbn [filter flat_map]. destruct (in_geometry d kv) eqn:E.
  - cbn [flat_map]. rewrite IH. reflexivity.
  - rewrite IH.
    destruct (existsb (N.eqb (fst kv)) (reg2bins ms d qs qe)) eqn:Ex; [|reflexivity].
    exfalso. apply existsb_exists in Ex. destruct Ex as (x & Hx & Heq). apply N.eqb_eq in Heq. subst x.
    pose proof (reg2bins_lt_max_id ms d qs qe (fst kv) H1 Hq Hx). unfold in_geometry in E. lia.
Qed.
