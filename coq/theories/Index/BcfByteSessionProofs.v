(* The whole executed BCF byte session (kind `bcfb`) in closed form: header bytes, the indexer's
   scan, then any number of chunk-list queries on the same reader object. *)
From Coq Require Import List NArith Lia.
From NV Require Import Base.LE Bgzf.Vpos Bgzf.Gzi Bgzf.ReaderOps Bgzf.FlatRef Bgzf.ReaderOpsProofs
  Index.Chunks Index.ByteQuery Index.BcfByteQuery Index.ByteUnmappedProofs.
From NV Require Index.Formats Index.ByteQueryProofs Index.BcfByteQueryProofs.
Import ListNotations.
Open Scope N_scope.

Module B := NV.Index.BcfByteQueryProofs.

Theorem bcf_byte_session_spec : forall f bsz hl bodies, wf f ->
  total_csize f <= MAX_COMPRESSED_POSITION -> hl <= total_dlen f ->
  skipn (N.to_nat hl) (concat (chunks f)) = B.bstream bodies -> Forall B.brec_ok bodies ->
  exists a L, map br_body L = bodies /\ B.blaid f hl a L /\
    forall qs, Forall (Forall (B.baligned L)) qs ->
      bcf_byte_session bsz f hl qs
      = (Ok L, map (fun cs => Ok (map br_body (NV.Index.Formats.chunk_read_f brec br_a cs L))) qs).
Proof.
  intros f bsz hl bodies Hwf Hmax Hle Hsk Hok.
  destruct (after_header_rel f Hwf hl Hle) as (st & Hah & HR).
  destruct (B.bcf_byte_scan_spec f bsz st hl bodies Hwf Hmax HR Hsk Hok)
    as (st' & a & L & Hv & Hs & Hm & Hl & HR').
  exists a, L. split; [exact Hm|]. split; [exact Hl|]. intros qs Hal.
  unfold bcf_byte_session. rewrite Hah, Hs.
  assert (HD : skipn (N.to_nat hl) (concat (chunks f)) = B.bstream (map br_body L)).
  { rewrite Hm. exact Hsk. }
  rewrite (B.bcf_byte_queries_spec f bsz Hwf Hmax L hl a Hl HD qs st' _ Hal HR'). reflexivity.
Qed.
