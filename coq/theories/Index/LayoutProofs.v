From Coq Require Import List Arith NArith Bool Lia.
From Coq Require Import ZifyBool ZifyNat ZifyN.
From NV Require Import Base.LE Index.Layout.
Import ListNotations.
Open Scope N_scope.

Lemma p_le_app k n rest : n < 256 ^ N.of_nat k -> p_le k (le_bytes k n ++ rest) = Some (n, rest).
Proof.
  intros Hn. unfold p_le. rewrite app_length, le_bytes_length.
  replace (k <=? k + length rest)%nat with true by lia.
  rewrite firstn_app, le_bytes_length, Nat.sub_diag, firstn_O, app_nil_r.
  rewrite <- (le_bytes_length k n) at 1. rewrite firstn_all.
  rewrite skipn_app, le_bytes_length, Nat.sub_diag, skipn_O.
  rewrite <- (le_bytes_length k n) at 2. rewrite skipn_all. cbn [app].
  rewrite le_dec_le_bytes by exact Hn. reflexivity.
Qed.

Lemma p_le32_app n rest : n < 4294967296 -> p_le 4 (le32 n ++ rest) = Some (n, rest).
Proof. intros H. apply p_le_app. exact H. Qed.
Lemma p_le64_app n rest : n < 18446744073709551616 -> p_le 8 (le64 n ++ rest) = Some (n, rest).
Proof. intros H. apply p_le_app. exact H. Qed.

Lemma p_repeat_concat {A} (p : parser A) (w : A -> list N) (xs : list A) rest :
  (forall x r, In x xs -> p (w x ++ r) = Some (x, r)) ->
  p_repeat (length xs) p (concat (map w xs) ++ rest) = Some (xs, rest).
Proof.
  induction xs as [|x xs IH]; intros H; cbn [length p_repeat map concat app]; [reflexivity|].
  rewrite <- app_assoc. rewrite (H x _ (or_introl eq_refl)).
  rewrite IH; [reflexivity|]. intros y r Hy. apply H. right. exact Hy.
Qed.

Definition u64 (n : N) : Prop := n < 18446744073709551616.
Definition u32 (n : N) : Prop := n < 4294967296.
Definition chunk_ok (c : chunkp) : Prop := u64 (fst c) /\ u64 (snd c).

Lemma p_chunk_w c rest : chunk_ok c -> p_chunk (w_chunk c ++ rest) = Some (c, rest).
Proof.
  intros [H1 H2]. unfold p_chunk, w_chunk. rewrite <- app_assoc.
  rewrite p_le64_app by exact H1. rewrite p_le64_app by exact H2. destruct c; reflexivity.
Qed.

Lemma p_chunks_w cs rest : N.of_nat (length cs) < 2147483648 -> Forall chunk_ok cs ->
  p_chunks (w_chunks cs ++ rest) = Some (cs, rest).
Proof.
  intros Hlen Hok. unfold p_chunks, w_chunks. rewrite <- app_assoc.
  rewrite p_le32_app by lia. replace (N.of_nat (length cs) <? 2147483648) with true by lia.
  rewrite Nat2N.id. apply p_repeat_concat. intros x r Hx. apply p_chunk_w.
  rewrite Forall_forall in Hok. auto.
Qed.

Definition meta_ok (m : metadata) : Prop := u64 (m_beg m) /\ u64 (m_end m) /\ u64 (m_mapped m) /\ u64 (m_unmapped m).

Lemma p_metadata_body_w m rest : meta_ok m -> p_metadata_body (w_metadata_body m ++ rest) = Some (m, rest).
Proof.
  intros (H1 & H2 & H3 & H4). unfold p_metadata_body, w_metadata_body.
  repeat rewrite <- app_assoc. rewrite p_le32_app by lia. cbn [N.eqb Pos.eqb].
  rewrite p_le64_app by exact H1. rewrite p_le64_app by exact H2.
  rewrite p_le64_app by exact H3. rewrite p_le64_app by exact H4. destruct m; reflexivity.
Qed.

Definition bin_ok (b : binp) : Prop :=
  u32 (fst b) /\ fst b <> bai_metadata_id /\ N.of_nat (length (snd b)) < 2147483648 /\ Forall chunk_ok (snd b).

Definition meta_tail (m : option metadata) : list N :=
  match m with Some md => le32 bai_metadata_id ++ w_metadata_body md | None => [] end.

Lemma p_bins_loop_w : forall (bins acc : list binp) m rest,
  Forall bin_ok bins -> NoDup (map fst bins) ->
  (forall b, In b bins -> existsb (fun a => fst a =? fst b) acc = false) ->
  match m with Some md => meta_ok md | None => True end ->
  p_bins_loop (length bins + match m with Some _ => 1 | None => 0 end) acc None
              (concat (map w_bin bins) ++ meta_tail m ++ rest)
  = Some ((rev acc ++ bins, m), rest).
Proof.
  induction bins as [|b bins IH]; intros acc m rest Hok Hnd Hacc Hm.
  - cbn [length map concat app Nat.add]. unfold meta_tail. destruct m as [md|].
    + cbn [p_bins_loop]. rewrite <- app_assoc. rewrite p_le32_app by (unfold bai_metadata_id, u32; lia).
      rewrite N.eqb_refl. rewrite p_metadata_body_w by exact Hm. cbn [p_bins_loop]. rewrite app_nil_r. reflexivity.
    + cbn [p_bins_loop app]. rewrite app_nil_r. reflexivity.
  - pose proof (Forall_inv Hok) as Hb. pose proof (Forall_inv_tail Hok) as Hok'.
    destruct Hb as (Hb1 & Hb2 & Hb3 & Hb4).
    cbn [map] in Hnd. pose proof (NoDup_cons_iff (fst b) (map fst bins)) as Hnc.
    apply Hnc in Hnd. destruct Hnd as [Hnotin Hnd'].
    cbn [length map concat Nat.add p_bins_loop]. unfold w_bin at 1.
    repeat rewrite <- app_assoc. rewrite p_le32_app by exact Hb1.
    replace (fst b =? bai_metadata_id) with false by lia.
    rewrite p_chunks_w by assumption.
    rewrite (Hacc b (or_introl eq_refl)).
    rewrite IH; [|exact Hok'|exact Hnd'| |exact Hm].
    + cbn [rev]. rewrite <- app_assoc. cbn [app]. destruct b; reflexivity.
    + intros b' Hb'. cbn [existsb fst]. rewrite (Hacc b' (or_intror Hb')).
      rewrite orb_false_r. destruct (fst b =? fst b') eqn:E; [|reflexivity].
      exfalso. apply Hnotin. apply in_map_iff. exists b'. split; [lia|exact Hb'].
Qed.

Definition ref_ok (r : bai_ref) : Prop :=
  Forall bin_ok (br_bins r) /\ NoDup (map fst (br_bins r)) /\
  N.of_nat (length (br_bins r)) + 1 < 4294967296 /\
  match br_meta r with Some md => meta_ok md | None => True end /\
  N.of_nat (length (br_intervals r)) < 4294967296 /\ Forall u64 (br_intervals r).

Lemma p_bai_ref_w r rest : ref_ok r -> p_bai_ref (w_bai_ref r ++ rest) = Some (r, rest).
Proof.
  intros (Hb & Hnd & Hlen & Hm & Hil & Hiv). unfold p_bai_ref, w_bai_ref, p_bins, w_bins.
  repeat rewrite <- app_assoc.
  rewrite p_le32_app by (destruct (br_meta r); lia).
  replace (N.to_nat (N.of_nat (length (br_bins r)) + match br_meta r with Some _ => 1 | None => 0 end))
    with (length (br_bins r) + match br_meta r with Some _ => 1 | None => 0 end)%nat by (destruct (br_meta r); lia).
  pose proof (p_bins_loop_w (br_bins r) [] (br_meta r) (w_intervals (br_intervals r) ++ rest) Hb Hnd
             (fun _ _ => eq_refl) Hm) as HB.
  unfold meta_tail in HB. rewrite HB. clear HB.
  cbn [rev app]. unfold p_intervals, w_intervals. rewrite <- app_assoc.
  rewrite p_le32_app by exact Hil. rewrite Nat2N.id.
  rewrite (p_repeat_concat (p_le 8) le64).
  - destruct r; reflexivity.
  - intros x r0 Hx. apply p_le64_app. rewrite Forall_forall in Hiv. apply Hiv. exact Hx.
Qed.

Definition bai_ok (i : bai_index) : Prop :=
  N.of_nat (length (bi_refs i)) < 4294967296 /\ Forall ref_ok (bi_refs i) /\
  match bi_unplaced i with Some n => u64 n | None => True end.

Theorem bai_roundtrip i : bai_ok i -> read_bai (w_bai i) = Some i.
Proof.
  intros (Hlen & Hrefs & Hu). unfold read_bai, w_bai, bai_magic. cbn [app].
  rewrite p_le32_app by exact Hlen. rewrite Nat2N.id.
  rewrite (p_repeat_concat p_bai_ref w_bai_ref).
  - destruct i as [refs [n|]]; cbn [bi_unplaced bi_refs] in *.
    + rewrite <- (app_nil_r (le64 n)). rewrite p_le64_app by exact Hu. reflexivity.
    + reflexivity.
  - intros x r Hx. apply p_bai_ref_w. rewrite Forall_forall in Hrefs. auto.
Qed.

Theorem gzi_roundtrip idx :
  N.of_nat (length idx) < 18446744073709551616 -> Forall chunk_ok idx ->
  read_gzi (w_gzi idx) = Some idx.
Proof.
  intros Hlen Hok. unfold read_gzi, w_gzi. rewrite p_le64_app by exact Hlen. rewrite Nat2N.id.
  rewrite <- (app_nil_r (concat (map w_chunk idx))).
  rewrite (p_repeat_concat p_chunk w_chunk); [reflexivity|].
  intros x r Hx. apply p_chunk_w. rewrite Forall_forall in Hok. auto.
Qed.

(* trailing bytes after a gzi index are rejected *)
Theorem gzi_trailing_rejected idx b rest :
  N.of_nat (length idx) < 18446744073709551616 -> Forall chunk_ok idx ->
  read_gzi (w_gzi idx ++ b :: rest) = None.
Proof.
  intros Hlen Hok. unfold read_gzi, w_gzi. rewrite <- app_assoc. rewrite p_le64_app by exact Hlen.
  rewrite Nat2N.id. rewrite (p_repeat_concat p_chunk w_chunk); [reflexivity|].
  intros x r Hx. apply p_chunk_w. rewrite Forall_forall in Hok. auto.
Qed.
