(* Proofs about NV.Index.ByteUnmapped: bam::io::Reader::query_unmapped over the BYTES of a BAM file
   = the format-level unmapped query (NV.Index.Formats.fmt_query_unmapped) on the scanned records,
   from ANY reader state of C02's invariant; histories mixing region queries and unmapped queries
   on one reader; and that reading hl bytes from a fresh reader (after_header) leaves the reader
   in a state of the invariant at flat offset hl. *)
From Coq Require Import List NArith PeanoNat Lia Bool ZifyBool ZifyNat ZifyN Sorted.
From NV Require Import Base.LE Bgzf.Vpos Bgzf.VposProofs Bgzf.Gzi Bgzf.ReaderOps Bgzf.FlatRef Bgzf.ReaderOpsProofs Bgzf.ReaderTellProofs
  Index.Bins Index.Chunks Index.Indexer Index.QueryProofs Index.QueryFast Index.AlignEnd Index.AlignEndProofs
  Index.Formats Index.FormatsProofs Index.AlignedProofs Index.ByteQuery Index.ByteQueryProofs Index.ByteIndex
  Index.ByteIndexProofs Index.ByteUnmapped.
Import ListNotations.
Open Scope N_scope.
Arguments N.add : simpl never.
Arguments N.sub : simpl never.
Arguments N.mul : simpl never.
Arguments N.min : simpl never.
Arguments N.max : simpl never.
Arguments N.ltb : simpl never.
Arguments N.leb : simpl never.
Arguments N.eqb : simpl never.
Arguments N.to_nat : simpl never.
Arguments N.of_nat : simpl never.
Arguments firstn : simpl never.
Arguments skipn : simpl never.
Arguments pack : simpl never.

Lemma denote_zero : forall f, denote f 0 = Some 0.
Proof.
  intros f. unfold denote. change (vcomp 0) with 0. change (vuncomp 0) with 0.
  destruct f as [|b r]; cbn [frame_start]; rewrite N.eqb_refl.
  - reflexivity.
  - destruct (N.leb_spec 0 (flen b)); [reflexivity|lia].
Qed.

Lemma filter_res_total {A} (g : A -> bool) : forall l, filter_res (fun x => Some (g x)) l = Some (filter g l).
Proof. intros l. apply filter_res_some. intros; reflexivity. Qed.

Section UExact.
  Variable f : file.
  Hypothesis Hwf : wf f.
  Notation D := (concat (chunks f)).

  (* ---- 1. std's default_read_exact over the plain reader: exactly n bytes, wherever the block
     boundaries are ---- *)
  Lemma exact_loop : forall fuel st o rem acc, Rel f st o -> o + rem <= total_dlen f ->
    (N.to_nat rem < fuel)%nat ->
    exists st', default_read_exact true fuel st rem acc = (st', Ok (acc ++ slice D o rem)) /\
                Rel f st' (o + rem).
  Proof.
    induction fuel as [|fuel IH]; intros st o rem acc HR Hle Hf; [lia|].
    cbn [default_read_exact]. destruct (N.eqb_spec rem 0) as [Z|NZ].
    - subst rem. exists st. rewrite slice_zero, app_nil_r, N.add_0_r. split; [reflexivity|exact HR].
    - destruct (read_data f st o rem Hwf HR) as (st1 & k & Hrd & Hk1 & Hkn & Hkd & HR1 & _); try lia.
      rewrite Hrd. rewrite (len_slice D o k) by (rewrite len_concat_chunks; lia).
      destruct (N.eqb_spec k 0) as [|_]; [lia|].
      destruct (IH st1 (o + k) (rem - k) (acc ++ slice D o k) HR1) as (st2 & Hl & HR2); try lia.
      exists st2. rewrite Hl. rewrite <- app_assoc, slice_split.
      replace (k + (rem - k)) with rem by lia. replace (o + k + (rem - k)) with (o + rem) in * by lia.
      split; [reflexivity|exact HR2].
  Qed.

  Lemma read_exact_std_at : forall st o n, Rel f st o -> o + n <= total_dlen f ->
    exists st', read_exact_std true st n = (st', Ok (slice D o n)) /\ Rel f st' (o + n).
  Proof.
    intros st o n HR Hle. unfold read_exact_std.
    destruct (exact_loop (S (N.to_nat n)) st o n [] HR Hle) as (st' & H & HR'); [lia|].
    exists st'. split; [exact H|exact HR'].
  Qed.

  (* read_header as the sessions model it (hl bytes are read from a fresh reader) leaves the
     reader in a state of the invariant at flat offset hl: the premise `Rel f st0 o0` of the
     byte-level theorems holds for the state the executed sessions start from *)
  Theorem after_header_rel : forall hl, hl <= total_dlen f ->
    exists st, after_header f hl = (st, Ok (slice D 0 hl)) /\ Rel f st hl.
  Proof.
    intros hl Hle. unfold after_header.
    assert (HR0 : Rel f (init f) 0).
    { exists (mkF 0 0). split; [apply NV.Bgzf.ReaderOpsProofs.inv_init; exact Hwf|reflexivity]. }
    destruct (read_exact_std_at (init f) 0 hl HR0) as (st & H & HR); [lia|].
    exists st. rewrite N.add_0_l in HR. split; [exact H|exact HR].
  Qed.

End UExact.

Section UFile.
  Variable f : file.
  Variable bsz : N -> N.
  Hypothesis Hwf : wf f.
  Hypothesis Hmax : total_csize f <= MAX_COMPRESSED_POSITION.
  Notation D := (concat (chunks f)).

  (* ---- 2. the record loop of the plain reader over the records laid out in the data ---- *)
  Lemma plain_read_records : forall bodies fuel st o acc,
    Rel f st o -> skipn (N.to_nat o) D = stream bodies ->
    Forall rec_ok bodies -> (length bodies < fuel)%nat ->
    exists st', read_records state (read true) bsz fuel st acc = (st', Ok (acc ++ bodies)) /\
                Rel f st' (total_dlen f).
  Proof.
    induction bodies as [|b bodies IH]; intros fuel st o acc HR Hsk Hok Hf;
      (destruct fuel as [|fuel]; [cbn [length] in Hf; lia|]); cbn [read_records].
    - assert (Hge : total_dlen f <= o).
      { pose proof (f_equal (@length N) Hsk) as HL. rewrite skipn_length in HL. cbn in HL.
        rewrite <- len_concat_chunks. unfold len. lia. }
      destruct (plain_read_end f bsz Hwf st o HR Hge) as (st' & Hrr & HR'). rewrite Hrr.
      exists st'. rewrite app_nil_r. split; [reflexivity|].
      destruct HR' as (s & HI & Ho). pose proof (Inv_bound _ _ _ HI).
      exists s. split; [exact HI | lia].
    - cbn [stream map concat] in Hsk. fold (stream bodies) in Hsk.
      inversion Hok as [|? ? Hb Hoks]; subst.
      pose proof (skipn_len_bound D o (framed b) (stream bodies) Hsk) as Hbd.
      assert (Hne : framed b <> []).
      { intros E. pose proof (len_framed b) as H4. rewrite E in H4. rewrite len_nil in H4. lia. }
      specialize (Hbd Hne). rewrite len_framed, len_concat_chunks in Hbd.
      destruct (gen_read_record state (read true) bsz D (Rel f) (JC f) (total_dlen f + 1)
                  (plain_rd_data f Hwf) st o b (stream bodies) HR Hsk Hb) as (st1 & Hrr & HR1 & _); [lia|].
      rewrite Hrr.
      pose proof (skipn_at D o _ _ Hsk) as Hsk2. rewrite len_framed in Hsk2.
      replace (o + (4 + len b)) with (o + 4 + len b) in Hsk2 by lia.
      destruct (IH fuel st1 (o + 4 + len b) (acc ++ [b]) HR1 Hsk2 Hoks) as (st' & Hsl & HR');
        [cbn [length] in Hf; lia|].
      exists st'. rewrite Hsl, <- app_assoc. split; [reflexivity|exact HR'].
  Qed.

  Lemma laid_rec_ok : forall L o a, laid f o a L -> Forall rec_ok (map br_body L).
  Proof.
    induction L as [|x t IH]; intros o a HL; cbn [map]; [constructor|].
    destruct HL as (_ & _ & Hok & _ & HL'). constructor; [exact Hok|exact (IH _ _ HL')].
  Qed.

  (* ---- 3. query_unmapped over the bytes ---- *)
  Section Unm.
    Variable dec : list N -> bam_dec.
    Variable L : list brec.
    Variables o0 a0 : N.
    Hypothesis HL : laid f o0 a0 L.
    Hypothesis HD : skipn (N.to_nat o0) D = stream (map br_body L).
    Hypothesis Ho0 : o0 <= total_dlen f.
    Variables (ms : N) (d : nat) (nref : nat) (ixs : list refidx).
    Hypothesis Hix : fmt_index brec (bctx dec) br_a br_b ms d nref L = Some ixs.

    Notation unm := (fun x : brec => d_unm (dec (br_body x))).
    Notation unmb := (fun b : list N => d_unm (dec b)).

    (* the drained records() iterator with the flag filter, from a record boundary *)
    Lemma read_unmapped_at : forall S st o a, Rel f st o -> laid f o a S ->
      skipn (N.to_nat o) D = stream (map br_body S) -> (length S <= length L)%nat ->
      exists st', read_unmapped dec bsz f st = (st', Ok (map br_body (filter unm S))) /\
                  Rel f st' (total_dlen f).
    Proof.
      intros S st o a HR HS Hsk Hlen.
      pose proof (scanned_len f bsz Hmax L o0 a0 HD) as Hfu.
      destruct (plain_read_records (map br_body S) (scan_fuel f) st o [] HR Hsk (laid_rec_ok S o a HS))
        as (st' & Hrr & HR'); [rewrite map_length; lia|].
      cbn [app] in Hrr.
      destruct (read_records_keep_spec state (read true) bsz (unm_keep dec) _ _ _ _ _ Hrr)
        as (bs & Ebs & Hk). cbn [app] in Ebs. subst bs.
      destruct (Hk []) as [Hs Hf]. clear Hk. unfold unm_keep in Hs, Hf.
      rewrite (filter_res_total unmb) in Hs, Hf. cbn [app] in Hs.
      exists st'. split; [|exact HR']. unfold read_unmapped, unm_keep.
      destruct (read_records_keep state (read true) bsz (fun b => Some (d_unm (dec b))) (scan_fuel f) st [])
        as [q2 r2]. cbn [fst snd] in Hs, Hf. subst r2. rewrite Hf by discriminate.
      rewrite (filter_map_body unmb). reflexivity.
    Qed.

    Theorem byte_bam_unmapped_spec : forall kd st o, Rel f st o ->
      exists st', Rel f st' (total_dlen f) /\
        byte_bam_unmapped dec bsz f o0 st kd ixs
        = (st', Ok (map br_body (fmt_query_unmapped brec br_a unm kd ixs a0 L))).
    Proof.
      intros kd st o HR. unfold byte_bam_unmapped, fmt_query_unmapped.
      destruct (unmapped_start kd ixs) as [p|] eqn:Ep.
      - destruct (unmapped_start_val brec (bctx dec) br_a br_b kd ms d nref L ixs p Hix Ep)
          as (x & r & Hx & _ & Hxa).
        destruct (in_split x L Hx) as (P & S' & EL).
        pose proof HL as HL2. pose proof HD as HD2. rewrite EL in HL2, HD2.
        destruct (laid_suffix f bsz Hwf Hmax P (x :: S') o0 a0 HL2 HD2) as (ox & ax & HLS & HskS & Hlt).
        assert (Eax : ax = br_a x) by (destruct HLS as (E & _); auto). subst ax.
        assert (Hdx : denote f p = Some ox) by (rewrite <- Hxa; destruct HLS as (_ & Hd & _); exact Hd).
        destruct (seek_to_told f Hwf st o p ox HR Hdx) as (st1 & Hsk & HR1). rewrite Hsk.
        destruct (read_unmapped_at (x :: S') st1 ox (br_a x) HR1 HLS HskS) as (st' & Hru & HR').
        { rewrite EL, app_length. lia. }
        exists st'. split; [exact HR'|]. rewrite Hru. f_equal. f_equal. f_equal. f_equal.
        rewrite EL, filter_app. rewrite (filter_none (fun y => p <=? br_a y) P).
        + cbn [app]. symmetry. rewrite <- (filter_ext_in' (fun _ => true)).
          * clear. induction (x :: S') as [|z t IH]; cbn [filter]; [reflexivity|]. f_equal. exact IH.
          * intros z Hz. symmetry. apply N.leb_le. pose proof (laid_a_le f bsz Hwf Hmax _ _ _ z HLS Hz). lia.
        + intros y Hy. pose proof (Hlt y x Hy (or_introl eq_refl)). lia.
      - destruct (seek_to_told f Hwf st o 0 0 HR (denote_zero f)) as (st1 & Hsk & HR1). rewrite Hsk.
        destruct (read_exact_std_at f Hwf st1 0 o0 HR1) as (st2 & Hre & HR2); [lia|]. rewrite Hre.
        rewrite N.add_0_l in HR2.
        destruct (read_unmapped_at L st2 o0 a0 HR2 HL HD (le_n _)) as (st' & Hru & HR').
        exists st'. split; [exact HR'|]. rewrite Hru. f_equal. f_equal. f_equal. f_equal.
        symmetry. rewrite <- (filter_ext_in' (fun _ => true)).
        + clear. induction L as [|z t IH]; cbn [filter]; [reflexivity|]. f_equal. exact IH.
        + intros z Hz. symmetry. apply N.leb_le. exact (laid_a_le f bsz Hwf Hmax _ _ _ z HL Hz).
    Qed.

    (* the answer is the flag filter applied to a SUFFIX of the file (file order, nothing twice) *)
    Lemma unmapped_is_suffix : forall kd, exists P S, L = P ++ S /\
      fmt_query_unmapped brec br_a unm kd ixs a0 L = filter unm S.
    Proof.
      intros kd. unfold fmt_query_unmapped.
      destruct (unmapped_start kd ixs) as [p|] eqn:Ep.
      - destruct (unmapped_start_val brec (bctx dec) br_a br_b kd ms d nref L ixs p Hix Ep)
          as (x & r & Hx & _ & Hxa).
        destruct (in_split x L Hx) as (P & S' & EL). exists P, (x :: S'). split; [exact EL|].
        pose proof HL as HL2. pose proof HD as HD2. rewrite EL in HL2, HD2.
        destruct (laid_suffix f bsz Hwf Hmax P (x :: S') o0 a0 HL2 HD2) as (ox & ax & HLS & HskS & Hlt).
        assert (Eax : ax = br_a x) by (destruct HLS as (E & _); auto). subst ax.
        f_equal. rewrite EL, filter_app. rewrite (filter_none (fun y => p <=? br_a y) P).
        + cbn [app]. rewrite <- (filter_ext_in' (fun _ => true)).
          * clear. induction (x :: S') as [|z t IH]; cbn [filter]; [reflexivity|]. f_equal. exact IH.
          * intros z Hz. symmetry. apply N.leb_le. pose proof (laid_a_le f bsz Hwf Hmax _ _ _ z HLS Hz). lia.
        + intros y Hy. pose proof (Hlt y x Hy (or_introl eq_refl)). lia.
      - exists [], L. split; [reflexivity|]. f_equal.
        rewrite <- (filter_ext_in' (fun _ => true)).
        + clear. induction L as [|z t IH]; cbn [filter]; [reflexivity|]. f_equal. exact IH.
        + intros z Hz. symmetry. apply N.leb_le. exact (laid_a_le f bsz Hwf Hmax _ _ _ z HL Hz).
    Qed.
  End Unm.
End UFile.

(* ---- 4. the unmapped answer in terms of the record BYTES of the stream ---- *)
Definition body_unplaced (dec : list N -> bam_dec) (b : list N) : bool :=
  match dec_ctx (dec b) with CSome _ _ _ => false | _ => true end.

(* what the property asks of the unmapped query, on the bodies of the uncompressed stream *)
Definition unmapped_answer_ok (dec : list N -> bam_dec) (bodies U : list (list N)) : Prop :=
  (* nothing that is not flagged unmapped *)
  Forall (fun b => d_unm (dec b) = true) U /\
  (* file order, nothing twice: the flagged records of a suffix of the file *)
  (exists Pre Suf, bodies = Pre ++ Suf /\ U = filter (fun b => d_unm (dec b)) Suf) /\
  (* coordinate-sorted file (the records without an alignment context come last): every unplaced
     record flagged unmapped, and of the unplaced records nothing else *)
  ((exists Pl Un, bodies = Pl ++ Un /\ Forall (fun b => body_unplaced dec b = false) Pl /\
                  Forall (fun b => body_unplaced dec b = true) Un) ->
   filter (body_unplaced dec) U = filter (fun b => d_unm (dec b) && body_unplaced dec b) bodies).

Lemma unplaced_f_body dec x :
  unplaced_f brec (bctx dec) br_a br_b x = body_unplaced dec (br_body x).
Proof.
  unfold unplaced_f, to_rec, bctx, body_unplaced. destruct (dec_ctx (dec (br_body x))); reflexivity.
Qed.

Lemma filter_map_body_gen (h : list N -> bool) (g : brec -> bool) : forall X : list brec,
  (forall x, In x X -> g x = h (br_body x)) -> map br_body (filter g X) = filter h (map br_body X).
Proof.
  induction X as [|x t IH]; intros H; cbn [map filter]; [reflexivity|].
  rewrite (H x (or_introl eq_refl)). destruct (h (br_body x)); cbn [map]; rewrite IH; auto;
    intros y Hy; apply H; right; exact Hy.
Qed.

Section Ops.
  Variable dec : list N -> bam_dec.
  Variable bsz : N -> N.
  Variable f : file.
  Hypothesis Hwf : wf f.
  Hypothesis Hmax : total_csize f <= MAX_COMPRESSED_POSITION.
  Variable L : list brec.
  Variables o0 a0 : N.
  Hypothesis HL : laid f o0 a0 L.
  Hypothesis HD : skipn (N.to_nat o0) (concat (chunks f)) = stream (map br_body L).
  Hypothesis Ho0 : o0 <= total_dlen f.
  Variables (ms : N) (d : nat) (nref : nat).
  Hypothesis Hok : Forall (body_ok dec ms d) (map br_body L).
  Hypothesis Hscan : index_scan (list N) (fun b => dec_ctx (dec b)) 0 (map br_body L) = None.

  Notation ixs := (built dec ms d nref L).
  Notation unm := (fun x : brec => d_unm (dec (br_body x))).
  Notation unmb := (fun b : list N => d_unm (dec b)).

  Definition unm_answer (kd : kind) : list (list N) :=
    map br_body (fmt_query_unmapped brec br_a unm kd ixs a0 L).

  Definition op_ok (op : bop) : Prop :=
    match op with OpRegion q => query_ok ms d nref q | OpUnmapped => True end.

  Definition op_answer (bodies U : list (list N)) (op : bop) : bqres :=
    match op with
    | OpRegion q => BRead (Ok (filter (body_scan_hit dec (fst q) (snd q)) bodies))
    | OpUnmapped => BRead (Ok U)
    end.

  (* histories: region queries and unmapped queries in any order on the same reader *)
  Theorem byte_bam_ops_spec : forall kd ops st o, Forall op_ok ops -> Rel f st o ->
    byte_bam_ops dec bsz query f o0 st kd ms d nref ixs ops
    = map (op_answer (map br_body L) (unm_answer kd)) ops.
  Proof.
    intros kd. induction ops as [|op t IH]; intros st o Hq HR; [reflexivity|].
    inversion Hq as [|? ? Hq1 Hqt]; subst. cbn [byte_bam_ops map]. destruct op as [q|].
    - destruct (byte_bam_query_spec dec bsz f Hwf Hmax L o0 a0 HL HD ms d nref Hok Hscan kd q st o Hq1 HR)
        as (st' & o' & HR' & E). rewrite E. cbn [op_answer]. f_equal. exact (IH st' o' Hqt HR').
    - destruct (byte_bam_unmapped_spec f bsz Hwf Hmax dec L o0 a0 HL HD Ho0 ms d nref ixs
                  (L_index dec L ms d nref Hscan) kd st o HR) as (st' & HR' & E).
      rewrite E. cbn [op_answer]. f_equal. exact (IH st' _ Hqt HR').
  Qed.

  Theorem unm_answer_ok : forall kd, unmapped_answer_ok dec (map br_body L) (unm_answer kd).
  Proof.
    intros kd. unfold unm_answer.
    pose proof (L_index dec L ms d nref Hscan) as Hix.
    destruct (unmapped_is_suffix f bsz Hwf Hmax dec L o0 a0 HL HD Ho0 ms d nref ixs Hix kd) as (P & S & EL & Eu).
    split; [|split].
    - rewrite Eu. apply Forall_forall. intros b Hb. apply in_map_iff in Hb.
      destruct Hb as (x & Ex & Hx). apply filter_In in Hx. subst b. tauto.
    - exists (map br_body P), (map br_body S). split; [rewrite EL, map_app; reflexivity|].
      rewrite Eu. apply (filter_map_body unmb).
    - intros (Pl & Un & Eb & HPl & HUn).
      apply map_eq_app in Eb. destruct Eb as (L1 & L2 & EL12 & E1 & E2).
      assert (Hlast : unplaced_last brec (bctx dec) br_a br_b L).
      { pose proof HL as HL2. pose proof HD as HD2. rewrite EL12 in HL2, HD2.
        destruct (laid_suffix f bsz Hwf Hmax L1 L2 o0 a0 HL2 HD2) as (_ & _ & _ & _ & Hlt).
        intros x y Hx Hy Hxu Hyu. rewrite unplaced_f_body in Hxu, Hyu.
        rewrite EL12 in Hx, Hy. apply in_app_or in Hx. apply in_app_or in Hy.
        rewrite Forall_forall in HPl, HUn.
        destruct Hx as [Hx|Hx].
        2:{ exfalso. assert (Hb : In (br_body x) Un) by (rewrite <- E2; apply in_map; exact Hx).
            rewrite (HUn _ Hb) in Hxu. discriminate. }
        destruct Hy as [Hy|Hy].
        1:{ exfalso. assert (Hb : In (br_body y) Pl) by (rewrite <- E1; apply in_map; exact Hy).
            rewrite (HPl _ Hb) in Hyu. discriminate. }
        exact (Hlt x y Hx Hy). }
      assert (Hord : ordered_f brec br_a br_b a0 L).
      { apply ordered_b_f. exact (laid_ordered f Hwf Hmax L o0 a0 HL). }
      destruct (fmt_query_unmapped_spec brec (bctx dec) br_a br_b unm kd ms d nref L ixs a0 Hord Hix Hlast)
        as (_ & _ & H3).
      rewrite <- (filter_map_body_gen (body_unplaced dec) (unplaced_f brec (bctx dec) br_a br_b))
        by (intros; apply unplaced_f_body).
      rewrite H3.
      apply (filter_map_body_gen (fun b => d_unm (dec b) && body_unplaced dec b)).
      intros x _. rewrite unplaced_f_body. reflexivity.
  Qed.
End Ops.

(* the executed form (query_fast) is the modelled one (query) *)
Lemma byte_bam_ops_fast_eq dec bsz f hl kd ms d nref ixs : forall ops st,
  byte_bam_ops dec bsz query_fast f hl st kd ms d nref ixs ops
  = byte_bam_ops dec bsz query f hl st kd ms d nref ixs ops.
Proof.
  induction ops as [|op t IH]; intros st; [reflexivity|]. cbn [byte_bam_ops]. destruct op as [q|].
  - rewrite byte_bam_query_fast_eq. destruct (byte_bam_query dec bsz query f st kd ms d nref ixs q) as [st1 r].
    rewrite IH. reflexivity.
  - destruct (byte_bam_unmapped dec bsz f hl st kd ixs) as [st1 r]. rewrite IH. reflexivity.
Qed.

Theorem byte_bam_ops_session_fast_eq dec bsz f hl kd ms d nref ops :
  byte_bam_ops_session dec bsz query_fast f hl kd ms d nref ops
  = byte_bam_ops_session dec bsz query f hl kd ms d nref ops.
Proof.
  unfold byte_bam_ops_session. destruct (after_header f hl) as [st [x|e| | |]]; try reflexivity.
  destruct (index_from dec bsz f st) as [st1 [L|e|e]]; try reflexivity.
  rewrite byte_bam_ops_fast_eq. reflexivity.
Qed.

(* ---- 5. from the bytes: the indexing loop, then region and unmapped queries in any order ---- *)
Theorem byte_bam_index_ops_equals_scan :
  forall dec bsz f, wf f -> total_csize f <= MAX_COMPRESSED_POSITION ->
  forall st0 o0 bodies ms d nref,
    Rel f st0 o0 -> skipn (N.to_nat o0) (concat (chunks f)) = stream bodies ->
    Forall rec_ok bodies -> Forall (body_ok dec ms d) bodies ->
    index_scan (list N) (fun b => dec_ctx (dec b)) 0 bodies = None ->
    exists st1 L,
      index_from dec bsz f st0 = (st1, IxOk L) /\ map br_body L = bodies /\
      Rel f st1 (total_dlen f) /\
      forall kd, exists U, unmapped_answer_ok dec bodies U /\
        forall ops st o, Forall (op_ok ms d nref) ops -> Rel f st o ->
          byte_bam_ops dec bsz query f o0 st kd ms d nref (built dec ms d nref L) ops
          = map (op_answer dec bodies U) ops.
Proof.
  intros dec bsz f Hwf Hmax st0 o0 bodies ms d nref HR Hsk Hrec Hok Hscan.
  assert (Ho0 : o0 <= total_dlen f).
  { destruct HR as (s & HI & Ho). pose proof (Inv_bound _ _ _ HI). lia. }
  destruct (byte_scan_spec f bsz st0 o0 bodies Hwf Hmax HR Hsk Hrec) as (st1 & a & L & Hv & Hs & Hm & Hl & HR1).
  exists st1, L. unfold scan_from in Hs. rewrite Hv in Hs.
  destruct (index_loop_spec dec bsz _ _ _ 0 _ _ _ Hs) as (L' & EL & Hix). cbn [app] in EL. subst L'.
  split.
  - unfold index_from. rewrite Hv. rewrite (Hix []); [reflexivity|].
    rewrite index_scan_bodies, Hm. exact Hscan.
  - split; [exact Hm|]. split; [exact HR1|]. intros kd. rewrite <- Hm in *.
    exists (unm_answer dec L a ms d nref kd). split.
    + exact (unm_answer_ok dec bsz f Hwf Hmax L o0 a Hl Hsk Ho0 ms d nref Hscan kd).
    + intros ops st o Hq HRq.
      exact (byte_bam_ops_spec dec bsz f Hwf Hmax L o0 a Hl Hsk Ho0 ms d nref Hok Hscan kd ops st o Hq HRq).
Qed.
