From Coq Require Import List Arith NArith Bool Lia.
From Coq Require Import ZifyBool ZifyNat ZifyN.
From NV Require Import Base.LE Index.Bins Index.Chunks Index.Indexer Index.CsiLoffset
  Index.Layout Index.LayoutProofs Index.CsiLayout.
Import ListNotations.
Open Scope N_scope.

Lemma p_i32_nonneg_app n rest : n < 2147483648 -> p_i32_nonneg (le32 n ++ rest) = Some (n, rest).
Proof.
  intros H. unfold p_i32_nonneg. rewrite p_le32_app by lia.
  replace (n <? 2147483648) with true by lia. reflexivity.
Qed.

Lemma p_col_app i rest : i + 1 <= i32_max -> p_col (le32 (i + 1) ++ rest) = Some (i, rest).
Proof.
  unfold i32_max. intros H. unfold p_col. rewrite p_le32_app by lia.
  replace ((1 <=? i + 1) && (i + 1 <? 2147483648)) with true by lia.
  replace (i + 1 - 1) with i by lia. reflexivity.
Qed.

Lemma p_format_app f rest : p_format (le32 (format_code f) ++ rest) = Some (f, rest).
Proof.
  unfold p_format. destruct f as [[|]| |]; cbn [format_code];
    (rewrite p_le32_app by lia); reflexivity.
Qed.

Lemma p_repeat_concat_map {A B} (p : parser B) (w : A -> list N) (f : A -> B) (xs : list A) rest :
  (forall x r, In x xs -> p (w x ++ r) = Some (f x, r)) ->
  p_repeat (length xs) p (concat (map w xs) ++ rest) = Some (map f xs, rest).
Proof.
  induction xs as [|x xs IH]; intros H; cbn [length p_repeat map concat app]; [reflexivity|].
  rewrite <- app_assoc. rewrite (H x _ (or_introl eq_refl)).
  rewrite IH; [reflexivity|]. intros y r Hy. apply H. right. exact Hy.
Qed.

(* ---- names ---- *)
Lemma split_nul_name n : forall cur rest,
  has_nul n = false ->
  split_nul (n ++ 0 :: rest) cur = option_map (cons (rev cur ++ n)) (split_nul rest []).
Proof.
  induction n as [|b n IH]; intros cur rest Hn.
  - cbn [app split_nul]. rewrite N.eqb_refl. rewrite app_nil_r. reflexivity.
  - unfold has_nul in Hn. cbn [existsb] in Hn. apply orb_false_elim in Hn. destruct Hn as [Hb Hn].
    cbn [app split_nul]. replace (b =? 0) with false by lia.
    rewrite IH by exact Hn. cbn [rev]. rewrite <- app_assoc. reflexivity.
Qed.

Lemma split_nul_names names :
  existsb has_nul names = false ->
  split_nul (concat (map w_name names)) [] = Some names.
Proof.
  induction names as [|n names IH]; intros H; [reflexivity|].
  cbn [existsb] in H. apply orb_false_elim in H. destruct H as [Hn Hr].
  cbn [map concat]. unfold w_name at 1. rewrite <- app_assoc. cbn [app].
  rewrite split_nul_name by exact Hn. rewrite IH by exact Hr. reflexivity.
Qed.

Lemma names_len_length names : N.of_nat (length (concat (map w_name names))) = names_len names.
Proof.
  induction names as [|n names IH]; [reflexivity|].
  cbn [map concat names_len fold_right]. rewrite app_length. unfold w_name at 1.
  rewrite app_length. cbn [length]. fold (names_len names). lia.
Qed.

Lemma nodupb_true l : NoDup l -> nodupb l = true.
Proof.
  induction l as [|x t IH]; intros H; [reflexivity|].
  pose proof (NoDup_cons_iff x t) as Hc. apply Hc in H. destruct H as [Hx Ht].
  cbn [nodupb]. destruct (in_dec bytes_eq_dec x t) as [Hin|_]; [contradiction|]. apply IH. exact Ht.
Qed.

Lemma p_names_w names rest :
  names_status names = SOk -> NoDup names ->
  p_names (w_names names ++ rest) = Some (names, rest).
Proof.
  intros Hs Hnd. unfold names_status in Hs.
  destruct (i32_max <? names_len names) eqn:Hl; [discriminate|].
  destruct (existsb has_nul names) eqn:Hz; [discriminate|].
  unfold i32_max in Hl. unfold p_names, w_names. rewrite <- app_assoc.
  rewrite p_i32_nonneg_app by lia.
  rewrite <- names_len_length. rewrite Nat2N.id.
  rewrite firstn_app, Nat.sub_diag, firstn_O, app_nil_r, firstn_all.
  rewrite split_nul_names by exact Hz. rewrite nodupb_true by exact Hnd.
  replace (length (concat (map w_name names) ++ rest) <? length (concat (map w_name names)))%nat
    with false by (rewrite app_length; lia).
  rewrite skipn_app, Nat.sub_diag, skipn_O, skipn_all. reflexivity.
Qed.

(* ---- header ---- *)
Definition header_ok (h : header) : Prop :=
  header_status h = SOk /\ h_meta h < 256 /\ NoDup (h_names h).

Lemma col_status_ok i : col_status i = SOk -> i + 1 <= i32_max.
Proof.
  unfold col_status. destruct (i =? usize_max); [discriminate|].
  destruct (i32_max <? i + 1) eqn:E; [discriminate|]. lia.
Qed.

Lemma sseq_ok a b : sseq a b = SOk -> a = SOk /\ b = SOk.
Proof. destruct a; cbn [sseq]; intros H; try discriminate. auto. Qed.

Theorem p_header_w h rest : header_ok h -> p_header (w_header h ++ rest) = Some (norm_header h, rest).
Proof.
  intros (Hs & Hm & Hnd). unfold header_status in Hs.
  apply sseq_ok in Hs. destruct Hs as [Hseq Hs].
  apply sseq_ok in Hs. destruct Hs as [Hbeg Hs].
  apply sseq_ok in Hs. destruct Hs as [Hend Hs].
  apply sseq_ok in Hs. destruct Hs as [Hskip Hnames].
  apply col_status_ok in Hseq. apply col_status_ok in Hbeg.
  destruct (i32_max <? h_skip h) eqn:Hsk; [discriminate|]. unfold i32_max in *.
  unfold p_header, w_header. repeat rewrite <- app_assoc.
  rewrite p_format_app. rewrite p_col_app by (unfold i32_max; lia).
  rewrite p_col_app by (unfold i32_max; lia).
  unfold p_end, end_status in *. destruct h as [f sq bg en mt sk nm].
  cbn [h_format h_seq h_beg h_end h_meta h_skip h_names] in *.
  destruct (is_samvcf f) eqn:Hf.
  - destruct en as [e|]; [discriminate|].
    rewrite p_le32_app by lia. cbn [N.eqb].
    rewrite p_le32_app by lia. replace (256 <=? mt) with false by lia.
    rewrite p_i32_nonneg_app by lia. rewrite p_names_w by assumption.
    reflexivity.
  - apply col_status_ok in Hend. unfold end_col in *. cbn [h_end h_beg] in *.
    rewrite p_col_app by (unfold i32_max; exact Hend).
    unfold norm_header. cbn [h_format h_seq h_beg h_end h_meta h_skip h_names].
    destruct en as [e|].
    + destruct (e =? bg) eqn:He.
      * rewrite p_le32_app by lia. replace (256 <=? mt) with false by lia.
        rewrite p_i32_nonneg_app by lia. rewrite p_names_w by assumption. reflexivity.
      * rewrite p_le32_app by lia. replace (256 <=? mt) with false by lia.
        rewrite p_i32_nonneg_app by lia. rewrite p_names_w by assumption. reflexivity.
    + rewrite N.eqb_refl.
      rewrite p_le32_app by lia. replace (256 <=? mt) with false by lia.
      rewrite p_i32_nonneg_app by lia. rewrite p_names_w by assumption. reflexivity.
Qed.

(* the only headers that do not read back equal: Some end column equal to the start column *)
Lemma norm_header_id h : h_end h <> Some (h_beg h) -> norm_header h = h.
Proof.
  intros H. unfold norm_header. destruct (h_end h) as [e|] eqn:E; [|reflexivity].
  destruct (e =? h_beg h) eqn:Eb; [|reflexivity]. exfalso. apply H. f_equal. lia.
Qed.

Lemma norm_header_idem h : norm_header (norm_header h) = norm_header h.
Proof.
  unfold norm_header. destruct (h_end h) as [e|] eqn:E.
  - destruct (e =? h_beg h) eqn:Eb; cbn [h_end]; [reflexivity|]. rewrite E, Eb. reflexivity.
  - rewrite E. reflexivity.
Qed.

Lemma w_header_length_pos h : (28 <= length (w_header h))%nat.
Proof.
  unfold w_header, w_names. repeat rewrite app_length. repeat rewrite le32_length. lia.
Qed.

Lemma p_aux_w h rest :
  match h with Some hd => header_ok hd /\ N.of_nat (length (w_header hd)) < 2147483648 | None => True end ->
  p_aux (w_aux h ++ rest) = Some (option_map norm_header h, rest).
Proof.
  intros H. unfold p_aux, w_aux. destruct h as [hd|].
  - destruct H as [Hok Hlen]. rewrite <- app_assoc. rewrite p_i32_nonneg_app by exact Hlen.
    pose proof (w_header_length_pos hd) as Hp.
    replace (0 <? N.of_nat (length (w_header hd))) with true by lia.
    rewrite Nat2N.id. rewrite firstn_app, Nat.sub_diag, firstn_O, app_nil_r, firstn_all.
    rewrite <- (app_nil_r (w_header hd)) at 1. rewrite p_header_w by exact Hok.
    rewrite skipn_app, Nat.sub_diag, skipn_O, skipn_all. reflexivity.
  - rewrite p_i32_nonneg_app by lia. reflexivity.
Qed.

(* ---- CSI bins ---- *)
Lemma chain_min_u64 fuel : forall lm id cur,
  u64 cur -> Forall u64 (map snd lm) -> u64 (chain_min fuel lm id cur).
Proof.
  induction fuel as [|f IH]; intros lm id cur Hc Hl; cbn [chain_min]; [exact Hc|].
  destruct (parent_id id) as [p|]; [|exact Hc].
  destruct (loff_get lm p) as [v|] eqn:Hg; [|exact Hc].
  apply IH; [|exact Hl]. destruct (v <? cur); [|exact Hc].
  clear IH Hc. induction lm as [|[k w] lm IHl]; [discriminate|].
  cbn [loff_get] in Hg. cbn [map snd] in Hl.
  pose proof (Forall_inv Hl) as H1. pose proof (Forall_inv_tail Hl) as H2.
  destruct (k =? p); [injection Hg as Hg; subst; exact H1|]. apply IHl; assumption.
Qed.

Lemma stored_loffset_u64 lm id : Forall u64 (map snd lm) -> u64 (stored_loffset lm id).
Proof.
  intros Hl. unfold stored_loffset. apply chain_min_u64; [|exact Hl].
  destruct (loff_get lm id) as [v|] eqn:Hg; [|unfold u64; lia].
  induction lm as [|[k w] lm IHl]; [discriminate|].
  cbn [loff_get] in Hg. cbn [map snd] in Hl.
  pose proof (Forall_inv Hl) as H1. pose proof (Forall_inv_tail Hl) as H2.
  destruct (k =? id); [injection Hg as Hg; subst; exact H1|]. apply IHl; assumption.
Qed.

Definition cbin_ok (mid : N) (b : N * list chunk) : Prop :=
  u32 (fst b) /\ fst b <> mid /\ N.of_nat (length (snd b)) < 2147483648 /\ Forall chunk_ok (snd b).

Definition stored (lm : loffmap) (b : N * list chunk) : csi_bin := (fst b, stored_loffset lm (fst b), snd b).

Lemma p_csi_bins_loop_w mid lm : forall (bins : binmap) (acc : list csi_bin) m rest,
  u32 mid -> Forall u64 (map snd lm) ->
  Forall (cbin_ok mid) bins -> NoDup (map fst bins) ->
  (forall b, In b bins -> existsb (fun a => fst (fst a) =? fst b) acc = false) ->
  match m with Some md => meta_ok md | None => True end ->
  p_csi_bins_loop (length bins + match m with Some _ => 1 | None => 0 end) mid acc None
     (concat (map (w_csi_bin lm) bins)
      ++ match m with Some md => le32 mid ++ le64 0 ++ w_metadata_body md | None => [] end ++ rest)
  = Some ((rev acc ++ map (stored lm) bins, m), rest).
Proof.
  induction bins as [|b bins IH]; intros acc m rest Hmid Hlm Hok Hnd Hacc Hm.
  - cbn [length map concat app Nat.add]. destruct m as [md|].
    + cbn [p_csi_bins_loop]. repeat rewrite <- app_assoc. rewrite p_le32_app by exact Hmid.
      rewrite p_le64_app by lia. rewrite N.eqb_refl.
      rewrite p_metadata_body_w by exact Hm. cbn [p_csi_bins_loop]. rewrite app_nil_r. reflexivity.
    + cbn [p_csi_bins_loop app]. rewrite app_nil_r. reflexivity.
  - pose proof (Forall_inv Hok) as Hb. pose proof (Forall_inv_tail Hok) as Hok'.
    destruct Hb as (Hb1 & Hb2 & Hb3 & Hb4).
    cbn [map] in Hnd. pose proof (NoDup_cons_iff (fst b) (map fst bins)) as Hnc.
    apply Hnc in Hnd. destruct Hnd as [Hnotin Hnd'].
    cbn [length map concat Nat.add p_csi_bins_loop]. unfold w_csi_bin at 1.
    repeat rewrite <- app_assoc. rewrite p_le32_app by exact Hb1.
    rewrite p_le64_app by (apply stored_loffset_u64; exact Hlm).
    replace (fst b =? mid) with false by lia.
    rewrite p_chunks_w by assumption.
    rewrite (Hacc b (or_introl eq_refl)).
    rewrite IH; [|exact Hmid|exact Hlm|exact Hok'|exact Hnd'| |exact Hm].
    + cbn [rev]. rewrite <- app_assoc. cbn [app]. reflexivity.
    + intros b' Hb'. cbn [existsb fst]. rewrite (Hacc b' (or_intror Hb')).
      rewrite orb_false_r. destruct (fst b =? fst b') eqn:E; [|reflexivity].
      exfalso. apply Hnotin. apply in_map_iff. exists b'. split; [lia|exact Hb'].
Qed.

Definition cref_ok (d : nat) (r : csi_ref) : Prop :=
  Forall (cbin_ok (metadata_id d)) (cr_bins r) /\ NoDup (map fst (cr_bins r)) /\
  N.of_nat (length (cr_bins r)) + 1 < 2147483648 /\
  Forall u64 (map snd (cr_loffs r)) /\
  match cr_meta r with Some md => meta_ok md | None => True end.

Lemma map_stored_bins lm bins : map (fun b : csi_bin => (fst (fst b), snd b)) (map (stored lm) bins) = bins.
Proof.
  induction bins as [|[id cs] bins IH]; [reflexivity|]. cbn [map stored fst snd]. rewrite IH. reflexivity.
Qed.
Lemma map_stored_loffs lm bins :
  map (fun b : csi_bin => (fst (fst b), snd (fst b))) (map (stored lm) bins) = reread_loffs bins lm.
Proof.
  unfold reread_loffs. induction bins as [|[id cs] bins IH]; [reflexivity|].
  cbn [map stored fst snd]. rewrite IH. reflexivity.
Qed.

Lemma p_csi_ref_w d r rest : u32 (metadata_id d) -> cref_ok d r ->
  p_csi_ref d (w_csi_ref d r ++ rest) = Some (reread_ref r, rest).
Proof.
  intros Hmid (Hb & Hnd & Hlen & Hlm & Hm). unfold p_csi_ref, w_csi_ref.
  repeat rewrite <- app_assoc.
  rewrite p_i32_nonneg_app by (destruct (cr_meta r); lia).
  replace (N.to_nat (N.of_nat (length (cr_bins r)) + match cr_meta r with Some _ => 1 | None => 0 end))
    with (length (cr_bins r) + match cr_meta r with Some _ => 1 | None => 0 end)%nat by (destruct (cr_meta r); lia).
  pose proof (p_csi_bins_loop_w (metadata_id d) (cr_loffs r) (cr_bins r) [] (cr_meta r) rest Hmid Hlm Hb Hnd
             (fun _ _ => eq_refl) Hm) as HB.
  unfold w_csi_meta.
  replace (match cr_meta r with
           | Some md => le32 (metadata_id d) ++ le64 0 ++ w_metadata_body md
           | None => []
           end ++ rest)
    with (match cr_meta r with
          | Some md => le32 (metadata_id d) ++ le64 0 ++ w_metadata_body md ++ rest
          | None => rest
          end) in HB by (destruct (cr_meta r); repeat rewrite <- app_assoc; reflexivity).
  replace (match cr_meta r with
           | Some md => le32 (metadata_id d) ++ le64 0 ++ w_metadata_body md
           | None => []
           end ++ rest)
    with (match cr_meta r with
          | Some md => le32 (metadata_id d) ++ le64 0 ++ w_metadata_body md ++ rest
          | None => rest
          end) by (destruct (cr_meta r); repeat rewrite <- app_assoc; reflexivity).
  rewrite HB. clear HB. cbn [rev app fst snd].
  rewrite map_stored_bins, map_stored_loffs. reflexivity.
Qed.

Lemma p_unplaced_w u : match u with Some n => u64 n | None => True end -> p_unplaced (w_unplaced u) = u.
Proof.
  intros H. unfold p_unplaced, w_unplaced. destruct u as [n|]; [|reflexivity].
  rewrite <- (app_nil_r (le64 n)). rewrite p_le64_app by exact H. reflexivity.
Qed.

Definition csi_ok (i : csi_index) : Prop :=
  1 <= ci_ms i /\ (ci_depth i <= 10)%nat /\ ci_ms i + 3 * N.of_nat (ci_depth i) < 64 /\
  match ci_header i with
  | Some hd => header_ok hd /\ N.of_nat (length (w_header hd)) < 2147483648
  | None => True
  end /\
  N.of_nat (length (ci_refs i)) < 2147483648 /\ Forall (cref_ok (ci_depth i)) (ci_refs i) /\
  match ci_unplaced i with Some n => u64 n | None => True end.

Lemma metadata_id_u32 d : (d <= 10)%nat -> u32 (metadata_id d).
Proof.
  intros H. unfold u32, metadata_id, max_id.
  assert (Hd : N.of_nat (S d) <= 11) by lia.
  pose proof (N.pow_le_mono_r 8 (N.of_nat (S d)) 11 ltac:(lia) Hd) as Hp.
  change (8 ^ 11) with 8589934592 in Hp.
  assert (8 ^ N.of_nat (S d) / 7 <= 8589934592 / 7) by (apply N.div_le_mono; lia).
  change (8589934592 / 7) with 1227133513 in H0. lia.
Qed.

Lemma cref_status_ok d r : (d <= 10)%nat -> cref_ok d r -> ref_status d r = SOk.
Proof.
  intros Hd (Hb & _). unfold ref_status.
  replace (10 <? d)%nat with false by lia.
  assert (Hf : fold_right (fun b s => sseq (bin_status b) s) SOk (cr_bins r) = SOk).
  { induction Hb as [|b bins Hb1 Hb IH]; [reflexivity|]. cbn [fold_right].
    destruct Hb1 as (Hu & _). unfold bin_status, u32 in *.
    replace (4294967296 <=? fst b) with false by lia. cbn [sseq]. exact IH. }
  rewrite Hf. destruct (cr_meta r); reflexivity.
Qed.

Lemma csi_status_ok i : csi_ok i -> csi_status i = SOk.
Proof.
  intros (_ & Hd & _ & Hh & _ & Hr & _). unfold csi_status.
  assert (Hs : match ci_header i with Some h => header_status h | None => SOk end = SOk).
  { destruct (ci_header i) as [h|]; [|reflexivity]. destruct Hh as [[Hs _] _]. exact Hs. }
  rewrite Hs. cbn [sseq]. induction Hr as [|r rs Hr1 Hr IH]; [reflexivity|].
  cbn [fold_right]. rewrite cref_status_ok by assumption. exact IH.
Qed.

(* CSI: write then read gives the index with its header normalised and its loffsets replaced by
   the stored ancestor-chain minima; geometry, aux header, bins, chunks, metadata pseudo-bins and
   the unplaced count are unchanged *)
Theorem csi_layout_roundtrip i : csi_ok i ->
  w_csi i = WOk (w_csi_bytes i) /\ read_csi (w_csi_bytes i) = Some (reread_csi i).
Proof.
  intros Hok. split.
  - unfold w_csi. rewrite csi_status_ok by exact Hok. reflexivity.
  - destruct Hok as (Hms & Hd & Hg & Hh & Hn & Hr & Hu).
    unfold read_csi, w_csi_bytes, csi_magic. cbn [app].
    assert (Hms2 : ci_ms i < 64) by lia.
    rewrite p_le32_app by lia. replace (256 <=? ci_ms i) with false by lia.
    rewrite p_le32_app by lia. replace (256 <=? N.of_nat (ci_depth i)) with false by lia.
    unfold scheme_ok.
    replace (negb (ci_ms i =? 0) && (N.of_nat (ci_depth i) <=? 10)
             && (ci_ms i + 3 * N.of_nat (ci_depth i) <? 64)) with true by lia.
    cbn [negb]. rewrite p_aux_w by exact Hh.
    rewrite p_i32_nonneg_app by exact Hn. rewrite !Nat2N.id.
    rewrite (p_repeat_concat_map (p_csi_ref (ci_depth i)) (w_csi_ref (ci_depth i)) reread_ref).
    + rewrite p_unplaced_w by exact Hu. reflexivity.
    + intros x r Hx. apply p_csi_ref_w; [apply metadata_id_u32; exact Hd|].
      rewrite Forall_forall in Hr. auto.
Qed.

(* ---------- tabix ---------- *)
Definition tref_ok (r : bai_ref) : Prop :=
  ref_ok r /\ N.of_nat (length (br_bins r)) + 1 < 2147483648 /\
  N.of_nat (length (br_intervals r)) < 2147483648.

Lemma p_tbi_ref_w r rest : tref_ok r -> p_tbi_ref (w_bai_ref r ++ rest) = Some (r, rest).
Proof.
  intros ((Hb & Hnd & _ & Hm & _ & Hiv) & Hlen & Hil). unfold p_tbi_ref, w_bai_ref, w_bins.
  repeat rewrite <- app_assoc.
  rewrite p_i32_nonneg_app by (destruct (br_meta r); lia).
  replace (N.to_nat (N.of_nat (length (br_bins r)) + match br_meta r with Some _ => 1 | None => 0 end))
    with (length (br_bins r) + match br_meta r with Some _ => 1 | None => 0 end)%nat by (destruct (br_meta r); lia).
  pose proof (p_bins_loop_w (br_bins r) [] (br_meta r) (w_intervals (br_intervals r) ++ rest) Hb Hnd
             (fun _ _ => eq_refl) Hm) as HB.
  unfold meta_tail in HB. rewrite HB. clear HB.
  cbn [rev app fst snd]. unfold w_intervals. rewrite <- app_assoc.
  rewrite p_i32_nonneg_app by exact Hil. rewrite Nat2N.id.
  rewrite (p_repeat_concat (p_le 8) le64).
  - destruct r; reflexivity.
  - intros x r0 Hx. apply p_le64_app. rewrite Forall_forall in Hiv. apply Hiv. exact Hx.
Qed.

Definition tbi_ok (i : tbi_index) : Prop :=
  match ti_header i with Some h => header_ok h | None => False end /\
  N.of_nat (length (ti_refs i)) < 2147483648 /\ Forall tref_ok (ti_refs i) /\
  match ti_unplaced i with Some n => u64 n | None => True end.

Lemma tbi_status_ok i : tbi_ok i -> tbi_status i = SOk.
Proof.
  intros (Hh & _ & Hr & _). unfold tbi_status. destruct (ti_header i) as [h|]; [|contradiction].
  destruct Hh as (Hs & _). rewrite Hs. cbn [sseq].
  induction Hr as [|r rs Hr1 Hr IH]; [reflexivity|]. cbn [fold_right].
  assert (Hf : tbi_ref_status r = SOk).
  { destruct Hr1 as ((Hb & _) & _). unfold tbi_ref_status.
    induction Hb as [|b bins Hb1 Hb IHb]; [reflexivity|]. cbn [fold_right].
    destruct Hb1 as (Hu & _). unfold tbi_bin_status, u32 in *.
    replace (4294967296 <=? fst b) with false by lia. cbn [sseq]. exact IHb. }
  rewrite Hf. cbn [sseq]. exact IH.
Qed.

(* tabix: write then read gives the index back, with the header normalised (an end column
   equal to the start column reads as None); sequence names are any NUL-free byte strings *)
Theorem tabix_roundtrip i : tbi_ok i ->
  w_tbi i = WOk (w_tbi_bytes i) /\ read_tbi (w_tbi_bytes i) = Some (reread_tbi i).
Proof.
  intros Hok. split.
  - unfold w_tbi. rewrite tbi_status_ok by exact Hok. reflexivity.
  - destruct Hok as (Hh & Hn & Hr & Hu). unfold read_tbi, w_tbi_bytes, tbi_magic, reread_tbi.
    destruct (ti_header i) as [h|]; [|contradiction]. cbn [app option_map].
    rewrite p_i32_nonneg_app by exact Hn. rewrite p_header_w by exact Hh.
    rewrite Nat2N.id. rewrite (p_repeat_concat p_tbi_ref w_bai_ref).
    + rewrite p_unplaced_w by exact Hu. reflexivity.
    + intros x r Hx. apply p_tbi_ref_w. rewrite Forall_forall in Hr. auto.
Qed.

Corollary tabix_roundtrip_eq i : tbi_ok i ->
  (forall h, ti_header i = Some h -> h_end h <> Some (h_beg h)) ->
  read_tbi (w_tbi_bytes i) = Some i.
Proof.
  intros Hok Hne. destruct (tabix_roundtrip i Hok) as [_ Hr]. rewrite Hr. unfold reread_tbi.
  destruct i as [[h|] refs u]; cbn [ti_header ti_refs ti_unplaced option_map] in *; [|reflexivity].
  rewrite norm_header_id by (apply Hne; reflexivity). reflexivity.
Qed.

(* Some x with x = start  is equivalent to  None: both write the same bytes *)
Lemma w_header_norm h : w_header (norm_header h) = w_header h.
Proof.
  unfold norm_header. destruct (h_end h) as [e|] eqn:E; [|reflexivity].
  destruct (e =? h_beg h) eqn:Eb; [|reflexivity].
  unfold w_header, end_col. cbn [h_format h_seq h_beg h_end h_meta h_skip h_names]. rewrite E.
  replace e with (h_beg h) by lia. reflexivity.
Qed.

(* ---------- CSI: file round trip composed with the query invariance ---------- *)
From NV Require Import Index.CsiLoffsetProofs.

Definition cref_refidx (r : csi_ref) : refidx := mkref (cr_bins r) [] (cr_loffs r).
Definition empty_cref : csi_ref := mkcref [] [] None.

Lemma query_binned_lin ms d b l1 l2 lo qs qe :
  query Binned ms d (mkref b l1 lo) qs qe = query Binned ms d (mkref b l2 lo) qs qe.
Proof. reflexivity. Qed.

(* any structurally valid CSI index whose loffset map has the keys of its bin map, all inside
   the binning scheme: after write + read every region query has the same answer *)
Theorem csi_file_roundtrip_queries_any i :
  csi_ok i ->
  (forall r, In r (ci_refs i) ->
     NoDup (map fst (cr_loffs r)) /\
     (forall id, In id (map fst (cr_bins r)) <-> In id (map fst (cr_loffs r))) /\
     (forall id, In id (map fst (cr_loffs r)) -> in_scheme (ci_depth i) id)) ->
  exists i',
    w_csi i = WOk (w_csi_bytes i) /\ read_csi (w_csi_bytes i) = Some i' /\
    ci_ms i' = ci_ms i /\ ci_depth i' = ci_depth i /\
    ci_header i' = option_map norm_header (ci_header i) /\
    ci_unplaced i' = ci_unplaced i /\ length (ci_refs i') = length (ci_refs i) /\
    forall k, (k < length (ci_refs i))%nat ->
      let r := nth k (ci_refs i) empty_cref in
      let r' := nth k (ci_refs i') empty_cref in
      cr_bins r' = cr_bins r /\ cr_meta r' = cr_meta r /\
      forall qs qe,
        query Binned (ci_ms i) (ci_depth i) (cref_refidx r') qs qe
        = query Binned (ci_ms i) (ci_depth i) (cref_refidx r) qs qe.
Proof.
  intros Hok Hkeys. destruct (csi_layout_roundtrip i Hok) as [Hw Hr].
  exists (reread_csi i). repeat split; try assumption; try reflexivity.
  - unfold reread_csi. cbn [ci_refs]. apply map_length.
  - unfold reread_csi. cbn [ci_refs]. change empty_cref with (reread_ref empty_cref) at 1.
    rewrite map_nth. reflexivity.
  - unfold reread_csi. cbn [ci_refs]. change empty_cref with (reread_ref empty_cref) at 1.
    rewrite map_nth. reflexivity.
  - intros qs qe. unfold reread_csi. cbn [ci_refs].
    change empty_cref with (reread_ref empty_cref) at 1. rewrite map_nth.
    set (r := nth k (ci_refs i) empty_cref).
    assert (Hin : In r (ci_refs i)) by (apply nth_In; exact H).
    destruct (Hkeys r Hin) as (Hnd & Hk & Hs).
    destruct Hok as (_ & _ & Hg & _).
    unfold cref_refidx, reread_ref. cbn [cr_bins cr_loffs].
    unfold query. cbn [min_offset loffs]. unfold query_chunks. cbn [bins].
    rewrite (csi_reread_min_offset (ci_ms i) (ci_depth i) (cr_bins r) (cr_loffs r) qs Hg Hnd Hk Hs).
    reflexivity.
Qed.

(* the CSI index the Indexer builds for a file (reference ids 0..nref-1, any aux header, any
   metadata pseudo-bins, any unplaced count), written to its byte layout and read back: same
   geometry, bins, metadata, unplaced count; normalised header; every region query on every
   reference has the same answer as on the index in memory *)
Lemma nth_map_seq {A} (f : nat -> A) n k dflt : (k < n)%nat -> nth k (map f (seq 0 n)) dflt = f k.
Proof.
  intros H. rewrite (nth_indep _ dflt (f O)) by (rewrite map_length, seq_length; exact H).
  rewrite map_nth. rewrite seq_nth by exact H. reflexivity.
Qed.

Definition built_csi (ms : N) (d : nat) (file : list rec) (hdr : option header)
    (meta : nat -> option metadata) (nref : nat) (unplaced : option N) : csi_index :=
  mkcsi ms d hdr
    (map (fun k => let ix := build_ref ms d (N.of_nat k) file in mkcref (bins ix) (loffs ix) (meta k))
         (seq 0 nref)) unplaced.

Theorem csi_file_roundtrip_queries ms d file hdr meta nref unplaced :
  let i := built_csi ms d file hdr meta nref unplaced in
  csi_ok i -> spans_ok ms d file ->
  exists i',
    w_csi i = WOk (w_csi_bytes i) /\ read_csi (w_csi_bytes i) = Some i' /\
    ci_ms i' = ms /\ ci_depth i' = d /\ ci_header i' = option_map norm_header hdr /\
    ci_unplaced i' = unplaced /\ length (ci_refs i') = nref /\
    forall k, (k < nref)%nat ->
      let ix := build_ref ms d (N.of_nat k) file in
      let r' := nth k (ci_refs i') empty_cref in
      cr_bins r' = bins ix /\ cr_meta r' = meta k /\
      forall qs qe, query Binned ms d (cref_refidx r') qs qe = query Binned ms d ix qs qe.
Proof.
  intros i Hok Hsp.
  assert (Hkeys : forall r, In r (ci_refs i) ->
     NoDup (map fst (cr_loffs r)) /\
     (forall id, In id (map fst (cr_bins r)) <-> In id (map fst (cr_loffs r))) /\
     (forall id, In id (map fst (cr_loffs r)) -> in_scheme (ci_depth i) id)).
  { intros r Hr. unfold i, built_csi in Hr. cbn [ci_refs] in Hr. apply in_map_iff in Hr.
    destruct Hr as (k & Hr & _). subst r. cbn [cr_bins cr_loffs ci_depth].
    destruct (built_keysinv ms d (N.of_nat k) file Hsp) as (Hk & Hnd & Hs).
    split; [exact Hnd|]. split; [|exact Hs]. intros id. rewrite Hk. tauto. }
  destruct (csi_file_roundtrip_queries_any i Hok Hkeys)
    as (i' & Hw & Hr & Hms & Hd & Hh & Hu & Hl & Hq).
  assert (Hlen : length (ci_refs i) = nref).
  { unfold i, built_csi. cbn [ci_refs]. rewrite map_length, seq_length. reflexivity. }
  exists i'. repeat split; try assumption.
  - rewrite Hl. exact Hlen.
  - destruct (Hq k ltac:(rewrite Hlen; exact H)) as (Hb & _ & _). rewrite Hb.
    unfold i, built_csi. cbn [ci_refs].
    rewrite nth_map_seq by exact H. reflexivity.
  - destruct (Hq k ltac:(rewrite Hlen; exact H)) as (_ & Hm & _). rewrite Hm.
    unfold i, built_csi. cbn [ci_refs].
    rewrite nth_map_seq by exact H. reflexivity.
  - intros qs qe. destruct (Hq k ltac:(rewrite Hlen; exact H)) as (_ & _ & Hqq).
    unfold i in Hqq at 1 2 4 5. cbn [built_csi ci_ms ci_depth] in Hqq. rewrite Hqq.
    unfold i, built_csi. cbn [ci_refs].
    rewrite nth_map_seq by exact H.
    unfold cref_refidx. cbn [cr_bins cr_loffs].
    destruct (build_ref ms d (N.of_nat k) file) as [b l lo]. reflexivity.
Qed.
