(* Soundness of the (fixed) BinnedIndex::min_offset: it never exceeds the start offset of a
   record that ends at or after the query start.  Hence CSI queries equal the scan too. *)
From Coq Require Import List Arith NArith Bool Lia.
From Coq Require Import ZifyBool ZifyNat ZifyN.
From NV Require Import Index.Bins Index.BinsProofs Index.Chunks Index.ChunksProofs Index.Indexer Index.QueryProofs.
Import ListNotations.
Open Scope N_scope.
Arguments N.add : simpl never. Arguments N.sub : simpl never. Arguments N.mul : simpl never.
Arguments N.shiftr : simpl never. Arguments N.shiftl : simpl never. Arguments N.pow : simpl never.
Arguments N.div : simpl never.

Lemma list_min_le : forall l v, In v l -> exists m, list_min l = Some m /\ m <= v.
Proof.
  induction l as [|x rest IH]; intros v Hv; [destruct Hv|].
  cbn [list_min]. destruct Hv as [Hv|Hv].
  - subst x. destruct (list_min rest) as [m|]; eexists; (split; [reflexivity|]); try lia.
    destruct (v <? m) eqn:E; lia.
  - destruct (IH v Hv) as (m & Hm & Hle). rewrite Hm. eexists. split; [reflexivity|].
    destruct (x <? m) eqn:E; lia.
Qed.

Lemma loff_get_update_same : forall lm id a,
  exists v, loff_get (loff_update lm id a) id = Some v /\ v <= a /\
            (forall v0, loff_get lm id = Some v0 -> v <= v0).
Proof.
  induction lm as [|[k v] rest IH]; intros id a; cbn [loff_update loff_get].
  - rewrite N.eqb_refl. exists a. split; [reflexivity|]. split; [lia|]. discriminate.
  - destruct (k =? id) eqn:E; cbn [loff_get]; rewrite E.
    + eexists. split; [reflexivity|]. split.
      * destruct (a <? v) eqn:E2; lia.
      * intros v0 H. injection H as H. subst v0. destruct (a <? v) eqn:E2; lia.
    + apply IH.
Qed.

Lemma loff_get_update_other : forall lm id id' a, id' <> id ->
  loff_get (loff_update lm id a) id' = loff_get lm id'.
Proof.
  induction lm as [|[k v] rest IH]; intros id id' a Hne; cbn [loff_update loff_get].
  - replace (id =? id') with false by lia. reflexivity.
  - destruct (k =? id) eqn:E; cbn [loff_get].
    + replace (k =? id') with false by lia. reflexivity.
    + destruct (k =? id'); [reflexivity|apply IH; exact Hne].
Qed.

Lemma loff_get_in : forall lm id v, loff_get lm id = Some v -> In (id, v) lm.
Proof.
  induction lm as [|[k v0] rest IH]; intros id v H; cbn [loff_get] in H; [discriminate|].
  destruct (k =? id) eqn:E.
  - injection H as H. subst v0. left. f_equal. lia.
  - right. apply IH. exact H.
Qed.

(* ---- bin_end names the end of the bin's interval ---- *)
Lemma pow8_succ l : 8 ^ N.of_nat (S l) = 8 ^ N.of_nat l * 8.
Proof. rewrite Nat2N.inj_succ, N.pow_succ_r'. lia. Qed.

Lemma bin_end_loop_spec ms d id l x : id = toff l + x -> x < 8 ^ N.of_nat l ->
  forall k level e, (level <= l)%nat -> (l < level + k)%nat ->
    bin_end_loop k level (toff level) (8 ^ N.of_nat level) ms d id = Some e ->
    e = N.shiftl (x + 1) (sh ms d l) - 1.
Proof.
  intros Hid Hx. induction k as [|k IH]; intros level e Hle Hlt H; [lia|].
  cbn [bin_end_loop] in H.
  destruct (Nat.eq_dec level l) as [Heq|Hne].
  - subst level. replace (id - toff l) with x in H by lia.
    replace (x <? 8 ^ N.of_nat l) with true in H by lia.
    fold (sh ms d l) in H.
    destruct ((sh ms d l <? 64) && (N.shiftl (x + 1) (sh ms d l) <? usize_lim)); [|discriminate].
    injection H as H. lia.
  - assert (Hge : toff (S level) <= toff l) by (apply toff_le_mono; lia).
    rewrite toff_succ in Hge.
    replace (id - toff level <? 8 ^ N.of_nat level) with false in H by lia.
    destruct (8 ^ N.of_nat level * 8 <? usize_lim); [|discriminate].
    rewrite <- toff_succ, <- pow8_succ in H. apply (IH (S level) e); [lia|lia|exact H].
Qed.

Lemma bin_end_spec ms d l x e : (l <= d)%nat -> x < 8 ^ N.of_nat l ->
  bin_end ms d (toff l + x) = Some e -> e = N.shiftl (x + 1) (sh ms d l) - 1.
Proof.
  intros Hl Hx H. unfold bin_end in H.
  apply (bin_end_loop_spec ms d (toff l + x) l x eq_refl Hx (S d) O e); [lia|lia|].
  exact H.
Qed.

Lemma shiftr_lt_pow8 ms d l b : (l <= d)%nat -> N.shiftr b (ms + 3 * N.of_nat d) = 0 ->
  N.shiftr b (sh ms d l) < 8 ^ N.of_nat l.
Proof.
  intros Hl Hb. rewrite N.shiftr_div_pow2 in *. unfold sh.
  assert (Hp: 0 < 2 ^ (ms + 3 * N.of_nat d)) by (apply N.neq_0_lt_0, N.pow_nonzero; lia).
  assert (Hlt : b < 2 ^ (ms + 3 * N.of_nat d)).
  { destruct (N.lt_ge_cases b (2 ^ (ms + 3 * N.of_nat d))) as [?|Hge]; [assumption|].
    pose proof (N.div_le_mono _ _ (2 ^ (ms + 3 * N.of_nat d)) ltac:(lia) Hge) as Hx.
    rewrite N.div_same in Hx by lia. lia. }
  apply N.div_lt_upper_bound; [apply N.pow_nonzero; lia|].
  replace (8 ^ N.of_nat l) with (2 ^ (3 * N.of_nat l)) by (rewrite N.pow_mul_r; reflexivity).
  rewrite <- N.pow_add_r.
  replace (ms + 3 * N.of_nat (d - l) + 3 * N.of_nat l) with (ms + 3 * N.of_nat d) by lia.
  exact Hlt.
Qed.

(* the bin of a feature does not end before any position at or before the feature's end *)
Lemma bin_of_feature_qualifies ms d fs fe q0 :
  1 <= fs -> fs <= fe -> fe <= max_position ms d -> q0 <= fe - 1 ->
  bin_qualifies ms d q0 (reg2bin ms d fs fe) = true.
Proof.
  intros H1 H2 H3 Hq. unfold bin_qualifies.
  destruct (bin_end ms d (reg2bin ms d fs fe)) as [e|] eqn:E; [|reflexivity].
  assert (He0 : N.shiftr (fe - 1) (ms + 3 * N.of_nat d) = 0).
  { unfold max_position in H3. rewrite N.shiftr_div_pow2. apply N.div_small.
    assert (0 < 2 ^ (ms + 3 * N.of_nat d)) by (apply N.neq_0_lt_0, N.pow_nonzero; lia). lia. }
  destruct (reg2bin_contains ms d (fs - 1) (fe - 1) ltac:(lia) He0) as (l & Hl & Heq & Hsame).
  unfold reg2bin in E. rewrite Heq in E.
  assert (Hb0 : N.shiftr (fs - 1) (ms + 3 * N.of_nat d) = 0).
  { pose proof (shiftr_mono (fs - 1) (fe - 1) (ms + 3 * N.of_nat d) ltac:(lia)). lia. }
  pose proof (shiftr_lt_pow8 ms d l (fs - 1) Hl Hb0) as Hx.
  apply (bin_end_spec ms d l _ e Hl Hx) in E. subst e.
  rewrite Hsame. rewrite N.shiftl_mul_pow2, N.shiftr_div_pow2.
  assert (Hp : 0 < 2 ^ sh ms d l) by (apply N.neq_0_lt_0, N.pow_nonzero; lia).
  pose proof (N.div_mod (fe - 1) (2 ^ sh ms d l) ltac:(lia)) as Hdm.
  pose proof (N.mod_lt (fe - 1) (2 ^ sh ms d l) ltac:(lia)) as Hml.
  set (qv := (fe - 1) / 2 ^ sh ms d l) in *. set (pw := 2 ^ sh ms d l) in *. nia.
Qed.

Section Binned.
  Variables (ms : N) (d : nat).

  Definition LoffInv (ix : refidx) (D : rec -> Prop) : Prop :=
    forall r, D r -> exists v, loff_get (loffs ix) (binof ms d r) = Some v /\ v <= r_a r.

  Lemma loffinv_step ix (D : rec -> Prop) r : LoffInv ix D ->
    LoffInv (update ms d ix r) (fun x => D x \/ x = r).
  Proof.
    intros HI x Hx. unfold update. cbn [loffs]. fold (binof ms d r).
    destruct (loff_get_update_same (loffs ix) (binof ms d r) (r_a r)) as (v & Hv & Hva & Hvold).
    destruct Hx as [Hx|Hx].
    - destruct (HI x Hx) as (v0 & Hv0 & Hle).
      destruct (N.eq_dec (binof ms d x) (binof ms d r)) as [Heq|Hne].
      + rewrite Heq in *. exists v. split; [exact Hv|]. specialize (Hvold v0 Hv0). lia.
      + rewrite loff_get_update_other by exact Hne. exists v0. auto.
    - subst x. exists v. auto.
  Qed.

  Lemma loffinv_fold : forall recs ix (D : rec -> Prop), LoffInv ix D ->
    LoffInv (fold_left (update ms d) recs ix) (fun x => D x \/ In x recs).
  Proof.
    induction recs as [|r rest IH]; intros ix D HI; cbn [fold_left].
    - intros x [Hx|[]]. apply HI. exact Hx.
    - intros x Hx. apply (IH _ _ (loffinv_step ix D r HI)). cbn [In] in Hx.
      destruct Hx as [Hx|[Hx|Hx]]; [left; left; exact Hx|left; right; symmetry; exact Hx|right; exact Hx].
  Qed.

  Lemma build_loffinv k file : LoffInv (build_ref ms d k file) (fun x => In x file /\ on_ref k x = true).
  Proof.
    intros x [Hx Hk]. unfold build_ref.
    apply (loffinv_fold (filter (on_ref k) file) empty_ref (fun _ => False)).
    - intros y [].
    - right. apply filter_In. auto.
  Qed.

  Theorem binned_min_offset_sound k file qs qe r :
    spans_ok ms d file -> 1 <= qs ->
    In r file -> intersects k qs qe r = true ->
    binned_min_offset ms d (loffs (build_ref ms d k file)) qs <= r_a r.
  Proof.
    intros Hsp Hq Hr Hint.
    unfold intersects in Hint. apply andb_prop in Hint. destruct Hint as [Hint H3].
    apply andb_prop in Hint. destruct Hint as [H1 H2].
    destruct (build_loffinv k file r (conj Hr H1)) as (v & Hget & Hle).
    destruct (Hsp r Hr) as (Hs1 & Hs2 & Hs3).
    unfold binned_min_offset.
    set (lm := loffs (build_ref ms d k file)) in *.
    assert (Hin : In v (map snd (filter (fun kv => bin_qualifies ms d (qs - 1) (fst kv)) lm))).
    { apply in_map_iff. exists (binof ms d r, v). split; [reflexivity|]. apply filter_In.
      split; [apply loff_get_in; exact Hget|]. cbn [fst]. unfold binof.
      apply bin_of_feature_qualifies; lia. }
    destruct (list_min_le _ _ Hin) as (m & Hm & Hmle). rewrite Hm. lia.
  Qed.

  Theorem query_equals_scan_binned k file qs qe :
    offsets_ordered 0 file -> spans_ok ms d file ->
    1 <= qs -> qs <= qe -> qe <= max_position ms d ->
    query_records Binned ms d file k qs qe = Some (scan_records file k qs qe).
  Proof.
    intros Ho Hsp Hq1 Hq2 Hq3. apply query_equals_scan_generic; auto.
    intros r Hr Hint. cbn [min_offset]. eapply binned_min_offset_sound; eauto.
  Qed.
End Binned.
