(* C17 -- the CSI loffset re-read on ARBITRARY (hostile but well-formed) indexes: any min_shift, any
   depth (0 included), NO bound on min_shift + 3*depth, bin ids inside or outside the geometry.
   The writer stores for each bin the minimum over the bin and the chain of its present ancestors
   (first_record_start_position knows nothing of the depth), so
     * the re-read min_offset is never ABOVE the original one: a query on the re-read index keeps
       every chunk the original answer kept -- nothing a query covered is lost by write + read;
     * it is the same when the keys are in the scheme (CsiLoffsetProofs.csi_reread_min_offset);
     * with a bin id OUTSIDE the scheme it can be strictly below: such a bin qualifies for every
       query (bin_end = None), and after the re-read it carries the loffset of an in-scheme parent
       that does not qualify -- the query answer grows ([csi_reread_out_of_scheme_differs]). *)
From Coq Require Import List Arith NArith Bool Lia.
From Coq Require Import ZifyBool ZifyNat ZifyN.
From NV Require Import Index.Bins Index.Chunks Index.ChunksProofs Index.Indexer Index.BinnedProofs
  Index.CsiLoffset Index.CsiLoffsetProofs.
Import ListNotations.
Open Scope N_scope.

Lemma loff_get_of_in : forall lm a v, NoDup (map fst lm) -> In (a, v) lm -> loff_get lm a = Some v.
Proof.
  induction lm as [|[k w] rest IH]; intros a v Hnd Hin; [destruct Hin|].
  cbn [map fst] in Hnd. apply NoDup_cons_iff in Hnd. destruct Hnd as [Hni Hnd].
  cbn [loff_get]. destruct Hin as [Heq|Hin].
  - injection Heq as Hk Hw. subst k w. rewrite N.eqb_refl. reflexivity.
  - destruct (k =? a) eqn:E; [|apply IH; assumption].
    exfalso. apply Hni. apply in_map_iff. exists (a, v). split; [cbn [fst]; lia|exact Hin].
Qed.

Lemma stored_loffset_le : forall lm a v, NoDup (map fst lm) -> In (a, v) lm -> stored_loffset lm a <= v.
Proof.
  intros lm a v Hnd Hin. rewrite (stored_loffset_eq lm a v (loff_get_of_in lm a v Hnd Hin)).
  apply chain_min_le.
Qed.

(* no premise on the geometry or on the ids *)
Theorem csi_reread_min_offset_any_le : forall ms d bm lm s,
  NoDup (map fst lm) ->
  (forall id, In id (map fst bm) <-> In id (map fst lm)) ->
  binned_min_offset ms d (reread_loffs bm lm) s <= binned_min_offset ms d lm s.
Proof.
  intros ms d bm lm s Hnd Hkeys. unfold binned_min_offset.
  fold (qvals ms d (s - 1) (reread_loffs bm lm)). fold (qvals ms d (s - 1) lm).
  destruct (list_min (qvals ms d (s - 1) lm)) as [m|] eqn:E.
  - pose proof (list_min_some_in _ _ E) as Hm. apply in_qvals in Hm.
    destruct Hm as (a & Hin & Hq).
    assert (Habm : In a (map fst bm)).
    { apply Hkeys. apply in_map_iff. exists (a, m). auto. }
    apply in_map_iff in Habm. destruct Habm as ([a' cs] & Ha' & Hbm). cbn [fst] in Ha'. subst a'.
    assert (Hr : In (stored_loffset lm a) (qvals ms d (s - 1) (reread_loffs bm lm))).
    { apply in_qvals. exists a. split; [|exact Hq]. unfold reread_loffs. apply in_map_iff.
      exists (a, cs). auto. }
    destruct (list_min_le _ _ Hr) as (m' & Hm' & Hle). rewrite Hm'.
    pose proof (stored_loffset_le lm a m Hnd Hin). lia.
  - destruct (list_min (qvals ms d (s - 1) (reread_loffs bm lm))) as [m'|] eqn:E'; [|lia].
    exfalso. pose proof (list_min_some_in _ _ E') as Hm. apply in_qvals in Hm.
    destruct Hm as (a & Hin & Hq). unfold reread_loffs in Hin. apply in_map_iff in Hin.
    destruct Hin as ([a' cs] & Heq & Hbm). cbn [fst] in Heq. injection Heq as Ha _. subst a'.
    assert (Halm : In a (map fst lm)).
    { apply Hkeys. apply in_map_iff. exists (a, cs). auto. }
    apply in_map_iff in Halm. destruct Halm as ([a'' v0] & Ha'' & Hlm). cbn [fst] in Ha''. subst a''.
    apply list_min_none in E.
    assert (Hv : In v0 (qvals ms d (s - 1) lm)) by (apply in_qvals; exists a; auto).
    rewrite E in Hv. destruct Hv.
Qed.

(* a lower min_offset keeps more: every point the original answer covers is covered afterwards *)
Lemma optimize_chunks_mono : forall cs m m' v, m' <= m ->
  covered (optimize_chunks cs m) v -> covered (optimize_chunks cs m') v.
Proof.
  intros cs m m' v Hle H. apply optimize_chunks_covered in H. destruct H as (c & Hc & Hm & Hv).
  apply optimize_chunks_covered. exists c. split; [exact Hc|]. split; [lia|exact Hv].
Qed.

Theorem csi_reread_query_covers_any : forall ms d bm ln lm qs qe cs,
  NoDup (map fst lm) ->
  (forall id, In id (map fst bm) <-> In id (map fst lm)) ->
  query Binned ms d (mkref bm ln lm) qs qe = Some cs ->
  exists cs', query Binned ms d (mkref bm ln (reread_loffs bm lm)) qs qe = Some cs' /\
              forall v, covered cs v -> covered cs' v.
Proof.
  intros ms d bm ln lm qs qe cs Hnd Hkeys H. unfold query in *.
  destruct ((max_position ms d <? qs) || (max_position ms d <? qe)); [discriminate H|].
  injection H as H. subst cs. eexists. split; [reflexivity|].
  intros v Hv. unfold query_chunks in *. cbn [bins min_offset loffs] in *.
  apply (optimize_chunks_mono _ _ _ v (csi_reread_min_offset_any_le ms d bm lm qs Hnd Hkeys)). exact Hv.
Qed.

(* the witness: geometry (14,1) -- ids 0..8 --, bins 2 (loffset 10), 20 (outside the scheme; parent
   2; loffset 1000) and 3 (loffset 2000).  A query in bin 3: bin 2 ends before it, bin 20 qualifies
   unconditionally.  Before: min_offset 1000, the chunk 500..900 of bin 3 is pruned; after the
   re-read bin 20 carries 10: min_offset 10, the chunk is kept. *)
Definition hostile_bins : binmap := [(2, [(10, 20)]); (20, [(1000, 1100)]); (3, [(500, 900); (2000, 3000)])].
Definition hostile_loffs : loffmap := [(2, 10); (20, 1000); (3, 2000)].

Theorem csi_reread_out_of_scheme_differs :
  NoDup (map fst hostile_loffs) /\
  (forall id, In id (map fst hostile_bins) <-> In id (map fst hostile_loffs)) /\
  query Binned 14 1 (mkref hostile_bins [] hostile_loffs) 40000 40001 = Some [(2000, 3000)] /\
  query Binned 14 1 (mkref hostile_bins [] (reread_loffs hostile_bins hostile_loffs)) 40000 40001
  = Some [(500, 900); (2000, 3000)].
Proof.
  split.
  { cbn [hostile_loffs map fst]. repeat constructor; cbn [In]; intuition discriminate. }
  split; [intros id; cbn [hostile_bins hostile_loffs map fst In]; tauto|].
  split; vm_compute; reflexivity.
Qed.
