(* The executed form of NV.Index.Formats.fmt_query: the same function over query_fast (bin
   membership decided level by level), proved equal. *)
From Coq Require Import List Arith NArith Bool.
From NV Require Import Index.Bins Index.Chunks Index.Indexer Index.QueryFast Index.AlignEnd Index.Formats.
Import ListNotations.
Open Scope N_scope.

Definition fmt_query_fast (A : Type) (oa : A -> N) (hit : N -> region -> A -> option bool)
    (kd : kind) (ms : N) (d : nat) (ixs : list refidx) (l : list A) (k : N) (iv : region) : qres A :=
  match nth_error ixs (N.to_nat k) with
  | None => QInvalid
  | Some ix =>
      match query_fast kd ms d ix (iv_start iv) (iv_end_query ms d iv) with
      | None => QInvalid
      | Some cs =>
          match filter_res (hit k iv) (chunk_read_f A oa cs l) with
          | None => QRecErr
          | Some r => QOk r
          end
      end
  end.

Theorem fmt_query_fast_eq A oa hit kd ms d ixs l k iv :
  fmt_query_fast A oa hit kd ms d ixs l k iv = fmt_query A oa hit kd ms d ixs l k iv.
Proof. unfold fmt_query_fast, fmt_query. destruct (nth_error ixs (N.to_nat k)); [|reflexivity]. rewrite query_fast_eq. reflexivity. Qed.

Definition bam_query_fast := fmt_query_fast bam_rec b_a bam_hit.
