(* C04, seventh deepening: bam::io::Reader::query_unmapped over the BYTES of a BAM file, and
   sessions that mix it with region queries on ONE reader object.

     noodles-bam/src/io/reader.rs query_unmapped:
       if let Some(pos) = index.last_first_record_start_position() {
           self.get_mut().seek_to_virtual_position(pos)?;
       } else {
           self.seek_to_first_record()?;     // seek_to_virtual_position(0)?; read_header()?
       }
       Ok(self.records().filter_map(.. record.flags().is_unmapped() ..))

   Index::last_first_record_start_position is NV.Index.Formats.unmapped_start (the last reference
   sequence, from the back, whose linear index has a last element / whose binned index has a
   maximum loffset).  Records = bam::io::Reader::read_record over the plain bgzf reader until it
   returns 0 (NV.Index.ByteQuery.bam_read_record); flags() cannot fail.  read_header is "hl bytes
   are read" as in NV.Index.ByteQuery.after_header (its parsing is C06's).
   Definitions only; proofs in ByteUnmappedProofs.v. *)
From Coq Require Import List Arith NArith Bool.
From NV Require Import Base.LE Bgzf.Vpos Bgzf.Gzi Bgzf.ReaderOps Index.Bins Index.Chunks Index.Indexer
  Index.QueryFast Index.AlignEnd Index.Formats Index.ByteQuery Index.ByteIndex Index.ByteIndexLazy.
Import ListNotations.
Open Scope N_scope.

(* one step of a session on one reader *)
Inductive bop := OpRegion (q : N * region) | OpUnmapped.

Section ByteUnm.
  Variable dec : list N -> bam_dec.
  Variable bsz : N -> N.
  Variable Q : qfun.

  (* the filter of query_unmapped: flags().is_unmapped(), never an error *)
  Definition unm_keep (b : list N) : option bool := Some (d_unm (dec b)).

  (* self.records() drained through the filter, on the plain reader *)
  Definition read_unmapped (f : file) (st : state) : state * res (list (list N)) :=
    read_records_keep state (read true) bsz unm_keep (scan_fuel f) st [].

  (* Reader::query_unmapped(index), all records collected; hl = length of the header *)
  Definition byte_bam_unmapped (f : file) (hl : N) (st : state) (kd : kind) (ixs : list refidx)
      : state * res (list (list N)) :=
    match unmapped_start kd ixs with
    | Some pos =>
        match seek true f st pos with
        | (st1, Ok _) => read_unmapped f st1
        | (st1, e) => (st1, res_cast e)
        end
    | None =>
        (* seek_to_first_record *)
        match seek true f st 0 with
        | (st1, Ok _) =>
            match read_exact_std true st1 hl with
            | (st2, Ok _) => read_unmapped f st2
            | (st2, e) => (st2, res_cast e)
            end
        | (st1, e) => (st1, res_cast e)
        end
    end.

  (* region queries and unmapped queries one after the other on the same reader object *)
  Fixpoint byte_bam_ops (f : file) (hl : N) (st : state) (kd : kind) (ms : N) (d : nat) (nref : nat)
      (ixs : list refidx) (ops : list bop) : list bqres :=
    match ops with
    | [] => []
    | OpRegion q :: t =>
        let '(st1, r) := byte_bam_query dec bsz Q f st kd ms d nref ixs q in
        r :: byte_bam_ops f hl st1 kd ms d nref ixs t
    | OpUnmapped :: t =>
        let '(st1, r) := byte_bam_unmapped f hl st kd ixs in
        BRead r :: byte_bam_ops f hl st1 kd ms d nref ixs t
    end.

  (* one reader: header, bam::fs::index's loop, then the steps on the reader as the loop left it *)
  Definition byte_bam_ops_session (f : file) (hl : N) (kd : kind) (ms : N) (d : nat) (nref : nat)
      (ops : list bop) : ixres * list bqres :=
    match after_header f hl with
    | (st, Ok _) =>
        match index_from dec bsz f st with
        | (st1, IxOk L) => (IxOk L, byte_bam_ops f hl st1 kd ms d nref (built dec ms d nref L) ops)
        | (_, e) => (e, [])
        end
    | (_, e) => (IxRead (res_cast e), [])
    end.
End ByteUnm.

(* the executed form *)
Definition byte_bam_ops_session_x := byte_bam_ops_session lazy_dec bsz_whole query_fast.
