From Coq Require Import List Arith NArith Lia Sorted.
From Coq Require Import ZifyBool ZifyNat ZifyN.
From NV Require Import Index.Chunks.
Import ListNotations.
Open Scope N_scope.

(* ---------- sorting ---------- *)
Definition le_start (a b : chunk) : Prop := cstart a <= cstart b.

Lemma insert_in c cs x : In x (insert_by_start c cs) <-> x = c \/ In x cs.
Proof.
  induction cs as [|y ys IH]; cbn [insert_by_start In].
  - intuition.
  - destruct (cstart c <? cstart y); cbn [In]; rewrite ?IH; intuition.
Qed.

Lemma sort_in cs x : In x (sort_by_start cs) <-> In x cs.
Proof.
  induction cs as [|y ys IH]; cbn [sort_by_start fold_right In]; [tauto|].
  fold (sort_by_start ys). rewrite insert_in, IH. intuition.
Qed.

Lemma insert_sorted c cs : StronglySorted le_start cs -> StronglySorted le_start (insert_by_start c cs).
Proof.
  induction 1 as [|y ys Hs IH Hall]; cbn [insert_by_start].
  - constructor; constructor.
  - destruct (cstart c <? cstart y) eqn:E.
    + constructor; [constructor; assumption|]. constructor; [unfold le_start; lia|].
      rewrite Forall_forall in *. intros z Hz. specialize (Hall z Hz). unfold le_start in *. lia.
    + constructor; [exact IH|]. rewrite Forall_forall in *. intros z Hz.
      apply insert_in in Hz. destruct Hz as [->|Hz]; [unfold le_start; lia|auto].
Qed.

Lemma sort_sorted cs : StronglySorted le_start (sort_by_start cs).
Proof.
  induction cs as [|y ys IH]; cbn [sort_by_start fold_right]; [constructor|].
  apply insert_sorted. exact IH.
Qed.

(* ---------- merge loop ---------- *)
Lemma merge_loop_covered : forall rest cur v,
  StronglySorted le_start (cur :: rest) ->
  (covered (merge_loop cur rest) v <-> covered (cur :: rest) v).
Proof.
  induction rest as [|nx rest IH]; intros cur v Hs; cbn [merge_loop]; [tauto|].
  inversion Hs as [|? ? Hs' Hall]; subst. inversion Hs' as [|? ? Hs'' Hall']; subst.
  inversion Hall as [|? ? Hcn Hall'']; subst. unfold le_start in Hcn.
  destruct (cend cur <? cstart nx) eqn:E1.
  - (* push cur *)
    unfold covered at 1. split.
    + intros (c & [<-|Hin] & Hc); [exists cur; cbn; auto|].
      assert (Hcov : covered (merge_loop nx rest) v) by (exists c; auto).
      apply IH in Hcov; [|assumption]. destruct Hcov as (c' & Hin' & Hc'). exists c'. cbn [In] in *. tauto.
    + intros (c & [<-|Hin] & Hc); [exists cur; cbn; auto|].
      assert (Hcov : covered (nx :: rest) v) by (exists c; auto).
      apply IH in Hcov; [|assumption]. destruct Hcov as (c' & Hin' & Hc'). exists c'. cbn [In]. tauto.
  - assert (Hsorted_new : forall e, StronglySorted le_start ((cstart cur, e) :: rest)).
    { intros e. constructor; [assumption|]. rewrite Forall_forall in *. intros z Hz.
      specialize (Hall'' z Hz). unfold le_start in *. cbn [cstart fst]. exact Hall''. }
    destruct (cend cur <? cend nx) eqn:E2.
    + rewrite IH by apply Hsorted_new. unfold covered, covers. split.
      * intros (c & [<-|Hin] & Hc); cbn [cstart cend fst snd] in Hc.
        -- destruct (v <? cend cur) eqn:E3; [exists cur|exists nx]; cbn [In]; unfold cstart, cend in *; split; auto; lia.
        -- exists c. cbn [In]. auto.
      * intros (c & [Heq|[Heq|Hin]] & Hc); try subst c.
        -- exists (cstart cur, cend nx). cbn [In cstart cend fst snd]. split; [auto|]. unfold cstart, cend in *. lia.
        -- exists (cstart cur, cend nx). cbn [In cstart cend fst snd]. split; [auto|]. unfold cstart, cend in *. lia.
        -- exists c. cbn [In]. auto.
    + assert (Hs2 : StronglySorted le_start (cur :: rest)).
      { destruct cur as [a b]. apply (Hsorted_new b). }
      rewrite IH by exact Hs2. unfold covered, covers. split.
      * intros (c & [Heq|Hin] & Hc); exists c; cbn [In]; auto.
      * intros (c & [Heq|[Heq|Hin]] & Hc); try subst c.
        -- exists cur. cbn [In]. auto.
        -- exists cur. cbn [In]. split; [auto|]. unfold cstart, cend in *. lia.
        -- exists c. cbn [In]. auto.
Qed.

Theorem optimize_chunks_covered cs m v :
  covered (optimize_chunks cs m) v <-> exists c, In c cs /\ m < cend c /\ covers c v.
Proof.
  unfold optimize_chunks.
  pose proof (sort_sorted (filter (fun c => m <? cend c) cs)) as Hs.
  assert (Hin : forall c, In c (sort_by_start (filter (fun c => m <? cend c) cs)) <-> In c cs /\ m < cend c).
  { intros c. rewrite sort_in, filter_In. rewrite N.ltb_lt. tauto. }
  destruct (sort_by_start (filter (fun c => m <? cend c) cs)) as [|c0 rest].
  - split.
    + intros (c & [] & _).
    + intros (c & Hc & Hm & _). exfalso. apply (proj2 (Hin c)). auto.
  - rewrite merge_loop_covered by exact Hs. unfold covered. split.
    + intros (c & Hc & Hv). exists c. apply Hin in Hc. tauto.
    + intros (c & Hc & Hm & Hv). exists c. split; [apply Hin; auto|exact Hv].
Qed.

(* the retained-chunk direction, which is the property statement *)
Corollary optimize_chunks_covers cs m c v :
  In c cs -> m < cend c -> covers c v -> covered (optimize_chunks cs m) v.
Proof. intros. apply optimize_chunks_covered. exists c. auto. Qed.

Corollary merge_chunks_covered cs v :
  (forall c, In c cs -> 0 < cend c) -> (covered (merge_chunks cs) v <-> covered cs v).
Proof.
  intros H. unfold merge_chunks. rewrite optimize_chunks_covered. unfold covered. split.
  - intros (c & ? & ? & ?). exists c. auto.
  - intros (c & ? & ?). exists c. auto.
Qed.

(* output shape: sorted by start, and consecutive chunks strictly separated *)
Inductive separated : list chunk -> Prop :=
| sep_nil : separated []
| sep_one c : separated [c]
| sep_cons a b rest : cend a < cstart b -> separated (b :: rest) -> separated (a :: b :: rest).

Lemma merge_loop_head rest : forall cur, exists e tl, merge_loop cur rest = (cstart cur, e) :: tl.
Proof.
  induction rest as [|nx rest IH]; intros cur; cbn [merge_loop].
  - destruct cur as [a b]. exists b, []. reflexivity.
  - destruct (cend cur <? cstart nx).
    + destruct cur as [a b]. exists b. eexists. reflexivity.
    + destruct (cend cur <? cend nx); [destruct (IH (cstart cur, cend nx)) as (e & tl & H)|destruct (IH cur) as (e & tl & H)];
        rewrite H; eauto.
Qed.

Lemma merge_loop_separated : forall rest cur, separated (merge_loop cur rest).
Proof.
  induction rest as [|nx rest IH]; intros cur; cbn [merge_loop]; [constructor|].
  destruct (cend cur <? cstart nx) eqn:E1.
  - destruct (merge_loop_head rest nx) as (e & tl & H). specialize (IH nx). rewrite H in *.
    constructor; [cbn [cstart fst]; lia|exact IH].
  - destruct (cend cur <? cend nx); apply IH.
Qed.

Theorem optimize_chunks_separated cs m : separated (optimize_chunks cs m).
Proof.
  unfold optimize_chunks. destruct (sort_by_start _) as [|c rest]; [constructor|apply merge_loop_separated].
Qed.

(* ---------- add_chunk ---------- *)
Lemma add_chunk_covered : forall cs c v,
  (forall l, last cs c = l -> cs <> [] -> cstart l <= cstart c /\ cend l <= cend c) ->
  (covered (add_chunk cs c) v <-> covered cs v \/ covers c v).
Proof.
  induction cs as [|x rest IH]; intros c v Hmono.
  - cbn [add_chunk]. unfold covered. cbn [In]. split.
    + intros (c' & [Heq|[]] & H). subst c'. auto.
    + intros [(c' & [] & _)|H]. exists c. auto.
  - destruct rest as [|y rest'].
    + cbn [add_chunk]. destruct (Hmono x eq_refl ltac:(discriminate)) as [H1 H2].
      destruct (cstart c <=? cend x) eqn:E; unfold covered, covers; cbn [In]; split.
      * intros (c' & [Heq|[]] & Hc). subst c'. cbn [cstart cend fst snd] in Hc.
        destruct (v <? cend x) eqn:E2; [left; exists x; split; [auto|lia]|right; lia].
      * intros [(c' & [Heq|[]] & Hc)|Hc]; try subst c'; exists (cstart x, cend c); cbn [cstart cend fst snd] in *; (split; [auto|lia]).
      * intros (c' & [Heq|[Heq|[]]] & Hc); subst c'; [left; exists x; auto|right; auto].
      * intros [(c' & [Heq|[]] & Hc)|Hc]; [exists c'; auto|exists c; auto].
    + change (add_chunk (x :: y :: rest') c) with (x :: add_chunk (y :: rest') c).
      assert (Hm' : forall l, last (y :: rest') c = l -> y :: rest' <> [] -> cstart l <= cstart c /\ cend l <= cend c).
      { intros l Hl _. apply Hmono; [exact Hl|discriminate]. }
      specialize (IH c v Hm'). unfold covered in *. cbn [In]. split.
      * intros (c' & [Heq|Hin] & Hc); [left; exists c'; auto|].
        destruct (proj1 IH (ex_intro _ c' (conj Hin Hc))) as [(c'' & Hin'' & Hc'')|Hc'']; [left; exists c''; auto|right; auto].
      * intros [(c' & [Heq|Hin] & Hc)|Hc].
        -- exists c'. auto.
        -- destruct (proj2 IH (or_introl (ex_intro _ c' (conj Hin Hc)))) as (c'' & ? & ?). exists c''. auto.
        -- destruct (proj2 IH (or_intror Hc)) as (c'' & ? & ?). exists c''. auto.
Qed.
